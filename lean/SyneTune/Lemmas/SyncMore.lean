import SyneTune.Lemmas.SyncRun
/- Lemmas behind C13-sync and C20-sync: slots are only ever changed by answering them, a
trial of a higher rung comes from the top list of the rung below, non-promoted trials
stay non-promoted. -/
namespace SyneTune.Sync
open SyneTune

/-! ### slots under `on_result` -/

/-- all slots except the answered one are untouched by `on_result`; the answered one holds
the result -/
theorem slot_preserved {br res rg x br' np} (hl : LegalRes br res rg x) (hc : ResultCase br res rg br' np) :
    (∀ (k : Nat) (rgk : Rung) (p : Nat) (y : Slot), br.rungs[k]? = some rgk → rgk.slots[p]? = some y → (k, p) ≠ (br.current, res.slotIndex) →
      ∃ rgk', br'.rungs[k]? = some rgk' ∧ rgk'.slots[p]? = some y ∧ rgk'.level = rgk.level) ∧
    (∃ rg', br'.rungs[br.current]? = some rg' ∧ rg'.slots[res.slotIndex]? = some ⟨res.tid, res.metric⟩) := by
  have hcur := written_cur hl
  have hwr : ∀ (k : Nat) (rgk : Rung) (p : Nat) (y : Slot), (br.written rg res).rungs[k]? = some rgk → rgk.slots[p]? = some y →
      ∃ rgk', br'.rungs[k]? = some rgk' ∧ rgk'.slots[p]? = some y ∧ rgk'.level = rgk.level := by
    intro k rgk p y hk hp
    cases hc with
    | stay _ => exact ⟨rgk, hk, hp, rfl⟩
    | last _ _ => exact ⟨rgk, hk, hp, rfl⟩
    | promote _ _ _ _ _ _ _ =>
      refine ⟨rgk, ?_, hp, rfl⟩
      change ((br.written rg res).rungs ++ [_])[k]? = some rgk
      rw [List.getElem?_append_left (getElem?_lt hk)]; exact hk
  constructor
  · intro k rgk p y hk hp hne
    by_cases hkc : k = br.current
    · subst hkc
      rw [hl.hrg] at hk
      have : rgk = rg := (Option.some.inj hk).symm
      subst this
      have hpne : res.slotIndex ≠ p := by
        intro h; apply hne; rw [h]
      obtain ⟨r', h1, h2, h3⟩ := hwr br.current (rgk.write res) p y hcur (by
        simp only [Rung.write, List.getElem?_set_ne hpne]; exact hp)
      exact ⟨r', h1, h2, h3⟩
    · exact hwr k rgk p y ((written_other k hkc).trans hk) hp
  · have hlt : res.slotIndex < rg.slots.length := getElem?_lt hl.hsl
    obtain ⟨r', h1, h2, _⟩ := hwr br.current (rg.write res) res.slotIndex ⟨res.tid, res.metric⟩ hcur (by
      simp only [Rung.write, List.getElem?_set_self hlt])
    exact ⟨r', h1, h2⟩

/-- slot `(id, k, p)` of the manager holds `y` -/
def Manager.SlotAt (g : Manager) (id k p : Nat) (y : Slot) : Prop :=
  ∃ br rg, g.brackets[id]? = some br ∧ br.rungs[k]? = some rg ∧ rg.slots[p]? = some y

theorem slotAt_after_report {g g' : Manager} {id : Nat} {br br' res rg x np}
    (hbr : g.brackets[id]? = some br) (hl : LegalRes br res rg x) (hc : ResultCase br res rg br' np)
    (hmr : MgrRes g id br' g') :
    (∀ (j k p : Nat) (y : Slot), g.SlotAt j k p y → (j, k, p) ≠ (id, br.current, res.slotIndex) → g'.SlotAt j k p y) ∧
    g'.SlotAt id br.current res.slotIndex ⟨res.tid, res.metric⟩ := by
  have hold := brackets_after_old hbr hmr
  have hsp := slot_preserved hl hc
  constructor
  · rintro j k p y ⟨b, rgk, hb, hk, hp⟩ hne
    by_cases hj : j = id
    · subst hj
      rw [hbr] at hb
      have : b = br := (Option.some.inj hb).symm
      subst this
      obtain ⟨rgk', h1, h2, _⟩ := hsp.1 k rgk p y hk hp (by
        intro h; apply hne
        injection h with h1 h2
        rw [h1, h2])
      exact ⟨br', rgk', hold.1, h1, h2⟩
    · exact ⟨b, rgk, hold.2 j b hj hb, hk, hp⟩
  · obtain ⟨rg', h1, h2⟩ := hsp.2
    exact ⟨br', rg', hold.1, h1, h2⟩

theorem slotAt_after_job {g g1 id sl br rg x} (hs : JobStruct g g1 id sl br rg x) (j k p : Nat) (y : Slot)
    (h : g.SlotAt j k p y) : g1.SlotAt j k p y := by
  obtain ⟨b, rgk, hb, hk, hp⟩ := h
  by_cases hj : j = id
  · subst hj
    rcases hs.old with ho | ⟨hn, _, _⟩
    · rw [ho] at hb
      have : b = br := (Option.some.inj hb).symm
      subst this
      exact ⟨bump b, rgk, hs.atId, hk, hp⟩
    · rw [hn] at hb; cases hb
  · exact ⟨b, rgk, hs.keep j b hj hb, hk, hp⟩

/-! ### a trial in a higher rung stems from the top list of the rung below -/

theorem mem_ids_iff (rg : Rung) (t : Nat) : t ∈ rg.ids ↔ ∃ (q : Nat) (y : Slot), rg.slots[q]? = some y ∧ y.tid = some t := by
  unfold Rung.ids
  rw [List.mem_filterMap]
  constructor
  · rintro ⟨y, hy, ht⟩
    obtain ⟨q, hq⟩ := List.mem_iff_getElem?.mp hy
    exact ⟨q, y, hq, ht⟩
  · rintro ⟨q, y, hq, ht⟩
    exact ⟨y, List.mem_of_getElem? hq, ht⟩

/-- a slot of rung `j+1` holding `t` either has `t` from the top list of rung `j` — then `t`
has an entry in rung `j` which is in the top list — or `t` occurs in no rung below -/
theorem from_top {spec br} (hb : BWF spec br) (j : Nat) (prev next : Rung) (q : Nat) (y : Slot) (t : Nat)
    (hprev : br.rungs[j]? = some prev) (hnext : br.rungs[j + 1]? = some next)
    (hq : next.slots[q]? = some y) (ht : y.tid = some t) :
    (∃ es sel, entriesOf prev.slots = some es ∧ sel ∈ topSel es next.slots.length br.mode ∧ sel.1.1 = some t) ∨
    (y.metric.isSome = true ∧ ∀ (i : Nat) (ri : Rung), i ≤ j → br.rungs[i]? = some ri → t ∉ ri.ids) := by
  obtain ⟨es, hes, hlen, hpt⟩ := hb.top j prev next hprev hnext
  have hqlt : q < (topList es next.slots.length br.mode).length := by rw [hlen]; exact getElem?_lt hq
  have ho := List.getElem?_eq_getElem hqlt
  rcases hpt q _ y ho hq with h | ⟨_, h2⟩
  · left
    have hmem : some t ∈ topList es next.slots.length br.mode := by
      rw [← ht, h]; exact List.getElem_mem hqlt
    unfold topList at hmem
    obtain ⟨sel, hsel, hst⟩ := List.mem_map.mp hmem
    exact ⟨es, sel, hes, hsel, hst⟩
  · right
    refine ⟨(h2 t ht).1, ?_⟩
    intro i ri hi hri
    apply (h2 t ht).2 ri
    rw [List.mem_iff_getElem?]
    exact ⟨i, by rw [List.getElem?_take]; simp [Nat.lt_succ_of_le hi, hri]⟩

/-- the slot of the rung below which a selected entry stands for -/
theorem sel_slot {prev : Rung} {es : List TEntry} {n : Nat} {m : Mode} {sel : TEntry × Nat}
    (hes : entriesOf prev.slots = some es) (hsel : sel ∈ topSel es n m) :
    prev.slots[sel.2]? = some ⟨sel.1.1, some sel.1.2⟩ := by
  have hmem := topSel_mem es n m sel hsel
  have hspec := entriesOf_spec prev.slots es hes
  have hlt : sel.2 < prev.slots.length := by rw [← hspec.1]; exact getElem?_lt hmem
  have hs := List.getElem?_eq_getElem hlt
  obtain ⟨mv, hmv, hesel⟩ := hspec.2.2 sel.2 _ hs
  rw [hmem] at hesel
  have heq : sel.1 = ((prev.slots[sel.2]).tid, mv) := Option.some.inj hesel
  rw [hs]
  congr 1
  have h1 : sel.1.1 = (prev.slots[sel.2]).tid := by rw [heq]
  have h2 : sel.1.2 = mv := by rw [heq]
  cases hsl : prev.slots[sel.2] with
  | mk tid metric =>
    rw [hsl] at h1 hmv
    simp only at h1 hmv
    rw [h1, h2, hmv]

/-- a trial occurring in rung `k` and in a higher rung `j` occurs in every rung between -/
theorem ids_down {spec br} (hb : BWF spec br) (t k : Nat) (rgk : Rung) (hk : br.rungs[k]? = some rgk)
    (htk : t ∈ rgk.ids) (d : Nat) : ∀ (j : Nat) (rgj : Rung), j = k + d → br.rungs[j]? = some rgj → t ∈ rgj.ids →
      ∀ i, k ≤ i → i ≤ j → ∃ rgi, br.rungs[i]? = some rgi ∧ t ∈ rgi.ids := by
  induction d with
  | zero =>
    intro j rgj hj hrgj htj i h1 h2
    have : i = j := by omega
    subst this; exact ⟨rgj, hrgj, htj⟩
  | succ d ih =>
    intro j rgj hj hrgj htj i h1 h2
    by_cases hij : i = j
    · subst hij; exact ⟨rgj, hrgj, htj⟩
    · have hj1 : j = (j - 1) + 1 := by omega
      have hprevlt : j - 1 < br.rungs.length := by have := getElem?_lt hrgj; omega
      have hprev := List.getElem?_eq_getElem hprevlt
      obtain ⟨q, y, hq, hyt⟩ := (mem_ids_iff rgj t).mp htj
      rw [hj1] at hrgj
      rcases from_top hb (j - 1) _ rgj q y t hprev hrgj hq hyt with ⟨es, sel, hes, hsel, hst⟩ | ⟨_, hno⟩
      · have hslot := sel_slot hes hsel
        have hin : t ∈ (br.rungs[j - 1]).ids :=
          (mem_ids_iff _ t).mpr ⟨sel.2, _, hslot, hst⟩
        exact ih (j - 1) _ (by omega) hprev hin i h1 (by omega)
      · exact absurd htk (hno k rgk (by omega) hk)

/-- no completed rung of the bracket had fewer valid entries than the next rung has slots -/
def NoShortfallBr (br : Bracket) : Prop :=
  ∀ (k : Nat) (prev next : Rung) (es : List TEntry), br.rungs[k]? = some prev → br.rungs[k + 1]? = some next →
    entriesOf prev.slots = some es → next.slots.length ≤ (es.filter (fun e => !e.2.isNan)).length

/-- executable form of `NoShortfallBr` (for concrete states) -/
def noShortfallPairs : List Rung → Bool
  | prev :: next :: rest =>
    (match entriesOf prev.slots with
     | some es => decide (next.slots.length ≤ (es.filter (fun e => !e.2.isNan)).length)
     | none => true) && noShortfallPairs (next :: rest)
  | _ => true

theorem noShortfallPairs_sound (br : Bracket) (h : noShortfallPairs br.rungs = true) : NoShortfallBr br := by
  unfold NoShortfallBr
  generalize br.rungs = rungs at h
  induction rungs with
  | nil => intro k prev next es hp; simp at hp
  | cons r rest ih =>
    cases rest with
    | nil => intro k prev next es _ hn; simp at hn
    | cons r2 rest2 =>
      simp only [noShortfallPairs, Bool.and_eq_true] at h
      intro k prev next es hp hn hes
      cases k with
      | zero =>
        simp only [List.getElem?_cons_zero, Option.some.injEq] at hp
        simp only [List.getElem?_cons_succ, List.getElem?_cons_zero, Option.some.injEq] at hn
        subst hp; subst hn
        have := h.1
        rw [hes] at this
        simpa using this
      | succ k => exact ih h.2 k prev next es (by simpa using hp) (by simpa using hn) hes

/-- without shortfall, a trial of rung `j` has no failed (NaN) entry in any rung below -/
theorem no_nan_below {spec br} (hb : BWF spec br) (hns : NoShortfallBr br) (t : Nat) (j : Nat) :
    ∀ (rgj : Rung), br.rungs[j]? = some rgj → t ∈ rgj.ids →
      ∀ (k : Nat) (rgk : Rung), k < j → br.rungs[k]? = some rgk → (⟨some t, some .nan⟩ : Slot) ∉ rgk.slots := by
  induction j with
  | zero => intro rgj _ _ k rgk hk; omega
  | succ j ih =>
    intro rgj hrgj htj k rgk hk hrgk hmem
    have hprevlt : j < br.rungs.length := by have := getElem?_lt hrgj; omega
    have hprev := List.getElem?_eq_getElem hprevlt
    obtain ⟨q, y, hq, hyt⟩ := (mem_ids_iff rgj t).mp htj
    rcases from_top hb j _ rgj q y t hprev hrgj hq hyt with ⟨es, sel, hes, hsel, hst⟩ | ⟨_, hno⟩
    · have hslot := sel_slot hes hsel
      have hvalid : IsValid sel.1 := by
        apply topSel_valid es rgj.slots.length br.mode _ sel hsel
        rw [validPos_length]
        exact hns j _ rgj es hprev hrgj hes
      have hin : t ∈ (br.rungs[j]).ids := (mem_ids_iff _ t).mpr ⟨sel.2, _, hslot, hst⟩
      by_cases hkj : k = j
      · subst hkj
        rw [hprev] at hrgk
        have : rgk = br.rungs[k] := (Option.some.inj hrgk).symm
        subst this
        obtain ⟨i, hi⟩ := List.mem_iff_getElem?.mp hmem
        have hnd := hb.nodup _ (List.mem_of_getElem? hprev)
        have := nodup_idx _ t hnd i sel.2 _ _ hi hslot rfl hst
        subst this
        rw [hslot] at hi
        have hm : sel.1.2 = Metric.nan := by
          have := Option.some.inj hi
          simp only [Slot.mk.injEq, Option.some.injEq] at this
          exact this.2
        unfold IsValid at hvalid
        rw [hm] at hvalid; cases hvalid
      · exact ih _ hprev hin k rgk (by omega) hrgk hmem
    · exact hno k rgk (by omega) hrgk
        ((mem_ids_iff rgk t).mpr (by
          obtain ⟨i, hi⟩ := List.mem_iff_getElem?.mp hmem
          exact ⟨i, _, hi, rfl⟩))

/-! ### non-promoted trials -/

/-- trial `t` took part in a completed rung and was not taken into the next one -/
def NotPromoted (g : Manager) (t : Nat) : Prop :=
  ∃ (id : Nat) (br : Bracket) (k : Nat) (prev next : Rung), g.brackets[id]? = some br ∧ br.rungs[k]? = some prev ∧
    br.rungs[k + 1]? = some next ∧ t ∈ prev.ids ∧ t ∉ next.ids

theorem notPromoted_job {g g1 id sl br rg x} (hs : JobStruct g g1 id sl br rg x) (t : Nat)
    (h : NotPromoted g t) : NotPromoted g1 t := by
  obtain ⟨j, b, k, prev, next, hb, hp, hn, h1, h2⟩ := h
  by_cases hj : j = id
  · subst hj
    rcases hs.old with ho | ⟨hnone, _, _⟩
    · rw [ho] at hb
      have : b = br := (Option.some.inj hb).symm
      subst this
      exact ⟨j, bump b, k, prev, next, hs.atId, hp, hn, h1, h2⟩
    · rw [hnone] at hb; cases hb
  · exact ⟨j, b, k, prev, next, hs.keep j b hj hb, hp, hn, h1, h2⟩

theorem notPromoted_report {g g' : Manager} {id : Nat} {spec br br' res rg x np}
    (hbr : g.brackets[id]? = some br) (hbw : BWF spec br) (hl : LegalRes br res rg x)
    (hc : ResultCase br res rg br' np) (hmr : MgrRes g id br' g')
    (hfreshG : x.tid = none → ∀ u, res.tid = some u → ¬ g.HasId u) (t : Nat)
    (h : NotPromoted g t) : NotPromoted g' t := by
  obtain ⟨j, b, k, prev, next, hb, hp, hn, h1, h2⟩ := h
  have hold := brackets_after_old hbr hmr
  by_cases hj : j = id
  · subst hj
    rw [hbr] at hb
    have : b = br := (Option.some.inj hb).symm
    subst this
    have hk1 : k + 1 < b.rungs.length := getElem?_lt hn
    have hcur : k + 1 ≤ b.current := by have := hbw.len; omega
    -- rung k is untouched, rung k+1 may be the written one
    have hlift : ∀ (i : Nat) (r : Rung), (b.written rg res).rungs[i]? = some r → br'.rungs[i]? = some r := by
      intro i r hi
      cases hc with
      | stay _ => exact hi
      | last _ _ => exact hi
      | promote _ _ _ _ _ _ _ =>
        change ((b.written rg res).rungs ++ [_])[i]? = some r
        rw [List.getElem?_append_left (getElem?_lt hi)]; exact hi
    have hp' : br'.rungs[k]? = some prev := hlift k prev ((written_other k (by omega)).trans hp)
    by_cases hkc : k + 1 = b.current
    · have hrr : next = rg := by
        rw [hkc, hl.hrg] at hn; exact (Option.some.inj hn).symm
      subst hrr
      refine ⟨j, br', k, prev, next.write res, hold.1, hp', hlift _ _ (hkc ▸ written_cur hl), h1, ?_⟩
      rw [write_ids_mem hl]
      rintro (hin | hres)
      · exact h2 hin
      · rcases hl.tid with hx | hx
        · exact hfreshG hx t hres ⟨b, List.mem_of_getElem? hbr, prev, List.mem_of_getElem? hp, h1⟩
        · rw [← hx] at hres
          exact h2 ((mem_ids_iff next t).mpr ⟨res.slotIndex, x, hl.hsl, hres⟩)
    · exact ⟨j, br', k, prev, next, hold.1, hp', hlift _ _ ((written_other (k + 1) hkc).trans hn), h1, h2⟩
  · exact ⟨j, b, k, prev, next, hold.2 j b hj hb, hp, hn, h1, h2⟩

/-- the ids reported by `on_result` as not promoted are not promoted -/
theorem removable_notPromoted {g g' : Manager} {id : Nat} {spec br br' res rg x} {l : List (Option Nat)}
    (hbr : g.brackets[id]? = some br) (hbw : BWF spec br) (hl : LegalRes br res rg x)
    (hc : ResultCase br res rg br' (some l)) (hmr : MgrRes g id br' g') (t : Nat) (ht : some t ∈ l) :
    NotPromoted g' t := by
  have hold := brackets_after_old hbr hmr
  cases hc with
  | promote hd newLen ms rest es htodo hes =>
    rw [mem_remainingList] at ht
    obtain ⟨⟨e, he, het⟩, hnot⟩ := ht
    have hcur := written_cur hl
    have hlen : (br.written rg res).rungs.length = br.current + 1 := by
      have h1 := hbw.len
      have h2 := hbw.numRungs_eq
      simp only [Bracket.numRungs, htodo, List.length_cons] at h2
      simp only [Bracket.written, List.length_set]
      omega
    refine ⟨id, _, br.current, rg.write res,
      { slots := (topList es newLen br.mode).map (fun t => ⟨t, none⟩), level := ms }, hold.1, ?_, ?_, ?_, ?_⟩
    · change ((br.written rg res).rungs ++ [_])[br.current]? = _
      rw [List.getElem?_append_left (by omega)]; exact hcur
    · change ((br.written rg res).rungs ++ [_])[br.current + 1]? = _
      rw [List.getElem?_append_right (by omega)]; simp [hlen]
    · unfold Rung.ids
      rw [← es_ids hes]
      exact List.mem_filterMap.mpr ⟨e, he, het⟩
    · unfold Rung.ids
      simp only [List.filterMap_map, List.mem_filterMap, Function.comp, not_exists, not_and]
      intro o ho hot
      exact hnot (hot ▸ ho)

/-! ### what one operation does to occupied slots and to non-promoted trials -/

/-- effect of reporting a result for a handed-out, unoccupied slot -/
theorem report_more {g g' : Manager} {id : Nat} {spec br br' res rg x np}
    (hbr : g.brackets[id]? = some br) (hbw : BWF spec br) (hl : LegalRes br res rg x)
    (hc : ResultCase br res rg br' np) (hmr : MgrRes g id br' g')
    (hfreshG : x.tid = none → ∀ u, res.tid = some u → ¬ g.HasId u) :
    (∀ (j k p : Nat) (y : Slot), g.SlotAt j k p y → y.metric.isSome = true → g'.SlotAt j k p y) ∧
    (∀ t, NotPromoted g t → NotPromoted g' t) ∧
    (∀ l, np = some l → ∀ t, some t ∈ l → NotPromoted g' t) := by
  refine ⟨?_, ?_, ?_⟩
  · intro j k p y hs hy
    apply (slotAt_after_report hbr hl hc hmr).1 j k p y hs
    intro heq
    injection heq with h1 h2
    injection h2 with h2 h3
    subst h1; subst h2; subst h3
    obtain ⟨b, rgk, hb, hk, hp⟩ := hs
    rw [hbr] at hb
    have : b = br := (Option.some.inj hb).symm
    subst this
    rw [hl.hrg] at hk
    have : rgk = rg := (Option.some.inj hk).symm
    subst this
    rw [hl.hsl] at hp
    have : y = x := (Option.some.inj hp).symm
    subst this
    rw [hl.empty] at hy; cases hy
  · intro t ht
    exact notPromoted_report hbr hbw hl hc hmr hfreshG t ht
  · intro l hnp t ht
    subst hnp
    exact removable_notPromoted hbr hbw hl hc hmr t ht

theorem reportFacts_more {s : Sched} (hI : Inv s) {t : Nat} {mv : Metric} {s1 : Sched}
    (hf : ReportFacts s t mv s1) :
    (∀ (j k p : Nat) (y : Slot), s.mgr.SlotAt j k p y → y.metric.isSome = true → s1.mgr.SlotAt j k p y) ∧
    (∀ u, NotPromoted s.mgr u → NotPromoted s1.mgr u) ∧
    (∀ u, some u ∈ s1.removable → some u ∈ s.removable ∨ NotPromoted s1.mgr u) := by
  obtain ⟨id, sl, br, rg, x, br', np, hlook, hbr, hps, hrc, hmr, hrem⟩ := hf.ex
  obtain ⟨spec, _, hbw, _⟩ := hI.mwf.wf id br hbr
  have hl := pend_legal (List.mem_of_getElem? hbr) hps mv
  have hfreshG : x.tid = none → ∀ u, ({ sl with metric := some mv } : SlotInRung).tid = some u → ¬ s.mgr.HasId u := by
    intro hx u hu
    change sl.tid = some u at hu
    rw [hps.tid] at hu
    have : u = t := (Option.some.inj hu).symm
    subst this; exact hps.fresh hx
  obtain ⟨h1, h2, h3⟩ := report_more hbr hbw hl hrc hmr hfreshG
  refine ⟨h1, h2, ?_⟩
  intro u hu
  rw [hrem] at hu
  cases np with
  | none => exact Or.inl hu
  | some l =>
    rcases List.mem_append.mp hu with h | h
    · exact Or.inl h
    · exact Or.inr (h3 l rfl u h)

/-- one operation: occupied slots stay as they are, non-promoted trials stay non-promoted,
and every id newly put on the list of removable checkpoints is a non-promoted trial -/
theorem step_more {s : Sched} (hI : Inv s) (op : Op) (hl : LegalOp s op) :
    (∀ (j k p : Nat) (y : Slot), s.mgr.SlotAt j k p y → y.metric.isSome = true → (s.next op).mgr.SlotAt j k p y) ∧
    (∀ t, NotPromoted s.mgr t → NotPromoted (s.next op).mgr t) ∧
    (∀ t, some t ∈ (s.next op).removable → some t ∈ s.removable ∨ NotPromoted (s.next op).mgr t) := by
  have hsame : (∀ (j k p : Nat) (y : Slot), s.mgr.SlotAt j k p y → y.metric.isSome = true → s.mgr.SlotAt j k p y) ∧
      (∀ t, NotPromoted s.mgr t → NotPromoted s.mgr t) ∧
      (∀ t, some t ∈ s.removable → some t ∈ s.removable ∨ NotPromoted s.mgr t) :=
    ⟨fun _ _ _ _ h _ => h, fun _ h => h, fun _ h => Or.inl h⟩
  cases op with
  | suggest tid c =>
    obtain ⟨s', sg, calls, hs, hI', hf⟩ := suggest_spec hI tid c hl
    have hnext : s.next (.suggest tid c) = s' := by simp [Sched.next, Sched.step, hs]
    rw [hnext]
    obtain ⟨g1, id, sl, br1, rg, x, hjob, hcase, hh, hids, hc⟩ := hf.job
    obtain ⟨br0, rg0, x0, hjs⟩ := jobCase_struct hI.mwf hcase
    have hslots1 : ∀ (j k p : Nat) (y : Slot), s.mgr.SlotAt j k p y → g1.SlotAt j k p y :=
      fun j k p y h => slotAt_after_job hjs j k p y h
    have hnp1 : ∀ t, NotPromoted s.mgr t → NotPromoted g1 t := fun t h => notPromoted_job hjs t h
    rcases hc with ⟨_, _, _, hm, _, hr⟩ | ⟨_, _, _, hm, _, hr⟩ | ⟨hx, _, _, _, br', np, hrc, hmr, hr⟩
    · rw [hm, hr]
      exact ⟨fun j k p y h _ => hslots1 j k p y h, hnp1, fun _ h => Or.inl h⟩
    · rw [hm, hr]
      exact ⟨fun j k p y h _ => hslots1 j k p y h, hnp1, fun _ h => Or.inl h⟩
    · -- the searcher had no configuration: the slot is reported as failed
      obtain ⟨_, _, _, _, _, hI1, _, _⟩ := nextJob_inv hI
      have hmwf1 : MWF g1 := by
        obtain ⟨g1', id', sl', hjob', _, hm'⟩ := nextJob_spec hI.mwf
        rw [hjob] at hjob'
        simp only [Except.ok.injEq, Prod.mk.injEq] at hjob'
        rw [hjob'.1]; exact hm'
      obtain ⟨spec, _, hbw, _⟩ := hmwf1.wf id br1 hh.hbr
      have hslt : sl.tid = none := by rw [hh.tid, hx]
      have hleg : LegalRes br1 { sl with metric := some Metric.nan } rg x :=
        ⟨hh.hrg, hh.ri, hh.lt, hh.lvl, hh.hsl, Or.inl hx, hh.empty, rfl, by
          intro _ t ht; change sl.tid = some t at ht; rw [hslt] at ht; cases ht⟩
      obtain ⟨h1, h2, h3⟩ := report_more hh.hbr hbw hleg hrc hmr (by
        intro _ u hu; change sl.tid = some u at hu; rw [hslt] at hu; cases hu)
      refine ⟨fun j k p y h hy => h1 j k p y (hslots1 j k p y h) hy, fun t h => h2 t (hnp1 t h), ?_⟩
      intro u hu
      rw [hr] at hu
      cases np with
      | none => exact Or.inl hu
      | some l =>
        rcases List.mem_append.mp hu with h | h
        · exact Or.inl h
        · exact Or.inr (h3 l rfl u h)
  | result tid r v =>
    rcases onResult_spec hI tid r v with ⟨s', d, calls, hs, hI', hc⟩ | ⟨id, sl, e, hlook, hlt, he⟩
    · have hnext : s.next (.result tid r v) = s' := by simp [Sched.next, Sched.step, hs]
      rw [hnext]
      rcases hc with ⟨_, rfl, _⟩ | ⟨_, _, _, _, rfl, _⟩ | ⟨_, _, s1, _, _, hf, rfl, _⟩
      · exact hsame
      · exact hsame
      · exact (reportFacts_more hI hf : _ ∧ _ ∧ ∀ u, some u ∈ s1.removable → some u ∈ s.removable ∨ NotPromoted s1.mgr u)
    · have hnext : s.next (.result tid r v) = s := by simp [Sched.next, Sched.step, he]
      rw [hnext]; exact hsame
  | error tid =>
    obtain ⟨s', calls, hs, hI', hc⟩ := onError_spec hI tid
    have hnext : s.next (.error tid) = s' := by simp [Sched.next, Sched.step, hs]
    rw [hnext]
    rcases hc with ⟨_, rfl⟩ | ⟨s1, hf, rfl⟩
    · exact hsame
    · exact (reportFacts_more hI hf : _ ∧ _ ∧ ∀ u, some u ∈ s1.removable → some u ∈ s.removable ∨ NotPromoted s1.mgr u)
  | complete tid r v => exact hsame
  | remove tid => exact hsame
  | takeRemovable =>
    refine ⟨hsame.1, hsame.2.1, ?_⟩
    intro t ht
    simp [Sched.next, Sched.step, Sched.takeRemovable] at ht

/-- every id on the list of removable checkpoints is a non-promoted trial -/
def Inv20 (s : Sched) : Prop := ∀ t, some t ∈ s.removable → NotPromoted s.mgr t

theorem run_more {s : Sched} (hI : Inv s) (ops : List Op) (hl : LegalRun s ops) :
    (Inv20 s → Inv20 (s.run ops)) ∧ (∀ t, NotPromoted s.mgr t → NotPromoted (s.run ops).mgr t) ∧
    (∀ (j k p : Nat) (y : Slot), s.mgr.SlotAt j k p y → y.metric.isSome = true → (s.run ops).mgr.SlotAt j k p y) := by
  induction ops generalizing s with
  | nil => exact ⟨fun h => h, fun _ h => h, fun _ _ _ _ h _ => h⟩
  | cons op ops ih =>
    obtain ⟨hI', _, _⟩ := step_spec hI op hl.1
    obtain ⟨h1, h2, h3⟩ := step_more hI op hl.1
    obtain ⟨i1, i2, i3⟩ := ih hI' hl.2
    refine ⟨?_, fun t h => i2 t (h2 t h), fun j k p y h hy => i3 j k p y (h1 j k p y h hy) hy⟩
    intro h20
    apply i1
    intro t ht
    rcases h3 t ht with h | h
    · exact h2 t (h20 t h)
    · exact h

theorem reachable_inv20 {mode systems s} (h : Reachable mode systems s) : Inv20 s := by
  obtain ⟨a, b, s0, ops, hinit, hl, rfl⟩ := h
  obtain ⟨hI0, _, _⟩ := init_inv mode systems a b s0 hinit
  apply (run_more hI0 ops hl).1
  intro t ht
  unfold Sched.init at hinit
  cases hg : Manager.init .hyperband mode systems with
  | error e => rw [hg] at hinit; cases hinit
  | ok g =>
    rw [hg] at hinit
    simp only [Except.ok.injEq] at hinit
    subst hinit
    simp at ht

end SyneTune.Sync
