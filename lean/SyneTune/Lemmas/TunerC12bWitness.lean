import SyneTune.Lemmas.TunerWitnessData
/-
Concrete runs of the tuning-loop machine for C12b / C01b: the witnesses of the `_counterexample`
theorems and of the non-vacuity examples.  Data only; the statements are in `Props/C12b.lean`,
`Props/C01b.lean`.  One answer per step of the machine (`τ` at silent control points).
-/
namespace SyneTune.Tuner.Witness
open SyneTune SyneTune.Tuner

/-- one iteration's poll answered with nothing, up to `_schedule_new_tasks` (`start_jobs_without_delay=True`) -/
def emptyIter : List Ans := [.ret, .poll [] [], .ret, τ, τ, τ, τ]

/-- `suggest` answers "new trial with config `c`", `start_trial`, `on_trial_add`, `on_start_trial` return -/
def startOne (c : Nat) : List Ans := [τ, .sugg (.start c none), .ret, .ret, .ret]

/-- a result of trial `t` is handed to the scheduler, which says CONTINUE -/
def contOne : List Ans := [τ, .decision .continue none, .ret]

/-- second loop of `_update_running_trials` for one completed trial: `on_trial_complete` (scheduler, callbacks) -/
def completeOne : List Ans := [τ, .ret, .ret]

/-! ### two workers: both trials complete in the iteration in which the budget is passed -/

def cwCfg : Cfg := { nWorkers := 2, maxFailures := 1, wait := true, crit := { maxCompleted := some 0 } }
def fwCfg : Cfg := { nWorkers := 2, maxFailures := 1, wait := true, crit := { maxFinished := some 0 } }
def cnCfg : Cfg := { nWorkers := 2, maxFailures := 1, crit := { maxCompleted := some 0 } }
def fnCfg : Cfg := { nWorkers := 2, maxFailures := 1, crit := { maxFinished := some 0 } }
def ewCfg : Cfg := { nWorkers := 2, maxFailures := 1, wait := true, crit := { maxEvals := some 0 } }

/-- iteration 1 starts trials 0 and 1; iteration 2 sees both completed (count 2 = 0 + n_workers) and, the stopping
condition of iteration 1 being false, starts trials 2 and 3; then `_stop_condition()` is true (56 steps; the state
is at the `while` test) -/
def twoPrefix : List Ans :=
  [.ret, τ, τ] ++ emptyIter ++ startOne 0 ++ startOne 1 ++ [τ, .ret, τ, τ] ++
  [.ret, .poll [(0, .completed), (1, .completed)] [⟨0, 0, m 1 1⟩, ⟨1, 1, m 2 2⟩], .ret] ++ contOne ++ contOne ++ [τ] ++
  completeOne ++ completeOne ++ [τ, τ, τ] ++ startOne 2 ++ startOne 3 ++ [τ, .ret, τ]

/-- `wait_trial_completion_when_stopping=True`: the loop goes on, trials 2 and 3 complete as well, the loop is
left through the `break`; `stop_all` finds nothing in progress -/
def twoWaitRest : List Ans :=
  [τ, .ret, .poll [(2, .completed), (3, .completed)] [⟨2, 2, m 3 3⟩, ⟨3, 3, m 4 4⟩], .ret] ++ contOne ++ contOne ++ [τ] ++
  completeOne ++ completeOne ++ [τ, τ] ++
  [.ret, .ids [0, 1, 2, 3], τ, .status .completed, τ, .status .completed, τ, .status .completed, τ, .status .completed,
   τ, τ, τ]

/-- without waiting: the loop is left through the `while` test, `stop_all` stops trials 2 and 3,
`mark_running_job_as_stopped` records them as stopped -/
def twoStopRest : List Ans :=
  [τ, .ret, .ids [0, 1, 2, 3], τ, .status .completed, τ, .status .completed, τ, .status .inProgress, .ret,
   τ, .status .inProgress, .ret, τ, τ, τ]

/-! ### one worker: a single poll delivers three results of the one running trial -/

def evCfg : Cfg := { nWorkers := 1, maxFailures := 1, crit := { maxEvals := some 0 } }

def evPrefix : List Ans :=
  [.ret, τ, τ] ++ emptyIter ++ startOne 0 ++ [τ, .ret, τ, τ] ++
  [.ret, .poll [(0, .inProgress)] [⟨0, 0, m 1 1⟩, ⟨0, 1, m 2 2⟩, ⟨0, 2, m 3 3⟩], .ret] ++ contOne ++ contOne ++ contOne ++
  [τ, τ, τ, τ]

def evRest : List Ans :=
  [τ, .ret, .ret, τ, τ, .ret, .ids [0], τ, .status .inProgress, .ret, τ, τ, τ]

/-! ### `running_trials_ids` rebound (F15), `max_num_trials_finished` -/

def frCfg : Cfg := { nWorkers := 1, maxFailures := 1, swd := false, crit := { maxFinished := some 0 } }

/-- one worker, `start_jobs_without_delay=False`.  Iteration 1 starts trial 0.  Iteration 2: the poll says trial 0 is in
progress, the busy list is empty (shorter than the running set `{0}`): the local name is rebound, trial 1 is started
and never enters the loop's set.  Iteration 3: trial 0 completed (count 1 > 0), the running set is empty, the busy list
is empty again: trial 2 is started.  The stopping condition holds, `stop_all` stops trials 1 and 2. -/
def frRun : List Ans :=
  [.ret, τ, τ] ++ [.ret, .poll [] [], .ret, τ, τ, τ, τ, .ids []] ++ startOne 0 ++ [τ, .ret, τ, τ] ++
  [.ret, .poll [(0, .inProgress)] [⟨0, 0, m 1 1⟩], .ret] ++ contOne ++ [τ, τ, τ, τ, τ, .ids []] ++ startOne 1 ++ [τ, .ret, τ, τ] ++
  [.ret, .poll [(0, .completed)] [], .ret, τ] ++ completeOne ++ [τ, τ, τ, .ids []] ++ startOne 2 ++ [τ, .ret, τ, τ] ++
  [.ret, .ids [0, 1, 2], τ, .status .completed, τ, .status .inProgress, .ret, τ, .status .inProgress, .ret, τ, τ, τ]

/-! ### `scheduler.on_trial_add` raises after the backend has started the trial -/

def addRaiseCfg : Cfg := { nWorkers := 1, maxFailures := 1, crit := { maxStarted := some 10 } }

def addRaiseRun : List Ans :=
  [.ret, τ, τ] ++ emptyIter ++ [τ, .sugg (.start 0 none), .ret, .raise] ++
  [.ret, .ids [0], τ, .status .inProgress, .ret, τ, τ, τ]

/-- the witnesses of this file by name (driver op `witness`, next to `Witness.byName`) -/
def byName12b : String → Option (Cfg × List Ans)
  | "cw" => some (cwCfg, twoPrefix ++ twoWaitRest)
  | "fw" => some (fwCfg, twoPrefix ++ twoWaitRest)
  | "fn" => some (fnCfg, twoPrefix ++ twoStopRest)
  | "ev" => some (evCfg, evPrefix ++ evRest)
  | "ew" => some (ewCfg, twoPrefix ++ twoWaitRest)
  | "fr" => some (frCfg, frRun)
  | "addRaise" => some (addRaiseCfg, addRaiseRun)
  | _ => none

end SyneTune.Tuner.Witness
