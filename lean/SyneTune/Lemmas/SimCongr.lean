import SyneTune.Lemmas.SimHeap
/-
Two job functions that agree on all job states satisfying a predicate `Q` which is kept by
the job and by the operations' own updates of the job state give the same histories.
Used to instantiate theorems stated for jobs with a property "for all job states" (e.g.
sorted results) with the tabular job, whose repair step must be non-negative.
-/
namespace SyneTune.SimL
open SyneTune SyneTune.Backend SyneTune.PollL

variable {J : Type}

/-- `job1` and `job2` agree where `Q` holds, and `job1` keeps `Q` -/
structure JobAgree (Q : J → Prop) (job1 job2 : JobFn J) : Prop where
  eq : ∀ js t, Q js → job1 js t = job2 js t
  keep : ∀ js t js' st rs, Q js → job1 js t = .ok (js', st, rs) → Q js'

section
variable {Q : J → Prop} {job1 job2 : JobFn J} (hj : JobAgree Q job1 job2) (A : Arith)
include hj

theorem processEvent_eq (s : Sim J) (e : Ev) (hq : Q s.js) :
    s.processEvent A job1 e = s.processEvent A job2 e := by
  unfold Sim.processEvent
  split
  · unfold Sim.processStart
    cases s.trials[e.trial]? with
    | none => rfl
    | some x => simp only; rw [hj.eq s.js e.trial hq]
  · rfl
  · rfl
  · rfl

theorem processEvent_keep {s s' : Sim J} {e : Ev} (hq : Q s.js) (h : s.processEvent A job1 e = .ok s') : Q s'.js := by
  unfold Sim.processEvent at h
  split at h
  · obtain ⟨x, js', status, rs, _, hjob, rfl⟩ := processStart_inv h
    have := hj.keep _ _ _ _ _ hq hjob
    simp only [startResult, updT_js, push_js]
    rw [(pushResults_fields A e.trial e.time x.runs rs ({ s with js := js' } : Sim J) 0 e.time).2.2.2.2.2.2.1]
    exact this
  · obtain ⟨_, rfl⟩ := processComplete_inv h; exact hq
  · cases h; exact hq
  · obtain ⟨_, rfl⟩ := processResult_inv h; exact hq

theorem processUntil_keep {fuel : Nat} {s s' : Sim J} (hq : Q s.js)
    (h : Sim.processUntil A job1 fuel s = .ok s') : Q s'.js := by
  refine processUntil_induct A job1 (fun x => Q x.js) ?_ fuel s s' hq h
  intro x e rest x1 hx _ _ hev
  exact processEvent_keep hj A (s := ({ x with heap := rest } : Sim J)) hx hev

theorem processUntil_eq : ∀ (fuel : Nat) (s : Sim J), Q s.js →
    Sim.processUntil A job1 fuel s = Sim.processUntil A job2 fuel s := by
  intro fuel
  induction fuel with
  | zero => intro s _; rfl
  | succ n ih =>
    intro s hq
    unfold Sim.processUntil
    cases s.heap with
    | nil => rfl
    | cons e rest =>
      simp only
      split
      · rw [← processEvent_eq hj A ({ s with heap := rest } : Sim J) e hq]
        cases hev : ({ s with heap := rest } : Sim J).processEvent A job1 e with
        | error err => rfl
        | ok s1 => exact ih s1 (processEvent_keep hj A (s := ({ s with heap := rest } : Sim J)) hq hev)
      · rfl

omit hj in
theorem advanceOutside_keep {s s' : Sim J} (hq : Q s.js) (h : s.advanceOutside A = .ok s') : Q s'.js := by
  obtain ⟨_, rfl⟩ := advance_inv h; exact hq

theorem schedule_eq (s : Sim J) (t : Nat) (hq : Q s.js) : s.schedule A job1 t = s.schedule A job2 t := by
  unfold Sim.schedule
  cases h1 : s.advanceOutside A with
  | error e => rfl
  | ok s1 => simp only; rw [processUntil_eq hj A simFuel s1 (advanceOutside_keep A hq h1)]

theorem schedule_keep {s s' : Sim J} {t : Nat} (hq : Q s.js) (h : s.schedule A job1 t = .ok s') : Q s'.js := by
  obtain ⟨s1, s2, h1, h2, rfl⟩ := schedule_inv h
  have := processUntil_keep hj A (advanceOutside_keep A hq h1) h2
  exact this

theorem stopOrPause_keep {s s' : Sim J} {t : Nat} {st : St} (hq : Q s.js)
    (h : s.stopOrPause A job1 t st = .ok s') : Q s'.js := by
  obtain ⟨s1, s3, s5, h1, h3, h5, rfl⟩ := stopOrPause_inv h
  have q1 := advanceOutside_keep A hq h1
  have q3 : Q s3.js := by
    refine processUntil_keep hj A ?_ h3
    exact q1
  have q5 : Q s5.js := by
    refine processUntil_keep hj A ?_ h5
    exact q3
  exact q5

theorem stopOrPause_eq (s : Sim J) (t : Nat) (st : St) (hq : Q s.js) :
    s.stopOrPause A job1 t st = s.stopOrPause A job2 t st := by
  unfold Sim.stopOrPause
  cases h1 : s.advanceOutside A with
  | error e => rfl
  | ok s1 =>
    simp only
    have q1 := advanceOutside_keep A hq h1
    have e1 := processUntil_eq hj A simFuel
      ((s1.push (A.add s1.now s1.cfg.dStop) t .stop).advanceTo (A.add (A.add s1.now s1.cfg.dStop) s1.cfg.guard)) q1
    rw [← e1]
    cases hp : Sim.processUntil A job1 simFuel
      ((s1.push (A.add s1.now s1.cfg.dStop) t .stop).advanceTo (A.add (A.add s1.now s1.cfg.dStop) s1.cfg.guard)) with
    | error e => rfl
    | ok s3 =>
      simp only
      have q3 : Q s3.js := by
        refine processUntil_keep hj A ?_ hp
        exact q1
      have e3 := processUntil_eq hj A simFuel
        ((s3.push (A.add s3.now s3.cfg.dCompleteStop) t (.complete st none)).advanceTo
          (A.add (A.add s3.now s3.cfg.dCompleteStop) s3.cfg.guard)) q3
      rw [← e3]

theorem fetch_eq (s : Sim J) (ids : List Nat) (hq : Q s.js) : s.fetch A job1 ids = s.fetch A job2 ids := by
  unfold Sim.fetch
  cases h1 : s.advanceOutside A with
  | error e => rfl
  | ok s1 => simp only; rw [processUntil_eq hj A simFuel s1 (advanceOutside_keep A hq h1)]

theorem fetch_keep {s s' : Sim J} {ids : List Nat} {sts : List (Nat × St)} {res : List (Nat × Arrived)}
    (hq : Q s.js) (h : s.fetch A job1 ids = .ok (s', sts, res)) : Q s'.js := by
  obtain ⟨s1, s2, h1, h2, _, rfl⟩ := fetch_inv h
  simp only [Sim.markExit]
  rw [(dropRest_fields _ _).2.2.2.2.1, (fetchCovered_fields ids s2).2.2.2.2.1]
  exact processUntil_keep hj A (advanceOutside_keep A hq h1) h2

theorem stopAllGo_congr (l : List Nat) : ∀ (s : Sim J), Q s.js →
    simStopAllGo A job1 s l = simStopAllGo A job2 s l ∧ ∀ s', simStopAllGo A job1 s l = .ok s' → Q s'.js := by
  induction l with
  | nil => intro s hq; exact ⟨rfl, fun s' h => by cases h; exact hq⟩
  | cons t rest ih =>
    intro s hq
    unfold simStopAllGo
    cases s.trials[t]? with
    | none => exact ih s hq
    | some x =>
      simp only
      split
      · unfold Sim.stopTrial
        rw [← stopOrPause_eq hj A (s.updT t fun y => { y with commanded := true, flushed := false }) t .stopped hq]
        cases hp : Sim.stopOrPause A job1 (s.updT t fun y => { y with commanded := true, flushed := false }) t .stopped with
        | error e => exact ⟨rfl, fun s' h => by cases h⟩
        | ok s1 => exact ih s1 (stopOrPause_keep hj A (s := s.updT t _) hq hp)
      · exact ih s hq

end

/-- the operations' own updates of the job state keep `Q` -/
def HooksKeep (Q : TabState → Prop) : Prop :=
  (∀ js t c, Q js → Q { js with cfgs := aset t c js.cfgs }) ∧
  (∀ js t l, Q js → Q { js with paused := aset t l js.paused }) ∧
  (∀ js d, Q js → Q { js with seedTape := d })

theorem step_congr {Q : TabState → Prop} {job1 job2 : JobFn TabState} (hj : JobAgree Q job1 job2)
    (hk : HooksKeep Q) (A : Arith) (s : TB) (op : SOp) (hq : Q s.js) :
    TB.step A job1 s op = TB.step A job2 s op ∧ ∀ s', TB.step A job1 s op = .ok s' → Q s'.js := by
  cases op with
  | start cfg =>
    simp only [TB.step, Sim.startTrial]
    rw [← schedule_eq hj A s s.trials.length hq]
    cases hp : s.schedule A job1 s.trials.length with
    | error e => exact ⟨rfl, fun s' h => by cases h⟩
    | ok s1 => exact ⟨rfl, fun s' h => by cases h; exact hk.1 _ _ _ (schedule_keep hj A hq hp)⟩
  | resume t nc =>
    -- the job state after the optional configuration update
    have key : ∀ (js0 : TabState), Q js0 →
        (Sim.resumeTrial A job1 s t (fun _ => js0) = Sim.resumeTrial A job2 s t (fun _ => js0)) ∧
        ∀ s', Sim.resumeTrial A job1 s t (fun _ => js0) = .ok s' → Q s'.js := by
      intro js0 hq0
      simp only [Sim.resumeTrial]
      cases s.trials[t]? with
      | none => exact ⟨rfl, fun s' h => by cases h⟩
      | some x =>
        simp only
        split
        · exact ⟨rfl, fun s' h => by cases h⟩
        · split
          · exact ⟨rfl, fun s' h => by cases h⟩
          · rw [← schedule_eq hj A ({ s with js := js0 } : TB) t hq0]
            cases hp : Sim.schedule A job1 ({ s with js := js0 } : TB) t with
            | error e => exact ⟨rfl, fun s' h => by cases h⟩
            | ok s1 =>
              refine ⟨rfl, fun s' h => ?_⟩
              cases h
              have := schedule_keep hj A (s := ({ s with js := js0 } : TB)) hq0 hp
              exact this
    cases nc with
    | none => exact key s.js hq
    | some c => exact key { s.js with cfgs := aset t c s.js.cfgs } (hk.1 _ _ _ hq)
  | pause t lv =>
    simp only [TB.step, Sim.pauseTrial]
    split
    · rw [← stopOrPause_eq hj A
        (s.updT t fun y => { y with status := .paused, commanded := true, flushed := false }) t .paused hq]
      cases hp : Sim.stopOrPause A job1
          (s.updT t fun y => { y with status := .paused, commanded := true, flushed := false }) t .paused with
      | error e => exact ⟨rfl, fun s' h => by cases h⟩
      | ok s1 =>
        refine ⟨rfl, fun s' h => ?_⟩
        cases h
        have q1 := stopOrPause_keep hj A (s := s.updT t _) hq hp
        cases lv with
        | none => exact q1
        | some l => exact hk.2.1 _ _ _ q1
    · exact ⟨rfl, fun s' h => by cases h⟩
  | stop t =>
    simp only [TB.step, Sim.stopTrial]
    exact ⟨stopOrPause_eq hj A _ t .stopped hq, fun s' h => stopOrPause_keep hj A (s := s.updT t _) hq h⟩
  | fetch ids =>
    simp only [TB.step]
    rw [← fetch_eq hj A s ids hq]
    cases hp : s.fetch A job1 ids with
    | error e => exact ⟨rfl, fun s' h => by cases h⟩
    | ok r =>
      obtain ⟨s1, sts, res⟩ := r
      exact ⟨rfl, fun s' h => by cases h; exact fetch_keep hj A hq hp⟩
  | busy =>
    simp only [TB.step, Sim.busyIds]
    rw [← processUntil_eq hj A simFuel s hq]
    cases hp : Sim.processUntil A job1 simFuel s with
    | error e => exact ⟨rfl, fun s' h => by cases h⟩
    | ok s1 => exact ⟨rfl, fun s' h => by cases h; exact processUntil_keep hj A hq hp⟩
  | sleep => exact ⟨rfl, fun s' h => by obtain ⟨_, rfl⟩ := advance_inv h; exact hq⟩
  | advance dt => exact ⟨rfl, fun s' h => by obtain ⟨_, rfl⟩ := advance_inv h; exact hq⟩
  | tick dt => exact ⟨rfl, fun s' h => by cases h; exact hq⟩
  | tape d => exact ⟨rfl, fun s' h => by cases h; exact hk.2.2 _ _ hq⟩
  | stopAll => simp only [TB.step, Sim.stopAll]; exact stopAllGo_congr hj A _ s hq

/-- histories under `job1` and `job2` coincide -/
theorem run_congr {Q : TabState → Prop} {job1 job2 : JobFn TabState} (hj : JobAgree Q job1 job2)
    (hk : HooksKeep Q) (A : Arith) (ops : List SOp) : ∀ (s : TB), Q s.js →
      TB.run A job1 s ops = TB.run A job2 s ops := by
  induction ops with
  | nil => intro s _; rfl
  | cons op ops ih =>
    intro s hq
    unfold TB.run
    obtain ⟨h1, h2⟩ := step_congr hj hk A s op hq
    rw [← h1]
    cases hp : TB.step A job1 s op with
    | error e => rfl
    | ok s1 => exact ih s1 (h2 s1 hp)

end SyneTune.SimL
