import SyneTune.Lemmas.DomainsCat
import Mathlib.Tactic.NormNum
/- C07 helper lemmas: samplers, `cast`, quantisation, JSON form. -/
namespace SyneTune.Dom
open SyneTune

/-- hypotheses on one raw scaling (what `log`/`exp` satisfy over the reals) on `[lo, hi]` -/
structure ScalingOK (s : Scaling) (lo hi : ℚ) : Prop where
  inv : ∀ y, lo ≤ y → y ≤ hi → s.fromInt (s.toInt y) = y
  mono : ∀ y z, lo ≤ y → y ≤ z → z ≤ hi → s.toInt y ≤ s.toInt z
  monoFrom : ∀ t u, s.toInt lo ≤ t → t ≤ u → u ≤ s.toInt hi → s.fromInt t ≤ s.fromInt u

theorem lerp_mem {a b u : ℚ} (hab : a ≤ b) (h0 : 0 ≤ u) (h1 : u ≤ 1) : a ≤ lerp a b u ∧ lerp a b u ≤ b := by
  unfold lerp
  constructor
  · nlinarith
  · nlinarith

/-- a value drawn through a scaling lies inside the bounds -/
theorem scaled_draw_mem {s : Scaling} {lo hi u : ℚ} (hs : ScalingOK s lo hi) (hle : lo ≤ hi)
    (h0 : 0 ≤ u) (h1 : u ≤ 1) :
    lo ≤ s.fromInt (lerp (s.toInt lo) (s.toInt hi) u) ∧ s.fromInt (lerp (s.toInt lo) (s.toInt hi) u) ≤ hi := by
  have hLU := hs.mono lo hi (le_refl _) hle (le_refl _)
  obtain ⟨hw1, hw2⟩ := lerp_mem hLU h0 h1
  have g1 := hs.monoFrom _ _ (le_refl _) hw1 hw2
  have g2 := hs.monoFrom _ _ hw1 hw2 (le_refl _)
  rw [hs.inv lo (le_refl _) hle] at g1
  rw [hs.inv hi hle (le_refl _)] at g2
  exact ⟨g1, g2⟩

/-! ### quantisation -/

/-- `Quantized` on an integer domain stays inside the bounds **if the step divides both bounds** -/
theorem quantizeI_mem {q lower upper k : ℤ} (hq : 0 < q) (hl : q ∣ lower) (hu : q ∣ upper)
    (h1 : lower ≤ k) (h2 : k ≤ upper) : lower ≤ quantizeI q k ∧ quantizeI q k ≤ upper := by
  obtain ⟨i, rfl⟩ := hl
  obtain ⟨j, rfl⟩ := hu
  unfold quantizeI
  have hqq : (0 : ℚ) < (q : ℚ) := by exact_mod_cast hq
  have e1 : (i : ℚ) ≤ (k : ℚ) / (q : ℚ) := by
    rw [le_div_iff₀ hqq]
    have : ((q * i : ℤ) : ℚ) ≤ (k : ℚ) := by exact_mod_cast h1
    push_cast at this; linarith
  have e2 : (k : ℚ) / (q : ℚ) ≤ (j : ℚ) := by
    rw [div_le_iff₀ hqq]
    have : (k : ℚ) ≤ ((q * j : ℤ) : ℚ) := by exact_mod_cast h2
    push_cast at this; linarith
  have g1 := rhe_ge_of_le e1
  have g2 := rhe_le_of_le e2
  constructor
  · nlinarith
  · nlinarith

/-- `Quantized` on a float domain whose bounds are multiples of the step (what `Float.quantized`
checks with `isclose`) -/
theorem quantizeR_mem {q lower upper v : ℚ} (hq : 0 < q) {i j : ℤ} (hl : lower = (i : ℚ) * q)
    (hu : upper = (j : ℚ) * q) (h1 : lower ≤ v) (h2 : v ≤ upper) :
    lower ≤ quantizeR q v ∧ quantizeR q v ≤ upper := by
  subst hl; subst hu
  unfold quantizeR
  have e1 : (i : ℚ) ≤ v / q := by rw [le_div_iff₀ hq]; exact h1
  have e2 : v / q ≤ (j : ℚ) := by rw [div_le_iff₀ hq]; exact h2
  have g1 : (i : ℚ) ≤ (roundHalfEven (v / q) : ℚ) := by exact_mod_cast rhe_ge_of_le e1
  have g2 : (roundHalfEven (v / q) : ℚ) ≤ (j : ℚ) := by exact_mod_cast rhe_le_of_le e2
  constructor
  · nlinarith
  · nlinarith

/-! ### `Float` -/

/-- the un-quantised sampler of a float domain stays inside the bounds -/
theorem float_sampleRaw_mem {env : Env} {d : FloatDom} (hle : d.lower ≤ d.upper)
    (hsc : match d.scale with
      | .lin => True
      | .log => 0 < d.lower ∧ ScalingOK env.log d.lower d.upper
      | .rlog => 0 ≤ d.lower ∧ d.upper < 1 ∧ ScalingOK env.rlogS d.lower d.upper)
    {u : ℚ} (h0 : 0 ≤ u) (h1 : u ≤ 1) :
    ∃ v, d.sampleRaw env u = .ok v ∧ d.lower ≤ v ∧ v ≤ d.upper := by
  unfold FloatDom.sampleRaw
  cases hk : d.scale with
  | lin => exact ⟨_, rfl, lerp_mem hle h0 h1⟩
  | log =>
    rw [hk] at hsc
    have hpos : 0 < d.lower ∧ 0 < d.upper := ⟨hsc.1, lt_of_lt_of_le hsc.1 hle⟩
    simp only [hpos, and_self, if_true]
    exact ⟨_, rfl, scaled_draw_mem hsc.2 hle h0 h1⟩
  | rlog =>
    rw [hk] at hsc
    have hc : 0 ≤ d.lower ∧ d.lower ≤ d.upper ∧ d.upper < 1 := ⟨hsc.1, hle, hsc.2.1⟩
    simp only [hc, and_self, if_true]
    exact ⟨_, rfl, scaled_draw_mem hsc.2.2 hle h0 h1⟩

theorem float_cast_member (d : FloatDom) (x : ℚ) : d.cast (.flt x) = .ok (.flt x) := rfl

/-! ### `Integer` -/

/-- the un-quantised sampler of an integer domain stays inside the bounds: `randint` returns an
integer of the range (contract of the tape), `_LogUniform` rounds a value of `[lower, upper]` -/
theorem int_sampleRaw_mem {env : Env} {d : IntDom} (hle : d.lower ≤ d.upper) {dr : Draw}
    (hdr : match d.scale, dr with
      | .lin, .idx k => d.lower ≤ k ∧ k ≤ d.upper
      | .log, .unit u => 0 ≤ u ∧ u ≤ 1 ∧ 0 < d.lower ∧ ScalingOK env.log (d.lower : ℚ) (d.upper : ℚ)
      | _, _ => False) :
    ∃ k, d.sampleRaw env dr = .ok k ∧ d.lower ≤ k ∧ k ≤ d.upper := by
  unfold IntDom.sampleRaw
  cases hk : d.scale <;> cases dr <;> simp only [hk] at hdr ⊢
  · exact ⟨_, rfl, hdr⟩
  · obtain ⟨h0, h1, hpos, hs⟩ := hdr
    have hpos' : 0 < d.lower ∧ 0 < d.upper := ⟨hpos, by omega⟩
    simp only [hpos', and_self, if_true]
    have hleq : (d.lower : ℚ) ≤ (d.upper : ℚ) := by exact_mod_cast hle
    obtain ⟨g1, g2⟩ := scaled_draw_mem hs hleq h0 h1
    exact ⟨_, rfl, rhe_ge_of_le g1, rhe_le_of_le g2⟩

theorem int_cast_member (d : IntDom) (k : ℤ) : d.cast (.int k) = .ok (.int k) := by
  simp [IntDom.cast, Val.num?, rhe_int]

/-! ### `Categorical` / `Ordinal` -/

theorem convertTo_self {t : VType} {v : Val} (h : v.vtype = t) : convertTo t v = .ok v := by
  cases v <;> cases t <;> simp_all [convertTo, Val.vtype]

theorem vtypeOf_mem {cats : List Val} (hok : catsOk cats = true) {v : Val} (hv : v ∈ cats) :
    v.vtype = vtypeOf cats := by
  unfold catsOk at hok
  simp only [Bool.and_eq_true, List.all_eq_true, beq_iff_eq] at hok
  exact hok.2 v hv

/-- **cast of a listed category is the category itself** -/
theorem cat_cast_member {c : Consts} {d : CatDom} (hok : catsOk d.cats = true) {v : Val} (hv : v ∈ d.cats) :
    d.cast c v = .ok v := by
  unfold CatDom.cast
  rw [convertTo_self (vtypeOf_mem hok hv)]
  simp [pyIn_of_mem hv]

/-- **a sampled category is a listed one** (`choice(n)` returns an index below `n`) -/
theorem cat_sample_member {c : Consts} {d : CatDom} (hok : catsOk d.cats = true) {k : ℤ}
    (h0 : 0 ≤ k) (h1 : k < d.cats.length) : ∃ v, d.sample c (.idx k) = .ok v ∧ v ∈ d.cats := by
  unfold CatDom.sample
  have hlt : k.toNat < d.cats.length := by omega
  simp only [List.getElem?_eq_getElem hlt]
  exact ⟨_, cat_cast_member hok (List.getElem_mem _), List.getElem_mem _⟩

/-! ### JSON form -/

theorem samplerOf_str (k : ScaleKind) : samplerOf (samplerStr k) = .ok k := by
  have h1 : ¬ ("LogUniform" = "Uniform") := by decide
  have h2 : ¬ ("ReverseLogUniform" = "Uniform") := by decide
  have h3 : ¬ ("ReverseLogUniform" = "LogUniform") := by decide
  cases k <;> simp [samplerOf, samplerStr, h1, h2, h3]

/-- **a space written to JSON and read back is the same** for every domain that is not quantised
(for quantised ones the statement is false, see the counterexample) -/
theorem json_roundtrip_dom {d : Domain} (hok : d.ok = true) (hq : isQuantised d = false) :
    jsonRoundTrip d = .ok d := by
  cases d with
  | flt f =>
    obtain ⟨lo, hi, sc, q⟩ := f
    simp only [isQuantised, Option.isSome_eq_false_iff, Option.isNone_iff_eq_none] at hq
    subst hq
    simp only [Domain.ok, Bool.and_eq_true, decide_eq_true_eq] at hok
    simp [jsonRoundTrip, toDict, fromDict, samplerOf_str, hok.1]
  | int f =>
    obtain ⟨lo, hi, sc, q⟩ := f
    simp only [isQuantised, Option.isSome_eq_false_iff, Option.isNone_iff_eq_none] at hq
    subst hq
    have hsc : sc ≠ .rlog := by
      intro h; subst h; simp [Domain.ok] at hok
    simp only [Domain.ok, Bool.and_eq_true, decide_eq_true_eq] at hok
    cases sc
    · simp [jsonRoundTrip, toDict, fromDict, samplerOf_str, hok.1]
    · simp [jsonRoundTrip, toDict, fromDict, samplerOf_str, hok.1]
    · exact absurd rfl hsc
  | cat f =>
    obtain ⟨cats, ord⟩ := f
    simp only [Domain.ok] at hok
    cases ord <;> simp [jsonRoundTrip, toDict, fromDict, hok]
  | nn f =>
    obtain ⟨cats, lg⟩ := f
    simp only [Domain.ok] at hok
    simp [jsonRoundTrip, toDict, fromDict, hok]
  | fin f =>
    obtain ⟨lo, hi, sz, lg, ci⟩ := f
    simp only [Domain.ok] at hok
    simp [jsonRoundTrip, toDict, fromDict, hok]

end SyneTune.Dom
