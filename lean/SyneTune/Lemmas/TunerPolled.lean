import SyneTune.Lemmas.TunerStruct
/-
Completeness side of C01 `notify`: every trial whose run is open for the scheduler is in the
running set, hence in every poll — PROVIDED the local `running_trials_ids` of
`_schedule_new_tasks` is never rebound (`RebindOk`).  Without that hypothesis the statement is
false (F15, `C01.notify_polled_counterexample`).
-/
namespace SyneTune.Tuner
open SyneTune AL

/-- the answer of `busy_trial_ids` is never shorter than the loop's running set (so the branch
`running_trials_ids = set(x[0] for x in busy_trial_ids)` of `_schedule_new_tasks` is not taken) -/
def RebindOk (s : LState) (a : Ans) : Prop :=
  s.pc = .busy → ∀ l, a = .ids l → s.running.length ≤ l.length

/-- the trial has just been started / resumed; `running_trials_ids.add` is the next statement -/
def JustStarted (s : LState) (t : Nat) : Prop := (s.pc = .startCb ∨ s.pc = .resumeCb) ∧ t = s.sId

structure PBody (s : LState) : Prop where
  tracked : ∀ t, alookup t s.kst = some .live → t ∈ s.running ∨ JustStarted s t
  doneNotLive : updPc s.pc = true → ∀ t ∈ keys s.done, alookup t s.kst ≠ some .live
  ccb : s.pc = .completeCb → alookup s.t s.kst ≠ some .live

structure PInv (s : LState) : Prop where
  loc : s.loc = none
  body : finPc s.pc = false → PBody s

/-- which moves leave the clauses alone when no field changes -/
def okMove (p q : Pc) : Bool :=
  finPc q || (!finPc p && p != .startCb && p != .resumeCb && (!updPc q || updPc p) && q != .completeCb)

theorem finPc_back {s s' : LState} (hfl : finPc s.pc = true → finPc s'.pc = true) (h : finPc s'.pc = false) :
    finPc s.pc = false := by
  cases hh : finPc s.pc
  · rfl
  · rw [hfl hh] at h; cases h

theorem PInv.toFin {s s' : LState} (h : PInv s) (hl : s'.loc = s.loc) (hp : finPc s'.pc = true) : PInv s' :=
  ⟨by rw [hl]; exact h.loc, fun hc => by rw [hp] at hc; cases hc⟩

theorem PInv.same {s s' : LState} (h : PInv s) (hl : s'.loc = s.loc ∨ s'.loc = none) (hr : s'.running = s.running)
    (hk : s'.kst = s.kst) (hd : s'.done = s.done) (hp : okMove s.pc s'.pc = true) : PInv s' := by
  have hloc : s'.loc = none := by
    rcases hl with hl | hl
    · rw [hl]; exact h.loc
    · exact hl
  refine ⟨hloc, fun hf => ?_⟩
  unfold okMove at hp
  rw [hf, Bool.false_or] at hp
  simp only [Bool.and_eq_true, bne_iff_ne, ne_eq, Bool.or_eq_true, Bool.not_eq_true'] at hp
  obtain ⟨⟨⟨⟨hfs, hp1⟩, hp2⟩, hp3⟩, hp4⟩ := hp
  have hb := h.body hfs
  refine ⟨fun t ht' => ?_, fun hu t ht' => ?_, fun hc => ?_⟩
  · rw [hk] at ht'
    rcases hb.tracked t ht' with h1 | h1
    · exact Or.inl (by rw [hr]; exact h1)
    · rcases h1.1 with h2 | h2
      · exact absurd h2 hp1
      · exact absurd h2 hp2
  · rw [hd] at ht'; rw [hk]
    rcases hp3 with h3 | h3
    · rw [h3] at hu; cases hu
    · exact hb.doneNotLive h3 t ht'
  · exact absurd hc hp4

theorem PInv.addRow {s : LState} (h : PInv s) (q : Pc) (hp : okMove s.pc q = true) :
    PInv { Tuner.addRow s with pc := q } := by
  have hs : (Tuner.addRow s).loc = s.loc ∧ (Tuner.addRow s).running = s.running ∧ (Tuner.addRow s).kst = s.kst ∧
      (Tuner.addRow s).done = s.done := by
    unfold Tuner.addRow; split <;> exact ⟨rfl, rfl, rfl, rfl⟩
  exact h.same (s' := { Tuner.addRow s with pc := q }) (Or.inl hs.1) hs.2.1 hs.2.2.1 hs.2.2.2 hp

/-- the poll has been answered: `done_trials` starts empty -/
theorem PInv.fetched {s s' : LState} (h : PInv s) (hp : s.pc = .fetch) (hq : s'.pc = .cbFetch) (hl : s'.loc = s.loc)
    (hr : s'.running = s.running) (hk : s'.kst = s.kst) (hd : s'.done = []) : PInv s' := by
  refine ⟨by rw [hl]; exact h.loc, fun _ => ?_⟩
  have hb := h.body (by rw [hp]; rfl)
  refine ⟨fun t ht => ?_, fun _ t ht => ?_, fun hc => ?_⟩
  · rw [hk] at ht
    rcases hb.tracked t ht with h1 | h1
    · exact Or.inl (by rw [hr]; exact h1)
    · rcases h1.1 with h2 | h2 <;> (rw [hp] at h2; cases h2)
  · rw [hd] at ht; cases ht
  · rw [hq] at hc; cases hc

/-- the end of a run is recorded: scheduler state not live any more, trial in `done_trials` -/
theorem PInv.ended {s s' : LState} (h : PInv s) (k : Nat) (v : KSt) (x : St) (hv : v ≠ .live)
    (hp : updPc s.pc = true) (hq : updPc s'.pc = true) (hq' : s'.pc ≠ .completeCb) (hl : s'.loc = s.loc)
    (hr : s'.running = s.running) (hk : s'.kst = aset k v s.kst) (hd : s'.done = aset k x s.done) : PInv s' := by
  refine ⟨by rw [hl]; exact h.loc, fun _ => ?_⟩
  have hfs : finPc s.pc = false := by revert hp; cases s.pc <;> simp [updPc, finPc]
  have hns : s.pc ≠ .startCb ∧ s.pc ≠ .resumeCb := by
    constructor <;> (intro hc; rw [hc] at hp; cases hp)
  have hb := h.body hfs
  have hlk : ∀ t, alookup t s'.kst = some .live → t ≠ k ∧ alookup t s.kst = some .live := by
    intro t ht
    rw [hk, alookup_aset] at ht
    by_cases htk : t = k
    · rw [if_pos htk] at ht; injection ht with ht; exact absurd ht hv
    · rw [if_neg htk] at ht; exact ⟨htk, ht⟩
  refine ⟨fun t ht => ?_, fun _ t ht hc => ?_, fun hc => absurd hc hq'⟩
  · rcases hb.tracked t (hlk t ht).2 with h1 | h1
    · exact Or.inl (by rw [hr]; exact h1)
    · rcases h1.1 with h2 | h2
      · exact absurd h2 hns.1
      · exact absurd h2 hns.2
  · obtain ⟨htk, hlv⟩ := hlk t hc
    rw [hd, mem_keys_aset] at ht
    rcases ht with ht | ht
    · exact htk ht
    · exact hb.doneNotLive hp t ht hlv

/-- `on_trial_complete` has returned; the tuner callbacks' `on_trial_complete` comes next -/
theorem PInv.completeTold {s s' : LState} (h : PInv s) (hp : s.pc = .completeS) (hq : s'.pc = .completeCb)
    (hl : s'.loc = s.loc) (hr : s'.running = s.running) (hk : s'.kst = aset s.t .dead s.kst) (hd : s'.done = s.done)
    (ht : s'.t = s.t) : PInv s' := by
  refine ⟨by rw [hl]; exact h.loc, fun _ => ?_⟩
  have hb := h.body (by rw [hp]; rfl)
  have hlk : ∀ t, alookup t s'.kst = some .live → alookup t s.kst = some .live := by
    intro t ht'
    rw [hk, alookup_aset] at ht'
    by_cases htk : t = s.t
    · rw [if_pos htk] at ht'; cases ht'
    · rw [if_neg htk] at ht'; exact ht'
  refine ⟨fun t ht' => ?_, fun _ t ht' hc => ?_, fun _ hc => ?_⟩
  · rcases hb.tracked t (hlk t ht') with h1 | h1
    · exact Or.inl (by rw [hr]; exact h1)
    · rcases h1.1 with h2 | h2 <;> (rw [hp] at h2; cases h2)
  · rw [hd] at ht'
    exact hb.doneNotLive (by rw [hp]; rfl) t ht' (hlk t hc)
  · rw [ht, hk, alookup_aset_self] at hc; cases hc

/-- the tuner callbacks' `on_trial_complete` has returned -/
theorem PInv.completeDone {s s' : LState} (h : PInv s) (hp : s.pc = .completeCb) (hq : s'.pc = .second)
    (hl : s'.loc = s.loc) (hr : s'.running = s.running) (hk : s'.kst = s.kst) (x : St) (hd : s'.done = aset s.t x s.done) :
    PInv s' := by
  refine ⟨by rw [hl]; exact h.loc, fun _ => ?_⟩
  have hb := h.body (by rw [hp]; rfl)
  refine ⟨fun t ht' => ?_, fun _ t ht' => ?_, fun hc => by rw [hq] at hc; cases hc⟩
  · rw [hk] at ht'
    rcases hb.tracked t ht' with h1 | h1
    · exact Or.inl (by rw [hr]; exact h1)
    · rcases h1.1 with h2 | h2 <;> (rw [hp] at h2; cases h2)
  · rw [hk]
    rw [hd, mem_keys_aset] at ht'
    rcases ht' with ht' | ht'
    · rw [ht']; exact hb.ccb hp
    · exact hb.doneNotLive (by rw [hp]; rfl) t ht'

theorem PInv.secondItem {s : LState} (h : PInv s) (hp : s.pc = .second) (t : Nat) (st : St) (rest : List (Nat × St)) :
    PInv (Tuner.secondItem s t st rest) := by
  have hb := h.body (by rw [hp]; rfl)
  have htr : ∀ u, alookup u s.kst = some .live → u ∈ s.running := by
    intro u hu
    rcases hb.tracked u hu with h1 | h1
    · exact h1
    · rcases h1.1 with h2 | h2 <;> (rw [hp] at h2; cases h2)
  have hdn := hb.doneNotLive (by rw [hp]; rfl)
  -- a move that keeps `running`, `kst`, `done`, `loc` and does not go to the callbacks' `on_trial_complete`
  have mv : ∀ s' : LState, s'.loc = s.loc → s'.running = s.running → s'.kst = s.kst → s'.done = s.done →
      s'.pc ≠ .completeCb → PInv s' := by
    intro s' h0 h1 h2 h3 h4
    refine ⟨by rw [h0]; exact h.loc, fun _ => ⟨fun u hu => ?_, fun _ u hu => ?_, fun hc => absurd hc h4⟩⟩
    · rw [h2] at hu; exact Or.inl (by rw [h1]; exact htr u hu)
    · rw [h3] at hu; rw [h2]; exact hdn u hu
  cases st with
  | failed => simp only [Tuner.secondItem]; exact mv _ rfl rfl rfl rfl (pcne rfl)
  | stopped =>
    simp only [Tuner.secondItem]
    by_cases hss : t ∈ s.schedStopped
    · simp only [hss, if_true]; exact mv _ rfl rfl rfl rfl (by rw [hp]; exact pcne rfl)
    · simp only [hss, if_false]; exact mv _ rfl rfl rfl rfl (pcne rfl)
  | completed =>
    simp only [Tuner.secondItem]
    cases hls : alookup t s.lastSeen with
    | none => simp only []; exact mv _ rfl rfl rfl rfl (pcne rfl)
    | some rid =>
      simp only []
      by_cases hk : hasKey t s.done = true
      · have hmem : t ∈ keys s.done := (hasKey_iff_mem_keys _ _).mp hk
        by_cases hpz : alookup t s.done = some St.paused
        · simp only [hk, hpz, if_true, Bool.not_true, Bool.false_eq_true, if_false]
          refine ⟨h.loc, fun _ => ⟨fun u hu => Or.inl (htr u hu), fun _ u hu => ?_, fun hc => ?_⟩⟩
          · have hu' : u ∈ keys (aset t St.paused s.done) := hu
            rw [mem_keys_aset] at hu'
            rcases hu' with h1 | h1
            · rw [h1]; exact hdn t hmem
            · exact hdn u h1
          · have hc' : s.pc = .completeCb := hc
            rw [hp] at hc'; cases hc'
        · simp only [hk, hpz, if_true, Bool.not_true, Bool.false_eq_true, if_false]
          -- straight to the callbacks' `on_trial_complete`: the trial is in `done_trials` already
          exact ⟨h.loc, fun _ => ⟨fun u hu => Or.inl (htr u hu), fun _ u hu => hdn u hu, fun _ => hdn t hmem⟩⟩
      · have hk' : hasKey t s.done = false := by cases hh : hasKey t s.done <;> simp_all
        simp only [hk', Bool.not_false, if_true]
        exact mv _ rfl rfl rfl rfl (pcne rfl)
  | inProgress => simp only [Tuner.secondItem]; exact mv _ rfl rfl rfl rfl (by rw [hp]; exact pcne rfl)
  | paused => simp only [Tuner.secondItem]; exact mv _ rfl rfl rfl rfl (by rw [hp]; exact pcne rfl)
  | stopping => simp only [Tuner.secondItem]; exact mv _ rfl rfl rfl rfl (by rw [hp]; exact pcne rfl)

theorem PInv.afterUpdate {s : LState} (h : PInv s) (hp : s.pc = .afterUpd) : PInv (Tuner.afterUpdate s) := by
  refine ⟨h.loc, fun hf => ?_⟩
  have hb := h.body (by rw [hp]; rfl)
  have hq : (Tuner.afterUpdate s).pc = .sleepWait ∨ (Tuner.afterUpdate s).pc = .schedNew := by
    rcases afterUpdate_pc s with h1 | h1 | h1
    · exact Or.inl h1
    · rw [h1] at hf; cases hf
    · exact Or.inr h1
  refine ⟨fun t ht => ?_, fun hu => ?_, fun hc => ?_⟩
  · left
    have ht' : alookup t s.kst = some .live := ht
    show t ∈ s.running.filter (fun t => !hasKey t s.done)
    rw [List.mem_filter]
    rcases hb.tracked t ht' with h1 | h1
    · refine ⟨h1, ?_⟩
      cases hk : hasKey t s.done
      · rfl
      · exact absurd ht' (hb.doneNotLive (by rw [hp]; rfl) t ((hasKey_iff_mem_keys _ _).mp hk))
    · rcases h1.1 with h2 | h2 <;> (rw [hp] at h2; cases h2)
  · rcases hq with h1 | h1 <;> (rw [h1] at hu; cases hu)
  · rcases hq with h1 | h1 <;> (rw [h1] at hc; cases hc)

/-- the scheduler has been told about the new run -/
theorem PInv.opened {s s' : LState} (h : PInv s) (hp : s.pc = .addS ∨ s.pc = .resumeCmd)
    (hq : s'.pc = .startCb ∨ s'.pc = .resumeCb) (hl : s'.loc = s.loc) (hr : s'.running = s.running)
    (hk : s'.kst = aset s.sId .live s.kst) (hi : s'.sId = s.sId) : PInv s' := by
  refine ⟨by rw [hl]; exact h.loc, fun _ => ?_⟩
  have hb := h.body (by rcases hp with hp | hp <;> rw [hp] <;> rfl)
  refine ⟨fun t ht => ?_, fun hu => ?_, fun hc => ?_⟩
  · by_cases htk : t = s.sId
    · exact Or.inr ⟨hq, by rw [hi]; exact htk⟩
    · rw [hk, alookup_aset, if_neg htk] at ht
      rcases hb.tracked t ht with h1 | h1
      · exact Or.inl (by rw [hr]; exact h1)
      · rcases h1.1 with h2 | h2 <;> rcases hp with hp | hp <;> (rw [hp] at h2; cases h2)
  · rcases hq with hq | hq <;> (rw [hq] at hu; cases hu)
  · rcases hq with hq | hq <;> (rw [hq] at hc; cases hc)

/-- `running_trials_ids.add(trial_id)` reaches the loop's set because the local name was not rebound -/
theorem PInv.scheduled {s : LState} (h : PInv s) (hp : s.pc = .startCb ∨ s.pc = .resumeCb) :
    PInv (Tuner.scheduled s s.sId) := by
  have hb := h.body (by rcases hp with hp | hp <;> rw [hp] <;> rfl)
  have hloc := h.loc
  have hs : Tuner.scheduled s s.sId =
      { s with running := sadd s.sId s.running, k := s.k - 1, status := s.status.update [(s.sId, .inProgress)] [],
               pc := .suggestNext } := by
    unfold Tuner.scheduled addRunning; rw [hloc]
  rw [hs]
  refine ⟨hloc, fun _ => ⟨fun t ht => ?_, (fun hu => nomatch hu), (fun hc => nomatch hc)⟩⟩
  left
  show t ∈ sadd s.sId s.running
  rw [mem_sadd]
  rcases hb.tracked t ht with h1 | h1
  · exact Or.inr h1
  · exact Or.inl h1.2

theorem PInv_next (s : LState) (a : Ans) (h : PInv s) (hR : RebindOk s a) : PInv (next s a) := by
  unfold next
  split
  all_goals (rename_i hpc)
  all_goals (try simp only [])
  all_goals (repeat' split)
  all_goals first
    | exact h.toFin rfl rfl
    | exact h.same (Or.inl rfl) rfl rfl rfl (by rw [hpc]; rfl)
    | exact h.same (Or.inr rfl) rfl rfl rfl (by rw [hpc]; rfl)
    | exact h.addRow _ (by rw [hpc]; rfl)
    | exact h.fetched hpc rfl rfl rfl rfl rfl
    | exact h.ended _ _ _ (by decide) (by rw [hpc]; rfl) rfl (pcne rfl) rfl rfl rfl rfl
    | exact h.completeTold hpc rfl rfl rfl rfl rfl rfl
    | exact h.completeDone hpc rfl rfl rfl rfl _ rfl
    | exact h.secondItem hpc _ _ _
    | exact h.afterUpdate hpc
    | exact absurd ‹_ < _› (Nat.not_lt.mpr (hR hpc _ rfl))
    | exact h.opened (Or.inl hpc) (Or.inl rfl) rfl rfl rfl rfl
    | exact h.opened (Or.inr hpc) (Or.inr rfl) rfl rfl rfl rfl
    | exact h.scheduled (Or.inl hpc)
    | exact h.scheduled (Or.inr hpc)
    | exact h.same (s' := started s) (Or.inl rfl) rfl rfl rfl (by rw [hpc]; rfl)

theorem PInv_step (s : LState) (a : Ans) (h : PInv s) (hR : RebindOk s a) : PInv (step s a) :=
  step_of_next (P := PInv) (fun _ _ h => ⟨h.loc, fun hf => ⟨(h.body hf).tracked, (h.body hf).doneNotLive, (h.body hf).ccb⟩⟩)
    s a (PInv_next s a h hR)

theorem PInv_init (c : Cfg) : PInv (init c) :=
  ⟨rfl, fun _ => ⟨fun t ht => (by simp [init, alookup] at ht), (fun hu => nomatch hu), (fun hc => nomatch hc)⟩⟩

theorem PInv_run (c : Cfg) (as : List Ans) (hR : Along RebindOk (init c) as) : PInv (run (init c) as) :=
  run_inv_along (Inv := PInv) (P := RebindOk) (fun s a h hp => PInv_step s a h hp) as (init c) (PInv_init c) hR

/-- with `start_jobs_without_delay=True` the busy list is never asked for -/
theorem swd_never_busy (s : LState) (a : Ans) (hs : s.cfg.swd = true) (hp : s.pc ≠ .busy) : (next s a).pc ≠ .busy := by
  intro hc
  have hfl := next_flow s a
  rw [hc] at hfl
  have hp' : s.pc = .schedNew := by
    revert hfl hp; cases s.pc <;> simp [flow, succs]
  revert hc
  simp only [next, hp', hs, if_true]
  split <;> exact pcne rfl

theorem rebindOk_of_swd (c : Cfg) (hs : c.swd = true) (as : List Ans) : Along RebindOk (init c) as := by
  have key : ∀ (as : List Ans) (s : LState), s.cfg.swd = true → s.pc ≠ .busy → Along RebindOk s as := by
    intro as
    induction as with
    | nil => intro _ _ _; trivial
    | cons a as ih =>
      intro s h1 h2
      refine ⟨fun hc => absurd hc h2, ih _ (by rw [step_cfg]; exact h1) (by rw [step_pc]; exact swd_never_busy s a h1 h2)⟩
  exact key as (init c) hs (pcne rfl)

end SyneTune.Tuner
