import SyneTune.Lemmas.C14CompMgr
/- C14 composed system: transfer of the invariant's clauses across an operation which
touches the record of (at most) one trial. -/
namespace SyneTune.C14Comp
open SyneTune SyneTune.C04K SyneTune.C14 SyneTune.C13Hb

/-- the scheduler state `s'` differs from `s` in the record of trial `tid` only (new record
`new`, `none` = trial unknown before and after) -/
structure Upd1 (s s' : Sched) (tid : Nat) (new : Option TrialInfo) : Prop where
  act : ∀ t, alookup t s'.active = if t = tid then new else alookup t s.active
  shape : shape s'.mgr = shape s.mgr
  sd : s'.searcherData = s.searcherData
  view : ∀ t, t ≠ tid → trialView s'.mgr t = trialView s.mgr t

theorem Upd1.maxT {s s' : Sched} {tid : Nat} {new : Option TrialInfo} (u : Upd1 s s' tid new) :
    s'.mgr.maxT = s.mgr.maxT := (shape_fields u.shape).2.2.1

theorem Upd1.levels {s s' : Sched} {tid : Nat} {new : Option TrialInfo} (u : Upd1 s s' tid new) :
    s'.mgr.rungLevels = s.mgr.rungLevels := (shape_fields u.shape).2.2.2.1

theorem Upd1.type {s s' : Sched} {tid : Nat} {new : Option TrialInfo} (u : Upd1 s s' tid new) :
    s'.mgr.type = s.mgr.type := (shape_fields u.shape).1

theorem Upd1.other {s s' : Sched} {tid : Nat} {new : Option TrialInfo} (u : Upd1 s s' tid new)
    {t : Nat} (h : t ≠ tid) : alookup t s'.active = alookup t s.active := by
  rw [u.act]; simp [h]

theorem Upd1.self {s s' : Sched} {tid : Nat} {new : Option TrialInfo} (u : Upd1 s s' tid new) :
    alookup tid s'.active = new := by
  rw [u.act]; simp

theorem RunningOK_upd1 {s s' : Sched} {tid : Nat} {new : Option TrialInfo} (u : Upd1 s s' tid new)
    (h : RunningOK s)
    (hnew : ∀ rec, new = some rec → rec.decision = .continue →
      lastRep rec < milestoneOf s'.mgr tid (lastRep rec) ∧
      (milestoneOf s'.mgr tid (lastRep rec) = s'.mgr.maxT ∨ milestoneOf s'.mgr tid (lastRep rec) ∈ s'.mgr.rungLevels)) :
    RunningOK s' := by
  intro t rec ht hd
  by_cases he : t = tid
  · subst he
    rw [u.self] at ht
    exact hnew rec ht hd
  · rw [u.other he] at ht
    rw [milestoneOf_congr u.shape (u.view t he), u.maxT, u.levels]
    exact h t rec ht hd

theorem UpdOK_upd1 {s s' : Sched} {tid : Nat} {new : Option TrialInfo} (u : Upd1 s s' tid new)
    (h : UpdOK s) (hnew : ∀ rec, new = some rec → ∀ l, rec.largestUpdate = some l → l ≤ lastRep rec) :
    UpdOK s' := by
  intro t rec ht l hl
  by_cases he : t = tid
  · subst he
    rw [u.self] at ht
    exact hnew rec ht l hl
  · rw [u.other he] at ht
    exact h t rec ht l hl

theorem PendOK_upd1 {y y' : Sys} {tid : Nat} {new : Option TrialInfo} (u : Upd1 y.sched y'.sched tid new)
    (h : PendOK y) (hoth : ∀ p ∈ y'.st.pending, p.1 ≠ tid → p ∈ y.st.pending)
    (hnew : ∀ p ∈ y'.st.pending, p.1 = tid → ∃ rec, new = some rec ∧ rec.decision = .continue ∧
      lastRep rec < p.2 ∧ p.2 ≤ milestoneOf y'.sched.mgr tid (lastRep rec) ∧
      (y'.sched.searcherData = .rungs → p.2 = milestoneOf y'.sched.mgr tid (lastRep rec))) :
    PendOK y' := by
  intro p hp
  by_cases he : p.1 = tid
  · obtain ⟨rec, h1, h2, h3, h4, h5⟩ := hnew p hp he
    refine ⟨rec, ?_, h2, h3, ?_, ?_⟩
    · rw [he, u.self]; exact h1
    · rw [he]; exact h4
    · rw [he]; exact h5
  · obtain ⟨rec, h1, h2, h3, h4, h5⟩ := h p (hoth p hp he)
    refine ⟨rec, ?_, h2, h3, ?_, ?_⟩
    · rw [u.other he]; exact h1
    · rw [milestoneOf_congr u.shape (u.view p.1 he)]; exact h4
    · rw [milestoneOf_congr u.shape (u.view p.1 he), u.sd]; exact h5

theorem ObsOK_upd1 {y y' : Sys} {tid : Nat} {new : Option TrialInfo} (u : Upd1 y.sched y'.sched tid new)
    (h : ObsOK y)
    (hmono : ∀ rec, alookup tid y.sched.active = some rec → ∃ rec', new = some rec' ∧ lastRep rec ≤ lastRep rec')
    (hlab : ∀ t r, y'.st.isLabeled t r = true → y.st.isLabeled t r = true ∨
      (t = tid ∧ ∃ rec', new = some rec' ∧ r ≤ lastRep rec')) : ObsOK y' := by
  intro t r hl
  rcases hlab t r hl with hl | ⟨rfl, rec', h1, h2⟩
  · obtain ⟨rec, h1, h2⟩ := h t r hl
    by_cases he : t = tid
    · subst he
      obtain ⟨rec', g1, g2⟩ := hmono rec h1
      exact ⟨rec', by rw [u.self]; exact g1, by omega⟩
    · exact ⟨rec, by rw [u.other he]; exact h1, h2⟩
  · exact ⟨rec', by rw [u.self]; exact h1, h2⟩

theorem LastOK_upd1 {y y' : Sys} {tid : Nat} {new : Option TrialInfo} (u : Upd1 y.sched y'.sched tid new)
    (h : LastOK y) (hlab : ∀ t r, t ≠ tid → y.st.isLabeled t r = true → y'.st.isLabeled t r = true)
    (hnew : y.sched.searcherData = .rungsAndLast → ∀ rec, new = some rec → ∀ p, rec.reported = some p →
      rec.keepCase = false → y'.st.isLabeled tid p.2 = true) : LastOK y' := by
  intro hsd t rec ht p hp hk
  rw [u.sd] at hsd
  by_cases he : t = tid
  · subst he
    rw [u.self] at ht
    exact hnew hsd rec ht p hp hk
  · rw [u.other he] at ht
    exact hlab t p.2 he (h hsd t rec ht p hp hk)

theorem EntOK_upd1 {s s' : Sched} {tid : Nat} {new : Option TrialInfo} (u : Upd1 s s' tid new)
    (h : EntOK s)
    (hmono : ∀ rec, alookup tid s.active = some rec → ∃ rec', new = some rec' ∧ lastRep rec ≤ lastRep rec')
    (hents : ∀ L e, EntIn s'.mgr.systems L e →
      (∃ e0, EntIn s.mgr.systems L e0 ∧ e0.tid = e.tid ∧ (e.promoted = false → e0.promoted = false)) ∨
      (e.tid = tid ∧ ∃ rec', new = some rec' ∧ L = lastRep rec'))
    (hunp : s.mgr.type.pauseResume = true → ∀ L e0, EntIn s.mgr.systems L e0 → e0.tid = tid → e0.promoted = false →
      ∀ rec', new = some rec' → lastRep rec' ≤ L) : EntOK s' := by
  intro L e he
  rcases hents L e he with ⟨e0, h0, ht, hp⟩ | ⟨ht, rec', h1, h2⟩
  · obtain ⟨rec, g1, g2, g3⟩ := h L e0 h0
    by_cases hc : e.tid = tid
    · rw [ht, hc] at g1
      obtain ⟨rec', k1, k2⟩ := hmono rec g1
      refine ⟨rec', by rw [hc, u.self]; exact k1, by omega, ?_⟩
      intro hpr hpe
      rw [u.type] at hpr
      exact hunp hpr L e0 h0 (by rw [ht, hc]) (hp hpe) rec' k1
    · refine ⟨rec, by rw [u.other hc, ← ht]; exact g1, g2, ?_⟩
      intro hpr hpe
      rw [u.type] at hpr
      exact g3 hpr (hp hpe)
  · exact ⟨rec', by rw [ht, u.self]; exact h1, by omega, fun _ _ => by omega⟩

end SyneTune.C14Comp
