import SyneTune.Lemmas.C14CompReport
/- C14 composed system: what `terminator.on_task_report` changes and answers. -/
namespace SyneTune.C14Comp
open SyneTune SyneTune.C04K SyneTune.C14 SyneTune.C13Hb

theorem taskReport_cases (g g' : Manager) (tid r : Nat) (v : Rat) (hint : Bool) (cost eps : Rat) (o : RepOut)
    (h : g.taskReport tid r v hint cost eps = .ok (g', o)) :
    ∃ b sys, alookup tid g.taskInfo = some b ∧ g.systems[(g.sysFor b).1]? = some sys ∧
      ((r < g.maxT ∧ ∃ sys' o1, g.sysReport sys tid r v (g.sysFor b).2 hint cost eps = .ok (sys', o1) ∧
          g' = g.setSys (g.sysFor b).1 sys' ∧ o = fixNext g.maxT o1) ∨
       (g.maxT ≤ r ∧ g' = g ∧ o = { continues := false, reached := true, next := none })) := by
  unfold Manager.taskReport at h
  cases h1 : alookup tid g.taskInfo with
  | none => simp [h1] at h
  | some b =>
    simp only [h1] at h
    cases h2 : g.systems[(g.sysFor b).1]? with
    | none => simp [h2] at h
    | some sys =>
      simp only [h2] at h
      refine ⟨b, sys, rfl, h2, ?_⟩
      split at h
      · rename_i hlt
        cases hsr : g.sysReport sys tid r v (g.sysFor b).2 hint cost eps with
        | error e => simp [hsr] at h
        | ok res =>
          simp only [hsr] at h
          injection h with h
          simp only [Prod.mk.injEq] at h
          exact Or.inl ⟨hlt, res.1, res.2, rfl, h.1.symm, h.2.symm⟩
      · rename_i hge
        injection h with h
        simp only [Prod.mk.injEq] at h
        exact Or.inr ⟨by omega, h.1.symm, h.2.symm⟩

theorem sysReport_facts (g : Manager) (sys sys' : RungSys) (tid r : Nat) (v : Rat) (skip : Nat) (hint : Bool)
    (cost eps : Rat) (o1 : RepOut) (h : g.sysReport sys tid r v skip hint cost eps = .ok (sys', o1)) :
    SysRep sys sys' tid r o1 ∧ (o1.continues = false → o1.reached = true) ∧
    (g.type.pauseResume = false → o1.ignoreData = false ∧
      (RungsDecr sys.rungs → (∀ rg ∈ sys.rungs, rg.contains tid = true → rg.level < r) → r ≠ sys.maxT →
        (r ∈ sys.milestones skip → o1.reached = true ∧ o1.next = some (nextLevel r sys.maxT (sys.milestones skip))) ∧
        (r ∉ sys.milestones skip → o1.reached = false))) ∧
    (g.type.pauseResume = true → ∃ mr, alookup tid sys.running = some mr ∧ r ≤ mr.1 ∧
      o1.ignoreData = ignoreOf mr.2 r ∧ (r < mr.1 → o1.continues = true ∧ o1.reached = false) ∧
      (r = mr.1 → o1.continues = false ∧ o1.reached = true)) := by
  have promo : ∀ c : Rat, sys.promoReport g.mode tid r v c = .ok (sys', o1) → g.type.pauseResume = true →
      SysRep sys sys' tid r o1 ∧ (o1.continues = false → o1.reached = true) ∧
      (g.type.pauseResume = false → o1.ignoreData = false ∧
        (RungsDecr sys.rungs → (∀ rg ∈ sys.rungs, rg.contains tid = true → rg.level < r) → r ≠ sys.maxT →
          (r ∈ sys.milestones skip → o1.reached = true ∧ o1.next = some (nextLevel r sys.maxT (sys.milestones skip))) ∧
          (r ∉ sys.milestones skip → o1.reached = false))) ∧
      (g.type.pauseResume = true → ∃ mr, alookup tid sys.running = some mr ∧ r ≤ mr.1 ∧
        o1.ignoreData = ignoreOf mr.2 r ∧ (r < mr.1 → o1.continues = true ∧ o1.reached = false) ∧
        (r = mr.1 → o1.continues = false ∧ o1.reached = true)) := by
    intro c hp hpr
    obtain ⟨mr, f1, f2, f3, f4, f5, f6, _, _⟩ := promoReport_facts sys sys' g.mode tid r v c o1 hp
    refine ⟨f6, ?_, fun hn => (by rw [hpr] at hn; cases hn), fun _ => ⟨mr, f1, f2, f3, f4, f5⟩⟩
    intro hc
    rcases Nat.lt_or_ge r mr.1 with hlt | hge
    · rw [(f4 hlt).1] at hc; cases hc
    · exact (f5 (by omega)).2
  unfold Manager.sysReport at h
  cases hty : g.type with
  | stopping =>
    simp only [hty] at h
    injection h with h
    have h1 : sys' = (sys.stopReport g.mode tid r v skip hint).1 := by rw [h]
    have h2 : o1 = (sys.stopReport g.mode tid r v skip hint).2 := by rw [h]
    subst h1; subst h2
    obtain ⟨b1, b2, b3, _, _⟩ := stopReport_basic sys g.mode tid r v skip hint
    refine ⟨b1, b2, fun _ => ⟨b3, fun hd hc hr => stopReport_reach sys g.mode tid r v skip hint hd hc hr⟩,
      fun hp => (by simp [HBType.pauseResume] at hp)⟩
  | rushStopping =>
    simp only [hty] at h
    injection h with h
    have h1 : sys' = (sys.rushStopReport g.mode tid r v skip hint).1 := by rw [h]
    have h2 : o1 = (sys.rushStopReport g.mode tid r v skip hint).2 := by rw [h]
    subst h1; subst h2
    obtain ⟨b1, b2, b3, b4, b5⟩ := rushStopReport_basic sys g.mode tid r v skip hint
    refine ⟨b1, b2, fun _ => ⟨b3, fun hd hc hr => ?_⟩, fun hp => (by simp [HBType.pauseResume] at hp)⟩
    rw [b4, b5]
    exact stopReport_reach sys g.mode tid r v skip hint hd hc hr
  | promotion => simp only [hty] at h; rw [← hty]; exact promo 0 h (by rw [hty]; rfl)
  | rushPromotion => simp only [hty] at h; rw [← hty]; exact promo 0 h (by rw [hty]; rfl)
  | costPromotion => simp only [hty] at h; rw [← hty]; exact promo cost h (by rw [hty]; rfl)
  | pasha =>
    simp only [hty] at h
    obtain ⟨mr, f1, f2, f3, f4, f5, f6⟩ := pashaReport_facts sys sys' g.mode tid r v eps o1 h
    refine ⟨f6, ?_, fun hn => (by simp [HBType.pauseResume] at hn), fun _ => ⟨mr, f1, f2, f3, f4, f5⟩⟩
    intro hc
    rcases Nat.lt_or_ge r mr.1 with hlt | hge
    · rw [(f4 hlt).1] at hc; cases hc
    · exact (f5 (by omega)).2

theorem fixNext_next (maxT : Nat) (o : RepOut) (n : Nat) (h : o.next = some n) : (fixNext maxT o).next = some n := by
  unfold fixNext
  split
  · rename_i hc; rw [h] at hc; simp at hc
  · exact h

theorem trialView_of (g : Manager) (tid b : Nat) (sys : RungSys) (h1 : alookup tid g.taskInfo = some b)
    (h2 : g.systems[(g.sysFor b).1]? = some sys) :
    trialView g tid = some (alookup tid sys.running, sys.milestones (g.sysFor b).2) := by
  unfold trialView; simp only [h1, h2]

/-- effect of `terminator.on_task_report` on the manager -/
structure RepEff (g g' : Manager) (tid r : Nat) (o : RepOut) : Prop where
  shape : shape g' = shape g
  view : ∀ t, trialView g' t = trialView g t
  ents : ∀ L e, EntIn g'.systems L e →
    EntIn g.systems L e ∨ (o.reached = true ∧ L = r ∧ e.tid = tid ∧ e.promoted = false)
  ignore : o.ignoreData = resumedBelow g tid r
  stop : o.continues = false → o.reached = true

theorem taskReport_eff (g g' : Manager) (tid r : Nat) (v : Rat) (hint : Bool) (cost eps : Rat) (o : RepOut)
    (h : g.taskReport tid r v hint cost eps = .ok (g', o)) : RepEff g g' tid r o := by
  obtain ⟨b, sys, h1, h2, hc⟩ := taskReport_cases g g' tid r v hint cost eps o h
  have hv := trialView_of g tid b sys h1 h2
  rcases hc with ⟨hlt, sys', o1, hsr, rfl, rfl⟩ | ⟨hge, hg, ho⟩
  · obtain ⟨⟨s1, s2, s3⟩, f2, f3, f4⟩ := sysReport_facts g sys sys' tid r v _ hint cost eps o1 hsr
    obtain ⟨x1, x2, x3⟩ := fixNext_fields g.maxT o1
    refine ⟨?_, ?_, ?_, ?_, ?_⟩
    · simp only [shape, Manager.setSys, Prod.mk.injEq, true_and]
      exact map_set_same sig _ _ sys _ h2 s2
    · intro t
      exact trialView_set g _ t _ sys sys' rfl rfl h2 rfl (by rw [s1]) s2
    · intro L e he
      rcases EntIn_set h2 he with he | ⟨rg', hrg', hl, hm⟩
      · exact Or.inl he
      · rcases s3 rg' hrg' e hm with ⟨rg, hrg, hl2, hm2⟩ | ⟨k1, k2, k3, k4⟩
        · exact Or.inl ⟨sys, List.mem_of_getElem? h2, rg, hrg, by rw [hl2, hl], hm2⟩
        · exact Or.inr ⟨by rw [x2]; exact k1, by rw [← hl, k2], k3, k4⟩
    · rw [x3]
      unfold resumedBelow
      rw [hv]
      by_cases hpr : g.type.pauseResume = true
      · obtain ⟨mr, m1, _, m3, _⟩ := f4 hpr
        simp [hpr, hlt, m1, m3]
      · have hpr' : g.type.pauseResume = false := by simpa using hpr
        simp [hpr', (f3 hpr').1]
    · rw [x1, x2]; exact f2
  · rw [hg, ho]
    refine ⟨rfl, fun _ => rfl, fun L e he => Or.inl he, ?_, fun _ => rfl⟩
    unfold resumedBelow
    have : ¬ r < g.maxT := by omega
    simp [this]

/-- an ignored report (resumed trial re-reporting an old level) reaches no milestone -/
theorem taskReport_ign (g g' : Manager) (tid r : Nat) (v : Rat) (hint : Bool) (cost eps : Rat) (o : RepOut)
    (h : g.taskReport tid r v hint cost eps = .ok (g', o))
    (hrun : ∀ sys ∈ g.systems, RunOK sys) (hig : o.ignoreData = true) :
    o.reached = false ∧ o.continues = true := by
  obtain ⟨b, sys, h1, h2, hc⟩ := taskReport_cases g g' tid r v hint cost eps o h
  rcases hc with ⟨hlt, sys', o1, hsr, rfl, rfl⟩ | ⟨hge, _, ho⟩
  · obtain ⟨_, f2, f3, f4⟩ := sysReport_facts g sys sys' tid r v _ hint cost eps o1 hsr
    obtain ⟨x1, x2, x3⟩ := fixNext_fields g.maxT o1
    rw [x3] at hig
    rw [x1, x2]
    by_cases hpr : g.type.pauseResume = true
    · obtain ⟨mr, m1, m2, m3, m4, m5⟩ := f4 hpr
      have hlt2 : r < mr.1 := by
        rw [m3] at hig
        unfold ignoreOf at hig
        cases hf : mr.2 with
        | none => simp [hf] at hig
        | some f =>
          simp only [hf, decide_eq_true_eq] at hig
          have := hrun sys (List.mem_of_getElem? h2) (tid, mr) (alookup_mem tid mr _ m1) f hf
          simp only at this
          omega
      exact ⟨(m4 hlt2).2, (m4 hlt2).1⟩
    · have hpr' : g.type.pauseResume = false := by simpa using hpr
      rw [(f3 hpr').1] at hig; cases hig
  · rw [ho] at hig; cases hig

/-- a report which is not ignored, at the level following the last one taken into account -/
theorem taskReport_live (g g' : Manager) (tid r : Nat) (v : Rat) (hint : Bool) (cost eps : Rat) (o : RepOut)
    (h : g.taskReport tid r v hint cost eps = .ok (g', o)) (hw : MgrWF g) (l : Nat) (hr : r = l + 1)
    (hM : l < milestoneOf g tid l) (hMle : milestoneOf g tid l ≤ g.maxT)
    (hc : ∀ L e, EntIn g.systems L e → e.tid = tid → L ≤ l) :
    (o.reached = true → r = milestoneOf g tid l) ∧
    (o.reached = false → r ≠ milestoneOf g tid l ∧ milestoneOf g tid r = milestoneOf g tid l) ∧
    (o.reached = true → o.continues = true →
      ∃ n, o.next = some n ∧ milestoneOf g tid r = n ∧ r < n ∧ (n = g.maxT ∨ n ∈ g.rungLevels)) := by
  obtain ⟨b, sys, h1, h2, hcs⟩ := taskReport_cases g g' tid r v hint cost eps o h
  have hv := trialView_of g tid b sys h1 h2
  have hmem : sys ∈ g.systems := List.mem_of_getElem? h2
  obtain ⟨w1, w2, w3⟩ := MgrWF_sys hw hmem
  rcases hcs with ⟨hlt, sys', o1, hsr, rfl, rfl⟩ | ⟨hge, _, ho⟩
  · obtain ⟨_, f2, f3, f4⟩ := sysReport_facts g sys sys' tid r v _ hint cost eps o1 hsr
    obtain ⟨x1, x2, x3⟩ := fixNext_fields g.maxT o1
    rw [x1, x2]
    by_cases hpr : g.type.pauseResume = true
    · obtain ⟨mr, m1, m2, m3, m4, m5⟩ := f4 hpr
      have hmile : ∀ l', milestoneOf g tid l' = mr.1 := by
        intro l'; unfold milestoneOf; rw [hv]; simp [hpr, m1]
      rw [hmile l, hmile r]
      refine ⟨?_, ?_, ?_⟩
      · intro hre
        rcases Nat.lt_or_ge r mr.1 with hlt2 | hge2
        · rw [(m4 hlt2).2] at hre; cases hre
        · omega
      · intro hre
        refine ⟨?_, rfl⟩
        intro he
        rw [(m5 he).2] at hre; cases hre
      · intro hre hco
        rcases Nat.lt_or_ge r mr.1 with hlt2 | hge2
        · rw [(m4 hlt2).2] at hre; cases hre
        · rw [(m5 (by omega)).1] at hco; cases hco
    · have hpr' : g.type.pauseResume = false := by simpa using hpr
      have hmile : ∀ l', milestoneOf g tid l' = nextLevel l' g.maxT (sys.milestones (g.sysFor b).2) := by
        intro l'; unfold milestoneOf; rw [hv]; simp [hpr']
      have hcont : ∀ rg ∈ sys.rungs, rg.contains tid = true → rg.level < r := by
        intro rg hrg hcn
        have := (contains_iff rg tid).mp hcn
        simp only [List.mem_map] at this
        obtain ⟨e, he, het⟩ := this
        have := hc rg.level e ⟨sys, hmem, rg, hrg, rfl, he⟩ het
        omega
      have hrne : r ≠ sys.maxT := by rw [w1]; omega
      obtain ⟨r1, r2⟩ := (f3 hpr').2 w2 hcont hrne
      have hdec := milestones_decr w2 (g.sysFor b).2
      rw [hmile l, hmile r] at *
      rw [w1] at r1
      refine ⟨?_, ?_, ?_⟩
      · intro hre
        by_cases hin : r ∈ sys.milestones (g.sysFor b).2
        · rw [hr] at hin ⊢
          exact (nextLevel_pred_of_mem l g.maxT _ hdec hin).symm
        · rw [r2 hin] at hre; cases hre
      · intro hre
        have hnin : r ∉ sys.milestones (g.sysFor b).2 := by
          intro hin; rw [(r1 hin).1] at hre; cases hre
        have hne : l + 1 ≠ g.maxT := by omega
        have hld : l < g.maxT := by omega
        refine ⟨?_, ?_⟩
        · intro he
          rcases nextLevel_mem l g.maxT (sys.milestones (g.sysFor b).2) with hm | hm
          · omega
          · rw [← he] at hm; exact hnin hm
        · rw [hr] at hnin ⊢
          exact nextLevel_succ_of_not_mem l g.maxT _ hnin hne hld
      · intro hre _
        by_cases hin : r ∈ sys.milestones (g.sysFor b).2
        · refine ⟨_, fixNext_next _ _ _ (r1 hin).2, rfl, nextLevel_gt r g.maxT _ hlt, ?_⟩
          rcases nextLevel_mem r g.maxT (sys.milestones (g.sysFor b).2) with hm | hm
          · exact Or.inl hm
          · obtain ⟨rg, hrg, hl⟩ := mem_milestones hm
            right; rw [← hl]; exact (w3 rg hrg).2.2
        · rw [r2 hin] at hre; cases hre
  · rw [ho]
    exact ⟨fun _ => by omega, fun hre => (by cases hre), fun _ hco => (by cases hco)⟩

end SyneTune.C14Comp
