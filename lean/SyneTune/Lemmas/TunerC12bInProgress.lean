import SyneTune.Lemmas.TunerC12bFrame
import SyneTune.Lemmas.TunerPolled
/-
Behind C12b (`max_num_trials_finished` at the end of `run()`) and C01b (`num_trials_running` against
the loop's running set): **every trial recorded as `in_progress` is in the running set** — at every
control point of the loop and at the entry of the `finally` block — under contract B and PROVIDED
the local `running_trials_ids` of `_schedule_new_tasks` is never rebound (`RebindOk`, F15: a trial
started after the rebinding is recorded as `in_progress` but never enters the loop's set).
Side clauses: no entry of `done_trials` is `in_progress`, and the registers that are written into
`done_trials` are not `in_progress`.
-/
namespace SyneTune.Tuner.Cnt
open SyneTune SyneTune.Tuner AL

structure RInv (s : LState) : Prop where
  ip : ipPc s.pc = true → ∀ t, alookup t s.status.last = some .inProgress → t ∈ s.running
  dv : updPc s.pc = true → ∀ t, alookup t s.done ≠ some .inProgress
  cs : (s.pc = .stopDel ∨ s.pc = .removeS) → s.curSt ≠ .inProgress
  ts : (s.pc = .completeS ∨ s.pc = .completeCb ∨ s.pc = .errorS) → s.tSt ≠ .inProgress

/-- control points whose step may write `done_trials` -/
def donePc : Pc → Bool
  | .fetch | .removeS | .removeP | .second | .completeS | .completeCb | .errorS => true
  | _ => false

/-- control points from which the registers `curSt` / `tSt` become relevant -/
def regSrc : Pc → Bool
  | .cbResult | .stopCmd | .stopDel | .second | .completeS => true
  | _ => false

theorem addRow_done' (s : LState) : (addRow s).done = s.done := by unfold addRow; split <;> rfl
theorem addRow_curSt (s : LState) : (addRow s).curSt = s.curSt := by unfold addRow; split <;> rfl

/-- all steps but those leaving seven control points leave `done_trials` alone -/
theorem next_done (s : LState) (a : Ans) (h : donePc s.pc = false) : (next s a).done = s.done := by
  unfold next
  split
  all_goals (rename_i hpc)
  all_goals (try simp only [])
  all_goals (repeat' split)
  all_goals first
    | rfl
    | exact addRow_done' s
    | (exfalso; rw [hpc] at h; cases h; done)
    | (unfold scheduled addRunning; split <;> rfl)

theorem upd_back (p q : Pc) (hf : flow p q = true) (hq : updPc q = true) (hn : p ≠ .fetch) : updPc p = true := by
  have key : ∀ p q, (!(flow p q && updPc q && p != .fetch) || updPc p) = true :=
    Pc.forall2_of_all (P := fun p q => !(flow p q && updPc q && p != .fetch) || updPc p) (by decide)
  have := key p q
  have hn' : (p != Pc.fetch) = true := by simp [hn]
  simpa [hf, hq, hn'] using this

theorem reg_back (p q : Pc) (hf : flow p q = true)
    (hq : q = .stopDel ∨ q = .removeS ∨ q = .completeS ∨ q = .completeCb ∨ q = .errorS) : regSrc p = true := by
  have key : ∀ p q, (!(flow p q && (q == .stopDel || q == .removeS || q == .completeS || q == .completeCb || q == .errorS))
      || regSrc p) = true :=
    Pc.forall2_of_all (P := fun p q => !(flow p q && (q == .stopDel || q == .removeS || q == .completeS || q == .completeCb
      || q == .errorS)) || regSrc p) (by decide)
  have := key p q
  rcases hq with hq | hq | hq | hq | hq <;> (subst hq; simpa [hf] using this)

/-- a step that touches nothing the invariant talks about -/
theorem RInv.plain {s : LState} (h : RInv s) (a : Ans) (h1 : specialPc s.pc = false) (h2 : donePc s.pc = false)
    (h3 : regSrc s.pc = false) : RInv (next s a) := by
  have hf := next_frame s a h1
  have hd := next_done s a h2
  have hfl := next_flow s a
  have hnf : s.pc ≠ .fetch := by intro hc; rw [hc] at h2; cases h2
  refine ⟨fun hp => ?_, fun hp => ?_, fun hp => ?_, fun hp => ?_⟩
  · rw [hf.status, hf.running]; exact h.ip (ip_back _ _ hfl hp)
  · rw [hd]; exact h.dv (upd_back _ _ hfl hp hnf)
  · have := reg_back _ _ hfl (by rcases hp with hp | hp; exact Or.inl hp; exact Or.inr (Or.inl hp))
    rw [h3] at this; cases this
  · have := reg_back _ _ hfl (by
      rcases hp with hp | hp | hp
      · exact Or.inr (Or.inr (Or.inl hp))
      · exact Or.inr (Or.inr (Or.inr (Or.inl hp)))
      · exact Or.inr (Or.inr (Or.inr (Or.inr hp))))
    rw [h3] at this; cases this

/-- an exception raised inside the loop -/
theorem RInv.raise {s : LState} (h : RInv s) (hnf : finPc s.pc = false) (e : Raised) : RInv (raiseFin s e) :=
  ⟨fun _ => h.ip (ip_of_loop hnf), (fun hc => nomatch hc), (fun hc => by rcases hc with hc | hc <;> cases hc),
   (fun hc => by rcases hc with hc | hc | hc <;> cases hc)⟩

theorem dv_aset {d : List (Nat × St)} (hd : ∀ t, alookup t d ≠ some St.inProgress) (k : Nat) {v : St}
    (hv : v ≠ .inProgress) : ∀ t, alookup t (aset k v d) ≠ some St.inProgress := by
  intro t
  rw [alookup_aset]
  split
  · intro hc; injection hc with hc; exact hv hc
  · exact hd t

theorem st'_ne (b : Prop) [Decidable b] : (if b then St.paused else St.completed) ≠ St.inProgress := by
  split <;> (intro hc; cases hc)

/-- a step inside `_update_running_trials` that keeps status and running set: the new `done_trials`
and registers are given -/
theorem RInv.upd {s s' : LState} (h : RInv s) (hu : updPc s.pc = true) (hl : s'.status.last = s.status.last)
    (hr : s'.running = s.running) (_hip : ipPc s'.pc = true → True)
    (hdv : ∀ t, alookup t s'.done ≠ some St.inProgress)
    (hcs : (s'.pc = .stopDel ∨ s'.pc = .removeS) → s'.curSt ≠ .inProgress)
    (hts : (s'.pc = .completeS ∨ s'.pc = .completeCb ∨ s'.pc = .errorS) → s'.tSt ≠ .inProgress) : RInv s' := by
  have hips : ipPc s.pc = true := by revert hu; cases s.pc <;> simp [updPc, ipPc, finPc]
  exact ⟨fun _ => by rw [hl, hr]; exact h.ip hips, fun _ => hdv, hcs, hts⟩

theorem RInv.secondItem {s : LState} (h : RInv s) (hp : s.pc = .second) (t : Nat) (st : St) (rest : List (Nat × St)) :
    RInv (Tuner.secondItem s t st rest) := by
  have hu : updPc s.pc = true := by rw [hp]; rfl
  have hd := h.dv hu
  have mv : ∀ s' : LState, s'.status.last = s.status.last → s'.running = s.running →
      (∀ t, alookup t s'.done ≠ some St.inProgress) →
      (s'.pc = .second ∨ s'.pc = .stdoutNM ∨ s'.pc = .completeS ∨ s'.pc = .completeCb ∨ s'.pc = .errorS) →
      ((s'.pc = .completeS ∨ s'.pc = .completeCb ∨ s'.pc = .errorS) → s'.tSt ≠ .inProgress) → RInv s' := by
    intro s' h1 h2 h3 h4 h5
    refine h.upd hu h1 h2 (fun _ => trivial) h3 (fun hc => ?_) h5
    exfalso
    rcases hc with hc | hc <;> rcases h4 with h4 | h4 | h4 | h4 | h4 <;> (rw [hc] at h4; cases h4)
  have nots : ∀ {q : Pc}, q = Pc.second → (q = .completeS ∨ q = .completeCb ∨ q = .errorS) → False := by
    intro q h1 h2; subst h1; rcases h2 with h2 | h2 | h2 <;> cases h2
  cases st with
  | failed =>
    simp only [Tuner.secondItem]
    exact mv _ rfl rfl hd (Or.inr (Or.inr (Or.inr (Or.inr rfl)))) (fun _ hc => nomatch hc)
  | stopped =>
    simp only [Tuner.secondItem]
    by_cases hss : t ∈ s.schedStopped
    · simp only [hss, if_true]
      exact mv _ rfl rfl hd (Or.inl hp) (fun hc => (nots hp hc).elim)
    · simp only [hss, if_false]
      exact mv _ rfl rfl hd (Or.inr (Or.inr (Or.inr (Or.inr rfl)))) (fun _ hc => nomatch hc)
  | completed =>
    simp only [Tuner.secondItem]
    cases hls : alookup t s.lastSeen with
    | none =>
      simp only []
      exact mv _ rfl rfl hd (Or.inr (Or.inl rfl)) (fun hc => by rcases hc with hc | hc | hc <;> cases hc)
    | some rid =>
      simp only []
      by_cases hk : hasKey t s.done = true
      · by_cases hpz : alookup t s.done = some St.paused
        · simp only [hk, hpz, if_true, Bool.not_true, Bool.false_eq_true, if_false]
          exact mv _ rfl rfl (dv_aset hd _ (fun hc => nomatch hc)) (Or.inl hp) (fun hc => (nots hp hc).elim)
        · simp only [hk, hpz, if_true, Bool.not_true, Bool.false_eq_true, if_false]
          exact mv _ rfl rfl hd (Or.inr (Or.inr (Or.inr (Or.inl rfl)))) (fun _ hc => nomatch hc)
      · have hk' : hasKey t s.done = false := by cases hh : hasKey t s.done <;> simp_all
        simp only [hk', Bool.not_false, if_true]
        exact mv _ rfl rfl hd (Or.inr (Or.inr (Or.inl rfl))) (fun _ => st'_ne _)
  | inProgress => simp only [Tuner.secondItem]; exact mv _ rfl rfl hd (Or.inl hp) (fun hc => (nots hp hc).elim)
  | paused => simp only [Tuner.secondItem]; exact mv _ rfl rfl hd (Or.inl hp) (fun hc => (nots hp hc).elim)
  | stopping => simp only [Tuner.secondItem]; exact mv _ rfl rfl hd (Or.inl hp) (fun hc => (nots hp hc).elim)

/-- the end of `_process_new_results`: a trial still recorded as `in_progress` stays in the running set -/
theorem RInv.afterUpdate {s : LState} (h : RInv s) (hS : SInv s) (hp : s.pc = .afterUpd) : RInv (Tuner.afterUpdate s) := by
  have hu : updPc s.pc = true := by rw [hp]; rfl
  have hips : ipPc s.pc = true := by rw [hp]; rfl
  have hdn := (hS.doneOK hu).1
  have hds := (hS.doneOK hu).2
  have hsdn := hS.sdNodup hu
  have hk' : keys (aupdate s.sd s.done) = keys s.sd := keys_aupdate_of_subset _ _ hds
  have hnu : updPc (Tuner.afterUpdate s).pc = false := by
    rcases afterUpdate_pc s with hh | hh | hh <;> rw [hh] <;> rfl
  refine ⟨fun _ t ht => ?_, (fun hc => by rw [hnu] at hc; cases hc), fun hc => ?_, fun hc => ?_⟩
  · rw [afterUpdate_last, alookup_aupdate _ _ _ (by rw [hk']; exact hsdn)] at ht
    rw [afterUpdate_running, List.mem_filter]
    cases hU : alookup t (aupdate s.sd s.done) with
    | none =>
      rw [hU] at ht
      simp only [] at ht
      have hnk : t ∉ keys s.done := by
        intro hc
        have : t ∈ keys (aupdate s.sd s.done) := by rw [hk']; exact hds t hc
        exact (alookup_eq_none_iff _ _).mp hU this
      refine ⟨h.ip hips t ht, ?_⟩
      rw [(hasKey_false_iff _ _).mpr hnk]; rfl
    | some v =>
      rw [hU] at ht
      simp only [Option.some.injEq] at ht
      subst ht
      rw [alookup_aupdate _ _ _ hdn] at hU
      cases hd : alookup t s.done with
      | some w => rw [hd] at hU; simp only [Option.some.injEq] at hU; subst hU; exact absurd hd (h.dv hu t)
      | none =>
        rw [hd] at hU
        simp only [] at hU
        have hmem := mem_of_alookup hU
        refine ⟨(hS.sdRun hu _ hmem).1, ?_⟩
        have : hasKey t s.done = false := by unfold hasKey; rw [hd]; rfl
        rw [this]; rfl
  · rcases afterUpdate_pc s with hh | hh | hh <;> rcases hc with hc | hc <;> (rw [hh] at hc; cases hc)
  · rcases afterUpdate_pc s with hh | hh | hh <;> rcases hc with hc | hc | hc <;> (rw [hh] at hc; cases hc)

/-- a trial has been started or resumed and enters the loop's running set (the local name was not rebound) -/
theorem RInv.scheduled {s : LState} (h : RInv s) (hloc : s.loc = none) (hp : s.pc = .startCb ∨ s.pc = .resumeCb) :
    RInv (Tuner.scheduled s s.sId) := by
  have hips : ipPc s.pc = true := by rcases hp with hp | hp <;> rw [hp] <;> rfl
  have hrun : (Tuner.scheduled s s.sId).running = sadd s.sId s.running := by
    unfold Tuner.scheduled addRunning; rw [hloc]
  refine ⟨fun _ t ht => ?_, (fun hc => nomatch hc), (fun hc => by rcases hc with hc | hc <;> cases hc),
    (fun hc => by rcases hc with hc | hc | hc <;> cases hc)⟩
  rw [hrun, mem_sadd]
  rw [scheduled_last, alookup_aset] at ht
  by_cases htk : t = s.sId
  · exact Or.inl htk
  · rw [if_neg htk] at ht; exact Or.inr (h.ip hips t ht)

theorem RInv_next (s : LState) (a : Ans) (h : RInv s) (hS : SInv s) (hloc : s.loc = none) : RInv (next s a) := by
  by_cases hpl : specialPc s.pc = false ∧ donePc s.pc = false ∧ regSrc s.pc = false
  · exact h.plain a hpl.1 hpl.2.1 hpl.2.2
  · cases hpc : s.pc
    all_goals first
      | (exfalso; apply hpl; rw [hpc]; exact ⟨rfl, rfl, rfl⟩; done)
      | skip
    all_goals (have hnf : finPc s.pc = false ∨ s.pc = .finMark := by rw [hpc]; first | exact Or.inl rfl | exact Or.inr rfl)
    all_goals (have hu : updPc s.pc = true ∨ specialPc s.pc = true ∨ s.pc = .fetch := by
                 rw [hpc]; first | exact Or.inl rfl | exact Or.inr (Or.inl rfl) | exact Or.inr (Or.inr rfl))
    · -- clock
      rcases next_clock s a hpc with ⟨t, ht⟩ | ht
      · rw [ht]; exact ⟨fun _ => h.ip (by rw [hpc]; rfl), (fun hc => nomatch hc), (fun hc => by rcases hc with hc | hc <;> cases hc),
          (fun hc => by rcases hc with hc | hc | hc <;> cases hc)⟩
      · rw [ht]; exact h.raise (by rw [hpc]; rfl) _
    · -- fetch
      simp only [next, hpc]
      split
      · exact ⟨fun _ => h.ip (by rw [hpc]; rfl), fun _ t => by simp [alookup], (fun hc => by rcases hc with hc | hc <;> cases hc),
          (fun hc => by rcases hc with hc | hc | hc <;> cases hc)⟩
      · exact h.raise (by rw [hpc]; rfl) _
    · -- cbResult
      have hu' : updPc s.pc = true := by rw [hpc]; rfl
      simp only [next, hpc]
      repeat' split
      all_goals first
        | exact h.raise (by rw [hpc]; rfl) _
        | (refine h.upd hu' (by rw [show ({ addRow s with pc := _ } : LState).status = (addRow s).status from rfl, addRow_status])
             (by rw [show ({ addRow s with pc := _ } : LState).running = (addRow s).running from rfl, addRow_running])
             (fun _ => trivial)
             (by rw [show ({ addRow s with pc := _ } : LState).done = (addRow s).done from rfl, addRow_done']; exact h.dv hu')
             (fun hc => ?_) (fun hc => by rcases hc with hc | hc | hc <;> cases hc)
           first
             | (rcases hc with hc | hc <;> cases hc; done)
             | (rw [show ({ addRow s with pc := _ } : LState).curSt = (addRow s).curSt from rfl, addRow_curSt]
                have hcs : s.curSt = .completed := Decidable.not_not.mp ‹¬ s.curSt ≠ St.completed›
                rw [hcs]; exact fun hh => nomatch hh))
    · -- stopCmd
      have hu' : updPc s.pc = true := by rw [hpc]; rfl
      simp only [next, hpc]
      split
      · exact h.upd hu' rfl rfl (fun _ => trivial) (h.dv hu') (fun _ hh => nomatch hh)
          (fun hc => by
            have hc' : (if s.cfg.deleteCkpt = true then Pc.stopDel else Pc.removeS) = Pc.completeS ∨
              (if s.cfg.deleteCkpt = true then Pc.stopDel else Pc.removeS) = Pc.completeCb ∨
              (if s.cfg.deleteCkpt = true then Pc.stopDel else Pc.removeS) = Pc.errorS := hc
            split at hc' <;> (rcases hc' with hc' | hc' | hc' <;> cases hc'))
      · exact h.raise (by rw [hpc]; rfl) _
    · -- stopDel
      have hu' : updPc s.pc = true := by rw [hpc]; rfl
      simp only [next, hpc]
      split
      · exact h.upd hu' rfl rfl (fun _ => trivial) (h.dv hu') (fun _ => h.cs (Or.inl hpc))
          (fun hc => by rcases hc with hc | hc | hc <;> cases hc)
      · exact h.raise (by rw [hpc]; rfl) _
    · -- removeS
      have hu' : updPc s.pc = true := by rw [hpc]; rfl
      simp only [next, hpc]
      split
      · exact h.upd hu' rfl rfl (fun _ => trivial) (dv_aset (h.dv hu') _ (h.cs (Or.inr hpc)))
          (fun hc => by rcases hc with hc | hc <;> cases hc) (fun hc => by rcases hc with hc | hc | hc <;> cases hc)
      · exact h.raise (by rw [hpc]; rfl) _
    · -- removeP
      have hu' : updPc s.pc = true := by rw [hpc]; rfl
      simp only [next, hpc]
      split
      · exact h.upd hu' rfl rfl (fun _ => trivial) (dv_aset (h.dv hu') _ (fun hh => nomatch hh))
          (fun hc => by rcases hc with hc | hc <;> cases hc) (fun hc => by rcases hc with hc | hc | hc <;> cases hc)
      · exact h.raise (by rw [hpc]; rfl) _
    · -- completeS
      have hu' : updPc s.pc = true := by rw [hpc]; rfl
      simp only [next, hpc]
      repeat' split
      all_goals first
        | exact h.raise (by rw [hpc]; rfl) _
        | exact h.upd hu' rfl rfl (fun _ => trivial) (h.dv hu') (fun hc => by rcases hc with hc | hc <;> cases hc)
            (fun _ => h.ts (Or.inl hpc))
        | exact h.upd hu' rfl rfl (fun _ => trivial) (dv_aset (h.dv hu') _ (h.ts (Or.inl hpc)))
            (fun hc => by rcases hc with hc | hc <;> cases hc) (fun hc => by rcases hc with hc | hc | hc <;> cases hc)
    · -- completeCb
      have hu' : updPc s.pc = true := by rw [hpc]; rfl
      simp only [next, hpc]
      split
      · exact h.upd hu' rfl rfl (fun _ => trivial) (dv_aset (h.dv hu') _ (h.ts (Or.inr (Or.inl hpc))))
          (fun hc => by rcases hc with hc | hc <;> cases hc) (fun hc => by rcases hc with hc | hc | hc <;> cases hc)
      · exact h.raise (by rw [hpc]; rfl) _
    · -- errorS
      have hu' : updPc s.pc = true := by rw [hpc]; rfl
      simp only [next, hpc]
      split
      · exact h.upd hu' rfl rfl (fun _ => trivial) (dv_aset (h.dv hu') _ (h.ts (Or.inr (Or.inr hpc))))
          (fun hc => by rcases hc with hc | hc <;> cases hc) (fun hc => by rcases hc with hc | hc | hc <;> cases hc)
      · exact h.raise (by rw [hpc]; rfl) _
    · -- startCb
      rcases next_startCb s a hpc with ht | ht
      · rw [ht]; exact h.scheduled hloc (Or.inl hpc)
      · rw [ht]; exact h.raise (by rw [hpc]; rfl) _
    · -- resumeCb
      rcases next_resumeCb s a hpc with ht | ht
      · rw [ht]; exact h.scheduled hloc (Or.inr hpc)
      · rw [ht]; exact h.raise (by rw [hpc]; rfl) _
    · -- evalStop
      rcases next_evalStop s a hpc with ht | ht <;> rw [ht] <;>
        exact ⟨fun _ => h.ip (by rw [hpc]; rfl), (fun hc => nomatch hc), (fun hc => by rcases hc with hc | hc <;> cases hc),
          (fun hc => by rcases hc with hc | hc | hc <;> cases hc)⟩
    · -- second
      have hu' : updPc s.pc = true := by rw [hpc]; rfl
      simp only [next, hpc]
      split
      · exact h.upd hu' rfl rfl (fun _ => trivial) (h.dv hu') (fun hc => by rcases hc with hc | hc <;> cases hc)
          (fun hc => by rcases hc with hc | hc | hc <;> cases hc)
      · exact h.secondItem hpc _ _ _
    · -- afterUpd
      rw [next_afterUpd s a hpc]; exact h.afterUpdate hS hpc
    · -- finMark
      obtain ⟨_, _, _, _, _, h6⟩ := next_finMark s a hpc
      have hnip : ipPc (next s a).pc = false := by rcases h6 with hh | hh <;> rw [hh] <;> rfl
      refine ⟨(fun hc => by rw [hnip] at hc; cases hc), fun hc => ?_, fun hc => ?_, fun hc => ?_⟩
      · rcases h6 with hh | hh <;> (rw [hh] at hc; cases hc)
      · rcases h6 with hh | hh <;> rcases hc with hc | hc <;> (rw [hh] at hc; cases hc)
      · rcases h6 with hh | hh <;> rcases hc with hc | hc | hc <;> (rw [hh] at hc; cases hc)

theorem RInv_step (s : LState) (a : Ans) (h : RInv s) (hS : SInv s) (hloc : s.loc = none) : RInv (step s a) :=
  step_of_next (P := RInv) (fun _ _ h => ⟨h.ip, h.dv, h.cs, h.ts⟩) s a (RInv_next s a h hS hloc)

theorem RInv_init (c : Cfg) : RInv (init c) :=
  ⟨fun _ t ht => by simp [init, alookup] at ht, (fun hc => nomatch hc), (fun hc => by rcases hc with hc | hc <;> cases hc),
   (fun hc => by rcases hc with hc | hc | hc <;> cases hc)⟩

/-- along every run obeying contract B on which `running_trials_ids` is never rebound -/
theorem RInv_run (c : Cfg) (as : List Ans) (hB : Along BOk (init c) as) (hR : Along RebindOk (init c) as) :
    RInv (run (init c) as) := by
  have key := run_inv_along (Inv := fun s => SInv s ∧ PInv s ∧ RInv s) (P := fun s a => BOk s a ∧ RebindOk s a)
    (fun s a h hp => ⟨SInv_step s a h.1 hp.1, PInv_step s a h.2.1 hp.2, RInv_step s a h.2.2 h.1 h.2.1.loc⟩)
    as (init c) ⟨SInv_init c, PInv_init c, RInv_init c⟩ (Along.and hB hR)
  exact key.2.2

end SyneTune.Tuner.Cnt
