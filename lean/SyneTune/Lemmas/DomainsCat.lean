import SyneTune.Lemmas.DomainsCont
/- C07 helper lemmas: categorical encoders (one-hot, binary, ordinal-equal), Python equality. -/
namespace SyneTune.Dom
open SyneTune

/-! ### Python equality, `in`, `index` -/

theorem pyEq_refl (v : Val) : v.pyEq v = true := by
  cases v <;> simp [Val.pyEq, Val.num?]

/-- values of one type that compare equal in Python are equal -/
theorem pyEq_eq_of_vtype {a b : Val} (h : a.pyEq b = true) (ht : a.vtype = b.vtype) : a = b := by
  cases a <;> cases b <;> simp_all [Val.pyEq, Val.num?, Val.vtype]

theorem pyIn_of_mem {v : Val} {l : List Val} (h : v ∈ l) : pyIn v l = true := by
  unfold pyIn
  rw [List.any_eq_true]
  exact ⟨v, h, pyEq_refl v⟩

theorem pyIn_iff {v : Val} {l : List Val} : pyIn v l = true ↔ ∃ c ∈ l, c.pyEq v = true := by
  unfold pyIn; rw [List.any_eq_true]

theorem pyIndex_some {v : Val} {l : List Val} {i : ℕ} (h : pyIndex v l = some i) :
    ∃ c, l[i]? = some c ∧ c.pyEq v = true := by
  induction l generalizing i with
  | nil => simp [pyIndex] at h
  | cons a as ih =>
    unfold pyIndex at h
    by_cases ha : a.pyEq v = true
    · simp only [ha, if_true, Option.some.injEq] at h
      subst h
      exact ⟨a, by simp, ha⟩
    · simp only [ha, Bool.false_eq_true, if_false, Option.map_eq_some_iff] at h
      obtain ⟨j, hj, rfl⟩ := h
      obtain ⟨c, hc, hcv⟩ := ih hj
      exact ⟨c, by simpa using hc, hcv⟩

theorem pyIndex_lt {v : Val} {l : List Val} {i : ℕ} (h : pyIndex v l = some i) : i < l.length := by
  obtain ⟨c, hc, _⟩ := pyIndex_some h
  exact (List.getElem?_eq_some_iff.mp hc).1

theorem pyIndex_of_pyIn {v : Val} {l : List Val} (h : pyIn v l = true) : ∃ i, pyIndex v l = some i := by
  induction l with
  | nil => simp [pyIn] at h
  | cons a as ih =>
    unfold pyIndex
    by_cases ha : a.pyEq v = true
    · exact ⟨0, by simp [ha]⟩
    · have : pyIn v as = true := by
        unfold pyIn at h ⊢
        simp only [List.any_cons, Bool.or_eq_true] at h
        rcases h with h | h
        · exact absurd h ha
        · exact h
      obtain ⟨i, hi⟩ := ih this
      exact ⟨i + 1, by simp [ha, hi]⟩

/-- all entries of a well-formed category list have the type of the first -/
theorem catsOk_vtype {cats : List Val} (h : catsOk cats = true) {a b : Val} (ha : a ∈ cats) (hb : b ∈ cats) :
    a.vtype = b.vtype := by
  unfold catsOk at h
  simp only [Bool.and_eq_true, List.all_eq_true, beq_iff_eq] at h
  rw [h.2 a ha, h.2 b hb]

theorem catsOk_ne_nil {cats : List Val} (h : catsOk cats = true) : cats ≠ [] := by
  intro hn; subst hn; simp [catsOk] at h

/-- looking a member up by `index` gives the member back -/
theorem index_member {cats : List Val} (h : catsOk cats = true) {v : Val} (hv : v ∈ cats) :
    ∃ i, pyIndex v cats = some i ∧ cats[i]? = some v := by
  obtain ⟨i, hi⟩ := pyIndex_of_pyIn (pyIn_of_mem hv)
  obtain ⟨c, hc, hcv⟩ := pyIndex_some hi
  have hcm : c ∈ cats := List.mem_of_getElem? hc
  have := pyEq_eq_of_vtype hcv (catsOk_vtype h hcm hv)
  subst this
  exact ⟨i, hi, hc⟩

/-! ### argmax -/

theorem argmaxAux_spec (xs : List ℚ) (i bi : ℕ) (bv : ℚ) (pre : List ℚ)
    (hpre : pre.length = i) (hbi : bi < i) (hbv : pre[bi]? = some bv)
    (hmax : ∀ j (hj : j < pre.length), pre[j] ≤ bv) :
    let r := argmaxAux xs i bi bv
    r < (pre ++ xs).length ∧ ∃ m, (pre ++ xs)[r]? = some m ∧ ∀ j (hj : j < (pre ++ xs).length), (pre ++ xs)[j] ≤ m := by
  induction xs generalizing i bi bv pre with
  | nil =>
    simp only [argmaxAux, List.append_nil]
    refine ⟨by omega, bv, hbv, hmax⟩
  | cons x xs ih =>
    simp only [argmaxAux]
    by_cases hx : bv < x
    · simp only [hx, if_true]
      have := ih (i + 1) i x (pre ++ [x]) (by simp [hpre]) (by omega)
        (by rw [List.getElem?_append_right (by omega)]; simp [hpre])
        (by
          intro j hj
          simp only [List.length_append, List.length_singleton] at hj
          by_cases hj2 : j < pre.length
          · rw [List.getElem_append_left hj2]; exact le_trans (hmax j hj2) (le_of_lt hx)
          · have : j = pre.length := by omega
            subst this
            simp)
      simpa using this
    · simp only [hx, if_false]
      have := ih (i + 1) bi bv (pre ++ [x]) (by simp [hpre]) (by omega)
        (by rw [List.getElem?_append_left (by omega)]; exact hbv)
        (by
          intro j hj
          simp only [List.length_append, List.length_singleton] at hj
          by_cases hj2 : j < pre.length
          · rw [List.getElem_append_left hj2]; exact hmax j hj2
          · have : j = pre.length := by omega
            subst this
            simp; exact not_lt.mp hx)
      simpa using this

theorem argmaxFirst_spec (xs : List ℚ) (h : xs ≠ []) :
    argmaxFirst xs < xs.length ∧
    ∃ m, xs[argmaxFirst xs]? = some m ∧ ∀ j (hj : j < xs.length), xs[j] ≤ m := by
  cases xs with
  | nil => exact absurd rfl h
  | cons x xs =>
    have := argmaxAux_spec xs 1 0 x [x] rfl (by omega) (by simp) (by
      intro j hj
      simp only [List.length_singleton] at hj
      have : j = 0 := by omega
      subst this; simp)
    simpa [argmaxFirst] using this

theorem oneHotVec_length (n i : ℕ) : (oneHotVec n i).length = n := by simp [oneHotVec]

theorem oneHotVec_getElem (n i j : ℕ) (hj : j < n) :
    (oneHotVec n i)[j]? = some (if j = i then 1 else 0) := by
  simp [oneHotVec, hj]

theorem argmaxFirst_oneHot (n i : ℕ) (h : i < n) : argmaxFirst (oneHotVec n i) = i := by
  have hne : oneHotVec n i ≠ [] := by
    intro hh; have := oneHotVec_length n i; rw [hh] at this; simp at this; omega
  obtain ⟨hr, m, hm, hmax⟩ := argmaxFirst_spec _ hne
  rw [oneHotVec_length] at hr
  rw [oneHotVec_getElem n i _ hr] at hm
  have hi := hmax i (by rw [oneHotVec_length]; exact h)
  have hgi : (oneHotVec n i)[i]'(by rw [oneHotVec_length]; exact h) = 1 := by
    have := oneHotVec_getElem n i i h
    rw [List.getElem?_eq_getElem (by rw [oneHotVec_length]; exact h)] at this
    simpa using this
  rw [hgi] at hi
  by_contra hne2
  simp only [hne2, if_false, Option.some.injEq] at hm
  rw [← hm] at hi
  norm_num at hi

/-! ### one-hot encoder -/

theorem mkOneHot_ok {choices : List Val} {active : Option (List Val)} {r : OneHot}
    (h : mkOneHot choices active = .ok r) : choices ≠ [] ∧ r.choices = choices := by
  unfold mkOneHot at h
  split at h
  · cases h
  · rename_i hne
    have hne' : choices ≠ [] := by intro hh; subst hh; simp at hne
    split at h
    · injection h with h; subst h; exact ⟨hne', rfl⟩
    · split at h
      · cases h
      · split at h
        · injection h with h; subst h; exact ⟨hne', rfl⟩
        · cases h

/-- **one-hot decode gives a listed category** for every vector of the right length (the code does
not range-check one-hot coordinates); other lengths are rejected -/
theorem onehot_decode_member {choices : List Val} {active : Option (List Val)} {r : OneHot}
    (h : mkOneHot choices active = .ok r) (xs : List ℚ) :
    (xs.length = choices.length → ∃ v, r.decode xs = .ok v ∧ v ∈ choices) ∧
    (xs.length ≠ choices.length → r.decode xs = .error .assertion) := by
  obtain ⟨hne, hc⟩ := mkOneHot_ok h
  unfold OneHot.decode
  rw [hc]
  constructor
  · intro hl
    have hxs : xs ≠ [] := by intro hh; subst hh; simp at hl; exact hne (List.eq_nil_of_length_eq_zero hl.symm)
    obtain ⟨hr, _⟩ := argmaxFirst_spec xs hxs
    simp only [hl, if_true]
    rw [List.getElem?_eq_getElem (by omega)]
    exact ⟨_, rfl, List.getElem_mem _⟩
  · intro hl
    simp only [hl, if_false]

/-- **one-hot encoding**: advertised length, entries 0 or 1 -/
theorem onehot_encode_cube {choices : List Val} {active : Option (List Val)} {r : OneHot}
    (h : mkOneHot choices active = .ok r) {v : Val} {xs : List ℚ} (he : r.encode v = .ok xs) :
    xs.length = choices.length ∧ ∀ x ∈ xs, 0 ≤ x ∧ x ≤ 1 := by
  obtain ⟨_, hc⟩ := mkOneHot_ok h
  unfold OneHot.encode at he
  rw [hc] at he
  split at he
  · injection he with he
    subst he
    refine ⟨oneHotVec_length _ _, ?_⟩
    intro x hx
    simp only [oneHotVec, List.mem_map, List.mem_range] at hx
    obtain ⟨j, _, rfl⟩ := hx
    split <;> norm_num
  · cases he

/-- **one-hot round trip**: exact -/
theorem onehot_roundtrip {choices : List Val} {active : Option (List Val)} {r : OneHot}
    (h : mkOneHot choices active = .ok r) (hok : catsOk choices = true) {v : Val} (hv : v ∈ choices) :
    ∃ xs, r.encode v = .ok xs ∧ r.decode xs = .ok v := by
  obtain ⟨_, hc⟩ := mkOneHot_ok h
  obtain ⟨i, hi, hci⟩ := index_member hok hv
  have hlt := pyIndex_lt hi
  refine ⟨oneHotVec choices.length i, ?_, ?_⟩
  · unfold OneHot.encode; rw [hc, hi]
  · unfold OneHot.decode
    rw [hc, oneHotVec_length, argmaxFirst_oneHot _ _ hlt, hci]
    simp

/-- a vector lies inside a box of per-coordinate bounds (`get_ndarray_bounds`) -/
def InBox (xs : List ℚ) (bs : List (ℚ × ℚ)) : Prop :=
  xs.length = bs.length ∧ ∀ i (hi : i < xs.length) (hb : i < bs.length), bs[i].1 ≤ xs[i] ∧ xs[i] ≤ bs[i].2

theorem mkOneHot_active_bounds {choices act : List Val} {r : OneHot}
    (h : mkOneHot choices (some act) = .ok r) :
    r.bounds = choices.map (fun v =>
      if pyIn v act then (if 1 < act.length then ((0 : ℚ), (1 : ℚ)) else (1, 1)) else (0, 0)) := by
  unfold mkOneHot at h
  by_cases h1 : choices.isEmpty = true
  · simp [h1] at h
  · simp only [h1, Bool.false_eq_true, if_false] at h
    by_cases h2 : act.isEmpty = true
    · simp [h2] at h
    · simp only [h2, Bool.false_eq_true, if_false] at h
      split at h
      · injection h with h; subst h; rfl
      · cases h

/-- **active categories, one-hot** (partial): inside the bounds box, if some coordinate is
positive, the decoded category is an active one.  The full statement (without the positivity
hypothesis) is false: see `active_onehot_counterexample` in `Props/C07.lean`. -/
theorem onehot_active_partial {choices act : List Val} {r : OneHot}
    (h : mkOneHot choices (some act) = .ok r) {xs : List ℚ} (hbox : InBox xs r.bounds)
    (hpos : ∃ x ∈ xs, 0 < x) : ∃ v, r.decode xs = .ok v ∧ v ∈ choices ∧ pyIn v act = true := by
  obtain ⟨hne, hc⟩ := mkOneHot_ok h
  have hb := mkOneHot_active_bounds h
  obtain ⟨hlen, hin⟩ := hbox
  rw [hb, List.length_map] at hlen
  obtain ⟨x, hx, hx0⟩ := hpos
  have hxs : xs ≠ [] := List.ne_nil_of_mem hx
  obtain ⟨hr, m, hm, hmax⟩ := argmaxFirst_spec xs hxs
  obtain ⟨j, hj, hjx⟩ := List.getElem_of_mem hx
  have hmpos : 0 < m := lt_of_lt_of_le (by rw [hjx]; exact hx0) (hmax j hj)
  rw [List.getElem?_eq_getElem hr] at hm
  injection hm with hm
  have hrc : argmaxFirst xs < choices.length := by omega
  have hbr := (hin _ hr (by rw [hb, List.length_map]; exact hrc)).2
  simp only [hb, List.getElem_map] at hbr
  unfold OneHot.decode
  rw [hc]
  simp only [hlen, if_true]
  rw [List.getElem?_eq_getElem hrc]
  refine ⟨_, rfl, List.getElem_mem _, ?_⟩
  by_contra hna
  simp only [hna, if_false] at hbr
  rw [hm] at hbr
  linarith

/-! ### binary and ordinal-equal encoders (an integer index behind them) -/

theorem choiceAt_ok {choices : List Val} {k : ℤ} (h0 : 0 ≤ k) (h1 : k < choices.length) :
    ∃ v, choiceAt choices k = .ok v ∧ choices[k.toNat]? = some v ∧ v ∈ choices := by
  unfold choiceAt
  have hlt : k.toNat < choices.length := by omega
  simp only [h0, if_true]
  rw [List.getElem?_eq_getElem hlt]
  exact ⟨_, rfl, rfl, List.getElem_mem _⟩

theorem dedupPy_ne_nil {l : List Val} (h : l ≠ []) : dedupPy l ≠ [] := by
  induction l with
  | nil => exact absurd rfl h
  | cons a as ih =>
    unfold dedupPy
    by_cases ha : pyIn a as = true
    · simp only [ha, if_true]
      apply ih
      intro hh; subst hh; simp [pyIn] at ha
    · simp [ha]

theorem binActive_pair (a b : Val) (act : List Val) :
    binActive [a, b] act =
      (if pyIn b act = true then (some 1, (if pyIn a act = true then 1 else 0) + 1)
       else if pyIn a act = true then (some 0, 1) else (none, 0)) := by
  have hr2 : List.range 2 = [0, 1] := by decide
  simp only [binActive, List.length_cons, List.length_nil, hr2, List.foldl_cons, List.foldl_nil]
  by_cases ha : pyIn a act = true <;> by_cases hb : pyIn b act = true <;> simp [ha, hb]

theorem mkBinary_ok {env : Env} {c : Consts} {choices : List Val} {active : Option (List Val)}
    {r : BinRange} (h : mkBinary env c choices active = .ok r) :
    choices.length = 2 ∧ r.choices = choices ∧
    ∃ av : Option ℤ, mkInt env c 0 1 .lin av av = .ok r.rint ∧
      (∀ act, active = some act → ∀ a b, choices = [a, b] →
        (av = none ∧ pyIn a act = true ∧ pyIn b act = true) ∨
        (av = some 0 ∧ pyIn a act = true) ∨ (av = some 1 ∧ pyIn b act = true)) := by
  unfold mkBinary at h
  split at h
  · rename_i hlen
    split at h
    · split at h
      · rename_i ri hri
        injection h with h; subst h
        exact ⟨hlen, rfl, none, hri, by intro act hact; cases hact⟩
      · cases h
    · rename_i act
      split at h
      · cases h
      · rename_i hne
        dsimp only at h
        split at h
        · rename_i hnum
          split at h
          · rename_i ri hri
            injection h with h; subst h
            refine ⟨hlen, rfl, _, hri, ?_⟩
            intro act' hact a b hab
            injection hact with hact
            subst hact
            subst hab
            have hd : (dedupPy act).length ≠ 0 := by
              intro h0
              exact dedupPy_ne_nil (by intro hh; subst hh; simp at hne) (List.eq_nil_of_length_eq_zero h0)
            rw [binActive_pair] at hnum ⊢
            by_cases ha : pyIn a act = true <;> by_cases hb : pyIn b act = true
            · left; simp [ha, hb]
            · right; left; simp [ha, hb]
            · right; right; simp [ha, hb]
            · simp only [ha, hb] at hnum
              exact absurd hnum.symm hd
          · cases h
        · cases h
  · cases h

/-- **binary decode gives a listed category**; out-of-range inputs are rejected -/
theorem binary_decode_member {env : Env} {c : Consts} {choices : List Val}
    {active : Option (List Val)} {r : BinRange} (h : mkBinary env c choices active = .ok r) (x : ℚ) :
    (-c.eps ≤ x ∧ x ≤ 1 + c.eps → ∃ v, r.decode env c x = .ok v ∧ v ∈ choices) ∧
    (¬ (-c.eps ≤ x ∧ x ≤ 1 + c.eps) → r.decode env c x = .error .assertion) := by
  obtain ⟨hlen, hc, av, hri, _⟩ := mkBinary_ok h
  have hd := int_decode_member hri x
  unfold BinRange.decode
  constructor
  · intro hx
    obtain ⟨k, hk, h0, h1⟩ := hd.1 hx
    rw [hk, hc]
    obtain ⟨v, hv, _, hm⟩ := choiceAt_ok (choices := choices) h0 (by omega)
    exact ⟨v, hv, hm⟩
  · intro hx
    rw [hd.2 hx]

theorem binary_encode_cube {env : Env} {c : Consts} {r : BinRange} {v : Val} {x : ℚ}
    (h : r.encode env c v = .ok x) : 0 ≤ x ∧ x ≤ 1 := by
  unfold BinRange.encode at h
  split at h
  · exact int_encode_cube h
  · cases h

/-- **binary round trip**: exact -/
theorem binary_roundtrip {env : Env} {c : Consts} {choices : List Val}
    {active : Option (List Val)} {r : BinRange} (h : mkBinary env c choices active = .ok r)
    (hok : catsOk choices = true) (heps : 0 ≤ c.eps) (heps2 : c.eps ≤ 1 / 2) {v : Val} (hv : v ∈ choices) :
    ∃ x, r.encode env c v = .ok x ∧ r.decode env c x = .ok v := by
  obtain ⟨hlen, hc, av, hri, _⟩ := mkBinary_ok h
  obtain ⟨i, hi, hci⟩ := index_member hok hv
  have hlt := pyIndex_lt hi
  obtain ⟨x, e1, e2⟩ := int_roundtrip hri heps heps2 (scaleOK_lin _ _ _) (k := (i : ℤ)) (by omega) (by omega)
  refine ⟨x, ?_, ?_⟩
  · unfold BinRange.encode; rw [hc, hi]; exact e1
  · unfold BinRange.decode
    rw [e2, hc]
    unfold choiceAt
    simp [hci]

/-- **binary, active sub-range**: inside the bounds the decoded category is active -/
theorem binary_active {env : Env} {c : Consts} {choices act : List Val} {r : BinRange}
    (h : mkBinary env c choices (some act) = .ok r) (heps : 0 < c.eps)
    {x : ℚ} (hx : r.rint.cont.bLo ≤ x ∧ x ≤ r.rint.cont.bHi) :
    ∃ v, r.decode env c x = .ok v ∧ v ∈ choices ∧ pyIn v act = true := by
  obtain ⟨hlen, hc, av, hri, hact⟩ := mkBinary_ok h
  obtain ⟨a, b, hab⟩ : ∃ a b, choices = [a, b] := by
    match choices, hlen with
    | [a, b], _ => exact ⟨a, b, rfl⟩
  obtain ⟨k, hk, hk0, hk1⟩ := int_active hri heps (scaleOK_lin _ _ _) hx
  have hrng : (-c.eps ≤ x ∧ x ≤ 1 + c.eps) := by
    by_contra hn
    rw [(int_decode_member hri x).2 hn] at hk
    cases hk
  obtain ⟨k', hk', h0, h1⟩ := (int_decode_member hri x).1 hrng
  rw [hk] at hk'
  injection hk' with hk'
  subst hk'
  unfold BinRange.decode
  rw [hk, hc, hab]
  have hk01 : k = 0 ∨ k = 1 := by omega
  rcases hact act rfl a b hab with ⟨_, ha, hb⟩ | ⟨hav, ha⟩ | ⟨hav, hb⟩
  · rcases hk01 with rfl | rfl
    · exact ⟨a, by simp [choiceAt], by simp, ha⟩
    · exact ⟨b, by simp [choiceAt], by simp, hb⟩
  · subst hav
    simp only [Option.getD_some] at hk0 hk1
    have : k = 0 := by omega
    subst this
    exact ⟨a, by simp [choiceAt], by simp, ha⟩
  · subst hav
    simp only [Option.getD_some] at hk0 hk1
    have : k = 1 := by omega
    subst this
    exact ⟨b, by simp [choiceAt], by simp, hb⟩

/-! ### ordinal-equal -/

theorem zipAllEq_getElem {as bs : List Val} (h : zipAllEq as bs = true) (i : ℕ)
    (ha : i < as.length) (hb : i < bs.length) : as[i].pyEq bs[i] = true := by
  induction as generalizing bs i with
  | nil => simp at ha
  | cons a as ih =>
    cases bs with
    | nil => simp at hb
    | cons b bs =>
      simp only [zipAllEq, Bool.and_eq_true] at h
      cases i with
      | zero => simpa using h.1
      | succ j =>
        simp only [List.getElem_cons_succ]
        exact ih h.2 j (by simpa using ha) (by simpa using hb)

theorem firstPos_some {choices act : List Val} {fp : Option ℕ}
    (h : firstPos choices (some act) = .ok fp) :
    ∃ p, fp = some p ∧ act ≠ [] ∧ p < choices.length ∧ zipAllEq act (choices.drop p) = true := by
  unfold firstPos at h
  split at h
  · cases h
  · split at h
    · rename_i heq; cases heq
    · rename_i act' heq
      injection heq with heq
      subst heq
      split at h
      · cases h
      · rename_i a0 rest
        split at h
        · rename_i p hp
          split at h
          · rename_i hz
            injection h with h
            exact ⟨p, h.symm, by simp, pyIndex_lt hp, hz⟩
          · cases h
        · cases h

theorem firstPos_none {choices : List Val} {fp : Option ℕ}
    (h : firstPos choices none = .ok fp) : fp = none ∧ choices ≠ [] := by
  unfold firstPos at h
  split at h
  · cases h
  · rename_i hne
    injection h with h
    exact ⟨h.symm, by intro hh; subst hh; simp at hne⟩

theorem mkOrdEq_ok {env : Env} {c : Consts} {choices : List Val} {active : Option (List Val)}
    {r : OrdEq} (h : mkOrdEq env c choices active = .ok r) :
    r.choices = choices ∧ ∃ fp, firstPos choices active = .ok fp ∧
      mkInt env c 0 ((choices.length : ℤ) - 1) .lin (fp.map Int.ofNat)
        (fp.map (fun p => Int.ofNat p + Int.ofNat (active.getD []).length - 1)) = .ok r.rint := by
  unfold mkOrdEq at h
  split at h
  · cases h
  · rename_i fp hfp
    dsimp only at h
    split at h
    · rename_i ri hri
      injection h with h; subst h
      exact ⟨rfl, fp, hfp, hri⟩
    · cases h

/-- **ordinal-equal decode gives a listed category**; out-of-range inputs are rejected -/
theorem ordeq_decode_member {env : Env} {c : Consts} {choices : List Val}
    {active : Option (List Val)} {r : OrdEq} (h : mkOrdEq env c choices active = .ok r) (x : ℚ) :
    (-c.eps ≤ x ∧ x ≤ 1 + c.eps → ∃ v, r.decode env c x = .ok v ∧ v ∈ choices) ∧
    (¬ (-c.eps ≤ x ∧ x ≤ 1 + c.eps) → r.decode env c x = .error .assertion) := by
  obtain ⟨hc, fp, _, hri⟩ := mkOrdEq_ok h
  have hd := int_decode_member hri x
  unfold OrdEq.decode
  constructor
  · intro hx
    obtain ⟨k, hk, h0, h1⟩ := hd.1 hx
    rw [hk, hc]
    obtain ⟨v, hv, _, hm⟩ := choiceAt_ok (choices := choices) h0 (by omega)
    exact ⟨v, hv, hm⟩
  · intro hx
    rw [hd.2 hx]

theorem ordeq_encode_cube {env : Env} {c : Consts} {r : OrdEq} {v : Val} {x : ℚ}
    (h : r.encode env c v = .ok x) : 0 ≤ x ∧ x ≤ 1 := by
  unfold OrdEq.encode at h
  split at h
  · exact int_encode_cube h
  · cases h

/-- **ordinal-equal round trip**: exact -/
theorem ordeq_roundtrip {env : Env} {c : Consts} {choices : List Val}
    {active : Option (List Val)} {r : OrdEq} (h : mkOrdEq env c choices active = .ok r)
    (hok : catsOk choices = true) (heps : 0 ≤ c.eps) (heps2 : c.eps ≤ 1 / 2) {v : Val} (hv : v ∈ choices) :
    ∃ x, r.encode env c v = .ok x ∧ r.decode env c x = .ok v := by
  obtain ⟨hc, fp, _, hri⟩ := mkOrdEq_ok h
  obtain ⟨i, hi, hci⟩ := index_member hok hv
  have hlt := pyIndex_lt hi
  obtain ⟨x, e1, e2⟩ := int_roundtrip hri heps heps2 (scaleOK_lin _ _ _) (k := (i : ℤ)) (by omega) (by omega)
  refine ⟨x, ?_, ?_⟩
  · unfold OrdEq.encode; rw [hc, hi]; exact e1
  · unfold OrdEq.decode
    rw [e2, hc]
    unfold choiceAt
    simp [hci]

/-- **ordinal-equal, active sub-range**: inside the bounds the decoded category is one of the
active ones -/
theorem ordeq_active {env : Env} {c : Consts} {choices act : List Val} {r : OrdEq}
    (h : mkOrdEq env c choices (some act) = .ok r) (heps : 0 < c.eps)
    {x : ℚ} (hx : r.rint.cont.bLo ≤ x ∧ x ≤ r.rint.cont.bHi) :
    ∃ v, r.decode env c x = .ok v ∧ v ∈ choices ∧ pyIn v act = true := by
  obtain ⟨hc, fp, hfp, hri⟩ := mkOrdEq_ok h
  obtain ⟨p, rfl, hne, hp, hz⟩ := firstPos_some hfp
  obtain ⟨k, hk, hk0, hk1⟩ := int_active hri heps (scaleOK_lin _ _ _) hx
  have hrng : (-c.eps ≤ x ∧ x ≤ 1 + c.eps) := by
    by_contra hn
    rw [(int_decode_member hri x).2 hn] at hk
    cases hk
  obtain ⟨k', hk', h0, h1⟩ := (int_decode_member hri x).1 hrng
  rw [hk] at hk'
  injection hk' with hk'
  subst hk'
  simp only [Option.map_some, Option.getD_some, Int.ofNat_eq_natCast] at hk0 hk1
  unfold OrdEq.decode
  rw [hk, hc]
  obtain ⟨v, hv, hvi, hm⟩ := choiceAt_ok (choices := choices) h0 (by omega)
  refine ⟨v, hv, hm, ?_⟩
  -- v = choices[k], k = p + j with j < act.length, and act[j] == choices[p + j]
  have hkn : k.toNat < choices.length := by omega
  have hj1 : k.toNat - p < act.length := by omega
  have hj2 : k.toNat - p < (choices.drop p).length := by simp; omega
  have hze := zipAllEq_getElem hz (k.toNat - p) hj1 hj2
  rw [List.getElem_drop] at hze
  have hidx : p + (k.toNat - p) = k.toNat := by omega
  rw [List.getElem?_eq_getElem hkn] at hvi
  injection hvi with hvi
  rw [pyIn_iff]
  refine ⟨act[k.toNat - p], List.getElem_mem _, ?_⟩
  rw [← hvi]
  simpa [hidx] using hze

end SyneTune.Dom
