import SyneTune.Lemmas.DyHPOComp
import SyneTune.Lemmas.DyHPOEligible
/-
DyHPO at scheduler level: what a `resume` answer of `suggestDy` says about the rung system
the trial is promoted in.
-/
namespace SyneTune.DyHPO
open SyneTune SyneTune.C04K SyneTune.C14 SyneTune.C13Hb SyneTune.C14Comp

theorem taskScheduleDy_some (g g' : Manager) (b : Nat) (sh : Bool) (hint pick : Option Nat) (o : SchedOut)
    (ms : Nat) (fr : Bool) (h : g.taskScheduleDy b sh hint pick = .ok (g', some o, ms, fr)) :
    g.type = .promotion ∧ ∃ sys sys', g.systems[(g.sysFor b).1]? = some sys ∧
      sys.dyhpoSchedule g.mode sh hint pick = .ok (sys', some o, fr) ∧
      g' = g.setSys (g.sysFor b).1 sys' ∧ ms = o.milestone := by
  unfold Manager.taskScheduleDy at h
  by_cases hty : g.type = .promotion
  · simp only [hty, ne_eq, not_true_eq_false, if_false] at h
    cases hs : g.systems[(g.sysFor b).1]? with
    | none => simp [hs] at h
    | some sys =>
      simp only [hs] at h
      cases hd : sys.dyhpoSchedule g.mode sh hint pick with
      | error e => simp [hd] at h
      | ok res =>
        obtain ⟨sys', so', fr'⟩ := res
        simp only [hd] at h
        cases so' with
        | none => simp at h
        | some o' =>
          simp only at h
          injection h with h
          simp only [Prod.mk.injEq, Option.some.injEq] at h
          obtain ⟨h1, h2, h3, h4⟩ := h
          subst h2; subst h4
          exact ⟨hty, sys, sys', rfl, hd, h1.symm, h3.symm⟩
  · simp [hty] at h

/-- `on_task_add` for a promoted trial: the sanity check `resume_from < milestone` passed and
`_running[t] = (milestone, resume_from)` is recorded; rungs untouched -/
theorem taskAdd_resume (g g2 : Manager) (t b m f first : Nat) (sys : RungSys)
    (h : g.taskAdd t b (some (m, f)) = .ok (g2, first)) (hpr : g.type.pauseResume = true)
    (hs : g.systems[(g.sysFor b).1]? = some sys) :
    f < m ∧ g2.systems[(g.sysFor b).1]? = some { sys with running := aset t (m, some f) sys.running } := by
  unfold Manager.taskAdd at h
  simp only [hs] at h
  unfold RungSys.taskAdd at h
  simp only [hpr, if_true] at h
  by_cases hlt : f < m
  · simp only [hlt, not_true_eq_false, if_false] at h
    injection h with h
    simp only [Prod.mk.injEq] at h
    obtain ⟨h1, _⟩ := h
    subst h1
    exact ⟨hlt, getElem?_set_self' _ _ sys _ hs⟩
  · simp [hlt] at h

/-- **A `resume` answer of `suggestDy`, read on the rung system.**  The scheduler is
well-formed (`MgrWF`: strictly decreasing rung levels below `max_t`).  If `_suggest` answers
`resume(t, f, m)` then in the rung system `sys` of the sampled bracket: trial `t` sits at some
position `pos` of the rung `rg` of level `f` and is NOT yet promoted from it; afterwards exactly
that entry is marked as promoted (`PromotedAt … f t`); `m` is the rung level right above `f`
(`max_t` from the top rung), `f < m`; and `_running[t] = (m, f)` is recorded. -/
theorem suggestDy_resume_spec (s s' : Sched) (hw : MgrWF s.mgr) (n b : Nat) (sh : Bool) (hint pick : Option Nat)
    (t f m : Nat) (calls : List SCall) (fr : Bool)
    (h : s.suggestDy n b sh hint pick = .ok (s', .resume t f m, calls, fr)) :
    ∃ sys sys' i rg pos e,
      s.mgr.systems[(s.mgr.sysFor b).1]? = some sys ∧ s'.mgr.systems[(s.mgr.sysFor b).1]? = some sys' ∧
      rungPos sys.rungs f = some i ∧ sys.rungs[i]? = some rg ∧ rg.level = f ∧
      rg.data[pos]? = some e ∧ e.tid = t ∧ e.promoted = false ∧
      sys'.rungs = sys.rungs.set i (markPromoted s.mgr.mode rg pos) ∧ PromotedAt sys'.rungs f t ∧
      m = nextAbove sys.rungs i sys.maxT ∧ f < m ∧ alookup t sys'.running = some (m, some f) := by
  rw [suggestDy_eq] at h
  cases hts : s.mgr.taskScheduleDy b sh hint pick with
  | error e => simp [hts] at h
  | ok r1 =>
    obtain ⟨g1, so, ms, fr0⟩ := r1
    simp only [hts] at h
    rcases afterSchedule_cases s s' g1 so n b ms fr0 _ calls fr h with
      ⟨_, _, _, _, _, _, _, hsg⟩ | ⟨o, rec, g2, first, rfl, hta, _, _, rfl, _, hsg⟩
    · cases hsg
    · injection hsg with e1 e2 e3
      subst e1; subst e2; subst e3
      obtain ⟨hty, sys, sys1, hs, hd, rfl, _⟩ := taskScheduleDy_some s.mgr g1 b sh hint pick o ms fr0 hts
      obtain ⟨_, hdec, _⟩ := MgrWF_sys hw (List.mem_of_getElem? hs)
      obtain ⟨i, rg, pos, e, k1, k2, k3, k4, k5, k6, k7, k8⟩ :=
        dyhpoSchedule_eligible sys sys1 s.mgr.mode sh hint pick o fr0 hdec hd
      obtain ⟨_, _, _, d4⟩ := dyhpoSchedule_effect sys sys1 s.mgr.mode sh hint pick (some o) fr0 hd
      have hprom := (d4 o rfl).1.eligible.2
      have hpr : (s.mgr.setSys (s.mgr.sysFor b).1 sys1).type.pauseResume = true := by
        show s.mgr.type.pauseResume = true
        rw [hty]; rfl
      have hs1 : (s.mgr.setSys (s.mgr.sysFor b).1 sys1).systems[((s.mgr.setSys (s.mgr.sysFor b).1 sys1).sysFor b).1]? = some sys1 :=
        getElem?_set_self' _ _ sys sys1 hs
      obtain ⟨a1, a2⟩ := taskAdd_resume _ g2 o.trial b o.milestone o.resumeFrom first sys1 hta hpr hs1
      exact ⟨sys, _, i, rg, pos, e, hs, a2, k1, k2, k3, k4, k5, k6, k7, hprom, k8, a1, C14_alookup_aset_self _ _ _⟩

end SyneTune.DyHPO
