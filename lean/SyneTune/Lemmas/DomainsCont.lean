import SyneTune.Lemmas.Domains
/- C07 helper lemmas: continuous and integer encoders (`HyperparameterRangeContinuous`,
`HyperparameterRangeInteger`). -/
namespace SyneTune.Dom
open SyneTune

/-- the raw scaling function (without the assertion of `to_internal`) -/
def toI (env : Env) (k : ScaleKind) (y : ℚ) : ℚ :=
  match k with
  | .lin => y
  | .log => env.log.toInt y
  | .rlog => env.rlog.toInt y

/-- the arguments `to_internal` accepts -/
def inDom (k : ScaleKind) (y : ℚ) : Prop :=
  match k with
  | .lin => True
  | .log => 0 < y
  | .rlog => 0 ≤ y ∧ y < 1

theorem toInternal_ok {env : Env} {k : ScaleKind} {y : ℚ} (h : inDom k y) :
    env.toInternal k y = .ok (toI env k y) := by
  cases k <;> simp_all [Env.toInternal, toI, inDom]

theorem toInternal_eq_ok {env : Env} {k : ScaleKind} {y t : ℚ} (h : env.toInternal k y = .ok t) :
    inDom k y ∧ t = toI env k y := by
  cases k
  · simp [Env.toInternal] at h; simp [inDom, toI, h]
  · simp only [Env.toInternal] at h
    split at h
    · injection h with h; exact ⟨by simpa [inDom], h.symm⟩
    · cases h
  · simp only [Env.toInternal] at h
    split at h
    · injection h with h; exact ⟨by simpa [inDom], h.symm⟩
    · cases h

theorem inDom_between {k : ScaleKind} {lo hi y : ℚ} (hl : inDom k lo) (hh : inDom k hi)
    (h1 : lo ≤ y) (h2 : y ≤ hi) : inDom k y := by
  cases k
  · trivial
  · simp only [inDom] at *; linarith
  · simp only [inDom] at *; constructor <;> linarith [hl.1, hh.2]

/-- What `log`/`exp` (resp. `-log(1-x)`/`1-exp(-x)`) satisfy over the reals, as hypotheses on the
abstract scaling of kind `k` on the value interval `[lo, hi]`: `from_internal` inverts
`to_internal`, both are monotone. Trivially true for the linear scaling (`scaleOK_lin`). -/
structure ScaleOK (env : Env) (k : ScaleKind) (lo hi : ℚ) : Prop where
  inv : ∀ y, lo ≤ y → y ≤ hi → env.fromInternal k (toI env k y) = y
  mono : ∀ y z, lo ≤ y → y ≤ z → z ≤ hi → toI env k y ≤ toI env k z
  monoFrom : ∀ t u, toI env k lo ≤ t → t ≤ u → u ≤ toI env k hi →
    env.fromInternal k t ≤ env.fromInternal k u

theorem scaleOK_lin (env : Env) (lo hi : ℚ) : ScaleOK env .lin lo hi :=
  ⟨fun _ _ _ => rfl, fun _ _ _ h _ => h, fun _ _ _ h _ => h⟩

theorem mkContCore_ok {env : Env} {lower upper : ℚ} {scale : ScaleKind} {r : ContCore}
    (h : mkContCore env lower upper scale = .ok r) :
    lower ≤ upper ∧ inDom scale lower ∧ inDom scale upper ∧
    r = ⟨lower, upper, scale, toI env scale lower, toI env scale upper⟩ := by
  unfold mkContCore at h
  split at h
  · rename_i hle
    split at h
    · rename_i a b ha hb
      injection h with h
      obtain ⟨d1, e1⟩ := toInternal_eq_ok ha
      obtain ⟨d2, e2⟩ := toInternal_eq_ok hb
      exact ⟨hle, d1, d2, by rw [← h, e1, e2]⟩
    · cases h
    · cases h
  · cases h

/-- **decoded continuous values are inside the bounds** (any scaling: the code clips) and the
code rejects exactly the inputs outside `[-EPS, 1+EPS]`. -/
theorem cont_decode_member {env : Env} {c : Consts} {lower upper : ℚ} {scale : ScaleKind}
    {r : ContCore} (h : mkContCore env lower upper scale = .ok r) (x : ℚ) :
    (-c.eps ≤ x ∧ x ≤ 1 + c.eps → ∃ v, r.decode env c x = .ok v ∧ lower ≤ v ∧ v ≤ upper) ∧
    (¬ (-c.eps ≤ x ∧ x ≤ 1 + c.eps) → r.decode env c x = .error .assertion) := by
  obtain ⟨hle, _, _, rfl⟩ := mkContCore_ok h
  constructor
  · intro hx
    unfold ContCore.decode
    simp only [hx, and_self, if_true]
    split
    · exact ⟨_, rfl, clipR_mem hle⟩
    · exact ⟨_, rfl, le_refl _, hle⟩
  · intro hx
    unfold ContCore.decode
    simp only [hx, if_false]

/-- **encodings lie in the unit interval** (any scaling: the code clips). -/
theorem cont_encode_cube {env : Env} {c : Consts} {r : ContCore} {hp v : ℚ}
    (h : r.encode env c hp = .ok v) : 0 ≤ v ∧ v ≤ 1 := by
  unfold ContCore.encode at h
  split at h
  · split at h
    · injection h with h; subst h; constructor <;> norm_num
    · split at h
      · injection h with h; subst h; exact clipR_mem (by norm_num)
      · cases h
  · cases h

/-- a member is always encodable (no assertion fires) -/
theorem cont_encode_ok {env : Env} {c : Consts} {lower upper : ℚ} {scale : ScaleKind}
    {r : ContCore} (h : mkContCore env lower upper scale = .ok r) (heps : 0 ≤ c.eps)
    {hp : ℚ} (h1 : lower ≤ hp) (h2 : hp ≤ upper) :
    r.encode env c hp = .ok (if toI env scale upper = toI env scale lower then 0
      else clipR ((toI env scale hp - toI env scale lower) / (toI env scale upper - toI env scale lower)) 0 1) := by
  obtain ⟨hle, d1, d2, rfl⟩ := mkContCore_ok h
  unfold ContCore.encode
  have hin : lower - c.eps ≤ hp ∧ hp ≤ upper + c.eps := ⟨by linarith, by linarith⟩
  simp only [hin, and_self, if_true]
  by_cases he : toI env scale upper = toI env scale lower
  · simp [he]
  · simp only [he, if_false]
    rw [toInternal_ok (inDom_between d1 d2 h1 h2)]

/-- **round trip of a continuous value**: exact under the hypotheses on the scaling -/
theorem cont_roundtrip {env : Env} {c : Consts} {lower upper : ℚ} {scale : ScaleKind}
    {r : ContCore} (h : mkContCore env lower upper scale = .ok r) (heps : 0 ≤ c.eps)
    (hs : ScaleOK env scale lower upper) {hp : ℚ} (h1 : lower ≤ hp) (h2 : hp ≤ upper) :
    ∃ x, r.encode env c hp = .ok x ∧ r.decode env c x = .ok hp := by
  have henc := cont_encode_ok h heps h1 h2
  obtain ⟨hle, d1, d2, rfl⟩ := mkContCore_ok h
  refine ⟨_, henc, ?_⟩
  have hLT := hs.mono lower hp (le_refl _) h1 h2
  have hTU := hs.mono hp upper h1 h2 (le_refl _)
  have hinv := hs.inv hp h1 h2
  have hinvL := hs.inv lower (le_refl _) hle
  generalize toI env scale lower = L at *
  generalize toI env scale upper = U at *
  generalize toI env scale hp = T at *
  unfold ContCore.decode
  by_cases he : U = L
  · subst he
    have hT : T = U := le_antisymm hTU hLT
    have h0 : -c.eps ≤ (0:ℚ) ∧ (0:ℚ) ≤ 1 + c.eps := ⟨by linarith, by linarith⟩
    simp only [if_true, h0, and_self, sub_self, lt_irrefl, if_false]
    rw [← hinvL, ← hT, hinv]
  · have hLU : L < U := lt_of_le_of_ne (le_trans hLT hTU) (Ne.symm he)
    have hpos : 0 < U - L := by linarith
    have hx0 : 0 ≤ (T - L) / (U - L) := div_nonneg (by linarith) (le_of_lt hpos)
    have hx1 : (T - L) / (U - L) ≤ 1 := by rw [div_le_one hpos]; linarith
    simp only [he, if_false]
    rw [clipR_id hx0 hx1]
    have hr : -c.eps ≤ (T - L) / (U - L) ∧ (T - L) / (U - L) ≤ 1 + c.eps := ⟨by linarith, by linarith⟩
    simp only [hr, and_self, if_true, hpos]
    have hmul : (T - L) / (U - L) * (U - L) + L = T := by field_simp; ring
    rw [hmul, hinv, clipR_id h1 h2]

theorem withBounds_ok {env : Env} {c : Consts} {core : ContCore} {aL aU : ℚ} {r : ContRange}
    (h : core.withBounds env c aL aU = .ok r) :
    core.lower ≤ aL ∧ aL ≤ aU ∧ aU ≤ core.upper ∧ r.core = core ∧
    core.encode env c aL = .ok r.bLo ∧ core.encode env c aU = .ok r.bHi := by
  unfold ContCore.withBounds at h
  split at h
  · rename_i hb
    split at h
    · rename_i a b ha hb2
      injection h with h
      subst h
      exact ⟨hb.2.2.1, hb.2.2.2.2, hb.2.1, rfl, ha, hb2⟩
    · cases h
    · cases h
  · cases h

/-- the `_ndarray_bounds` lie in the unit interval, in order (needs monotone scaling) -/
theorem cont_bounds_cube {env : Env} {c : Consts} {core : ContCore} {aL aU : ℚ} {r : ContRange}
    (hb : core.withBounds env c aL aU = .ok r) : 0 ≤ r.bLo ∧ r.bLo ≤ 1 ∧ 0 ≤ r.bHi ∧ r.bHi ≤ 1 := by
  obtain ⟨_, _, _, _, e1, e2⟩ := withBounds_ok hb
  have := cont_encode_cube e1
  have := cont_encode_cube e2
  tauto

/-- **active sub-range**: every `x` inside the `_ndarray_bounds` decodes into `[aL, aU]` -/
theorem cont_active {env : Env} {c : Consts} {lower upper : ℚ} {scale : ScaleKind}
    {core : ContCore} {aL aU : ℚ} {r : ContRange}
    (h : mkContCore env lower upper scale = .ok core) (hb : core.withBounds env c aL aU = .ok r)
    (heps : 0 ≤ c.eps) (hs : ScaleOK env scale lower upper) {x : ℚ} (hx : r.bLo ≤ x ∧ x ≤ r.bHi) :
    ∃ v, r.core.decode env c x = .ok v ∧ aL ≤ v ∧ v ≤ aU := by
  obtain ⟨hlo, hlu, hup, hcore, e1, e2⟩ := withBounds_ok hb
  obtain ⟨hle, d1, d2, hr⟩ := mkContCore_ok h
  rw [hr] at hlo hup
  simp only at hlo hup
  have hlaU : lower ≤ aU := le_trans hlo hlu
  have haLu : aL ≤ upper := le_trans hlu hup
  rw [cont_encode_ok h heps hlo haLu] at e1
  rw [cont_encode_ok h heps hlaU hup] at e2
  injection e1 with e1
  injection e2 with e2
  rw [hcore, hr]
  have hLA := hs.mono lower aL (le_refl _) hlo haLu
  have hAB := hs.mono aL aU hlo hlu hup
  have hBU := hs.mono aU upper hlaU hup (le_refl _)
  have hinvA := hs.inv aL hlo haLu
  have hinvB := hs.inv aU hlaU hup
  have hinvL := hs.inv lower (le_refl _) hle
  have hmf := hs.monoFrom
  generalize toI env scale lower = L at *
  generalize toI env scale upper = U at *
  generalize toI env scale aL = A at *
  generalize toI env scale aU = B at *
  unfold ContCore.decode
  by_cases he : U = L
  · subst he
    simp only [if_true] at e1 e2
    have hx0 : x = 0 := by rw [← e1, ← e2] at hx; exact le_antisymm hx.2 hx.1
    subst hx0
    have h0 : -c.eps ≤ (0:ℚ) ∧ (0:ℚ) ≤ 1 + c.eps := ⟨by linarith, by linarith⟩
    simp only [h0, and_self, if_true, sub_self, lt_irrefl, if_false]
    have hA : A = U := le_antisymm (le_trans hAB hBU) hLA
    refine ⟨lower, rfl, ?_, hlaU⟩
    rw [← hinvA, hA, hinvL]
  · have hLU : L < U := lt_of_le_of_ne (by linarith) (Ne.symm he)
    have hpos : 0 < U - L := by linarith
    simp only [he, if_false] at e1 e2
    have ha0 : 0 ≤ (A - L) / (U - L) := div_nonneg (by linarith) (le_of_lt hpos)
    have ha1 : (A - L) / (U - L) ≤ 1 := by rw [div_le_one hpos]; linarith
    have hb0 : 0 ≤ (B - L) / (U - L) := div_nonneg (by linarith) (le_of_lt hpos)
    have hb1 : (B - L) / (U - L) ≤ 1 := by rw [div_le_one hpos]; linarith
    rw [clipR_id ha0 ha1] at e1
    rw [clipR_id hb0 hb1] at e2
    rw [← e1, ← e2] at hx
    have hrng : -c.eps ≤ x ∧ x ≤ 1 + c.eps := ⟨by linarith [hx.1], by linarith [hx.2]⟩
    simp only [hrng, and_self, if_true, hpos]
    have hxA : A ≤ x * (U - L) + L := by
      have := (div_le_iff₀ hpos).mp hx.1
      linarith
    have hxB : x * (U - L) + L ≤ B := by
      have := (le_div_iff₀ hpos).mp hx.2
      linarith
    have hv1 := hmf A (x * (U - L) + L) hLA hxA (le_trans hxB hBU)
    have hv2 := hmf (x * (U - L) + L) B (le_trans hLA hxA) hxB hBU
    rw [hinvA] at hv1
    rw [hinvB] at hv2
    refine ⟨_, rfl, ?_⟩
    rw [clipR_id (le_trans hlo hv1) (le_trans hv2 hup)]
    exact ⟨hv1, hv2⟩

/-! ### integer ranges -/

/-- the continuous interval behind an integer range -/
def intLo (c : Consts) (k : ℤ) : ℚ := (k : ℚ) - 1 / 2 + c.eps
def intHi (c : Consts) (k : ℤ) : ℚ := (k : ℚ) + 1 / 2 - c.eps

theorem mkCont_ok {env : Env} {c : Consts} {lower upper : ℚ} {scale : ScaleKind} {aL aU : Option ℚ}
    {r : ContRange} (h : mkCont env c lower upper scale aL aU = .ok r) :
    ∃ core, mkContCore env lower upper scale = .ok core ∧
      core.withBounds env c (aL.getD lower) (aU.getD upper) = .ok r := by
  unfold mkCont at h
  split at h
  · rename_i core hc; exact ⟨core, hc, h⟩
  · cases h

theorem mkInt_ok {env : Env} {c : Consts} {lower upper : ℤ} {scale : ScaleKind} {aL aU : Option ℤ}
    {r : IntRange} (h : mkInt env c lower upper scale aL aU = .ok r) :
    lower ≤ upper ∧ r.lower = lower ∧ r.upper = upper ∧
    ∃ core, mkContCore env (intLo c lower) (intHi c upper) scale = .ok core ∧
      core.withBounds env c (intLo c (aL.getD lower)) (intHi c (aU.getD upper)) = .ok r.cont := by
  unfold mkInt at h
  split at h
  · rename_i hle
    split at h
    · rename_i ct hc
      injection h with h
      subst h
      obtain ⟨core, h1, h2⟩ := mkCont_ok hc
      exact ⟨hle, rfl, rfl, core, h1, h2⟩
    · cases h
  · cases h

/-- **decoded integers are inside the bounds** (any scaling) -/
theorem int_decode_member {env : Env} {c : Consts} {lower upper : ℤ} {scale : ScaleKind}
    {aL aU : Option ℤ} {r : IntRange} (h : mkInt env c lower upper scale aL aU = .ok r) (x : ℚ) :
    (-c.eps ≤ x ∧ x ≤ 1 + c.eps → ∃ k, r.decode env c x = .ok k ∧ lower ≤ k ∧ k ≤ upper) ∧
    (¬ (-c.eps ≤ x ∧ x ≤ 1 + c.eps) → r.decode env c x = .error .assertion) := by
  obtain ⟨hle, hl, hu, core, hc, hb⟩ := mkInt_ok h
  obtain ⟨_, _, _, hcore, _, _⟩ := withBounds_ok hb
  have hd := cont_decode_member (c := c) hc x
  unfold IntRange.decode IntRange.decodePre
  rw [hcore]
  constructor
  · intro hx
    obtain ⟨v, hv, _⟩ := hd.1 hx
    rw [hv]
    refine ⟨_, rfl, ?_⟩
    unfold IntRange.roundToInt
    rw [hl, hu]
    exact clipI_mem hle
  · intro hx
    rw [hd.2 hx]

theorem int_encode_cube {env : Env} {c : Consts} {r : IntRange} {k v : ℚ}
    (h : r.encode env c k = .ok v) : 0 ≤ v ∧ v ≤ 1 := cont_encode_cube h

/-- **round trip of an integer**: exact -/
theorem int_roundtrip {env : Env} {c : Consts} {lower upper : ℤ} {scale : ScaleKind}
    {aL aU : Option ℤ} {r : IntRange} (h : mkInt env c lower upper scale aL aU = .ok r)
    (heps : 0 ≤ c.eps) (heps2 : c.eps ≤ 1 / 2)
    (hs : ScaleOK env scale (intLo c lower) (intHi c upper)) {k : ℤ} (h1 : lower ≤ k) (h2 : k ≤ upper) :
    ∃ x, r.encode env c (k : ℚ) = .ok x ∧ r.decode env c x = .ok k := by
  obtain ⟨hle, hl, hu, core, hc, hb⟩ := mkInt_ok h
  obtain ⟨_, _, _, hcore, _, _⟩ := withBounds_ok hb
  have hk1 : intLo c lower ≤ (k : ℚ) := by
    have : (lower : ℚ) ≤ k := by exact_mod_cast h1
    unfold intLo; linarith
  have hk2 : (k : ℚ) ≤ intHi c upper := by
    have : (k : ℚ) ≤ upper := by exact_mod_cast h2
    unfold intHi; linarith
  obtain ⟨x, e1, e2⟩ := cont_roundtrip hc heps hs hk1 hk2
  refine ⟨x, ?_, ?_⟩
  · unfold IntRange.encode; rw [hcore]; exact e1
  · unfold IntRange.decode IntRange.decodePre
    rw [hcore, e2]
    simp only [IntRange.roundToInt, rhe_int, hl, hu, clipI_id h1 h2]

/-- **active sub-range of an integer**: every `x` inside the `_ndarray_bounds` decodes into the
active range (exact arithmetic; `0 < EPS` is what makes the half-integer ends round inwards) -/
theorem int_active {env : Env} {c : Consts} {lower upper : ℤ} {scale : ScaleKind}
    {aL aU : Option ℤ} {r : IntRange} (h : mkInt env c lower upper scale aL aU = .ok r)
    (heps : 0 < c.eps) (hs : ScaleOK env scale (intLo c lower) (intHi c upper))
    {x : ℚ} (hx : r.cont.bLo ≤ x ∧ x ≤ r.cont.bHi) :
    ∃ k, r.decode env c x = .ok k ∧ aL.getD lower ≤ k ∧ k ≤ aU.getD upper := by
  obtain ⟨hle, hl, hu, core, hc, hb⟩ := mkInt_ok h
  obtain ⟨v, hv, hv1, hv2⟩ := cont_active hc hb (le_of_lt heps) hs hx
  obtain ⟨hlo, hlu, hup, _, _, _⟩ := withBounds_ok hb
  obtain ⟨_, _, _, hr⟩ := mkContCore_ok hc
  rw [hr] at hlo hup
  simp only [intLo, intHi] at hlo hup hv1 hv2
  have hlo' : lower ≤ aL.getD lower := by
    have : (lower : ℚ) ≤ (aL.getD lower : ℤ) := by linarith
    exact_mod_cast this
  have hup' : aU.getD upper ≤ upper := by
    have : ((aU.getD upper : ℤ) : ℚ) ≤ upper := by linarith
    exact_mod_cast this
  unfold IntRange.decode IntRange.decodePre
  rw [hv]
  refine ⟨_, rfl, ?_⟩
  have g1 : aL.getD lower ≤ roundHalfEven v := rhe_ge (by linarith)
  have g2 : roundHalfEven v ≤ aU.getD upper := rhe_le (by linarith)
  unfold IntRange.roundToInt
  rw [hl, hu, clipI_id (le_trans hlo' g1) (le_trans g2 hup')]
  exact ⟨g1, g2⟩

end SyneTune.Dom
