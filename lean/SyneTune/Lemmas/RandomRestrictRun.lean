import SyneTune.Lemmas.RandomRestrict
/-
Invariants of the random searcher with `restrict_configurations` over arbitrary histories
(`Model/RandomRestrict.lean`): members of the list, initial configurations first, no
repeats, accounting of the list, "nothing left", the caller's list object.
Used by `Props/C06Restrict.lean`.
-/
namespace SyneTune.Srch

theorem xrun_nil (imm : RImm) (dc : Nat → Config) (di : Nat → Nat) (s s' : XState) (outs : List (Option Config))
    (h : XState.run imm dc di s [] = .ok (s', outs)) : s' = s ∧ outs = [] := by
  simp only [XState.run] at h
  injection h with h; injection h with h1 h2
  exact ⟨h1.symm, h2.symm⟩

/-! ### members of the list; initial configurations first -/

/-- over any history of a searcher with list `l`: the list only shrinks (not at all if
duplicates are allowed), `_rc_returned_pos` is empty between calls, the first answers are
the initial configurations in order, and every later answer is a member of `l` -/
theorem xrun_members (imm : RImm) (dc : Nat → Config) (di : Nat → Nat) :
    ∀ (ops : List ROp) (s s' : XState) (l : List Config) (outs : List (Option Config)),
      XState.run imm dc di s ops = .ok (s', outs) → s.rc = some l → s.pos = [] →
      (∃ l', s'.rc = some l' ∧ l'.Sublist l ∧ (imm.allowDup = true → l' = l)) ∧ s'.pos = [] ∧
      outs.take s.base.p2e.length = (s.base.p2e.map some).take outs.length ∧
      (∀ (j : Nat) (c : Config), s.base.p2e.length ≤ j → outs[j]? = some (some c) → c ∈ l) := by
  intro ops
  induction ops with
  | nil =>
    intro s s' l outs h hrc hpos
    obtain ⟨h1, h2⟩ := xrun_nil imm dc di s s' outs h
    subst h1; subst h2
    exact ⟨⟨l, hrc, List.Sublist.refl _, fun _ => rfl⟩, hpos, by simp, by intro j c _ hc; simp at hc⟩
  | cons op ops ih =>
    intro s s' l outs h hrc hpos
    obtain ⟨s1, o, os, hstep, hrun, hout⟩ := xrun_cons imm dc di s s' op ops outs h
    subst hout
    by_cases hop : op = .get
    · subst hop
      obtain ⟨o1, ho, hg⟩ := xstep_get imm dc di s s1 o hstep
      subst ho
      obtain ⟨hpos1, _, hcase⟩ := xget_cases imm s s1 l _ _ o1 hrc hpos hg
      rcases hcase with ⟨c0, rest, hp, ho1, hp1, _, hrc1, _⟩ | ⟨hp, hp1, hcase⟩
      · subst ho1
        obtain ⟨⟨l', a1, a2, a3⟩, b, c, d⟩ := ih s1 s' l os hrun hrc1 hpos1
        refine ⟨⟨l', a1, a2, a3⟩, b, ?_, ?_⟩
        · rw [hp1] at c
          simp only [hp, Option.toList, List.singleton_append, List.length_cons, List.take_succ_cons,
            List.map_cons, c]
        · intro j c' hj hc'
          rw [hp] at hj
          simp only [List.length_cons] at hj
          have : j = (j - 1) + 1 := by omega
          rw [this] at hc'
          simp only [Option.toList, List.singleton_append, List.getElem?_cons_succ] at hc'
          exact d (j - 1) c' (by rw [hp1]; omega) hc'
      · rcases hcase with ⟨ho1, _, hrc1, _⟩ | ⟨c0, m, p, n, ho1, _, _, hcp, _, _, _, _, _, hT, hF⟩
        · subst ho1
          obtain ⟨⟨l', a1, a2, a3⟩, b, c, d⟩ := ih s1 s' l os hrun hrc1 hpos1
          refine ⟨⟨l', a1, a2, a3⟩, b, by simp [hp], ?_⟩
          intro j c' _ hc'
          cases j with
          | zero => simp [Option.toList] at hc'
          | succ j =>
            simp only [Option.toList, List.singleton_append, List.getElem?_cons_succ] at hc'
            exact d j c' (by rw [hp1]; simp) hc'
        · subst ho1
          cases hd : imm.allowDup with
          | true =>
            obtain ⟨⟨l', a1, a2, a3⟩, b, c, d⟩ := ih s1 s' l os hrun (hT hd).2 hpos1
            refine ⟨⟨l', a1, a2, fun _ => a3 hd⟩, b, by simp [hp], ?_⟩
            intro j c' _ hc'
            cases j with
            | zero =>
              simp only [Option.toList, List.singleton_append, List.getElem?_cons_zero] at hc'
              injection hc' with hc'; injection hc' with hc'; subst hc'
              exact List.mem_of_getElem? hcp
            | succ j =>
              simp only [Option.toList, List.singleton_append, List.getElem?_cons_succ] at hc'
              exact d j c' (by rw [hp1]; simp) hc'
          | false =>
            obtain ⟨⟨l', a1, a2, a3⟩, b, c, d⟩ := ih s1 s' (l.eraseIdx p) os hrun (hF hd).2 hpos1
            have hsub : (l.eraseIdx p).Sublist l := List.eraseIdx_sublist l p
            refine ⟨⟨l', a1, a2.trans hsub, fun hc => by cases hc⟩, b, by simp [hp], ?_⟩
            intro j c' _ hc'
            cases j with
            | zero =>
              simp only [Option.toList, List.singleton_append, List.getElem?_cons_zero] at hc'
              injection hc' with hc'; injection hc' with hc'; subst hc'
              exact List.mem_of_getElem? hcp
            | succ j =>
              simp only [Option.toList, List.singleton_append, List.getElem?_cons_succ] at hc'
              exact hsub.subset (d j c' (by rw [hp1]; simp) hc')
    · obtain ⟨ho, hrc1, hpos1, hp1, _⟩ := xstep_other imm dc di s s1 op o hop hstep
      subst ho
      obtain ⟨a, b, c, d⟩ := ih s1 s' l os hrun (by rw [hrc1]; exact hrc) (by rw [hpos1]; exact hpos)
      rw [hp1] at c d
      exact ⟨a, b, by simpa using c, by simpa using d⟩

/-! ### no repeats -/

/-- **No repeats** (`allow_duplicates = False`), as an invariant over arbitrary histories,
from any state of a searcher with a list: `R` are the configurations returned so far. -/
theorem xrun_norepeat (imm : RImm) (hnd : imm.allowDup = false) (dc : Nat → Config) (di : Nat → Nat) :
    ∀ (ops : List ROp) (s s' : XState) (l : List Config) (R : List Config) (outs : List (Option Config)),
      XState.run imm dc di s ops = .ok (s', outs) → s.rc = some l → s.pos = [] →
      (∀ c ∈ R, ∃ m, imm.mkf c = .ok m ∧ m ∈ s.base.excl) → (∀ c ∈ s.base.p2e, c ∉ R) → s.base.p2e.Nodup → R.Nodup →
      (∀ c ∈ R ++ outs.filterMap id, ∃ m, imm.mkf c = .ok m ∧ m ∈ s'.base.excl) ∧
      (R ++ outs.filterMap id).Nodup ∧
      (∀ j c, R.length + s.base.p2e.length ≤ j → (R ++ outs.filterMap id)[j]? = some c →
        ∀ i c', i < j → (R ++ outs.filterMap id)[i]? = some c' → imm.mkf c' ≠ imm.mkf c) := by
  intro ops
  induction ops with
  | nil =>
    intro s s' l R outs h _ _ h1 h2 h3 h4
    obtain ⟨e1, e2⟩ := xrun_nil imm dc di s s' outs h
    subst e1; subst e2
    simp only [List.filterMap_nil, List.append_nil]
    refine ⟨h1, h4, ?_⟩
    intro j c hj hc
    have : R.length ≤ j := by omega
    rw [List.getElem?_eq_none this] at hc
    cases hc
  | cons op ops ih =>
    intro s s' l R outs h hrc hpos h1 h2 h3 h4
    obtain ⟨s1, o, os, hstep, hrun, hout⟩ := xrun_cons imm dc di s s' op ops outs h
    subst hout
    by_cases hop : op = .get
    · subst hop
      obtain ⟨o1, ho, hg⟩ := xstep_get imm dc di s s1 o hstep
      subst ho
      obtain ⟨hpos1, _, hcase⟩ := xget_cases imm s s1 l _ _ o1 hrc hpos hg
      rcases hcase with ⟨c0, rest, hp, ho1, hp1, _, hrc1, _, hex⟩ | ⟨hp, hp1, hcase⟩
      · -- an initial configuration
        subst ho1
        obtain ⟨m0, hm0, hexA⟩ := hex hnd
        clear hex
        rw [hp] at h2 h3
        have hc0R : c0 ∉ R := h2 c0 (by simp)
        have hnd' := List.nodup_cons.mp h3
        have := ih s1 s' l (R ++ [c0]) os hrun hrc1 hpos1
          (by
            intro c hc
            rcases List.mem_append.mp hc with hc | hc
            · obtain ⟨m, hm, hme⟩ := h1 c hc
              exact ⟨m, hm, by rw [hexA]; exact (mem_exclAdd _ _ _).mpr (Or.inr hme)⟩
            · simp only [List.mem_singleton] at hc
              subst hc
              exact ⟨m0, hm0, by rw [hexA]; exact (mem_exclAdd _ _ _).mpr (Or.inl rfl)⟩)
          (by
            rw [hp1]
            intro c hc hcr
            rcases List.mem_append.mp hcr with hcr | hcr
            · exact h2 c (List.mem_cons_of_mem _ hc) hcr
            · simp only [List.mem_singleton] at hcr
              subst hcr
              exact hnd'.1 hc)
          (by rw [hp1]; exact hnd'.2)
          (by
            rw [List.nodup_append]
            refine ⟨h4, by simp, ?_⟩
            intro a ha b hb
            simp only [List.mem_singleton] at hb
            subst hb
            intro hab; subst hab; exact hc0R ha)
        simp only [Option.toList, List.singleton_append, List.filterMap_cons, id_eq]
        have hassoc : R ++ c0 :: List.filterMap id os = (R ++ [c0]) ++ List.filterMap id os := by simp
        rw [hassoc]
        refine ⟨this.1, this.2.1, ?_⟩
        intro j c hj
        apply this.2.2 j c
        rw [hp1]; simp only [List.length_append, List.length_cons, List.length_nil, hp] at hj ⊢
        omega
      · rcases hcase with ⟨ho1, hex, hrc1, _⟩ | ⟨c0, m0, p, n, ho1, hm0, hnin, _, _, _, _, _, _, _, hex⟩
        · -- `none`
          subst ho1
          have := ih s1 s' l R os hrun hrc1 hpos1 (by rw [hex]; exact h1) (by rw [hp1]; simp) (by rw [hp1]; simp) h4
          simp only [Option.toList, List.singleton_append, List.filterMap_cons, id_eq]
          refine ⟨this.1, this.2.1, ?_⟩
          intro j c hj
          apply this.2.2 j c
          rw [hp1]; rw [hp] at hj; exact hj
        · -- a drawn configuration
          subst ho1
          obtain ⟨hexC, hrc1⟩ := hex hnd
          clear hex
          have hc0R : c0 ∉ R := by
            intro hc
            obtain ⟨m, hm, hme⟩ := h1 c0 hc
            rw [hm0] at hm; injection hm with hm; subst hm
            exact hnin hme
          have := ih s1 s' (l.eraseIdx p) (R ++ [c0]) os hrun hrc1 hpos1
            (by
              intro c hc
              rcases List.mem_append.mp hc with hc | hc
              · obtain ⟨m, hm, hme⟩ := h1 c hc
                exact ⟨m, hm, by rw [hexC]; exact (mem_exclAdd _ _ _).mpr (Or.inr hme)⟩
              · simp only [List.mem_singleton] at hc
                subst hc
                exact ⟨m0, hm0, by rw [hexC]; exact (mem_exclAdd _ _ _).mpr (Or.inl rfl)⟩)
            (by rw [hp1]; simp) (by rw [hp1]; simp)
            (by
              rw [List.nodup_append]
              refine ⟨h4, by simp, ?_⟩
              intro a ha b hb
              simp only [List.mem_singleton] at hb
              subst hb
              intro hab; subst hab; exact hc0R ha)
          simp only [Option.toList, List.singleton_append, List.filterMap_cons, id_eq]
          have hassoc : R ++ c0 :: List.filterMap id os = (R ++ [c0]) ++ List.filterMap id os := by simp
          rw [hassoc]
          refine ⟨this.1, this.2.1, ?_⟩
          intro j c hj hc i c' hij hc'
          rw [hp] at hj
          by_cases hjR : j = R.length
          · -- the drawn configuration itself: fresh w.r.t. everything returned before
            subst hjR
            have hcc : c = c0 := by
              rw [List.getElem?_append_left (by simp)] at hc
              rw [List.getElem?_append_right (Nat.le_refl _)] at hc
              simpa using hc.symm
            subst hcc
            rw [List.getElem?_append_left (by simp; omega), List.getElem?_append_left hij] at hc'
            obtain ⟨m', hm', hme'⟩ := h1 c' (List.mem_of_getElem? hc')
            rw [hm', hm0]
            intro heq; injection heq with heq; subst heq
            exact hnin hme'
          · apply this.2.2 j c _ hc i c' hij hc'
            rw [hp1]; simp only [List.length_append, List.length_cons, List.length_nil] at hj ⊢
            omega
    · obtain ⟨ho, hrc1, hpos1, hp, _, _, hex⟩ := xstep_other imm dc di s s1 op o hop hstep
      subst ho
      have hexD := (hex hnd).1
      have := ih s1 s' l R os hrun (by rw [hrc1]; exact hrc) (by rw [hpos1]; exact hpos)
        (by rw [hexD]; exact h1) (by rw [hp]; exact h2) (by rw [hp]; exact h3) h4
      simp only [Option.toList, List.nil_append]
      refine ⟨this.1, this.2.1, ?_⟩
      intro j c hj
      apply this.2.2 j c
      rw [hp]; exact hj

/-! ### accounting: what is suggested is what leaves the list -/

theorem perm_cons_eraseIdx {α} : ∀ (l : List α) (p : Nat) (c : α), l[p]? = some c → (c :: l.eraseIdx p).Perm l := by
  intro l
  induction l with
  | nil => intro p c h; simp at h
  | cons a as ih =>
    intro p c h
    cases p with
    | zero =>
      simp only [List.getElem?_cons_zero] at h
      injection h with h; subst h
      simp
    | succ p =>
      simp only [List.getElem?_cons_succ] at h
      simp only [List.eraseIdx_cons_succ]
      exact (List.Perm.swap a c _).trans ((ih p c h).cons a)

/-- after the initial configurations (`allow_duplicates = False`): the configurations
suggested from then on together with the remaining list are a rearrangement of the list —
every suggestion removes exactly itself -/
theorem xrun_accounting (imm : RImm) (hnd : imm.allowDup = false) (dc : Nat → Config) (di : Nat → Nat) :
    ∀ (ops : List ROp) (s s' : XState) (l : List Config) (outs : List (Option Config)),
      XState.run imm dc di s ops = .ok (s', outs) → s.rc = some l → s.pos = [] → s.base.p2e = [] →
      ∃ l', s'.rc = some l' ∧ (outs.filterMap id ++ l').Perm l := by
  intro ops
  induction ops with
  | nil =>
    intro s s' l outs h hrc _ _
    obtain ⟨e1, e2⟩ := xrun_nil imm dc di s s' outs h
    subst e1; subst e2
    exact ⟨l, hrc, by simp⟩
  | cons op ops ih =>
    intro s s' l outs h hrc hpos hp
    obtain ⟨s1, o, os, hstep, hrun, hout⟩ := xrun_cons imm dc di s s' op ops outs h
    subst hout
    by_cases hop : op = .get
    · subst hop
      obtain ⟨o1, ho, hg⟩ := xstep_get imm dc di s s1 o hstep
      subst ho
      obtain ⟨hpos1, _, hcase⟩ := xget_cases imm s s1 l _ _ o1 hrc hpos hg
      rcases hcase with ⟨c0, rest, hp', _⟩ | ⟨_, hp1, hcase⟩
      · rw [hp] at hp'; cases hp'
      · rcases hcase with ⟨ho1, _, hrc1, _⟩ | ⟨c0, m, p, n, ho1, _, _, hcp, _, _, _, _, _, _, hF⟩
        · subst ho1
          obtain ⟨l', a, b⟩ := ih s1 s' l os hrun hrc1 hpos1 hp1
          exact ⟨l', a, by simpa using b⟩
        · subst ho1
          obtain ⟨l', a, b⟩ := ih s1 s' (l.eraseIdx p) os hrun (hF hnd).2 hpos1 hp1
          refine ⟨l', a, ?_⟩
          simp only [Option.toList, List.filterMap_cons, id_eq, List.cons_append]
          exact (b.cons c0).trans (perm_cons_eraseIdx l p c0 hcp)
    · obtain ⟨ho, hrc1, hpos1, hp1, _⟩ := xstep_other imm dc di s s1 op o hop hstep
      subst ho
      obtain ⟨l', a, b⟩ := ih s1 s' l os hrun (by rw [hrc1]; exact hrc) (by rw [hpos1]; exact hpos) (by rw [hp1]; exact hp)
      exact ⟨l', a, by simpa using b⟩

/-! ### "nothing left" for a list without duplicates -/

theorem pairwise_eraseIdx_rel {α} (R : α → α → Prop) (hs : ∀ a b, R a b → R b a) :
    ∀ (l : List α) (p : Nat) (c : α), l.Pairwise R → l[p]? = some c → ∀ r ∈ l.eraseIdx p, R r c := by
  intro l
  induction l with
  | nil => intro p c _ h; simp at h
  | cons a as ih =>
    intro p c hpw h r hr
    obtain ⟨h1, h2⟩ := List.pairwise_cons.mp hpw
    cases p with
    | zero =>
      simp only [List.getElem?_cons_zero] at h
      injection h with h; subst h
      simp only [List.eraseIdx_cons_zero] at hr
      exact hs _ _ (h1 r hr)
    | succ p =>
      simp only [List.getElem?_cons_succ] at h
      simp only [List.eraseIdx_cons_succ, List.mem_cons] at hr
      rcases hr with hr | hr
      · subst hr; exact h1 c (List.mem_of_getElem? h)
      · exact ih p c h2 h r hr

/-- the invariant that holds when the caller's list has pairwise different match strings
and duplicates are not allowed: no remaining entry is excluded, none has the match string
of an initial configuration still to come, and the remaining entries have pairwise
different match strings -/
structure XState.Clean (imm : RImm) (s : XState) (l : List Config) : Prop where
  rc : s.rc = some l
  pos : s.pos = []
  fresh : ∀ r ∈ l, ∃ m, imm.mkf r = .ok m ∧ m ∉ s.base.excl
  apart : ∀ c ∈ s.base.p2e, ∀ r ∈ l, imm.mkf r ≠ imm.mkf c
  distinct : l.Pairwise (fun a b => imm.mkf a ≠ imm.mkf b)

/-- one `get_config` of a clean state: `None` exactly when no initial configuration and no
list entry is left; otherwise a configuration after at most one draw; the state stays clean -/
theorem xget_clean (imm : RImm) (hnd : imm.allowDup = false) (hmr : 0 < imm.maxRetries)
    (s s' : XState) (l : List Config) (dc : Nat → Config) (di : Nat → Nat) (o : Option Config)
    (hc : XState.Clean imm s l) (h : s.getConfig imm dc di = .ok (s', o)) :
    (o = none ↔ s.base.p2e = [] ∧ l = []) ∧ s'.base.rng ≤ s.base.rng + 1 ∧
    ∃ l', XState.Clean imm s' l' := by
  obtain ⟨hpos1, _, hcase⟩ := xget_cases imm s s' l dc di o hc.rc hc.pos h
  rcases hcase with ⟨c0, rest, hp, ho1, hp1, hrng, hrc1, _, hex⟩ | ⟨hp, hp1, hcase⟩
  · obtain ⟨m0, hm0, hexA⟩ := hex hnd
    refine ⟨?_, by omega, l, ⟨hrc1, hpos1, ?_, ?_, hc.distinct⟩⟩
    · subst ho1; constructor
      · intro hh; cases hh
      · intro hh; rw [hp] at hh; cases hh.1
    · intro r hr
      obtain ⟨m, hm, hnin⟩ := hc.fresh r hr
      refine ⟨m, hm, ?_⟩
      rw [hexA]
      intro hin
      rcases (mem_exclAdd _ _ _).mp hin with e | e
      · subst e
        exact hc.apart c0 (by rw [hp]; exact List.mem_cons_self) r hr (by rw [hm, hm0])
      · exact hnin e
    · intro c hc' r hr
      exact hc.apart c (by rw [hp]; rw [hp1] at hc'; exact List.mem_cons_of_mem _ hc') r hr
  · rcases hcase with ⟨ho1, hex, hrc1, hwhy⟩ | ⟨c0, m, p, n, ho1, hm0, hnin, hcp, hn0, _, _, hrng, hbefore, _, hF⟩
    · subst ho1
      rcases hwhy with ⟨hnil, hrng⟩ | ⟨hne, _, hall⟩
      · refine ⟨⟨fun _ => ⟨hp, hnil⟩, fun _ => rfl⟩, by omega, l, ⟨hrc1, hpos1, ?_, ?_, hc.distinct⟩⟩
        · subst hnil; intro r hr; cases hr
        · rw [hp1]; intro c hc'; cases hc'
      · -- impossible: the first draw hits an entry that is not excluded
        obtain ⟨c, m, hg, hm, hin⟩ := hall 0 hmr
        obtain ⟨m', hm', hnin⟩ := hc.fresh c (List.mem_of_getElem? hg)
        rw [hm] at hm'; injection hm' with hm'; subst hm'
        exact absurd hin hnin
    · subst ho1
      obtain ⟨hexC, hrc1⟩ := hF hnd
      have hn1 : n = 1 := by
        rcases Nat.lt_or_ge 1 n with hgt | hle
        · obtain ⟨c', m', hg, hm', hin⟩ := hbefore 0 (by omega)
          obtain ⟨m'', hm'', hnin'⟩ := hc.fresh c' (List.mem_of_getElem? hg)
          rw [hm'] at hm''; injection hm'' with hm''; subst hm''
          exact absurd hin hnin'
        · omega
      refine ⟨?_, by omega, l.eraseIdx p, ⟨hrc1, hpos1, ?_, ?_, hc.distinct.sublist (List.eraseIdx_sublist l p)⟩⟩
      · constructor
        · intro hh; cases hh
        · intro hh; rw [hh.2] at hcp; simp at hcp
      · intro r hr
        obtain ⟨mr, hmr', hninr⟩ := hc.fresh r ((List.eraseIdx_sublist l p).subset hr)
        refine ⟨mr, hmr', ?_⟩
        rw [hexC]
        intro hin
        rcases (mem_exclAdd _ _ _).mp hin with e | e
        · subst e
          have := pairwise_eraseIdx_rel (fun a b => imm.mkf a ≠ imm.mkf b) (fun a b hab => fun e => hab e.symm)
            l p c0 hc.distinct hcp r hr
          exact this (by rw [hmr', hm0])
        · exact hninr e
      · rw [hp1]; intro c hc'; cases hc'

/-- the invariant over histories -/
theorem xrun_clean (imm : RImm) (hnd : imm.allowDup = false) (hmr : 0 < imm.maxRetries)
    (dc : Nat → Config) (di : Nat → Nat) :
    ∀ (ops : List ROp) (s s' : XState) (l : List Config) (outs : List (Option Config)),
      XState.run imm dc di s ops = .ok (s', outs) → XState.Clean imm s l → ∃ l', XState.Clean imm s' l' := by
  intro ops
  induction ops with
  | nil =>
    intro s s' l outs h hc
    obtain ⟨e1, _⟩ := xrun_nil imm dc di s s' outs h
    subst e1; exact ⟨l, hc⟩
  | cons op ops ih =>
    intro s s' l outs h hc
    obtain ⟨s1, o, os, hstep, hrun, _⟩ := xrun_cons imm dc di s s' op ops outs h
    by_cases hop : op = .get
    · subst hop
      obtain ⟨o1, _, hg⟩ := xstep_get imm dc di s s1 o hstep
      obtain ⟨_, _, l1, hc1⟩ := xget_clean imm hnd hmr s s1 l _ _ o1 hc hg
      exact ih s1 s' l1 os hrun hc1
    · obtain ⟨_, hrc1, hpos1, hp1, _, _, hex⟩ := xstep_other imm dc di s s1 op o hop hstep
      have hexD := (hex hnd).1
      exact ih s1 s' l os hrun
        ⟨by rw [hrc1]; exact hc.rc, by rw [hpos1]; exact hc.pos, by rw [hexD]; exact hc.fresh,
         by rw [hp1]; exact hc.apart, hc.distinct⟩

/-- match strings that are pairwise different make the configurations pairwise apart -/
theorem pairwise_of_mapMk_nodup (mk : MK) (l : List Config) (mss : List String)
    (hm : mapMk mk l = .ok mss) (hn : mss.Nodup) : l.Pairwise (fun a b => mk a ≠ mk b) := by
  obtain ⟨hl, hsp⟩ := mapMk_spec mk l mss hm
  rw [List.pairwise_iff_getElem]
  intro i j hi hj hij heq
  obtain ⟨m1, a1, b1⟩ := hsp i l[i] (List.getElem?_eq_getElem hi)
  obtain ⟨m2, a2, b2⟩ := hsp j l[j] (List.getElem?_eq_getElem hj)
  rw [a1, a2] at heq
  injection heq with heq; subst heq
  have hi' : i < mss.length := by omega
  have hj' : j < mss.length := by omega
  rw [List.getElem?_eq_getElem hi'] at b1
  rw [List.getElem?_eq_getElem hj'] at b2
  injection b1 with b1; injection b2 with b2
  have := (List.getElem_inj hn).mp (b1.trans b2.symm)
  omega

/-- the freshly constructed searcher is clean -/
theorem construct_clean (imm : RImm) (hnd : imm.allowDup = false) (init l : List Config) (w : World)
    (h : construct imm init (some l) = .ok w) (mss : List String) (hm : mapMk imm.mkf l = .ok mss) (hn : mss.Nodup) :
    ∃ rc, XState.Clean imm w.s rc := by
  obtain ⟨_, _, _, hpos, mss', rc, hm', hrc, hsub, hbase, _, hap⟩ := construct_spec imm init l w h
  rw [hm] at hm'; injection hm' with hm'; subst hm'
  refine ⟨rc, ⟨hrc, hpos, ?_, hap hnd hn, (pairwise_of_mapMk_nodup imm.mkf l mss hm hn).sublist hsub⟩⟩
  intro r hr
  obtain ⟨j, hj⟩ := List.getElem?_of_mem (hsub.subset hr)
  obtain ⟨m, a, _⟩ := (mapMk_spec imm.mkf l mss hm).2 j r hj
  exact ⟨m, a, by rw [hbase]; simp [RState.init]⟩

/-! ### the caller's list object -/

theorem wrun_cons (imm : RImm) (dc : Nat → Config) (di : Nat → Nat) (w w' : World) (op : ROp) (ops : List ROp)
    (outs : List (Option Config)) (cl : List (List Config))
    (h : World.run imm dc di w (op :: ops) = .ok (w', outs, cl)) :
    ∃ s1 o os cl', XState.step imm dc di w.s op = .ok (s1, o) ∧
      World.run imm dc di (w.sync s1) ops = .ok (w', os, cl') ∧
      outs = o.toList ++ os ∧ cl = (w.sync s1).caller :: cl' := by
  simp only [World.run, World.step] at h
  cases h1 : XState.step imm dc di w.s op with
  | error e => simp [h1] at h
  | ok r =>
    obtain ⟨s1, o⟩ := r
    simp only [h1] at h
    cases h2 : World.run imm dc di (w.sync s1) ops with
    | error e => simp [h2] at h
    | ok r2 =>
      obtain ⟨w2, os, cl'⟩ := r2
      simp only [h2] at h
      injection h with h; injection h with ha hb; injection hb with hb hc
      subst ha; subst hb; subst hc
      exact ⟨s1, o, os, cl', rfl, h2, rfl, rfl⟩

/-- a world whose searcher does not hold the caller's list object never changes it; the
searcher and its outputs are those of `XState.run` -/
theorem wrun_unshared (imm : RImm) (dc : Nat → Config) (di : Nat → Nat) :
    ∀ (ops : List ROp) (w w' : World) (outs : List (Option Config)) (cl : List (List Config)),
      World.run imm dc di w ops = .ok (w', outs, cl) → w.shared = false →
      w'.caller = w.caller ∧ w'.shared = false ∧ (∀ x ∈ cl, x = w.caller) ∧ cl.length = ops.length ∧
      XState.run imm dc di w.s ops = .ok (w'.s, outs) := by
  intro ops
  induction ops with
  | nil =>
    intro w w' outs cl h hs
    simp only [World.run] at h
    injection h with h; injection h with h1 h2; injection h2 with h2 h3
    subst h1; subst h2; subst h3
    exact ⟨rfl, hs, by simp, rfl, rfl⟩
  | cons op ops ih =>
    intro w w' outs cl h hs
    obtain ⟨s1, o, os, cl', hstep, hrun, ho, hcl⟩ := wrun_cons imm dc di w w' op ops outs cl h
    subst ho; subst hcl
    have hsync : (w.sync s1).caller = w.caller ∧ (w.sync s1).shared = false ∧ (w.sync s1).s = s1 := by
      simp [World.sync, hs]
    obtain ⟨a, b, c, d, e⟩ := ih (w.sync s1) w' os cl' hrun hsync.2.1
    refine ⟨by rw [a, hsync.1], b, ?_, by simp [d], ?_⟩
    · intro x hx
      rcases List.mem_cons.mp hx with hx | hx
      · rw [hx, hsync.1]
      · rw [c x hx, hsync.1]
    · simp only [XState.run, hstep]
      rw [hsync.2.2] at e
      simp only [e]

end SyneTune.Srch
