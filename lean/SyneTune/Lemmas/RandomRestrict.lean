import SyneTune.Model.RandomRestrict
import SyneTune.Lemmas.SearcherRandom
/-
Lemmas about the random searcher with `restrict_configurations`
(`Model/RandomRestrict.lean`): the constructor's filter, case analysis of `get_config`,
unfolding of histories.  Used by `Props/C06Restrict.lean` and `Props/C16Restrict.lean`.
-/
namespace SyneTune.Srch

/-! ### the constructor -/

theorem lastIdxFrom_none (m : String) : ∀ (l : List String) (i : Nat), lastIdxFrom m l i = none ↔ m ∉ l := by
  intro l
  induction l with
  | nil => intro i; simp [lastIdxFrom]
  | cons x xs ih =>
    intro i
    simp only [lastIdxFrom]
    cases h : lastIdxFrom m xs (i + 1) with
    | some p =>
      have : ¬ (m ∉ xs) := fun hc => by rw [(ih (i + 1)).mpr hc] at h; cases h
      simp only [List.mem_cons, not_or]
      constructor
      · intro hh; cases hh
      · intro hh; exact absurd hh.2 this
    | none =>
      have hx := (ih (i + 1)).mp h
      by_cases hxm : x = m
      · subst hxm; simp
      · have : m ≠ x := fun e => hxm e.symm
        simp [hxm, hx, this]

/-- the position found is a position of `m` (relative to the offset `i`) and no later
position holds `m` -/
theorem lastIdxFrom_some (m : String) : ∀ (l : List String) (i p : Nat), lastIdxFrom m l i = some p →
    i ≤ p ∧ l[p - i]? = some m ∧ ∀ q, p < q → l[q - i]? ≠ some m := by
  intro l
  induction l with
  | nil => intro i p h; simp [lastIdxFrom] at h
  | cons x xs ih =>
    intro i p h
    simp only [lastIdxFrom] at h
    cases h1 : lastIdxFrom m xs (i + 1) with
    | some p' =>
      rw [h1] at h
      injection h with h; subst h
      obtain ⟨a, b, c⟩ := ih (i + 1) p' h1
      refine ⟨by omega, ?_, ?_⟩
      · have : p' - i = (p' - (i + 1)) + 1 := by omega
        rw [this, List.getElem?_cons_succ]; exact b
      · intro q hq
        have : q - i = (q - (i + 1)) + 1 := by omega
        rw [this, List.getElem?_cons_succ]; exact c q hq
    | none =>
      rw [h1] at h
      simp only at h
      by_cases hxm : x = m
      · simp only [hxm, if_true] at h
        injection h with h; subst h
        refine ⟨Nat.le_refl _, by simp [hxm], ?_⟩
        intro q hq
        have : q - i = (q - (i + 1)) + 1 := by omega
        rw [this, List.getElem?_cons_succ]
        intro hc
        exact (lastIdxFrom_none m xs (i + 1)).mp h1 (List.mem_of_getElem? hc)
      · simp [hxm] at h

theorem dropIdxs_sublist {α} (idxs : List Nat) : ∀ (l : List α) (i : Nat), (dropIdxs idxs l i).Sublist l := by
  intro l
  induction l with
  | nil => intro i; simp [dropIdxs]
  | cons a as ih =>
    intro i
    simp only [dropIdxs]
    split
    · exact (ih (i + 1)).cons a
    · exact (ih (i + 1)).cons_cons a

theorem dropIdxs_nil {α} : ∀ (l : List α) (i : Nat), dropIdxs [] l i = l := by
  intro l
  induction l with
  | nil => intro i; rfl
  | cons a as ih => intro i; simp [dropIdxs, ih]

/-- an entry that stays was at a position that is not removed -/
theorem mem_dropIdxs {α} (idxs : List Nat) : ∀ (l : List α) (i : Nat) (a : α), a ∈ dropIdxs idxs l i →
    ∃ j, l[j]? = some a ∧ i + j ∉ idxs := by
  intro l
  induction l with
  | nil => intro i a h; simp [dropIdxs] at h
  | cons x xs ih =>
    intro i a h
    simp only [dropIdxs] at h
    by_cases hi : i ∈ idxs
    · simp only [hi, if_true] at h
      obtain ⟨j, hj, hn⟩ := ih (i + 1) a h
      exact ⟨j + 1, by simpa using hj, by rw [show i + (j + 1) = i + 1 + j by omega]; exact hn⟩
    · simp only [hi, if_false, List.mem_cons] at h
      rcases h with h | h
      · subst h; exact ⟨0, by simp, by simpa using hi⟩
      · obtain ⟨j, hj, hn⟩ := ih (i + 1) a h
        exact ⟨j + 1, by simpa using hj, by rw [show i + (j + 1) = i + 1 + j by omega]; exact hn⟩

/-- `mapMk` succeeds iff every match string exists; position-wise -/
theorem mapMk_spec (mk : MK) : ∀ (l : List Config) (mss : List String), mapMk mk l = .ok mss →
    mss.length = l.length ∧ ∀ (j : Nat) (c : Config), l[j]? = some c → ∃ m, mk c = .ok m ∧ mss[j]? = some m := by
  intro l
  induction l with
  | nil =>
    intro mss h
    simp only [mapMk] at h
    injection h with h; subst h
    exact ⟨rfl, by intro j c hc; simp at hc⟩
  | cons c0 cs ih =>
    intro mss h
    simp only [mapMk] at h
    cases hm : mk c0 with
    | error e => simp [hm] at h
    | ok m0 =>
      simp only [hm] at h
      cases hr : mapMk mk cs with
      | error e => simp [hr] at h
      | ok ms =>
        simp only [hr] at h
        injection h with h; subst h
        obtain ⟨hl, hi⟩ := ih ms hr
        refine ⟨by simp [hl], ?_⟩
        intro j c hc
        cases j with
        | zero =>
          simp only [List.getElem?_cons_zero] at hc
          injection hc with hc; subst hc
          exact ⟨m0, hm, by simp⟩
        | succ j =>
          simp only [List.getElem?_cons_succ] at hc
          obtain ⟨m, h1, h2⟩ := hi j c hc
          exact ⟨m, h1, by simpa using h2⟩

/-- "the configuration is in the list": its match string is that of a list entry -/
def inMss (mk : MK) (mss : List String) (c : Config) : Bool :=
  match mk c with
  | .ok m => decide (m ∈ mss)
  | .error _ => false

/-- the loop over the initial configurations: those in the list stay, in order; positions
are marked for removal only when duplicates are not allowed, and then for EVERY initial
configuration that stays the last position of its match string is marked -/
theorem filterLoop_spec (mk : MK) (ad : Bool) (mss : List String) :
    ∀ (cs keep : List Config) (rm : List Nat), filterLoop mk ad mss cs = .ok (keep, rm) →
      keep = cs.filter (inMss mk mss) ∧
      (ad = true → rm = []) ∧
      (∀ p ∈ rm, ∃ c ∈ keep, ∃ m, mk c = .ok m ∧ lastIdxFrom m mss 0 = some p) ∧
      (ad = false → ∀ c ∈ keep, ∃ m p, mk c = .ok m ∧ lastIdxFrom m mss 0 = some p ∧ p ∈ rm) := by
  intro cs
  induction cs with
  | nil =>
    intro keep rm h
    simp only [filterLoop] at h
    injection h with h; injection h with h1 h2
    subst h1; subst h2
    simp
  | cons c cs ih =>
    intro keep rm h
    simp only [filterLoop] at h
    cases hm : mk c with
    | error e => simp [hm] at h
    | ok m =>
      simp only [hm] at h
      cases hr : filterLoop mk ad mss cs with
      | error e => simp [hr] at h
      | ok kr =>
        obtain ⟨keep0, rm0⟩ := kr
        simp only [hr] at h
        obtain ⟨i1, i2, i3, i4⟩ := ih keep0 rm0 hr
        cases hl : lastIdxFrom m mss 0 with
        | none =>
          simp only [hl] at h
          injection h with h; injection h with h1 h2
          subst h1; subst h2
          have hnot : m ∉ mss := (lastIdxFrom_none m mss 0).mp hl
          refine ⟨?_, i2, i3, i4⟩
          simp [inMss, hm, hnot, i1]
        | some p =>
          simp only [hl] at h
          injection h with h; injection h with h1 h2
          subst h1; subst h2
          have hin : m ∈ mss := by
            apply Classical.byContradiction
            intro hc
            rw [(lastIdxFrom_none m mss 0).mpr hc] at hl; cases hl
          refine ⟨?_, ?_, ?_, ?_⟩
          · simp [inMss, hm, hin, i1]
          · intro hd; simp [hd, i2 hd]
          · intro q hq
            cases ad with
            | true =>
              simp only [if_true] at hq
              obtain ⟨c', hc', r⟩ := i3 q hq
              exact ⟨c', List.mem_cons_of_mem _ hc', r⟩
            | false =>
              simp only [Bool.false_eq_true, if_false, List.mem_cons] at hq
              rcases hq with hq | hq
              · subst hq; exact ⟨c, List.mem_cons_self, m, hm, hl⟩
              · obtain ⟨c', hc', r⟩ := i3 q hq
                exact ⟨c', List.mem_cons_of_mem _ hc', r⟩
          · intro hd c' hc'
            subst hd
            simp only [Bool.false_eq_true, if_false]
            rcases List.mem_cons.mp hc' with hc' | hc'
            · subst hc'; exact ⟨m, p, hm, hl, List.mem_cons_self⟩
            · obtain ⟨m', p', a, b, c''⟩ := i4 rfl c' hc'
              exact ⟨m', p', a, b, List.mem_cons_of_mem _ c''⟩

/-- **`_filter_points_to_evaluate`**: what the constructor leaves -/
theorem filterPoints_spec (mk : MK) (ad : Bool) (rcArg p2e keep rc : List Config) (rm : List Nat)
    (h : filterPoints mk ad rcArg p2e = .ok (keep, rc, rm)) :
    rcArg ≠ [] ∧ ∃ mss, mapMk mk rcArg = .ok mss ∧
      keep = p2e.filter (inMss mk mss) ∧ rc = dropIdxs rm rcArg 0 ∧ rc.Sublist rcArg ∧
      (ad = true → rm = [] ∧ rc = rcArg) ∧
      (∀ p ∈ rm, ∃ c ∈ keep, ∃ m, mk c = .ok m ∧ lastIdxFrom m mss 0 = some p) ∧
      (ad = false → ∀ c ∈ keep, ∃ m p, mk c = .ok m ∧ lastIdxFrom m mss 0 = some p ∧ p ∈ rm) := by
  unfold filterPoints at h
  by_cases he : rcArg.isEmpty = true
  · simp [he] at h
  · simp only [he] at h
    have hne : rcArg ≠ [] := by intro hc; subst hc; simp at he
    cases hm : mapMk mk rcArg with
    | error e => simp [hm] at h
    | ok mss =>
      simp only [hm] at h
      cases hf : filterLoop mk ad mss p2e with
      | error e => simp [hf] at h
      | ok kr =>
        obtain ⟨keep0, rm0⟩ := kr
        simp only [hf] at h
        simp only [Bool.false_eq_true, if_false] at h
        injection h with h; injection h with h1 h2; injection h2 with h2 h3
        subst h1; subst h2; subst h3
        obtain ⟨i1, i2, i3, i4⟩ := filterLoop_spec mk ad mss p2e keep0 rm0 hf
        refine ⟨hne, mss, rfl, i1, rfl, dropIdxs_sublist _ _ _, ?_, i3, i4⟩
        intro hd
        have := i2 hd
        subst this
        exact ⟨rfl, dropIdxs_nil _ _⟩

/-- with pairwise different match strings in the caller's list and duplicates not allowed,
no remaining entry has the match string of an initial configuration that stays -/
theorem filterPoints_disjoint (mk : MK) (rcArg p2e keep rc : List Config) (rm : List Nat)
    (h : filterPoints mk false rcArg p2e = .ok (keep, rc, rm))
    (mss : List String) (hm : mapMk mk rcArg = .ok mss) (hn : mss.Nodup) :
    ∀ c ∈ keep, ∀ r ∈ rc, mk r ≠ mk c := by
  obtain ⟨_, mss', hm', _, hrc, _, _, _, h4⟩ := filterPoints_spec mk false rcArg p2e keep rc rm h
  rw [hm] at hm'; injection hm' with hm'; subst hm'
  intro c hc r hr heq
  obtain ⟨m, p, hmc, hl, hp⟩ := h4 rfl c hc
  rw [hrc] at hr
  obtain ⟨j, hj, hnj⟩ := mem_dropIdxs rm rcArg 0 r hr
  obtain ⟨_, hsp⟩ := mapMk_spec mk rcArg mss hm
  obtain ⟨m', hm1, hm2⟩ := hsp j r hj
  rw [hmc, hm1] at heq
  injection heq with heq; subst heq
  obtain ⟨_, hpm, _⟩ := lastIdxFrom_some m' mss 0 p hl
  simp only [Nat.sub_zero] at hpm
  -- two positions of the same string in a duplicate-free list are equal
  have hjp : j = p := by
    have hjl : j < mss.length := by
      rcases Nat.lt_or_ge j mss.length with hh | hh
      · exact hh
      · rw [List.getElem?_eq_none hh] at hm2; cases hm2
    have hpl : p < mss.length := by
      rcases Nat.lt_or_ge p mss.length with hh | hh
      · exact hh
      · rw [List.getElem?_eq_none hh] at hpm; cases hpm
    have e1 : mss[j] = m' := by
      rw [List.getElem?_eq_getElem hjl] at hm2; injection hm2
    have e2 : mss[p] = m' := by
      rw [List.getElem?_eq_getElem hpl] at hpm; injection hpm
    exact (List.getElem_inj hn).mp (e1.trans e2.symm)
  subst hjp
  simp only [Nat.zero_add] at hnj
  exact hnj hp

/-- **the constructor** with a list -/
theorem construct_spec (imm : RImm) (init l : List Config) (w : World)
    (h : construct imm init (some l) = .ok w) :
    l ≠ [] ∧ w.caller = l ∧ w.shared = false ∧ w.s.pos = [] ∧
    ∃ mss rc, mapMk imm.mkf l = .ok mss ∧ w.s.rc = some rc ∧ rc.Sublist l ∧
      w.s.base = RState.init (init.filter (inMss imm.mkf mss)) ∧
      (imm.allowDup = true → rc = l) ∧
      (imm.allowDup = false → mss.Nodup → ∀ c ∈ w.s.base.p2e, ∀ r ∈ rc, imm.mkf r ≠ imm.mkf c) := by
  unfold construct at h
  simp only at h
  cases hf : filterPoints imm.mkf imm.allowDup l init with
  | error e => simp [hf] at h
  | ok r =>
    obtain ⟨keep, rc, rm⟩ := r
    simp only [hf] at h
    injection h with h; subst h
    obtain ⟨hne, mss, hm, hk, _, hsub, hT, _, _⟩ := filterPoints_spec imm.mkf imm.allowDup l init keep rc rm hf
    refine ⟨hne, rfl, rfl, rfl, mss, rc, hm, rfl, hsub, by rw [hk], fun hd => (hT hd).2, ?_⟩
    intro hd hn
    rw [hd] at hf
    exact filterPoints_disjoint imm.mkf l init keep rc rm hf mss hm hn

/-! ### the retry loop over positions -/

/-- result of the retry loop: a returned configuration is the list entry at the last drawn
position, its match string is not excluded; all earlier draws hit excluded entries; `none`
means all `fuel` draws hit excluded entries. -/
theorem restrictLoop_spec (mk : MK) (excl : List String) (rc : List Config) (di : Nat → Nat) :
    ∀ (fuel i : Nat) (r : Option (Config × Nat)) (n : Nat), restrictLoop mk excl rc di fuel i = .ok (r, n) →
      i ≤ n ∧ n ≤ i + fuel ∧
      (∀ j, i ≤ j → j + 1 < n + (if r.isSome then 0 else 1) →
        ∃ c m, rc[di j]? = some c ∧ mk c = .ok m ∧ m ∈ excl) ∧
      (∀ c p, r = some (c, p) → i < n ∧ p = di (n - 1) ∧ rc[p]? = some c ∧ ∃ m, mk c = .ok m ∧ m ∉ excl) ∧
      (r = none → n = i + fuel) := by
  intro fuel
  induction fuel with
  | zero =>
    intro i r n h
    simp only [restrictLoop] at h
    injection h with h; injection h with h1 h2
    subst h1; subst h2
    refine ⟨Nat.le_refl _, Nat.le_refl _, ?_, ?_, ?_⟩
    · intro j h1 h2; simp at h2; omega
    · intro c p hc; cases hc
    · intro _; rfl
  | succ fuel ih =>
    intro i r n h
    simp only [restrictLoop] at h
    cases hg : rc[di i]? with
    | none => simp [hg] at h
    | some c0 =>
      simp only [hg] at h
      cases hm : mk c0 with
      | error e => simp [hm] at h
      | ok m =>
        simp only [hm] at h
        by_cases hin : m ∈ excl
        · simp only [hin, if_true] at h
          obtain ⟨h1, h2, h3, h4, h5⟩ := ih (i + 1) r n h
          refine ⟨by omega, by omega, ?_, ?_, ?_⟩
          · intro j hj1 hj2
            by_cases hji : j = i
            · subst hji; exact ⟨c0, m, hg, hm, hin⟩
            · exact h3 j (by omega) hj2
          · intro c p hc
            obtain ⟨a, b, c', d⟩ := h4 c p hc
            exact ⟨by omega, b, c', d⟩
          · intro hr; have := h5 hr; omega
        · simp only [hin, if_false] at h
          injection h with h; injection h with h1 h2
          subst h1; subst h2
          refine ⟨by omega, by omega, ?_, ?_, ?_⟩
          · intro j hj1 hj2; simp at hj2; omega
          · intro c p hc
            injection hc with hc; injection hc with hc1 hc2
            subst hc1; subst hc2
            refine ⟨by omega, by simp, hg, m, hm, hin⟩
          · intro hr; cases hr

/-- if every entry of a non-empty list is excluded, the loop gives up (whatever is drawn,
as long as the draws are positions of the list) -/
theorem restrictLoop_all_excluded (mk : MK) (excl : List String) (rc : List Config) (di : Nat → Nat)
    (hall : ∀ c ∈ rc, ∃ m, mk c = .ok m ∧ m ∈ excl) (hdi : ∀ i, di i < rc.length) :
    ∀ fuel i, restrictLoop mk excl rc di fuel i = .ok (none, i + fuel) := by
  intro fuel
  induction fuel with
  | zero => intro i; rfl
  | succ fuel ih =>
    intro i
    simp only [restrictLoop]
    have hlt := hdi i
    rw [List.getElem?_eq_getElem hlt]
    obtain ⟨m, hm, hin⟩ := hall rc[di i] (List.getElem_mem hlt)
    simp only [hm, hin, if_true]
    rw [ih (i + 1)]
    congr 2; omega

/-! ### `get_config` on a restricted searcher -/

theorem popLoop_single (mk : MK) (m : String) (rc : List Config) (p : Nat) (c : Config)
    (hc : rc[p]? = some c) (hm : mk c = .ok m) : popLoop mk m rc [p] = .ok (rc.eraseIdx p) := by
  simp [popLoop, hc, hm]

/-- case analysis of one `get_config` of a searcher with a list (`_rc_returned_pos` empty
before, as it is between any two calls) -/
theorem xget_cases (imm : RImm) (s s' : XState) (rc : List Config) (dc : Nat → Config) (di : Nat → Nat)
    (o : Option Config) (hrc : s.rc = some rc) (hpos : s.pos = [])
    (h : s.getConfig imm dc di = .ok (s', o)) :
    s'.pos = [] ∧ s'.base.cfgFor = s.base.cfgFor ∧
    ((∃ c rest, s.base.p2e = c :: rest ∧ o = some c ∧ s'.base.p2e = rest ∧ s'.base.rng = s.base.rng ∧
        s'.rc = some rc ∧
        (imm.allowDup = true → s'.base.excl = s.base.excl) ∧
        (imm.allowDup = false → ∃ m, imm.mkf c = .ok m ∧ s'.base.excl = exclAdd m s.base.excl)) ∨
     (s.base.p2e = [] ∧ s'.base.p2e = [] ∧
      ((o = none ∧ s'.base.excl = s.base.excl ∧ s'.rc = some rc ∧
          ((rc = [] ∧ s'.base.rng = s.base.rng) ∨
           (rc ≠ [] ∧ s'.base.rng = s.base.rng + imm.maxRetries ∧
             ∀ i, i < imm.maxRetries → ∃ c m, rc[di i]? = some c ∧ imm.mkf c = .ok m ∧ m ∈ s.base.excl))) ∨
       (∃ c m p n, o = some c ∧ imm.mkf c = .ok m ∧ m ∉ s.base.excl ∧ rc[p]? = some c ∧
          0 < n ∧ n ≤ imm.maxRetries ∧ p = di (n - 1) ∧ s'.base.rng = s.base.rng + n ∧
          (∀ j, j + 1 < n → ∃ c' m', rc[di j]? = some c' ∧ imm.mkf c' = .ok m' ∧ m' ∈ s.base.excl) ∧
          (imm.allowDup = true → s'.base.excl = s.base.excl ∧ s'.rc = some rc) ∧
          (imm.allowDup = false → s'.base.excl = exclAdd m s.base.excl ∧ s'.rc = some (rc.eraseIdx p)))))) := by
  unfold XState.getConfig at h
  cases hp : s.base.p2e with
  | cons c rest =>
    simp only [hp] at h
    unfold XState.finish at h
    simp only at h
    cases hd : imm.allowDup with
    | true =>
      simp only [hd, if_true] at h
      injection h with h; injection h with h1 h2
      subst h1; subst h2
      refine ⟨hpos, rfl, Or.inl ⟨c, rest, rfl, rfl, rfl, rfl, hrc, fun _ => rfl, fun hc => by cases hc⟩⟩
    | false =>
      simp only [hd, Bool.false_eq_true, if_false] at h
      unfold exclAddConfig at h
      cases hm : imm.mkf c with
      | error e => simp [hm] at h
      | ok m =>
        simp only [hm] at h
        unfold XState.popReturned at h
        simp only [hrc, hpos, List.isEmpty_nil, if_true] at h
        injection h with h; injection h with h1 h2
        subst h1; subst h2
        refine ⟨rfl, rfl, Or.inl ⟨c, rest, rfl, rfl, rfl, rfl, rfl, ?_, ?_⟩⟩
        · intro hc; cases hc
        · intro _; exact ⟨m, hm, rfl⟩
  | nil =>
    simp only [hp] at h
    unfold XState.drawConfig at h
    simp only [hrc] at h
    unfold XState.drawRestricted at h
    by_cases he : rc.isEmpty = true
    · have hnil : rc = [] := by cases rc <;> simp_all
      simp only [he, if_true] at h
      unfold XState.finish at h
      simp only at h
      injection h with h; injection h with h1 h2
      subst h1; subst h2
      exact ⟨hpos, rfl, Or.inr ⟨rfl, hp, Or.inl ⟨rfl, rfl, hrc, Or.inl ⟨hnil, rfl⟩⟩⟩⟩
    · have hne : rc ≠ [] := by intro hc; subst hc; simp at he
      simp only [he] at h
      simp only [Bool.false_eq_true, if_false] at h
      cases hl : restrictLoop imm.mkf s.base.excl rc di imm.maxRetries 0 with
      | error e => simp [hl] at h
      | ok rn =>
        obtain ⟨r, n⟩ := rn
        simp only [hl] at h
        obtain ⟨l1, l2, l3, l4, l5⟩ := restrictLoop_spec imm.mkf s.base.excl rc di imm.maxRetries 0 r n hl
        cases r with
        | none =>
          simp only [XState.afterLoop, XState.finish] at h
          injection h with h; injection h with h1 h2
          subst h1; subst h2
          have hn := l5 rfl
          refine ⟨hpos, rfl, Or.inr ⟨rfl, hp, Or.inl ⟨rfl, rfl, hrc, Or.inr ⟨hne, ?_, ?_⟩⟩⟩⟩
          · simp only [XState.advance]; omega
          · intro i hi
            exact l3 i (Nat.zero_le _) (by simp; omega)
        | some cp =>
          obtain ⟨c, p⟩ := cp
          obtain ⟨k1, k2, k3, m, k4, k5⟩ := l4 c p rfl
          simp only [XState.afterLoop] at h
          unfold XState.finish at h
          simp only at h
          cases hd : imm.allowDup with
          | true =>
            simp only [hd, if_true] at h
            injection h with h; injection h with h1 h2
            subst h1; subst h2
            refine ⟨?_, ?_, Or.inr ⟨rfl, ?_, Or.inr ⟨c, m, p, n, rfl, k4, k5, k3, k1, by omega, k2, ?_, ?_, ?_, ?_⟩⟩⟩
            · simp [XState.markReturned, hd, XState.advance, hpos]
            · simp [XState.markReturned, hd, XState.advance]
            · simp [XState.markReturned, hd, XState.advance, hp]
            · simp [XState.markReturned, hd, XState.advance]
            · intro j hj; exact l3 j (Nat.zero_le _) (by simpa using hj)
            · intro _; simp [XState.markReturned, hd, XState.advance, hrc]
            · intro hc; cases hc
          | false =>
            simp only [hd, Bool.false_eq_true, if_false] at h
            unfold exclAddConfig at h
            simp only [XState.markReturned, hd, Bool.false_eq_true, if_false, XState.advance, k4] at h
            unfold XState.popReturned at h
            simp only [hrc, hpos, setAdd, List.not_mem_nil, if_false, List.nil_append, k4] at h
            rw [popLoop_single imm.mkf m rc p c k3 k4] at h
            simp only [List.isEmpty_cons, Bool.false_eq_true, if_false] at h
            injection h with h; injection h with h1 h2
            subst h1; subst h2
            refine ⟨rfl, rfl, Or.inr ⟨rfl, hp, Or.inr ⟨c, m, p, n, rfl, k4, k5, k3, k1, by omega, k2, rfl, ?_, ?_, ?_⟩⟩⟩
            · intro j hj; exact l3 j (Nat.zero_le _) (by simpa using hj)
            · intro hc; cases hc
            · intro _; exact ⟨rfl, rfl⟩

/-! ### the other operations, histories -/

theorem xrun_cons (imm : RImm) (dc : Nat → Config) (di : Nat → Nat) (s s' : XState) (op : ROp) (ops : List ROp)
    (outs : List (Option Config)) (h : XState.run imm dc di s (op :: ops) = .ok (s', outs)) :
    ∃ s1 o os, XState.step imm dc di s op = .ok (s1, o) ∧ XState.run imm dc di s1 ops = .ok (s', os) ∧
      outs = o.toList ++ os := by
  simp only [XState.run] at h
  cases h1 : XState.step imm dc di s op with
  | error e => simp [h1] at h
  | ok r =>
    obtain ⟨s1, o⟩ := r
    simp only [h1] at h
    cases h2 : XState.run imm dc di s1 ops with
    | error e => simp [h2] at h
    | ok r2 =>
      obtain ⟨s2, os⟩ := r2
      simp only [h2] at h
      injection h with h; injection h with ha hb
      subst ha; subst hb
      exact ⟨s1, o, os, rfl, h2, rfl⟩

theorem xstep_get (imm : RImm) (dc : Nat → Config) (di : Nat → Nat) (s s1 : XState) (o : Option (Option Config))
    (h : XState.step imm dc di s .get = .ok (s1, o)) :
    ∃ o1, o = some o1 ∧
      s.getConfig imm (fun i => dc (s.base.rng + i)) (fun i => di (s.base.rng + i)) = .ok (s1, o1) := by
  simp only [XState.step] at h
  cases hg : s.getConfig imm (fun i => dc (s.base.rng + i)) (fun i => di (s.base.rng + i)) with
  | error e => simp [hg] at h
  | ok r =>
    obtain ⟨s2, o1⟩ := r
    simp only [hg] at h
    injection h with h; injection h with h1 h2
    subst h1; subst h2
    exact ⟨o1, rfl, rfl⟩

/-- a non-`get` step: no output; list, marked positions, initial points, generator
untouched; the exclusion set only grows, and does not change at all unless duplicates are
allowed -/
theorem xstep_other (imm : RImm) (dc : Nat → Config) (di : Nat → Nat) (s s1 : XState) (op : ROp)
    (o : Option (Option Config)) (hop : op ≠ .get) (h : XState.step imm dc di s op = .ok (s1, o)) :
    o = none ∧ s1.rc = s.rc ∧ s1.pos = s.pos ∧ s1.base.p2e = s.base.p2e ∧ s1.base.rng = s.base.rng ∧
    (∀ m, m ∈ s.base.excl → m ∈ s1.base.excl) ∧
    (imm.allowDup = false → s1.base.excl = s.base.excl ∧ s1.base.cfgFor = s.base.cfgFor) := by
  cases op with
  | get => exact absurd rfl hop
  | pending tid c =>
    simp only [XState.step] at h
    injection h with h; injection h with h1 h2
    subst h1; subst h2
    obtain ⟨a, b, c', d⟩ := registerPending_fields imm s.base tid c
    exact ⟨rfl, rfl, rfl, a, c', fun m hm => by show m ∈ (s.base.registerPending imm tid c).excl; rw [b]; exact hm, fun hd => ⟨b, d hd⟩⟩
  | failed tid =>
    simp only [XState.step] at h
    unfold XState.evaluationFailed at h
    cases hf : s.base.evaluationFailed imm tid with
    | error e => simp [hf] at h
    | ok b2 =>
      simp only [hf] at h
      injection h with h; injection h with h1 h2
      subst h1; subst h2
      obtain ⟨a, b, c, d⟩ := evaluationFailed_spec imm s.base b2 tid hf
      refine ⟨rfl, rfl, rfl, a, b, ?_, ?_⟩
      · intro m hm
        rcases d with d | ⟨cfg, m', _, _, _, d⟩
        · simp only; rw [d]; exact hm
        · simp only; rw [d]; exact (mem_exclAdd _ _ _).mpr (Or.inr hm)
      · intro hd
        rcases d with d | ⟨cfg, m', hd', _⟩
        · exact ⟨d, c⟩
        · rw [hd] at hd'; cases hd'
  | result tid =>
    simp only [XState.step] at h
    injection h with h; injection h with h1 h2
    subst h1; subst h2
    exact ⟨rfl, rfl, rfl, rfl, rfl, fun m hm => hm, fun _ => ⟨rfl, rfl⟩⟩

end SyneTune.Srch
