import SyneTune.Model.DyHPO
import SyneTune.Lemmas.HBContractK2
import SyneTune.Lemmas.HBPickSpec
/-
DyHPO rung system: what `DyHPORungSystem.on_task_schedule` (`RungSys.dyhpoSchedule`) changes.
Both ways it can promote a trial (the successive-halving scan, the searcher's pick) mark ONE
not-yet-promoted entry of ONE rung as promoted (`MarkStep`); nothing else changes.
-/
namespace SyneTune.DyHPO
open SyneTune

/-! ### the paused list -/

theorem pausedEntries_tids (next : Nat) (l : List Entry) (pos : Nat) :
    (pausedEntries next l pos).map (·.1) = (l.filter (fun e => !e.promoted)).map (·.tid) := by
  induction l generalizing pos with
  | nil => rfl
  | cons e es ih =>
    unfold pausedEntries
    cases hp : e.promoted <;> simp [hp, ih]

/-- the trial ids of `_paused_trials_and_milestones` are exactly the not-yet-promoted rung
entries (with multiplicity, in rung order) -/
theorem pausedScan_tids (next : Nat) (rs : List Rung) :
    (pausedScan next rs).map (·.1) = unpromotedOf rs := by
  induction rs generalizing next with
  | nil => rfl
  | cons rg rest ih =>
    unfold pausedScan
    rw [List.map_append, pausedEntries_tids, ih, unpromotedOf_cons]
    rfl

theorem pausedTrials_tids (s : RungSys) : s.pausedTrials.map (·.1) = unpromotedOf s.rungs :=
  pausedScan_tids s.maxT s.rungs

theorem findPaused_some (t : Nat) (l : List (Nat × Nat × Nat)) (p : Nat × Nat × Nat)
    (h : findPaused t l = some p) : p ∈ l ∧ p.1 = t := by
  unfold findPaused at h
  have h1 := List.mem_of_find?_eq_some h
  have h2 := List.find?_some h
  exact ⟨h1, by simpa using h2⟩

/-- the keys of `_previous_rung_level` are `max_t` and rung levels -/
theorem prevLevelPairs_key (next : Nat) (rs : List Rung) (ms rf : Nat)
    (h : alookup ms (prevLevelPairs next rs) = some rf) :
    (ms = next ∨ ∃ rg ∈ rs, rg.level = ms) ∧ ∃ rg ∈ rs, rg.level = rf := by
  induction rs generalizing next with
  | nil => simp [prevLevelPairs, alookup] at h
  | cons rg rest ih =>
    unfold prevLevelPairs alookup at h
    by_cases hk : ms = next
    · simp only [hk, if_true, Option.some.injEq] at h
      exact ⟨Or.inl hk, rg, by simp, h⟩
    · simp only [hk, if_false] at h
      obtain ⟨h1, rg2, hrg2, hl2⟩ := ih rg.level h
      refine ⟨Or.inr ?_, rg2, List.mem_cons_of_mem _ hrg2, hl2⟩
      rcases h1 with h1 | ⟨rg1, hrg1, hl1⟩
      · exact ⟨rg, by simp, h1.symm⟩
      · exact ⟨rg1, List.mem_cons_of_mem _ hrg1, hl1⟩

theorem rungPos_some (rs : List Rung) (l i : Nat) (h : rungPos rs l = some i) :
    ∃ rg, rs[i]? = some rg ∧ rg.level = l ∧ ∀ j rg', j < i → rs[j]? = some rg' → rg'.level ≠ l := by
  unfold rungPos at h
  rw [List.findIdx?_eq_some_iff_getElem] at h
  obtain ⟨hi, h1, h2⟩ := h
  refine ⟨rs[i], by simp [hi], by simpa using h1, ?_⟩
  intro j rg' hj hget
  have hjl : j < rs.length := by omega
  have := h2 j hj
  rw [List.getElem?_eq_getElem hjl] at hget
  injection hget with hget
  subst hget
  simpa using this

/-! ### one entry marked -/

/-- `rs'` is `rs` with one not-yet-promoted entry of the trial `o.trial`, in the rung of level
`o.resumeFrom`, marked as promoted -/
def MarkStep (m : Mode) (rs rs' : List Rung) (o : SchedOut) : Prop :=
  ∃ pre rg post pos e, rs = pre ++ rg :: post ∧ rs' = pre ++ markPromoted m rg pos :: post ∧
    rg.data[pos]? = some e ∧ e.tid = o.trial ∧ e.promoted = false ∧ rg.level = o.resumeFrom

theorem MarkStep.levels {m : Mode} {rs rs' : List Rung} {o : SchedOut} (h : MarkStep m rs rs' o) :
    rs'.map (·.level) = rs.map (·.level) := by
  obtain ⟨pre, rg, post, pos, e, h1, h2, h3, _, _, _⟩ := h
  rw [h1, h2]
  simp [(markPromoted_perm m rg pos e h3).2.1]

theorem MarkStep.unpromoted {m : Mode} {rs rs' : List Rung} {o : SchedOut} (h : MarkStep m rs rs' o) :
    (unpromotedOf rs).Perm (o.trial :: unpromotedOf rs') := by
  obtain ⟨pre, rg, post, pos, e, h1, h2, h3, h4, h5, _⟩ := h
  rw [h1, h2, ← h4]
  exact unpromotedOf_replace_del pre post rg _ e.tid (unpromoted_mark m rg pos e h3 h5)

theorem forall₂_refl_step (m : Mode) (ys : List Rung) : List.Forall₂ (RungStep m) ys ys := by
  induction ys with
  | nil => exact List.Forall₂.nil
  | cons y ys ih => exact List.Forall₂.cons (RungStep.same y) ih

theorem MarkStep.steps {m : Mode} {rs rs' : List Rung} {o : SchedOut} (h : MarkStep m rs rs' o) :
    List.Forall₂ (RungStep m) rs rs' := by
  obtain ⟨pre, rg, post, pos, e, h1, h2, _, _, _, _⟩ := h
  rw [h1, h2]
  exact List.rel_append (forall₂_refl_step m pre) (List.Forall₂.cons (RungStep.mark rg pos) (forall₂_refl_step m post))

/-- entries after the step come from entries before it, same rung level, same trial; an entry
not promoted afterwards was not promoted before -/
theorem MarkStep.entries {m : Mode} {rs rs' : List Rung} {o : SchedOut} (h : MarkStep m rs rs' o) :
    ∀ rg' ∈ rs', ∀ e' ∈ rg'.data,
      ∃ rg ∈ rs, rg.level = rg'.level ∧ ∃ e ∈ rg.data, e.tid = e'.tid ∧ (e'.promoted = false → e.promoted = false) := by
  obtain ⟨pre, rg, post, pos, e, h1, h2, h3, _, _, _⟩ := h
  rw [h1, h2]
  intro rg' hrg' e' he'
  simp only [List.mem_append, List.mem_cons] at hrg'
  rcases hrg' with hrg' | rfl | hrg'
  · exact ⟨rg', by simp [hrg'], rfl, e', he', rfl, fun h => h⟩
  · obtain ⟨hperm, hl, _⟩ := markPromoted_perm m rg pos e h3
    have h1 := hperm.mem_iff.mp he'
    rcases List.mem_cons.mp h1 with rfl | h1
    · exact ⟨rg, by simp, hl.symm, e, List.mem_of_getElem? h3, rfl, fun h => by simp at h⟩
    · have : e' ∈ e :: rg.data.eraseIdx pos := List.mem_cons_of_mem _ h1
      exact ⟨rg, by simp, hl.symm, e', (eraseIdx_perm rg.data pos e h3).mem_iff.mpr this, rfl, fun h => h⟩
  · exact ⟨rg', by simp [hrg'], rfl, e', he', rfl, fun h => h⟩

/-- the trial was paused in the rung of level `resumeFrom` and not promoted from it before;
afterwards it is recorded as promoted from it -/
theorem MarkStep.eligible {m : Mode} {rs rs' : List Rung} {o : SchedOut} (h : MarkStep m rs rs' o) :
    (∃ rg ∈ rs, rg.level = o.resumeFrom ∧ ∃ e ∈ rg.data, e.tid = o.trial ∧ e.promoted = false) ∧
    PromotedAt rs' o.resumeFrom o.trial := by
  obtain ⟨pre, rg, post, pos, e, h1, h2, h3, h4, h5, h6⟩ := h
  refine ⟨⟨rg, by rw [h1]; simp, h6, e, List.mem_of_getElem? h3, h4, h5⟩, ?_⟩
  refine ⟨markPromoted m rg pos, by rw [h2]; simp, ?_, ?_⟩
  · rw [(markPromoted_perm m rg pos e h3).2.1, h6]
  · rw [← h4]; exact markPromoted_promotedIn m rg pos e h3

/-! ### the successive-halving scan and the searcher's pick are `MarkStep`s -/

theorem promoScan_markStep (ty : HBType) (m : Mode) (numThr cap : Nat) (hint : Option Nat) (next : Nat)
    (thr : List (Nat × Rat)) (rs : List Rung) (o : SchedOut)
    (h : (promoScan ty m numThr cap hint next thr rs).out = some o) :
    MarkStep m rs (promoScan ty m numThr cap hint next thr rs).rungs o ∧
    (o.milestone = next ∨ ∃ rg ∈ rs, rg.level = o.milestone) := by
  obtain ⟨pre, rg, post, thr', pos, h1, h2, _, h4, h5, h6⟩ := promoScan_some ty m numThr cap hint next thr rs o h
  obtain ⟨e, g1, g2, g3⟩ := findPromotable_pick_spec ty m numThr thr' rg hint o.trial pos h4
  refine ⟨⟨pre, rg, post, pos, e, h1, h5, g1, g2, g3, h2⟩, ?_⟩
  rw [h6]
  cases hl : pre.getLast? with
  | none => exact Or.inl rfl
  | some p => exact Or.inr ⟨p, by rw [h1]; simp [List.mem_of_getLast? hl], rfl⟩

/-- what `dyhpoPromote` returns, read off its definition -/
theorem dyhpoPromote_spec (s s' : RungSys) (m : Mode) (t : Nat) (o : SchedOut)
    (h : s.dyhpoPromote m t = .ok (s', o)) :
    ∃ p i rg e, findPaused t s.pausedTrials = some p ∧
      alookup o.milestone (prevLevelPairs s.maxT s.rungs) = some o.resumeFrom ∧
      rungPos s.rungs o.resumeFrom = some i ∧ s.rungs[i]? = some rg ∧ rg.data[p.2.1]? = some e ∧
      e.promoted = false ∧ e.tid = t ∧ o.trial = t ∧ p.2.2 = o.milestone ∧
      s' = { s with rungs := s.rungs.set i (markPromoted m rg p.2.1) } := by
  unfold RungSys.dyhpoPromote at h
  cases hf : findPaused t s.pausedTrials with
  | none => simp [hf] at h
  | some p =>
    simp only [hf] at h
    cases hl : alookup p.2.2 (prevLevelPairs s.maxT s.rungs) with
    | none => simp [hl] at h
    | some rf =>
      simp only [hl] at h
      cases hr : rungPos s.rungs rf with
      | none => simp [hr] at h
      | some i =>
        simp only [hr] at h
        cases hg : s.rungs[i]? with
        | none => simp [hg] at h
        | some rg =>
          simp only [hg] at h
          cases hd : rg.data[p.2.1]? with
          | none => simp [hd] at h
          | some e =>
            simp only [hd] at h
            by_cases hp : e.promoted = true
            · simp [hp] at h
            · have hp' : e.promoted = false := by simpa using hp
              simp only [hp', Bool.false_eq_true, if_false] at h
              by_cases ht : e.tid = t
              · simp only [ht, ne_eq, not_true_eq_false, if_false] at h
                injection h with h
                injection h with h1 h2
                subst h2
                exact ⟨p, i, rg, e, rfl, hl, hr, hg, hd, hp', ht, rfl, rfl, h1.symm⟩
              · simp [ht] at h

theorem dyhpoPromote_markStep (s s' : RungSys) (m : Mode) (t : Nat) (o : SchedOut)
    (h : s.dyhpoPromote m t = .ok (s', o)) :
    MarkStep m s.rungs s'.rungs o ∧ s'.running = s.running ∧ s'.maxT = s.maxT ∧ o.trial = t ∧
    (o.milestone = s.maxT ∨ ∃ rg ∈ s.rungs, rg.level = o.milestone) := by
  obtain ⟨p, i, rg, e, _, h2, h3, h4, h5, h6, h7, h8, _, h10⟩ := dyhpoPromote_spec s s' m t o h
  obtain ⟨rg0, g1, g2, _⟩ := rungPos_some s.rungs o.resumeFrom i h3
  rw [h4] at g1; injection g1 with g1; subst g1
  obtain ⟨pre, post, k1, _, k3⟩ := split_of_getElem? s.rungs i rg h4
  subst h10
  refine ⟨⟨pre, rg, post, p.2.1, e, k1, k3 _, h5, by rw [h7, h8], h6, g2⟩, rfl, rfl, h8, ?_⟩
  exact (prevLevelPairs_key s.maxT s.rungs _ _ h2).1

/-- **`DyHPORungSystem.on_task_schedule`, effect on the rung system.**  `_running` and `max_t`
are untouched; without a promotion no rung changes; a promotion (by the SH rule or by the
searcher's pick) is a `MarkStep` and its milestone is `max_t` or a rung level. -/
theorem dyhpoSchedule_effect (s s' : RungSys) (m : Mode) (sh : Bool) (hint pick : Option Nat)
    (so : Option SchedOut) (fr : Bool) (h : s.dyhpoSchedule m sh hint pick = .ok (s', so, fr)) :
    s'.running = s.running ∧ s'.maxT = s.maxT ∧
    (so = none → s'.rungs = s.rungs) ∧
    (∀ o, so = some o → MarkStep m s.rungs s'.rungs o ∧
      (o.milestone = s.maxT ∨ ∃ rg ∈ s.rungs, rg.level = o.milestone)) := by
  unfold RungSys.dyhpoSchedule at h
  -- the state after the (optional) SH scan
  have hsh : ∀ r : RungSys × Option SchedOut × Bool,
      r = (if sh then s.promoSchedule .promotion m hint else (s, none, false)) →
      r.1.running = s.running ∧ r.1.maxT = s.maxT ∧ (r.2.1 = none → r.1.rungs = s.rungs) ∧
      (∀ o, r.2.1 = some o → MarkStep m s.rungs r.1.rungs o ∧
        (o.milestone = s.maxT ∨ ∃ rg ∈ s.rungs, rg.level = o.milestone)) := by
    intro r hr
    cases sh with
    | false =>
      simp only [Bool.false_eq_true, if_false] at hr
      subst hr
      exact ⟨rfl, rfl, fun _ => rfl, fun o ho => (by cases ho)⟩
    | true =>
      simp only [if_true] at hr
      subst hr
      unfold RungSys.promoSchedule
      refine ⟨rfl, rfl, ?_, ?_⟩
      · intro hn
        exact (promoScan_unpromoted_any .promotion m s.numThr (s.cap .promotion) hint s.maxT s.thresholds s.rungs).2 hn
      · intro o ho
        exact promoScan_markStep .promotion m s.numThr (s.cap .promotion) hint s.maxT s.thresholds s.rungs o ho
  generalize hr : (if sh then s.promoSchedule .promotion m hint else (s, none, false)) = r at h
  obtain ⟨r1, r2, r3, r4⟩ := hsh r hr.symm
  obtain ⟨s1, so1, fr1⟩ := r
  simp only at h r1 r2 r3 r4
  cases so1 with
  | some o1 =>
    simp only at h
    injection h with h
    simp only [Prod.mk.injEq] at h
    obtain ⟨e1, e2, _⟩ := h
    subst e1; subst e2
    exact ⟨r1, r2, fun hn => (by cases hn), fun o ho => (by injection ho with ho; subst ho; exact r4 o1 rfl)⟩
  | none =>
    simp only at h
    have hrs := r3 rfl
    cases pick with
    | none =>
      simp only at h
      injection h with h
      simp only [Prod.mk.injEq] at h
      obtain ⟨e1, e2, _⟩ := h
      subst e1; subst e2
      exact ⟨r1, r2, fun _ => hrs, fun o ho => (by cases ho)⟩
    | some t =>
      simp only at h
      cases hp : s1.dyhpoPromote m t with
      | error e => simp [hp] at h
      | ok res =>
        obtain ⟨s2, o2⟩ := res
        simp only [hp] at h
        injection h with h
        simp only [Prod.mk.injEq] at h
        obtain ⟨e1, e2, _⟩ := h
        subst e1; subst e2
        obtain ⟨k1, k2, k3, _, k5⟩ := dyhpoPromote_markStep s1 s2 m t o2 hp
        rw [hrs] at k1 k5
        rw [r2] at k5
        exact ⟨k2.trans r1, k3.trans r2, fun hn => (by cases hn),
          fun o ho => (by injection ho with ho; subst ho; exact ⟨k1, k5⟩)⟩

end SyneTune.DyHPO
