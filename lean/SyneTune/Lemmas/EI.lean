import SyneTune.Model.GPExec
import Mathlib.Analysis.SpecialFunctions.ExpDeriv
import Mathlib.Analysis.SpecialFunctions.Trigonometric.Basic
import Mathlib.Analysis.Calculus.Deriv.Mul
import Mathlib.Analysis.Calculus.Deriv.Inv
import Mathlib.Analysis.Calculus.Deriv.Add
import Mathlib.Analysis.Calculus.Deriv.Pow
import Mathlib.Analysis.Calculus.Deriv.MeanValue
import Mathlib.Algebra.BigOperators.Fin
import Mathlib.Algebra.BigOperators.Field
import Mathlib.Topology.Algebra.Order.Field
/-
Helper lemmas for C09: the Gaussian density `φ`, the function `u Φ(u) + φ(u)` of expected
improvement, its derivative, its sign, and the total derivative of the EI / LCB heads of
`meanstd_acqfunc_impl.py` along an arbitrary differentiable curve of predictive
means / standard deviation.

`Φ` is abstract: the code's `0.5 * erfc(-u / sqrt(2))` is trusted to satisfy `Φ' = φ`
(and `Φ → 0` at `-∞` for the sign statement).
-/
set_option linter.unusedSectionVars false
set_option linter.unusedSimpArgs false
namespace SyneTune.EI
open SyneTune.GP Filter Topology

/-- `phi = np.exp(-0.5 * u**2) / np.sqrt(2 * np.pi)` -/
noncomputable def phi (u : ℝ) : ℝ := Real.exp (-(1 / 2) * u ^ 2) / Real.sqrt (2 * Real.pi)

theorem sqrt_two_pi_pos : 0 < Real.sqrt (2 * Real.pi) :=
  Real.sqrt_pos.mpr (by positivity)

theorem phi_pos (u : ℝ) : 0 < phi u := div_pos (Real.exp_pos _) sqrt_two_pi_pos

/-- `φ'(u) = −u φ(u)` -/
theorem phi_hasDerivAt (u : ℝ) : HasDerivAt phi (-u * phi u) u := by
  have h0 : HasDerivAt (fun u : ℝ => u ^ 2) (2 * u) u := by
    simpa using hasDerivAt_pow 2 u
  have h1 : HasDerivAt (fun u : ℝ => -(1 / 2) * u ^ 2) (-(1 / 2) * (2 * u)) u := h0.const_mul _
  have h2 : HasDerivAt (fun u : ℝ => Real.exp (-(1 / 2) * u ^ 2) / Real.sqrt (2 * Real.pi))
      (Real.exp (-(1 / 2) * u ^ 2) * (-(1 / 2) * (2 * u)) / Real.sqrt (2 * Real.pi)) u :=
    (h1.exp).div_const _
  refine h2.congr_deriv ?_
  unfold phi
  ring

theorem phi_le (u : ℝ) : phi u ≤ 1 / Real.sqrt (2 * Real.pi) := by
  unfold phi
  apply div_le_div_of_nonneg_right _ sqrt_two_pi_pos.le
  rw [Real.exp_le_one_iff]
  nlinarith [sq_nonneg u]

section g
variable (Φ : ℝ → ℝ) (hΦ : ∀ u, HasDerivAt Φ (phi u) u)

/-- `d/du (u Φ(u) + φ(u)) = Φ(u)` -/
theorem g_hasDerivAt (hΦ : ∀ u, HasDerivAt Φ (phi u) u) (u : ℝ) :
    HasDerivAt (fun u => u * Φ u + phi u) (Φ u) u := by
  have h : HasDerivAt (fun u => u * Φ u + phi u) (1 * Φ u + u * phi u + -u * phi u) u :=
    ((hasDerivAt_id' u).fun_mul (hΦ u)).fun_add (phi_hasDerivAt u)
  refine h.congr_deriv ?_
  ring

/-- `Φ` is monotone and tends to `0` at `−∞`, hence non-negative -/
theorem Phi_nonneg (hΦ : ∀ u, HasDerivAt Φ (phi u) u) (hlim : Tendsto Φ atBot (𝓝 0)) (u : ℝ) :
    0 ≤ Φ u := by
  have hmono : Monotone Φ := by
    apply monotone_of_deriv_nonneg (fun x => (hΦ x).differentiableAt)
    intro x; rw [(hΦ x).deriv]; exact (phi_pos x).le
  exact le_of_tendsto hlim ((eventually_le_atBot u).mono fun y hy => hmono hy)

/-- Mills-ratio bound `(-u) Φ(u) ≤ φ(u)` for `u < 0`. -/
theorem mills (hΦ : ∀ u, HasDerivAt Φ (phi u) u) (hlim : Tendsto Φ atBot (𝓝 0)) {u : ℝ} (hu : u < 0) :
    -u * Φ u ≤ phi u := by
  -- r(y) = φ(y)/(−y) − Φ(y) is monotone on (−∞, 0) and tends to 0 at −∞
  let r : ℝ → ℝ := fun y => phi y / (-y) - Φ y
  have hr : ∀ y, y < 0 → HasDerivAt r (phi y / y ^ 2) y := by
    intro y hy
    have hne : -y ≠ 0 := by linarith
    have h1 : HasDerivAt (fun y => phi y / (-y) - Φ y)
        ((-y * phi y * (-y) - phi y * (-1)) / (-y) ^ 2 - phi y) y :=
      ((phi_hasDerivAt y).fun_div (hasDerivAt_neg' y) hne).fun_sub (hΦ y)
    refine h1.congr_deriv ?_
    have hy2 : y ≠ 0 := ne_of_lt hy
    field_simp
    ring
  have hmono : MonotoneOn r (Set.Iio 0) := by
    apply monotoneOn_of_deriv_nonneg (convex_Iio 0)
    · intro y hy
      exact (hr y hy).continuousAt.continuousWithinAt
    · rw [interior_Iio]
      intro y hy
      exact (hr y hy).differentiableAt.differentiableWithinAt
    · rw [interior_Iio]
      intro y hy
      rw [(hr y hy).deriv]
      exact div_nonneg (phi_pos y).le (sq_nonneg y)
  have hlim_r : Tendsto r atBot (𝓝 0) := by
    have h1 : Tendsto (fun y : ℝ => phi y / (-y)) atBot (𝓝 0) := by
      have hb : Tendsto (fun y : ℝ => (1 / Real.sqrt (2 * Real.pi)) / (-y)) atBot (𝓝 0) :=
        tendsto_neg_atBot_atTop.const_div_atTop _
      apply squeeze_zero' _ _ hb
      · filter_upwards [eventually_lt_atBot (0 : ℝ)] with y hy
        exact div_nonneg (phi_pos y).le (by linarith)
      · filter_upwards [eventually_lt_atBot (0 : ℝ)] with y hy
        exact div_le_div_of_nonneg_right (phi_le y) (by linarith)
    have := h1.sub hlim
    simpa using this
  have h0 : 0 ≤ r u := by
    apply le_of_tendsto hlim_r
    filter_upwards [eventually_le_atBot u] with y hy
    exact hmono (lt_of_le_of_lt hy hu) hu hy
  have hpos : 0 < -u := by linarith
  have : Φ u ≤ phi u / (-u) := by
    have : 0 ≤ phi u / (-u) - Φ u := h0
    linarith
  calc -u * Φ u ≤ -u * (phi u / (-u)) := mul_le_mul_of_nonneg_left this hpos.le
    _ = phi u := by have hu0 : u ≠ 0 := ne_of_lt hu; field_simp

/-- **expected improvement is non-negative**: `u Φ(u) + φ(u) ≥ 0` for every `u`, from
`Φ' = φ` and `Φ → 0` at `−∞` alone. -/
theorem g_nonneg (hΦ : ∀ u, HasDerivAt Φ (phi u) u) (hlim : Tendsto Φ atBot (𝓝 0)) (u : ℝ) :
    0 ≤ u * Φ u + phi u := by
  rcases lt_or_ge u 0 with hu | hu
  · have := mills Φ hΦ hlim hu
    linarith
  · have := mul_nonneg hu (Phi_nonneg Φ hΦ hlim u)
    have := phi_pos u
    linarith

end g

/-! ### total derivatives of the heads -/

theorem sumFin_eq (nf : ℕ) (f : Fin nf → ℝ) : sumFin f = ∑ j, f j := by
  unfold sumFin; exact List.sum_ofFn

/-- the EI head as a function of the predictive means `μ` (one per fantasy column) and the
standard deviation `s`: `get_quantiles` followed by `_compute_head_and_gradient`. -/
noncomputable def eiHeadAt (Φ : ℝ → ℝ) {nf : ℕ} (best : Fin nf → ℝ) (jit : ℝ) (μ : Fin nf → ℝ) (s : ℝ) :
    HeadGrad ℝ nf :=
  eiHeadGrad s (fun j => eiU (best j) (μ j) jit s) (fun j => Φ (eiU (best j) (μ j) jit s))
    (fun j => phi (eiU (best j) (μ j) jit s))

/-- the same for `_compute_head` (value only) -/
noncomputable def eiValueAt (Φ : ℝ → ℝ) {nf : ℕ} (best : Fin nf → ℝ) (jit : ℝ) (μ : Fin nf → ℝ) (s : ℝ) : ℝ :=
  eiHead s (fun j => eiU (best j) (μ j) jit s) (fun j => Φ (eiU (best j) (μ j) jit s))
    (fun j => phi (eiU (best j) (μ j) jit s))

/-- one fantasy column: `x ↦ σ(x) · (U Φ(U) + φ(U))`, `U = (best − μ(x) − jit)/σ(x)`, has
derivative `φ(U) σ' − Φ(U) μ'`. -/
theorem ei_term_hasDerivAt (Φ : ℝ → ℝ) (hΦ : ∀ u, HasDerivAt Φ (phi u) u) (best jit : ℝ)
    (μ σ : ℝ → ℝ) (μ' σ' x : ℝ) (hμ : HasDerivAt μ μ' x) (hσ : HasDerivAt σ σ' x) (hs : σ x ≠ 0) :
    HasDerivAt (fun y => σ y * (eiU best (μ y) jit (σ y) * Φ (eiU best (μ y) jit (σ y))
        + phi (eiU best (μ y) jit (σ y))))
      (phi (eiU best (μ x) jit (σ x)) * σ' - Φ (eiU best (μ x) jit (σ x)) * μ') x := by
  have hU : HasDerivAt (fun y => eiU best (μ y) jit (σ y))
      (((0 - μ' - 0) * σ x - (best - μ x - jit) * σ') / σ x ^ 2) x := by
    unfold eiU
    exact (((hasDerivAt_const x best).fun_sub hμ).fun_sub (hasDerivAt_const x jit)).fun_div hσ hs
  have hg : HasDerivAt (fun y => eiU best (μ y) jit (σ y) * Φ (eiU best (μ y) jit (σ y))
        + phi (eiU best (μ y) jit (σ y)))
      (Φ (eiU best (μ x) jit (σ x)) * (((0 - μ' - 0) * σ x - (best - μ x - jit) * σ') / σ x ^ 2)) x := by
    have hg0 := g_hasDerivAt Φ hΦ (eiU best (μ x) jit (σ x))
    have := HasDerivAt.comp x hg0 hU
    exact this
  have h := hσ.fun_mul hg
  refine h.congr_deriv ?_
  unfold eiU
  field_simp
  ring

/-- **EI head, total derivative.**  Along any differentiable curve `x ↦ (μ₁(x),…,μ_nf(x), σ(x))`
of predictive means and standard deviation with `σ(x) ≠ 0`, the value `hval` returned by
`_compute_head_and_gradient` (with `Phi = Φ(u)`, `phi = φ(u)` evaluated at the code's `u`) has
derivative `Σⱼ dh_dmeanⱼ · μⱼ' + dh_dstd · σ'`. -/
theorem ei_head_hasDerivAt (Φ : ℝ → ℝ) (hΦ : ∀ u, HasDerivAt Φ (phi u) u) (nf : ℕ)
    (best : Fin nf → ℝ) (jit : ℝ) (μ : Fin nf → ℝ → ℝ) (σ : ℝ → ℝ) (μ' : Fin nf → ℝ) (σ' x : ℝ)
    (hμ : ∀ j, HasDerivAt (μ j) (μ' j) x) (hσ : HasDerivAt σ σ' x) (hs : σ x ≠ 0) :
    HasDerivAt (fun y => (eiHeadAt Φ best jit (fun j => μ j y) (σ y)).hval)
      (∑ j, (eiHeadAt Φ best jit (fun j => μ j x) (σ x)).dmean j * μ' j
        + (eiHeadAt Φ best jit (fun j => μ j x) (σ x)).dstd * σ') x := by
  have hterm := fun j => ei_term_hasDerivAt Φ hΦ (best j) jit (μ j) σ (μ' j) σ' x (hμ j) hσ hs
  have hsum := HasDerivAt.fun_sum (u := Finset.univ) (fun j _ => hterm j)
  have h := (hsum.div_const (nf : ℝ)).fun_neg
  simp only [eiHeadAt, eiHeadGrad, sumFin_eq]
  refine h.congr_deriv ?_
  rw [Finset.sum_div, Finset.sum_div, Finset.sum_mul, ← Finset.sum_add_distrib, ← Finset.sum_neg_distrib]
  refine Finset.sum_congr rfl fun j _ => ?_
  ring

/-- the LCB head as a function of `(μ, s)` -/
noncomputable def lcbHeadAt {nf : ℕ} (kappa : ℝ) (μ : Fin nf → ℝ) (s : ℝ) : HeadGrad ℝ nf := lcbHeadGrad kappa s μ

/-- **LCB head, total derivative.** -/
theorem lcb_head_hasDerivAt (nf : ℕ) (hnf : 0 < nf) (kappa : ℝ) (μ : Fin nf → ℝ → ℝ) (σ : ℝ → ℝ)
    (μ' : Fin nf → ℝ) (σ' x : ℝ) (hμ : ∀ j, HasDerivAt (μ j) (μ' j) x) (hσ : HasDerivAt σ σ' x) :
    HasDerivAt (fun y => (lcbHeadAt kappa (fun j => μ j y) (σ y)).hval)
      (∑ j, (lcbHeadAt kappa (fun j => μ j x) (σ x)).dmean j * μ' j
        + (lcbHeadAt kappa (fun j => μ j x) (σ x)).dstd * σ') x := by
  have hterm := fun j => (hμ j).fun_sub (hσ.mul_const kappa)
  have hsum := HasDerivAt.fun_sum (u := Finset.univ) (fun j _ => hterm j)
  have h := hsum.div_const (nf : ℝ)
  simp only [lcbHeadAt, lcbHeadGrad, sumFin_eq]
  refine h.congr_deriv ?_
  have hn : (nf : ℝ) ≠ 0 := by exact_mod_cast hnf.ne'
  rw [Finset.sum_sub_distrib, Finset.sum_const, Finset.card_univ, Fintype.card_fin, nsmul_eq_mul,
    ← Finset.mul_sum]
  field_simp
  ring

end SyneTune.EI
