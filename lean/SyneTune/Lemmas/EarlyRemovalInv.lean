import SyneTune.Lemmas.EarlyRemoval
/-
Lemmas about `Model/EarlyRemoval.lean`, part 2: what one operation does to the books, phrased
against the observable trace entry `(op, output)`; the invariants over all histories.
-/
namespace SyneTune.Early
open SyneTune

/-! ### the specification functions on a trace extended by one entry -/

theorem lastTouch_snoc (t : Nat) (tr : List (Op × Out)) (x : Op × Out) :
    lastTouch t (tr ++ [x]) = if touches t x = true then some x else lastTouch t tr := by
  simp only [lastTouch, List.reverse_append, List.reverse_cons, List.reverse_nil, List.nil_append,
    List.singleton_append, List.find?_cons]
  cases touches t x <;> simp

theorem specStatus_snoc (t : Nat) (tr : List (Op × Out)) (x : Op × Out) :
    specStatus t (tr ++ [x]) = if touches t x = true then some (statusAfter x) else specStatus t tr := by
  unfold specStatus
  rw [lastTouch_snoc]
  split <;> rfl

theorem specRemoved_snoc (t : Nat) (tr : List (Op × Out)) (x : Op × Out) :
    specRemoved t (tr ++ [x]) = if touches t x = true then levelIn t x else specRemoved t tr := by
  unfold specRemoved
  rw [lastTouch_snoc]
  split <;> rfl

theorem specRes_snoc (tr : List (Op × Out)) (x : Op × Out) :
    specRes (tr ++ [x]) = specRes tr ++
      (match x.1 with
       | .resume t => (match specRemoved t tr with | some l => [(t, l)] | none => [])
       | _ => []) := by
  obtain ⟨op, o⟩ := x
  unfold specRes
  simp only [List.reverse_append, List.reverse_cons, List.reverse_nil, List.nil_append, List.singleton_append]
  cases op <;> simp [specResR] <;> rfl

theorem deletedIds_append (a b : List (Op × Out)) : deletedIds (a ++ b) = deletedIds a ++ deletedIds b := by
  induction a with
  | nil => rfl
  | cons x a ih =>
    obtain ⟨op, o⟩ := x
    cases o <;> simp [deletedIds, ih]

theorem specRemoved_some_status {t : Nat} {tr : List (Op × Out)} {l : Nat} (h : specRemoved t tr = some l) :
    specStatus t tr = some .pausedNoCp := by
  unfold specRemoved at h
  unfold specStatus
  cases hl : lastTouch t tr with
  | none => simp [hl] at h
  | some x =>
    obtain ⟨op, o⟩ := x
    simp only [hl, Option.bind_some] at h
    cases op with
    | loopEnd paused picks => simp [statusAfter]
    | _ => simp [levelIn] at h

/-! ### one operation, the status map -/

theorem resume_status (s : State) (u : Nat) : (resume s u).status = aset u .running s.status := by
  unfold resume; split <;> rfl

theorem resume_removed_lookup (s : State) (u t : Nat) :
    alookup t (resume s u).removed = if t = u then none else alookup t s.removed := by
  unfold resume
  split
  · simp only [alookup_aerase]
  · rename_i hn
    by_cases h : t = u
    · subst h; simp [hn]
    · simp [h]

theorem result_status (s : State) (u : Nat) (d : Decision) :
    (result s u d).status = aset u (statusAfter (.result u d, .done)) s.status := by
  cases d <;> rfl

theorem mem_ids_isSome {t : Nat} {pk : List (Nat × Nat)} (h : t ∈ pk.map (·.1)) : (alookup t pk).isSome = true := by
  induction pk with
  | nil => simp at h
  | cons e rest ih =>
    obtain ⟨k, l⟩ := e
    by_cases hk : t = k
    · simp [alookup, hk]
    · simp only [List.map_cons, List.mem_cons, hk, false_or] at h
      simp [alookup, hk, ih h]

theorem step_status (p : Params) (s : State) (op : Op) (t : Nat) :
    (step p s op).1.statusOf t =
      if touches t (op, (step p s op).2) = true then some (statusAfter (op, (step p s op).2)) else s.statusOf t := by
  cases op with
  | start u =>
    simp only [step, State.statusOf, alookup_aset, touches, statusAfter, beq_iff_eq]
    by_cases h : t = u
    · subst h; simp
    · have : ¬ u = t := fun e => h e.symm
      simp [h, this]
  | resume u =>
    simp only [step, State.statusOf, resume_status, alookup_aset, touches, statusAfter, beq_iff_eq]
    by_cases h : t = u
    · subst h; simp
    · have : ¬ u = t := fun e => h e.symm
      simp [h, this]
  | result u d =>
    simp only [step, State.statusOf, result_status, alookup_aset, touches, beq_iff_eq]
    by_cases h : t = u
    · subst h; cases d <;> simp [statusAfter]
    · have : ¬ u = t := fun e => h e.symm
      simp [h, this]
  | complete u =>
    simp only [step, State.statusOf, alookup_aset, touches, statusAfter, beq_iff_eq]
    by_cases h : t = u
    · subst h; simp
    · have : ¬ u = t := fun e => h e.symm
      simp [h, this]
  | loopEnd paused picks =>
    have aux : ∀ r, LoopEndCase p s paused picks r → r.1.statusOf t =
        if touches t (.loopEnd paused picks, r.2) = true then some (statusAfter (.loopEnd paused picks, r.2))
        else s.statusOf t := by
      intro r hc
      cases hc with
      | within h => simp [touches]
      | raised h he hv => simp [touches]
      | oracleRaised h hne hp => simp [touches]
      | rejected h hne pk hp e => simp [touches]
      | removed h hne pk hp hlen hmem hnd =>
        simp only [foldl_removeCp_status, touches, statusAfter, List.contains_iff_mem]
    exact aux _ (loopEnd_cases p s paused picks)

/-! ### one operation, the map of removed checkpoints -/

/-- what the two clauses of `OpOK` about single trials give, in terms of the removed map -/
def OpOKr (s : State) : Op → Prop
  | .start t => alookup t s.removed = none
  | .result t .continue => alookup t s.removed = none
  | _ => True

theorem step_removed (p : Params) (s : State) (op : Op) (t : Nat) (hok : OpOKr s op) :
    alookup t (step p s op).1.removed =
      if touches t (op, (step p s op).2) = true then levelIn t (op, (step p s op).2) else alookup t s.removed := by
  cases op with
  | start u =>
    simp only [step, touches, levelIn, beq_iff_eq]
    by_cases h : u = t
    · subst h; simpa [OpOKr] using hok
    · simp [h]
  | resume u =>
    simp only [step, resume_removed_lookup, touches, levelIn, beq_iff_eq]
    by_cases h : t = u
    · subst h; simp
    · have : ¬ u = t := fun e => h e.symm
      simp [h, this]
  | result u d =>
    cases d with
    | «continue» =>
      simp only [step, result, touches, levelIn, beq_iff_eq]
      by_cases h : u = t
      · subst h; simpa [OpOKr] using hok
      · simp [h]
    | pause =>
      simp only [step, result, alookup_aerase, touches, levelIn, beq_iff_eq]
      by_cases h : t = u
      · subst h; simp
      · have : ¬ u = t := fun e => h e.symm
        simp [h, this]
    | stop =>
      simp only [step, result, alookup_aerase, touches, levelIn, beq_iff_eq]
      by_cases h : t = u
      · subst h; simp
      · have : ¬ u = t := fun e => h e.symm
        simp [h, this]
  | complete u =>
    simp only [step, alookup_aerase, touches, levelIn, beq_iff_eq]
    by_cases h : t = u
    · subst h; simp
    · have : ¬ u = t := fun e => h e.symm
      simp [h, this]
  | loopEnd paused picks =>
    have aux : ∀ r, LoopEndCase p s paused picks r → alookup t r.1.removed =
        if touches t (.loopEnd paused picks, r.2) = true then levelIn t (.loopEnd paused picks, r.2)
        else alookup t s.removed := by
      intro r hc
      cases hc with
      | within h => simp [touches]
      | raised h he hv => simp [touches]
      | oracleRaised h hne hp => simp [touches]
      | rejected h hne pk hp e => simp [touches]
      | removed h hne pk hp hlen hmem hnd =>
        subst hp
        simp only [foldl_removeCp_removed _ _ _ hnd, touches, levelIn, List.contains_iff_mem]
    exact aux _ (loopEnd_cases p s paused picks)

/-- PAUSED_NO_CHECKPOINT ⇒ recorded in the removed map: kept by every operation, no contract -/
theorem step_noCp_has_entry (p : Params) (s : State) (op : Op)
    (hI : ∀ t, s.statusOf t = some .pausedNoCp → (alookup t s.removed).isSome = true) :
    ∀ t, (step p s op).1.statusOf t = some .pausedNoCp → (alookup t (step p s op).1.removed).isSome = true := by
  intro t ht
  rw [step_status] at ht
  cases op with
  | start u =>
    simp only [touches, statusAfter, beq_iff_eq] at ht
    by_cases h : u = t
    · simp [h] at ht
    · simp only [h, if_false] at ht
      exact hI t ht
  | resume u =>
    simp only [touches, statusAfter, beq_iff_eq] at ht
    by_cases h : u = t
    · simp [h] at ht
    · simp only [h, if_false] at ht
      have h' : ¬ t = u := fun e => h e.symm
      simp only [step, resume_removed_lookup, h', if_false]
      exact hI t ht
  | result u d =>
    simp only [touches, beq_iff_eq] at ht
    by_cases h : u = t
    · cases d <;> simp [h, statusAfter] at ht
    · simp only [h, if_false] at ht
      have h' : t ≠ u := fun e => h e.symm
      cases d with
      | «continue» => exact hI t ht
      | pause => simp only [step, result, alookup_aerase_ne _ h']; exact hI t ht
      | stop => simp only [step, result, alookup_aerase_ne _ h']; exact hI t ht
  | complete u =>
    simp only [touches, statusAfter, beq_iff_eq] at ht
    by_cases h : u = t
    · simp [h] at ht
    · simp only [h, if_false] at ht
      have h' : t ≠ u := fun e => h e.symm
      simp only [step, alookup_aerase_ne _ h']
      exact hI t ht
  | loopEnd paused picks =>
    have aux : ∀ r, LoopEndCase p s paused picks r →
        (if touches t (.loopEnd paused picks, r.2) = true then some (statusAfter (.loopEnd paused picks, r.2))
         else s.statusOf t) = some .pausedNoCp → (alookup t r.1.removed).isSome = true := by
      intro r hc ht
      cases hc with
      | within h => exact hI t (by simpa [touches] using ht)
      | raised h he hv => exact hI t (by simpa [touches] using ht)
      | oracleRaised h hne hp => exact hI t (by simpa [touches] using ht)
      | rejected h hne pk hp e => exact hI t (by simpa [touches] using ht)
      | removed h hne pk hp hlen hmem hnd =>
        simp only [touches, List.contains_iff_mem] at ht
        rw [foldl_removeCp_removed _ _ _ hnd]
        by_cases hm : t ∈ pk.map (·.1)
        · simp only [hm, if_true]; exact mem_ids_isSome hm
        · simp only [hm, if_false] at ht ⊢; exact hI t ht
    exact aux _ (loopEnd_cases p s paused picks) ht

theorem step_keys_nodup (p : Params) (s : State) (op : Op) (h : (s.status.map (·.1)).Nodup) :
    ((step p s op).1.status.map (·.1)).Nodup := by
  cases op with
  | start u => exact keys_nodup_aset _ _ _ h
  | resume u => simp only [step, resume_status]; exact keys_nodup_aset _ _ _ h
  | result u d => simp only [step, result_status]; exact keys_nodup_aset _ _ _ h
  | complete u => exact keys_nodup_aset _ _ _ h
  | loopEnd paused picks =>
    simp only [step]
    have hc := loopEnd_cases p s paused picks
    generalize loopEnd p s paused picks = r at hc ⊢
    cases hc with
    | removed hh hne pk hp hlen hmem hnd => exact foldl_removeCp_keys_nodup _ _ h
    | _ => exact h

/-! ### one operation, the counters -/

theorem step_numResumed (p : Params) (s : State) (op : Op) :
    (step p s op).1.numResumed = s.numResumed + (if isResume op = true then 1 else 0) := by
  cases op with
  | resume u => simp only [step, resume, isResume]; split <;> simp
  | result u d => cases d <;> simp [step, result, isResume]
  | loopEnd paused picks =>
    simp only [step, isResume]
    have hc := loopEnd_cases p s paused picks
    generalize loopEnd p s paused picks = r at hc ⊢
    cases hc with
    | removed hh hne pk hp hlen hmem hnd => simp [foldl_removeCp_numResumed]
    | _ => simp
  | _ => simp [step, isResume]

theorem step_numRemoved (p : Params) (s : State) (op : Op) :
    (step p s op).1.numRemoved = s.numRemoved + (deletedIds [(op, (step p s op).2)]).length := by
  cases op with
  | resume u => simp only [step, resume, deletedIds]; split <;> simp
  | result u d => cases d <;> simp [step, result, deletedIds]
  | loopEnd paused picks =>
    simp only [step]
    have hc := loopEnd_cases p s paused picks
    generalize loopEnd p s paused picks = r at hc ⊢
    cases hc with
    | removed hh hne pk hp hlen hmem hnd => simp [foldl_removeCp_numRemoved, deletedIds]
    | _ => simp [deletedIds]
  | _ => simp [step, deletedIds]

theorem step_resumedNoCp (p : Params) (s : State) (op : Op) :
    (step p s op).1.resumedNoCp = s.resumedNoCp ++
      (match op with
       | .resume t => (match alookup t s.removed with | some l => [(t, l)] | none => [])
       | _ => []) := by
  cases op with
  | resume u => simp only [step, resume]; split <;> simp [*]
  | result u d => cases d <;> simp [step, result]
  | loopEnd paused picks =>
    simp only [step]
    have hc := loopEnd_cases p s paused picks
    generalize loopEnd p s paused picks = r at hc ⊢
    cases hc with
    | removed hh hne pk hp hlen hmem hnd => simp [foldl_removeCp_resumedNoCp]
    | _ => simp
  | _ => simp [step]

/-! ### invariants over all histories -/

/-- the status map is the last concerning entry of the trace, for every history (no contract) -/
theorem status_spec (p : Params) (h : List Op) (t : Nat) : (run p h).statusOf t = specStatus t (trace p h) := by
  induction h using snoc_induction with
  | h0 => rfl
  | hs h op ih => rw [run_snoc, trace_snoc, specStatus_snoc, step_status, ih]

theorem noCp_has_entry (p : Params) (h : List Op) :
    ∀ t, (run p h).statusOf t = some .pausedNoCp → (alookup t (run p h).removed).isSome = true := by
  induction h using snoc_induction with
  | h0 => intro t ht; simp [run_nil, State.init, State.statusOf, alookup] at ht
  | hs h op ih => rw [run_snoc]; exact step_noCp_has_entry p _ op ih

theorem keys_nodup (p : Params) (h : List Op) : ((run p h).status.map (·.1)).Nodup := by
  induction h using snoc_induction with
  | h0 => simp [run_nil, State.init]
  | hs h op ih => rw [run_snoc]; exact step_keys_nodup p _ op ih

/-- `OpOK` in the form the removed map needs, given that the removed map is already exact -/
theorem opOKr_of_opOK (p : Params) (h : List Op) (op : Op)
    (ih : ∀ t, alookup t (run p h).removed = specRemoved t (trace p h)) (hok : OpOK (run p h) op) :
    OpOKr (run p h) op := by
  have key : ∀ u, (run p h).statusOf u ≠ some .pausedNoCp → alookup u (run p h).removed = none := by
    intro u hu
    cases hl : alookup u (run p h).removed with
    | none => rfl
    | some l =>
      exfalso; apply hu
      rw [status_spec]
      exact specRemoved_some_status (l := l) (by rw [← ih, hl])
  cases op with
  | start u => exact key u hok
  | result u d =>
    cases d with
    | «continue» => exact key u hok
    | _ => trivial
  | _ => trivial

/-- the removed map is read off the trace, for every legal history -/
theorem removed_spec (p : Params) (h : List Op) (hl : Legal p h) (t : Nat) :
    alookup t (run p h).removed = specRemoved t (trace p h) := by
  induction h using snoc_induction generalizing t with
  | h0 => rfl
  | hs h op ih =>
    obtain ⟨hl1, hok⟩ := (legal_snoc p h op).1 hl
    have ih' := ih hl1
    rw [run_snoc, trace_snoc, specRemoved_snoc, step_removed p _ op t (opOKr_of_opOK p h op ih' hok), ih']

theorem numResumed_spec (p : Params) (h : List Op) : (run p h).numResumed = (h.filter isResume).length := by
  induction h using snoc_induction with
  | h0 => rfl
  | hs h op ih =>
    rw [run_snoc, step_numResumed, ih, List.filter_append, List.length_append]
    cases hr : isResume op <;> simp [List.filter, hr]

theorem numRemoved_spec (p : Params) (h : List Op) : (run p h).numRemoved = (deletedIds (trace p h)).length := by
  induction h using snoc_induction with
  | h0 => rfl
  | hs h op ih => rw [run_snoc, trace_snoc, deletedIds_append, List.length_append, step_numRemoved, ih]

theorem resumedNoCp_spec (p : Params) (h : List Op) (hl : Legal p h) :
    (run p h).resumedNoCp = specRes (trace p h) := by
  induction h using snoc_induction with
  | h0 => rfl
  | hs h op ih =>
    obtain ⟨hl1, _⟩ := (legal_snoc p h op).1 hl
    rw [run_snoc, trace_snoc, specRes_snoc, step_resumedNoCp, ih hl1]
    cases op with
    | resume u => simp only [removed_spec p h hl1 u]
    | _ => rfl

/-! ### one `on_loop_end` -/

/-- every id handed to `delete_checkpoint` is PAUSED_WITH_CHECKPOINT in the state the loop end
finds, and no id is handed over twice -/
theorem loopEnd_deleted (p : Params) (s : State) (paused : List (Nat × Nat)) (picks : Option (List (Nat × Nat)))
    (hI : ∀ t, s.statusOf t = some .pausedNoCp → (alookup t s.removed).isSome = true)
    (hok : OpOK s (.loopEnd paused picks)) (ids : List Nat) (hout : (loopEnd p s paused picks).2 = .deleted ids) :
    (∀ t ∈ ids, s.statusOf t = some .pausedCp) ∧ ids.Nodup := by
  have hc := loopEnd_cases p s paused picks
  generalize loopEnd p s paused picks = r at hc hout
  cases hc with
  | within h => simp only [Out.deleted.injEq] at hout; subst hout; simp
  | raised h he hv => cases hout
  | oracleRaised h hne hp => cases hout
  | rejected h hne pk hp e => cases hout
  | removed h hne pk hp hlen hmem hnd =>
    simp only [Out.deleted.injEq] at hout
    subst hout
    refine ⟨?_, hnd⟩
    intro t ht
    obtain ⟨e, he, rfl⟩ := List.mem_map.1 ht
    obtain ⟨hp1, hp2⟩ := mem_filterPaused.1 (hmem e he)
    have hps := hok e hp1
    cases hst : s.statusOf e.1 with
    | none => simp [hst, isPausedStatus] at hps
    | some st =>
      cases st with
      | pausedCp => rfl
      | pausedNoCp => have := hI e.1 hst; simp [hp2] at this
      | running => simp [hst, isPausedStatus] at hps
      | done => simp [hst, isPausedStatus] at hps

/-- the number of checkpoints after a loop end that consulted the oracle and returned -/
theorem loopEnd_count (p : Params) (s : State) (paused : List (Nat × Nat)) (picks : Option (List (Nat × Nat)))
    (hI : ∀ t, s.statusOf t = some .pausedNoCp → (alookup t s.removed).isSome = true)
    (hok : OpOK s (.loopEnd paused picks)) (ids : List Nat) (hout : (loopEnd p s paused picks).2 = .deleted ids)
    (hex : 0 < excess p s) :
    countCp (loopEnd p s paused picks).1 + min (excess p s).toNat (filterPaused s paused).length = countCp s ∧
    numRunning (loopEnd p s paused picks).1 = numRunning s ∧
    ids.length = min (excess p s).toNat (filterPaused s paused).length := by
  have hd := loopEnd_deleted p s paused picks hI hok ids hout
  have hc := loopEnd_cases p s paused picks
  generalize loopEnd p s paused picks = r at hc hout
  cases hc with
  | within h => omega
  | raised h he hv => cases hout
  | oracleRaised h hne hp => cases hout
  | rejected h hne pk hp e => cases hout
  | removed h hne pk hp hlen hmem hnd =>
    simp only [Out.deleted.injEq] at hout
    subst hout
    have hst : ∀ e ∈ pk, s.statusOf e.1 = some .pausedCp :=
      fun e he => hd.1 e.1 (List.mem_map.2 ⟨e, he, rfl⟩)
    obtain ⟨c1, c2⟩ := foldl_removeCp_count pk s hnd hst
    simp only [List.length_map]
    exact ⟨by omega, c2, hlen⟩

/-! ### counting the paused trials that still have a checkpoint -/

def isPausedCp : Status → Bool
  | .pausedCp => true
  | _ => false

theorem countCp_split (s : State) :
    countCp s = numRunning s + s.status.countP (fun e => isPausedCp e.2) := by
  unfold countCp numRunning
  induction s.status with
  | nil => rfl
  | cons e l ih =>
    obtain ⟨k, st⟩ := e
    simp only [List.countP_cons, ih]
    cases st <;> simp [hasCp, isRunning, isPausedCp] <;> omega

/-- if the scheduler's list is complete and the removed map holds only PAUSED_NO_CHECKPOINT trials,
the filtered list is at least as long as the number of PAUSED_WITH_CHECKPOINT trials -/
theorem pausedCp_le_filtered (s : State) (paused : List (Nat × Nat)) (hn : (s.status.map (·.1)).Nodup)
    (hI2 : ∀ t, (alookup t s.removed).isSome = true → s.statusOf t = some .pausedNoCp)
    (hcomp : Complete s paused) :
    s.status.countP (fun e => isPausedCp e.2) ≤ (filterPaused s paused).length := by
  have hlen : s.status.countP (fun e => isPausedCp e.2) =
      ((s.status.filter (fun e => isPausedCp e.2)).map (·.1)).length := by
    rw [List.length_map, List.countP_eq_length_filter]
  rw [hlen, ← List.length_map (f := fun e : Nat × Nat => e.1) (as := filterPaused s paused)]
  apply length_le_of_nodup_subset
  · exact List.Pairwise.sublist (List.Sublist.map _ List.filter_sublist) hn
  · intro t ht
    obtain ⟨e, he, rfl⟩ := List.mem_map.1 ht
    obtain ⟨he1, he2⟩ := List.mem_filter.1 he
    obtain ⟨k, st⟩ := e
    have hst : st = .pausedCp := by cases st <;> simp [isPausedCp] at he2 ⊢
    subst hst
    have hlook : s.statusOf k = some .pausedCp := alookup_of_mem_nodup hn he1
    obtain ⟨l, hl⟩ := hcomp k hlook
    have hnone : alookup k s.removed = none := by
      cases hr : alookup k s.removed with
      | none => rfl
      | some l' =>
        have := hI2 k (by simp [hr])
        rw [hlook] at this; cases this
    exact List.mem_map.2 ⟨(k, l), mem_filterPaused.2 ⟨hl, hnone⟩, rfl⟩

/-! ### helpers about the trace -/

theorem lastTouch_touches {t : Nat} {tr : List (Op × Out)} {x : Op × Out} (h : lastTouch t tr = some x) :
    touches t x = true := by
  unfold lastTouch at h
  exact List.find?_some h

theorem mem_trace (p : Params) (h : List Op) (x : Op × Out) (hx : x ∈ trace p h) :
    ∃ h1 h2, h = h1 ++ x.1 :: h2 ∧ x.2 = (step p (run p h1) x.1).2 := by
  induction h using snoc_induction with
  | h0 => simp [trace_nil] at hx
  | hs h op ih =>
    rw [trace_snoc, List.mem_append, List.mem_singleton] at hx
    rcases hx with hx | hx
    · obtain ⟨h1, h2, e1, e2⟩ := ih hx
      exact ⟨h1, h2 ++ [op], by rw [e1]; simp, e2⟩
    · subst hx
      exact ⟨h, [], by simp, rfl⟩

/-- the removed map holds only PAUSED_NO_CHECKPOINT trials (legal histories) -/
theorem removed_entry_status (p : Params) (h : List Op) (hl : Legal p h) (t : Nat)
    (hs : (alookup t (run p h).removed).isSome = true) : (run p h).statusOf t = some .pausedNoCp := by
  obtain ⟨l, hlk⟩ := Option.isSome_iff_exists.1 hs
  rw [status_spec]
  exact specRemoved_some_status (l := l) (by rw [← removed_spec p h hl t, hlk])

/-- `Complete` with the quantifier bounded by the status map (hence decidable) -/
theorem complete_iff (s : State) (paused : List (Nat × Nat)) :
    Complete s paused ↔
      ∀ e ∈ s.status, s.statusOf e.1 = some .pausedCp → ∃ q ∈ paused, q.1 = e.1 := by
  constructor
  · intro hc e _ hs
    obtain ⟨l, hl⟩ := hc e.1 hs
    exact ⟨(e.1, l), hl, rfl⟩
  · intro hb t ht
    have hm := alookup_some_mem ht
    obtain ⟨q, hq, hq1⟩ := hb (t, .pausedCp) hm ht
    refine ⟨q.2, ?_⟩
    have : q = (t, q.2) := by cases q; simp at hq1; simp [hq1]
    rw [← this]; exact hq

instance (s : State) (paused : List (Nat × Nat)) : Decidable (Complete s paused) :=
  decidable_of_iff _ (complete_iff s paused).symm

/-! ### the natural contract -/

theorem naturalOK_opOK (s : State) (op : Op) (h : NaturalOK s op) : OpOK s op := by
  cases op with
  | start t => simp only [NaturalOK] at h; simp [OpOK, h]
  | resume t => trivial
  | result t d =>
    simp only [NaturalOK] at h
    cases d with
    | «continue» => simp [OpOK, h]
    | _ => trivial
  | complete t => trivial
  | loopEnd paused picks => exact h

theorem naturalLegalFrom_legalFrom (p : Params) (s : State) (h : List Op) (hn : NaturalLegalFrom p s h) :
    LegalFrom p s h := by
  induction h generalizing s with
  | nil => trivial
  | cons op h ih => exact ⟨naturalOK_opOK s op hn.1, ih _ hn.2⟩

theorem naturalLegalFrom_snoc (p : Params) (s : State) (h : List Op) (op : Op) :
    NaturalLegalFrom p s (h ++ [op]) ↔ NaturalLegalFrom p s h ∧ NaturalOK (runFrom p s h) op := by
  induction h generalizing s with
  | nil => simp [NaturalLegalFrom, runFrom]
  | cons a h ih =>
    simp only [List.cons_append, NaturalLegalFrom, ih]
    simp [runFrom, and_assoc]

theorem naturalLegal_snoc (p : Params) (h : List Op) (op : Op) :
    NaturalLegal p (h ++ [op]) ↔ NaturalLegal p h ∧ NaturalOK (run p h) op :=
  naturalLegalFrom_snoc p _ h op

end SyneTune.Early
