import SyneTune.Lemmas.TunerAlist
import SyneTune.Lemmas.TunerFlow
/-
Structural invariant of the tuning-loop machine under the backend contract `B` (poll answers
have distinct keys, all of them running trials, never status `paused`):
bookkeeping of `trial_status_dict`, `done_trials` and the progress of the second loop of
`_update_running_trials`; failed trials are named in `done_trials_statuses`.
-/
namespace SyneTune.Tuner
open SyneTune AL

/-- control points at which the registers `sd` (`trial_status_dict`) and `done` are live -/
def updPc : Pc → Bool
  | .cbFetch | .nextRes | .decision | .cbResult | .stopCmd | .stopDel | .removeS | .pauseCmd | .removeP
  | .second | .stdoutNM | .stderrNM | .completeS | .completeCb | .errorS | .afterUpd => true
  | _ => false

/-- a result is being handled (`cur`) -/
def curResPc : Pc → Bool
  | .decision | .cbResult | .stopCmd | .stopDel | .removeS | .pauseCmd | .removeP => true
  | _ => false

/-- an item of `trial_status_dict` is being handled (`t`) -/
def curItemPc : Pc → Bool
  | .stdoutNM | .stderrNM | .completeS | .completeCb | .errorS => true
  | _ => false

/-- first loop of `_update_running_trials` -/
def firstPc : Pc → Bool
  | .cbFetch | .nextRes | .decision | .cbResult | .stopCmd | .stopDel | .removeS | .pauseCmd | .removeP => true
  | _ => false

/-- **contract B** (backend) on the answers to `fetch_status_results`: one status per polled
trial, only for trials that were asked for, never `paused` (a running trial is not paused
behind the loop's back). -/
def BOk (s : LState) (a : Ans) : Prop :=
  s.pc = .fetch → ∀ sd res, a = .poll sd res → (keys sd).Nodup ∧ ∀ kv ∈ sd, kv.1 ∈ s.running ∧ kv.2 ≠ .paused

/-- the items `pre` of `trial_status_dict` have been through the second loop -/
def Processed (s : LState) (pre : List (Nat × St)) : Prop :=
  ∀ kv ∈ pre, (kv.2 = .failed → alookup kv.1 s.done = some .failed) ∧ (kv.2 = .completed → kv.1 ∈ keys s.done)
    ∧ (kv.2 = .stopped → kv.1 ∉ s.schedStopped → kv.1 ∈ keys s.done)

/-- the item being handled -/
def CurOK (s : LState) (st : St) : Prop :=
  (s.pc = .errorS → s.tSt = st ∧ (st = .failed ∨ (st = .stopped ∧ s.t ∉ s.schedStopped)))
  ∧ ((s.pc = .completeS ∨ s.pc = .completeCb) → st = .completed)

structure SInv (s : LState) : Prop where
  sdNodup : updPc s.pc = true → (keys s.sd).Nodup
  sdRun : updPc s.pc = true → ∀ kv ∈ s.sd, kv.1 ∈ s.running ∧ kv.2 ≠ .paused
  doneOK : updPc s.pc = true → (keys s.done).Nodup ∧ ∀ t ∈ keys s.done, t ∈ keys s.sd
  cur : curResPc s.pc = true → s.cur.tid ∈ keys s.sd ∧ s.cur.tid ∉ keys s.done
  p2 : (s.pc = .second ∨ s.pc = .afterUpd) → ∃ pre, s.sd = pre ++ s.items ∧ Processed s pre
  p2end : s.pc = .afterUpd → s.items = []
  item : curItemPc s.pc = true → ∃ pre st, s.sd = pre ++ (s.t, st) :: s.items ∧ Processed s pre ∧ CurOK s st
  doneAllNodup : (keys s.doneAll).Nodup
  failedNamed : ∀ t, alookup t s.status.last = some .failed → alookup t s.doneAll = some .failed
  runLast : ∀ t ∈ s.running, t ∈ keys s.status.last

theorem curRes_upd (p : Pc) : curResPc p = true → updPc p = true := by cases p <;> decide
theorem curItem_upd (p : Pc) : curItemPc p = true → updPc p = true := by cases p <;> decide
theorem first_upd (p : Pc) : firstPc p = true → updPc p = true := by cases p <;> decide
theorem curRes_first (p : Pc) : curResPc p = true → firstPc p = true := by cases p <;> decide
theorem first_not_item (p : Pc) : firstPc p = true → curItemPc p = false := by cases p <;> decide
theorem first_not_second (p : Pc) : firstPc p = true → p ≠ .second ∧ p ≠ .afterUpd := by cases p <;> decide

/-- a step to a control point outside the result-processing phase which leaves the running
set, the recorded statuses and `done_trials_statuses` alone -/
theorem SInv.out {s s' : LState} (h : SInv s) (hr : s'.running = s.running)
    (hl : s'.status.last = s.status.last) (hd : s'.doneAll = s.doneAll) (hp : updPc s'.pc = false) : SInv s' := by
  have hnu : ∀ {P : Prop}, updPc s'.pc = true → P := fun hc => by rw [hp] at hc; cases hc
  refine ⟨hnu, hnu, hnu, fun hc => hnu (curRes_upd _ hc), ?_, ?_, fun hc => hnu (curItem_upd _ hc), ?_, ?_, ?_⟩
  · rintro (hc | hc) <;> (rw [hc] at hp; cases hp)
  · intro hc; rw [hc] at hp; cases hp
  · rw [hd]; exact h.doneAllNodup
  · rw [hl, hd]; exact h.failedNamed
  · rw [hr, hl]; exact h.runLast

/-- a step inside the first loop that leaves `sd`, `done` and the current trial alone -/
theorem SInv.first {s s' : LState} (h : SInv s) (hr : s'.running = s.running)
    (hl : s'.status.last = s.status.last) (hd : s'.doneAll = s.doneAll)
    (hsd : s'.sd = s.sd) (hdone : s'.done = s.done) (hcur : s'.cur.tid = s.cur.tid)
    (hp : firstPc s.pc = true) (hp' : firstPc s'.pc = true)
    (hc : curResPc s'.pc = true → curResPc s.pc = true) : SInv s' := by
  have hu := first_upd _ hp
  refine ⟨fun _ => ?_, fun _ => ?_, fun _ => ?_, fun hc' => ?_, ?_, ?_, ?_, ?_, ?_, ?_⟩
  · rw [hsd]; exact h.sdNodup hu
  · rw [hsd, hr]; exact h.sdRun hu
  · rw [hdone, hsd]; exact h.doneOK hu
  · rw [hcur, hsd, hdone]; exact h.cur (hc hc')
  · rintro (hc' | hc')
    · exact absurd hc' (first_not_second _ hp').1
    · exact absurd hc' (first_not_second _ hp').2
  · intro hc'; exact absurd hc' (first_not_second _ hp').2
  · intro hc'; rw [first_not_item _ hp'] at hc'; cases hc'
  · rw [hd]; exact h.doneAllNodup
  · rw [hl, hd]; exact h.failedNamed
  · rw [hr, hl]; exact h.runLast

/-- the current result's trial enters `done_trials` -/
theorem SInv.firstDone {s s' : LState} (h : SInv s) (v : St) (hr : s'.running = s.running)
    (hl : s'.status.last = s.status.last) (hd : s'.doneAll = s.doneAll)
    (hsd : s'.sd = s.sd) (hdone : s'.done = aset s.cur.tid v s.done)
    (hp : curResPc s.pc = true) (hp' : s'.pc = .nextRes) : SInv s' := by
  have hu := curRes_upd _ hp
  have hcur := h.cur hp
  refine ⟨fun _ => ?_, fun _ => ?_, fun _ => ?_, fun hc' => ?_, ?_, ?_, ?_, ?_, ?_, ?_⟩
  · rw [hsd]; exact h.sdNodup hu
  · rw [hsd, hr]; exact h.sdRun hu
  · rw [hdone, hsd]
    refine ⟨nodup_keys_aset _ _ _ (h.doneOK hu).1, ?_⟩
    intro t ht
    rcases (mem_keys_aset _ _ _ _).mp ht with rfl | ht
    · exact hcur.1
    · exact (h.doneOK hu).2 t ht
  · rw [hp'] at hc'; cases hc'
  · rintro (hc' | hc') <;> (rw [hp'] at hc'; cases hc')
  · intro hc'; rw [hp'] at hc'; cases hc'
  · intro hc'; rw [hp'] at hc'; cases hc'
  · rw [hd]; exact h.doneAllNodup
  · rw [hl, hd]; exact h.failedNamed
  · rw [hr, hl]; exact h.runLast


/-! ### the second loop -/

theorem Processed.aset {s s' : LState} {pre : List (Nat × St)} {t : Nat} {v : St} (h : Processed s pre)
    (ht : t ∉ keys pre) (hdone : s'.done = aset t v s.done) (hss : s'.schedStopped = s.schedStopped) :
    Processed s' pre := by
  intro kv hkv
  have hne : kv.1 ≠ t := by
    intro hc; apply ht; rw [← hc]; exact List.mem_map.mpr ⟨kv, hkv, rfl⟩
  obtain ⟨h1, h2, h3⟩ := h kv hkv
  rw [hdone, hss]
  refine ⟨fun hf => ?_, fun hc => ?_, fun hst hns => ?_⟩
  · rw [alookup_aset_ne _ _ _ _ hne]; exact h1 hf
  · exact (mem_keys_aset _ _ _ _).mpr (Or.inr (h2 hc))
  · exact (mem_keys_aset _ _ _ _).mpr (Or.inr (h3 hst hns))

theorem Processed.same {s s' : LState} {pre : List (Nat × St)} (h : Processed s pre)
    (hdone : s'.done = s.done) (hss : s'.schedStopped = s.schedStopped) : Processed s' pre := by
  intro kv hkv; rw [hdone, hss]; exact h kv hkv

theorem Processed.snoc {s : LState} {pre : List (Nat × St)} {t : Nat} {st : St} (h : Processed s pre)
    (h1 : st = .failed → alookup t s.done = some .failed) (h2 : st = .completed → t ∈ keys s.done)
    (h3 : st = .stopped → t ∉ s.schedStopped → t ∈ keys s.done) : Processed s (pre ++ [(t, st)]) := by
  intro kv hkv
  rcases List.mem_append.mp hkv with hkv | hkv
  · exact h kv hkv
  · simp only [List.mem_singleton] at hkv; subst hkv; exact ⟨h1, h2, h3⟩

/-- in `sd = pre ++ (t, st) :: items` with distinct keys, `t` is not a key of `pre` -/
theorem not_mem_pre {sd pre items : List (Nat × St)} {t : Nat} {st : St} (hn : (keys sd).Nodup)
    (hsd : sd = pre ++ (t, st) :: items) : t ∉ keys pre ∧ t ∈ keys sd := by
  subst hsd
  simp only [keys, List.map_append, List.map_cons] at hn ⊢
  constructor
  · intro hc
    have := (List.nodup_append.mp hn).2.2 t hc t (by simp)
    exact this rfl
  · simp

/-- one item of the second loop is looked at -/
theorem SInv.secondItem {s : LState} (h : SInv s) (hp : s.pc = .second) (t : Nat) (st : St) (rest : List (Nat × St))
    (hi : s.items = (t, st) :: rest) : SInv (secondItem s t st rest) := by
  have hu : updPc s.pc = true := by rw [hp]; rfl
  obtain ⟨pre, hsd, hpre⟩ := h.p2 (Or.inl hp)
  rw [hi] at hsd
  have hnd := h.sdNodup hu
  have htk := not_mem_pre hnd hsd
  -- the two shapes of result
  have toItem : ∀ s' : LState, s'.running = s.running → s'.status.last = s.status.last → s'.doneAll = s.doneAll →
      s'.sd = s.sd → s'.done = s.done → s'.schedStopped = s.schedStopped → s'.t = t → s'.items = rest →
      curItemPc s'.pc = true → CurOK s' st → SInv s' := by
    intro s' hr hl hd hsd' hdone hss ht hit hpc hcur
    have hu' := curItem_upd _ hpc
    refine ⟨fun _ => ?_, fun _ => ?_, fun _ => ?_, fun hc' => ?_, ?_, ?_, fun _ => ?_, ?_, ?_, ?_⟩
    · rw [hsd']; exact hnd
    · rw [hsd', hr]; exact h.sdRun hu
    · rw [hdone, hsd']; exact h.doneOK hu
    · exfalso; revert hc' hpc; cases s'.pc <;> simp [curResPc, curItemPc]
    · rintro (hc' | hc') <;> (rw [hc'] at hpc; cases hpc)
    · intro hc'; rw [hc'] at hpc; cases hpc
    · exact ⟨pre, st, by rw [hsd', ht, hit]; exact hsd, hpre.same hdone hss, hcur⟩
    · rw [hd]; exact h.doneAllNodup
    · rw [hl, hd]; exact h.failedNamed
    · rw [hr, hl]; exact h.runLast
  have toSecond : ∀ s' : LState, s'.running = s.running → s'.status.last = s.status.last → s'.doneAll = s.doneAll →
      s'.sd = s.sd → s'.pc = .second → s'.items = rest →
      ((keys s'.done).Nodup ∧ ∀ k ∈ keys s'.done, k ∈ keys s.sd) → Processed s' (pre ++ [(t, st)]) → SInv s' := by
    intro s' hr hl hd hsd' hpc hit hdone hproc
    refine ⟨fun _ => ?_, fun _ => ?_, fun _ => ?_, fun hc' => ?_, fun _ => ?_, ?_, fun hc' => ?_, ?_, ?_, ?_⟩
    · rw [hsd']; exact hnd
    · rw [hsd', hr]; exact h.sdRun hu
    · rw [hsd']; exact hdone
    · rw [hpc] at hc'; cases hc'
    · exact ⟨pre ++ [(t, st)], by rw [hsd', hit, hsd]; simp, hproc⟩
    · intro hc'; rw [hpc] at hc'; cases hc'
    · rw [hpc] at hc'; cases hc'
    · rw [hd]; exact h.doneAllNodup
    · rw [hl, hd]; exact h.failedNamed
    · rw [hr, hl]; exact h.runLast
  have hdk : ∀ v, (keys (aset t v s.done)).Nodup ∧ ∀ k ∈ keys (aset t v s.done), k ∈ keys s.sd := by
    intro v
    refine ⟨nodup_keys_aset _ _ _ (h.doneOK hu).1, ?_⟩
    intro k hk
    rcases (mem_keys_aset _ _ _ _).mp hk with rfl | hk
    · exact htk.2
    · exact (h.doneOK hu).2 k hk
  have skip : (st ≠ .failed) → (st ≠ .completed) → (st = .stopped → t ∈ s.schedStopped) →
      SInv { s with items := rest } := by
    intro h1 h2 h3
    exact toSecond _ rfl rfl rfl rfl hp rfl (h.doneOK hu)
      ((hpre.same rfl rfl).snoc (fun hc => absurd hc h1) (fun hc => absurd hc h2) (fun hc hns => absurd (h3 hc) hns))
  cases st with
  | failed =>
    simp only [Tuner.secondItem]
    exact toItem _ rfl rfl rfl rfl rfl rfl rfl rfl rfl
      (And.intro (fun _ => ⟨rfl, Or.inl rfl⟩) (fun hc => by rcases hc with hc | hc <;> cases hc))
  | stopped =>
    simp only [Tuner.secondItem]
    by_cases hss : t ∈ s.schedStopped
    · simp only [hss, if_true]
      exact skip (by decide) (by decide) (fun _ => hss)
    · simp only [hss, if_false]
      exact toItem _ rfl rfl rfl rfl rfl rfl rfl rfl rfl
        (And.intro (fun _ => ⟨rfl, Or.inr ⟨rfl, hss⟩⟩) (fun hc => by rcases hc with hc | hc <;> cases hc))
  | completed =>
    simp only [Tuner.secondItem]
    cases hls : alookup t s.lastSeen with
    | none =>
      simp only []
      exact toItem _ rfl rfl rfl rfl rfl rfl rfl rfl rfl
        (And.intro (fun hc => by cases hc) (fun hc => by rcases hc with hc | hc <;> cases hc))
    | some rid =>
      simp only []
      by_cases hk : hasKey t s.done = true
      · by_cases hpz : alookup t s.done = some St.paused
        · simp only [hk, hpz, if_true, Bool.not_true, Bool.false_eq_true, if_false]
          refine toSecond _ rfl rfl rfl rfl hp rfl (hdk _) ?_
          refine Processed.snoc ?_ (fun hc => by cases hc) (fun _ => ?_) (fun hc => by cases hc)
          · exact hpre.aset htk.1 rfl rfl
          · exact (mem_keys_aset _ _ _ _).mpr (Or.inl rfl)
        · simp only [hk, hpz, if_true, Bool.not_true, Bool.false_eq_true, if_false]
          exact toItem _ rfl rfl rfl rfl rfl rfl rfl rfl rfl
            (And.intro (fun hc => by cases hc) (fun _ => rfl))
      · have hk' : hasKey t s.done = false := by cases hh : hasKey t s.done <;> simp_all
        simp only [hk', Bool.not_false, if_true]
        exact toItem _ rfl rfl rfl rfl rfl rfl rfl rfl rfl
          (And.intro (fun hc => by cases hc) (fun _ => rfl))
  | inProgress => simp only [Tuner.secondItem]; exact skip (by decide) (by decide) (fun hc => by cases hc)
  | paused => simp only [Tuner.secondItem]; exact skip (by decide) (by decide) (fun hc => by cases hc)
  | stopping => simp only [Tuner.secondItem]; exact skip (by decide) (by decide) (fun hc => by cases hc)

/-- the call for the current item returned and the item enters `done_trials` -/
theorem SInv.itemDone {s s' : LState} (h : SInv s) (hp : curItemPc s.pc = true) (v : St)
    (hr : s'.running = s.running) (hl : s'.status.last = s.status.last) (hd : s'.doneAll = s.doneAll)
    (hsd : s'.sd = s.sd) (hdone : s'.done = aset s.t v s.done) (hss : s'.schedStopped = s.schedStopped)
    (hit : s'.items = s.items) (hp' : s'.pc = .second)
    (hv : ∀ st, CurOK s st → (st = .failed → v = .failed)) : SInv s' := by
  have hu := curItem_upd _ hp
  obtain ⟨pre, st, hsd0, hpre, hcur⟩ := h.item hp
  have hnd := h.sdNodup hu
  have htk := not_mem_pre hnd hsd0
  refine ⟨fun _ => ?_, fun _ => ?_, fun _ => ?_, fun hc' => ?_, fun _ => ?_, ?_, fun hc' => ?_, ?_, ?_, ?_⟩
  · rw [hsd]; exact hnd
  · rw [hsd, hr]; exact h.sdRun hu
  · rw [hdone, hsd]
    refine ⟨nodup_keys_aset _ _ _ (h.doneOK hu).1, ?_⟩
    intro k hk
    rcases (mem_keys_aset _ _ _ _).mp hk with rfl | hk
    · exact htk.2
    · exact (h.doneOK hu).2 k hk
  · rw [hp'] at hc'; cases hc'
  · refine ⟨pre ++ [(s.t, st)], by rw [hsd, hit, hsd0]; simp, ?_⟩
    refine Processed.snoc ?_ (fun hf => ?_) (fun _ => ?_) (fun _ _ => ?_)
    · exact hpre.aset htk.1 hdone hss
    · rw [hdone, alookup_aset_self, hv st hcur hf]
    · rw [hdone]; exact (mem_keys_aset _ _ _ _).mpr (Or.inl rfl)
    · rw [hdone]; exact (mem_keys_aset _ _ _ _).mpr (Or.inl rfl)
  · intro hc'; rw [hp'] at hc'; cases hc'
  · rw [hp'] at hc'; cases hc'
  · rw [hd]; exact h.doneAllNodup
  · rw [hl, hd]; exact h.failedNamed
  · rw [hr, hl]; exact h.runLast

/-- a step from one call about the current item to the next one -/
theorem SInv.itemStay {s s' : LState} (h : SInv s) (hp : curItemPc s.pc = true) (hp' : curItemPc s'.pc = true)
    (hr : s'.running = s.running) (hl : s'.status.last = s.status.last) (hd : s'.doneAll = s.doneAll)
    (hsd : s'.sd = s.sd) (hdone : s'.done = s.done) (hss : s'.schedStopped = s.schedStopped)
    (hit : s'.items = s.items) (ht : s'.t = s.t) (hcur : ∀ st, CurOK s st → CurOK s' st) : SInv s' := by
  have hu := curItem_upd _ hp
  obtain ⟨pre, st, hsd0, hpre, hc⟩ := h.item hp
  refine ⟨fun _ => ?_, fun _ => ?_, fun _ => ?_, fun hc' => ?_, ?_, ?_, fun _ => ?_, ?_, ?_, ?_⟩
  · rw [hsd]; exact h.sdNodup hu
  · rw [hsd, hr]; exact h.sdRun hu
  · rw [hdone, hsd]; exact h.doneOK hu
  · exfalso; revert hc' hp'; cases s'.pc <;> simp [curResPc, curItemPc]
  · rintro (hc' | hc') <;> (rw [hc'] at hp'; cases hp')
  · intro hc'; rw [hc'] at hp'; cases hp'
  · exact ⟨pre, st, by rw [hsd, ht, hit]; exact hsd0, hpre.same hdone hss, hcur st hc⟩
  · rw [hd]; exact h.doneAllNodup
  · rw [hl, hd]; exact h.failedNamed
  · rw [hr, hl]; exact h.runLast

/-! ### the first loop -/

/-- a result of a polled trial that is not yet done is taken up -/
theorem SInv.takeResult {s s' : LState} (h : SInv s) (hp : s.pc = .nextRes) (st : St)
    (hr : s'.running = s.running) (hl : s'.status.last = s.status.last) (hd : s'.doneAll = s.doneAll)
    (hsd : s'.sd = s.sd) (hdone : s'.done = s.done) (hp' : s'.pc = .decision)
    (hk : alookup s'.cur.tid s.sd = some st) (hnd : hasKey s'.cur.tid s.done = false) : SInv s' := by
  have hu : updPc s.pc = true := by rw [hp]; rfl
  refine ⟨fun _ => ?_, fun _ => ?_, fun _ => ?_, fun _ => ?_, ?_, ?_, fun hc' => ?_, ?_, ?_, ?_⟩
  · rw [hsd]; exact h.sdNodup hu
  · rw [hsd, hr]; exact h.sdRun hu
  · rw [hdone, hsd]; exact h.doneOK hu
  · rw [hsd, hdone]
    exact ⟨(hasKey_iff_mem_keys _ _).mp (by unfold hasKey; rw [hk]; rfl), (hasKey_false_iff _ _).mp hnd⟩
  · rintro (hc' | hc') <;> (rw [hp'] at hc'; cases hc')
  · intro hc'; rw [hp'] at hc'; cases hc'
  · rw [hp'] at hc'; cases hc'
  · rw [hd]; exact h.doneAllNodup
  · rw [hl, hd]; exact h.failedNamed
  · rw [hr, hl]; exact h.runLast

/-- all results have been looked at: the second loop starts -/
theorem SInv.toSecond {s : LState} (h : SInv s) (hp : s.pc = .nextRes) :
    SInv { s with pc := .second, items := s.sd } := by
  have hu : updPc s.pc = true := by rw [hp]; rfl
  refine ⟨fun _ => h.sdNodup hu, fun _ => h.sdRun hu, fun _ => h.doneOK hu, (fun hc' => by cases hc'), fun _ => ?_,
    (fun hc' => by cases hc'), (fun hc' => by cases hc'), h.doneAllNodup, h.failedNamed, h.runLast⟩
  exact ⟨[], rfl, fun kv hkv => by cases hkv⟩

/-- the poll is answered -/
theorem SInv.polled {s : LState} (h : SInv s) (sd : List (Nat × St)) (res : List Res) (bst : List (Nat × St))
    (hB : (keys sd).Nodup ∧ ∀ kv ∈ sd, kv.1 ∈ s.running ∧ kv.2 ≠ .paused) :
    SInv { s with pc := .cbFetch, sd := sd, allRes := res, rest := res, done := [], bst := bst } := by
  refine ⟨fun _ => hB.1, fun _ => hB.2, fun _ => ⟨by simp [keys], fun t ht => by simp [keys] at ht⟩,
    (fun hc' => by cases hc'), (fun hc' => by rcases hc' with hc' | hc' <;> cases hc'),
    (fun hc' => by cases hc'), (fun hc' => by cases hc'), h.doneAllNodup, h.failedNamed, h.runLast⟩

/-! ### recorded statuses -/

theorem addResult_last (ts : TStatus) (r : Nat × Metrics) : (ts.addResult r).last = ts.last := rfl

theorem foldl_addResult_last (res : List (Nat × Metrics)) (ts : TStatus) :
    (res.foldl TStatus.addResult ts).last = ts.last := by
  induction res generalizing ts with
  | nil => rfl
  | cons r rs ih => simp only [List.foldl_cons]; rw [ih, addResult_last]

/-- `tuning_status.update` records the statuses with `dict.update` -/
theorem update_last (ts : TStatus) (sd : List (Nat × St)) (res : List (Nat × Metrics)) :
    (ts.update sd res).last = aupdate ts.last sd := by
  unfold TStatus.update
  simp only []
  rw [foldl_addResult_last]

theorem markStopped_keys (ts : TStatus) : keys ts.markStopped.last = keys ts.last := by
  unfold TStatus.markStopped keys
  simp only [List.map_map]
  rfl

theorem alookup_map_val {β γ} (f : β → γ) (k : Nat) (l : List (Nat × β)) :
    alookup k (l.map (fun kv => (kv.1, f kv.2))) = (alookup k l).map f := by
  induction l with
  | nil => rfl
  | cons x xs ih =>
    obtain ⟨k', v⟩ := x
    by_cases h : k = k'
    · simp [alookup, h]
    · simp [alookup, h, ih]

theorem markStopped_failed (ts : TStatus) (t : Nat) (h : alookup t ts.markStopped.last = some .failed) :
    alookup t ts.last = some .failed := by
  unfold TStatus.markStopped at h
  simp only [] at h
  rw [alookup_map_val (fun v => if v = St.inProgress then St.stopped else v)] at h
  cases hl : alookup t ts.last with
  | none => rw [hl] at h; cases h
  | some v =>
    rw [hl] at h
    simp only [Option.map_some, Option.some.injEq] at h
    by_cases hv : v = .inProgress
    · simp [hv] at h
    · simp only [hv, if_false] at h; rw [h]

/-- the end of `_process_new_results` -/
theorem SInv.afterUpdate {s : LState} (h : SInv s) (hp : s.pc = .afterUpd) : SInv (afterUpdate s) := by
  have hu : updPc s.pc = true := by rw [hp]; rfl
  obtain ⟨pre, hsd, hpre⟩ := h.p2 (Or.inr hp)
  rw [h.p2end hp, List.append_nil] at hsd
  have hdn := (h.doneOK hu).1
  have hds := (h.doneOK hu).2
  have hsdn := h.sdNodup hu
  have hk' : keys (aupdate s.sd s.done) = keys s.sd := keys_aupdate_of_subset _ _ hds
  have hpc : updPc (Tuner.afterUpdate s).pc = false := by
    rcases afterUpdate_pc s with hh | hh | hh <;> rw [hh] <;> rfl
  have hnu : ∀ {P : Prop}, updPc (Tuner.afterUpdate s).pc = true → P := fun hc => by rw [hpc] at hc; cases hc
  refine ⟨hnu, hnu, hnu, fun hc => hnu (curRes_upd _ hc), ?_, ?_, fun hc => hnu (curItem_upd _ hc), ?_, ?_, ?_⟩
  · rintro (hc | hc) <;> (rw [hc] at hpc; cases hpc)
  · intro hc; rw [hc] at hpc; cases hpc
  · exact nodup_keys_aupdate _ _ h.doneAllNodup
  · intro t ht
    show alookup t (aupdate s.doneAll s.done) = some St.failed
    have hlast : (Tuner.afterUpdate s).status.last = aupdate s.status.last (aupdate s.sd s.done) := update_last _ _ _
    rw [hlast, alookup_aupdate _ _ _ (by rw [hk']; exact hsdn)] at ht
    rw [alookup_aupdate _ _ _ hdn]
    cases hsd' : alookup t (aupdate s.sd s.done) with
    | some v =>
      rw [hsd'] at ht
      simp only [Option.some.injEq] at ht
      subst ht
      rw [alookup_aupdate _ _ _ hdn] at hsd'
      cases hd : alookup t s.done with
      | some w => rw [hd] at hsd'; simp only [Option.some.injEq] at hsd'; subst hsd'; rfl
      | none =>
        rw [hd] at hsd'
        simp only [] at hsd'
        have hmem : (t, St.failed) ∈ pre := by rw [← hsd]; exact mem_of_alookup hsd'
        have := (hpre _ hmem).1 rfl
        rw [hd] at this; cases this
    | none =>
      rw [hsd'] at ht
      simp only [] at ht
      have hnk : t ∉ keys s.done := by
        intro hc
        have : t ∈ keys (aupdate s.sd s.done) := by rw [hk']; exact hds t hc
        exact (alookup_eq_none_iff _ _).mp hsd' this
      rw [(alookup_eq_none_iff _ _).mpr hnk]
      exact h.failedNamed t ht
  · intro t ht
    have hlast : (Tuner.afterUpdate s).status.last = aupdate s.status.last (aupdate s.sd s.done) := update_last _ _ _
    rw [hlast]
    have ht' : t ∈ s.running := (List.mem_filter.mp ht).1
    exact (mem_keys_aupdate _ _ _).mpr (Or.inl (h.runLast t ht'))

/-- a trial has been started or resumed -/
theorem SInv.scheduled {s : LState} (h : SInv s) (t : Nat) : SInv (scheduled s t) := by
  have hlast : (Tuner.scheduled s t).status.last = aset t .inProgress s.status.last := by
    unfold Tuner.scheduled addRunning
    split <;> exact update_last _ _ _
  have hnu : ∀ {P : Prop}, updPc (Tuner.scheduled s t).pc = true → P := fun hc => by cases hc
  refine ⟨hnu, hnu, hnu, (fun hc => by cases hc), ?_, ?_, (fun hc => by cases hc), ?_, ?_, ?_⟩
  · rintro (hc | hc) <;> cases hc
  · intro hc; cases hc
  · have : (Tuner.scheduled s t).doneAll = s.doneAll := by unfold Tuner.scheduled addRunning; split <;> rfl
    rw [this]; exact h.doneAllNodup
  · intro t' ht'
    have hda : (Tuner.scheduled s t).doneAll = s.doneAll := by unfold Tuner.scheduled addRunning; split <;> rfl
    rw [hda]
    rw [hlast, alookup_aset] at ht'
    by_cases hc : t' = t
    · simp [hc] at ht'
    · simp only [hc, if_false] at ht'; exact h.failedNamed t' ht'
  · intro t' ht'
    rw [hlast]
    apply (mem_keys_aset _ _ _ _).mpr
    have hrun : t' ∈ (Tuner.scheduled s t).running → t' = t ∨ t' ∈ s.running := by
      unfold Tuner.scheduled addRunning
      split
      · intro hh; exact Or.inr hh
      · intro hh; exact (mem_sadd _ _ _).mp hh
    rcases hrun ht' with hh | hh
    · exact Or.inl hh
    · exact Or.inr (h.runLast t' hh)

/-! ### the machine -/

theorem SInv.addRow {s : LState} (h : SInv s) : SInv (addRow s) := by
  unfold Tuner.addRow
  split
  · exact ⟨h.sdNodup, h.sdRun, h.doneOK, h.cur, h.p2, h.p2end, h.item, h.doneAllNodup, h.failedNamed, h.runLast⟩
  · exact h

theorem SInv.toAfter {s : LState} (h : SInv s) (hp : s.pc = .second) (hi : s.items = []) :
    SInv { s with pc := .afterUpd } := by
  have hu : updPc s.pc = true := by rw [hp]; rfl
  refine ⟨fun _ => h.sdNodup hu, fun _ => h.sdRun hu, fun _ => h.doneOK hu, (fun hc => by cases hc),
    fun _ => h.p2 (Or.inl hp), fun _ => hi, (fun hc => by cases hc), h.doneAllNodup, h.failedNamed, h.runLast⟩

theorem SInv.finMarked {s s' : LState} (h : SInv s) (hr : s'.running = s.running)
    (hl : s'.status = s.status.markStopped) (hd : s'.doneAll = s.doneAll) (hp : updPc s'.pc = false) : SInv s' := by
  have hnu : ∀ {P : Prop}, updPc s'.pc = true → P := fun hc => by rw [hp] at hc; cases hc
  refine ⟨hnu, hnu, hnu, fun hc => hnu (curRes_upd _ hc), ?_, ?_, fun hc => hnu (curItem_upd _ hc), ?_, ?_, ?_⟩
  · rintro (hc | hc) <;> (rw [hc] at hp; cases hp)
  · intro hc; rw [hc] at hp; cases hp
  · rw [hd]; exact h.doneAllNodup
  · intro t ht; rw [hl] at ht; rw [hd]; exact h.failedNamed t (markStopped_failed _ _ ht)
  · intro t ht; rw [hl, markStopped_keys]; rw [hr] at ht; exact h.runLast t ht

theorem curOK_vacuous {s' : LState} (st : St) (h1 : s'.pc ≠ .errorS) (h2 : s'.pc ≠ .completeS) (h3 : s'.pc ≠ .completeCb) :
    CurOK s' st :=
  ⟨fun hc => absurd hc h1, fun hc => by rcases hc with hc | hc; exact absurd hc h2; exact absurd hc h3⟩

theorem SInv.item1 {s : LState} (h : SInv s) (hp : s.pc = .stdoutNM) : SInv { s with pc := .stderrNM } :=
  h.itemStay (by rw [hp]; rfl) rfl rfl rfl rfl rfl rfl rfl rfl rfl
    (fun st _ => curOK_vacuous st (fun hc => nomatch hc) (fun hc => nomatch hc) (fun hc => nomatch hc))

theorem SInv.item2 {s : LState} (h : SInv s) (hp : s.pc = .completeS) (kst : List (Nat × KSt)) :
    SInv { s with pc := .completeCb, kst := kst } :=
  h.itemStay (by rw [hp]; rfl) rfl rfl rfl rfl rfl rfl rfl rfl rfl
    (fun st hc => And.intro (fun hh => nomatch hh) (fun _ => hc.2 (Or.inl hp)))

theorem SInv.item3 {s : LState} (h : SInv s) (hp : s.pc = .completeS) (kst : List (Nat × KSt)) :
    SInv { s with pc := .second, kst := kst, done := aset s.t s.tSt s.done } :=
  h.itemDone (by rw [hp]; rfl) s.tSt rfl rfl rfl rfl rfl rfl rfl rfl
    (fun st hc hf => by have := hc.2 (Or.inl hp); rw [this] at hf; cases hf)

theorem SInv.item4 {s : LState} (h : SInv s) (hp : s.pc = .completeCb) :
    SInv { s with pc := .second, done := aset s.t s.tSt s.done } :=
  h.itemDone (by rw [hp]; rfl) s.tSt rfl rfl rfl rfl rfl rfl rfl rfl
    (fun st hc hf => by have := hc.2 (Or.inr hp); rw [this] at hf; cases hf)

theorem SInv.item5 {s : LState} (h : SInv s) (hp : s.pc = .errorS) (kst : List (Nat × KSt)) :
    SInv { s with pc := .second, done := aset s.t s.tSt s.done, kst := kst } :=
  h.itemDone (by rw [hp]; rfl) s.tSt rfl rfl rfl rfl rfl rfl rfl rfl
    (fun st hc hf => by have := (hc.1 hp).1; rw [this]; exact hf)

theorem SInv_next (s : LState) (a : Ans) (h : SInv s) (hB : BOk s a) : SInv (next s a) := by
  have ha := h.addRow
  unfold next
  split
  all_goals (rename_i hpc)
  all_goals (try simp only [])
  all_goals (repeat' split)
  all_goals first
    | exact h.out rfl rfl rfl rfl
    | exact h
    | exact h.polled _ _ _ (hB hpc _ _ rfl)
    | exact h.first rfl rfl rfl rfl rfl rfl (by rw [hpc]; rfl) rfl (fun _ => by rw [hpc]; rfl)
    | exact ha.first rfl rfl rfl rfl rfl rfl (by rw [addRow_pc, hpc]; rfl) rfl
        (fun _ => by rw [addRow_pc, hpc]; rfl)
    | exact h.first rfl rfl rfl rfl rfl rfl (by rw [hpc]; rfl) rfl (fun hc => by cases hc)
    | exact ha.first rfl rfl rfl rfl rfl rfl (by rw [addRow_pc, hpc]; rfl) rfl (fun hc => by cases hc)
    | exact h.first rfl rfl rfl rfl rfl rfl (by rw [hpc]; rfl) (by show firstPc s.pc = true; rw [hpc]; rfl)
        (fun hc => by rw [show ({ s with rest := _ } : LState).pc = s.pc from rfl, hpc] at hc; cases hc)
    | exact h.firstDone _ rfl rfl rfl rfl rfl (by rw [hpc]; rfl) rfl
    | exact h.takeResult hpc _ rfl rfl rfl rfl rfl rfl (by assumption)
        (by cases hh : hasKey _ s.done <;> simp_all)
    | exact h.toSecond hpc
    | exact h.toAfter hpc (by assumption)
    | exact h.secondItem hpc _ _ _ (by assumption)
    | exact h.item1 hpc
    | exact h.item2 hpc _
    | exact h.item3 hpc _
    | exact h.item4 hpc
    | exact h.item5 hpc _
    | exact h.afterUpdate hpc
    | exact h.scheduled _
    | exact h.finMarked rfl rfl rfl rfl

theorem SInv_step (s : LState) (a : Ans) (h : SInv s) (hB : BOk s a) : SInv (step s a) :=
  step_of_next (P := SInv)
    (fun _ _ h => ⟨h.sdNodup, h.sdRun, h.doneOK, h.cur, h.p2, h.p2end, h.item, h.doneAllNodup, h.failedNamed, h.runLast⟩)
    s a (SInv_next s a h hB)

theorem SInv_init (c : Cfg) : SInv (init c) := by
  refine ⟨(fun hc => nomatch hc), (fun hc => nomatch hc), (fun hc => nomatch hc), (fun hc => nomatch hc),
    (fun hc => by rcases hc with hc | hc <;> cases hc), (fun hc => nomatch hc), (fun hc => nomatch hc), ?_, ?_, ?_⟩
  · simp [init, keys]
  · intro t ht; simp [init, alookup] at ht
  · intro t ht; simp [init] at ht

/-- the structural invariant holds along every run whose poll answers obey contract B -/
theorem SInv_run (c : Cfg) (as : List Ans) (hB : Along BOk (init c) as) : SInv (run (init c) as) :=
  run_inv_along (Inv := SInv) (P := BOk) SInv_step as (init c) (SInv_init c) hB

end SyneTune.Tuner
