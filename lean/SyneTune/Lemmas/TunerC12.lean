import SyneTune.Lemmas.TunerStruct
import SyneTune.Lemmas.TunerBudget
/-
Invariants behind C12: no exception in flight inside the loop; no trial is started in an
iteration that began with the stopping condition true; the `finally` block leaves no visible
trial in progress.
-/
namespace SyneTune.Tuner
open SyneTune AL

/-! ### no exception is in flight while the loop runs -/

def ErrInv (s : LState) : Prop := finPc s.pc = false → s.err = none

theorem addRow_err (s : LState) : (addRow s).err = s.err := by unfold addRow; split <;> rfl
theorem scheduled_err (s : LState) (t : Nat) : (scheduled s t).err = s.err := by
  unfold scheduled addRunning; split <;> rfl
theorem secondItem_err (s : LState) (t : Nat) (st : St) (rest : List (Nat × St)) :
    (secondItem s t st rest).err = s.err := by
  unfold secondItem; repeat' split
  all_goals rfl

/-- a step either leaves `err` alone or enters / stays in the `finally` block -/
theorem next_err (s : LState) (a : Ans) : (next s a).err = s.err ∨ finPc (next s a).pc = true := by
  unfold next
  split
  all_goals (try simp only [])
  all_goals (repeat' split)
  all_goals first
    | exact Or.inl rfl
    | exact Or.inl trivial
    | exact Or.inr rfl
    | exact Or.inl (addRow_err _)
    | exact Or.inl (scheduled_err _ _)
    | exact Or.inl (secondItem_err _ _ _ _)

theorem ErrInv_step (s : LState) (a : Ans) (h : ErrInv s) : ErrInv (step s a) := by
  intro hf
  have hf' : finPc (next s a).pc = false := by rw [← step_pc]; exact hf
  have hs : finPc s.pc = false := by
    cases hh : finPc s.pc
    · rfl
    · rw [fin_closed s a hh] at hf; cases hf
  have : (step s a).err = (next s a).err := by rw [step_eq]; split <;> rfl
  rw [this]
  rcases next_err s a with h1 | h1
  · rw [h1]; exact h hs
  · rw [h1] at hf'; cases hf'

theorem ErrInv_init (c : Cfg) : ErrInv (init c) := fun _ => rfl

/-! ### no start after the stopping condition -/

/-- control points of an iteration up to the end of `_process_new_results` -/
def iterPc : Pc → Bool
  | .loopStart | .fetch | .cbFetch | .nextRes | .decision | .cbResult | .stopCmd | .stopDel | .removeS | .pauseCmd
  | .removeP | .second | .stdoutNM | .stderrNM | .completeS | .completeCb | .errorS | .afterUpd => true
  | _ => false

/-- control points of `_schedule_new_tasks` -/
def startPc : Pc → Bool
  | .schedNew | .busy | .sleepSched | .suggestNext | .suggest | .startCmd | .copyCmd | .addS | .startCb
  | .resumeCmd | .resumeCb => true
  | _ => false

structure JInv (s : LState) : Prop where
  j1 : iterPc s.pc = true → s.stopReached = true → s.cfg.wait = true
  j2 : startPc s.pc = true → s.stopReached = false

theorem JInv.move {s s' : LState} (h : JInv s) (hsr : s'.stopReached = s.stopReached) (hc : s'.cfg = s.cfg)
    (h1 : iterPc s'.pc = true → iterPc s.pc = true) (h2 : startPc s'.pc = true → startPc s.pc = true) : JInv s' :=
  ⟨fun hp hs => by rw [hc]; exact h.j1 (h1 hp) (by rw [← hsr]; exact hs), fun hp => by rw [hsr]; exact h.j2 (h2 hp)⟩

theorem JInv.out {s' : LState} (h1 : iterPc s'.pc = false) (h2 : startPc s'.pc = false) : JInv s' :=
  ⟨(fun hp => by rw [h1] at hp; cases hp), (fun hp => by rw [h2] at hp; cases hp)⟩

theorem addRow_sr (s : LState) : (addRow s).stopReached = s.stopReached := by unfold addRow; split <;> rfl
theorem scheduled_sr (s : LState) (t : Nat) : (scheduled s t).stopReached = s.stopReached := by
  unfold scheduled addRunning; split <;> rfl

theorem JInv.secondItem {s : LState} (h : JInv s) (hp : s.pc = .second) (t : Nat) (st : St) (rest : List (Nat × St)) :
    JInv (secondItem s t st rest) := by
  unfold Tuner.secondItem
  repeat' split
  all_goals first
    | exact h.move rfl rfl (fun _ => by rw [hp]; rfl) (fun hc => by rw [show ({ s with items := rest } : LState).pc = s.pc from rfl, hp] at hc; cases hc)
    | exact h.move rfl rfl (fun _ => by rw [hp]; rfl) (fun hc => by rw [show ({ s with done := _, items := rest } : LState).pc = s.pc from rfl, hp] at hc; cases hc)
    | exact h.move rfl rfl (fun _ => by rw [hp]; rfl) (fun hc => nomatch hc)

theorem JInv.afterUpdate {s : LState} (h : JInv s) (hp : s.pc = .afterUpd) : JInv (afterUpdate s) := by
  unfold Tuner.afterUpdate
  simp only []
  split
  · split
    · exact JInv.out rfl rfl
    · exact JInv.out rfl rfl
  · rename_i hcond
    refine ⟨(fun hc => nomatch hc), fun _ => ?_⟩
    show s.stopReached = false
    cases hsr : s.stopReached
    · rfl
    · have hw := h.j1 (by rw [hp]; rfl) hsr
      simp [hw, hsr] at hcond

theorem JInv.enterLoop {s : LState} (hc : (!s.stopReached || s.cfg.wait && !s.running.isEmpty) = true) :
    JInv { s with pc := .loopStart } := by
  refine ⟨fun _ hs => ?_, (fun hc => nomatch hc)⟩
  have hs' : s.stopReached = true := hs
  rw [hs'] at hc
  simp only [Bool.not_true, Bool.false_or, Bool.and_eq_true] at hc
  exact hc.1

theorem JInv_next (s : LState) (a : Ans) (h : JInv s) : JInv (next s a) := by
  have ha : JInv (addRow s) := ⟨by rw [addRow_pc, addRow_sr, addRow_cfg]; exact h.j1, by rw [addRow_pc, addRow_sr]; exact h.j2⟩
  unfold next
  split
  all_goals (rename_i hpc)
  all_goals (try simp only [])
  all_goals (repeat' split)
  all_goals first
    | exact h
    | exact JInv.enterLoop (by assumption)
    | exact h.secondItem hpc _ _ _
    | exact h.afterUpdate hpc
    | exact h.move rfl rfl (fun _ => by rw [hpc]; rfl) (fun hc => by cases hc)
    | exact h.move rfl rfl (fun hc => by cases hc) (fun _ => by rw [hpc]; rfl)
    | exact ha.move rfl rfl (fun _ => by rw [addRow_pc, hpc]; rfl) (fun hc => by cases hc)
    | exact h.move (scheduled_sr _ _) (scheduled_cfg _ _) (fun hc => by cases hc) (fun _ => by rw [hpc]; rfl)
    | exact h.move rfl rfl (fun _ => by rw [hpc]; rfl) (fun hc => by rw [show ({ s with rest := _ } : LState).pc = s.pc from rfl, hpc] at hc; cases hc)
    | exact JInv.out rfl rfl
    | exact h.move rfl rfl (fun _ => by rw [hpc]; rfl) (fun hc => by cases hc)

theorem JInv_step (s : LState) (a : Ans) (h : JInv s) : JInv (step s a) :=
  step_of_next (P := JInv) (fun _ _ h => ⟨h.j1, h.j2⟩) s a (JInv_next s a h)

theorem JInv_init (c : Cfg) : JInv (init c) := JInv.out rfl rfl

/-! ### the `finally` block stops what is still running -/

/-- the loop of `stop_all` over the visible trials -/
def stopLoopPc : Pc → Bool
  | .finStatusNext | .finStatus | .finStop | .finStopDel => true
  | _ => false

/-- where a visible trial stands in `stop_all` -/
def Stage (s : LState) (t : Nat) : Prop :=
  (stopLoopPc s.pc = true ∧ t ∈ s.dels) ∨ ((s.pc = .finStatus ∨ s.pc = .finStop) ∧ t = s.t) ∨
  alookup t s.bst ≠ some .inProgress

structure FInv (s : LState) : Prop where
  vis0 : (finPc s.pc = false ∨ s.pc = .finTuningEnd ∨ s.pc = .finAll) → s.visible = []
  stage : finPc s.pc = true → s.err ≠ some .envFin → ∀ t ∈ s.visible, Stage s t
  noFinErr : s.pc ≠ .done → s.err ≠ some .envFin

theorem addRow_visible (s : LState) : (addRow s).visible = s.visible := by unfold addRow; split <;> rfl
theorem scheduled_visible (s : LState) (t : Nat) : (scheduled s t).visible = s.visible := by
  unfold scheduled addRunning; split <;> rfl
theorem secondItem_visible (s : LState) (t : Nat) (st : St) (rest : List (Nat × St)) :
    (secondItem s t st rest).visible = s.visible := by
  unfold secondItem; repeat' split
  all_goals rfl

/-- a step that starts from a state with no visible trials yet and does not set them -/
theorem FInv.empty {s s' : LState} (h : FInv s) (hp : finPc s.pc = false ∨ s.pc = .finTuningEnd ∨ s.pc = .finAll)
    (hv : s'.visible = s.visible) (he : s'.err ≠ some .envFin) : FInv s' :=
  ⟨fun _ => by rw [hv]; exact h.vis0 hp, (fun _ _ t ht => by rw [hv, h.vis0 hp] at ht; cases ht), fun _ => he⟩

/-- an exception inside the `finally` block -/
theorem FInv.raised (s : LState) : FInv (exitRaise s) :=
  ⟨(fun hc => by rcases hc with hc | hc | hc <;> cases hc), (fun _ he => absurd rfl he), (fun hc => absurd rfl hc)⟩

/-- a step of the `finally` block past `_all_trial_results` -/
theorem FInv.keep {s s' : LState} (h : FInv s) (hf : finPc s.pc = true) (hf' : finPc s'.pc = true)
    (hnd : s.pc ≠ .done) (hn : s'.pc ≠ .finTuningEnd ∧ s'.pc ≠ .finAll)
    (hv : s'.visible = s.visible) (he : s'.err ≠ some .envFin)
    (hst : ∀ t, Stage s t → t ∈ s.visible → Stage s' t) : FInv s' := by
  refine ⟨fun hc => ?_, fun _ _ t ht => ?_, fun _ => he⟩
  · rcases hc with hc | hc | hc
    · rw [hf'] at hc; cases hc
    · exact absurd hc hn.1
    · exact absurd hc hn.2
  · rw [hv] at ht
    exact hst t (h.stage hf (h.noFinErr hnd) t ht) ht

/-- after the stop loop nothing changes for the visible trials -/
theorem Stage.after {s s' : LState} {t : Nat} (h : Stage s t) (hp : stopLoopPc s.pc = false)
    (hb : s'.bst = s.bst) : Stage s' t := by
  rcases h with ⟨h1, _⟩ | ⟨h1, _⟩ | h1
  · rw [hp] at h1; cases h1
  · rcases h1 with h1 | h1 <;> (rw [h1] at hp; cases hp)
  · exact Or.inr (Or.inr (by rw [hb]; exact h1))

theorem FInv.loopSame {s s' : LState} (h : FInv s) (hE : ErrInv s) (hp : finPc s.pc = false)
    (hv : s'.visible = s.visible) (he : s'.err = s.err) : FInv s' :=
  h.empty (Or.inl hp) hv (by rw [he, hE hp]; exact fun hc => nomatch hc)

theorem FInv.loopRaise {s : LState} (h : FInv s) (hp : finPc s.pc = false) (e : Raised) (he : e ≠ .envFin) :
    FInv (raiseFin s e) :=
  h.empty (Or.inl hp) rfl (by show some e ≠ some Raised.envFin; intro hc; injection hc with hc; exact he hc)

/-- a step of the `finally` block after the stop loop -/
theorem FInv.after {s s' : LState} (h : FInv s) (hf : finPc s.pc = true) (hsl : stopLoopPc s.pc = false)
    (hnd : s.pc ≠ .done)
    (hf' : finPc s'.pc = true) (hn : s'.pc ≠ .finTuningEnd ∧ s'.pc ≠ .finAll)
    (hv : s'.visible = s.visible) (hb : s'.bst = s.bst) (he : s'.err ≠ some .envFin) : FInv s' :=
  h.keep hf hf' hnd hn hv he (fun _ hst _ => hst.after hsl hb)

/-- `_all_trial_results` has answered -/
theorem FInv.visibleSet {s : LState} (h : FInv s) (hp : s.pc = .finAll) (l : List Nat) :
    FInv { s with dels := l, visible := l, pc := .finStatusNext } :=
  ⟨(fun hc => by rcases hc with hc | hc | hc <;> cases hc), (fun _ _ t ht => Or.inl ⟨rfl, ht⟩),
   fun _ => h.noFinErr (by rw [hp]; exact pcne rfl)⟩

theorem FInv.nextStatus {s : LState} (h : FInv s) (hp : s.pc = .finStatusNext) (t : Nat) (rest : List Nat)
    (hd : s.dels = t :: rest) : FInv { s with pc := .finStatus, t := t, dels := rest } := by
  refine h.keep (by rw [hp]; rfl) rfl (by rw [hp]; exact pcne rfl) ⟨pcne rfl, pcne rfl⟩ rfl
    (h.noFinErr (by rw [hp]; exact pcne rfl)) (fun u hst _ => ?_)
  rcases hst with ⟨_, h1⟩ | ⟨h1, _⟩ | h1
  · rw [hd] at h1
    rcases List.mem_cons.mp h1 with h2 | h2
    · exact Or.inr (Or.inl ⟨Or.inl rfl, h2⟩)
    · exact Or.inl ⟨rfl, h2⟩
  · rcases h1 with h1 | h1 <;> (rw [hp] at h1; cases h1)
  · exact Or.inr (Or.inr h1)

theorem FInv.loopDone {s : LState} (h : FInv s) (hp : s.pc = .finStatusNext) (hd : s.dels = []) :
    FInv { s with pc := .finDelAll } := by
  refine h.keep (by rw [hp]; rfl) rfl (by rw [hp]; exact pcne rfl) ⟨pcne rfl, pcne rfl⟩ rfl
    (h.noFinErr (by rw [hp]; exact pcne rfl)) (fun u hst _ => ?_)
  rcases hst with ⟨_, h1⟩ | ⟨h1, _⟩ | h1
  · rw [hd] at h1; cases h1
  · rcases h1 with h1 | h1 <;> (rw [hp] at h1; cases h1)
  · exact Or.inr (Or.inr h1)

/-- the status of the trial whose turn it is has been read: in progress -/
theorem FInv.statusIP {s : LState} (h : FInv s) (hp : s.pc = .finStatus) :
    FInv { s with bst := aset s.t .inProgress s.bst, pc := .finStop } := by
  refine h.keep (by rw [hp]; rfl) rfl (by rw [hp]; exact pcne rfl) ⟨pcne rfl, pcne rfl⟩ rfl
    (h.noFinErr (by rw [hp]; exact pcne rfl)) (fun u hst _ => ?_)
  by_cases hu : u = s.t
  · exact Or.inr (Or.inl ⟨Or.inr rfl, hu⟩)
  · rcases hst with ⟨_, h1⟩ | ⟨_, h1⟩ | h1
    · exact Or.inl ⟨rfl, h1⟩
    · exact absurd h1 hu
    · refine Or.inr (Or.inr ?_)
      show alookup u (aset s.t St.inProgress s.bst) ≠ some St.inProgress
      rw [alookup_aset_ne _ _ _ _ hu]; exact h1

/-- the status of the trial whose turn it is has been read: not in progress -/
theorem FInv.statusOther {s : LState} (h : FInv s) (hp : s.pc = .finStatus) (st : St) (hst0 : st ≠ .inProgress) :
    FInv { s with bst := aset s.t st s.bst, pc := .finStatusNext } := by
  refine h.keep (by rw [hp]; rfl) rfl (by rw [hp]; exact pcne rfl) ⟨pcne rfl, pcne rfl⟩ rfl
    (h.noFinErr (by rw [hp]; exact pcne rfl)) (fun u hst _ => ?_)
  by_cases hu : u = s.t
  · refine Or.inr (Or.inr ?_)
    show alookup u (aset s.t st s.bst) ≠ some St.inProgress
    rw [hu, alookup_aset_self]; intro hc; injection hc with hc; exact hst0 hc
  · rcases hst with ⟨_, h1⟩ | ⟨_, h1⟩ | h1
    · exact Or.inl ⟨rfl, h1⟩
    · exact absurd h1 hu
    · refine Or.inr (Or.inr ?_)
      show alookup u (aset s.t st s.bst) ≠ some St.inProgress
      rw [alookup_aset_ne _ _ _ _ hu]; exact h1

/-- `stop_trial` returned -/
theorem FInv.stoppedOne {s : LState} (h : FInv s) (hp : s.pc = .finStop) (pc' : Pc)
    (hpc : pc' = .finStopDel ∨ pc' = .finStatusNext) :
    FInv { s with bst := aset s.t .stopped s.bst, pc := pc' } := by
  have hsl : stopLoopPc pc' = true := by rcases hpc with h1 | h1 <;> subst h1 <;> rfl
  have hf' : finPc pc' = true := by rcases hpc with h1 | h1 <;> subst h1 <;> rfl
  have hn : pc' ≠ .finTuningEnd ∧ pc' ≠ .finAll := by rcases hpc with h1 | h1 <;> subst h1 <;> exact ⟨pcne rfl, pcne rfl⟩
  refine h.keep (by rw [hp]; rfl) hf' (by rw [hp]; exact pcne rfl) hn rfl
    (h.noFinErr (by rw [hp]; exact pcne rfl)) (fun u hst _ => ?_)
  by_cases hu : u = s.t
  · refine Or.inr (Or.inr ?_)
    show alookup u (aset s.t St.stopped s.bst) ≠ some St.inProgress
    rw [hu, alookup_aset_self]; exact fun hc => nomatch hc
  · rcases hst with ⟨_, h1⟩ | ⟨_, h1⟩ | h1
    · exact Or.inl ⟨hsl, h1⟩
    · exact absurd h1 hu
    · refine Or.inr (Or.inr ?_)
      show alookup u (aset s.t St.stopped s.bst) ≠ some St.inProgress
      rw [alookup_aset_ne _ _ _ _ hu]; exact h1

theorem FInv.delDone {s : LState} (h : FInv s) (hp : s.pc = .finStopDel) (dl : List Nat) :
    FInv { s with pc := .finStatusNext, deleted := dl } := by
  refine h.keep (by rw [hp]; rfl) rfl (by rw [hp]; exact pcne rfl) ⟨pcne rfl, pcne rfl⟩ rfl
    (h.noFinErr (by rw [hp]; exact pcne rfl)) (fun u hst _ => ?_)
  rcases hst with ⟨_, h1⟩ | ⟨h1, _⟩ | h1
  · exact Or.inl ⟨rfl, h1⟩
  · rcases h1 with h1 | h1 <;> (rw [hp] at h1; cases h1)
  · exact Or.inr (Or.inr h1)

theorem FInv.keyErr {s : LState} (h : FInv s) (_hE : ErrInv s) (hp : finPc s.pc = false) (l : List Res) :
    FInv (raiseFin { s with rest := l } .keyError) :=
  h.empty (Or.inl hp) rfl (fun hc => nomatch hc)

theorem FInv_next (s : LState) (a : Ans) (h : FInv s) (hE : ErrInv s) : FInv (next s a) := by
  unfold next
  split
  all_goals (rename_i hpc)
  all_goals (try simp only [])
  all_goals (repeat' split)
  all_goals first
    | exact h
    | exact FInv.raised s
    | exact h.loopSame hE (by rw [hpc]; rfl) rfl rfl
    | exact h.loopSame hE (by rw [hpc]; rfl) (addRow_visible _) (addRow_err _)
    | exact h.loopSame hE (by rw [hpc]; rfl) (scheduled_visible _ _) (scheduled_err _ _)
    | exact h.loopSame hE (by rw [hpc]; rfl) (secondItem_visible _ _ _ _) (secondItem_err _ _ _ _)
    | exact h.loopRaise (by rw [hpc]; rfl) _ (by decide)
    | exact h.loopRaise (by rw [hpc]; rfl) _ (fun hc => nomatch hc)
    | exact h.keyErr hE (by rw [hpc]; rfl) _
    | exact h.empty (Or.inr (Or.inl hpc)) rfl (h.noFinErr (by rw [hpc]; exact pcne rfl))
    | exact h.visibleSet hpc _
    | exact h.nextStatus hpc _ _ (by assumption)
    | exact h.loopDone hpc (by assumption)
    | (rename_i hst; subst hst; exact h.statusIP hpc)
    | exact h.statusOther hpc _ (by assumption)
    | exact h.stoppedOne hpc _ (Or.inl rfl)
    | exact h.stoppedOne hpc _ (Or.inr rfl)
    | exact h.delDone hpc _
    | exact h.after (by rw [hpc]; rfl) (by rw [hpc]; rfl) (by rw [hpc]; exact pcne rfl) rfl ⟨pcne rfl, pcne rfl⟩ rfl rfl
        (h.noFinErr (by rw [hpc]; exact pcne rfl))
    | exact h.after (by rw [hpc]; rfl) (by rw [hpc]; rfl) (by rw [hpc]; exact pcne rfl) rfl ⟨pcne rfl, pcne rfl⟩ rfl rfl
        (fun hc => nomatch hc)

theorem FInv_step (s : LState) (a : Ans) (h : FInv s) (hE : ErrInv s) : FInv (step s a) :=
  step_of_next (P := FInv) (fun _ _ h => ⟨h.vis0, h.stage, h.noFinErr⟩) s a (FInv_next s a h hE)

theorem FInv_init (c : Cfg) : FInv (init c) :=
  ⟨fun _ => rfl, (fun hc => nomatch hc), (fun _ hc => nomatch hc)⟩

theorem EF_run (c : Cfg) (as : List Ans) : ErrInv (run (init c) as) ∧ FInv (run (init c) as) :=
  run_inv (Inv := fun s => ErrInv s ∧ FInv s) (fun s a h => ⟨ErrInv_step s a h.1, FInv_step s a h.2 h.1⟩)
    as (init c) ⟨ErrInv_init c, FInv_init c⟩


/-! ### overshoot of `max_num_trials_started` -/

theorem eval_false_started {c : Criterion} {ts : TStatus} {clk : Rat} {kc m : Nat}
    (h : c.eval ts clk kc = false) (hm : c.maxStarted = some m) : ts.numStarted ≤ m := by
  unfold Criterion.eval at h
  simp only [Bool.or_eq_false_iff] at h
  have h2 := h.1.1.1.1.1.1.2
  rw [hm] at h2
  simp only [exceedsNat, decide_eq_false_iff_not, Nat.not_lt] at h2
  exact h2

/-- control points of the `for` loop of `_schedule_new_tasks` -/
def schedLoopPc : Pc → Bool
  | .suggestNext | .suggest | .startCmd | .copyCmd | .addS | .startCb | .resumeCmd | .resumeCb => true
  | _ => false

/-- control points at which a false `stop_condition_reached` still bounds the number of trials -/
def beforeSchedPc : Pc → Bool
  | .loopHead | .schedNew | .busy => true
  | p => iterPc p

structure OInv (m : Nat) (s : LState) : Prop where
  o1 : s.status.numStarted ≤ m + s.cfg.nWorkers
  o2 : s.stopReached = false → beforeSchedPc s.pc = true → s.status.numStarted ≤ m
  o3 : schedLoopPc s.pc = true → s.status.numStarted + s.k ≤ m + s.cfg.nWorkers

theorem OInv.move {m : Nat} {s s' : LState} (h : OInv m s) (hst : s'.status.numStarted = s.status.numStarted)
    (hc : s'.cfg = s.cfg) (hsr : s'.stopReached = s.stopReached) (hk : s'.k = s.k)
    (h2 : beforeSchedPc s'.pc = true → beforeSchedPc s.pc = true)
    (h3 : schedLoopPc s'.pc = true → schedLoopPc s.pc = true) : OInv m s' :=
  ⟨by rw [hst, hc]; exact h.o1, fun hs hp => by rw [hst]; exact h.o2 (by rw [← hsr]; exact hs) (h2 hp),
   fun hp => by rw [hst, hk, hc]; exact h.o3 (h3 hp)⟩

theorem OInv.out {m : Nat} {s s' : LState} (h : OInv m s) (hst : s'.status.numStarted = s.status.numStarted)
    (hc : s'.cfg = s.cfg) (h2 : beforeSchedPc s'.pc = false) (h3 : schedLoopPc s'.pc = false) : OInv m s' :=
  ⟨by rw [hst, hc]; exact h.o1, (fun _ hp => by rw [h2] at hp; cases hp), (fun hp => by rw [h3] at hp; cases hp)⟩

/-- `_stop_condition()` has been evaluated -/
theorem OInv.evaluated {m : Nat} {s : LState} (h : OInv m s) (hm : s.cfg.crit.maxStarted = some m) (clk : Rat) :
    OInv m { s with stopReached := stopCond s clk, pc := .loopHead } := by
  refine ⟨h.o1, fun hs _ => ?_, (fun hp => nomatch hp)⟩
  have hs' : stopCond s clk = false := hs
  unfold stopCond at hs'
  simp only [Bool.or_eq_false_iff] at hs'
  exact eval_false_started hs'.1 hm


theorem afterUpdate_numStarted {s : LState} (hS : SInv s) (hp : s.pc = .afterUpd) :
    (afterUpdate s).status.numStarted = s.status.numStarted := by
  have hu : updPc s.pc = true := by rw [hp]; rfl
  have hds := (hS.doneOK hu).2
  have hk' : keys (aupdate s.sd s.done) = keys s.sd := keys_aupdate_of_subset _ _ hds
  have hlast : (afterUpdate s).status.last = aupdate s.status.last (aupdate s.sd s.done) := update_last _ _ _
  unfold TStatus.numStarted
  rw [hlast]
  apply length_aupdate_of_subset
  intro k hk
  rw [hk'] at hk
  obtain ⟨kv, hkv, hkk⟩ := List.mem_map.mp hk
  rw [← hkk]
  exact hS.runLast _ (hS.sdRun hu kv hkv).1

theorem OInv.afterUpdate {m : Nat} {s : LState} (h : OInv m s) (hS : SInv s) (hp : s.pc = .afterUpd) :
    OInv m (afterUpdate s) := by
  have hn := afterUpdate_numStarted hS hp
  rcases afterUpdate_pc s with hh | hh | hh
  · exact h.out hn rfl (by rw [hh]; rfl) (by rw [hh]; rfl)
  · exact h.out hn rfl (by rw [hh]; rfl) (by rw [hh]; rfl)
  · exact h.move hn rfl rfl rfl (fun _ => by rw [hp]; rfl) (fun hc => by rw [hh] at hc; cases hc)

theorem OInv.enter {m : Nat} {s s' : LState} (h : OInv m s) (hJ : JInv s) (hp : s.pc = .schedNew ∨ s.pc = .busy)
    (hst : s'.status = s.status) (hc : s'.cfg = s.cfg) (hp' : s'.pc = .suggestNext)
    (hk : s'.k ≤ s.cfg.nWorkers) : OInv m s' := by
  have hsr : s.stopReached = false := hJ.j2 (by rcases hp with hp | hp <;> rw [hp] <;> rfl)
  have hN := h.o2 hsr (by rcases hp with hp | hp <;> rw [hp] <;> rfl)
  refine ⟨by rw [hst, hc]; exact h.o1, (fun _ hp2 => by rw [hp'] at hp2; cases hp2), fun _ => ?_⟩
  rw [hst, hc]; omega

theorem scheduled_numStarted_le (s : LState) (t : Nat) :
    (scheduled s t).status.numStarted ≤ s.status.numStarted + 1 := by
  have hlast : (scheduled s t).status.last = aset t .inProgress s.status.last := by
    unfold scheduled addRunning
    split <;> exact update_last _ _ _
  unfold TStatus.numStarted
  rw [hlast, length_aset]
  split <;> omega

theorem scheduled_k (s : LState) (t : Nat) : (scheduled s t).k = s.k - 1 := by
  unfold scheduled addRunning; split <;> rfl

theorem OInv.scheduled {m : Nat} {s : LState} (h : OInv m s) (hp : schedLoopPc s.pc = true) (hk : 1 ≤ s.k) (t : Nat) :
    OInv m (scheduled s t) := by
  have h3 := h.o3 hp
  have hle := scheduled_numStarted_le s t
  refine ⟨?_, (fun _ hc => nomatch hc), fun _ => ?_⟩
  · rw [scheduled_cfg]; omega
  · rw [scheduled_cfg, scheduled_k]; omega

theorem secondItem_status (s : LState) (t : Nat) (st : St) (rest : List (Nat × St)) :
    (secondItem s t st rest).status = s.status := by
  unfold secondItem; repeat' split
  all_goals rfl
theorem secondItem_sr (s : LState) (t : Nat) (st : St) (rest : List (Nat × St)) :
    (secondItem s t st rest).stopReached = s.stopReached := by
  unfold secondItem; repeat' split
  all_goals rfl
theorem secondItem_k (s : LState) (t : Nat) (st : St) (rest : List (Nat × St)) :
    (secondItem s t st rest).k = s.k := by
  unfold secondItem; repeat' split
  all_goals rfl
theorem secondItem_iter (s : LState) (t : Nat) (st : St) (rest : List (Nat × St)) (hp : s.pc = .second) :
    iterPc (secondItem s t st rest).pc = true := by
  rcases secondItem_pc s t st rest with h | h
  · revert h; cases (secondItem s t st rest).pc <;> simp [flow, succs, iterPc]
  · rw [h, hp]; rfl
theorem addRow_status (s : LState) : (addRow s).status = s.status := by unfold addRow; split <;> rfl
theorem addRow_k (s : LState) : (addRow s).k = s.k := by unfold addRow; split <;> rfl

theorem OInv.secondItem {m : Nat} {s : LState} (h : OInv m s) (hp : s.pc = .second) (t : Nat) (st : St)
    (rest : List (Nat × St)) : OInv m (secondItem s t st rest) := by
  have hit := secondItem_iter s t st rest hp
  refine h.move (by rw [secondItem_status]) (secondItem_cfg _ _ _ _) (secondItem_sr _ _ _ _) (secondItem_k _ _ _ _)
    (fun _ => by rw [hp]; rfl) (fun hc => ?_)
  revert hit hc; cases (Tuner.secondItem s t st rest).pc <;> simp [iterPc, schedLoopPc]

theorem OInv_next (m : Nat) (s : LState) (a : Ans) (h : OInv m s) (hm : s.cfg.crit.maxStarted = some m)
    (hS : SInv s) (hJ : JInv s) (hBu : BudgetInv s) : OInv m (next s a) := by
  unfold next
  split
  all_goals (rename_i hpc)
  all_goals (try simp only [])
  all_goals (repeat' split)
  all_goals first
    | exact h
    | exact h.evaluated hm _
    | exact h.afterUpdate hS hpc
    | exact h.secondItem hpc _ _ _
    | exact h.enter hJ (Or.inl hpc) rfl rfl rfl (Nat.sub_le _ _)
    | exact h.enter hJ (Or.inr hpc) rfl rfl rfl (Nat.sub_le _ _)
    | exact h.scheduled (by rw [hpc]; rfl) ((hBu.2 (by rw [hpc]; rfl)).1 (by rw [hpc]; exact pcne rfl)) _
    | exact h.move rfl rfl rfl rfl (fun _ => by rw [hpc]; rfl) (fun hc => by cases hc)
    | exact h.move rfl rfl rfl rfl (fun hc => by cases hc) (fun _ => by rw [hpc]; rfl)
    | exact h.move (by rw [addRow_status]) (addRow_cfg _) (addRow_sr _) (addRow_k _) (fun _ => by rw [hpc]; rfl) (fun hc => by cases hc)
    | exact h.move rfl rfl rfl rfl (fun _ => by rw [hpc]; rfl) (fun hc => by rw [show ({ s with rest := _ } : LState).pc = s.pc from rfl, hpc] at hc; cases hc)
    | exact h.out rfl rfl rfl rfl
    | exact h.out (by show (TStatus.markStopped _).last.length = _; simp [TStatus.markStopped, TStatus.numStarted]) rfl rfl rfl

theorem OInv_step (m : Nat) (s : LState) (a : Ans) (h : OInv m s) (hm : s.cfg.crit.maxStarted = some m)
    (hS : SInv s) (hJ : JInv s) (hBu : BudgetInv s) : OInv m (step s a) :=
  step_of_next (P := OInv m) (fun _ _ h => ⟨h.o1, h.o2, h.o3⟩) s a (OInv_next m s a h hm hS hJ hBu)

theorem OInv_init (m : Nat) (c : Cfg) : OInv m (init c) :=
  ⟨by simp [init, TStatus.numStarted], (fun _ hc => nomatch hc), (fun hc => nomatch hc)⟩

/-- the number of trials the loop has recorded never exceeds `max_num_trials_started + n_workers`
(under contract B) -/
theorem overshoot_run (c : Cfg) (m : Nat) (hm : c.crit.maxStarted = some m) (as : List Ans)
    (hB : Along BOk (init c) as) : OInv m (run (init c) as) := by
  have key : ∀ (as : List Ans) (s : LState), (s.cfg = c ∧ SInv s ∧ JInv s ∧ BudgetInv s ∧ OInv m s) → Along BOk s as →
      (run s as).cfg = c ∧ SInv (run s as) ∧ JInv (run s as) ∧ BudgetInv (run s as) ∧ OInv m (run s as) :=
    run_inv_along (Inv := fun s => s.cfg = c ∧ SInv s ∧ JInv s ∧ BudgetInv s ∧ OInv m s) (P := BOk)
      (fun s a h hp => ⟨by rw [step_cfg]; exact h.1, SInv_step s a h.2.1 hp, JInv_step s a h.2.2.1,
        budget_step s a h.2.2.2.1, OInv_step m s a h.2.2.2.2 (by rw [h.1]; exact hm) h.2.1 h.2.2.1 h.2.2.2.1⟩)
  exact (key as (init c) ⟨rfl, SInv_init c, JInv_init c, budget_init c, OInv_init m c⟩ hB).2.2.2.2


/-! ### how the loop is left -/

theorem secondItem_notfin (s : LState) (t : Nat) (st : St) (rest : List (Nat × St)) (hp : s.pc = .second) :
    finPc (secondItem s t st rest).pc = false := by
  have := secondItem_iter s t st rest hp
  revert this; cases (secondItem s t st rest).pc <;> simp [iterPc, finPc]

theorem afterUpdate_into_fin (s : LState) (hf' : finPc (afterUpdate s).pc = true) :
    s.exhausted = true ∨ (s.cfg.wait = true ∧ s.stopReached = true) := by
  unfold afterUpdate at hf'
  simp only [] at hf'
  split at hf'
  · rename_i hc
    simp only [Bool.or_eq_true, Bool.and_eq_true] at hc
    exact hc
  · cases hf'

theorem next_into_fin (s : LState) (a : Ans) (hf : finPc s.pc = false) (hf' : finPc (next s a).pc = true) :
    (s.pc = .loopHead ∧ s.stopReached = true) ∨
    (s.pc = .afterUpd ∧ (s.exhausted = true ∨ (s.cfg.wait = true ∧ s.stopReached = true))) ∨
    (next s a).err.isSome = true := by
  revert hf'
  unfold next
  split
  all_goals (rename_i hpc)
  all_goals (try simp only [])
  all_goals (repeat' split)
  all_goals (intro hf')
  all_goals first
    | exact Or.inr (Or.inr rfl)
    | exact Or.inr (Or.inl ⟨hpc, afterUpdate_into_fin s hf'⟩)
    | (refine Or.inl ⟨hpc, ?_⟩
       rename_i hc
       cases hsr : s.stopReached
       · rw [hsr] at hc; simp at hc
       · rfl)
    | (exfalso; rw [show finPc _ = false from rfl] at hf'; cases hf'; done)
    | (exfalso; rw [hpc] at hf; cases hf; done)
    | (exfalso; rw [addRow_pc] at hf'; rw [show finPc _ = false from rfl] at hf'; cases hf'; done)
    | (exfalso; rw [secondItem_notfin s _ _ _ hpc] at hf'; cases hf'; done)
    | (exfalso; rw [show finPc _ = finPc s.pc from rfl, hf] at hf'; cases hf'; done)

/-- a list of statuses without `in_progress` splits into the five remaining classes -/
theorem partition_statuses (l : List (Nat × St)) (h : ∀ kv ∈ l, kv.2 ≠ .inProgress) :
    l.length = l.countP (fun kv => kv.2 == .completed) + l.countP (fun kv => kv.2 == .failed)
      + l.countP (fun kv => kv.2 == .stopped) + l.countP (fun kv => kv.2 == .stopping)
      + l.countP (fun kv => kv.2 == .paused) := by
  induction l with
  | nil => rfl
  | cons kv l ih =>
    have ih' := ih (fun x hx => h x (List.mem_cons_of_mem _ hx))
    have hkv := h kv List.mem_cons_self
    obtain ⟨k, v⟩ := kv
    simp only [List.countP_cons, List.length_cons]
    cases v
    · exact absurd rfl hkv
    all_goals (simp only [beq_self_eq_true, if_true, show (St.paused == St.completed) = false from rfl,
      show (St.paused == St.failed) = false from rfl, show (St.paused == St.stopped) = false from rfl,
      show (St.paused == St.stopping) = false from rfl, show (St.stopped == St.completed) = false from rfl,
      show (St.stopped == St.failed) = false from rfl, show (St.stopped == St.stopping) = false from rfl,
      show (St.stopped == St.paused) = false from rfl, show (St.stopping == St.completed) = false from rfl,
      show (St.stopping == St.failed) = false from rfl, show (St.stopping == St.stopped) = false from rfl,
      show (St.stopping == St.paused) = false from rfl, show (St.completed == St.failed) = false from rfl,
      show (St.completed == St.stopped) = false from rfl, show (St.completed == St.stopping) = false from rfl,
      show (St.completed == St.paused) = false from rfl, show (St.failed == St.completed) = false from rfl,
      show (St.failed == St.stopped) = false from rfl, show (St.failed == St.stopping) = false from rfl,
      show (St.failed == St.paused) = false from rfl, Bool.false_eq_true, if_false]; omega)

end SyneTune.Tuner
