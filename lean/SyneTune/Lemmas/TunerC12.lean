import SyneTune.Lemmas.TunerStruct
import SyneTune.Lemmas.TunerBudget
/-
Invariants behind C12: no exception in flight inside the loop; no trial is started in an
iteration that began with the stopping condition true; the `finally` block leaves no visible
trial in progress.
-/
namespace SyneTune.Tuner
open SyneTune AL

/-! ### no exception is in flight while the loop runs -/

def ErrInv (s : LState) : Prop := finPc s.pc = false → s.err = none

theorem addRow_err (s : LState) : (addRow s).err = s.err := by unfold addRow; split <;> rfl
theorem scheduled_err (s : LState) (t : Nat) : (scheduled s t).err = s.err := by
  unfold scheduled addRunning; split <;> rfl
theorem secondItem_err (s : LState) (t : Nat) (st : St) (rest : List (Nat × St)) :
    (secondItem s t st rest).err = s.err := by
  unfold secondItem; repeat' split
  all_goals rfl

/-- a step either leaves `err` alone or enters / stays in the `finally` block -/
theorem next_err (s : LState) (a : Ans) : (next s a).err = s.err ∨ finPc (next s a).pc = true := by
  unfold next
  split
  all_goals (try simp only [])
  all_goals (repeat' split)
  all_goals first
    | exact Or.inl rfl
    | exact Or.inl trivial
    | exact Or.inr rfl
    | exact Or.inl (addRow_err _)
    | exact Or.inl (scheduled_err _ _)
    | exact Or.inl (secondItem_err _ _ _ _)

theorem ErrInv_step (s : LState) (a : Ans) (h : ErrInv s) : ErrInv (step s a) := by
  intro hf
  have hf' : finPc (next s a).pc = false := by rw [← step_pc]; exact hf
  have hs : finPc s.pc = false := by
    cases hh : finPc s.pc
    · rfl
    · rw [fin_closed s a hh] at hf; cases hf
  have : (step s a).err = (next s a).err := by rw [step_eq]; split <;> rfl
  rw [this]
  rcases next_err s a with h1 | h1
  · rw [h1]; exact h hs
  · rw [h1] at hf'; cases hf'

theorem ErrInv_init (c : Cfg) : ErrInv (init c) := fun _ => rfl

/-! ### no start after the stopping condition -/

/-- control points of an iteration up to the end of `_process_new_results` -/
def iterPc : Pc → Bool
  | .loopStart | .fetch | .cbFetch | .nextRes | .decision | .cbResult | .stopCmd | .stopDel | .removeS | .pauseCmd
  | .removeP | .second | .stdoutNM | .stderrNM | .completeS | .completeCb | .errorS | .afterUpd => true
  | _ => false

/-- control points of `_schedule_new_tasks` -/
def startPc : Pc → Bool
  | .schedNew | .busy | .sleepSched | .suggestNext | .suggest | .startCmd | .copyCmd | .addS | .startCb
  | .resumeCmd | .resumeCb => true
  | _ => false

structure JInv (s : LState) : Prop where
  j1 : iterPc s.pc = true → s.stopReached = true → s.cfg.wait = true
  j2 : startPc s.pc = true → s.stopReached = false

theorem JInv.move {s s' : LState} (h : JInv s) (hsr : s'.stopReached = s.stopReached) (hc : s'.cfg = s.cfg)
    (h1 : iterPc s'.pc = true → iterPc s.pc = true) (h2 : startPc s'.pc = true → startPc s.pc = true) : JInv s' :=
  ⟨fun hp hs => by rw [hc]; exact h.j1 (h1 hp) (by rw [← hsr]; exact hs), fun hp => by rw [hsr]; exact h.j2 (h2 hp)⟩

theorem JInv.out {s' : LState} (h1 : iterPc s'.pc = false) (h2 : startPc s'.pc = false) : JInv s' :=
  ⟨(fun hp => by rw [h1] at hp; cases hp), (fun hp => by rw [h2] at hp; cases hp)⟩

theorem addRow_sr (s : LState) : (addRow s).stopReached = s.stopReached := by unfold addRow; split <;> rfl
theorem scheduled_sr (s : LState) (t : Nat) : (scheduled s t).stopReached = s.stopReached := by
  unfold scheduled addRunning; split <;> rfl

theorem JInv.secondItem {s : LState} (h : JInv s) (hp : s.pc = .second) (t : Nat) (st : St) (rest : List (Nat × St)) :
    JInv (secondItem s t st rest) := by
  unfold Tuner.secondItem
  repeat' split
  all_goals first
    | exact h.move rfl rfl (fun _ => by rw [hp]; rfl) (fun hc => by rw [show ({ s with items := rest } : LState).pc = s.pc from rfl, hp] at hc; cases hc)
    | exact h.move rfl rfl (fun _ => by rw [hp]; rfl) (fun hc => by rw [show ({ s with done := _, items := rest } : LState).pc = s.pc from rfl, hp] at hc; cases hc)
    | exact h.move rfl rfl (fun _ => by rw [hp]; rfl) (fun hc => nomatch hc)

theorem JInv.afterUpdate {s : LState} (h : JInv s) (hp : s.pc = .afterUpd) : JInv (afterUpdate s) := by
  unfold Tuner.afterUpdate
  simp only []
  split
  · split
    · exact JInv.out rfl rfl
    · exact JInv.out rfl rfl
  · rename_i hcond
    refine ⟨(fun hc => nomatch hc), fun _ => ?_⟩
    show s.stopReached = false
    cases hsr : s.stopReached
    · rfl
    · have hw := h.j1 (by rw [hp]; rfl) hsr
      simp [hw, hsr] at hcond

theorem JInv.enterLoop {s : LState} (hc : (!s.stopReached || s.cfg.wait && !s.running.isEmpty) = true) :
    JInv { s with pc := .loopStart } := by
  refine ⟨fun _ hs => ?_, (fun hc => nomatch hc)⟩
  have hs' : s.stopReached = true := hs
  rw [hs'] at hc
  simp only [Bool.not_true, Bool.false_or, Bool.and_eq_true] at hc
  exact hc.1

theorem JInv_next (s : LState) (a : Ans) (h : JInv s) : JInv (next s a) := by
  have ha : JInv (addRow s) := ⟨by rw [addRow_pc, addRow_sr, addRow_cfg]; exact h.j1, by rw [addRow_pc, addRow_sr]; exact h.j2⟩
  unfold next
  split
  all_goals (rename_i hpc)
  all_goals (try simp only [])
  all_goals (repeat' split)
  all_goals first
    | exact h
    | exact JInv.enterLoop (by assumption)
    | exact h.secondItem hpc _ _ _
    | exact h.afterUpdate hpc
    | exact h.move rfl rfl (fun _ => by rw [hpc]; rfl) (fun hc => by cases hc)
    | exact h.move rfl rfl (fun hc => by cases hc) (fun _ => by rw [hpc]; rfl)
    | exact ha.move rfl rfl (fun _ => by rw [addRow_pc, hpc]; rfl) (fun hc => by cases hc)
    | exact h.move (scheduled_sr _ _) (scheduled_cfg _ _) (fun hc => by cases hc) (fun _ => by rw [hpc]; rfl)
    | exact h.move rfl rfl (fun _ => by rw [hpc]; rfl) (fun hc => by rw [show ({ s with rest := _ } : LState).pc = s.pc from rfl, hpc] at hc; cases hc)
    | exact JInv.out rfl rfl
    | exact h.move rfl rfl (fun _ => by rw [hpc]; rfl) (fun hc => by cases hc)

theorem JInv_step (s : LState) (a : Ans) (h : JInv s) : JInv (step s a) :=
  step_of_next (P := JInv) (fun _ _ h => ⟨h.j1, h.j2⟩) s a (JInv_next s a h)

theorem JInv_init (c : Cfg) : JInv (init c) := JInv.out rfl rfl

/-! ### the `finally` block stops what is still running -/

/-- the loop of `stop_all` over the visible trials -/
def stopLoopPc : Pc → Bool
  | .finStatusNext | .finStatus | .finStop | .finStopDel => true
  | _ => false

/-- where a visible trial stands in `stop_all` -/
def Stage (s : LState) (t : Nat) : Prop :=
  (stopLoopPc s.pc = true ∧ t ∈ s.dels) ∨ ((s.pc = .finStatus ∨ s.pc = .finStop) ∧ t = s.t) ∨
  alookup t s.bst ≠ some .inProgress

structure FInv (s : LState) : Prop where
  vis0 : (finPc s.pc = false ∨ s.pc = .finTuningEnd ∨ s.pc = .finAll) → s.visible = []
  stage : finPc s.pc = true → s.err ≠ some .envFin → ∀ t ∈ s.visible, Stage s t
  noFinErr : s.pc ≠ .done → s.err ≠ some .envFin

theorem addRow_visible (s : LState) : (addRow s).visible = s.visible := by unfold addRow; split <;> rfl
theorem scheduled_visible (s : LState) (t : Nat) : (scheduled s t).visible = s.visible := by
  unfold scheduled addRunning; split <;> rfl
theorem secondItem_visible (s : LState) (t : Nat) (st : St) (rest : List (Nat × St)) :
    (secondItem s t st rest).visible = s.visible := by
  unfold secondItem; repeat' split
  all_goals rfl

/-- a step that starts from a state with no visible trials yet and does not set them -/
theorem FInv.empty {s s' : LState} (h : FInv s) (hp : finPc s.pc = false ∨ s.pc = .finTuningEnd ∨ s.pc = .finAll)
    (hv : s'.visible = s.visible) (he : s'.err ≠ some .envFin) : FInv s' :=
  ⟨fun _ => by rw [hv]; exact h.vis0 hp, fun _ _ t ht => by rw [hv, h.vis0 hp] at ht; cases ht, fun _ => he⟩

/-- an exception inside the `finally` block -/
theorem FInv.raised (s : LState) : FInv (exitRaise s) :=
  ⟨(fun hc => by rcases hc with hc | hc | hc <;> cases hc), (fun _ he => absurd rfl he), (fun hc => absurd rfl hc)⟩

/-- a step of the `finally` block past `_all_trial_results` -/
theorem FInv.keep {s s' : LState} (h : FInv s) (hf : finPc s.pc = true) (hf' : finPc s'.pc = true)
    (hnd : s.pc ≠ .done) (hn : s'.pc ≠ .finTuningEnd ∧ s'.pc ≠ .finAll)
    (hv : s'.visible = s.visible) (he : s'.err ≠ some .envFin)
    (hst : ∀ t, Stage s t → t ∈ s.visible → Stage s' t) : FInv s' := by
  refine ⟨fun hc => ?_, fun _ _ t ht => ?_, fun _ => he⟩
  · rcases hc with hc | hc | hc
    · rw [hf'] at hc; cases hc
    · exact absurd hc hn.1
    · exact absurd hc hn.2
  · rw [hv] at ht
    exact hst t (h.stage hf (h.noFinErr hnd) t ht) ht

/-- after the stop loop nothing changes for the visible trials -/
theorem Stage.after {s s' : LState} {t : Nat} (h : Stage s t) (hp : stopLoopPc s.pc = false)
    (hb : s'.bst = s.bst) : Stage s' t := by
  rcases h with ⟨h1, _⟩ | ⟨h1, _⟩ | h1
  · rw [hp] at h1; cases h1
  · rcases h1 with h1 | h1 <;> (rw [h1] at hp; cases hp)
  · exact Or.inr (Or.inr (by rw [hb]; exact h1))

theorem FInv_next (s : LState) (a : Ans) (h : FInv s) (hE : ErrInv s) : FInv (next s a) := by
  unfold next
  split
  all_goals (rename_i hpc)
  all_goals (try simp only [])
  all_goals (repeat' split)
  all_goals first
    | exact h
    | exact FInv.raised s
    | exact h.empty (Or.inl (by rw [hpc]; rfl)) rfl (by rw [show (_ : LState).err = s.err from rfl, hE (by rw [hpc]; rfl)]; exact fun hc => nomatch hc)
    | exact h.empty (Or.inl (by rw [hpc]; rfl)) rfl (fun hc => nomatch hc)
    | skip
  all_goals (trace_state; sorry)

end SyneTune.Tuner
