import SyneTune.Model.SyncBracket
import Mathlib.Tactic.Linarith
/- Helper lemmas about `get_top_list` (`topSel`, `topList`, `remainingList`). -/
namespace SyneTune.Sync
open SyneTune

/-- `x` ranks strictly before `y`: smaller key, or equal key and earlier position. -/
def Better (m : Mode) (x y : TEntry × Nat) : Prop :=
  keyOf m x.1.2 < keyOf m y.1.2 ∨ (keyOf m x.1.2 = keyOf m y.1.2 ∧ x.2 < y.2)

def IsValid (e : TEntry) : Prop := e.2.isNan = false

theorem mem_withPos (l : List TEntry) (i : Nat) (e : TEntry) (j : Nat) :
    (e, j) ∈ withPos l i ↔ i ≤ j ∧ l[j - i]? = some e := by
  induction l generalizing i with
  | nil => simp [withPos]
  | cons x xs ih =>
    simp only [withPos, List.mem_cons, Prod.mk.injEq, ih]
    constructor
    · rintro (⟨rfl, rfl⟩ | ⟨h1, h2⟩)
      · simp
      · refine ⟨by omega, ?_⟩
        have : j - i = (j - (i + 1)) + 1 := by omega
        rw [this]; simpa using h2
    · rintro ⟨h1, h2⟩
      by_cases hji : j = i
      · subst hji; left; simpa using h2.symm
      · right
        refine ⟨by omega, ?_⟩
        have : j - i = (j - (i + 1)) + 1 := by omega
        rw [this] at h2; simpa using h2

theorem withPos_length (l : List TEntry) (i : Nat) : (withPos l i).length = l.length := by
  induction l generalizing i with
  | nil => rfl
  | cons x xs ih => simp [withPos, ih]

theorem withPos_lt (l : List TEntry) (i : Nat) : (withPos l i).Pairwise (fun a b => a.2 < b.2) := by
  induction l generalizing i with
  | nil => simp [withPos]
  | cons x xs ih =>
    simp only [withPos, List.pairwise_cons]
    refine ⟨?_, ih (i + 1)⟩
    rintro ⟨e, j⟩ hj
    have := (mem_withPos xs (i + 1) e j).mp hj
    simp only; omega

theorem withPos_map_fst (l : List TEntry) (i : Nat) : (withPos l i).map (·.1) = l := by
  induction l generalizing i with
  | nil => rfl
  | cons x xs ih => simp [withPos, ih]

theorem insertByKey_perm (m : Mode) (e : TEntry × Nat) (l : List (TEntry × Nat)) :
    (insertByKey m e l).Perm (e :: l) := by
  induction l with
  | nil => simp [insertByKey]
  | cons x xs ih =>
    unfold insertByKey; split
    · exact (List.Perm.cons x ih).trans (List.Perm.swap e x xs)
    · exact List.Perm.refl _

theorem stableSort_perm (m : Mode) (l : List (TEntry × Nat)) : (stableSort m l).Perm l := by
  induction l with
  | nil => simp [stableSort]
  | cons x xs ih =>
    simp only [stableSort]
    exact (insertByKey_perm m x _).trans (List.Perm.cons x ih)

theorem Better.key_le {m : Mode} {x y : TEntry × Nat} (h : Better m x y) : keyOf m x.1.2 ≤ keyOf m y.1.2 := by
  rcases h with h | ⟨h, _⟩
  · exact le_of_lt h
  · exact le_of_eq h

theorem insertByKey_sorted (m : Mode) (e : TEntry × Nat) (l : List (TEntry × Nat))
    (hs : l.Pairwise (Better m)) (hpos : ∀ x ∈ l, e.2 < x.2) :
    (insertByKey m e l).Pairwise (Better m) := by
  induction l with
  | nil => simp [insertByKey]
  | cons x xs ih =>
    rw [List.pairwise_cons] at hs
    unfold insertByKey; split
    · rename_i hlt
      rw [List.pairwise_cons]
      refine ⟨?_, ih hs.2 (fun y hy => hpos y (List.mem_cons_of_mem _ hy))⟩
      intro y hy
      have hy' := (insertByKey_perm m e xs).mem_iff.mp hy
      rcases List.mem_cons.mp hy' with rfl | hy'
      · exact Or.inl hlt
      · exact hs.1 y hy'
    · rename_i hnlt
      have hle : keyOf m e.1.2 ≤ keyOf m x.1.2 := not_lt.mp hnlt
      rw [List.pairwise_cons]
      refine ⟨?_, List.pairwise_cons.mpr hs⟩
      intro y hy
      have hp := hpos y hy
      rcases List.mem_cons.mp hy with rfl | hy'
      · rcases lt_or_eq_of_le hle with h | h
        · exact Or.inl h
        · exact Or.inr ⟨h, hp⟩
      · have := (hs.1 y hy').key_le
        rcases lt_or_eq_of_le (le_trans hle this) with h | h
        · exact Or.inl h
        · exact Or.inr ⟨h, hp⟩

theorem stableSort_sorted (m : Mode) (l : List (TEntry × Nat)) (h : l.Pairwise (fun a b => a.2 < b.2)) :
    (stableSort m l).Pairwise (Better m) := by
  induction l with
  | nil => simp [stableSort]
  | cons x xs ih =>
    rw [List.pairwise_cons] at h
    simp only [stableSort]
    apply insertByKey_sorted m x _ (ih h.2)
    intro y hy
    exact h.1 y ((stableSort_perm m xs).mem_iff.mp hy)

/-- valid entries with positions -/
def validPos (rung : List TEntry) : List (TEntry × Nat) := (withPos rung 0).filter (fun x => !x.1.2.isNan)
def failedPos (rung : List TEntry) : List (TEntry × Nat) := (withPos rung 0).filter (fun x => x.1.2.isNan)

theorem mem_validPos (rung : List TEntry) (e : TEntry) (j : Nat) :
    (e, j) ∈ validPos rung ↔ rung[j]? = some e ∧ IsValid e := by
  unfold validPos IsValid
  rw [List.mem_filter, mem_withPos]
  simp

theorem mem_failedPos (rung : List TEntry) (e : TEntry) (j : Nat) :
    (e, j) ∈ failedPos rung ↔ rung[j]? = some e ∧ e.2.isNan = true := by
  unfold failedPos
  rw [List.mem_filter, mem_withPos]
  simp

theorem validPos_lt (rung : List TEntry) : (validPos rung).Pairwise (fun a b => a.2 < b.2) :=
  List.Pairwise.sublist List.filter_sublist (withPos_lt rung 0)

theorem failedPos_lt (rung : List TEntry) : (failedPos rung).Pairwise (fun a b => a.2 < b.2) :=
  List.Pairwise.sublist List.filter_sublist (withPos_lt rung 0)

theorem validPos_length (rung : List TEntry) :
    (validPos rung).length = (rung.filter (fun e => !e.2.isNan)).length := by
  unfold validPos
  have : ((withPos rung 0).filter (fun x => !x.1.2.isNan)).map (·.1)
      = rung.filter (fun e => !e.2.isNan) := by
    have h := withPos_map_fst rung 0
    conv_rhs => rw [← h]
    rw [List.filter_map]; rfl
  rw [← this, List.length_map]

theorem valid_failed_length (rung : List TEntry) :
    (validPos rung).length + (failedPos rung).length = rung.length := by
  unfold validPos failedPos
  rw [← withPos_length rung 0]
  generalize withPos rung 0 = l
  induction l with
  | nil => rfl
  | cons x xs ih =>
    simp only [List.filter_cons]
    cases h : x.1.2.isNan <;> simp <;> omega

theorem topSel_eq (rung : List TEntry) (n : Nat) (m : Mode) :
    topSel rung n m =
      if n ≤ (validPos rung).length then (stableSort m (validPos rung)).take n
      else validPos rung ++ (failedPos rung).take (n - (validPos rung).length) := rfl

/-- every selected element is an entry of the rung at its position -/
theorem topSel_mem (rung : List TEntry) (n : Nat) (m : Mode) (x : TEntry × Nat)
    (hx : x ∈ topSel rung n m) : rung[x.2]? = some x.1 := by
  rw [topSel_eq] at hx
  split at hx
  · have := (stableSort_perm m (validPos rung)).mem_iff.mp (List.mem_of_mem_take hx)
    exact ((mem_validPos rung x.1 x.2).mp this).1
  · rcases List.mem_append.mp hx with h | h
    · exact ((mem_validPos rung x.1 x.2).mp h).1
    · exact ((mem_failedPos rung x.1 x.2).mp (List.mem_of_mem_take h)).1

theorem lt_pairwise_nodup (l : List (TEntry × Nat)) (h : l.Pairwise (fun a b => a.2 < b.2)) :
    (l.map (·.2)).Nodup := by
  rw [List.Nodup, List.pairwise_map]
  exact h.imp (fun hab => Nat.ne_of_lt hab)

/-- positions of the selected entries are pairwise distinct -/
theorem topSel_nodup (rung : List TEntry) (n : Nat) (m : Mode) :
    ((topSel rung n m).map (·.2)).Nodup := by
  rw [topSel_eq]
  split
  · have hp : ((stableSort m (validPos rung)).map (·.2)).Perm ((validPos rung).map (·.2)) :=
      (stableSort_perm m _).map _
    have hn := hp.nodup_iff.mpr (lt_pairwise_nodup _ (validPos_lt rung))
    exact hn.sublist ((List.take_sublist _ _).map _)
  · rw [List.map_append]
    have h1 := lt_pairwise_nodup _ (validPos_lt rung)
    have h2 : (((failedPos rung).take (n - (validPos rung).length)).map (·.2)).Nodup :=
      (lt_pairwise_nodup _ (failedPos_lt rung)).sublist ((List.take_sublist _ _).map _)
    refine List.nodup_append.mpr ⟨h1, h2, ?_⟩
    intro a ha b hb hab
    subst hab
    simp only [List.mem_map] at ha hb
    obtain ⟨x, hx, rfl⟩ := ha
    obtain ⟨y, hy, hxy⟩ := hb
    have hx' := (mem_validPos rung x.1 x.2).mp hx
    have hy' := (mem_failedPos rung y.1 y.2).mp (List.mem_of_mem_take hy)
    rw [hxy, hx'.1] at hy'
    have := hx'.2
    unfold IsValid at this
    have h3 : y.1 = x.1 := by simpa using hy'.1.symm
    rw [h3] at hy'
    simp [this] at hy'

/-- the new rung gets exactly `n` entries when the completed rung has at least `n` -/
theorem topSel_length (rung : List TEntry) (n : Nat) (m : Mode) (h : n ≤ rung.length) :
    (topSel rung n m).length = n := by
  rw [topSel_eq]
  split
  · rename_i hv
    rw [List.length_take, (stableSort_perm m _).length_eq]; omega
  · rw [List.length_append, List.length_take]
    have := valid_failed_length rung
    omega

/-- enough valid entries: only valid entries are selected -/
theorem topSel_valid (rung : List TEntry) (n : Nat) (m : Mode) (h : n ≤ (validPos rung).length)
    (x : TEntry × Nat) (hx : x ∈ topSel rung n m) : IsValid x.1 := by
  rw [topSel_eq, if_pos h] at hx
  have := (stableSort_perm m (validPos rung)).mem_iff.mp (List.mem_of_mem_take hx)
  exact ((mem_validPos rung x.1 x.2).mp this).2

/-- enough valid entries: the new rung is ordered by (key, position) -/
theorem topSel_sorted (rung : List TEntry) (n : Nat) (m : Mode) (h : n ≤ (validPos rung).length) :
    (topSel rung n m).Pairwise (Better m) := by
  rw [topSel_eq, if_pos h]
  exact (stableSort_sorted m _ (validPos_lt rung)).sublist (List.take_sublist _ _)

/-- enough valid entries: every selected entry ranks strictly before every valid entry which
is not selected -/
theorem topSel_best (rung : List TEntry) (n : Nat) (m : Mode) (h : n ≤ (validPos rung).length)
    (x : TEntry × Nat) (hx : x ∈ topSel rung n m) (j : Nat) (e : TEntry)
    (hj : rung[j]? = some e) (hv : IsValid e) (hn : j ∉ (topSel rung n m).map (·.2)) :
    Better m x (e, j) := by
  rw [topSel_eq, if_pos h] at hx hn
  have hmem : (e, j) ∈ stableSort m (validPos rung) :=
    (stableSort_perm m _).mem_iff.mpr ((mem_validPos rung e j).mpr ⟨hj, hv⟩)
  have hsplit := List.take_append_drop n (stableSort m (validPos rung))
  have hdrop : (e, j) ∈ (stableSort m (validPos rung)).drop n := by
    rw [← hsplit] at hmem
    rcases List.mem_append.mp hmem with h1 | h1
    · exact absurd (List.mem_map.mpr ⟨(e, j), h1, rfl⟩) hn
    · exact h1
  have hs := stableSort_sorted m _ (validPos_lt rung)
  rw [← hsplit, List.pairwise_append] at hs
  exact hs.2.2 x hx (e, j) hdrop

/-- too few valid entries: every valid entry is selected -/
theorem topSel_all_valid (rung : List TEntry) (n : Nat) (m : Mode) (h : ¬ n ≤ (validPos rung).length)
    (j : Nat) (e : TEntry) (hj : rung[j]? = some e) (hv : IsValid e) : (e, j) ∈ topSel rung n m := by
  rw [topSel_eq, if_neg h]
  exact List.mem_append_left _ ((mem_validPos rung e j).mpr ⟨hj, hv⟩)

/-- `topList` as positions: the id at the selected position -/
theorem topList_mem (rung : List TEntry) (n : Nat) (m : Mode) (t : Option Nat)
    (ht : t ∈ topList rung n m) : ∃ e ∈ rung, e.1 = t := by
  unfold topList at ht
  obtain ⟨x, hx, rfl⟩ := List.mem_map.mp ht
  have := topSel_mem rung n m x hx
  exact ⟨x.1, List.mem_of_getElem? this, rfl⟩

theorem topList_length (rung : List TEntry) (n : Nat) (m : Mode) (h : n ≤ rung.length) :
    (topList rung n m).length = n := by
  unfold topList; rw [List.length_map, topSel_length rung n m h]

/-- ids in the top list are pairwise distinct if the ids of the rung are (counting only
real ids, not `None`) -/
theorem topList_nodup (rung : List TEntry) (n : Nat) (m : Mode)
    (h : (rung.filterMap (·.1)).Nodup) : ((topList rung n m).filterMap id).Nodup := by
  -- positions are distinct, and distinct positions with real ids carry distinct ids
  have hpos := topSel_nodup rung n m
  have hmem := topSel_mem rung n m
  unfold topList
  generalize topSel rung n m = S at hpos hmem
  induction S with
  | nil => simp
  | cons x xs ih =>
    simp only [List.map_cons, List.nodup_cons] at hpos
    have ih' := ih hpos.2 (fun y hy => hmem y (List.mem_cons_of_mem _ hy))
    simp only [List.map_cons]
    cases hx : x.1.1 with
    | none => simpa [List.filterMap_cons, hx] using ih'
    | some t =>
      simp only [List.filterMap_cons, id, List.nodup_cons]
      refine ⟨?_, ih'⟩
      intro hc
      simp only [List.mem_filterMap, List.mem_map, id] at hc
      obtain ⟨o, ⟨y, hy, rfl⟩, hyo⟩ := hc
      have h1 := hmem x (by simp)
      have h2 := hmem y (List.mem_cons_of_mem _ hy)
      have hne : x.2 ≠ y.2 := fun heq => hpos.1 (heq ▸ List.mem_map.mpr ⟨y, hy, rfl⟩)
      -- two different positions of `rung` with the same real id contradict `h`
      clear ih ih' hpos hmem
      have key : ∀ (l : List TEntry) (i j : Nat) (a b : TEntry), (l.filterMap (·.1)).Nodup →
          l[i]? = some a → l[j]? = some b → a.1 = some t → b.1 = some t → i = j := by
        intro l
        induction l with
        | nil => intro i j a b _ hi; simp at hi
        | cons z zs ihz =>
          intro i j a b hnd hi hj ha hb
          cases i with
          | zero =>
            cases j with
            | zero => rfl
            | succ j =>
              simp only [List.getElem?_cons_zero, Option.some.injEq] at hi
              simp only [List.getElem?_cons_succ] at hj
              subst hi
              simp only [List.filterMap_cons, ha, List.nodup_cons] at hnd
              exact absurd (List.mem_filterMap.mpr ⟨b, List.mem_of_getElem? hj, hb⟩) hnd.1
          | succ i =>
            cases j with
            | zero =>
              simp only [List.getElem?_cons_zero, Option.some.injEq] at hj
              simp only [List.getElem?_cons_succ] at hi
              subst hj
              simp only [List.filterMap_cons, hb, List.nodup_cons] at hnd
              exact absurd (List.mem_filterMap.mpr ⟨a, List.mem_of_getElem? hi, ha⟩) hnd.1
            | succ j =>
              simp only [List.getElem?_cons_succ] at hi hj
              have hnd' : (zs.filterMap (·.1)).Nodup := by
                simp only [List.filterMap_cons] at hnd
                cases hz : z.1 with
                | none => simpa [hz] using hnd
                | some u => simp only [hz, List.nodup_cons] at hnd; exact hnd.2
              rw [ihz i j a b hnd' hi hj ha hb]
      exact hne (key rung x.2 y.2 x.1 y.1 h h1 h2 hx hyo)

/-! ### `remainingList` -/

theorem mem_remainingList (rung : List TEntry) (top : List (Option Nat)) (t : Option Nat) :
    t ∈ remainingList rung top ↔ (∃ e ∈ rung, e.1 = t) ∧ t ∉ top := by
  unfold remainingList
  simp only [List.mem_map, List.mem_filter, Bool.not_eq_true', List.contains_eq_mem,
    decide_eq_false_iff_not]
  constructor
  · rintro ⟨e, ⟨he, hn⟩, rfl⟩
    exact ⟨⟨e, he, rfl⟩, hn⟩
  · rintro ⟨⟨e, he, rfl⟩, hn⟩
    exact ⟨e, ⟨he, hn⟩, rfl⟩

/-! ### `entriesOf` -/

theorem entriesOf_some (ss : List Slot) (h : ∀ s ∈ ss, s.metric.isSome) : ∃ es, entriesOf ss = some es := by
  induction ss with
  | nil => exact ⟨[], rfl⟩
  | cons s ss ih =>
    obtain ⟨es, hes⟩ := ih (fun x hx => h x (List.mem_cons_of_mem _ hx))
    have hs := h s (by simp)
    cases hm : s.metric with
    | none => simp [hm] at hs
    | some mv => exact ⟨(s.tid, mv) :: es, by simp [entriesOf, hm, hes]⟩

theorem entriesOf_spec (ss : List Slot) (es : List TEntry) (h : entriesOf ss = some es) :
    es.length = ss.length ∧ es.map (·.1) = ss.map (·.tid) ∧
    ∀ (i : Nat) (s : Slot), ss[i]? = some s → ∃ mv, s.metric = some mv ∧ es[i]? = some (s.tid, mv) := by
  induction ss generalizing es with
  | nil =>
    simp only [entriesOf, Option.some.injEq] at h; subst h; simp
  | cons s ss ih =>
    simp only [entriesOf] at h
    cases hm : s.metric with
    | none => simp [hm] at h
    | some mv =>
      cases hes : entriesOf ss with
      | none => simp [hm, hes] at h
      | some es' =>
        simp only [hm, hes, Option.some.injEq] at h
        subst h
        obtain ⟨h1, h2, h3⟩ := ih es' hes
        refine ⟨by simp [h1], by simp [h2], ?_⟩
        intro i x hx
        cases i with
        | zero =>
          simp only [List.getElem?_cons_zero, Option.some.injEq] at hx
          subst hx; exact ⟨mv, hm, by simp⟩
        | succ i =>
          simp only [List.getElem?_cons_succ] at hx ⊢
          exact h3 i x hx

end SyneTune.Sync
