import SyneTune.Lemmas.SimStop
/-
`CmdInv`: from a pause / stop command until the next resume the heap holds no event of the
trial; once a poll that does not cover the trial has happened nothing is queued for it either.
-/
namespace SyneTune.SimL
open SyneTune SyneTune.Backend SyneTune.PollL

variable {J : Type}

/-- the command-related ghost fields of a trial -/
def cf (x : STrial) : Bool × Bool := (x.commanded, x.flushed)

theorem map_modifyAt_of_eq {α β} (g : α → β) (f : α → α) (hf : ∀ a, g (f a) = g a) (n : Nat) (l : List α) :
    (modifyAt f n l).map g = l.map g := by
  induction l generalizing n with
  | nil => simp [modifyAt]
  | cons x xs ih => cases n <;> simp [modifyAt, hf, ih]

theorem cf_updT (s : Sim J) (t : Nat) (f : STrial → STrial) (hf : ∀ y, cf (f y) = cf y) :
    (s.updT t f).trials.map cf = s.trials.map cf :=
  map_modifyAt_of_eq cf f hf t s.trials

theorem cf_get {l l' : List STrial} (h : l'.map cf = l.map cf) (u : Nat) (x' : STrial) (hx' : l'[u]? = some x') :
    ∃ x, l[u]? = some x ∧ cf x = cf x' := by
  have := congrArg (fun m => m[u]?) h
  simp only [List.getElem?_map, hx', Option.map_some] at this
  cases hx : l[u]? with
  | none => rw [hx] at this; cases this
  | some x => rw [hx] at this; simp at this; exact ⟨x, rfl, this.symm⟩

theorem processEvent_cf {A : Arith} {job : JobFn J} {s s' : Sim J} {e : Ev}
    (h : s.processEvent A job e = .ok s') : s'.trials.map cf = s.trials.map cf := by
  unfold Sim.processEvent at h
  split at h
  · obtain ⟨x, js', status, rs, _, _, rfl⟩ := processStart_inv h
    have := (pushResults_fields A e.trial e.time x.runs rs ({ s with js := js' } : Sim J) 0 e.time).2.2.1
    simp only [startResult]
    refine (cf_updT _ _ (fun y => { y with runs := y.runs + 1 }) (fun y => rfl)).trans ?_
    simp only [push_trials]
    rw [this]
  · obtain ⟨_, rfl⟩ := processComplete_inv h
    exact cf_updT _ _ _ (fun y => rfl)
  · cases h; rfl
  · obtain ⟨_, rfl⟩ := processResult_inv h
    refine cf_updT _ _ _ (fun y => ?_)
    split <;> rfl

theorem processUntil_cf {A : Arith} {job : JobFn J} {fuel : Nat} {s s' : Sim J}
    (h : Sim.processUntil A job fuel s = .ok s') : s'.trials.map cf = s.trials.map cf := by
  refine processUntil_induct A job (fun x => x.trials.map cf = s.trials.map cf) ?_ fuel s s' rfl h
  intro x e rest x1 hx _ _ hev
  rw [processEvent_cf hev]; exact hx

/-- with no event of `u` in the heap, the event loop leaves `u`'s queue alone -/
theorem processEvent_next {A : Arith} {job : JobFn J} {s s' : Sim J} {e : Ev} {u : Nat}
    (hne : e.trial ≠ u) (h : s.processEvent A job e = .ok s') : alookup u s'.next = alookup u s.next := by
  unfold Sim.processEvent at h
  split at h
  · obtain ⟨x, js', status, rs, _, _, rfl⟩ := processStart_inv h
    have := (pushResults_fields A e.trial e.time x.runs rs ({ s with js := js' } : Sim J) 0 e.time).2.2.2.1
    simp only [startResult, updT_next, push_next]
    rw [this]
  · obtain ⟨_, rfl⟩ := processComplete_inv h; rfl
  · cases h; rfl
  · obtain ⟨_, rfl⟩ := processResult_inv h
    simp only
    rw [alookup_aset, if_neg (fun hh => hne hh.symm)]

theorem processUntil_next {A : Arith} {job : JobFn J} {fuel : Nat} {s s' : Sim J} {u : Nat}
    (hno : NoEv u s.heap) (h : Sim.processUntil A job fuel s = .ok s') :
    NoEv u s'.heap ∧ alookup u s'.next = alookup u s.next := by
  refine processUntil_induct A job (fun x => NoEv u x.heap ∧ alookup u x.next = alookup u s.next) ?_
    fuel s s' ⟨hno, rfl⟩ h
  intro x e rest x1 hx hheap _ hev
  have he : e.trial ≠ u := hx.1 e (by rw [hheap]; simp)
  have hr : NoEv u rest := fun e' he' => hx.1 e' (by rw [hheap]; exact List.mem_cons_of_mem _ he')
  exact ⟨processEvent_noEv he hr hev, by rw [processEvent_next he hev]; exact hx.2⟩

/-! ### the status part: `Paused` only by command -/

structure PausedInv (s : Sim J) : Prop where
  st : ∀ (t : Nat) (x : STrial), s.trials[t]? = some x → x.isResult = true → x.status = .paused → x.commanded = true
  ev : ∀ e ∈ s.heap, ∀ nat, e.kind = .complete .paused nat →
        ∃ x, s.trials[e.trial]? = some x ∧ x.commanded = true

theorem PausedInv.processEvent {A : Arith} {job : JobFn J} (hjob : JobStatusOK job) {s s' : Sim J} {e : Ev}
    (hs : PausedInv ({ s with heap := e :: s.heap } : Sim J))
    (h : s.processEvent A job e = .ok s') : PausedInv s' := by
  have hst := hs.st
  have hev : ∀ e' ∈ s.heap, ∀ nat, e'.kind = .complete .paused nat →
      ∃ x, s.trials[e'.trial]? = some x ∧ x.commanded = true :=
    fun e' he' => hs.ev e' (List.mem_cons_of_mem _ he')
  have he0 := hs.ev e (by simp)
  simp only at hst he0
  unfold Sim.processEvent at h
  split at h
  · obtain ⟨x, js', status, rs, hx, hj, rfl⟩ := processStart_inv h
    have htr := (pushResults_fields A e.trial e.time x.runs rs ({ s with js := js' } : Sim J) 0 e.time).2.2.1
    have hget : ∀ u, (startResult A s e.trial e.time x js' status rs).trials[u]? =
        if u = e.trial then (s.trials[u]?).map (fun y => { y with runs := y.runs + 1 }) else s.trials[u]? := by
      intro u
      simp only [startResult]
      rw [updT_get]
      simp only [push_trials, htr]
    constructor
    · intro t y hy hr hp
      rw [hget t] at hy
      by_cases ht : t = e.trial
      · simp only [ht, if_true] at hy
        cases hx0 : s.trials[e.trial]? with
        | none => rw [hx0] at hy; cases hy
        | some x0 =>
          rw [hx0] at hy; simp only [Option.map_some, Option.some.injEq] at hy
          subst hy
          exact hst e.trial x0 hx0 hr hp
      · simp only [ht, if_false] at hy; exact hst t y hy hr hp
    · intro e' he' nat hk
      have hcm : ∀ (u : Nat) (x0 : STrial), s.trials[u]? = some x0 → x0.commanded = true →
          ∃ x1, (startResult A s e.trial e.time x js' status rs).trials[u]? = some x1 ∧ x1.commanded = true := by
        intro u x0 hx0 hc
        rw [hget u]
        by_cases hu : u = e.trial
        · simp only [hu, if_true]; rw [← hu, hx0]; exact ⟨_, rfl, hc⟩
        · simp only [hu, if_false]; exact ⟨x0, hx0, hc⟩
      simp only [startResult, updT_heap, push_heap, mem_insertEv] at he'
      rcases he' with rfl | he'
      · simp only [EvKind.complete.injEq] at hk
        exact absurd hk.1 (hjob _ _ _ _ _ hj)
      · rw [pushResults_mem] at he'
        rcases he' with he' | ⟨k, r, _, rfl⟩
        · obtain ⟨x0, hx0, hc⟩ := hev e' he' nat hk
          exact hcm _ x0 hx0 hc
        · cases hk
  · rename_i stt natt hk
    obtain ⟨hl, rfl⟩ := processComplete_inv h
    constructor
    · intro t y hy hr hp
      rw [updT_get] at hy
      by_cases ht : t = e.trial
      · simp only [ht, if_true] at hy
        cases hx0 : s.trials[e.trial]? with
        | none => rw [hx0] at hy; cases hy
        | some x0 =>
          rw [hx0] at hy; simp only [Option.map_some, Option.some.injEq] at hy
          subst hy
          simp only at hp
          subst hp
          obtain ⟨x1, hx1, hc⟩ := he0 natt hk
          rw [hx0] at hx1; cases hx1; exact hc
      · simp only [ht, if_false] at hy; exact hst t y hy hr hp
    · intro e' he' nat hk'
      obtain ⟨x0, hx0, hc⟩ := hev e' he' nat hk'
      rw [updT_get]
      by_cases hu : e'.trial = e.trial
      · simp only [hu, if_true]; rw [← hu, hx0]; exact ⟨_, rfl, hc⟩
      · simp only [hu, if_false]; exact ⟨x0, hx0, hc⟩
  · cases h
    exact ⟨hst, fun e' he' => hev e' (List.mem_filter.mp he').1⟩
  · obtain ⟨hl, rfl⟩ := processResult_inv h
    constructor
    · intro t y hy hr hp
      rw [updT_get] at hy
      by_cases ht : t = e.trial
      · simp only [ht, if_true] at hy
        cases hx0 : s.trials[e.trial]? with
        | none => rw [hx0] at hy; cases hy
        | some x0 =>
          rw [hx0] at hy; simp only [Option.map_some, Option.some.injEq] at hy
          by_cases hir : x0.isResult = true
          · simp only [hir, if_true] at hy; subst hy; exact hst e.trial x0 hx0 hr hp
          · simp only [hir] at hy; subst hy; simp at hp
      · simp only [ht, if_false] at hy; exact hst t y hy hr hp
    · intro e' he' nat hk'
      obtain ⟨x0, hx0, hc⟩ := hev e' he' nat hk'
      rw [updT_get]
      by_cases hu : e'.trial = e.trial
      · simp only [hu, if_true]; rw [← hu, hx0]
        refine ⟨_, rfl, ?_⟩
        dsimp only
        split <;> exact hc
      · simp only [hu, if_false]; exact ⟨x0, hx0, hc⟩

theorem PausedInv.processUntil {A : Arith} {job : JobFn J} (hjob : JobStatusOK job) {fuel : Nat} {s s' : Sim J}
    (hs : PausedInv s) (h : Sim.processUntil A job fuel s = .ok s') : PausedInv s' := by
  refine processUntil_induct A job PausedInv ?_ fuel s s' hs h
  intro x e rest x1 hx hheap _ hev
  refine PausedInv.processEvent hjob ?_ hev
  exact ⟨hx.st, by intro e' he'; simp only at he'; rw [← hheap] at he'; exact hx.ev e' he'⟩


/-! ### the invariant -/

structure CmdInv (s : Sim J) : Prop where
  heapOK : HeapOK s
  guard : 0 ≤ s.cfg.guard
  paused : PausedInv s
  quiet : ∀ (t : Nat) (x : STrial), s.trials[t]? = some x → x.commanded = true → NoEv t s.heap
  flushed : ∀ (t : Nat) (x : STrial), s.trials[t]? = some x → x.commanded = true → x.flushed = true →
      alookup t s.next = none

/-- status-related fields of a trial -/
def core (x : STrial) : Bool × St × Bool := (x.isResult, x.status, x.commanded)

theorem core_get {l l' : List STrial} (h : l'.map core = l.map core) (u : Nat) (x' : STrial) (hx' : l'[u]? = some x') :
    ∃ x, l[u]? = some x ∧ core x = core x' := by
  have := congrArg (fun m => m[u]?) h
  simp only [List.getElem?_map, hx', Option.map_some] at this
  cases hx : l[u]? with
  | none => rw [hx] at this; cases this
  | some x => rw [hx] at this; simp at this; exact ⟨x, rfl, this.symm⟩

theorem core_get' {l l' : List STrial} (h : l'.map core = l.map core) (u : Nat) (x : STrial) (hx : l[u]? = some x) :
    ∃ x', l'[u]? = some x' ∧ core x' = core x := by
  have := congrArg (fun m => m[u]?) h
  simp only [List.getElem?_map, hx, Option.map_some] at this
  cases hx' : l'[u]? with
  | none => rw [hx'] at this; cases this
  | some x' => rw [hx'] at this; simp at this; exact ⟨x', rfl, this⟩

theorem core_updT (s : Sim J) (t : Nat) (f : STrial → STrial) (hf : ∀ y, core (f y) = core y) :
    (s.updT t f).trials.map core = s.trials.map core :=
  map_modifyAt_of_eq core f hf t s.trials

theorem fetchCovered_core (ids : List Nat) : ∀ (s : Sim J),
    (fetchCovered s ids).1.trials.map core = s.trials.map core ∧
    (fetchCovered s ids).1.trials.map cf = s.trials.map cf := by
  induction ids with
  | nil => intro s; simp [fetchCovered]
  | cons t rest ih =>
    intro s
    unfold fetchCovered
    split
    · exact ih s
    · simp only
      obtain ⟨h1, h2⟩ := ih (Sim.updT { s with next := _, seen := _, log := _ } t _)
      refine ⟨h1.trans ?_, h2.trans ?_⟩
      · exact core_updT _ _ _ (fun y => rfl)
      · exact cf_updT _ _ _ (fun y => rfl)

theorem dropRest_core (l : List (Nat × List Arrived)) : ∀ (s : Sim J),
    (dropRest s l).trials.map core = s.trials.map core ∧ (dropRest s l).trials.map cf = s.trials.map cf := by
  induction l with
  | nil => intro s; simp [dropRest]
  | cons p rest ih =>
    intro s
    obtain ⟨t, q⟩ := p
    unfold dropRest
    obtain ⟨h1, h2⟩ := ih ({ (s.updT t _) with seen := _, log := _ })
    refine ⟨h1.trans ?_, h2.trans ?_⟩
    · exact core_updT _ _ _ (fun y => rfl)
    · exact cf_updT _ _ _ (fun y => rfl)

theorem markFlushed_get (ids : List Nat) (l : List STrial) (u : Nat) :
    (markFlushed ids l)[u]? = (l[u]?).map fun y => if y.commanded ∧ u ∉ ids then { y with flushed := true } else y := by
  unfold markFlushed
  simp only [List.getElem?_map, List.getElem?_zipIdx]
  cases l[u]? with
  | none => rfl
  | some y => simp

/-- the invariant survives a change of the clocks only -/
theorem CmdInv.of_same {s s' : Sim J} (h : CmdInv s) (hh : s'.heap = s.heap) (ha : s'.added = s.added)
    (hc : s'.cfg = s.cfg) (ht : s'.trials = s.trials) (hn : s'.next = s.next) : CmdInv s' := by
  refine ⟨h.heapOK.of_eq hh ha, by rw [hc]; exact h.guard, ⟨?_, ?_⟩, ?_, ?_⟩
  · rw [ht]; exact h.paused.st
  · rw [hh, ht]; exact h.paused.ev
  · rw [hh, ht]; exact h.quiet
  · rw [ht, hn]; exact h.flushed

theorem CmdInv.advanceOutside {A : Arith} {s s' : Sim J} (h : CmdInv s) (ha : s.advanceOutside A = .ok s') : CmdInv s' := by
  obtain ⟨_, rfl⟩ := advance_inv ha
  exact h.of_same rfl rfl rfl rfl rfl

/-- the event loop, started in a state satisfying the invariant for all trials except
possibly `t` -/
theorem CmdInv.processUntil_except {A : Arith} {job : JobFn J} (hjob : JobStatusOK job) {s s' : Sim J} {fuel : Nat}
    (hok : HeapOK s) (hg : 0 ≤ s.cfg.guard) (hp : PausedInv s) (t : Option Nat)
    (hq : ∀ (u : Nat) (x : STrial), some u ≠ t → s.trials[u]? = some x → x.commanded = true → NoEv u s.heap)
    (hf : ∀ (u : Nat) (x : STrial), some u ≠ t → s.trials[u]? = some x → x.commanded = true → x.flushed = true →
      alookup u s.next = none)
    (h : Sim.processUntil A job fuel s = .ok s') :
    HeapOK s' ∧ 0 ≤ s'.cfg.guard ∧ PausedInv s' ∧
    (∀ (u : Nat) (x : STrial), some u ≠ t → s'.trials[u]? = some x → x.commanded = true → NoEv u s'.heap) ∧
    (∀ (u : Nat) (x : STrial), some u ≠ t → s'.trials[u]? = some x → x.commanded = true → x.flushed = true →
      alookup u s'.next = none) := by
  have hcf := processUntil_cf h
  refine ⟨hok.processUntil h, by rw [(processUntil_fields h).2.1]; exact hg, hp.processUntil hjob h, ?_, ?_⟩
  · intro u x' hu hx' hc
    obtain ⟨x, hx, hcfx⟩ := cf_get hcf u x' hx'
    have : x.commanded = true := by
      have := congrArg Prod.fst hcfx; simp only [cf] at this; rw [this]; exact hc
    exact (processUntil_next (hq u x hu hx this) h).1
  · intro u x' hu hx' hc hfl
    obtain ⟨x, hx, hcfx⟩ := cf_get hcf u x' hx'
    have h1 : x.commanded = true := by
      have := congrArg Prod.fst hcfx; simp only [cf] at this; rw [this]; exact hc
    have h2 : x.flushed = true := by
      have := congrArg Prod.snd hcfx; simp only [cf] at this; rw [this]; exact hfl
    rw [(processUntil_next (hq u x hu hx h1) h).2]
    exact hf u x hu hx h1 h2

theorem CmdInv.processUntil {A : Arith} {job : JobFn J} (hjob : JobStatusOK job) {s s' : Sim J} {fuel : Nat}
    (hs : CmdInv s) (h : Sim.processUntil A job fuel s = .ok s') : CmdInv s' := by
  obtain ⟨h1, h2, h3, h4, h5⟩ := CmdInv.processUntil_except hjob hs.heapOK hs.guard hs.paused none
    (fun u x _ => hs.quiet u x) (fun u x _ => hs.flushed u x) h
  exact ⟨h1, h2, h3, fun u x => h4 u x (by simp), fun u x => h5 u x (by simp)⟩


theorem noEv_insert {u t : Nat} {tm : Rat} {c : Nat} {k : EvKind} {l : List Ev} (h : NoEv u l) (hne : t ≠ u) :
    NoEv u (insertEv ⟨tm, c, t, k⟩ l) := by
  intro e he
  rcases (mem_insertEv _ _ _).mp he with rfl | he
  · exact hne
  · exact h e he

/-- `_schedule` up to the push of the start event keeps the invariant -/
theorem CmdInv.schedule_pre {A : Arith} {job : JobFn J} (hjob : JobStatusOK job) {s s' : Sim J} {t : Nat}
    (hs : CmdInv s) (h : s.schedule A job t = .ok s') :
    ∃ s2, CmdInv s2 ∧ s' = (s2.push (A.add s2.now s2.cfg.dStart) t .start).markExit ∧
      s2.trials.map cf = s.trials.map cf ∧ s2.trials.length = s.trials.length := by
  obtain ⟨s1, s2, h1, h2, rfl⟩ := schedule_inv h
  have hl1 : s1.trials = s.trials := by obtain ⟨_, rfl⟩ := advance_inv h1; rfl
  refine ⟨s2, (hs.advanceOutside h1).processUntil hjob h2, rfl, ?_, ?_⟩
  · rw [processUntil_cf h2, hl1]
  · rw [(processUntil_fields h2).2.2.1, hl1]

theorem CmdInv.startTrial {A : Arith} {job : JobFn J} (hjob : JobStatusOK job) {s s' : Sim J} {tid : Nat}
    {setCfg : Nat → J → J} (hs : CmdInv s) (h : s.startTrial A job setCfg = .ok (s', tid)) : CmdInv s' := by
  unfold Sim.startTrial at h
  dsimp only at h
  cases h1 : s.schedule A job s.trials.length with
  | error e => rw [h1] at h; cases h
  | ok s1 =>
    rw [h1] at h
    simp only [Except.ok.injEq, Prod.mk.injEq] at h
    obtain ⟨rfl, _⟩ := h
    obtain ⟨s2, h2, rfl, _, hlen⟩ := hs.schedule_pre hjob h1
    have hget : ∀ (u : Nat) (x : STrial), (s2.trials ++ [({} : STrial)])[u]? = some x →
        s2.trials[u]? = some x ∨ (u = s2.trials.length ∧ x = {}) := by
      intro u x hx
      by_cases hu : u < s2.trials.length
      · rw [List.getElem?_append_left hu] at hx; exact Or.inl hx
      · rw [List.getElem?_append_right (by omega)] at hx
        right
        have : u - s2.trials.length = 0 := by
          by_contra hne
          rw [List.getElem?_eq_none (by simp; omega)] at hx; cases hx
        rw [this] at hx
        simp at hx
        exact ⟨by omega, hx.symm⟩
    refine ⟨(h2.heapOK.push _ _ _).of_eq rfl rfl, h2.guard, ⟨?_, ?_⟩, ?_, ?_⟩
    · intro u x hx hr hp
      rcases hget u x hx with hx | ⟨_, rfl⟩
      · exact h2.paused.st u x hx hr hp
      · simp at hr
    · intro e he nat hk
      simp only [Sim.markExit, push_heap, mem_insertEv] at he
      rcases he with rfl | he
      · cases hk
      · obtain ⟨x, hx, hc⟩ := h2.paused.ev e he nat hk
        refine ⟨x, ?_, hc⟩
        simp only [Sim.markExit, push_trials]
        rw [List.getElem?_append_left (by
          have := List.getElem?_eq_some_iff.mp hx; exact this.1)]
        exact hx
    · intro u x hx hc
      rcases hget u x hx with hx | ⟨_, rfl⟩
      · have := h2.quiet u x hx hc
        simp only [Sim.markExit, push_heap]
        refine noEv_insert this ?_
        have := (List.getElem?_eq_some_iff.mp hx).1
        omega
      · simp at hc
    · intro u x hx hc hf
      rcases hget u x hx with hx | ⟨_, rfl⟩
      · exact h2.flushed u x hx hc hf
      · simp at hc

theorem CmdInv.resumeTrial {A : Arith} {job : JobFn J} (hjob : JobStatusOK job) {s s' : Sim J} {t : Nat}
    {setCfg : J → J} (hs : CmdInv s) (h : s.resumeTrial A job t setCfg = .ok s') : CmdInv s' := by
  unfold Sim.resumeTrial at h
  cases hx : s.trials[t]? with
  | none => rw [hx] at h; cases h
  | some x =>
    rw [hx] at h
    simp only at h
    split at h
    · cases h
    · rename_i hres
      split at h
      · cases h
      · rename_i hpa
        simp only [not_not] at hres hpa
        cases h1 : Sim.schedule A job ({ s with js := setCfg s.js } : Sim J) t with
        | error e => rw [h1] at h; cases h
        | ok s1 =>
          rw [h1] at h
          cases h
          have hs0 : CmdInv ({ s with js := setCfg s.js } : Sim J) := hs.of_same rfl rfl rfl rfl rfl
          obtain ⟨s2, h2, rfl, hcf2, _⟩ := hs0.schedule_pre hjob h1
          -- the trial was commanded, so the heap holds none of its events
          have hcmd : x.commanded = true := hs.paused.st t x hx hres hpa
          obtain ⟨x2, hx2, hcfx⟩ := cf_get (l := s2.trials) (l' := s.trials) hcf2.symm t x hx
          have hcmd2 : x2.commanded = true := by
            have := congrArg Prod.fst hcfx; simp only [cf] at this; rw [this]; exact hcmd
          have hno : NoEv t s2.heap := h2.quiet t x2 hx2 hcmd2
          refine ⟨(h2.heapOK.push _ _ _).of_eq rfl rfl, h2.guard, ⟨?_, ?_⟩, ?_, ?_⟩
          · intro u y hy hr hp
            rw [updT_get] at hy
            by_cases hu : u = t
            · subst hu
              simp only [if_true] at hy
              simp only [Sim.markExit, push_trials, hx2, Option.map_some, Option.some.injEq] at hy
              subst hy
              simp at hp
            · simp only [hu, if_false] at hy
              exact h2.paused.st u y hy hr hp
          · intro e he nat hk
            simp only [updT_heap, Sim.markExit, push_heap, mem_insertEv] at he
            rcases he with rfl | he
            · cases hk
            · obtain ⟨y, hy, hc⟩ := h2.paused.ev e he nat hk
              have hne : e.trial ≠ t := hno e he
              refine ⟨y, ?_, hc⟩
              rw [updT_get]
              simp only [hne, if_false]
              exact hy
          · intro u y hy hc
            rw [updT_get] at hy
            by_cases hu : u = t
            · subst hu
              simp only [if_true] at hy
              simp only [Sim.markExit, push_trials, hx2, Option.map_some, Option.some.injEq] at hy
              subst hy
              simp at hc
            · simp only [hu, if_false] at hy
              simp only [updT_heap, Sim.markExit, push_heap]
              exact noEv_insert (h2.quiet u y hy hc) (fun hh => hu hh.symm)
          · intro u y hy hc hf
            rw [updT_get] at hy
            by_cases hu : u = t
            · subst hu
              simp only [if_true] at hy
              simp only [Sim.markExit, push_trials, hx2, Option.map_some, Option.some.injEq] at hy
              subst hy
              simp at hc
            · simp only [hu, if_false] at hy
              exact h2.flushed u y hy hc hf


/-- `_stop_or_pause_trial` on a state where trial `t` has just been marked as commanded (and
not flushed): the invariant holds again afterwards -/
theorem CmdInv.stopOrPause {A : Arith} {job : JobFn J} (hA : AddGe A) (hjob : JobStatusOK job) {s s' : Sim J}
    {t : Nat} {st : St}
    (hok : HeapOK s) (hg : 0 ≤ s.cfg.guard) (hp : PausedInv s)
    (hcmdT : ∀ x, s.trials[t]? = some x → x.commanded = true ∧ x.flushed = false)
    (hstT : st = .paused → ∃ x, s.trials[t]? = some x)
    (hq : ∀ (u : Nat) (x : STrial), u ≠ t → s.trials[u]? = some x → x.commanded = true → NoEv u s.heap)
    (hf : ∀ (u : Nat) (x : STrial), u ≠ t → s.trials[u]? = some x → x.commanded = true → x.flushed = true →
      alookup u s.next = none)
    (h : s.stopOrPause A job t st = .ok s') : CmdInv s' := by
  have hrem := stopOrPause_removes hA hg hok h
  obtain ⟨s1, s3, s5, h1, h3, h5, rfl⟩ := stopOrPause_inv h
  obtain ⟨_, rfl⟩ := advance_inv h1
  simp only at h3
  -- state before the first event loop
  have hokB : HeapOK (((({ s with now := A.add s.now (A.sub s.realNow s.lastExit) } : Sim J).push
      (A.add (A.add s.now (A.sub s.realNow s.lastExit)) s.cfg.dStop) t .stop)).advanceTo
      (A.add (A.add (A.add s.now (A.sub s.realNow s.lastExit)) s.cfg.dStop) s.cfg.guard)) :=
    ((hok.of_eq (s' := ({ s with now := _ } : Sim J)) rfl rfl).push _ t .stop).of_eq (s' := Sim.advanceTo _ _) rfl rfl
  have hpB : PausedInv (((({ s with now := A.add s.now (A.sub s.realNow s.lastExit) } : Sim J).push
      (A.add (A.add s.now (A.sub s.realNow s.lastExit)) s.cfg.dStop) t .stop)).advanceTo
      (A.add (A.add (A.add s.now (A.sub s.realNow s.lastExit)) s.cfg.dStop) s.cfg.guard)) := by
    refine ⟨hp.st, ?_⟩
    intro e he nat hk
    simp only [Sim.advanceTo, push_heap, mem_insertEv] at he
    rcases he with rfl | he
    · cases hk
    · exact hp.ev e he nat hk
  obtain ⟨hok3, hg3, hp3, hq3, hf3⟩ := CmdInv.processUntil_except hjob hokB hg hpB (some t)
    (fun u x hu hx hc => by
      simp only [Sim.advanceTo, push_heap]
      exact noEv_insert (hq u x (fun hh => hu (by rw [hh])) hx hc) (fun hh => hu (by rw [hh])))
    (fun u x hu hx hc hfl => hf u x (fun hh => hu (by rw [hh])) hx hc hfl) h3
  have hcf3 := processUntil_cf h3
  simp only [Sim.advanceTo, push_trials] at hcf3
  -- state before the second event loop
  have hokC : HeapOK ((s3.push (A.add s3.now s3.cfg.dCompleteStop) t (.complete st none)).advanceTo
      (A.add (A.add s3.now s3.cfg.dCompleteStop) s3.cfg.guard)) :=
    (hok3.push _ t (.complete st none)).of_eq (s' := Sim.advanceTo _ _) rfl rfl
  have hpC : PausedInv ((s3.push (A.add s3.now s3.cfg.dCompleteStop) t (.complete st none)).advanceTo
      (A.add (A.add s3.now s3.cfg.dCompleteStop) s3.cfg.guard)) := by
    refine ⟨hp3.st, ?_⟩
    intro e he nat hk
    simp only [Sim.advanceTo, push_heap, mem_insertEv] at he
    rcases he with rfl | he
    · simp only [EvKind.complete.injEq] at hk
      obtain ⟨x, hx⟩ := hstT hk.1
      obtain ⟨x3, hx3, hcfx⟩ := cf_get (l := s3.trials) (l' := s.trials) hcf3.symm t x hx
      refine ⟨x3, hx3, ?_⟩
      have := congrArg Prod.fst hcfx; simp only [cf] at this; rw [this]; exact (hcmdT x hx).1
    · exact hp3.ev e he nat hk
  obtain ⟨hok5, hg5, hp5, hq5, hf5⟩ := CmdInv.processUntil_except hjob hokC hg3 hpC (some t)
    (fun u x hu hx hc => by
      simp only [Sim.advanceTo, push_heap]
      exact noEv_insert (hq3 u x hu hx hc) (fun hh => hu (by rw [hh])))
    (fun u x hu hx hc hfl => hf3 u x hu hx hc hfl) h5
  have hcf5 := processUntil_cf h5
  simp only [Sim.advanceTo, push_trials] at hcf5
  refine ⟨hok5.of_eq rfl rfl, hg5, ⟨hp5.st, hp5.ev⟩, ?_, ?_⟩
  · intro u x hx hc
    by_cases hu : u = t
    · subst hu; exact hrem
    · exact hq5 u x (fun hh => hu (by injection hh)) hx hc
  · intro u x hx hc hfl
    by_cases hu : u = t
    · subst hu
      exfalso
      obtain ⟨x0, hx0, hcfx⟩ := cf_get (l := s.trials) (l' := s5.trials) (hcf5.trans hcf3) u x hx
      have := congrArg Prod.snd hcfx; simp only [cf] at this
      rw [(hcmdT x0 hx0).2, hfl] at this; cases this
    · exact hf5 u x (fun hh => hu (by injection hh)) hx hc hfl

theorem CmdInv.cmd {A : Arith} {job : JobFn J} (hA : AddGe A) (hjob : JobStatusOK job) {s s' : Sim J}
    {t : Nat} {st : St} (f : STrial → STrial)
    (hfc : ∀ y, (f y).commanded = true ∧ (f y).flushed = false ∧ (f y).isResult = y.isResult ∧
      ((f y).status = y.status ∨ ((f y).status = .paused)))
    (hs : CmdInv s) (hstT : st = .paused → t < s.trials.length)
    (h : (s.updT t f).stopOrPause A job t st = .ok s') : CmdInv s' := by
  have hget : ∀ u, (s.updT t f).trials[u]? = if u = t then (s.trials[u]?).map f else s.trials[u]? :=
    fun u => updT_get s t u f
  refine CmdInv.stopOrPause (s := s.updT t f) hA hjob (hs.heapOK.of_eq rfl rfl) hs.guard ⟨?_, ?_⟩ ?_ ?_ ?_ ?_ h
  · intro u x hx hr hp
    rw [hget u] at hx
    by_cases hu : u = t
    · subst hu
      simp only [if_true] at hx
      cases hx0 : s.trials[u]? with
      | none => rw [hx0] at hx; cases hx
      | some x0 => rw [hx0] at hx; simp at hx; subst hx; exact (hfc x0).1
    · simp only [hu, if_false] at hx; exact hs.paused.st u x hx hr hp
  · intro e he nat hk
    obtain ⟨x, hx, hc⟩ := hs.paused.ev e he nat hk
    rw [hget]
    by_cases hu : e.trial = t
    · simp only [hu, if_true]; rw [← hu, hx]; exact ⟨_, rfl, (hfc x).1⟩
    · simp only [hu, if_false]; exact ⟨x, hx, hc⟩
  · intro x hx
    rw [hget t] at hx
    simp only [if_true] at hx
    cases hx0 : s.trials[t]? with
    | none => rw [hx0] at hx; cases hx
    | some x0 => rw [hx0] at hx; simp at hx; subst hx; exact ⟨(hfc x0).1, (hfc x0).2.1⟩
  · intro hst
    have := hstT hst
    rw [hget t]
    simp only [if_true]
    rw [List.getElem?_eq_getElem this]
    exact ⟨_, rfl⟩
  · intro u x hu hx hc
    rw [hget u] at hx
    simp only [hu, if_false] at hx
    exact hs.quiet u x hx hc
  · intro u x hu hx hc hfl
    rw [hget u] at hx
    simp only [hu, if_false] at hx
    exact hs.flushed u x hx hc hfl

theorem CmdInv.stopTrial {A : Arith} {job : JobFn J} (hA : AddGe A) (hjob : JobStatusOK job) {s s' : Sim J} {t : Nat}
    (hs : CmdInv s) (h : s.stopTrial A job t = .ok s') : CmdInv s' := by
  unfold Sim.stopTrial at h
  exact CmdInv.cmd hA hjob (fun y => { y with commanded := true, flushed := false })
    (fun y => ⟨rfl, rfl, rfl, Or.inl rfl⟩) hs (fun hh => by cases hh) h

theorem CmdInv.pauseTrial {A : Arith} {job : JobFn J} (hA : AddGe A) (hjob : JobStatusOK job) {s s' : Sim J} {t : Nat}
    {after : J → J} (hs : CmdInv s) (h : s.pauseTrial A job t after = .ok s') : CmdInv s' := by
  unfold Sim.pauseTrial at h
  split at h
  · rename_i hl
    dsimp only at h
    cases h1 : Sim.stopOrPause A job (s.updT t fun y => { y with status := .paused, commanded := true, flushed := false }) t .paused with
    | error e => rw [h1] at h; cases h
    | ok s1 =>
      rw [h1] at h; cases h
      have := CmdInv.cmd hA hjob (fun y => { y with status := .paused, commanded := true, flushed := false })
        (fun y => ⟨rfl, rfl, rfl, Or.inr rfl⟩) hs (fun _ => hl) h1
      exact this.of_same rfl rfl rfl rfl rfl
  · cases h

theorem CmdInv.fetch {A : Arith} {job : JobFn J} (hjob : JobStatusOK job) {s s' : Sim J} {ids : List Nat}
    {sts : List (Nat × St)} {res : List (Nat × Arrived)} (hs : CmdInv s)
    (h : s.fetch A job ids = .ok (s', sts, res)) : CmdInv s' := by
  obtain ⟨s1, s2, h1, h2, _, rfl⟩ := fetch_inv h
  have h2' := (hs.advanceOutside h1).processUntil hjob h2
  have hc := fetchCovered_fields ids s2
  have hd := dropRest_fields (fetchCovered s2 ids).1.next (fetchCovered s2 ids).1
  have hcore : (dropRest (fetchCovered s2 ids).1 (fetchCovered s2 ids).1.next).trials.map core = s2.trials.map core :=
    (dropRest_core _ _).1.trans (fetchCovered_core ids s2).1
  have hheap : (dropRest (fetchCovered s2 ids).1 (fetchCovered s2 ids).1.next).heap = s2.heap := by rw [hd.1, hc.1]
  -- trials after `markFlushed`
  have hget : ∀ (u : Nat) (x : STrial),
      (markFlushed ids (dropRest (fetchCovered s2 ids).1 (fetchCovered s2 ids).1.next).trials)[u]? = some x →
      ∃ x2, s2.trials[u]? = some x2 ∧ core x2 = core x := by
    intro u x hx
    rw [markFlushed_get] at hx
    cases hy : (dropRest (fetchCovered s2 ids).1 (fetchCovered s2 ids).1.next).trials[u]? with
    | none => rw [hy] at hx; cases hx
    | some y =>
      rw [hy] at hx
      simp only [Option.map_some, Option.some.injEq] at hx
      obtain ⟨x2, hx2, hcx⟩ := core_get hcore u y hy
      refine ⟨x2, hx2, ?_⟩
      rw [hcx, ← hx]
      split <;> rfl
  refine ⟨h2'.heapOK.of_eq (by simp [Sim.markExit, hheap]) (by simp [Sim.markExit, hd.2.1, hc.2.1]),
    by simp only [Sim.markExit]; rw [hd.2.2.2.1, hc.2.2.2.1]; exact h2'.guard, ⟨?_, ?_⟩, ?_, ?_⟩
  · intro u x hx hr hp
    obtain ⟨x2, hx2, hcx⟩ := hget u x hx
    simp only [core, Prod.mk.injEq] at hcx
    rw [← hcx.2.2]
    exact h2'.paused.st u x2 hx2 (by rw [hcx.1]; exact hr) (by rw [hcx.2.1]; exact hp)
  · intro e he nat hk
    simp only [Sim.markExit, hheap] at he
    obtain ⟨x2, hx2, hc2⟩ := h2'.paused.ev e he nat hk
    obtain ⟨y, hy, hcy⟩ := core_get' hcore e.trial x2 hx2
    simp only [Sim.markExit]
    rw [markFlushed_get, hy]
    refine ⟨_, rfl, ?_⟩
    simp only [core, Prod.mk.injEq] at hcy
    dsimp only
    split
    · simp only; rw [hcy.2.2]; exact hc2
    · rw [hcy.2.2]; exact hc2
  · intro u x hx hcm
    obtain ⟨x2, hx2, hcx⟩ := hget u x hx
    simp only [core, Prod.mk.injEq] at hcx
    simp only [Sim.markExit, hheap]
    exact h2'.quiet u x2 hx2 (by rw [hcx.2.2]; exact hcm)
  · intro u x hx hcm hfl
    simp only [Sim.markExit]
    rw [hd.2.2.2.2.2.2.2]
    rfl

theorem CmdInv.stopAllGo {A : Arith} {job : JobFn J} (hA : AddGe A) (hjob : JobStatusOK job) (l : List Nat) :
    ∀ {s s' : Sim J}, CmdInv s → simStopAllGo A job s l = .ok s' → CmdInv s' := by
  induction l with
  | nil => intro s s' h hs; cases hs; exact h
  | cons t rest ih =>
    intro s s' h hs
    unfold simStopAllGo at hs
    split at hs
    · exact ih h hs
    · split at hs
      · cases h1 : s.stopTrial A job t with
        | error e => rw [h1] at hs; cases hs
        | ok s1 => rw [h1] at hs; exact ih (h.stopTrial hA hjob h1) hs
      · exact ih h hs

theorem CmdInv.step {A : Arith} {job : JobFn TabState} (hA : AddGe A) (hjob : JobStatusOK job) {s s' : TB} {op : SOp}
    (h : CmdInv s) (hs : TB.step A job s op = .ok s') : CmdInv s' := by
  cases op with
  | start cfg =>
    simp only [TB.step] at hs
    cases h1 : s.startTrial A job fun tid js => { js with cfgs := aset tid cfg js.cfgs } with
    | error e => rw [h1] at hs; cases hs
    | ok r => obtain ⟨s1, tid⟩ := r; rw [h1] at hs; cases hs; exact h.startTrial hjob h1
  | resume t nc => simp only [TB.step] at hs; exact h.resumeTrial hjob hs
  | pause t lv => simp only [TB.step] at hs; exact h.pauseTrial hA hjob hs
  | stop t => exact h.stopTrial hA hjob hs
  | fetch ids =>
    simp only [TB.step] at hs
    cases h1 : s.fetch A job ids with
    | error e => rw [h1] at hs; cases hs
    | ok r => obtain ⟨s1, sts, res⟩ := r; rw [h1] at hs; cases hs; exact h.fetch hjob h1
  | busy =>
    simp only [TB.step, Sim.busyIds] at hs
    cases h1 : Sim.processUntil A job simFuel s with
    | error e => rw [h1] at hs; cases hs
    | ok s1 => rw [h1] at hs; cases hs; exact h.processUntil hjob h1
  | sleep => obtain ⟨_, rfl⟩ := advance_inv hs; exact h.of_same rfl rfl rfl rfl rfl
  | advance dt => obtain ⟨_, rfl⟩ := advance_inv hs; exact h.of_same rfl rfl rfl rfl rfl
  | tick dt => cases hs; exact h.of_same rfl rfl rfl rfl rfl
  | tape d => cases hs; exact h.of_same rfl rfl rfl rfl rfl
  | stopAll => exact CmdInv.stopAllGo hA hjob _ h hs

theorem CmdInv.run {A : Arith} {job : JobFn TabState} (hA : AddGe A) (hjob : JobStatusOK job) (ops : List SOp) :
    ∀ {s s' : TB}, CmdInv s → TB.run A job s ops = .ok s' → CmdInv s' := by
  induction ops with
  | nil => intro s s' h hs; cases hs; exact h
  | cons op ops ih =>
    intro s s' h hs
    unfold TB.run at hs
    cases h1 : TB.step A job s op with
    | error e => rw [h1] at hs; cases hs
    | ok s1 => rw [h1] at hs; exact ih (h.step hA hjob h1) hs

theorem CmdInv.init (cfg : SimCfg) (js : TabState) (hg : 0 ≤ cfg.guard) : CmdInv (TB.init cfg js) := by
  refine ⟨HeapOK.init cfg js, hg, ⟨?_, ?_⟩, ?_, ?_⟩ <;> simp [TB.init]

/-- with nothing of `t` in the heap and nothing queued, a poll returns nothing for `t` -/
theorem fetch_nothing {A : Arith} {job : JobFn J} {s s' : Sim J} {ids : List Nat} {sts : List (Nat × St)}
    {res : List (Nat × Arrived)} {t : Nat} (hno : NoEv t s.heap) (hn : alookup t s.next = none)
    (h : s.fetch A job ids = .ok (s', sts, res)) : ∀ p ∈ res, p.1 ≠ t := by
  obtain ⟨s1, s2, h1, h2, rfl, _⟩ := fetch_inv h
  have hs1 : s1.heap = s.heap ∧ s1.next = s.next := by obtain ⟨_, rfl⟩ := advance_inv h1; exact ⟨rfl, rfl⟩
  have h2n := (processUntil_next (s := s1) (by rw [hs1.1]; exact hno) h2).2
  rw [hs1.2, hn] at h2n
  -- `fetchCovered` only returns entries of trials that have a queue
  have key : ∀ (ids : List Nat) (x : Sim J), alookup t x.next = none → ∀ p ∈ (fetchCovered x ids).2, p.1 ≠ t := by
    intro ids
    induction ids with
    | nil => intro x _ p hp; simp [fetchCovered] at hp
    | cons u rest ih =>
      intro x hx p hp
      unfold fetchCovered at hp
      split at hp
      · exact ih x hx p hp
      · rename_i l hl
        simp only [List.mem_append, List.mem_map] at hp
        rcases hp with ⟨a, _, rfl⟩ | hp
        · intro hu
          simp only at hu
          rw [hu, hx] at hl; cases hl
        · refine ih _ ?_ p hp
          simp only [updT_next]
          have hu : t ≠ u := by intro hu; rw [hu, hl] at hx; cases hx
          -- removing `u` does not create an entry for `t`
          have : ∀ (q : List (Nat × List Arrived)), alookup t q = none → alookup t (adel u q) = none := by
            intro q
            induction q with
            | nil => intro _; rfl
            | cons a as iha =>
              obtain ⟨ka, va⟩ := a
              intro hq
              by_cases hka : u = ka
              · simp only [adel, hka, if_true]
                simp only [alookup] at hq
                by_cases hta : t = ka
                · simp [hta] at hq
                · simpa [hta] using hq
              · simp only [adel, hka, if_false, alookup]
                simp only [alookup] at hq
                by_cases hta : t = ka
                · simp [hta] at hq
                · simp only [hta, if_false] at hq ⊢; exact iha hq
          exact this _ hx
  exact key ids s2 h2n

end SyneTune.SimL
