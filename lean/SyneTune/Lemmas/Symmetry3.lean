import SyneTune.Lemmas.Symmetry2
/-
min/max symmetry of the scheduler level of asynchronous Hyperband (`HyperbandScheduler`:
`_suggest`, `on_trial_result`, `on_trial_remove/error/complete`), on top of the manager-level
lemmas of `Lemmas/Symmetry2.lean`; and preservation of the promotion quantiles by every
operation.  Property theorems are in `Props/C15Sched.lean`.
-/
namespace SyneTune.C15Sched
open SyneTune SyneTune.C15 SyneTune.C04K

/-! ### the negation maps, scheduler level -/

/-- `TrialInformation`: the stored last reported metric value is negated -/
def negTI (ti : TrialInfo) : TrialInfo := { ti with reported := ti.reported.map (fun p => (-p.1, p.2)) }

abbrev negActive (l : List (Nat × TrialInfo)) : List (Nat × TrialInfo) := l.map (fun p => (p.1, negTI p.2))

/-- the scheduler of the mirrored experiment -/
def negSched (s : Sched) : Sched := { s with mgr := negMgr s.mgr, active := negActive s.active }

/-- the mirrored operation: metric of `result` / `complete` negated; hints, cost, eps unchanged -/
def negOp : SOp → SOp
  | .result t r v h c e => .result t r (-v) h c e
  | .complete t r v => .complete t r (-v)
  | .suggest n b h => .suggest n b h
  | .remove t => .remove t
  | .error t => .error t

/-- searcher calls carrying a metric value have it negated -/
def negCall : SCall → SCall
  | .update t r v u => .update t r (-v) u
  | .removeCase t r v => .removeCase t r (-v)
  | .pending t r => .pending t r
  | .cleanup t => .cleanup t
  | .evalFailed t => .evalFailed t

def negRes (o : ResOut) : ResOut := { o with calls := o.calls.map negCall }

theorem negTI_negTI (ti : TrialInfo) : negTI (negTI ti) = ti := by
  cases ti with
  | mk bracket decision keepCase reported largestUpdate =>
    simp only [negTI, Option.map_map]
    congr 1
    cases reported with
    | none => rfl
    | some p => simp

theorem negSched_negSched (s : Sched) : negSched (negSched s) = s := by
  cases s with
  | mk mgr searcherData pendingMyopic maxResourceAttr active hasCost costOffset =>
    simp only [negSched, negMgr_negMgr, negActive, List.map_map]
    congr 1
    exact map_eq_self _ (fun p => by simp [negTI_negTI]) active

theorem negOp_negOp (op : SOp) : negOp (negOp op) = op := by
  cases op <;> simp [negOp]

theorem negCall_negCall (c : SCall) : negCall (negCall c) = c := by
  cases c <;> simp [negCall]

theorem negSched_mgr (s : Sched) : (negSched s).mgr = negMgr s.mgr := rfl
theorem negSched_active (s : Sched) : (negSched s).active = negActive s.active := rfl
theorem negSched_searcherData (s : Sched) : (negSched s).searcherData = s.searcherData := rfl
theorem negSched_pendingMyopic (s : Sched) : (negSched s).pendingMyopic = s.pendingMyopic := rfl
theorem negSched_hasCost (s : Sched) : (negSched s).hasCost = s.hasCost := rfl
theorem negSched_costOffset (s : Sched) : (negSched s).costOffset = s.costOffset := rfl

theorem negTI_decision (ti : TrialInfo) : (negTI ti).decision = ti.decision := rfl
theorem negTI_keepCase (ti : TrialInfo) : (negTI ti).keepCase = ti.keepCase := rfl
theorem negTI_largestUpdate (ti : TrialInfo) : (negTI ti).largestUpdate = ti.largestUpdate := rfl
theorem negTI_reported (ti : TrialInfo) : (negTI ti).reported = ti.reported.map (fun p => (-p.1, p.2)) := rfl

/-! ### association lists under a map on the values -/

theorem alookup_mapv {β γ} (f : β → γ) (k : Nat) (l : List (Nat × β)) :
    alookup k (l.map (fun p => (p.1, f p.2))) = (alookup k l).map f := by
  induction l with
  | nil => rfl
  | cons x xs ih =>
    simp only [List.map_cons, alookup]
    split <;> simp [ih]

theorem aset_mapv {β γ} (f : β → γ) (k : Nat) (v : β) (l : List (Nat × β)) :
    aset k (f v) (l.map (fun p => (p.1, f p.2))) = (aset k v l).map (fun p => (p.1, f p.2)) := by
  induction l with
  | nil => rfl
  | cons x xs ih =>
    simp only [List.map_cons, aset]
    split <;> simp [ih]

theorem map_pending_negCall (t : Nat) (l : List Nat) :
    (l.map (SCall.pending t)).map negCall = l.map (SCall.pending t) := by
  simp only [List.map_map]
  rfl

/-! ### `_suggest` -/

theorem pendingNew_neg (s : Sched) (first : Nat) : (negSched s).pendingNew first = s.pendingNew first := rfl
theorem pendingResume_neg (s : Sched) (o : SchedOut) : (negSched s).pendingResume o = s.pendingResume o := rfl

theorem suggestStart_symm (s : Sched) (g : Manager) (newTid bracket milestone : Nat) (fr : Bool) :
    (negSched s).suggestStart (negMgr g) newTid bracket milestone fr =
      (s.suggestStart g newTid bracket milestone fr).map (fun res => (negSched res.1, res.2)) := by
  unfold Sched.suggestStart
  simp only [negSched_active, alookup_mapv, Option.isSome_map, mgrTaskAdd_symm, pendingNew_neg]
  by_cases hex : (alookup newTid s.active).isSome = true
  · simp only [hex, if_true]; rfl
  · simp only [hex, Bool.false_eq_true, if_false]
    cases g.taskAdd newTid bracket none with
    | error e => rfl
    | ok res =>
      simp only [Except.map]
      have h : negActive (aset newTid ({ bracket := bracket } : TrialInfo) s.active)
          = aset newTid ({ bracket := bracket } : TrialInfo) (negActive s.active) :=
        (aset_mapv negTI newTid { bracket := bracket } s.active).symm
      simp only [negSched, h]

theorem suggestResume_symm (s : Sched) (g : Manager) (bracket : Nat) (o : SchedOut) (fr : Bool) :
    (negSched s).suggestResume (negMgr g) bracket o fr =
      (s.suggestResume g bracket o fr).map (fun res => (negSched res.1, res.2)) := by
  unfold Sched.suggestResume
  simp only [negSched_active, alookup_mapv, mgrTaskAdd_symm, pendingResume_neg]
  cases g.taskAdd o.trial bracket (some (o.milestone, o.resumeFrom)) with
  | error e => rfl
  | ok res =>
    simp only [Except.map]
    cases alookup o.trial s.active with
    | none => rfl
    | some rec =>
      simp only [Option.map_some, negTI_decision]
      by_cases hd : rec.decision = .continue
      · simp only [hd, if_true]
      · simp only [hd, if_false]
        have h : negActive (aset o.trial { rec with decision := .continue } s.active)
            = aset o.trial { negTI rec with decision := .continue } (negActive s.active) :=
          (aset_mapv negTI o.trial { rec with decision := .continue } s.active).symm
        simp only [negSched, h]

/-- **`HyperbandScheduler._suggest` is symmetric**, all six types: same suggestion, same searcher
calls, same round-off flag, same error; new state mirrored. -/
theorem suggest_symm_min (s : Sched) (hm : s.mgr.mode = .min) (hq : MgrQOK s.mgr) (newTid bracket : Nat)
    (hint : Option Nat) :
    (negSched s).suggest newTid bracket hint =
      (s.suggest newTid bracket hint).map (fun res => (negSched res.1, res.2)) := by
  unfold Sched.suggest
  rw [negSched_mgr, taskSchedule_symm s.mgr hm hq]
  cases s.mgr.taskSchedule bracket hint with
  | error e => rfl
  | ok res =>
    simp only [Except.map]
    cases res.2.1 with
    | none => exact suggestStart_symm s res.1 newTid bracket res.2.2.1 res.2.2.2
    | some o => exact suggestResume_symm s res.1 bracket o res.2.2.2

/-! ### `_cleanup_trial`, remove, error, complete -/

theorem cleanup_symm (s : Sched) (tid : Nat) (d : Decision) :
    (negSched s).cleanup tid d = negSched (s.cleanup tid d) := by
  unfold Sched.cleanup
  simp only [negSched_mgr, negSched_active, taskRemove_symm, alookup_mapv]
  cases alookup tid s.active with
  | none => rfl
  | some rec =>
    simp only [Option.map_some]
    have h : negActive (aset tid { rec with decision := d } s.active)
        = aset tid { negTI rec with decision := d } (negActive s.active) :=
      (aset_mapv negTI tid { rec with decision := d } s.active).symm
    simp only [negSched, h]

theorem onRemove_symm (s : Sched) (tid : Nat) : (negSched s).onRemove tid = negSched (s.onRemove tid) :=
  cleanup_symm s tid .pause

theorem onError_symm (s : Sched) (tid : Nat) :
    (negSched s).onError tid = (negSched (s.onError tid).1, (s.onError tid).2) := by
  simp only [Sched.onError, cleanup_symm]

theorem onComplete_symm (s : Sched) (tid r : Nat) (v : Rat) :
    (negSched s).onComplete tid r (-v) =
      (s.onComplete tid r v).map (fun res => (negSched res.1, res.2.map negCall)) := by
  unfold Sched.onComplete
  simp only [negSched_active, alookup_mapv, cleanup_symm]
  cases alookup tid s.active with
  | none => rfl
  | some rec =>
    simp only [Option.map_some, negTI_largestUpdate, Except.map]
    cases rec.largestUpdate with
    | none => rfl
    | some l =>
      simp only
      by_cases hl : l < r
      · simp only [hl, if_true]; rfl
      · simp only [hl, if_false]; rfl

/-! ### `on_trial_result` -/

theorem updateSearcher_symm (s : Sched) (tid r : Nat) (v : Rat) (o : RepOut) (rec : TrialInfo) :
    (negSched s).updateSearcher tid r (-v) o (negTI rec) =
      ((s.updateSearcher tid r v o rec).1, (s.updateSearcher tid r v o rec).2.map negCall) := by
  unfold Sched.updateSearcher
  simp only [negSched_searcherData, negSched_mgr, negMgr_rungLevels, negMgr_maxT, negSched_pendingMyopic,
    negTI_reported, negTI_keepCase]
  cases s.searcherData with
  | rungs =>
    simp only
    by_cases h : r ∈ s.mgr.rungLevels ∨ r = s.mgr.maxT
    · simp only [h, if_true, map_pending_negCall]
    · simp only [h, if_false, List.map_nil]
  | all =>
    simp only
    by_cases h : o.ignoreData = true
    · simp only [h, if_true, List.map_nil]
    · simp only [h, Bool.false_eq_true, if_false, List.map_append, map_pending_negCall, reduceCtorEq]
      rfl
  | rungsAndLast =>
    simp only
    by_cases h : o.ignoreData = true
    · simp only [h, if_true, List.map_nil]
    · simp only [h, Bool.false_eq_true, if_false, List.map_append, map_pending_negCall, if_true]
      cases rec.reported with
      | none => rfl
      | some p =>
        simp only [Option.map_some]
        by_cases hk : (!rec.keepCase) = true
        · simp only [hk, if_true]; rfl
        · simp only [hk, Bool.false_eq_true, if_false]; rfl

theorem decisionFor_neg (s : Sched) (r : Nat) (o : RepOut) : (negSched s).decisionFor r o = s.decisionFor r o := rfl

theorem lastUpdate_neg (rec : TrialInfo) (r : Nat) : (negTI rec).lastUpdate r = rec.lastUpdate r := rfl

theorem tiAfterReport_symm (rec : TrialInfo) (r : Nat) (v : Rat) (o : RepOut) (doUpd : Bool) :
    (negTI rec).afterReport r (-v) o doUpd =
      ((rec.afterReport r v o doUpd).1, negTI (rec.afterReport r v o doUpd).2) := by
  unfold TrialInfo.afterReport
  simp only [lastUpdate_neg]
  cases doUpd with
  | false => rfl
  | true =>
    simp only [if_true]
    by_cases h : r = rec.lastUpdate r
    · simp only [← h, if_true]; rfl
    · simp only [h, if_false]; rfl

theorem negSched_setActive (s : Sched) (tid : Nat) (ti : TrialInfo) :
    ({ negSched s with active := aset tid (negTI ti) (negSched s).active } : Sched)
      = negSched { s with active := aset tid ti s.active } := by
  simp only [negSched, aset_mapv negTI]

theorem onResultLive_symm (s : Sched) (tid r : Nat) (v : Rat) (rec : TrialInfo) (o : RepOut) :
    (negSched s).onResultLive tid r (-v) (negTI rec) o =
      (s.onResultLive tid r v rec o).map (fun res => (negSched res.1, negRes res.2)) := by
  unfold Sched.onResultLive
  simp only [updateSearcher_symm, lastUpdate_neg, tiAfterReport_symm, decisionFor_neg]
  by_cases hg : (s.updateSearcher tid r v o rec).1 = true ∧ ¬ (rec.lastUpdate r ≤ r)
  · simp only [hg, and_self, not_false_eq_true, if_true]; rfl
  · simp only [hg, if_false, Except.map, negRes, List.map_append, List.map_cons, List.map_nil, negCall,
      negSched_setActive]
    cases o.continues with
    | true => rfl
    | false => simp only [Bool.false_eq_true, if_false, cleanup_symm]

theorem totalCost_neg (s : Sched) (tid : Nat) (cost : Rat) : (negSched s).totalCost tid cost = s.totalCost tid cost := rfl

theorem costOffsetAfter_neg (s : Sched) (tid : Nat) (total : Rat) (o : RepOut) :
    (negSched s).costOffsetAfter tid total o = s.costOffsetAfter tid total o := rfl

theorem afterReport_symm (s : Sched) (tid r : Nat) (v : Rat) (rec : TrialInfo) (g : Manager) (o : RepOut)
    (total : Rat) :
    (negSched s).afterReport tid r (-v) (negTI rec) (negMgr g) o total =
      (s.afterReport tid r v rec g o total).map (fun res => (negSched res.1, negRes res.2)) := by
  unfold Sched.afterReport
  rw [costOffsetAfter_neg]
  cases s.costOffsetAfter tid total o with
  | error e => rfl
  | ok co =>
    simp only
    have h : ({ negSched s with mgr := negMgr g, costOffset := co } : Sched)
        = negSched { s with mgr := g, costOffset := co } := rfl
    rw [h]
    cases o.ignoreData with
    | true => rfl
    | false =>
      simp only [Bool.false_eq_true, if_false]
      exact onResultLive_symm _ tid r v rec o

/-- **`HyperbandScheduler.on_trial_result` is symmetric**, all six types: same decision, same
round-off flag, same searcher calls with the metric negated, same error; new state mirrored. -/
theorem onResult_symm_min (s : Sched) (hm : s.mgr.mode = .min) (hq : MgrQOK s.mgr) (tid r : Nat) (v : Rat)
    (hint : Bool) (cost eps : Rat) :
    (negSched s).onResult tid r (-v) hint cost eps =
      (s.onResult tid r v hint cost eps).map (fun res => (negSched res.1, negRes res.2)) := by
  unfold Sched.onResult
  simp only [negSched_active, alookup_mapv, negSched_mgr, totalCost_neg, taskReport_symm s.mgr hm hq]
  cases alookup tid s.active with
  | none => rfl
  | some rec =>
    simp only [Option.map_some, negTI_decision]
    by_cases hd : rec.decision = .continue
    · simp only [hd, ne_eq, not_true_eq_false, if_false]
      cases s.mgr.taskReport tid r v hint (s.totalCost tid cost) eps with
      | error e => rfl
      | ok res =>
        simp only [Except.map]
        exact afterReport_symm s tid r v rec res.1 res.2 (s.totalCost tid cost)
    · simp only [hd, ne_eq, not_false_eq_true, if_true]
      rfl

/-! ### the promotion quantiles are never changed by an operation -/

/-- the promotion quantiles of a list of rungs -/
def rungQs (rs : List Rung) : List Rat := rs.map (·.q)

/-- the promotion quantiles of all rung systems of a manager -/
def sysQs (ss : List RungSys) : List (List Rat) := ss.map (fun s => rungQs s.rungs)

theorem QOK_iff (rs : List Rung) : QOK rs ↔ ∀ q ∈ rungQs rs, 0 < q ∧ q < 1 := by
  simp [QOK, rungQs]

theorem MgrQOK_iff (g : Manager) : MgrQOK g ↔ ∀ l ∈ sysQs g.systems, ∀ q ∈ l, 0 < q ∧ q < 1 := by
  simp [MgrQOK, sysQs, QOK_iff]

theorem markPromoted_q (m : Mode) (rg : Rung) (pos : Nat) : (markPromoted m rg pos).q = rg.q := by
  unfold markPromoted
  cases rg.data[pos]? <;> rfl

theorem stopScan_qs (m : Mode) (tid r : Nat) (v : Rat) (hint : Bool) (next : Nat) (rs : List Rung) :
    rungQs (stopScan m tid r v hint next rs).1 = rungQs rs := by
  induction rs generalizing next with
  | nil => rfl
  | cons rg rest ih =>
    unfold stopScan
    by_cases h1 : r < rg.level ∨ rg.contains tid = true
    · simp only [h1, if_true]
      have := ih rg.level
      simp only [rungQs, List.map_cons] at this ⊢
      rw [this]
    · simp only [h1, if_false]
      by_cases h2 : rg.level < r
      · simp only [h2, if_true]
      · simp only [h2, if_false]
        rfl

theorem stopReport_qs (s : RungSys) (m : Mode) (tid r : Nat) (v : Rat) (skip : Nat) (hint : Bool) :
    rungQs (s.stopReport m tid r v skip hint).1.rungs = rungQs s.rungs := by
  unfold RungSys.stopReport
  by_cases hr : r = s.maxT
  · simp only [hr, if_true]
  · simp only [hr, if_false]
    have h := stopScan_qs m tid r v hint s.maxT (milestoneRungs s.rungs skip)
    simp only [rungQs, List.map_append] at h ⊢
    rw [h]
    simp only [milestoneRungs, ← List.map_append, List.take_append_drop]

theorem rushStopReport_qs (s : RungSys) (m : Mode) (tid r : Nat) (v : Rat) (skip : Nat) (hint : Bool) :
    rungQs (s.rushStopReport m tid r v skip hint).1.rungs = rungQs s.rungs := by
  unfold RungSys.rushStopReport
  simp only
  split
  · exact stopReport_qs s m tid r v skip hint
  · exact stopReport_qs s m tid r v skip hint

theorem rungQs_set (rs : List Rung) (pos : Nat) (rg rg' : Rung) (h : rs[pos]? = some rg) (hq : rg'.q = rg.q) :
    rungQs (rs.set pos rg') = rungQs rs := by
  induction rs generalizing pos with
  | nil => rfl
  | cons x xs ih =>
    cases pos with
    | zero =>
      simp only [List.getElem?_cons_zero, Option.some.injEq] at h
      subst h
      simp only [List.set_cons_zero, rungQs, List.map_cons, hq]
    | succ n =>
      simp only [List.getElem?_cons_succ] at h
      have := ih n h
      simp only [rungQs, List.set_cons_succ, List.map_cons] at this ⊢
      rw [this]

theorem promoReached_qs (s : RungSys) (m : Mode) (tid : Nat) (v cost : Rat) (ms : Nat) (ig : Bool)
    (res : RungSys × RepOut) (h : s.promoReached m tid v cost ms ig = .ok res) :
    rungQs res.1.rungs = rungQs s.rungs := by
  unfold RungSys.promoReached at h
  cases hp : rungPos s.rungs ms with
  | none =>
    simp only [hp, Except.ok.injEq] at h
    subst h; rfl
  | some pos =>
    simp only [hp] at h
    cases hg : s.rungs[pos]? with
    | none => simp [hg] at h
    | some rg =>
      simp only [hg] at h
      by_cases hc : rg.contains tid = true
      · simp [hc] at h
      · simp only [hc, Bool.false_eq_true, if_false, Except.ok.injEq] at h
        subst h
        exact rungQs_set s.rungs pos rg _ hg rfl

theorem promoReport_qs (s : RungSys) (m : Mode) (tid r : Nat) (v cost : Rat)
    (res : RungSys × RepOut) (h : s.promoReport m tid r v cost = .ok res) :
    rungQs res.1.rungs = rungQs s.rungs := by
  unfold RungSys.promoReport at h
  cases hl : alookup tid s.running with
  | none => simp [hl] at h
  | some mr =>
    simp only [hl] at h
    by_cases h1 : mr.1 ≤ r
    · simp only [h1, if_true] at h
      by_cases h2 : r ≠ mr.1
      · simp [h2] at h
      · simp only [h2, if_false] at h
        exact promoReached_qs s m tid v cost mr.1 _ res h
    · simp only [h1, if_false, Except.ok.injEq] at h
      subst h; rfl

theorem pashaReport_qs (s : RungSys) (m : Mode) (tid r : Nat) (v eps : Rat)
    (res : RungSys × RepOut) (h : s.pashaReport m tid r v eps = .ok res) :
    rungQs res.1.rungs = rungQs s.rungs := by
  unfold RungSys.pashaReport at h
  cases hp : s.promoReport m tid r v with
  | error e => simp [hp] at h
  | ok res0 =>
    have h0 := promoReport_qs s m tid r v 0 res0 hp
    simp only [hp] at h
    cases hi : ({ res0.1 with epsilon := eps } : RungSys).pashaIncrease m with
    | error e => simp [hi] at h
    | ok inc =>
      simp only [hi] at h
      cases inc with
      | false =>
        simp only [Bool.false_eq_true, if_false, Except.ok.injEq] at h
        subst h; exact h0
      | true =>
        simp only [if_true] at h
        by_cases hc : res0.1.curIdx < res0.1.rungs.length
        · simp only [hc, if_true] at h
          cases hl : res0.1.levelsAsc[res0.1.curIdx]? with
          | none => simp [hl] at h
          | some l =>
            simp only [hl, Except.ok.injEq] at h
            subst h; exact h0
        · simp only [hc, if_false, Except.ok.injEq] at h
          subst h; exact h0

theorem promoScan_qs (ty : HBType) (m : Mode) (numThr cap : Nat) (hint : Option Nat) (next : Nat)
    (thr : List (Nat × Rat)) (rs : List Rung) :
    rungQs (promoScan ty m numThr cap hint next thr rs).rungs = rungQs rs := by
  induction rs generalizing next thr with
  | nil => rfl
  | cons rg rest ih =>
    unfold promoScan
    by_cases hc : rg.level < cap
    · simp only [hc, if_true]
      cases (findPromotable ty m numThr thr rg hint).pick with
      | some tp => simp only [rungQs, List.map_cons, markPromoted_q]
      | none =>
        have := ih rg.level (findPromotable ty m numThr thr rg hint).thr
        simp only [rungQs, List.map_cons] at this ⊢
        rw [this]
    · simp only [hc, if_false]
      have := ih rg.level thr
      simp only [rungQs, List.map_cons] at this ⊢
      rw [this]

theorem promoSchedule_qs (s : RungSys) (ty : HBType) (m : Mode) (hint : Option Nat) :
    rungQs (s.promoSchedule ty m hint).1.rungs = rungQs s.rungs := by
  unfold RungSys.promoSchedule
  exact promoScan_qs ty m s.numThr (s.cap ty) hint s.maxT s.thresholds s.rungs

theorem sysTaskAdd_rungs (s s' : RungSys) (pr : Bool) (tid skip : Nat) (resume : Option (Nat × Nat))
    (h : s.taskAdd pr tid skip resume = .ok s') : s'.rungs = s.rungs := by
  unfold RungSys.taskAdd at h
  cases pr with
  | false =>
    simp only [Bool.false_eq_true, if_false, Except.ok.injEq] at h
    subst h; rfl
  | true =>
    simp only [if_true] at h
    cases resume with
    | none =>
      simp only [Except.ok.injEq] at h
      subst h; rfl
    | some mr =>
      simp only at h
      by_cases hlt : mr.2 < mr.1
      · simp only [hlt, not_true_eq_false, if_false, Except.ok.injEq] at h
        subst h; rfl
      · simp [hlt] at h

theorem sysQs_set (ss : List RungSys) (i : Nat) (s s' : RungSys) (h : ss[i]? = some s)
    (hq : rungQs s'.rungs = rungQs s.rungs) : sysQs (ss.set i s') = sysQs ss := by
  induction ss generalizing i with
  | nil => rfl
  | cons x xs ih =>
    cases i with
    | zero =>
      simp only [List.getElem?_cons_zero, Option.some.injEq] at h
      subst h
      simp only [List.set_cons_zero, sysQs, List.map_cons, hq]
    | succ n =>
      simp only [List.getElem?_cons_succ] at h
      have := ih n h
      simp only [sysQs, List.set_cons_succ, List.map_cons] at this ⊢
      rw [this]

theorem mgrTaskAdd_qs (g : Manager) (tid bracket : Nat) (resume : Option (Nat × Nat)) (res : Manager × Nat)
    (h : g.taskAdd tid bracket resume = .ok res) : sysQs res.1.systems = sysQs g.systems := by
  unfold Manager.taskAdd at h
  cases hs : g.systems[(g.sysFor bracket).1]? with
  | none => simp [hs] at h
  | some s =>
    simp only [hs] at h
    cases ha : s.taskAdd g.type.pauseResume tid (g.sysFor bracket).2 resume with
    | error e => simp [ha] at h
    | ok s' =>
      simp only [ha, Except.ok.injEq] at h
      subst h
      exact sysQs_set g.systems _ s s' hs (by rw [sysTaskAdd_rungs s s' _ _ _ _ ha])

theorem sysReport_qs (g : Manager) (s : RungSys) (tid r : Nat) (v : Rat) (skip : Nat) (hint : Bool)
    (cost eps : Rat) (res : RungSys × RepOut) (h : g.sysReport s tid r v skip hint cost eps = .ok res) :
    rungQs res.1.rungs = rungQs s.rungs := by
  unfold Manager.sysReport at h
  cases ht : g.type with
  | stopping =>
    simp only [ht, Except.ok.injEq] at h
    subst h; exact stopReport_qs s g.mode tid r v skip hint
  | rushStopping =>
    simp only [ht, Except.ok.injEq] at h
    subst h; exact rushStopReport_qs s g.mode tid r v skip hint
  | promotion => simp only [ht] at h; exact promoReport_qs s g.mode tid r v 0 res h
  | rushPromotion => simp only [ht] at h; exact promoReport_qs s g.mode tid r v 0 res h
  | costPromotion => simp only [ht] at h; exact promoReport_qs s g.mode tid r v cost res h
  | pasha => simp only [ht] at h; exact pashaReport_qs s g.mode tid r v eps res h

theorem taskReport_qs (g : Manager) (tid r : Nat) (v : Rat) (hint : Bool) (cost eps : Rat)
    (res : Manager × RepOut) (h : g.taskReport tid r v hint cost eps = .ok res) :
    sysQs res.1.systems = sysQs g.systems := by
  unfold Manager.taskReport at h
  cases hl : alookup tid g.taskInfo with
  | none => simp [hl] at h
  | some bracket =>
    simp only [hl] at h
    cases hs : g.systems[(g.sysFor bracket).1]? with
    | none => simp [hs] at h
    | some s =>
      simp only [hs] at h
      by_cases hr : r < g.maxT
      · simp only [hr, if_true] at h
        cases hrep : g.sysReport s tid r v (g.sysFor bracket).2 hint cost eps with
        | error e => simp [hrep] at h
        | ok res0 =>
          simp only [hrep, Except.ok.injEq] at h
          subst h
          exact sysQs_set g.systems _ s res0.1 hs (sysReport_qs g s tid r v _ hint cost eps res0 hrep)
      · simp only [hr, if_false, Except.ok.injEq] at h
        subst h; rfl

theorem delRunningAt_qs (ss : List RungSys) (i tid : Nat) : sysQs (delRunningAt ss i tid) = sysQs ss := by
  unfold delRunningAt
  cases hs : ss[i]? with
  | none => rfl
  | some s => exact sysQs_set ss i s _ hs rfl

theorem taskRemove_qs (g : Manager) (tid : Nat) : sysQs (g.taskRemove tid).systems = sysQs g.systems := by
  unfold Manager.taskRemove
  cases alookup tid g.taskInfo with
  | none => rfl
  | some bracket => exact delRunningAt_qs g.systems _ tid

theorem taskSchedule_qs (g : Manager) (bracket : Nat) (hint : Option Nat)
    (res : Manager × Option SchedOut × Nat × Bool) (h : g.taskSchedule bracket hint = .ok res) :
    sysQs res.1.systems = sysQs g.systems := by
  unfold Manager.taskSchedule at h
  cases hs : g.systems[(g.sysFor bracket).1]? with
  | none => simp [hs] at h
  | some s =>
    simp only [hs] at h
    by_cases hp : g.type.pauseResume = true
    · simp only [hp, not_true_eq_false, if_false] at h
      cases ho : (s.promoSchedule g.type g.mode hint).2.1 with
      | some o =>
        simp only [ho, Except.ok.injEq] at h
        subst h
        exact sysQs_set g.systems _ s _ hs (promoSchedule_qs s g.type g.mode hint)
      | none =>
        simp only [ho, Except.ok.injEq] at h
        subst h
        exact sysQs_set g.systems _ s _ hs (promoSchedule_qs s g.type g.mode hint)
    · simp only [hp, Bool.false_eq_true, not_false_eq_true, if_true, Except.ok.injEq] at h
      subst h; rfl

theorem suggest_qs (s : Sched) (newTid bracket : Nat) (hint : Option Nat)
    (res : Sched × Suggestion × List SCall × Bool) (h : s.suggest newTid bracket hint = .ok res) :
    sysQs res.1.mgr.systems = sysQs s.mgr.systems := by
  unfold Sched.suggest at h
  cases hts : s.mgr.taskSchedule bracket hint with
  | error e => simp [hts] at h
  | ok r1 =>
    have h1 := taskSchedule_qs s.mgr bracket hint r1 hts
    simp only [hts] at h
    cases ho : r1.2.1 with
    | none =>
      simp only [ho] at h
      unfold Sched.suggestStart at h
      by_cases hex : (alookup newTid s.active).isSome = true
      · simp [hex] at h
      · simp only [hex, Bool.false_eq_true, if_false] at h
        cases ha : r1.1.taskAdd newTid bracket none with
        | error e => simp [ha] at h
        | ok r2 =>
          simp only [ha, Except.ok.injEq] at h
          subst h
          exact (mgrTaskAdd_qs r1.1 newTid bracket none r2 ha).trans h1
    | some o =>
      simp only [ho] at h
      unfold Sched.suggestResume at h
      cases ha : r1.1.taskAdd o.trial bracket (some (o.milestone, o.resumeFrom)) with
      | error e => simp [ha] at h
      | ok r2 =>
        simp only [ha] at h
        cases hl : alookup o.trial s.active with
        | none => simp [hl] at h
        | some rec =>
          simp only [hl] at h
          by_cases hd : rec.decision = .continue
          · simp [hd] at h
          · simp only [hd, if_false, Except.ok.injEq] at h
            subst h
            exact (mgrTaskAdd_qs r1.1 _ bracket _ r2 ha).trans h1

theorem cleanup_qs (s : Sched) (tid : Nat) (d : Decision) :
    sysQs (s.cleanup tid d).mgr.systems = sysQs s.mgr.systems :=
  taskRemove_qs s.mgr tid

theorem onResultLive_qs (s : Sched) (tid r : Nat) (v : Rat) (rec : TrialInfo) (o : RepOut)
    (res : Sched × ResOut) (h : s.onResultLive tid r v rec o = .ok res) :
    sysQs res.1.mgr.systems = sysQs s.mgr.systems := by
  unfold Sched.onResultLive at h
  by_cases hg : (s.updateSearcher tid r v o rec).1 = true ∧ ¬ (rec.lastUpdate r ≤ r)
  · simp [hg] at h
  · simp only [hg, if_false, Except.ok.injEq] at h
    subst h
    cases o.continues with
    | true => rfl
    | false =>
      simp only [Bool.false_eq_true, if_false]
      exact cleanup_qs _ tid _

theorem onResult_qs (s : Sched) (tid r : Nat) (v : Rat) (hint : Bool) (cost eps : Rat)
    (res : Sched × ResOut) (h : s.onResult tid r v hint cost eps = .ok res) :
    sysQs res.1.mgr.systems = sysQs s.mgr.systems := by
  unfold Sched.onResult at h
  cases hl : alookup tid s.active with
  | none => simp [hl] at h
  | some rec =>
    simp only [hl] at h
    by_cases hd : rec.decision = .continue
    · simp only [hd, ne_eq, not_true_eq_false, if_false] at h
      cases hrep : s.mgr.taskReport tid r v hint (s.totalCost tid cost) eps with
      | error e => simp [hrep] at h
      | ok r1 =>
        have h1 := taskReport_qs s.mgr tid r v hint _ eps r1 hrep
        simp only [hrep] at h
        unfold Sched.afterReport at h
        cases hco : s.costOffsetAfter tid (s.totalCost tid cost) r1.2 with
        | error e => simp [hco] at h
        | ok co =>
          simp only [hco] at h
          cases hig : r1.2.ignoreData with
          | true =>
            simp only [hig, if_true, Except.ok.injEq] at h
            subst h; exact h1
          | false =>
            simp only [hig, Bool.false_eq_true, if_false] at h
            exact (onResultLive_qs _ tid r v rec r1.2 res h).trans h1
    · simp only [hd, ne_eq, not_false_eq_true, if_true, Except.ok.injEq] at h
      subst h; rfl

theorem onComplete_qs (s : Sched) (tid r : Nat) (v : Rat) (res : Sched × List SCall)
    (h : s.onComplete tid r v = .ok res) : sysQs res.1.mgr.systems = sysQs s.mgr.systems := by
  unfold Sched.onComplete at h
  cases hl : alookup tid s.active with
  | none => simp [hl] at h
  | some rec =>
    simp only [hl, Except.ok.injEq] at h
    subst h
    exact cleanup_qs s tid .stop

/-- **no operation changes a promotion quantile** -/
theorem stepS_qs (s : Sched) (op : SOp) : sysQs (stepS s op).mgr.systems = sysQs s.mgr.systems := by
  cases op with
  | suggest n b hint =>
    simp only [stepS]
    cases hs : s.suggest n b hint with
    | error e => rfl
    | ok res => exact suggest_qs s n b hint res hs
  | result t r v hint c e =>
    simp only [stepS]
    cases hs : s.onResult t r v hint c e with
    | error e => rfl
    | ok res => exact onResult_qs s t r v hint c e res hs
  | remove t => exact cleanup_qs s t .pause
  | error t => exact cleanup_qs s t .stop
  | complete t r v =>
    simp only [stepS]
    cases hs : s.onComplete t r v with
    | error e => rfl
    | ok res => exact onComplete_qs s t r v res hs

/-! ### the mode is never changed by an operation -/

theorem setSys_mode (g : Manager) (i : Nat) (s : RungSys) : (g.setSys i s).mode = g.mode := rfl

theorem mgrTaskAdd_mode (g : Manager) (tid bracket : Nat) (resume : Option (Nat × Nat)) (res : Manager × Nat)
    (h : g.taskAdd tid bracket resume = .ok res) : res.1.mode = g.mode := by
  unfold Manager.taskAdd at h
  cases hs : g.systems[(g.sysFor bracket).1]? with
  | none => simp [hs] at h
  | some s =>
    simp only [hs] at h
    cases ha : s.taskAdd g.type.pauseResume tid (g.sysFor bracket).2 resume with
    | error e => simp [ha] at h
    | ok s' =>
      simp only [ha, Except.ok.injEq] at h
      subst h; rfl

theorem taskReport_mode (g : Manager) (tid r : Nat) (v : Rat) (hint : Bool) (cost eps : Rat)
    (res : Manager × RepOut) (h : g.taskReport tid r v hint cost eps = .ok res) : res.1.mode = g.mode := by
  unfold Manager.taskReport at h
  cases hl : alookup tid g.taskInfo with
  | none => simp [hl] at h
  | some bracket =>
    simp only [hl] at h
    cases hs : g.systems[(g.sysFor bracket).1]? with
    | none => simp [hs] at h
    | some s =>
      simp only [hs] at h
      by_cases hr : r < g.maxT
      · simp only [hr, if_true] at h
        cases hrep : g.sysReport s tid r v (g.sysFor bracket).2 hint cost eps with
        | error e => simp [hrep] at h
        | ok res0 =>
          simp only [hrep, Except.ok.injEq] at h
          subst h; rfl
      · simp only [hr, if_false, Except.ok.injEq] at h
        subst h; rfl

theorem taskRemove_mode (g : Manager) (tid : Nat) : (g.taskRemove tid).mode = g.mode := by
  unfold Manager.taskRemove
  cases alookup tid g.taskInfo <;> rfl

theorem taskSchedule_mode (g : Manager) (bracket : Nat) (hint : Option Nat)
    (res : Manager × Option SchedOut × Nat × Bool) (h : g.taskSchedule bracket hint = .ok res) :
    res.1.mode = g.mode := by
  unfold Manager.taskSchedule at h
  cases hs : g.systems[(g.sysFor bracket).1]? with
  | none => simp [hs] at h
  | some s =>
    simp only [hs] at h
    by_cases hp : g.type.pauseResume = true
    · simp only [hp, not_true_eq_false, if_false] at h
      cases ho : (s.promoSchedule g.type g.mode hint).2.1 with
      | some o =>
        simp only [ho, Except.ok.injEq] at h
        subst h; rfl
      | none =>
        simp only [ho, Except.ok.injEq] at h
        subst h; rfl
    · simp only [hp, Bool.false_eq_true, not_false_eq_true, if_true, Except.ok.injEq] at h
      subst h; rfl

theorem suggest_mode (s : Sched) (newTid bracket : Nat) (hint : Option Nat)
    (res : Sched × Suggestion × List SCall × Bool) (h : s.suggest newTid bracket hint = .ok res) :
    res.1.mgr.mode = s.mgr.mode := by
  unfold Sched.suggest at h
  cases hts : s.mgr.taskSchedule bracket hint with
  | error e => simp [hts] at h
  | ok r1 =>
    have h1 := taskSchedule_mode s.mgr bracket hint r1 hts
    simp only [hts] at h
    cases ho : r1.2.1 with
    | none =>
      simp only [ho] at h
      unfold Sched.suggestStart at h
      by_cases hex : (alookup newTid s.active).isSome = true
      · simp [hex] at h
      · simp only [hex, Bool.false_eq_true, if_false] at h
        cases ha : r1.1.taskAdd newTid bracket none with
        | error e => simp [ha] at h
        | ok r2 =>
          simp only [ha, Except.ok.injEq] at h
          subst h
          exact (mgrTaskAdd_mode r1.1 newTid bracket none r2 ha).trans h1
    | some o =>
      simp only [ho] at h
      unfold Sched.suggestResume at h
      cases ha : r1.1.taskAdd o.trial bracket (some (o.milestone, o.resumeFrom)) with
      | error e => simp [ha] at h
      | ok r2 =>
        simp only [ha] at h
        cases hl : alookup o.trial s.active with
        | none => simp [hl] at h
        | some rec =>
          simp only [hl] at h
          by_cases hd : rec.decision = .continue
          · simp [hd] at h
          · simp only [hd, if_false, Except.ok.injEq] at h
            subst h
            exact (mgrTaskAdd_mode r1.1 _ bracket _ r2 ha).trans h1

theorem cleanup_mode (s : Sched) (tid : Nat) (d : Decision) : (s.cleanup tid d).mgr.mode = s.mgr.mode :=
  taskRemove_mode s.mgr tid

theorem onResultLive_mode (s : Sched) (tid r : Nat) (v : Rat) (rec : TrialInfo) (o : RepOut)
    (res : Sched × ResOut) (h : s.onResultLive tid r v rec o = .ok res) :
    res.1.mgr.mode = s.mgr.mode := by
  unfold Sched.onResultLive at h
  by_cases hg : (s.updateSearcher tid r v o rec).1 = true ∧ ¬ (rec.lastUpdate r ≤ r)
  · simp [hg] at h
  · simp only [hg, if_false, Except.ok.injEq] at h
    subst h
    cases o.continues with
    | true => rfl
    | false =>
      simp only [Bool.false_eq_true, if_false]
      exact cleanup_mode _ tid _

theorem onResult_mode (s : Sched) (tid r : Nat) (v : Rat) (hint : Bool) (cost eps : Rat)
    (res : Sched × ResOut) (h : s.onResult tid r v hint cost eps = .ok res) :
    res.1.mgr.mode = s.mgr.mode := by
  unfold Sched.onResult at h
  cases hl : alookup tid s.active with
  | none => simp [hl] at h
  | some rec =>
    simp only [hl] at h
    by_cases hd : rec.decision = .continue
    · simp only [hd, ne_eq, not_true_eq_false, if_false] at h
      cases hrep : s.mgr.taskReport tid r v hint (s.totalCost tid cost) eps with
      | error e => simp [hrep] at h
      | ok r1 =>
        have h1 := taskReport_mode s.mgr tid r v hint _ eps r1 hrep
        simp only [hrep] at h
        unfold Sched.afterReport at h
        cases hco : s.costOffsetAfter tid (s.totalCost tid cost) r1.2 with
        | error e => simp [hco] at h
        | ok co =>
          simp only [hco] at h
          cases hig : r1.2.ignoreData with
          | true =>
            simp only [hig, if_true, Except.ok.injEq] at h
            subst h; exact h1
          | false =>
            simp only [hig, Bool.false_eq_true, if_false] at h
            exact (onResultLive_mode _ tid r v rec r1.2 res h).trans h1
    · simp only [hd, ne_eq, not_false_eq_true, if_true, Except.ok.injEq] at h
      subst h; rfl

theorem stepS_mode (s : Sched) (op : SOp) : (stepS s op).mgr.mode = s.mgr.mode := by
  cases op with
  | suggest n b hint =>
    simp only [stepS]
    cases hs : s.suggest n b hint with
    | error e => rfl
    | ok res => exact suggest_mode s n b hint res hs
  | result t r v hint c e =>
    simp only [stepS]
    cases hs : s.onResult t r v hint c e with
    | error e => rfl
    | ok res => exact onResult_mode s t r v hint c e res hs
  | remove t => exact cleanup_mode s t .pause
  | error t => exact cleanup_mode s t .stop
  | complete t r v =>
    simp only [stepS]
    unfold Sched.onComplete
    cases alookup t s.active with
    | none => rfl
    | some rec => exact cleanup_mode s t .stop

/-! ### from mode `min` to both modes: the negation is an involution -/

theorem negMgr_mode_flip (g : Manager) : (negMgr g).mode = g.mode.flip := rfl

theorem MgrQOK_neg (g : Manager) (h : MgrQOK g) : MgrQOK (negMgr g) := by
  intro sys hsys
  simp only [negMgr_systems, List.mem_map] at hsys
  obtain ⟨s0, hs0, rfl⟩ := hsys
  intro rg hrg
  simp only [negSys_rungs, List.mem_map] at hrg
  obtain ⟨rg0, hrg0, rfl⟩ := hrg
  exact h s0 hs0 rg0 hrg0

theorem negRes_negRes (o : ResOut) : negRes (negRes o) = o := by
  cases o with
  | mk decision free calls =>
    simp only [negRes, List.map_map]
    congr 1
    exact map_eq_self _ (fun c => negCall_negCall c) calls

theorem except_map_invol {ε α} (f : α → α) (hf : ∀ x, f (f x) = x) (x : Except ε α) :
    (x.map f).map f = x := by
  cases x with
  | error e => rfl
  | ok a => simp only [Except.map, hf]

theorem suggest_symm_any (s : Sched) (hq : MgrQOK s.mgr) (newTid bracket : Nat) (hint : Option Nat) :
    (negSched s).suggest newTid bracket hint =
      (s.suggest newTid bracket hint).map (fun res => (negSched res.1, res.2)) := by
  cases hm : s.mgr.mode with
  | min => exact suggest_symm_min s hm hq newTid bracket hint
  | max =>
    have hm' : (negSched s).mgr.mode = .min := by
      rw [negSched_mgr, negMgr_mode_flip, hm]; rfl
    have h := suggest_symm_min (negSched s) hm' (MgrQOK_neg s.mgr hq) newTid bracket hint
    rw [negSched_negSched] at h
    rw [h]
    exact (except_map_invol (fun res : Sched × Suggestion × List SCall × Bool => (negSched res.1, res.2))
      (fun x => by simp only [negSched_negSched]) _).symm

theorem onResult_symm_any (s : Sched) (hq : MgrQOK s.mgr) (tid r : Nat) (v : Rat)
    (hint : Bool) (cost eps : Rat) :
    (negSched s).onResult tid r (-v) hint cost eps =
      (s.onResult tid r v hint cost eps).map (fun res => (negSched res.1, negRes res.2)) := by
  cases hm : s.mgr.mode with
  | min => exact onResult_symm_min s hm hq tid r v hint cost eps
  | max =>
    have hm' : (negSched s).mgr.mode = .min := by
      rw [negSched_mgr, negMgr_mode_flip, hm]; rfl
    have h := onResult_symm_min (negSched s) hm' (MgrQOK_neg s.mgr hq) tid r (-v) hint cost eps
    rw [negSched_negSched, neg_neg] at h
    rw [h]
    exact (except_map_invol (fun res : Sched × ResOut => (negSched res.1, negRes res.2))
      (fun x => by simp only [negSched_negSched, negRes_negRes]) _).symm

/-! ### constructed schedulers -/

theorem zipWith_q_mem (levels : List Nat) (qs : List Rat) (rg : Rung)
    (h : rg ∈ List.zipWith (fun l q => ({ level := l, q := q, data := [] } : Rung)) levels qs) : rg.q ∈ qs := by
  induction levels generalizing qs with
  | nil => simp at h
  | cons l ls ih =>
    cases qs with
    | nil => simp at h
    | cons q qs' =>
      simp only [List.zipWith_cons_cons, List.mem_cons] at h
      rcases h with rfl | h
      · simp
      · exact List.mem_cons_of_mem _ (ih qs' h)

theorem mkSys_rungs (type : HBType) (numThr : Nat) (levels : List Nat) (quants : List Rat) (maxT : Nat) :
    (mkSys type numThr levels quants maxT).rungs = (mkRungSys levels quants maxT).rungs := by
  unfold mkSys
  split <;> rfl

end SyneTune.C15Sched
