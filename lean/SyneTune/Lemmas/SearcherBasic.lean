import SyneTune.Model.InitialPoints
import Mathlib.Tactic.Linarith
import Mathlib.Data.Rat.Floor
import Mathlib.Algebra.Order.Floor.Ring
/-
Lemmas about domains, imputation of initial points, `cast_config_values` /
`_postprocess_config` and PBT's perturbation (`Model/Searcher.lean`,
`Model/InitialPoints.lean`) for C06.
-/
namespace SyneTune.Srch
open SyneTune

/-! ### validity predicates -/

/-- every hyperparameter of `hps` has in `c` a value that is a member of its domain -/
def ValidOn (hps : List (String × Dom)) (c : Config) : Prop :=
  ∀ k d, (k, d) ∈ hps → ∃ v, cget k c = some v ∧ d.member v = true

/-- `c` lists exactly the hyperparameters `hps`, in order, with member values -/
def HpValid : List (String × Dom) → Config → Prop
  | [], [] => True
  | (k, d) :: hps, (k', v) :: c => k = k' ∧ d.member v = true ∧ HpValid hps c
  | _, _ => False

/-- a configuration as returned by `scheduler.suggest` for the space `sp`, given that the
searcher returned `c`: all keys of the space in its order; every hyperparameter value is a
member of its domain and has the domain's value type; a constant has the value of the space
(unless the searcher's configuration itself carries that key, e.g. the grid searcher, or
the max-resource attribute Hyperband sets on purpose) -/
def FullValid (sp : Space) (c full : Config) : Prop :=
  full.map Prod.fst = sp.map Prod.fst ∧
  ∀ k e, (k, e) ∈ sp → ∃ v, cget k full = some v ∧
    match e with
    | .dom d => d.member v = true ∧ v.vtype = d.vtype
    | .const w => v = (cget k c).getD w

theorem cget_cons_self (k : String) (v : Val) (c : Config) : cget k ((k, v) :: c) = some v := by
  simp [cget]

theorem cget_cons_ne (k k' : String) (v : Val) (c : Config) (h : k ≠ k') :
    cget k ((k', v) :: c) = cget k c := by
  simp [cget, h]

theorem mem_hpEntries (sp : Space) (k : String) (d : Dom) :
    (k, d) ∈ hpEntries sp ↔ (k, Entry.dom d) ∈ sp := by
  induction sp with
  | nil => simp [hpEntries]
  | cons x sp ih =>
    obtain ⟨k', e⟩ := x
    cases e with
    | dom d' =>
      simp only [hpEntries, List.mem_cons, Prod.mk.injEq, ih]
      constructor
      · rintro (⟨a, b⟩ | h)
        · left; exact ⟨a, by rw [b]⟩
        · right; exact h
      · rintro (⟨a, b⟩ | h)
        · left; injection b with b; exact ⟨a, b⟩
        · right; exact h
    | const w =>
      simp only [hpEntries, List.mem_cons, Prod.mk.injEq, ih]
      constructor
      · intro h; right; exact h
      · rintro (⟨_, b⟩ | h)
        · cases b
        · exact h

theorem hpValid_keys : ∀ (hps : List (String × Dom)) (c : Config), HpValid hps c →
    c.map Prod.fst = hps.map Prod.fst
  | [], [], _ => rfl
  | [], _ :: _, h => h.elim
  | _ :: _, [], h => by cases ‹String × Dom›; exact h.elim
  | (k, d) :: hps, (k', v) :: c, h => by
    obtain ⟨h1, _, h3⟩ := h
    simp [h1, hpValid_keys hps c h3]

theorem hpValid_validOn : ∀ (hps : List (String × Dom)) (c : Config),
    (hps.map Prod.fst).Nodup → HpValid hps c → ValidOn hps c
  | [], [], _, _ => by intro k d h; cases h
  | [], _ :: _, _, h => h.elim
  | (_, _) :: _, [], _, h => h.elim
  | (k, d) :: hps, (k', v) :: c, hn, h => by
    obtain ⟨h1, h2, h3⟩ := h
    subst h1
    simp only [List.map_cons, List.nodup_cons] at hn
    intro k2 d2 hm
    simp only [List.mem_cons, Prod.mk.injEq] at hm
    rcases hm with ⟨a, b⟩ | hm
    · subst a; subst b
      exact ⟨v, cget_cons_self _ _ _, h2⟩
    · have hne : k2 ≠ k := by
        intro e; subst e
        exact hn.1 (List.mem_map.mpr ⟨(k2, d2), hm, rfl⟩)
      obtain ⟨w, hw, hmem⟩ := hpValid_validOn hps c hn.2 h3 k2 d2 hm
      exact ⟨w, by rw [cget_cons_ne _ _ _ _ hne]; exact hw, hmem⟩

/-! ### members: type and cast -/

theorem contains_iff (l : List Val) (v : Val) : l.contains v = true ↔ v ∈ l := by
  simp

theorem sameTypes_mem (l : List Val) (h : sameTypes l = true) (a : Val) (rest : List Val)
    (hl : l = a :: rest) (v : Val) (hv : v ∈ l) : v.vtype = a.vtype := by
  subst hl
  simp only [sameTypes, List.all_eq_true, beq_iff_eq] at h
  rcases List.mem_cons.mp hv with rfl | hv
  · rfl
  · exact h v hv

/-- a member has the domain's value type -/
theorem member_vtype (d : Dom) (hwf : d.wfb = true) (v : Val) (hm : d.member v = true) :
    v.vtype = d.vtype := by
  cases d with
  | cat cats o =>
    simp only [Dom.member, contains_iff] at hm
    simp only [Dom.wfb, Bool.and_eq_true] at hwf
    cases cats with
    | nil => cases hm
    | cons a rest => exact sameTypes_mem _ hwf.2 a rest rfl v hm
  | nn cats l g =>
    simp only [Dom.member, contains_iff] at hm
    simp only [Dom.wfb, Bool.and_eq_true] at hwf
    cases cats with
    | nil => cases hm
    | cons a rest => exact sameTypes_mem _ hwf.1.1.1.2 a rest rfl v hm
  | int lo hi l g =>
    cases v <;> simp [Dom.member] at hm
    rfl
  | float lo hi l g =>
    cases v <;> simp [Dom.member] at hm <;> rfl
  | fin vals lo hi l g raw =>
    simp only [Dom.member, contains_iff] at hm
    simp only [Dom.wfb, Bool.and_eq_true] at hwf
    cases vals with
    | nil => cases hm
    | cons a rest => exact sameTypes_mem _ hwf.1.1.1.1.2 a rest rfl v hm

theorem coerce_same (v : Val) : coerce v.vtype v = .ok v := by
  cases v <;> rfl

theorem castFixes_iff (d : Dom) (v : Val) : d.castFixes v = true ↔ d.cast v none = .ok v := by
  unfold Dom.castFixes
  cases h : d.cast v none with
  | error e => simp
  | ok w => simp

/-- **cast is the identity on members** (`cast_config_values` leaves a valid configuration
unchanged) -/
theorem cast_member (d : Dom) (hwf : d.wfb = true) (v : Val) (hm : d.member v = true) :
    d.cast v none = .ok v := by
  have hty := member_vtype d hwf v hm
  cases d with
  | cat cats o =>
    simp only [Dom.cast]
    rw [← hty, coerce_same]
    simp only [Dom.member] at hm
    simp only [hm, if_true]
  | nn cats l g =>
    simp only [Dom.member, contains_iff] at hm
    simp only [Dom.wfb, Bool.and_eq_true, List.all_eq_true] at hwf
    exact (castFixes_iff _ _).mp (hwf.1.2 v hm)
  | int lo hi l g =>
    cases v <;> simp [Dom.member] at hm
    rfl
  | float lo hi l g =>
    cases v <;> simp [Dom.member] at hm
    · rfl
    · rfl
  | fin vals lo hi l g raw =>
    simp only [Dom.member, contains_iff] at hm
    simp only [Dom.wfb, Bool.and_eq_true, List.all_eq_true] at hwf
    exact (castFixes_iff _ _).mp (hwf.1.2 v hm)

/-! ### the mid-point rule produces members -/

theorem clipInt_mem (x lo hi : Int) (h : lo ≤ hi) : lo ≤ clipInt x lo hi ∧ clipInt x lo hi ≤ hi := by
  unfold clipInt
  split
  · omega
  · split <;> omega

theorem clipRat_mem (x lo hi : Rat) (h : lo ≤ hi) : lo ≤ clipRat x lo hi ∧ clipRat x lo hi ≤ hi := by
  unfold clipRat
  split
  · exact ⟨le_refl _, h⟩
  · split
    · exact ⟨h, le_refl _⟩
    · constructor <;> linarith

theorem clipFixes_iff (d : Dom) (v : Val) (lo hi : Rat) (hb : d.numBounds = .ok (lo, hi)) :
    d.clipFixes v = true ↔ d.clipMid v lo hi = v := by
  unfold Dom.clipFixes
  rw [hb]
  simp

theorem getElem?_mem_val {l : List Val} {i : Nat} {v : Val} (h : l[i]? = some v) : v ∈ l :=
  List.mem_of_getElem? h

/-- `_non_default_config` returns a member of the domain -/
theorem midpoint_member (d : Dom) (hwf : d.wfb = true) (hint : Option Nat) (v : Val)
    (h : d.midpoint hint = .ok v) : d.member v = true := by
  cases d with
  | cat cats o =>
    simp only [Dom.midpoint] at h
    cases hc : cats[if o = true then cats.length / 2 else 0]? with
    | none => simp [hc] at h
    | some w =>
      simp only [hc] at h
      injection h with h; subst h
      simp only [Dom.member, contains_iff]
      exact getElem?_mem_val hc
  | nn cats l g =>
    simp only [Dom.midpoint] at h
    cases hb : (Dom.nn cats l g).numBounds with
    | error e => simp [hb] at h
    | ok b =>
      obtain ⟨lo, hi⟩ := b
      simp only [hb] at h
      cases hc : (Dom.nn cats l g).cast (Val.rat (if (Dom.nn cats l g).isLog = true then (Dom.nn cats l g).geo else 1 / 2 * (hi + lo))) hint with
      | error e => rw [hc] at h; cases h
      | ok m =>
        rw [hc] at h
        injection h with h; subst h
        -- the cast value is a category
        have hm : m ∈ cats := by
          simp only [Dom.cast, Val.num?] at hc
          split at hc
          · exact getElem?_mem_val (by
              rename_i c hcc
              injection hc with hc; subst hc; exact hcc)
          · cases hc
        simp only [Dom.wfb, Bool.and_eq_true, List.all_eq_true] at hwf
        have := (clipFixes_iff _ m lo hi hb).mp (hwf.2 m hm)
        rw [this]
        simp only [Dom.member, contains_iff]; exact hm
  | int lo hi l g =>
    simp only [Dom.midpoint, Dom.numBounds, Dom.cast] at h
    injection h with h; subst h
    simp only [Dom.wfb, decide_eq_true_eq] at hwf
    simp only [Dom.clipMid, Dom.member, Bool.and_eq_true, decide_eq_true_eq]
    exact clipInt_mem _ lo hi hwf
  | float lo hi l g =>
    simp only [Dom.midpoint, Dom.numBounds, Dom.cast, Val.num?] at h
    injection h with h; subst h
    simp only [Dom.wfb, decide_eq_true_eq] at hwf
    simp only [Dom.clipMid, clipVal, Dom.member, Bool.and_eq_true, decide_eq_true_eq]
    exact clipRat_mem _ lo hi hwf
  | fin vals lo hi l g raw =>
    simp only [Dom.midpoint] at h
    cases hb : (Dom.fin vals lo hi l g raw).numBounds with
    | error e => simp [hb] at h
    | ok b =>
      obtain ⟨lo', hi'⟩ := b
      simp only [hb] at h
      cases hc : (Dom.fin vals lo hi l g raw).cast (Val.rat (if (Dom.fin vals lo hi l g raw).isLog = true then (Dom.fin vals lo hi l g raw).geo else 1 / 2 * (hi' + lo'))) hint with
      | error e => rw [hc] at h; cases h
      | ok m =>
        rw [hc] at h
        injection h with h; subst h
        have hm : m ∈ vals := by
          simp only [Dom.cast, Val.num?] at hc
          split at hc
          · exact getElem?_mem_val (by
              rename_i c hcc
              injection hc with hc; subst hc; exact hcc)
          · cases hc
        simp only [Dom.wfb, Bool.and_eq_true, List.all_eq_true] at hwf
        have := (clipFixes_iff _ m lo' hi' hb).mp (hwf.2 m hm)
        rw [this]
        simp only [Dom.member, contains_iff]; exact hm

/-- `_default_config_value` returns a member or raises -/
theorem defaultValue_member (d : Dom) (given v : Val) (h : d.defaultValue given = .ok v) :
    d.member v = true := by
  unfold Dom.defaultValue at h
  cases hc : d.cast given none with
  | error e => rw [hc] at h; cases h
  | ok w =>
    rw [hc] at h
    cases d with
    | cat cats o =>
      simp only at h
      split at h
      · injection h with h; subst h; simpa [Dom.member] using ‹cats.contains w = true›
      · cases h
    | nn cats l g =>
      simp only at h
      split at h
      · injection h with h; subst h; simpa [Dom.member] using ‹cats.contains w = true›
      · cases h
    | int lo hi l g =>
      simp only at h
      cases w with
      | int i =>
        simp only at h
        split at h
        · injection h with h; subst h
          rename_i hr
          simp [Dom.member, hr.1, hr.2]
        · cases h
      | rat q => cases h
      | str s => cases h
      | nzero => cases h
    | float lo hi l g =>
      simp only at h
      cases w with
      | rat q =>
        simp only at h
        split at h
        · injection h with h; subst h
          rename_i hr
          simp [Dom.member, hr.1, hr.2]
        · cases h
      | nzero =>
        simp only at h
        split at h
        · injection h with h; subst h
          rename_i hr
          simp [Dom.member, hr.1, hr.2]
        · cases h
      | int i => cases h
      | str s => cases h
    | fin vals lo hi l g raw =>
      have hm : w ∈ vals := by
        simp only [Dom.cast] at hc
        split at hc
        · cases hc
        · split at hc
          · rename_i c hcc
            injection hc with hc; subst hc; exact getElem?_mem_val hcc
          · cases hc
      simp only at h
      split at h
      · split at h
        · injection h with h; subst h; simp [Dom.member, hm]
        · cases h
      · cases h

/-- every entry of an imputed configuration: the key of the space, and either the user's
value (cast, checked) or the mid-point default; all are members -/
theorem imputeDefault_spec (point : Config) (hints : List (String × Nat)) :
    ∀ (hps : List (String × Dom)) (c : Config), (∀ kd ∈ hps, kd.2.wfb = true) →
      imputeDefault point hints hps = .ok c → HpValid hps c ∧
      (∀ k d, (k, d) ∈ hps → ∃ v, (k, v) ∈ c ∧
        (match cget k point with
         | some given => d.defaultValue given = .ok v
         | none => d.midpoint (hints.lookup k) = .ok v))
  | [], c, _, h => by
    simp only [imputeDefault] at h
    injection h with h; subst h
    exact ⟨trivial, by intro k d hm; cases hm⟩
  | (k, d) :: hps, c, hwf, h => by
    simp only [imputeDefault] at h
    cases hr : imputeDefault point hints hps with
    | error e =>
      rw [hr] at h
      split at h
      · rename_i heq; cases heq
      · cases h
      · cases h
    | ok r =>
      rw [hr] at h
      obtain ⟨ih1, ih2⟩ := imputeDefault_spec point hints hps r (fun kd hk => hwf kd (List.mem_cons_of_mem _ hk)) hr
      cases hg : cget k point with
      | some given =>
        simp only [hg] at h
        cases hv : d.defaultValue given with
        | error e => rw [hv] at h; cases h
        | ok v =>
          rw [hv] at h
          injection h with h; subst h
          refine ⟨⟨rfl, defaultValue_member d given v hv, ih1⟩, ?_⟩
          intro k2 d2 hm
          rcases List.mem_cons.mp hm with heq | hm
          · injection heq with a b; subst a; subst b
            exact ⟨v, List.mem_cons_self, by rw [hg]; exact hv⟩
          · obtain ⟨w, hw, hx⟩ := ih2 k2 d2 hm
            exact ⟨w, List.mem_cons_of_mem _ hw, hx⟩
      | none =>
        simp only [hg] at h
        cases hv : d.midpoint (hints.lookup k) with
        | error e => rw [hv] at h; cases h
        | ok v =>
          rw [hv] at h
          injection h with h; subst h
          refine ⟨⟨rfl, midpoint_member d (hwf (k, d) List.mem_cons_self) _ v hv, ih1⟩, ?_⟩
          intro k2 d2 hm
          rcases List.mem_cons.mp hm with heq | hm
          · injection heq with a b; subst a; subst b
            exact ⟨v, List.mem_cons_self, by rw [hg]; exact hv⟩
          · obtain ⟨w, hw, hx⟩ := ih2 k2 d2 hm
            exact ⟨w, List.mem_cons_of_mem _ hw, hx⟩

/-! ### removal of duplicates: first occurrence kept, order preserved -/

/-- the list with every later occurrence of an earlier element removed -/
def firstOcc : List Config → List Config
  | [] => []
  | c :: cs => c :: (firstOcc cs).filter (fun x => decide (x ≠ c))

theorem dedupLoop_eq (cs : List Config) : ∀ seen : List Config,
    dedupLoop cs seen = (firstOcc cs).filter (fun x => decide (x ∉ seen)) := by
  induction cs with
  | nil => intro seen; rfl
  | cons c cs ih =>
    intro seen
    simp only [dedupLoop, firstOcc]
    by_cases hc : c ∈ seen
    · simp only [hc, if_true, ih seen, List.filter_cons, not_true_eq_false, decide_false,
        Bool.false_eq_true, if_false, List.filter_filter]
      apply List.filter_congr
      intro x _
      by_cases hx : x ∈ seen
      · simp [hx]
      · have : x ≠ c := fun e => hx (e ▸ hc)
        simp [hx, this]
    · simp only [hc, if_false, ih (c :: seen), List.filter_cons, not_false_eq_true, decide_true,
        if_true, List.filter_filter, List.cons.injEq, true_and]
      apply List.filter_congr
      intro x _
      simp only [List.mem_cons, not_or, ne_eq, Bool.decide_and, Bool.and_comm]

theorem dedup_firstOcc (cs : List Config) : dedupLoop cs [] = firstOcc cs := by
  rw [dedupLoop_eq]
  simp

theorem firstOcc_sublist : ∀ cs : List Config, (firstOcc cs).Sublist cs
  | [] => List.Sublist.slnil
  | c :: cs => by
    simp only [firstOcc]
    exact List.Sublist.cons_cons c ((List.filter_sublist).trans (firstOcc_sublist cs))

theorem mem_firstOcc : ∀ (cs : List Config) (x : Config), x ∈ firstOcc cs ↔ x ∈ cs
  | [], x => by simp [firstOcc]
  | c :: cs, x => by
    simp only [firstOcc, List.mem_cons, List.mem_filter, decide_eq_true_eq, mem_firstOcc cs x]
    by_cases h : x = c <;> simp [h]

theorem firstOcc_nodup : ∀ cs : List Config, (firstOcc cs).Nodup
  | [] => by simp [firstOcc]
  | c :: cs => by
    simp only [firstOcc, List.nodup_cons, List.mem_filter, decide_eq_true_eq, ne_eq, not_true_eq_false,
      and_false, not_false_eq_true, true_and]
    exact (firstOcc_nodup cs).filter _

theorem imputeAll_spec (hints : List (String × Nat)) (hps : List (String × Dom))
    (hwf : ∀ kd ∈ hps, kd.2.wfb = true) :
    ∀ (pts : List Config) (all : List Config), imputeAll hints hps pts = .ok all →
      all.length = pts.length ∧
      ∀ (i : Nat) (p : Config), pts[i]? = some p → ∃ c, all[i]? = some c ∧ imputeDefault p hints hps = .ok c
  | [], all, h => by
    simp only [imputeAll] at h
    injection h with h; subst h
    exact ⟨rfl, by intro i p hp; simp at hp⟩
  | p :: ps, all, h => by
    simp only [imputeAll] at h
    cases h1 : imputeDefault p hints hps with
    | error e => rw [h1] at h; cases hh : imputeAll hints hps ps <;> rw [hh] at h <;> cases h
    | ok c =>
      rw [h1] at h
      cases h2 : imputeAll hints hps ps with
      | error e => rw [h2] at h; cases h
      | ok r =>
        rw [h2] at h
        injection h with h; subst h
        obtain ⟨ihl, ih⟩ := imputeAll_spec hints hps hwf ps r h2
        refine ⟨by simp [ihl], ?_⟩
        intro i q hq
        cases i with
        | zero =>
          simp only [List.getElem?_cons_zero, Option.some.injEq] at hq
          subst hq
          exact ⟨c, by simp, h1⟩
        | succ i =>
          simp only [List.getElem?_cons_succ] at hq ⊢
          exact ih i q hq

/-- **`impute_points_to_evaluate`**: the result is the list of imputed points (one per
given point, `None ↦ [{}]`) with later duplicates removed — first occurrence kept, order
preserved, no two entries equal — and every entry is a valid configuration. -/
theorem imputePoints_spec (sp : Space) (hwf : Space.wfb sp = true) (hints : List (String × Nat))
    (p2e : Option (List Config)) (cs : List Config) (h : imputePoints sp hints p2e = .ok cs) :
    ∃ all, imputeAll hints (hpEntries sp) (p2e.getD [[]]) = .ok all ∧
      all.length = (p2e.getD [[]]).length ∧
      (∀ (i : Nat) (p : Config), (p2e.getD [[]])[i]? = some p → ∃ c, all[i]? = some c ∧ imputeDefault p hints (hpEntries sp) = .ok c) ∧
      cs = firstOcc all ∧ cs.Nodup ∧ cs.Sublist all ∧ (∀ c, c ∈ cs ↔ c ∈ all) ∧
      (∀ c ∈ cs, HpValid (hpEntries sp) c) := by
  have hw : ∀ kd ∈ hpEntries sp, kd.2.wfb = true := by
    simp only [Space.wfb, Bool.and_eq_true, List.all_eq_true] at hwf
    exact hwf.1
  unfold imputePoints at h
  cases ha : imputeAll hints (hpEntries sp) (p2e.getD [[]]) with
  | error e => rw [ha] at h; cases h
  | ok all =>
    rw [ha] at h
    injection h with h
    rw [dedup_firstOcc] at h
    subst h
    obtain ⟨hl, hi⟩ := imputeAll_spec hints (hpEntries sp) hw _ all ha
    refine ⟨all, rfl, hl, hi, rfl, firstOcc_nodup all, firstOcc_sublist all, mem_firstOcc all, ?_⟩
    intro c hc
    have hc' := (mem_firstOcc all c).mp hc
    obtain ⟨i, hi', hget⟩ := List.mem_iff_getElem.mp hc'
    have hlt : i < (p2e.getD [[]]).length := by omega
    obtain ⟨c', hc1, hc2⟩ := hi i _ (List.getElem?_eq_getElem hlt)
    rw [List.getElem?_eq_getElem hi', hget] at hc1
    injection hc1 with hc1; subst hc1
    exact (imputeDefault_spec _ hints (hpEntries sp) c hw hc2).1

/-! ### `cast_config_values`, `_postprocess_config` -/

/-- the entries of `c` for the keys of the space, in the order of the space -/
def restrict (c : Config) : Space → Config
  | [] => []
  | (k, _) :: sp =>
    match cget k c with
    | some v => (k, v) :: restrict c sp
    | none => restrict c sp

theorem castConfigValues_restrict (c : Config) : ∀ sp : Space,
    (∀ k d v, (k, Entry.dom d) ∈ sp → cget k c = some v → d.cast v none = .ok v) →
    castConfigValues c sp = .ok (restrict c sp)
  | [], _ => rfl
  | (k, e) :: sp, h => by
    have ih := castConfigValues_restrict c sp (fun k d v hm => h k d v (List.mem_cons_of_mem _ hm))
    simp only [castConfigValues, restrict]
    cases hc : cget k c with
    | none => simp only; exact ih
    | some v =>
      simp only
      cases e with
      | const w => simp only [ih]
      | dom d => simp only [h k d v List.mem_cons_self hc, ih]

theorem cget_restrict_notin (c : Config) : ∀ (sp : Space) (k : String), k ∉ sp.map Prod.fst →
    cget k (restrict c sp) = none
  | [], _, _ => rfl
  | (k0, e) :: sp, k, h => by
    simp only [List.map_cons, List.mem_cons, not_or] at h
    simp only [restrict]
    cases hc : cget k0 c with
    | none => simp only; exact cget_restrict_notin c sp k h.2
    | some v => simp only; rw [cget_cons_ne _ _ _ _ h.1]; exact cget_restrict_notin c sp k h.2

theorem cget_restrict (c : Config) : ∀ (sp : Space), (sp.map Prod.fst).Nodup → ∀ k, k ∈ sp.map Prod.fst →
    cget k (restrict c sp) = cget k c
  | [], _, k, h => by cases h
  | (k0, e) :: sp, hn, k, h => by
    simp only [List.map_cons, List.nodup_cons] at hn
    simp only [List.map_cons, List.mem_cons] at h
    simp only [restrict]
    by_cases hk : k = k0
    · subst hk
      cases hc : cget k c with
      | none => simp only; exact cget_restrict_notin c sp k hn.1
      | some v => simp only; exact cget_cons_self _ _ _
    · have hmem : k ∈ sp.map Prod.fst := by
        rcases h with h | h
        · exact absurd h hk
        · exact h
      cases hc : cget k0 c with
      | none => simp only; exact cget_restrict c sp hn.2 k hmem
      | some v => simp only; rw [cget_cons_ne _ _ _ _ hk]; exact cget_restrict c sp hn.2 k hmem

/-- value of key `k` after merging into the space -/
def fillVal (cc : Config) (k : String) (e : Entry) : Val :=
  match cget k cc with
  | some v => v
  | none => match e with
    | .const w => w
    | .dom _ => .int 0

theorem mergeSpace_spec (cc : Config) : ∀ sp : Space,
    (∀ k d, (k, Entry.dom d) ∈ sp → (cget k cc).isSome = true) →
    mergeSpace cc sp = .ok (sp.map fun ke => (ke.1, fillVal cc ke.1 ke.2))
  | [], _ => rfl
  | (k, e) :: sp, h => by
    have ih := mergeSpace_spec cc sp (fun k d hm => h k d (List.mem_cons_of_mem _ hm))
    simp only [mergeSpace, ih, List.map_cons, fillVal]
    cases hc : cget k cc with
    | some v => rfl
    | none =>
      cases e with
      | const w => rfl
      | dom d =>
        have := h k d List.mem_cons_self
        rw [hc] at this; cases this

theorem cget_map_fill (f : String → Entry → Val) : ∀ (sp : Space), (sp.map Prod.fst).Nodup →
    ∀ k e, (k, e) ∈ sp → cget k (sp.map fun ke => (ke.1, f ke.1 ke.2)) = some (f k e)
  | [], _, k, e, h => by cases h
  | (k0, e0) :: sp, hn, k, e, h => by
    simp only [List.map_cons, List.nodup_cons] at hn
    rcases List.mem_cons.mp h with heq | hm
    · injection heq with a b; subst a; subst b
      exact cget_cons_self _ _ _
    · have hne : k ≠ k0 := by
        intro e'; subst e'
        exact hn.1 (List.mem_map.mpr ⟨(k, e), hm, rfl⟩)
      simp only [List.map_cons]
      rw [cget_cons_ne _ _ _ _ hne]
      exact cget_map_fill f sp hn.2 k e hm

/-- **keys, types, members**: if the configuration returned by the searcher gives every
hyperparameter a member of its domain, `FIFOScheduler._suggest` + `TrialScheduler.suggest`
succeed and return a configuration with all keys of the space in order, every
hyperparameter value a member of its domain with the domain's value type, constants as in
the space (or as carried by the searcher's configuration). -/
theorem schedulerConfig_valid (sp : Space) (hwf : Space.wfb sp = true) (c : Config)
    (hv : ValidOn (hpEntries sp) c) :
    ∃ full, schedulerConfig sp c = .ok full ∧ FullValid sp c full := by
  simp only [Space.wfb, Bool.and_eq_true, List.all_eq_true, decide_eq_true_eq] at hwf
  obtain ⟨hw, hn⟩ := hwf
  have hdom : ∀ k d, (k, Entry.dom d) ∈ sp → ∃ v, cget k c = some v ∧ d.member v = true ∧ d.wfb = true := by
    intro k d hm
    have hm' := (mem_hpEntries sp k d).mpr hm
    obtain ⟨v, hv1, hv2⟩ := hv k d hm'
    exact ⟨v, hv1, hv2, hw (k, d) hm'⟩
  have hkey : ∀ k e, (k, e) ∈ sp → k ∈ sp.map Prod.fst := fun k e hm => List.mem_map.mpr ⟨(k, e), hm, rfl⟩
  -- first cast
  have h1 : castConfigValues c sp = .ok (restrict c sp) := by
    apply castConfigValues_restrict
    intro k d v hm hc
    obtain ⟨v', hv1, hv2, hv3⟩ := hdom k d hm
    rw [hc] at hv1; injection hv1 with hv1; subst hv1
    exact cast_member d hv3 v hv2
  have hcc : ∀ k, k ∈ sp.map Prod.fst → cget k (restrict c sp) = cget k c := cget_restrict c sp hn
  -- second cast
  have h2 : castConfigValues (restrict c sp) sp = .ok (restrict (restrict c sp) sp) := by
    apply castConfigValues_restrict
    intro k d v hm hc
    rw [hcc k (hkey k _ hm)] at hc
    obtain ⟨v', hv1, hv2, hv3⟩ := hdom k d hm
    rw [hc] at hv1; injection hv1 with hv1; subst hv1
    exact cast_member d hv3 v hv2
  have hcc2 : ∀ k, k ∈ sp.map Prod.fst → cget k (restrict (restrict c sp) sp) = cget k c := by
    intro k hk
    rw [cget_restrict (restrict c sp) sp hn k hk, hcc k hk]
  have h3 := mergeSpace_spec (restrict (restrict c sp) sp) sp (by
    intro k d hm
    obtain ⟨v, hv1, _⟩ := hdom k d hm
    rw [hcc2 k (hkey k _ hm), hv1]; rfl)
  have hsc : schedulerConfig sp c =
      .ok (sp.map fun ke => (ke.1, fillVal (restrict (restrict c sp) sp) ke.1 ke.2)) := by
    simp only [schedulerConfig, postprocess, h1, h2, h3]
  refine ⟨_, hsc, ?_, ?_⟩
  · simp [List.map_map, Function.comp_def]
  · intro k e hm
    refine ⟨_, cget_map_fill (fillVal (restrict (restrict c sp) sp)) sp hn k e hm, ?_⟩
    cases e with
    | dom d =>
      obtain ⟨v, hv1, hv2, hv3⟩ := hdom k d hm
      simp only [fillVal, hcc2 k (hkey k _ hm), hv1]
      exact ⟨hv2, member_vtype d hv3 v hv2⟩
    | const w =>
      simp only [fillVal, hcc2 k (hkey k _ hm)]
      cases cget k c <;> rfl

/-! ### PBT: clip, then cast stays inside the domain -/

theorem roundHalfEven_between (y : Rat) (lo hi : Int) (h1 : (lo : Rat) ≤ y) (h2 : y ≤ (hi : Rat)) :
    lo ≤ roundHalfEven y ∧ roundHalfEven y ≤ hi := by
  have hfl : y.floor = ⌊y⌋ := rfl
  have hlo : lo ≤ ⌊y⌋ := Int.le_floor.mpr h1
  have hfy : (⌊y⌋ : Rat) ≤ y := Int.floor_le y
  have hhi : ⌊y⌋ ≤ hi := by exact_mod_cast le_trans hfy h2
  -- if the fractional part is positive the floor is strictly below `hi`
  have hstrict : 0 < y - (⌊y⌋ : Rat) → ⌊y⌋ + 1 ≤ hi := by
    intro hpos
    have : (⌊y⌋ : Rat) < (hi : Rat) := by linarith
    have : ⌊y⌋ < hi := by exact_mod_cast this
    omega
  unfold roundHalfEven
  simp only [hfl]
  split
  · exact ⟨hlo, hhi⟩
  · split
    · rename_i _ h
      have := hstrict (by linarith)
      exact ⟨by omega, this⟩
    · split
      · exact ⟨hlo, hhi⟩
      · rename_i hn1 hn2 _
        have hd : y - (⌊y⌋ : Rat) = 1 / 2 := by
          have a := not_lt.mp hn1
          have b := not_lt.mp hn2
          linarith
        have := hstrict (by rw [hd]; norm_num)
        exact ⟨by omega, this⟩

/-- the perturbation branch of `_explore` (`cast(clip(value * multiplier))`) yields a member
of the domain, for every old value and every multiplier -/
theorem perturb_member (d : Dom) (hwf : d.wfb = true) (hnum : d.isNumerical = true) (old : Val)
    (mult : Rat) (hint : Option Nat) (w : Val) (h : perturb d old mult hint = .ok w) :
    d.member w = true := by
  unfold perturb at h
  cases hx : old.num? with
  | none => rw [hx] at h; cases h
  | some x =>
    rw [hx] at h
    simp only at h
    cases d with
    | cat cats o => cases hnum
    | nn cats l g => cases hnum
    | int lo hi l g =>
      simp only [Dom.wfb, decide_eq_true_eq] at hwf
      have hwf' : (lo : Rat) ≤ (hi : Rat) := by exact_mod_cast hwf
      split at h
      · rename_i hb
        simp only [Dom.bounds] at hb
        simp only [Dom.cast] at h
        injection h with h; subst h
        have h1 : lo ≤ 0 := by exact_mod_cast hb.2.1
        have h2 : 0 ≤ hi := by exact_mod_cast hb.2.2
        simp [Dom.member, h1, h2]
      · simp only [Dom.cast, Dom.bounds] at h
        injection h with h; subst h
        have := clipRat_mem (x * mult) lo hi hwf'
        have := roundHalfEven_between _ lo hi this.1 this.2
        simp [Dom.member, this.1, this.2]
    | float lo hi l g =>
      simp only [Dom.wfb, decide_eq_true_eq] at hwf
      split at h
      · rename_i hb
        simp only [Dom.bounds] at hb
        simp only [Dom.cast] at h
        injection h with h; subst h
        simp [Dom.member, hb.2.1, hb.2.2]
      · simp only [Dom.cast, Dom.bounds, Val.num?] at h
        injection h with h; subst h
        have := clipRat_mem (x * mult) lo hi hwf
        simp [Dom.member, this.1, this.2]
    | fin vals lo hi l g raw =>
      have key : ∀ (arg : Val) (w : Val), (Dom.fin vals lo hi l g raw).cast arg hint = .ok w → w ∈ vals := by
        intro arg w hc
        simp only [Dom.cast] at hc
        split at hc
        · cases hc
        · split at hc
          · rename_i c hcc
            injection hc with hc; subst hc; exact getElem?_mem_val hcc
          · cases hc
      split at h
      · simp [Dom.member, key _ w h]
      · simp [Dom.member, key _ w h]

/-- result of the explore loop, entry by entry: the key of the space, and a value that is a
member of its domain or literally a value the domain's sampler returned (tape) -/
def ExploreOK : List (String × Dom) → Config → List Draw → Prop
  | [], [], _ => True
  | (k, d) :: hps, (k', w) :: upd, tape =>
    k = k' ∧ (d.member w = true ∨ Draw.v w ∈ tape) ∧ ExploreOK hps upd tape
  | _, _, _ => False

theorem exploreOK_mono : ∀ (hps : List (String × Dom)) (upd : Config) (t1 t2 : List Draw),
    (∀ x, x ∈ t1 → x ∈ t2) → ExploreOK hps upd t1 → ExploreOK hps upd t2
  | [], [], _, _, _, _ => trivial
  | [], _ :: _, _, _, _, h => h.elim
  | (_, _) :: _, [], _, _, _, h => h.elim
  | (k, d) :: hps, (k', w) :: upd, t1, t2, hs, h => by
    obtain ⟨a, b, c⟩ := h
    refine ⟨a, ?_, exploreOK_mono hps upd t1 t2 hs c⟩
    rcases b with b | b
    · exact Or.inl b
    · exact Or.inr (hs _ b)

theorem exploreLoop_ok (kc : PbtConst) (old : Config) (hints : List (String × Nat)) :
    ∀ (hps : List (String × Dom)) (tape : List Draw) (upd : Config) (rest : List Draw),
      (∀ kd ∈ hps, kd.2.wfb = true) →
      exploreLoop kc old hints hps tape = .ok (upd, rest) → ExploreOK hps upd tape
  | [], tape, upd, rest, _, h => by
    simp only [exploreLoop] at h
    injection h with h; injection h with h1 _
    subst h1; trivial
  | (key, d) :: hps, tape, upd, rest, hwf, h => by
    have hwf' : ∀ kd ∈ hps, kd.2.wfb = true := fun kd hk => hwf kd (List.mem_cons_of_mem _ hk)
    have hd := hwf (key, d) List.mem_cons_self
    simp only [exploreLoop] at h
    split at h
    · rename_i hnum
      -- numerical: resample or perturb
      split at h
      · rename_i u1 tape1
        split at h
        · split at h
          · rename_i w tape2
            cases hr : exploreLoop kc old hints hps tape2 with
            | error e => rw [hr] at h; cases h
            | ok r =>
              obtain ⟨r1, r2⟩ := r
              rw [hr] at h
              injection h with h; injection h with h1 _
              subst h1
              refine ⟨rfl, Or.inr (by simp), ?_⟩
              exact exploreOK_mono hps r1 tape2 _ (by intro x hx; simp [hx]) (exploreLoop_ok kc old hints hps tape2 r1 r2 hwf' hr)
          · cases h
        · split at h
          · rename_i u2 tape2
            split at h
            · cases h
            · rename_i ov _
              split at h
              · cases h
              · rename_i w hw
                cases hr : exploreLoop kc old hints hps tape2 with
                | error e => rw [hr] at h; cases h
                | ok r =>
                  obtain ⟨r1, r2⟩ := r
                  rw [hr] at h
                  injection h with h; injection h with h1 _
                  subst h1
                  refine ⟨rfl, Or.inl (perturb_member d hd hnum ov _ _ w hw), ?_⟩
                  exact exploreOK_mono hps r1 tape2 _ (by intro x hx; simp [hx]) (exploreLoop_ok kc old hints hps tape2 r1 r2 hwf' hr)
          · cases h
      · cases h
    · split at h
      · rename_i w tape1
        cases hr : exploreLoop kc old hints hps tape1 with
        | error e => rw [hr] at h; cases h
        | ok r =>
          obtain ⟨r1, r2⟩ := r
          rw [hr] at h
          injection h with h; injection h with h1 _
          subst h1
          refine ⟨rfl, Or.inr (by simp), ?_⟩
          exact exploreOK_mono hps r1 tape1 _ (by intro x hx; simp [hx]) (exploreLoop_ok kc old hints hps tape1 r1 r2 hwf' hr)
      · cases h

/-! ### small list facts -/

theorem nodup_of_nodup_map {α β} (f : α → β) (l : List α) (h : (l.map f).Nodup) : l.Nodup := by
  unfold List.Nodup at *
  exact (List.pairwise_map.mp h).imp (fun hne e => hne (congrArg f e))

theorem nodup_map_on {α β} (f : α → β) : ∀ l : List α, l.Nodup →
    (∀ a ∈ l, ∀ b ∈ l, f a = f b → a = b) → (l.map f).Nodup
  | [], _, _ => by simp
  | a :: l, hn, hinj => by
    have hn' := List.nodup_cons.mp hn
    simp only [List.map_cons, List.nodup_cons]
    refine ⟨?_, nodup_map_on f l hn'.2 (fun x hx y hy => hinj x (List.mem_cons_of_mem _ hx) y (List.mem_cons_of_mem _ hy))⟩
    intro hm
    obtain ⟨b, hb, hfb⟩ := List.mem_map.mp hm
    have := hinj a List.mem_cons_self b (List.mem_cons_of_mem _ hb) hfb.symm
    subst this
    exact hn'.1 hb

/-- the hyperparameter keys of a well-formed space are distinct -/
theorem hp_keys_nodup (sp : Space) (hwf : Space.wfb sp = true) :
    ((hpEntries sp).map Prod.fst).Nodup := by
  simp only [Space.wfb, Bool.and_eq_true, decide_eq_true_eq] at hwf
  have hn := hwf.2
  clear hwf
  induction sp with
  | nil => simp [hpEntries]
  | cons x sp ih =>
    obtain ⟨k, e⟩ := x
    simp only [List.map_cons, List.nodup_cons] at hn
    have hsub : ∀ k', k' ∈ (hpEntries sp).map Prod.fst → k' ∈ sp.map Prod.fst := by
      intro k' hk
      obtain ⟨⟨k2, d2⟩, hm, rfl⟩ := List.mem_map.mp hk
      exact List.mem_map.mpr ⟨(k2, Entry.dom d2), (mem_hpEntries sp k2 d2).mp hm, rfl⟩
    cases e with
    | dom d =>
      simp only [hpEntries, List.map_cons, List.nodup_cons]
      exact ⟨fun h => hn.1 (hsub k h), ih hn.2⟩
    | const w => simpa [hpEntries] using ih hn.2

end SyneTune.Srch
