import SyneTune.Lemmas.SyncStep
/- The invariant holds in every reachable state of the scheduler (induction over the list
of operations). -/
namespace SyneTune.Sync
open SyneTune

/-- contract of the tuning loop for one call: the id handed to `suggest` is new -/
def LegalOp (s : Sched) : Op → Prop
  | .suggest tid _ => tid ∉ s.configs
  | _ => True

/-- the contract along a whole list of operations -/
def LegalRun : Sched → List Op → Prop
  | _, [] => True
  | s, op :: ops => LegalOp s op ∧ LegalRun (s.next op) ops

instance (s : Sched) (op : Op) : Decidable (LegalOp s op) := by
  cases op <;> simp only [LegalOp] <;> infer_instance

def decLegalRun : (s : Sched) → (ops : List Op) → Decidable (LegalRun s ops)
  | _, [] => isTrue trivial
  | s, op :: ops =>
    match (inferInstance : Decidable (LegalOp s op)), decLegalRun (s.next op) ops with
    | isTrue h1, isTrue h2 => isTrue ⟨h1, h2⟩
    | isFalse h1, _ => isFalse (fun h => h1 h.1)
    | _, isFalse h2 => isFalse (fun h => h2 h.2)

instance (s : Sched) (ops : List Op) : Decidable (LegalRun s ops) := decLegalRun s ops

/-- the constants of a scheduler -/
def SameSys (s s' : Sched) : Prop :=
  s'.mgr.bracketRungs = s.mgr.bracketRungs ∧ s'.mgr.mode = s.mgr.mode

theorem jobCase_sys {g g1 id sl} (h : JobCase g g1 id sl) : g1.bracketRungs = g.bracketRungs ∧ g1.mode = g.mode := by
  cases h <;> exact ⟨rfl, rfl⟩

theorem reportFacts_sys {s t mv s1} (h : ReportFacts s t mv s1) : SameSys s s1 := by
  obtain ⟨_, _, _, _, _, _, _, _, _, _, _, hmr, _⟩ := h.ex
  exact ⟨hmr.sys, hmr.mode⟩

/-- one operation: the invariant is kept, the rung systems and the mode do not change, and
the only exception possible is the assertion about a skipped rung level -/
theorem step_spec {s : Sched} (hI : Inv s) (op : Op) (hl : LegalOp s op) :
    Inv (s.next op) ∧ SameSys s (s.next op) ∧
    ((∃ s' o, s.step op = .ok (s', o)) ∨
     (∃ tid r v id sl, op = .result tid r v ∧ alookup tid s.pending = some (id, sl) ∧ sl.level < r)) := by
  cases op with
  | suggest tid c =>
    obtain ⟨s', sg, calls, hs, hI', hf⟩ := suggest_spec hI tid c hl
    have hnext : s.next (.suggest tid c) = s' := by simp [Sched.next, Sched.step, hs]
    rw [hnext]
    refine ⟨hI', ?_, Or.inl ⟨s', _, by simp only [Sched.step, hs]; rfl⟩⟩
    obtain ⟨g1, id, sl, br1, rg, x, _, hcase, _, _, hc⟩ := hf.job
    have hj := jobCase_sys hcase
    rcases hc with ⟨_, _, _, hm, _⟩ | ⟨_, _, _, hm, _⟩ | ⟨_, _, _, _, br', np, _, hmr, _⟩
    · unfold SameSys; rw [hm]; exact hj
    · unfold SameSys; rw [hm]; exact hj
    · exact ⟨hmr.sys.trans hj.1, hmr.mode.trans hj.2⟩
  | result tid r v =>
    rcases onResult_spec hI tid r v with ⟨s', d, calls, hs, hI', hc⟩ | ⟨id, sl, e, hlook, hlt, he⟩
    · have hnext : s.next (.result tid r v) = s' := by simp [Sched.next, Sched.step, hs]
      rw [hnext]
      refine ⟨hI', ?_, Or.inl ⟨s', _, by simp only [Sched.step, hs]; rfl⟩⟩
      rcases hc with ⟨_, rfl, _⟩ | ⟨_, _, _, _, rfl, _⟩ | ⟨_, _, s1, _, _, hf, rfl, _⟩
      · exact ⟨rfl, rfl⟩
      · exact ⟨rfl, rfl⟩
      · exact (reportFacts_sys hf : SameSys s s1)
    · have hnext : s.next (.result tid r v) = s := by simp [Sched.next, Sched.step, he]
      rw [hnext]
      exact ⟨hI, ⟨rfl, rfl⟩, Or.inr ⟨tid, r, v, id, sl, rfl, hlook, hlt⟩⟩
  | error tid =>
    obtain ⟨s', calls, hs, hI', hc⟩ := onError_spec hI tid
    have hnext : s.next (.error tid) = s' := by simp [Sched.next, Sched.step, hs]
    rw [hnext]
    refine ⟨hI', ?_, Or.inl ⟨s', _, by simp only [Sched.step, hs]; rfl⟩⟩
    rcases hc with ⟨_, rfl⟩ | ⟨s1, hf, rfl⟩
    · exact ⟨rfl, rfl⟩
    · exact (reportFacts_sys hf : SameSys s s1)
  | complete tid r v => exact ⟨hI, ⟨rfl, rfl⟩, Or.inl ⟨_, _, rfl⟩⟩
  | remove tid => exact ⟨hI, ⟨rfl, rfl⟩, Or.inl ⟨_, _, rfl⟩⟩
  | takeRemovable => exact ⟨hI, ⟨rfl, rfl⟩, Or.inl ⟨_, _, rfl⟩⟩

theorem run_inv {s : Sched} (hI : Inv s) (ops : List Op) (hl : LegalRun s ops) :
    Inv (s.run ops) ∧ SameSys s (s.run ops) := by
  induction ops generalizing s with
  | nil => exact ⟨hI, rfl, rfl⟩
  | cons op ops ih =>
    obtain ⟨hI', hsys, _⟩ := step_spec hI op hl.1
    have := ih hI' hl.2
    exact ⟨this.1, this.2.1.trans hsys.1, this.2.2.trans hsys.2⟩

/-- the freshly constructed scheduler satisfies the invariant -/
theorem init_inv (mode : Mode) (systems : List (List (Nat × Nat))) (a b : Bool) (s : Sched)
    (h : Sched.init mode systems a b = .ok s) :
    Inv s ∧ s.mgr.bracketRungs = systems ∧ s.mgr.mode = mode := by
  unfold Sched.init at h
  cases hg : Manager.init .hyperband mode systems with
  | error e => rw [hg] at h; cases h
  | ok g =>
    rw [hg] at h
    simp only [Except.ok.injEq] at h
    subst h
    obtain ⟨hmwf, hmode, hsys⟩ := init_wf mode systems g hg
    refine ⟨?_, hsys, hmode⟩
    -- the only bracket is new: no ids, nothing handed out
    have hfresh : ∀ (j : Nat) (b : Bracket), g.brackets[j]? = some b → b.firstFree = 0 ∧ ∀ t, ¬ b.HasId t := by
      unfold Manager.init at hg
      cases systems with
      | nil => cases hg
      | cons first rest =>
        simp only at hg
        split at hg
        · cases hg
        · rename_i hcs
          simp only [Bool.not_eq_eq_eq_not] at hcs
          have hpre : MPre ({ kind := .hyperband, mode := mode, bracketRungs := first :: rest } : Manager) :=
            ⟨rfl, by simp, checkSystems_ok _ _ 0 (by simpa using hcs), rfl⟩
          obtain ⟨br, spec, hspec, hwf, hm, hfree, hcur, hff, hid, hcomp, hcreate⟩ := createBracket_spec hpre
          rw [hcreate] at hg
          simp only [Except.ok.injEq] at hg
          subst hg
          intro j b hb
          simp only [List.nil_append] at hb
          cases j with
          | zero =>
            simp only [List.getElem?_cons_zero, Option.some.injEq] at hb
            subst hb; exact ⟨hff, hid⟩
          | succ n => simp at hb
    have hnoid : ∀ t, ¬ g.HasId t := by
      rintro t ⟨b, hbm, ht⟩
      obtain ⟨j, hj⟩ := List.mem_iff_getElem?.mp hbm
      exact (hfresh j b hj).2 t ht
    refine ⟨hmwf, ?_, by simp, ?_, ?_, ?_, ?_, ?_⟩
    · intro t id sl hl; simp [alookup] at hl
    · intro t1 t2 id sl1 sl2 h1; simp [alookup] at h1
    · intro id br rg p x hbr _ _ hp
      rw [(hfresh id br hbr).1] at hp; exact absurd hp (Nat.not_lt_zero _)
    · intro t ht; exact absurd ht (hnoid t)
    · intro t v hl; simp [alookup] at hl
    · intro i j bi bj t hbi _ hti _
      exact absurd hti ((hfresh i bi hbi).2 t)

/-- states reachable from the constructor by operations which respect the contract -/
def Reachable (mode : Mode) (systems : List (List (Nat × Nat))) (s : Sched) : Prop :=
  ∃ a b s0 ops, Sched.init mode systems a b = .ok s0 ∧ LegalRun s0 ops ∧ s0.run ops = s

theorem reachable_inv {mode systems s} (h : Reachable mode systems s) :
    Inv s ∧ s.mgr.bracketRungs = systems ∧ s.mgr.mode = mode := by
  obtain ⟨a, b, s0, ops, hinit, hl, rfl⟩ := h
  obtain ⟨hI0, hsys0, hmode0⟩ := init_inv mode systems a b s0 hinit
  obtain ⟨hI, hsys, hmode⟩ := run_inv hI0 ops hl
  exact ⟨hI, hsys.trans hsys0, hmode.trans hmode0⟩

theorem reachable_next {mode systems s} (h : Reachable mode systems s) (op : Op) (hl : LegalOp s op) :
    Reachable mode systems (s.next op) := by
  obtain ⟨a, b, s0, ops, hinit, hlr, rfl⟩ := h
  refine ⟨a, b, s0, ops ++ [op], hinit, ?_, ?_⟩
  · clear hinit
    induction ops generalizing s0 with
    | nil => exact ⟨hl, trivial⟩
    | cons o os ih => exact ⟨hlr.1, ih (s0.next o) hlr.2 hl⟩
  · simp [Sched.run, List.foldl_append]

end SyneTune.Sync
