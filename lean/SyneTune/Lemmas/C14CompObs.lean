import SyneTune.Lemmas.C14CompResultB
/- C14 composed system: where stored observations come from (every stored value is the
criterion of a value reported for that trial and level), and the constructed initial system. -/
namespace SyneTune.C14Comp
open SyneTune SyneTune.C04K SyneTune.C14 SyneTune.C13Hb

/-- the observation stored for trial `t` at level `r` -/
def obsAt (st : SState) (t r : Nat) : Option Rat := (alookup t st.observed).bind (alookup r)

/-- `(trial, level, metric value)` reported by an operation -/
def opReports : SOp → List (Nat × Nat × Rat)
  | .result t r v _ _ _ => [(t, r, v)]
  | .complete t r v => [(t, r, v)]
  | _ => []

theorem alookup_adel_self {β} (k : Nat) (l : List (Nat × β)) (h : KeysNodup l) : alookup k (adel k l) = none := by
  induction l with
  | nil => rfl
  | cons x xs ih =>
    obtain ⟨a, b⟩ := x
    unfold KeysNodup at h ih
    simp only [List.map_cons, List.nodup_cons] at h
    unfold adel
    by_cases hk : k = a
    · subst hk
      simp only [if_true]
      cases hl : alookup k xs with
      | none => rfl
      | some v =>
        exfalso
        apply h.1
        have := alookup_mem k v xs hl
        exact List.mem_map_of_mem (f := (·.1)) this
    · simp only [hk, if_false, alookup]
      exact ih h.2

theorem crit_of_mode {st st' : SState} (h : st'.mode = st.mode) (v : Rat) : st'.crit v = st.crit v := by
  unfold SState.crit; rw [h]

/-- one searcher call: an observation is unchanged, removed, or written by `update=True` with
the criterion of the reported value -/
theorem apply_obsAt (st st' : SState) (c : SCall) (h : st.apply c = .ok st') (hw : ObsWF st) (t r : Nat) :
    st'.mode = st.mode ∧
    (obsAt st' t r = obsAt st t r ∨ obsAt st' t r = none ∨
      ∃ v, c = .update t r v true ∧ obsAt st' t r = some (st.crit v)) := by
  cases c with
  | pending t0 r0 =>
    simp only [SState.apply] at h
    split at h
    · injection h with h; subst h; exact ⟨rfl, Or.inl rfl⟩
    · split at h
      · cases h
      · injection h with h; subst h; exact ⟨rfl, Or.inl rfl⟩
  | update t0 r0 v upd =>
    simp only [SState.apply] at h
    split at h
    · rename_i hu
      injection h with h; subst h
      refine ⟨rfl, ?_⟩
      have := observation_value st t0 r0 v t r
      simp only at this
      unfold obsAt
      rw [this]
      by_cases hc : t = t0 ∧ r = r0
      · obtain ⟨rfl, rfl⟩ := hc
        right; right
        exact ⟨v, by rw [hu], by simp⟩
      · left; simp [hc]
    · injection h with h; subst h; exact ⟨rfl, Or.inl rfl⟩
  | removeCase t0 r0 v =>
    simp only [SState.apply] at h
    cases hl : alookup t0 st.observed with
    | none => simp [hl] at h
    | some ms =>
      simp only [hl] at h
      split at h
      · cases h
      · injection h with h; subst h
        refine ⟨rfl, ?_⟩
        unfold obsAt
        simp only
        rw [alookup_aset]
        by_cases ht : t = t0
        · subst ht
          simp only [if_true, Option.bind_some, hl]
          by_cases hr : r = r0
          · subst hr
            right; left
            exact alookup_adel_self r ms (hw.2 t ms (alookup_mem t ms _ hl))
          · left; exact alookup_adel_ne r0 r ms hr
        · left; simp [ht]
  | cleanup t0 =>
    simp only [SState.apply] at h
    injection h with h; subst h; exact ⟨rfl, Or.inl rfl⟩
  | evalFailed t0 =>
    simp only [SState.apply] at h
    injection h with h; subst h
    split <;> exact ⟨rfl, Or.inl rfl⟩

theorem applyAll_obsAt (st st' : SState) (cs : List SCall) (h : st.applyAll cs = .ok st') (hw : ObsWF st)
    (t r : Nat) (c : Rat) (hc : obsAt st' t r = some c) :
    st'.mode = st.mode ∧ (obsAt st t r = some c ∨ ∃ v, SCall.update t r v true ∈ cs ∧ c = st.crit v) := by
  induction cs generalizing st with
  | nil => simp [SState.applyAll] at h; subst h; exact ⟨rfl, Or.inl hc⟩
  | cons x xs ih =>
    unfold SState.applyAll at h
    cases hx : st.apply x with
    | error e => simp [hx] at h
    | ok s1 =>
      simp only [hx] at h
      obtain ⟨m1, k⟩ := ih s1 h (apply_preserves_wf st s1 x hx hw)
      obtain ⟨m0, a⟩ := apply_obsAt st s1 x hx hw t r
      refine ⟨m1.trans m0, ?_⟩
      rcases k with k | ⟨v, hv, hcv⟩
      · rcases a with a | a | ⟨v, rfl, a⟩
        · left; rw [← a]; exact k
        · rw [a] at k; cases k
        · right
          rw [a] at k; injection k with k
          exact ⟨v, by simp, k.symm⟩
      · right
        exact ⟨v, List.mem_cons_of_mem _ hv, by rw [hcv, crit_of_mode m0]⟩

/-- the calls of `_update_searcher` are `remove_case` / `register_pending` only -/
theorem updateSearcher_calls (s : Sched) (tid r : Nat) (v : Rat) (o : RepOut) (rec : TrialInfo) :
    ∀ c ∈ (s.updateSearcher tid r v o rec).2, (∃ x, c = .pending tid x) ∨ (∃ pr pv, c = .removeCase tid pr pv) := by
  intro c hc
  unfold Sched.updateSearcher at hc
  have hmap : ∀ (l : List Nat), c ∈ l.map (SCall.pending tid) → ∃ x, c = .pending tid x := by
    intro l hl
    simp only [List.mem_map] at hl
    obtain ⟨x, _, hx⟩ := hl
    exact ⟨x, hx.symm⟩
  cases hsd : s.searcherData with
  | rungs =>
    simp only [hsd] at hc
    split at hc
    · exact Or.inl (hmap _ hc)
    · cases hc
  | all =>
    simp only [hsd] at hc
    split at hc
    · cases hc
    · simp only [List.mem_append] at hc
      rcases hc with hc | hc
      · simp at hc
      · exact Or.inl (hmap _ hc)
  | rungsAndLast =>
    simp only [hsd] at hc
    split at hc
    · cases hc
    · simp only [List.mem_append] at hc
      rcases hc with hc | hc
      · right
        simp only [if_true] at hc
        cases hrep : rec.reported with
        | none => simp [hrep] at hc
        | some p =>
          simp only [hrep] at hc
          split at hc
          · simp only [List.mem_singleton] at hc
            exact ⟨_, _, hc⟩
          · cases hc
      · exact Or.inl (hmap _ hc)

/-- every `on_trial_result(..., update=True)` call an operation issues carries that operation's
trial, level and metric value -/
theorem opStep_updates (s : Sched) (op : SOp) (t r : Nat) (v : Rat) (upd : Bool)
    (h : SCall.update t r v upd ∈ (opStep s op).2) : (t, r, v) ∈ opReports op := by
  cases op with
  | suggest n b hint =>
    rw [opStep_suggest] at h
    cases hs : s.suggest n b hint with
    | error e => simp [hs] at h
    | ok res =>
      obtain ⟨s', sg, calls, fr⟩ := res
      simp only [hs] at h
      obtain ⟨_, _, _, _, _, hc⟩ := suggest_cases s s' n b hint sg calls fr hs
      rcases hc with ⟨_, _, _, _, _, _, rfl⟩ | ⟨_, _, _, _, _, _, _, _, _, rfl⟩ <;> simp at h
  | result t0 r0 v0 hint c e =>
    rw [opStep_result] at h
    cases hs : s.onResult t0 r0 v0 hint c e with
    | error e => simp [hs] at h
    | ok res =>
      obtain ⟨s', out⟩ := res
      simp only [hs] at h
      obtain ⟨rec, _, hc⟩ := onResult_cases s s' t0 r0 v0 hint c e out hs
      rcases hc with ⟨_, _, hcalls, _⟩ | ⟨_, g, o, co, _, hc⟩
      · rw [hcalls] at h
        simp only [List.mem_singleton, SCall.update.injEq] at h
        obtain ⟨rfl, rfl, rfl, _⟩ := h
        simp [opReports]
      · rcases hc with ⟨_, _, hcalls, _⟩ | ⟨_, _, hcalls, _, _⟩
        · rw [hcalls] at h; cases h
        · rw [hcalls] at h
          simp only [List.mem_append, List.mem_singleton, SCall.update.injEq] at h
          rcases h with h | ⟨rfl, rfl, rfl, _⟩
          · rcases updateSearcher_calls _ t0 r0 v0 o rec _ h with ⟨x, hx⟩ | ⟨pr, pv, hx⟩ <;> cases hx
          · simp [opReports]
  | remove t0 => simp [opStep] at h
  | error t0 => simp [opStep, Sched.onError] at h
  | complete t0 r0 v0 =>
    rw [opStep_complete] at h
    cases hl : alookup t0 s.active with
    | none => simp [hl] at h
    | some rec =>
      simp only [hl, completeCalls, List.mem_append, List.mem_singleton] at h
      rcases h with h | h
      · cases hlu : rec.largestUpdate with
        | none => simp [hlu] at h
        | some l =>
          simp only [hlu] at h
          split at h
          · simp only [List.mem_singleton, SCall.update.injEq] at h
            obtain ⟨rfl, rfl, rfl, _⟩ := h
            simp [opReports]
          · cases h
      · cases h

/-- one step of the composed system: every stored observation was stored before or is the
criterion of the value this operation reports for that trial and level -/
theorem stepC_obsAt (y : Sys) (op : SOp) (hw : ObsWF y.st) (t r : Nat) (c : Rat)
    (hc : obsAt (stepC y op).st t r = some c) :
    ObsWF (stepC y op).st ∧ (stepC y op).st.mode = y.st.mode ∧
    (obsAt y.st t r = some c ∨ ∃ v, (t, r, v) ∈ opReports op ∧ c = y.st.crit v) := by
  unfold stepC at hc ⊢
  cases ha : y.st.applyAll (opStep y.sched op).2 with
  | error e => simp only [ha] at hc ⊢; exact ⟨hw, trivial, Or.inl hc⟩
  | ok st' =>
    simp only [ha] at hc ⊢
    obtain ⟨m, k⟩ := applyAll_obsAt y.st st' _ ha hw t r c hc
    refine ⟨applyAll_preserves_wf y.st st' _ ha hw, m, ?_⟩
    rcases k with k | ⟨v, hv, hcv⟩
    · exact Or.inl k
    · exact Or.inr ⟨v, opStep_updates y.sched op t r v true hv, hcv⟩

theorem stepC_wf (y : Sys) (op : SOp) (hw : ObsWF y.st) : ObsWF (stepC y op).st ∧ (stepC y op).st.mode = y.st.mode := by
  unfold stepC
  cases ha : y.st.applyAll (opStep y.sched op).2 with
  | error e => exact ⟨hw, rfl⟩
  | ok st' =>
    simp only
    refine ⟨applyAll_preserves_wf y.st st' _ ha hw, ?_⟩
    clear hw
    generalize (opStep y.sched op).2 = cs at ha
    generalize y.st = st at ha
    induction cs generalizing st with
    | nil => simp [SState.applyAll] at ha; subst ha; rfl
    | cons x xs ih =>
      unfold SState.applyAll at ha
      cases hx : st.apply x with
      | error e => simp [hx] at ha
      | ok s1 =>
        simp only [hx] at ha
        have hm : s1.mode = st.mode := by
          cases x <;> simp only [SState.apply] at hx
          · split at hx
            · injection hx with hx; subst hx; rfl
            · split at hx
              · cases hx
              · injection hx with hx; subst hx; rfl
          · split at hx <;> (injection hx with hx; subst hx; rfl)
          · split at hx
            · cases hx
            · split at hx
              · cases hx
              · injection hx with hx; subst hx; rfl
          · injection hx with hx; subst hx; rfl
          · injection hx with hx; subst hx; split <;> rfl
        exact (ih s1 ha).trans hm

end SyneTune.C14Comp
