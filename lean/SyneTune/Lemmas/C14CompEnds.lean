import SyneTune.Lemmas.C14CompFrame
/- C14 composed system: the invariant under `on_trial_remove`, `on_trial_error`,
`on_trial_complete` (all of them `_cleanup_trial` plus searcher calls). -/
namespace SyneTune.C14Comp
open SyneTune SyneTune.C04K SyneTune.C14 SyneTune.C13Hb

theorem cleanup_upd1 (s : Sched) (tid : Nat) (d : Decision) :
    Upd1 s (s.cleanup tid d) tid ((alookup tid s.active).map fun rec => { rec with decision := d }) := by
  obtain ⟨e1, e2, _⟩ := taskRemove_effect s.mgr tid
  refine ⟨?_, e1, rfl, e2⟩
  intro t
  unfold Sched.cleanup
  cases hl : alookup tid s.active with
  | none =>
    simp only [Option.map_none]
    by_cases he : t = tid
    · subst he; simp [hl]
    · simp [he]
  | some rec =>
    simp only [Option.map_some]
    rw [alookup_aset]

/-- `_cleanup_trial(tid, d)` with `d ≠ CONTINUE`, together with a searcher state which has lost
the pending entries of `tid` (and possibly gained an observation of `tid` at a reported level) -/
theorem cinv_cleanup (y : Sys) (tid : Nat) (d : Decision) (hd : d ≠ .continue) (st' : SState) (h : CInv y)
    (hp1 : st'.pending.Nodup) (hp2 : ∀ p ∈ st'.pending, p ∈ y.st.pending ∧ p.1 ≠ tid) (hwf : ObsWF st')
    (hl1 : ∀ t r, st'.isLabeled t r = true → y.st.isLabeled t r = true ∨
      (t = tid ∧ ∃ rec, alookup tid y.sched.active = some rec ∧ r ≤ lastRep rec))
    (hl2 : ∀ t r, y.st.isLabeled t r = true → st'.isLabeled t r = true) :
    CInv ⟨y.sched.cleanup tid d, st'⟩ := by
  have u := cleanup_upd1 y.sched tid d
  obtain ⟨_, _, e3⟩ := taskRemove_effect y.sched.mgr tid
  have hmono : ∀ rec, alookup tid y.sched.active = some rec →
      ∃ rec', ((alookup tid y.sched.active).map fun rec => ({ rec with decision := d } : TrialInfo)) = some rec' ∧
        lastRep rec ≤ lastRep rec' := by
    intro rec hr
    exact ⟨{ rec with decision := d }, by rw [hr]; rfl, Nat.le_refl _⟩
  have hnew : ∀ rec', ((alookup tid y.sched.active).map fun rec => ({ rec with decision := d } : TrialInfo)) = some rec' →
      ∃ rec, alookup tid y.sched.active = some rec ∧ rec' = { rec with decision := d } := by
    intro rec' hr
    cases hl : alookup tid y.sched.active with
    | none => rw [hl] at hr; cases hr
    | some rec => rw [hl] at hr; injection hr with hr; exact ⟨rec, rfl, hr.symm⟩
  refine ⟨MgrWF_of_shape u.shape h.wf, ?_, ?_, ?_, ?_, hp1, ?_, hwf, ?_, ?_⟩
  · intro hpr
    have : y.sched.mgr.type.pauseResume = true := by rw [← u.type]; exact hpr
    exact cleanup_KInv y.sched tid d hd (h.kinv this)
  · apply EntOK_upd1 u h.ent hmono
    · intro L e he
      exact Or.inl ⟨e, e3 L e he, rfl, fun hp => hp⟩
    · intro hpr L e0 he0 ht hp rec' hr'
      obtain ⟨rec, g1, g2⟩ := hnew rec' hr'
      obtain ⟨rec0, k1, _, k3⟩ := h.ent L e0 he0
      rw [ht, g1] at k1; injection k1 with k1; subst k1
      rw [g2]; exact k3 hpr hp
  · apply RunningOK_upd1 u h.run
    intro rec' hr' hdc
    obtain ⟨rec, _, g2⟩ := hnew rec' hr'
    rw [g2] at hdc; exact absurd hdc hd
  · apply UpdOK_upd1 u h.upd
    intro rec' hr' l hl
    obtain ⟨rec, g1, g2⟩ := hnew rec' hr'
    rw [g2] at hl ⊢
    exact h.upd tid rec g1 l hl
  · apply PendOK_upd1 (y := y) (y' := ⟨y.sched.cleanup tid d, st'⟩) u h.pend
    · intro p hp _; exact (hp2 p hp).1
    · intro p hp he; exact absurd he (hp2 p hp).2
  · apply ObsOK_upd1 (y := y) (y' := ⟨y.sched.cleanup tid d, st'⟩) u h.obs hmono
    intro t r hl
    rcases hl1 t r hl with hl | ⟨rfl, rec, g1, g2⟩
    · exact Or.inl hl
    · obtain ⟨rec', k1, k2⟩ := hmono rec g1
      exact Or.inr ⟨rfl, rec', k1, by omega⟩
  · apply LastOK_upd1 (y := y) (y' := ⟨y.sched.cleanup tid d, st'⟩) u h.last
    · intro t r _ hl; exact hl2 t r hl
    · intro hsd rec' hr' p hp hk
      obtain ⟨rec, g1, g2⟩ := hnew rec' hr'
      rw [g2] at hp hk
      exact hl2 tid p.2 (h.last hsd tid rec g1 p hp hk)

/-! ### the three operations -/

theorem stepC_remove (y : Sys) (t : Nat) : stepC y (.remove t) = ⟨y.sched.cleanup t .pause, y.st⟩ := rfl

theorem cinv_remove (y : Sys) (t : Nat) (h : CInv y) (hok : OpOK y (.remove t)) : CInv (stepC y (.remove t)) := by
  rw [stepC_remove]
  apply cinv_cleanup y t .pause (by simp) y.st h h.pnd ?_ h.owf (fun _ _ hl => Or.inl hl) (fun _ _ hl => hl)
  intro p hp
  refine ⟨hp, ?_⟩
  intro he
  obtain ⟨rec, h1, h2, _⟩ := h.pend p hp
  rw [he] at h1
  exact hok rec h1 h2

theorem stepC_error (y : Sys) (t : Nat) :
    stepC y (.error t) = ⟨y.sched.cleanup t .stop,
      if (y.st.cleanupPending t).failed.contains t then y.st.cleanupPending t
      else { y.st.cleanupPending t with failed := (y.st.cleanupPending t).failed ++ [t] }⟩ := rfl

theorem cinv_error (y : Sys) (t : Nat) (h : CInv y) : CInv (stepC y (.error t)) := by
  rw [stepC_error]
  have key : ∀ st' : SState, st'.pending = (y.st.cleanupPending t).pending → st'.observed = y.st.observed →
      CInv ⟨y.sched.cleanup t .stop, st'⟩ := by
    intro st' hp ho
    have hlab : ∀ t' r', st'.isLabeled t' r' = y.st.isLabeled t' r' := by
      intro t' r'; unfold SState.isLabeled; rw [ho]
    apply cinv_cleanup y t .stop (by simp) st' h
    · rw [hp]; exact nodup_cleanupPending y.st t h.pnd
    · intro p hpm; rw [hp] at hpm; exact (mem_cleanupPending y.st t p).mp hpm
    · unfold ObsWF; rw [ho]; exact h.owf
    · intro t' r' hl; rw [hlab] at hl; exact Or.inl hl
    · intro t' r' hl; rw [hlab]; exact hl
  split
  · exact key _ rfl rfl
  · exact key _ rfl rfl

theorem applyAll_update_cleanup (st : SState) (t r : Nat) (v : Rat) :
    st.applyAll [SCall.update t r v true, SCall.cleanup t] = .ok ((st.label t r (st.crit v)).cleanupPending t) := by
  simp [SState.applyAll, SState.apply]

theorem applyAll_cleanup (st : SState) (t : Nat) :
    st.applyAll [SCall.cleanup t] = .ok (st.cleanupPending t) := by
  simp [SState.applyAll, SState.apply]

/-- the searcher calls of `on_trial_complete` -/
def completeCalls (rec : TrialInfo) (t r : Nat) (v : Rat) : List SCall :=
  (match rec.largestUpdate with
    | some l => if l < r then [SCall.update t r v true] else []
    | none => []) ++ [SCall.cleanup t]

theorem opStep_complete (s : Sched) (t r : Nat) (v : Rat) :
    opStep s (.complete t r v) = match alookup t s.active with
      | none => (s, [])
      | some rec => (s.cleanup t .stop, completeCalls rec t r v) := by
  simp only [opStep, Sched.onComplete]
  cases alookup t s.active <;> rfl

theorem cinv_complete (y : Sys) (t r : Nat) (v : Rat) (h : CInv y) (hok : OpOK y (.complete t r v)) :
    CInv (stepC y (.complete t r v)) ∧ ∃ st', y.st.applyAll (opStep y.sched (.complete t r v)).2 = .ok st' := by
  unfold stepC
  rw [opStep_complete]
  cases hl : alookup t y.sched.active with
  | none => exact ⟨by simpa [SState.applyAll] using h, ⟨y.st, rfl⟩⟩
  | some rec =>
    have hle := hok rec hl
    simp only
    -- without an update
    have plain : CInv ⟨y.sched.cleanup t .stop, y.st.cleanupPending t⟩ := by
      apply cinv_cleanup y t .stop (by simp) _ h (nodup_cleanupPending y.st t h.pnd)
        (fun p hp => (mem_cleanupPending y.st t p).mp hp) h.owf (fun _ _ hl => Or.inl hl) (fun _ _ hl => hl)
    -- with the update `label t r`
    have upd : CInv ⟨y.sched.cleanup t .stop, (y.st.label t r (y.st.crit v)).cleanupPending t⟩ := by
      apply cinv_cleanup y t .stop (by simp) _ h
      · exact nodup_cleanupPending _ t (by rw [label_pending]; exact nodup_dropPending t r _ h.pnd)
      · intro p hp
        obtain ⟨g1, g2⟩ := (mem_cleanupPending _ t p).mp hp
        rw [label_pending] at g1
        exact ⟨mem_of_mem_dropPending t r _ p g1, g2⟩
      · have : (y.st.label t r (y.st.crit v)).cleanupPending t = { y.st.label t r (y.st.crit v) with
            pending := ((y.st.label t r (y.st.crit v)).cleanupPending t).pending } := rfl
        have hw := apply_preserves_wf y.st (y.st.label t r (y.st.crit v)) (.update t r v true) rfl h.owf
        exact hw
      · intro t' r' hlab
        have : ((y.st.label t r (y.st.crit v)).cleanupPending t).isLabeled t' r' =
            (y.st.label t r (y.st.crit v)).isLabeled t' r' := rfl
        rw [this, isLabeled_label] at hlab
        simp only [Bool.or_eq_true, decide_eq_true_eq] at hlab
        rcases hlab with ⟨rfl, rfl⟩ | hlab
        · exact Or.inr ⟨rfl, rec, hl, hle⟩
        · exact Or.inl hlab
      · intro t' r' hlab
        have : ((y.st.label t r (y.st.crit v)).cleanupPending t).isLabeled t' r' =
            (y.st.label t r (y.st.crit v)).isLabeled t' r' := rfl
        rw [this, isLabeled_label, hlab]; simp
    unfold completeCalls
    cases hlu : rec.largestUpdate with
    | none =>
      simp only [List.nil_append, applyAll_cleanup]
      exact ⟨plain, _, rfl⟩
    | some l =>
      by_cases hlr : l < r
      · simp only [hlr, if_true, List.cons_append, List.nil_append, applyAll_update_cleanup]
        exact ⟨upd, _, rfl⟩
      · simp only [hlr, if_false, List.nil_append, applyAll_cleanup]
        exact ⟨plain, _, rfl⟩

end SyneTune.C14Comp
