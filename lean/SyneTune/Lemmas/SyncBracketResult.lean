import SyneTune.Lemmas.SyncBracket
/- `SynchronousBracket.on_result` keeps the bracket invariant; description of its effect. -/
namespace SyneTune.Sync
open SyneTune

/-- a call of `on_result` which answers a pending slot (what the scheduler guarantees) -/
structure LegalRes (b : Bracket) (res : SlotInRung) (rg : Rung) (sl : Slot) : Prop where
  hrg : b.rungs[b.current]? = some rg
  ri : res.rungIndex = b.current
  lt : res.slotIndex < b.firstFree
  lvl : res.level = rg.level
  hsl : rg.slots[res.slotIndex]? = some sl
  tid : sl.tid = none ∨ sl.tid = res.tid
  empty : sl.metric = none
  hm : res.metric.isSome = true
  fresh : sl.tid = none → ∀ t, res.tid = some t → ¬ b.HasId t

/-- bracket after `rung[pos] = (trial_id, metric_val)` -/
def Bracket.written (b : Bracket) (rg : Rung) (res : SlotInRung) : Bracket :=
  { b with rungs := b.rungs.set b.current (rg.write res) }

/-- `is_complete` of `on_result` -/
def RungDone (rg : Rung) (ff : Nat) : Prop := rg.slots.length ≤ ff ∧ pendingIn rg.slots ff = 0

instance (rg : Rung) (ff : Nat) : Decidable (RungDone rg ff) := by unfold RungDone; infer_instance

theorem checkResult_ok {spec b res rg sl} (_hw : BWF spec b) (hl : LegalRes b res rg sl) :
    b.checkResult res = .ok rg := by
  unfold Bracket.checkResult
  have h1 : ¬ res.rungIndex ≠ b.current := by simp [hl.ri]
  have h2 : ¬ ¬ res.slotIndex < b.firstFree := by simp [hl.lt]
  have h3 : ¬ res.level ≠ rg.level := by simp [hl.lvl]
  have h4 : ¬ (b.kind = .hyperband ∧ sl.tid.isSome = true ∧ res.tid ≠ sl.tid) := by
    rintro ⟨_, hs, hne⟩
    rcases hl.tid with h | h
    · simp [h] at hs
    · exact hne h.symm
  have h5 : ¬ sl.metric.isSome = true := by simp [hl.empty]
  have h6 : ¬ res.metric.isNone = true := by
    cases hm : res.metric with
    | none => have := hl.hm; simp [hm] at this
    | some _ => simp
  simp only [h1, if_false, h2, Bracket.curRung, hl.hrg, h3, hl.hsl, h4, h5, h6]
  simp

/-! ### list helpers -/

theorem pendingIn_zero_iff (slots : List Slot) (ff : Nat) (h : slots.length ≤ ff) :
    pendingIn slots ff = 0 ↔ ∀ s ∈ slots, s.metric.isSome = true := by
  unfold pendingIn
  rw [List.take_of_length_le h, List.length_eq_zero_iff, List.filter_eq_nil_iff]
  constructor
  · intro hh s hs
    have := hh s hs
    cases hm : s.metric <;> simp [hm] at this ⊢
  · intro hh s hs
    have := hh s hs
    cases hm : s.metric <;> simp [hm] at this ⊢

theorem mem_filterMap_set_tid (l : List Slot) (p : Nat) (sl new : Slot) (h : l[p]? = some sl)
    (htid : sl.tid = none ∨ sl.tid = new.tid) (x : Nat) :
    x ∈ (l.set p new).filterMap (·.tid) ↔ x ∈ l.filterMap (·.tid) ∨ new.tid = some x := by
  induction l generalizing p with
  | nil => simp at h
  | cons y ys ih =>
    cases p with
    | zero =>
      simp only [List.getElem?_cons_zero, Option.some.injEq] at h
      subst h
      simp only [List.set_cons_zero, List.filterMap_cons]
      rcases htid with ht | ht
      · rw [ht]
        cases hn : new.tid with
        | none => simp
        | some t => simp [eq_comm, or_comm]
      · rw [ht]
        cases hn : new.tid with
        | none => simp
        | some t =>
          simp only [List.mem_cons, Option.some.injEq]
          constructor
          · rintro (h | h)
            · exact Or.inl (Or.inl h)
            · exact Or.inl (Or.inr h)
          · rintro ((h | h) | h)
            · exact Or.inl h
            · exact Or.inr h
            · exact Or.inl h.symm
    | succ p =>
      simp only [List.getElem?_cons_succ] at h
      simp only [List.set_cons_succ, List.filterMap_cons]
      cases hy : y.tid with
      | none => simpa using ih p h
      | some t =>
        simp only [List.mem_cons, ih p h]
        constructor
        · rintro (h | h | h)
          · exact Or.inl (Or.inl h)
          · exact Or.inl (Or.inr h)
          · exact Or.inr h
        · rintro ((h | h) | h)
          · exact Or.inl h
          · exact Or.inr (Or.inl h)
          · exact Or.inr (Or.inr h)

theorem nodup_filterMap_set_tid (l : List Slot) (p : Nat) (sl new : Slot) (h : l[p]? = some sl)
    (htid : sl.tid = none ∨ sl.tid = new.tid)
    (hfresh : sl.tid = none → ∀ t, new.tid = some t → t ∉ l.filterMap (·.tid))
    (hn : (l.filterMap (·.tid)).Nodup) : ((l.set p new).filterMap (·.tid)).Nodup := by
  induction l generalizing p with
  | nil => simp at h
  | cons y ys ih =>
    cases p with
    | zero =>
      simp only [List.getElem?_cons_zero, Option.some.injEq] at h
      subst h
      simp only [List.set_cons_zero, List.filterMap_cons] at hn ⊢
      rcases htid with ht | ht
      · have hf := hfresh ht
        rw [ht] at hn
        simp only at hn
        cases hnew : new.tid with
        | none => simpa using hn
        | some t =>
          simp only [List.nodup_cons]
          refine ⟨?_, hn⟩
          have := hf t hnew
          simp only [List.filterMap_cons, ht] at this
          exact this
      · rw [← ht]; exact hn
    | succ p =>
      simp only [List.getElem?_cons_succ] at h
      simp only [List.set_cons_succ, List.filterMap_cons] at hn ⊢
      have hfresh' : sl.tid = none → ∀ t, new.tid = some t → t ∉ ys.filterMap (·.tid) := by
        intro h1 t h2 hc
        apply hfresh h1 t h2
        simp only [List.filterMap_cons]
        cases y.tid <;> simp [hc]
      cases hy : y.tid with
      | none =>
        simp only [hy] at hn
        exact ih p h hfresh' hn
      | some t =>
        simp only [hy, List.nodup_cons] at hn ⊢
        refine ⟨?_, ih p h hfresh' hn.2⟩
        rw [mem_filterMap_set_tid ys p sl new h htid]
        rintro (hc | hc)
        · exact hn.1 hc
        · rcases htid with ht | ht
          · apply hfresh ht t hc
            simp [hy]
          · apply hn.1
            rw [← ht] at hc
            exact List.mem_filterMap.mpr ⟨sl, List.mem_of_getElem? h, hc⟩

/-! ### the written bracket -/

section written
variable {spec : List (Nat × Nat)} {b : Bracket} {res : SlotInRung} {rg : Rung} {sl : Slot}

theorem cur_lt (hl : LegalRes b res rg sl) : b.current < b.rungs.length := by
  rcases Nat.lt_or_ge b.current b.rungs.length with h | h
  · exact h
  · have := hl.hrg; rw [List.getElem?_eq_none h] at this; cases this

theorem written_cur (hl : LegalRes b res rg sl) :
    (b.written rg res).rungs[b.current]? = some (rg.write res) := by
  simp [Bracket.written, List.getElem?_set_self (cur_lt hl)]

theorem written_other (k : Nat) (hk : k ≠ b.current) :
    (b.written rg res).rungs[k]? = b.rungs[k]? := by
  simp [Bracket.written, List.getElem?_set_ne (Ne.symm hk)]

theorem write_length : (rg.write res).slots.length = rg.slots.length := by simp [Rung.write]

theorem write_ids_mem (hl : LegalRes b res rg sl) (x : Nat) :
    x ∈ (rg.write res).ids ↔ x ∈ rg.ids ∨ res.tid = some x := by
  unfold Rung.ids Rung.write
  exact mem_filterMap_set_tid rg.slots res.slotIndex sl ⟨res.tid, res.metric⟩ hl.hsl hl.tid x

theorem written_hasId (hl : LegalRes b res rg sl) (x : Nat) :
    (b.written rg res).HasId x ↔ b.HasId x ∨ res.tid = some x := by
  unfold Bracket.HasId
  constructor
  · rintro ⟨r, hr, hx⟩
    rcases List.mem_or_eq_of_mem_set hr with h | h
    · exact Or.inl ⟨r, h, hx⟩
    · subst h
      rcases (write_ids_mem hl x).mp hx with h | h
      · exact Or.inl ⟨rg, List.mem_of_getElem? hl.hrg, h⟩
      · exact Or.inr h
  · rintro (⟨r, hr, hx⟩ | h)
    · obtain ⟨k, hk⟩ := List.mem_iff_getElem?.mp hr
      by_cases hkc : k = b.current
      · subst hkc
        rw [hl.hrg] at hk
        have : r = rg := (Option.some.inj hk).symm
        subst this
        exact ⟨r.write res, List.mem_of_getElem? (written_cur hl), (write_ids_mem hl x).mpr (Or.inl hx)⟩
      · exact ⟨r, List.mem_of_getElem? ((written_other k hkc).trans hk), hx⟩
    · exact ⟨rg.write res, List.mem_of_getElem? (written_cur hl), (write_ids_mem hl x).mpr (Or.inr h)⟩

theorem written_shape (hl : LegalRes b res rg sl) : (b.written rg res).shape = b.shape := by
  unfold Bracket.shape Bracket.written
  simp only [List.map_set]
  congr 1
  apply List.ext_getElem?
  intro k
  by_cases hk : b.current = k
  · subst hk
    rw [List.getElem?_set_self (by simpa using cur_lt hl)]
    simp [hl.hrg, Rung.write]
  · rw [List.getElem?_set_ne hk]

/-- everything of the invariant except that the current rung is still open -/
structure PreWF (spec : List (Nat × Nat)) (b : Bracket) : Prop where
  kind : b.kind = .hyperband
  specOk : checkRungs spec = true
  shape : b.shape = spec
  len : b.rungs.length = min (b.current + 1) spec.length
  done : ∀ k r, k < b.current → b.rungs[k]? = some r → ∀ s ∈ r.slots, s.metric.isSome = true
  free : ∀ r, b.rungs[b.current]? = some r → b.firstFree ≤ r.slots.length ∧
            ∀ p s, r.slots[p]? = some s → b.firstFree ≤ p → s.metric = none
  top : ∀ k prev next, b.rungs[k]? = some prev → b.rungs[k + 1]? = some next →
            TopRel b.mode (b.rungs.take (k + 1)) prev next
  nodup : ∀ r ∈ b.rungs, r.ids.Nodup
  base : ∀ r, b.rungs[0]? = some r → ∀ x ∈ r.slots, x.tid.isSome = true → x.metric.isSome = true

theorem written_pre (hw : BWF spec b) (hl : LegalRes b res rg sl) : PreWF spec (b.written rg res) := by
  have hcl := cur_lt hl
  refine ⟨hw.kind, hw.specOk, (written_shape hl).trans hw.shape, ?_, ?_, ?_, ?_, ?_, ?_⟩
  · simp only [Bracket.written, List.length_set]; exact hw.len
  · intro k r hk hr
    have hk' : k < b.current := hk
    rw [written_other k (by omega)] at hr
    exact hw.done k r hk' hr
  · intro r hr
    have hr' : (b.written rg res).rungs[b.current]? = some r := hr
    rw [written_cur hl] at hr'
    have : r = rg.write res := (Option.some.inj hr').symm
    subst this
    have hf := hw.free rg hl.hrg
    refine ⟨by rw [write_length]; exact hf.1, ?_⟩
    intro p s hs hp
    have hne : res.slotIndex ≠ p := by have := hl.lt; change b.firstFree ≤ p at hp; omega
    simp only [Rung.write, List.getElem?_set_ne hne] at hs
    exact hf.2 p s hs hp
  · intro k prev next hprev hnext
    have hmode : (b.written rg res).mode = b.mode := rfl
    rw [hmode]
    by_cases hk1 : k + 1 < b.current
    · -- both rungs untouched
      rw [written_other k (by omega)] at hprev
      rw [written_other (k + 1) (by omega)] at hnext
      have ht := hw.top k prev next hprev hnext
      have : (b.written rg res).rungs.take (k + 1) = b.rungs.take (k + 1) := by
        simp only [Bracket.written]; exact List.take_set_of_le (by omega)
      rw [this]; exact ht
    · by_cases hk2 : k + 1 = b.current
      · -- the rung written to is `next`
        rw [written_other k (by omega)] at hprev
        rw [hk2, written_cur hl] at hnext
        have hnx : next = rg.write res := (Option.some.inj hnext).symm
        subst hnx
        have ht := hw.top k prev rg hprev (by rw [hk2]; exact hl.hrg)
        have htake : (b.written rg res).rungs.take (k + 1) = b.rungs.take (k + 1) := by
          simp only [Bracket.written]; exact List.take_set_of_le (by omega)
        rw [htake]
        obtain ⟨es, hes, hlen, hpt⟩ := ht
        refine ⟨es, hes, by rw [write_length]; exact hlen, ?_⟩
        intro p o s ho hs
        rw [write_length] at ho
        by_cases hp : res.slotIndex = p
        · subst hp
          have hlt : res.slotIndex < rg.slots.length := by
            rcases Nat.lt_or_ge res.slotIndex rg.slots.length with h | h
            · exact h
            · have := hl.hsl; rw [List.getElem?_eq_none h] at this; cases this
          simp only [Rung.write, List.getElem?_set_self hlt, Option.some.injEq] at hs
          subst hs
          have hold := hpt res.slotIndex o sl ho hl.hsl
          rcases hl.tid with htn | hte
          · -- the slot had no id: the top list has `None` there
            have ho' : o = none := by
              rcases hold with h | h
              · rw [← h, htn]
              · exact h.1
            right
            refine ⟨ho', ?_⟩
            intro t ht
            refine ⟨hl.hm, ?_⟩
            intro r hr
            have hfr := hl.fresh htn t ht
            intro hc
            exact hfr ⟨r, List.mem_of_mem_take hr, hc⟩
          · simp only
            rw [← hte]
            rcases hold with h | ⟨h1, h2⟩
            · exact Or.inl h
            · exact Or.inr ⟨h1, fun t ht => ⟨hl.hm, (h2 t ht).2⟩⟩
        · simp only [Rung.write, List.getElem?_set_ne hp] at hs
          exact hpt p o s ho hs
      · -- `k ≥ current`: there is no rung `k+1`
        have : b.rungs.length ≤ k + 1 := by rw [hw.len]; omega
        have hnone : (b.written rg res).rungs[k + 1]? = none := by
          apply List.getElem?_eq_none; simp only [Bracket.written, List.length_set]; exact this
        rw [hnone] at hnext; cases hnext
  · intro r hr
    rcases List.mem_or_eq_of_mem_set hr with h | h
    · exact hw.nodup r h
    · subst h
      unfold Rung.ids Rung.write
      apply nodup_filterMap_set_tid rg.slots res.slotIndex sl _ hl.hsl hl.tid
      · intro htn t ht hc
        exact hl.fresh htn t ht ⟨rg, List.mem_of_getElem? hl.hrg, hc⟩
      · exact hw.nodup rg (List.mem_of_getElem? hl.hrg)
  · intro r hr y hy hyt
    change (b.written rg res).rungs[0]? = some r at hr
    by_cases h0 : b.current = 0
    · rw [← h0, written_cur hl] at hr
      have : r = rg.write res := (Option.some.inj hr).symm
      subst this
      rcases List.mem_or_eq_of_mem_set hy with h | h
      · exact hw.base rg (h0 ▸ hl.hrg) y h hyt
      · subst h; exact hl.hm
    · rw [written_other 0 (by omega)] at hr
      exact hw.base r hr y hy hyt

/-- the rung is complete exactly when every slot is occupied -/
theorem rungDone_iff (hw : BWF spec b) (hl : LegalRes b res rg sl) :
    RungDone (rg.write res) b.firstFree ↔ ∀ s ∈ (rg.write res).slots, s.metric.isSome = true := by
  have hpre := written_pre hw hl
  have hf := hpre.free (rg.write res) (written_cur hl)
  change b.firstFree ≤ _ ∧ _ at hf
  unfold RungDone
  constructor
  · rintro ⟨h1, h2⟩
    exact (pendingIn_zero_iff _ _ h1).mp h2
  · intro hall
    have hle : (rg.write res).slots.length ≤ b.firstFree := by
      by_contra hc
      have hlt : b.firstFree < (rg.write res).slots.length := by omega
      have hs := hf.2 b.firstFree _ (List.getElem?_eq_getElem hlt) (Nat.le_refl _)
      have := hall _ (List.getElem_mem hlt)
      rw [hs] at this; cases this
    exact ⟨hle, (pendingIn_zero_iff _ _ hle).mpr hall⟩

theorem written_wf_of_not_done (hw : BWF spec b) (hl : LegalRes b res rg sl)
    (hnd : ¬ RungDone (rg.write res) b.firstFree) : BWF spec (b.written rg res) := by
  have hpre := written_pre hw hl
  refine ⟨hpre.kind, hpre.specOk, hpre.shape, hpre.len, hpre.done, hpre.free, ?_, hpre.top, hpre.nodup, hpre.base⟩
  intro r hr
  have hr' : (b.written rg res).rungs[b.current]? = some r := hr
  rw [written_cur hl] at hr'
  have : r = rg.write res := (Option.some.inj hr').symm
  subst this
  by_contra hc
  apply hnd
  rw [rungDone_iff hw hl]
  intro s hs
  cases hm : s.metric with
  | none => exact absurd ⟨s, hs, hm⟩ hc
  | some _ => rfl

end written

/-- the three outcomes of `on_result` -/
inductive ResultCase (b : Bracket) (res : SlotInRung) (rg : Rung) :
    Bracket → Option (List (Option Nat)) → Prop
  | stay (h : ¬ RungDone (rg.write res) b.firstFree) : ResultCase b res rg (b.written rg res) none
  | last (h : RungDone (rg.write res) b.firstFree) (hc : b.numRungs ≤ b.current + 1) :
      ResultCase b res rg { b.written rg res with current := b.current + 1, firstFree := 0 } none
  | promote (h : RungDone (rg.write res) b.firstFree) (newLen ms : Nat) (rest : List (Nat × Nat))
      (es : List TEntry) (htodo : b.todo = (newLen, ms) :: rest)
      (hes : entriesOf (rg.write res).slots = some es) :
      ResultCase b res rg
        { b.written rg res with
            current := b.current + 1, firstFree := 0,
            rungs := (b.written rg res).rungs ++
              [{ slots := (topList es newLen b.mode).map (fun t => ⟨t, none⟩), level := ms }],
            todo := rest }
        (some (remainingList es (topList es newLen b.mode)))

section done
variable {spec : List (Nat × Nat)} {b : Bracket} {res : SlotInRung} {rg : Rung} {sl : Slot}

theorem es_ids {slots : List Slot} {es : List TEntry} (h : entriesOf slots = some es) :
    es.filterMap (·.1) = slots.filterMap (·.tid) := by
  have h2 := (entriesOf_spec slots es h).2.1
  have e1 : es.filterMap (·.1) = (es.map (·.1)).filterMap id := by
    rw [List.filterMap_map]; rfl
  have e2 : slots.filterMap (·.tid) = (slots.map (·.tid)).filterMap id := by
    rw [List.filterMap_map]; rfl
  rw [e1, e2, h2]

theorem last_wf (hw : BWF spec b) (hl : LegalRes b res rg sl)
    (hd : RungDone (rg.write res) b.firstFree) (hc : b.numRungs ≤ b.current + 1) :
    BWF spec { b.written rg res with current := b.current + 1, firstFree := 0 } := by
  have hpre := written_pre hw hl
  have hn := hw.numRungs_eq
  have hcl := cur_lt hl
  have hlen : (b.written rg res).rungs.length = b.rungs.length := by simp [Bracket.written]
  have hnone : (b.written rg res).rungs[b.current + 1]? = none := by
    apply List.getElem?_eq_none
    rw [hlen, hw.len]; omega
  refine ⟨hpre.kind, hpre.specOk, hpre.shape, ?_, ?_, ?_, ?_, hpre.top, hpre.nodup, hpre.base⟩
  · have := hpre.len
    change (b.written rg res).rungs.length = min (b.current + 1) spec.length at this
    change (b.written rg res).rungs.length = min (b.current + 1 + 1) spec.length
    omega
  · intro k r hk hr
    change k < b.current + 1 at hk
    change (b.written rg res).rungs[k]? = some r at hr
    by_cases hkc : k = b.current
    · subst hkc
      rw [written_cur hl] at hr
      have : r = rg.write res := (Option.some.inj hr).symm
      subst this
      exact (rungDone_iff hw hl).mp hd
    · exact hpre.done k r (by change k < b.current; omega) hr
  · intro r hr
    change (b.written rg res).rungs[b.current + 1]? = some r at hr
    rw [hnone] at hr; cases hr
  · intro r hr
    change (b.written rg res).rungs[b.current + 1]? = some r at hr
    rw [hnone] at hr; cases hr

theorem promote_wf (hw : BWF spec b) (hl : LegalRes b res rg sl)
    (hd : RungDone (rg.write res) b.firstFree) (hc : ¬ b.numRungs ≤ b.current + 1)
    (newLen ms : Nat) (rest : List (Nat × Nat)) (es : List TEntry)
    (htodo : b.todo = (newLen, ms) :: rest) (hes : entriesOf (rg.write res).slots = some es) :
    BWF spec
      { b.written rg res with
          current := b.current + 1, firstFree := 0,
          rungs := (b.written rg res).rungs ++
            [{ slots := (topList es newLen b.mode).map (fun t => ⟨t, none⟩), level := ms }],
          todo := rest } := by
  have hpre := written_pre hw hl
  have hn := hw.numRungs_eq
  have hcl := cur_lt hl
  have hRlen : (b.written rg res).rungs.length = b.current + 1 := by
    simp only [Bracket.written, List.length_set]; rw [hw.len]; omega
  have hblen : b.rungs.length = b.current + 1 := by rw [hw.len]; omega
  -- sizes of the two rungs involved
  have hs0 : spec[b.current]? = some (rg.slots.length, rg.level) := by
    rw [← hw.shape]; exact shape_getElem b _ rg hl.hrg
  have hs1 : spec[b.current + 1]? = some (newLen, ms) := by
    have := shape_todo b 0
    rw [hw.shape, hblen, htodo] at this
    simpa using this
  have hlt : newLen < rg.slots.length := checkRungs_decr spec hw.specOk b.current _ _ hs0 hs1
  have hpos : 1 ≤ newLen := checkRungs_size_pos spec hw.specOk (newLen, ms) (List.mem_of_getElem? hs1)
  have heslen : es.length = rg.slots.length := by
    rw [(entriesOf_spec _ es hes).1, write_length]
  have htl : (topList es newLen b.mode).length = newLen := topList_length es newLen b.mode (by omega)
  set new : Rung := { slots := (topList es newLen b.mode).map (fun t => ⟨t, none⟩), level := ms } with hnew
  have hnewlen : new.slots.length = newLen := by simp [hnew, htl]
  set R := (b.written rg res).rungs with hR
  have hleft : ∀ k, k < b.current + 1 → (R ++ [new])[k]? = R[k]? := by
    intro k hk; exact List.getElem?_append_left (by omega)
  have hnewget : (R ++ [new])[b.current + 1]? = some new := by
    rw [List.getElem?_append_right (by omega)]; simp [hRlen]
  refine ⟨hpre.kind, hpre.specOk, ?_, ?_, ?_, ?_, ?_, ?_, ?_, ?_⟩
  · -- shape
    have h1 := hpre.shape
    unfold Bracket.shape at h1 ⊢
    change R.map _ ++ b.todo = spec at h1
    change (R ++ [new]).map _ ++ rest = spec
    rw [htodo] at h1
    rw [← h1]; simp [hnewlen]; rfl
  · change (R ++ [new]).length = min (b.current + 1 + 1) spec.length
    simp only [List.length_append, List.length_singleton, hRlen]; omega
  · intro k r hk hr
    change k < b.current + 1 at hk
    change (R ++ [new])[k]? = some r at hr
    rw [hleft k hk] at hr
    by_cases hkc : k = b.current
    · subst hkc
      rw [hR, written_cur hl] at hr
      have : r = rg.write res := (Option.some.inj hr).symm
      subst this
      exact (rungDone_iff hw hl).mp hd
    · exact hpre.done k r (by change k < b.current; omega) hr
  · intro r hr
    change (R ++ [new])[b.current + 1]? = some r at hr
    rw [hnewget] at hr
    have : r = new := (Option.some.inj hr).symm
    subst this
    refine ⟨Nat.zero_le _, ?_⟩
    intro p s hs _
    have hmem := List.mem_of_getElem? hs
    simp only [hnew, List.mem_map] at hmem
    obtain ⟨t, _, rfl⟩ := hmem
    rfl
  · intro r hr
    change (R ++ [new])[b.current + 1]? = some r at hr
    rw [hnewget] at hr
    have : r = new := (Option.some.inj hr).symm
    subst this
    have h0 : 0 < new.slots.length := by omega
    refine ⟨new.slots[0], List.getElem_mem h0, ?_⟩
    have hmem := List.getElem_mem h0
    simp only [hnew, List.mem_map] at hmem
    obtain ⟨t, _, ht⟩ := hmem
    rw [← ht]
  · intro k prev next hprev hnext
    change (R ++ [new])[k]? = some prev at hprev
    change (R ++ [new])[k + 1]? = some next at hnext
    change TopRel b.mode ((R ++ [new]).take (k + 1)) prev next
    by_cases hk1 : k + 1 < b.current + 1
    · rw [hleft k (by omega)] at hprev
      rw [hleft (k + 1) hk1] at hnext
      rw [List.take_append_of_le_length (by omega)]
      exact hpre.top k prev next hprev hnext
    · by_cases hk2 : k = b.current
      · subst hk2
        rw [hleft _ (by omega), hR, written_cur hl] at hprev
        rw [hnewget] at hnext
        have h1 : prev = rg.write res := (Option.some.inj hprev).symm
        have h2 : next = new := (Option.some.inj hnext).symm
        subst h1; subst h2
        refine ⟨es, hes, by rw [hnewlen, htl], ?_⟩
        intro p o s ho hs
        left
        rw [hnewlen] at ho
        simp only [hnew, List.getElem?_map] at hs
        rw [ho] at hs
        simp only [Option.map_some, Option.some.injEq] at hs
        rw [← hs]
      · have : (R ++ [new])[k + 1]? = none := by
          apply List.getElem?_eq_none
          simp only [List.length_append, List.length_singleton, hRlen]; omega
        rw [this] at hnext; cases hnext
  · intro r hr
    change r ∈ R ++ [new] at hr
    rcases List.mem_append.mp hr with h | h
    · exact hpre.nodup r h
    · simp only [List.mem_singleton] at h
      subst h
      have hids : new.ids = (topList es newLen b.mode).filterMap id := by
        simp only [Rung.ids, hnew, List.filterMap_map]; rfl
      rw [hids]
      apply topList_nodup
      rw [es_ids hes]
      exact hpre.nodup (rg.write res) (List.mem_of_getElem? (written_cur hl))
  · intro r hr
    change (R ++ [new])[0]? = some r at hr
    rw [hleft 0 (by omega)] at hr
    exact hpre.base r hr

/-- **`on_result` on a legal call**: it does not raise, one of the three outcomes
applies, and the invariant is kept. -/
theorem onResult_cases (hw : BWF spec b) (hl : LegalRes b res rg sl) :
    ∃ b' np, b.onResult res = .ok (b', np) ∧ ResultCase b res rg b' np ∧ BWF spec b' := by
  unfold Bracket.onResult
  rw [checkResult_ok hw hl]
  change ∃ b' np, (b.written rg res).afterWrite (rg.write res) = .ok (b', np) ∧ _
  unfold Bracket.afterWrite
  by_cases hd : RungDone (rg.write res) b.firstFree
  · have hd' : (rg.write res).slots.length ≤ (b.written rg res).firstFree ∧
        pendingIn (rg.write res).slots (b.written rg res).firstFree = 0 := hd
    simp only [hd', and_self, if_true]
    have hnum : (b.written rg res).numRungs = b.numRungs := by
      simp [Bracket.numRungs, Bracket.written]
    by_cases hc : b.numRungs ≤ b.current + 1
    · have hcomp : ({ b.written rg res with current := (b.written rg res).current + 1, firstFree := 0 } : Bracket).isComplete = true := by
        simp only [Bracket.isComplete, decide_eq_true_eq]
        change (b.written rg res).numRungs ≤ b.current + 1
        rw [hnum]; exact hc
      simp only [hcomp, if_true]
      exact ⟨_, _, rfl, ResultCase.last hd hc, last_wf hw hl hd hc⟩
    · have hcomp : ({ b.written rg res with current := (b.written rg res).current + 1, firstFree := 0 } : Bracket).isComplete = false := by
        simp only [Bracket.isComplete, decide_eq_false_iff_not]
        change ¬ (b.written rg res).numRungs ≤ b.current + 1
        rw [hnum]; exact hc
      simp only [hcomp, Bool.false_eq_true, if_false]
      -- the promotion step
      have hn := hw.numRungs_eq
      have hblen : b.rungs.length = b.current + 1 := by rw [hw.len]; omega
      have htodo : ∃ newLen ms rest, b.todo = (newLen, ms) :: rest := by
        cases ht : b.todo with
        | nil => simp [Bracket.numRungs, ht] at hc; omega
        | cons hd tl => exact ⟨hd.1, hd.2, tl, rfl⟩
      obtain ⟨newLen, ms, rest, htodo⟩ := htodo
      obtain ⟨es, hes⟩ := entriesOf_some (rg.write res).slots ((rungDone_iff hw hl).mp hd)
      have hprom : ({ b.written rg res with current := (b.written rg res).current + 1, firstFree := 0 } : Bracket).promote
          = .ok ({ b.written rg res with
                    current := b.current + 1, firstFree := 0,
                    rungs := (b.written rg res).rungs ++
                      [{ slots := (topList es newLen b.mode).map (fun t => ⟨t, none⟩), level := ms }],
                    todo := rest },
                 remainingList es (topList es newLen b.mode)) := by
        unfold Bracket.promote
        have hk : (b.written rg res).kind = .hyperband := hw.kind
        have ht' : (b.written rg res).todo = (newLen, ms) :: rest := htodo
        have hlen' : (b.written rg res).rungs.length = (b.written rg res).current + 1 := by
          simp only [Bracket.written, List.length_set]; exact hblen
        have hprev : (b.written rg res).rungs[(b.written rg res).current + 1 - 1]? = some (rg.write res) := by
          simp only [Nat.add_sub_cancel]; exact written_cur hl
        simp only [hk, ht', hlen', ne_eq, not_true_eq_false, if_false, hprev, hes, getTopList]
        rfl
      rw [hprom]
      exact ⟨_, _, rfl, ResultCase.promote hd newLen ms rest es htodo hes,
        promote_wf hw hl hd hc newLen ms rest es htodo hes⟩
  · have hd' : ¬ ((rg.write res).slots.length ≤ (b.written rg res).firstFree ∧
        pendingIn (rg.write res).slots (b.written rg res).firstFree = 0) := hd
    simp only [hd', if_false]
    exact ⟨_, _, rfl, ResultCase.stay hd, written_wf_of_not_done hw hl hd⟩

end done

end SyneTune.Sync
