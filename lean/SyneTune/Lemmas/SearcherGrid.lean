import SyneTune.Model.Grid
/-
Lemmas about the grid searcher model (`Model/Grid.lean`) for C06 (`grid_once`) and C16
(`grid`).  Core Lean only.  Generic helper lemmas live in `SyneTune.Srch.GridAux` (so that they
cannot clash with same-named helpers of the other searcher files).
-/
namespace SyneTune.Srch

/-- the grid as configurations, in traversal order -/
def GImm.configs (imm : GImm) (combos : List (List Val)) : List Config :=
  combos.map (zipConfig imm.hpKeys)

def GOp.isGet : GOp → Bool
  | .get => true
  | .other => false

/-- what the searcher owes after the initial configurations: the grid points whose match
string is not the match string of an initial configuration, in traversal order -/
def gridRest (mk : Config → String) (init : List Config) (grid : List Config) : List Config :=
  grid.filter fun c => decide (mk c ∉ init.map mk)

/-! ### helpers: `run`, `exclAdd`, `gridLoop` -/

theorem GState.run_nil (imm : GImm) (s : GState) : GState.run imm s [] = .ok (s, []) := rfl

theorem GState.run_other (imm : GImm) (s : GState) (ops : List GOp) :
    GState.run imm s (.other :: ops) = GState.run imm s ops := by
  simp only [GState.run, GState.step]
  cases GState.run imm s ops with
  | error e => rfl
  | ok r => cases r; simp

theorem GState.run_get_error (imm : GImm) (s : GState) (ops : List GOp) (e : Err)
    (h : s.getConfig imm = .error e) : GState.run imm s (.get :: ops) = .error e := by
  simp only [GState.run, GState.step, h]

theorem GState.run_get_ok (imm : GImm) (s s1 : GState) (o : Option Config) (ops : List GOp)
    (h : s.getConfig imm = .ok (s1, o)) :
    GState.run imm s (.get :: ops) =
      match GState.run imm s1 ops with
      | .error e => .error e
      | .ok (s'', os) => .ok (s'', o :: os) := by
  simp only [GState.run, GState.step, h]
  cases GState.run imm s1 ops with
  | error e => rfl
  | ok r => cases r; simp

theorem GridAux.exclAdd_nodup (m : String) (l : List String) (h : l.Nodup) : (exclAdd m l).Nodup := by
  unfold exclAdd
  split
  · exact h
  · exact List.nodup_cons.2 ⟨by assumption, h⟩

theorem GridAux.mem_exclAdd (x m : String) (l : List String) : x ∈ exclAdd m l ↔ x = m ∨ x ∈ l := by
  unfold exclAdd
  split
  · constructor
    · exact Or.inr
    · rintro (rfl | h)
      · assumption
      · exact h
  · simp

theorem GridAux.exclAdd_perm (m : String) (l l' : List String) (h : l.Perm l') :
    (exclAdd m l).Perm (exclAdd m l') := by
  unfold exclAdd
  by_cases hm : m ∈ l
  · have hm' : m ∈ l' := h.mem_iff.1 hm
    simp [hm, hm', h]
  · have hm' : m ∉ l' := fun h' => hm (h.mem_iff.2 h')
    simp [hm, hm', h]

theorem gridLoop_succ (imm : GImm) (combos : List (List Val)) (fuel next : Nat) (ini : List String) :
    gridLoop imm combos (fuel + 1) next ini =
      match combos[next]? with
      | none => .ok (none, next, ini)
      | some combo =>
        match exclContains imm.mkf ini (zipConfig imm.hpKeys combo) with
        | .error e => .error e
        | .ok isInit =>
          if isInit then
            gridLoop imm combos fuel
              (if imm.allowDup ∧ next + 1 = combos.length then 0 else next + 1)
              (if imm.allowDup ∧ next + 1 = combos.length then [] else ini)
          else .ok (some (zipConfig imm.hpKeys combo),
              (if imm.allowDup ∧ next + 1 = combos.length then 0 else next + 1),
              (if imm.allowDup ∧ next + 1 = combos.length then [] else ini)) := by
  rfl

/-! ### C06: sequence form -/

/-- the first `n` elements of the stream `xs ++ [a, a, ...]` -/
def GridAux.padTake {α} (n : Nat) (xs : List α) (a : α) : List α := (xs ++ List.replicate n a).take n

theorem GridAux.take_append_replicate {α} (a : α) (xs : List α) (n m : Nat) (h : n ≤ m) :
    (xs ++ List.replicate m a).take n = (xs ++ List.replicate n a).take n := by
  induction xs generalizing n m with
  | nil => simp [List.take_replicate, Nat.min_eq_left h]
  | cons x xs ih =>
    cases n with
    | zero => simp
    | succ n =>
      simp only [List.cons_append, List.take_succ_cons, List.cons.injEq, true_and]
      rw [ih n m (by omega), ih n (n + 1) (Nat.le_succ n)]

theorem GridAux.padTake_cons {α} (n : Nat) (x : α) (xs : List α) (a : α) :
    GridAux.padTake (n + 1) (x :: xs) a = x :: GridAux.padTake n xs a := by
  unfold GridAux.padTake
  simp only [List.cons_append, List.take_succ_cons, List.cons.injEq, true_and]
  exact GridAux.take_append_replicate a xs n (n + 1) (Nat.le_succ n)

theorem GridAux.padTake_nil {α} (n : Nat) (a : α) : GridAux.padTake (n + 1) [] a = a :: GridAux.padTake n [] a := by
  simp [GridAux.padTake, List.replicate_succ]

theorem GridAux.exclContains_ok (mkf : MK) (mk : Config → String) (ini : List String) (c : Config)
    (h : mkf c = .ok (mk c)) : exclContains mkf ini c = .ok (decide (mk c ∈ ini)) := by
  simp [exclContains, h]

theorem GridAux.exclAddConfig_ok (mkf : MK) (mk : Config → String) (ini : List String) (c : Config)
    (h : mkf c = .ok (mk c)) : exclAddConfig mkf ini c = .ok (exclAdd (mk c) ini) := by
  simp [exclAddConfig, h]

/-- without duplicates allowed, the grid loop returns the first grid point at or after the
cursor that passes the filter `p` (membership in the fixed exclusion set), and leaves the
cursor just behind it -/
theorem gridLoop_noDup (imm : GImm) (hnd : imm.allowDup = false) (mk : Config → String)
    (combos : List (List Val)) (ini : List String)
    (hmk : ∀ c ∈ imm.configs combos, imm.mkf c = .ok (mk c))
    (fuel k : Nat) (hf : combos.length - k < fuel) :
    ∃ k', k ≤ k' ∧
      gridLoop imm combos fuel k ini =
        .ok (((imm.configs (combos.drop k)).filter fun c => decide (mk c ∉ ini)).head?, k', ini) ∧
      ((imm.configs (combos.drop k')).filter fun c => decide (mk c ∉ ini)) =
        ((imm.configs (combos.drop k)).filter fun c => decide (mk c ∉ ini)).tail := by
  induction fuel generalizing k with
  | zero => omega
  | succ fuel ih =>
    rw [gridLoop_succ]
    by_cases hk : k < combos.length
    · have hget : combos[k]? = some combos[k] := List.getElem?_eq_getElem hk
      have hdrop := List.drop_eq_getElem_cons hk
      have hmem : zipConfig imm.hpKeys combos[k] ∈ imm.configs combos :=
        List.mem_map.2 ⟨_, List.getElem_mem hk, rfl⟩
      rw [hget]
      simp only
      rw [GridAux.exclContains_ok imm.mkf mk ini _ (hmk _ hmem)]
      simp only [hnd, Bool.false_eq_true, false_and, if_false]
      rw [hdrop]
      simp only [GImm.configs, List.map_cons]
      by_cases hin : mk (zipConfig imm.hpKeys combos[k]) ∈ ini
      · obtain ⟨k', hk', h1, h2⟩ := ih (k + 1) (by omega)
        refine ⟨k', by omega, ?_, ?_⟩
        · simp only [hin, decide_true, if_true]
          rw [h1]
          simp [GImm.configs, hin]
        · rw [List.filter_cons]
          simp only [hin, not_true_eq_false, decide_false, Bool.false_eq_true, if_false]
          exact h2
      · refine ⟨k + 1, by omega, ?_, ?_⟩
        · simp [hin]
        · simp [hin]
    · have hget : combos[k]? = none := List.getElem?_eq_none (by omega)
      have hdrop : combos.drop k = [] := List.drop_eq_nil_of_le (by omega)
      rw [hget]
      exact ⟨k, Nat.le_refl k, by simp [hdrop, GImm.configs], by simp [hdrop, GImm.configs]⟩

theorem GridAux.filter_congr_mem {α} (p q : α → Bool) (l : List α) (h : ∀ a ∈ l, p a = q a) :
    l.filter p = l.filter q := by
  induction l with
  | nil => rfl
  | cons x xs ih =>
    simp only [List.filter_cons, h x (by simp)]
    rw [ih (fun a ha => h a (by simp [ha]))]

/-- generalised sequence form: any state reached while serving the initial configurations
(`done` consumed, cursor still 0) or while walking the grid (`p2e = []`) -/
theorem grid_outputs_aux (imm : GImm) (hnd : imm.allowDup = false) (mk : Config → String)
    (init : List Config) (combos : List (List Val))
    (hmk : ∀ c ∈ init ++ imm.configs combos, imm.mkf c = .ok (mk c))
    (ops : List GOp) (s : GState) (done : List Config) (s' : GState) (outs : List (Option Config))
    (hc : s.combos = combos) (hd : init = done ++ s.p2e)
    (hA : ∀ m, m ∈ s.allInit ↔ m ∈ done.map mk)
    (hn : s.p2e ≠ [] → s.next = 0)
    (h : GState.run imm s ops = .ok (s', outs)) :
    outs = GridAux.padTake (ops.countP GOp.isGet)
      ((s.p2e ++ gridRest mk init (imm.configs (combos.drop s.next))).map some) none := by
  induction ops generalizing s done outs with
  | nil =>
    rw [GState.run_nil] at h; injection h with h; simp only [Prod.mk.injEq] at h
    simp [GridAux.padTake, ← h.2]
  | cons op ops ih =>
    cases op with
    | other =>
      rw [GState.run_other] at h
      have := ih s done outs hc hd hA hn h
      simpa [List.countP_cons, GOp.isGet] using this
    | get =>
      have hcount : (GOp.get :: ops).countP GOp.isGet = ops.countP GOp.isGet + 1 := by
        simp [List.countP_cons, GOp.isGet]
      rw [hcount]
      cases hg : s.getConfig imm with
      | error e => rw [GState.run_get_error imm s ops e hg] at h; cases h
      | ok r =>
        obtain ⟨s1, o⟩ := r
        rw [GState.run_get_ok imm s s1 o ops hg] at h
        split at h
        · cases h
        · rename_i s'' os hr
          injection h with h; simp only [Prod.mk.injEq] at h
          obtain ⟨rfl, rfl⟩ := h
          unfold GState.getConfig at hg
          cases hp : s.p2e with
          | cons c rest =>
            rw [hp] at hg hd
            simp only at hg
            have hcm : imm.mkf c = .ok (mk c) := hmk c (by rw [hd]; simp)
            rw [GridAux.exclAddConfig_ok imm.mkf mk _ c hcm] at hg
            injection hg with hg; simp only [Prod.mk.injEq] at hg
            obtain ⟨rfl, rfl⟩ := hg
            have h0 : s.next = 0 := hn (by simp [hp])
            have := ih { s with p2e := rest, allInit := exclAdd (mk c) s.allInit } (done ++ [c]) os
              hc (by simpa using hd)
              (by
                intro m
                show m ∈ exclAdd (mk c) s.allInit ↔ _
                rw [GridAux.mem_exclAdd, hA m]
                simp only [List.map_append, List.mem_append, List.map_cons, List.map_nil,
                  List.mem_singleton]
                exact Or.comm)
              (fun _ => h0) hr
            rw [this]
            simp only [List.cons_append, List.map_cons]
            rw [GridAux.padTake_cons]
          | nil =>
            rw [hp] at hg hd
            simp only at hg
            have hd' : init = done := by simpa using hd
            obtain ⟨k', hk', h1, h2⟩ := gridLoop_noDup imm hnd mk s.combos s.allInit
              (fun c hc' => hmk c (by rw [hc] at hc'; simp [hc']))
              (s.combos.length + 2) s.next (by omega)
            rw [h1] at hg
            injection hg with hg; simp only [Prod.mk.injEq] at hg
            obtain ⟨rfl, rfl⟩ := hg
            have := ih { s with p2e := [], next := k', allInit := s.allInit } done os
              hc (by simpa using hd') hA (fun hne => absurd rfl hne) hr
            rw [this]
            have hfe : ∀ l : List Config, (l.filter fun c => decide (mk c ∉ s.allInit)) = gridRest mk init l := by
              intro l
              unfold gridRest
              apply GridAux.filter_congr_mem
              intro a _
              simp only [hA, hd']
            simp only [hfe, hc] at h2
            simp only [hfe, hc, List.nil_append]
            rw [h2]
            cases hR : gridRest mk init (imm.configs (List.drop s.next combos)) with
            | nil => simp [GridAux.padTake_nil]
            | cons x xs => simp [GridAux.padTake_cons]

/-- **grid_once (sequence form)**: from the freshly constructed searcher, for every grid
(any list of combinations, hence every shuffle permutation), every list of initial
configurations and every history, the outputs of the `get` operations are: the initial
configurations in order, then every grid point not (match-string-)equal to an initial one
in traversal order, then `none` forever. -/
theorem grid_outputs (imm : GImm) (hnd : imm.allowDup = false) (mk : Config → String)
    (init : List Config) (combos : List (List Val)) (rng : Nat)
    (hmk : ∀ c ∈ init ++ imm.configs combos, imm.mkf c = .ok (mk c))
    (ops : List GOp) (s' : GState) (outs : List (Option Config))
    (h : GState.run imm { p2e := init, next := 0, allInit := [], combos := combos, rng := rng } ops = .ok (s', outs)) :
    outs = (((init ++ gridRest mk init (imm.configs combos)).map some) ++
              List.replicate (ops.countP GOp.isGet) none).take (ops.countP GOp.isGet) := by
  have := grid_outputs_aux imm hnd mk init combos hmk ops _ [] s' outs rfl rfl (by simp) (fun _ => rfl) h
  simpa [GridAux.padTake] using this

/-! ### the grid: product, shuffle, zip -/

theorem GridAux.nodup_flatMap_of {α β} (f : α → List β) (xs : List α) (hx : xs.Nodup)
    (hf : ∀ x ∈ xs, (f x).Nodup)
    (hd : ∀ x ∈ xs, ∀ y ∈ xs, x ≠ y → ∀ b, b ∈ f x → b ∈ f y → False) :
    (xs.flatMap f).Nodup := by
  induction xs with
  | nil => simp
  | cons x xs ih =>
    rw [List.flatMap_cons, List.nodup_append]
    rw [List.nodup_cons] at hx
    refine ⟨hf x (by simp), ih hx.2 (fun y hy => hf y (by simp [hy]))
      (fun y hy z hz => hd y (by simp [hy]) z (by simp [hz])), ?_⟩
    intro a ha b hb hab
    subst hab
    rw [List.mem_flatMap] at hb
    obtain ⟨y, hy, hay⟩ := hb
    exact hd x (by simp) y (by simp [hy]) (fun h => hx.1 (h ▸ hy)) a ha hay

theorem GridAux.nodup_map_of_injective {α β} (f : α → β) (hf : ∀ a b, f a = f b → a = b) (l : List α)
    (h : l.Nodup) : (l.map f).Nodup := by
  induction l with
  | nil => simp
  | cons x xs ih =>
    rw [List.nodup_cons] at h
    rw [List.map_cons, List.nodup_cons]
    refine ⟨?_, ih h.2⟩
    intro hm
    rw [List.mem_map] at hm
    obtain ⟨y, hy, hxy⟩ := hm
    exact h.1 (hf _ _ hxy ▸ hy)

/-- `itertools.product` of duplicate-free lists is duplicate-free -/
theorem product_nodup (ls : List (List Val)) (h : ∀ l ∈ ls, l.Nodup) : (product ls).Nodup := by
  induction ls with
  | nil => simp [product]
  | cons xs rest ih =>
    unfold product
    apply GridAux.nodup_flatMap_of
    · exact h xs (by simp)
    · intro x _
      apply GridAux.nodup_map_of_injective
      · intro a b hab; exact (List.cons.inj hab).2
      · exact ih (fun l hl => h l (by simp [hl]))
    · intro x _ y _ hxy b hb1 hb2
      rw [List.mem_map] at hb1 hb2
      obtain ⟨t1, _, rfl⟩ := hb1
      obtain ⟨t2, _, h2⟩ := hb2
      exact hxy (List.cons.inj h2).1.symm

/-- `t` picks one value from each list -/
def pointwiseMem : List Val → List (List Val) → Prop
  | [], [] => True
  | v :: t, l :: ls => v ∈ l ∧ pointwiseMem t ls
  | _, _ => False

/-- the product consists exactly of the tuples picking one value from each list -/
theorem mem_product (ls : List (List Val)) (t : List Val) :
    t ∈ product ls ↔ pointwiseMem t ls := by
  induction ls generalizing t with
  | nil => cases t <;> simp [product, pointwiseMem]
  | cons xs rest ih =>
    cases t with
    | nil => simp [product, pointwiseMem]
    | cons v t =>
      simp only [product, pointwiseMem, List.mem_flatMap, List.mem_map]
      constructor
      · rintro ⟨x, hx, t', ht', heq⟩
        obtain ⟨rfl, rfl⟩ := List.cons.inj heq
        exact ⟨hx, (ih _).1 ht'⟩
      · rintro ⟨hv, ht⟩
        exact ⟨v, hv, t, (ih _).2 ht, rfl⟩

theorem GridAux.length_le_of_nodup_subset {α} [BEq α] [LawfulBEq α] (l m : List α) (hl : l.Nodup)
    (hs : ∀ x ∈ l, x ∈ m) : l.length ≤ m.length := by
  induction l generalizing m with
  | nil => simp
  | cons x l ih =>
    rw [List.nodup_cons] at hl
    have hx : x ∈ m := hs x (by simp)
    have := ih (m.erase x) hl.2 (fun y hy => by
      have hne : y ≠ x := fun h => hl.1 (h ▸ hy)
      exact (List.mem_erase_of_ne hne).2 (hs y (by simp [hy])))
    rw [List.length_erase_of_mem hx] at this
    have : 0 < m.length := List.length_pos_of_mem hx
    simp only [List.length_cons]; omega

theorem GridAux.perm_range_of_nodup (n : Nat) (p : List Nat) (hlen : p.length = n) (hnd : p.Nodup)
    (hlt : ∀ x ∈ p, x < n) : p.Perm (List.range n) := by
  rw [List.perm_iff_count]
  intro a
  rw [hnd.count, List.count_range]
  by_cases ha : a < n
  · have : a ∈ p := by
      apply Classical.byContradiction
      intro hna
      have h1 := GridAux.length_le_of_nodup_subset p ((List.range n).erase a) hnd (fun x hx => by
        have hne : x ≠ a := fun h => hna (h ▸ hx)
        exact (List.mem_erase_of_ne hne).2 (List.mem_range.2 (hlt x hx)))
      rw [List.length_erase_of_mem (List.mem_range.2 ha), List.length_range] at h1
      omega
    simp [ha, this]
  · have : a ∉ p := fun h => ha (hlt a h)
    simp [ha, this]

theorem GridAux.filterMap_range'_getElem? {α} (xs pre : List α) :
    (List.range' pre.length xs.length).filterMap (fun i => (pre ++ xs)[i]?) = xs := by
  induction xs generalizing pre with
  | nil => simp
  | cons x xs ih =>
    have := ih (pre ++ [x])
    simp only [List.length_append, List.length_cons, List.length_nil, Nat.zero_add,
      List.append_assoc, List.cons_append, List.nil_append] at this
    simp [List.range'_succ, this]

theorem GridAux.filterMap_range_getElem? {α} (xs : List α) :
    (List.range xs.length).filterMap (fun i => xs[i]?) = xs := by
  have := GridAux.filterMap_range'_getElem? xs []
  simpa [List.range_eq_range'] using this

/-- the shuffle is a permutation of the grid: same points, same multiplicities -/
theorem applyPerm_perm {α} (perm : List Nat) (xs ys : List α) (h : applyPerm perm xs = .ok ys) :
    ys.Perm xs := by
  unfold applyPerm at h
  split at h
  · rename_i hc
    obtain ⟨h1, h2, h3⟩ := hc
    injection h with h
    subst h
    have hp := GridAux.perm_range_of_nodup xs.length perm h1 h2 (by
      intro x hx
      have := List.all_eq_true.1 h3 x hx
      simpa using this)
    have := hp.filterMap (fun i => xs[i]?)
    rw [GridAux.filterMap_range_getElem?] at this
    exact this
  · cases h

/-- `dict(zip(keys, combo))` determines the combination (for combinations of full length) -/
theorem zipConfig_injective (keys : List String) (a b : List Val)
    (ha : a.length = keys.length) (hb : b.length = keys.length)
    (h : zipConfig keys a = zipConfig keys b) : a = b := by
  unfold zipConfig at h
  induction keys generalizing a b with
  | nil =>
    cases a <;> cases b <;> simp_all
  | cons k ks ih =>
    cases a with
    | nil => simp at ha
    | cons x a =>
      cases b with
      | nil => simp at hb
      | cons y b =>
        simp only [List.zip_cons_cons, List.cons.injEq, Prod.mk.injEq, true_and] at h
        simp only [List.length_cons, Nat.add_right_cancel_iff] at ha hb
        rw [h.1, ih a b ha hb h.2]

/-! ### C16: clone of a grid searcher -/

/-- states that differ only in the representation of the set `_all_initial_configs` -/
structure GState.Equiv (s t : GState) : Prop where
  p2e : s.p2e = t.p2e
  next : s.next = t.next
  combos : s.combos = t.combos
  rng : s.rng = t.rng
  allInit : s.allInit.Perm t.allInit

/-- the grid loop returns the exclusion set unchanged or emptied -/
theorem gridLoop_init (imm : GImm) (combos : List (List Val)) (fuel next : Nat) (ini : List String)
    (c : Option Config) (n' : Nat) (ini' : List String)
    (h : gridLoop imm combos fuel next ini = .ok (c, n', ini')) : ini' = ini ∨ ini' = [] := by
  induction fuel generalizing next ini with
  | zero => simp [gridLoop] at h
  | succ fuel ih =>
    rw [gridLoop_succ] at h
    split at h
    · injection h with h; simp only [Prod.mk.injEq] at h; exact Or.inl h.2.2.symm
    · split at h
      · cases h
      · split at h
        · rcases ih _ _ h with h' | h'
          · rw [h']; split
            · exact Or.inr rfl
            · exact Or.inl rfl
          · exact Or.inr h'
        · injection h with h; simp only [Prod.mk.injEq] at h
          rw [← h.2.2]; split
          · exact Or.inr rfl
          · exact Or.inl rfl

theorem GState.getConfig_nodup (imm : GImm) (s s' : GState) (o : Option Config)
    (hs : s.allInit.Nodup) (h : s.getConfig imm = .ok (s', o)) : s'.allInit.Nodup := by
  unfold GState.getConfig at h
  split at h
  · unfold exclAddConfig at h
    split at h
    · rename_i ini hini
      split at hini
      · injection hini with hini
        injection h with h; simp only [Prod.mk.injEq] at h
        rw [← h.1, ← hini]; exact GridAux.exclAdd_nodup _ _ hs
      · cases hini
    · cases h
  · split at h
    · cases h
    · rename_i c next ini hg
      injection h with h; simp only [Prod.mk.injEq] at h
      rw [← h.1]
      rcases gridLoop_init _ _ _ _ _ _ _ _ hg with h' | h'
      · simp only [h']; exact hs
      · simp only [h']; exact List.nodup_nil

/-- the exclusion set never holds a match string twice -/
theorem GState.run_nodup (imm : GImm) (s s' : GState) (ops : List GOp) (outs : List (Option Config))
    (hs : s.allInit.Nodup) (h : GState.run imm s ops = .ok (s', outs)) : s'.allInit.Nodup := by
  induction ops generalizing s outs with
  | nil =>
    rw [GState.run_nil] at h; injection h with h; simp only [Prod.mk.injEq] at h
    rw [← h.1]; exact hs
  | cons op ops ih =>
    cases op with
    | other => rw [GState.run_other] at h; exact ih s outs hs h
    | get =>
      cases hg : s.getConfig imm with
      | error e => rw [GState.run_get_error imm s ops e hg] at h; cases h
      | ok r =>
        obtain ⟨s1, o⟩ := r
        rw [GState.run_get_ok imm s s1 o ops hg] at h
        split at h
        · cases h
        · rename_i s'' os hr
          injection h with h; simp only [Prod.mk.injEq] at h
          exact ih s1 os (GState.getConfig_nodup imm s s1 o hs hg) (h.1 ▸ hr)

inductive GridAux.ExRel {α} (R : α → α → Prop) : Except Err α → Except Err α → Prop
  | error (e : Err) : GridAux.ExRel R (.error e) (.error e)
  | ok (a b : α) : R a b → GridAux.ExRel R (.ok a) (.ok b)

theorem GridAux.exclContains_perm (mk : MK) (l l' : List String) (h : l.Perm l') (c : Config) :
    exclContains mk l c = exclContains mk l' c := by
  unfold exclContains
  cases mk c with
  | error e => rfl
  | ok m => simp [h.mem_iff]

theorem gridLoop_perm (imm : GImm) (combos : List (List Val)) (fuel next : Nat)
    (ini ini' : List String) (h : ini.Perm ini') :
    GridAux.ExRel (fun a b => a.1 = b.1 ∧ a.2.1 = b.2.1 ∧ a.2.2.Perm b.2.2)
      (gridLoop imm combos fuel next ini) (gridLoop imm combos fuel next ini') := by
  induction fuel generalizing next ini ini' with
  | zero => exact .error _
  | succ fuel ih =>
    rw [gridLoop_succ, gridLoop_succ]
    cases combos[next]? with
    | none => exact .ok _ _ ⟨rfl, rfl, h⟩
    | some combo =>
      simp only
      rw [GridAux.exclContains_perm imm.mkf ini ini' h]
      cases exclContains imm.mkf ini' (zipConfig imm.hpKeys combo) with
      | error e => exact .error _
      | ok isInit =>
        simp only
        have hp : (if imm.allowDup ∧ next + 1 = combos.length then [] else ini).Perm
            (if imm.allowDup ∧ next + 1 = combos.length then [] else ini') := by
          split
          · exact .nil
          · exact h
        cases isInit with
        | true => simp only [if_true]; exact ih _ _ _ hp
        | false => exact .ok _ _ ⟨rfl, rfl, hp⟩

theorem GState.getConfig_equiv (imm : GImm) (s t : GState) (he : GState.Equiv s t) :
    GridAux.ExRel (fun a b => GState.Equiv a.1 b.1 ∧ a.2 = b.2) (s.getConfig imm) (t.getConfig imm) := by
  obtain ⟨h1, h2, h3, h4, h5⟩ := he
  unfold GState.getConfig
  rw [← h1, ← h2, ← h3]
  cases s.p2e with
  | cons c rest =>
    simp only
    unfold exclAddConfig
    cases imm.mkf c with
    | error e => exact .error _
    | ok m => exact .ok _ _ ⟨⟨rfl, rfl, rfl, h4, GridAux.exclAdd_perm m _ _ h5⟩, rfl⟩
  | nil =>
    simp only
    have := gridLoop_perm imm s.combos (s.combos.length + 2) s.next s.allInit t.allInit h5
    revert this
    generalize gridLoop imm s.combos (s.combos.length + 2) s.next s.allInit = L
    generalize gridLoop imm s.combos (s.combos.length + 2) s.next t.allInit = R
    intro hr
    cases hr with
    | error e => exact .error _
    | ok a b hab =>
      obtain ⟨c, n, i⟩ := a
      obtain ⟨c', n', i'⟩ := b
      obtain ⟨rfl, rfl, hi⟩ := hab
      exact .ok _ _ ⟨⟨rfl, rfl, rfl, h4, hi⟩, rfl⟩

theorem GState.run_rel (imm : GImm) (s t : GState) (he : GState.Equiv s t) (ops : List GOp) :
    GridAux.ExRel (fun a b => GState.Equiv a.1 b.1 ∧ a.2 = b.2) (GState.run imm s ops) (GState.run imm t ops) := by
  induction ops generalizing s t with
  | nil => exact .ok _ _ ⟨he, rfl⟩
  | cons op ops ih =>
    cases op with
    | other => rw [GState.run_other, GState.run_other]; exact ih s t he
    | get =>
      have hg := GState.getConfig_equiv imm s t he
      cases hs : s.getConfig imm with
      | error e =>
        cases ht : t.getConfig imm with
        | error e' =>
          rw [hs, ht] at hg
          cases hg
          rw [GState.run_get_error imm s ops e hs, GState.run_get_error imm t ops e ht]
          exact .error _
        | ok r => rw [hs, ht] at hg; cases hg
      | ok r =>
        cases ht : t.getConfig imm with
        | error e' => rw [hs, ht] at hg; cases hg
        | ok b =>
        rw [hs, ht] at hg
        cases hg
        rename_i hb
        obtain ⟨s1, o⟩ := r
        obtain ⟨t1, o'⟩ := b
        obtain ⟨he1, rfl⟩ := hb
        rw [GState.run_get_ok imm s s1 o ops hs, GState.run_get_ok imm t t1 o ops ht]
        have := ih s1 t1 he1
        revert this
        generalize GState.run imm s1 ops = L
        generalize GState.run imm t1 ops = R
        intro hr
        cases hr with
        | error e => exact .error _
        | ok a b hab =>
          obtain ⟨a1, a2⟩ := a
          obtain ⟨b1, b2⟩ := b
          obtain ⟨hh, rfl⟩ := hab
          exact .ok _ _ ⟨hh, rfl⟩

/-- equivalent states give equal outputs (and equal errors) for EVERY continuation, and
stay equivalent -/
theorem GState.run_equiv (imm : GImm) (s t : GState) (he : GState.Equiv s t) (ops : List GOp) :
    (∀ e, GState.run imm s ops = .error e ↔ GState.run imm t ops = .error e) ∧
    (∀ s' outs, GState.run imm s ops = .ok (s', outs) →
      ∃ t', GState.run imm t ops = .ok (t', outs) ∧ GState.Equiv s' t') := by
  have := GState.run_rel imm s t he ops
  revert this
  generalize GState.run imm s ops = L
  generalize GState.run imm t ops = R
  intro hr
  cases hr with
  | error e => exact ⟨fun _ => Iff.rfl, fun _ _ h => by cases h⟩
  | ok a b hab =>
    obtain ⟨a1, a2⟩ := a
    obtain ⟨b1, b2⟩ := b
    obtain ⟨hh, rfl⟩ := hab
    refine ⟨fun e => ⟨fun h => (by cases h), fun h => (by cases h)⟩, ?_⟩
    intro s' outs h
    injection h with h; simp only [Prod.mk.injEq] at h
    obtain ⟨rfl, rfl⟩ := h
    exact ⟨b1, rfl, hh⟩

theorem GridAux.eraseDups_of_nodup {α} [BEq α] [LawfulBEq α] (l : List α) (h : l.Nodup) : l.eraseDups = l := by
  induction l with
  | nil => simp
  | cons a l ih =>
    rw [List.nodup_cons] at h
    rw [List.eraseDups_cons]
    have : l.filter (fun b => !b == a) = l := by
      rw [List.filter_eq_self]
      intro b hb
      simp only [Bool.not_eq_eq_eq_not, Bool.not_true, beq_eq_false_iff_ne, ne_eq]
      intro hba; exact h.1 (hba ▸ hb)
    rw [this, ih h.2]

/-- `clone_from_state(get_state())` (fixed code): whatever grid the freshly constructed
object built for itself and whatever order the set of initial configurations is listed in,
the clone is equivalent to the original -/
theorem GState.clone_equiv (s fresh : GState) (keys order : List String)
    (hn : s.allInit.Nodup) (hp : order.Perm s.allInit) :
    GState.Equiv s (GState.clone fresh (s.getState keys order)) := by
  have hon : order.Nodup := hp.nodup_iff.2 hn
  refine ⟨rfl, rfl, rfl, rfl, ?_⟩
  simp only [GState.clone, GState.getState]
  rw [GridAux.eraseDups_of_nodup order hon]
  exact hp.symm

end SyneTune.Srch
