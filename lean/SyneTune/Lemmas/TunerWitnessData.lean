import SyneTune.Model.Tuner
/-
Concrete runs of the tuning-loop machine: the witnesses of the `_counterexample` theorems of
C01 / C20 (loop side).  Data only (read by the driver `Drivers/Loop.lean`, op `witness`, so that
the check can replay exactly these answers on the real `Tuner`); the statements about them are in
`Props/C01.lean`, `Props/C20Loop.lean`.

An answer list has one entry per step of the machine; at silent control points the entry is
ignored (`τ`).  Every witness is split into the prefix that reaches the state the theorem
talks about, and the rest of the run up to `run()` returning.
-/
namespace SyneTune.Tuner.Witness
open SyneTune SyneTune.Tuner

/-- placeholder answer at a silent control point -/
abbrev τ : Ans := .ret

/-- a result dict `{metric: v, st_worker_timestamp: r}` (keys 3 and 4 on the wire) -/
def m (v r : Nat) : Metrics := [(3, .num (.fin (v : Rat))), (4, .num (.fin (r : Rat)))]

/-! ### F15: the rebinding of `running_trials_ids` in `_schedule_new_tasks` -/

def f15Cfg : Cfg := { nWorkers := 2, maxFailures := 1, swd := false, crit := { maxStarted := some 10 } }

/-- two trials are started; in the second iteration the backend's busy list `[1]` is shorter than
the running set `{0, 1}` (the worker of trial 0 finished between the poll and the question), the
local name is rebound to `{1}`, trial 2 is started and added to THAT set; the third iteration
is about to poll `{0, 1}` -/
def f15Prefix : List Ans :=
  [.ret, τ, τ, .ret, .poll [] [], .ret, τ, τ, τ, τ, .ids [], τ, .sugg (.start 0 none), .ret, .ret, .ret,
   τ, .sugg (.start 1 none), .ret, .ret, .ret, τ, .ret,
   τ, τ, .ret, .poll [(0, .inProgress), (1, .inProgress)] [⟨0, 0, m 1 1⟩], .ret, τ, .decision .continue none, .ret,
   τ, τ, τ, τ, τ, τ,
   .ids [1], τ, .sugg (.start 2 none), .ret, .ret, .ret, τ, .ret, τ, τ, .ret]

/-- trials 0 and 1 complete, the scheduler has nothing more to suggest, the loop ends with trial 2
still running in the backend; `stop_all` stops it -/
def f15Rest : List Ans :=
  [.poll [(0, .completed), (1, .completed)] [⟨1, 1, m 2 2⟩], .ret, τ, .decision .continue none, .ret, τ,
   τ, .ret, .ret, τ, .ret, .ret, τ, τ, τ, .ids [2], τ, .sugg .none, .ret, τ, τ, .ret, .poll [] [], .ret, τ, τ, τ,
   .ret, .ids [0, 1, 2], τ, .status .completed, τ, .status .completed, τ, .status .inProgress, .ret, τ, τ, τ]

/-! ### the end of a run is notified twice -/

def clashCfg : Cfg := { nWorkers := 1, maxFailures := 1, crit := { maxStarted := some 10 } }

/-- the poll reports trial 0 as failed together with a result on which the scheduler decides STOP:
`on_trial_remove(0)` (first loop), then `on_trial_error(0)` (second loop) -/
def clashPrefix : List Ans :=
  [.ret, τ, τ, .ret, .poll [] [], .ret, τ, τ, τ, τ, τ, .sugg (.start 0 none), .ret, .ret, .ret, τ, .ret,
   τ, τ, .ret, .poll [(0, .failed)] [⟨0, 0, m 1 1⟩], .ret, τ, .decision .stop none, .ret, .ret, .ret, τ, τ]

def clashRest : List Ans :=
  [.ret, τ, τ, τ, τ, .sugg .none, .ret, τ, τ, .ret, .poll [] [], .ret, τ, τ, τ, .ret, .ids [0], τ, .status .failed, τ, τ, τ]

/-! ### F5: warm start from a checkpoint that has been deleted -/

def pbtCfg : Cfg := { nWorkers := 2, maxFailures := 1, deleteCkpt := true, crit := { maxStarted := some 10 } }

/-- one poll delivers a result of trial 1 (decision STOP; a PBT scheduler queues "clone trial 0")
and a result of trial 0 (decision STOP, e.g. `max_t` reached): both checkpoints are deleted by
`stop_trial`, then the next suggestion starts trial 2 from the checkpoint of trial 0 -/
def pbtPrefix : List Ans :=
  [.ret, τ, τ, .ret, .poll [] [], .ret, τ, τ, τ, τ, τ, .sugg (.start 0 none), .ret, .ret, .ret,
   τ, .sugg (.start 1 none), .ret, .ret, .ret, τ, .ret,
   τ, τ, .ret, .poll [(0, .inProgress), (1, .inProgress)] [⟨1, 0, m 5 1⟩, ⟨0, 1, m 1 2⟩], .ret, τ,
   .decision .stop none, .ret, .ret, .ret, .ret, τ, .decision .stop none, .ret, .ret, .ret, .ret, τ, τ, τ, τ, τ, τ, τ,
   .sugg (.start 2 (some 0)), .ret]

def pbtRest : List Ans :=
  [.ret, .ret, .ret, τ, .sugg .none, .ret, τ, τ, .ret, .poll [(2, .completed)] [⟨2, 2, m 3 3⟩], .ret, τ,
   .decision .continue none, .ret, τ, τ, .ret, .ret, τ, τ,
   .ret, .ids [0, 1, 2], τ, .status .stopped, τ, .status .stopped, τ, .status .completed, τ, τ, τ, .ret, τ, .ret, τ, .ret, τ, τ]

/-- the witnesses by name (driver op `witness`) -/
def byName : String → Option (Cfg × List Ans)
  | "f15" => some (f15Cfg, f15Prefix ++ f15Rest)
  | "clash" => some (clashCfg, clashPrefix ++ clashRest)
  | "pbt" => some (pbtCfg, pbtPrefix ++ pbtRest)
  | _ => none

end SyneTune.Tuner.Witness
