import SyneTune.Lemmas.TunerStruct
/-
Invariant relating what the scheduler has been told about a trial (`kst`), the status the
loop records for it (`status.last`), the backend status as far as commands and polls tell
(`bst`), the running set and `trials_scheduler_stopped` — under the contracts
`B` (backend) and `K` (scheduler).  Behind C01 `lifecycle`, `resume_only_paused`, `notify`.
-/
namespace SyneTune.Tuner
open SyneTune AL

/-- **contract K** (scheduler): `resume(id)` is only suggested for a trial whose run the
scheduler itself ended with PAUSE and which has not been resumed or reported failed since. -/
def KOk (s : LState) (a : Ans) : Prop :=
  s.pc = .suggest → ∀ id cfg, a = .sugg (.resume id cfg) → alookup id s.kst = some .paused

/-- the trial is in `done_trials` of the iteration under way -/
def InDone (s : LState) (t : Nat) : Prop := updPc s.pc = true ∧ t ∈ keys s.done

/-- a status that a running trial may have in the loop's records -/
def Active (o : Option St) : Prop := o = some .inProgress ∨ o = some .stopping

/-- running trials are known to the scheduler as live (unless their end has just been told) -/
structure KLive (s : LState) : Prop where
  live : ∀ t ∈ s.running, InDone s t ∨ alookup t s.kst = some .live ∨ (s.pc = .completeCb ∧ t = s.t)
  stp : ∀ t ∈ s.running, t ∈ s.schedStopped → InDone s t
  pausedRun : ∀ t, alookup t s.kst = some .paused → t ∉ s.running ∨ InDone s t

/-- recorded statuses -/
structure KLast (s : LState) : Prop where
  act : ∀ t ∈ s.running, Active (alookup t s.status.last)
  boundL : ∀ t ∈ keys s.status.last, t < s.nStarted
  pausedSt : ∀ t, alookup t s.kst = some .paused →
      ((updPc s.pc = true ∧ alookup t s.done = some .paused) ∨ (¬ InDone s t ∧ alookup t s.status.last = some .paused))

structure KDead (s : LState) : Prop where
  dead : ∀ t ∈ s.schedStopped, alookup t s.kst = some .dead
  boundK : ∀ t ∈ keys s.kst, t < s.nStarted

structure KBst (s : LState) : Prop where
  pausedBst : ∀ t, alookup t s.kst = some .paused → alookup t s.bst = some .paused
  regPause : s.pc = .removeP → alookup s.cur.tid s.bst = some .paused

structure KReg (s : LState) : Prop where
  regStart : (s.pc = .startCmd ∨ s.pc = .copyCmd) → s.sId = s.nStarted
  regAdd : (s.pc = .addS ∨ s.pc = .startCb) → s.sId + 1 = s.nStarted ∧ s.sId ∉ keys s.status.last
  regAddK : s.pc = .addS → s.sId ∉ keys s.kst
  regStartCb : s.pc = .startCb → alookup s.sId s.kst = some .live
  regResume : s.pc = .resumeCmd → alookup s.sId s.kst = some .paused
  regResumeCb : s.pc = .resumeCb → alookup s.sId s.status.last = some .paused ∧ alookup s.sId s.kst = some .live
  regCcb : s.pc = .completeCb → alookup s.t s.kst ≠ some .paused

structure KBody (s : LState) : Prop where
  lv : KLive s
  ls : KLast s
  dd : KDead s
  bs : KBst s
  rg : KReg s

/-- the invariant is about the loop; nothing is claimed inside the `finally` block -/
def KInv (s : LState) : Prop := finPc s.pc = false → KBody s

/-- control points with a register clause -/
def regPc : Pc → Bool
  | .startCmd | .copyCmd | .addS | .startCb | .resumeCmd | .resumeCb | .completeCb => true
  | _ => false

theorem inDone_congr {s s' : LState} (hu : updPc s'.pc = updPc s.pc) (hd : s'.done = s.done) (t : Nat) :
    InDone s' t ↔ InDone s t := by unfold InDone; rw [hu, hd]

theorem KLive.move {s s' : LState} (h : KLive s) (hr : s'.running = s.running) (hk : s'.kst = s.kst)
    (hss : s'.schedStopped = s.schedStopped) (hd : s'.done = s.done) (hu : updPc s'.pc = updPc s.pc)
    (hcc : s.pc = .completeCb → s'.pc = .completeCb ∧ s'.t = s.t) : KLive s' := by
  have hin := inDone_congr hu hd
  refine ⟨?_, ?_, ?_⟩
  · intro t ht; rw [hr] at ht
    rcases h.live t ht with h1 | h1 | h1
    · exact Or.inl ((hin t).mpr h1)
    · exact Or.inr (Or.inl (by rw [hk]; exact h1))
    · exact Or.inr (Or.inr ⟨(hcc h1.1).1, by rw [(hcc h1.1).2]; exact h1.2⟩)
  · intro t ht hs; rw [hr] at ht; rw [hss] at hs; exact (hin t).mpr (h.stp t ht hs)
  · intro t ht; rw [hk] at ht
    rcases h.pausedRun t ht with h1 | h1
    · exact Or.inl (by rw [hr]; exact h1)
    · exact Or.inr ((hin t).mpr h1)

theorem KLast.move {s s' : LState} (h : KLast s) (hr : s'.running = s.running) (hk : s'.kst = s.kst)
    (hl : s'.status.last = s.status.last) (hd : s'.done = s.done) (hn : s'.nStarted = s.nStarted)
    (hu : updPc s'.pc = updPc s.pc) : KLast s' := by
  have hin := inDone_congr hu hd
  refine ⟨?_, ?_, ?_⟩
  · intro t ht; rw [hr] at ht; rw [hl]; exact h.act t ht
  · intro t ht; rw [hl] at ht; rw [hn]; exact h.boundL t ht
  · intro t ht; rw [hk] at ht
    rcases h.pausedSt t ht with h1 | h1
    · exact Or.inl (by rw [hu, hd]; exact h1)
    · exact Or.inr ⟨fun hc => h1.1 ((hin t).mp hc), by rw [hl]; exact h1.2⟩

theorem KDead.move {s s' : LState} (h : KDead s) (hk : s'.kst = s.kst) (hss : s'.schedStopped = s.schedStopped)
    (hn : s'.nStarted = s.nStarted) : KDead s' :=
  ⟨fun t ht => by rw [hss] at ht; rw [hk]; exact h.dead t ht,
   fun t ht => by rw [hk] at ht; rw [hn]; exact h.boundK t ht⟩

theorem KBst.move {s s' : LState} (h : KBst s) (hk : s'.kst = s.kst) (hb : s'.bst = s.bst)
    (hp : s'.pc = .removeP → s.pc = .removeP ∧ s'.cur.tid = s.cur.tid) : KBst s' :=
  ⟨fun t ht => by rw [hk] at ht; rw [hb]; exact h.pausedBst t ht,
   fun hc => by rw [(hp hc).2, hb]; exact h.regPause (hp hc).1⟩

theorem KReg.out {s' : LState} (hp : regPc s'.pc = false) : KReg s' := by
  have hne : ∀ {p : Pc}, regPc p = true → s'.pc ≠ p := by
    intro p hp' hc; rw [hc, hp'] at hp; cases hp
  refine ⟨?_, ?_, ?_, ?_, ?_, ?_, ?_⟩
  · rintro (hc | hc) <;> exact absurd hc (hne rfl)
  · rintro (hc | hc) <;> exact absurd hc (hne rfl)
  · intro hc; exact absurd hc (hne rfl)
  · intro hc; exact absurd hc (hne rfl)
  · intro hc; exact absurd hc (hne rfl)
  · intro hc; exact absurd hc (hne rfl)
  · intro hc; exact absurd hc (hne rfl)

/-- a step that leaves all the fields of the invariant alone, stays in (or out of) the
result-processing phase and does not reach a control point with a register clause -/
theorem KBody.move {s s' : LState} (h : KBody s) (hr : s'.running = s.running) (hk : s'.kst = s.kst)
    (hl : s'.status.last = s.status.last) (hss : s'.schedStopped = s.schedStopped) (hd : s'.done = s.done)
    (hb : s'.bst = s.bst) (hn : s'.nStarted = s.nStarted)
    (hu : updPc s'.pc = updPc s.pc) (hreg : regPc s'.pc = false) (hcc : s.pc ≠ .completeCb)
    (hrp : s'.pc ≠ .removeP) : KBody s' :=
  ⟨h.lv.move hr hk hss hd hu (fun hc => absurd hc hcc), h.ls.move hr hk hl hd hn hu, h.dd.move hk hss hn,
   h.bs.move hk hb (fun hc => absurd hc hrp), KReg.out hreg⟩


theorem aset_eq_self {β} (k : Nat) (v : β) (l : List (Nat × β)) (h : alookup k l = some v) : aset k v l = l := by
  induction l with
  | nil => simp [alookup] at h
  | cons x xs ih =>
    obtain ⟨k', v'⟩ := x
    by_cases hk : k = k'
    · simp only [alookup, hk, if_true, Option.some.injEq] at h
      simp [aset, hk, h]
    · simp only [alookup, hk, if_false] at h
      simp [aset, hk, ih h]

/-- facts about the trial of the result being handled -/
theorem cur_facts {s : LState} (hS : SInv s) (h : KBody s) (hp : curResPc s.pc = true) :
    s.cur.tid ∈ s.running ∧ s.cur.tid ∉ keys s.done ∧ alookup s.cur.tid s.kst = some .live ∧
    s.cur.tid ∉ s.schedStopped ∧ s.cur.tid < s.nStarted := by
  have hu := curRes_upd _ hp
  obtain ⟨hsd, hnd⟩ := hS.cur hp
  obtain ⟨kv, hkv, hk⟩ := List.mem_map.mp hsd
  have hrun : s.cur.tid ∈ s.running := by rw [← hk]; exact (hS.sdRun hu kv hkv).1
  have hnotcc : s.pc ≠ .completeCb := by intro hc; rw [hc] at hp; cases hp
  have hlive : alookup s.cur.tid s.kst = some .live := by
    rcases h.lv.live _ hrun with h1 | h1 | h1
    · exact absurd h1.2 hnd
    · exact h1
    · exact absurd h1.1 hnotcc
  refine ⟨hrun, hnd, hlive, ?_, ?_⟩
  · intro hc; exact hnd (h.lv.stp _ hrun hc).2
  · apply h.ls.boundL
    rcases h.ls.act _ hrun with h1 | h1 <;> exact (hasKey_iff_mem_keys _ _).mp (by unfold hasKey; rw [h1]; rfl)

/-- facts about the trial of the item being handled -/
theorem item_facts {s : LState} (hS : SInv s) (h : KBody s) (hp : curItemPc s.pc = true) :
    s.t ∈ s.running ∧ s.t < s.nStarted ∧ s.t ∈ keys s.sd := by
  have hu := curItem_upd _ hp
  obtain ⟨pre, st, hsd, _, _⟩ := hS.item hp
  have hmem : (s.t, st) ∈ s.sd := by rw [hsd]; simp
  have hrun := (hS.sdRun hu _ hmem).1
  refine ⟨hrun, ?_, List.mem_map.mpr ⟨_, hmem, rfl⟩⟩
  apply h.ls.boundL
  rcases h.ls.act _ hrun with h1 | h1 <;> exact (hasKey_iff_mem_keys _ _).mp (by unfold hasKey; rw [h1]; rfl)

/-! ### the poll -/

theorem KBody.polled {s s' : LState} (h : KBody s) (hp : s.pc = .fetch) (sd : List (Nat × St))
    (hB : ∀ kv ∈ sd, kv.1 ∈ s.running) (hp' : s'.pc = .cbFetch)
    (hr : s'.running = s.running) (hk : s'.kst = s.kst) (hl : s'.status.last = s.status.last)
    (hss : s'.schedStopped = s.schedStopped) (hd : s'.done = []) (hb : s'.bst = aupdate s.bst sd)
    (hn : s'.nStarted = s.nStarted) : KBody s' := by
  have hnu : updPc s.pc = false := by rw [hp]; rfl
  have hnin : ∀ t, ¬ InDone s t := fun t hc => by rw [hc.1] at hnu; cases hnu
  have hnin' : ∀ t, ¬ InDone s' t := fun t hc => by have := hc.2; rw [hd] at this; simp [keys] at this
  refine ⟨⟨?_, ?_, ?_⟩, ⟨?_, ?_, ?_⟩, h.dd.move hk hss hn, ⟨?_, ?_⟩, KReg.out (by rw [hp']; rfl)⟩
  · intro t ht; rw [hr] at ht
    rcases h.lv.live t ht with h1 | h1 | h1
    · exact absurd h1 (hnin t)
    · exact Or.inr (Or.inl (by rw [hk]; exact h1))
    · rw [hp] at h1; exact nomatch h1.1
  · intro t ht hs; rw [hr] at ht; rw [hss] at hs; exact absurd (h.lv.stp t ht hs) (hnin t)
  · intro t ht; rw [hk] at ht
    rcases h.lv.pausedRun t ht with h1 | h1
    · exact Or.inl (by rw [hr]; exact h1)
    · exact absurd h1 (hnin t)
  · intro t ht; rw [hr] at ht; rw [hl]; exact h.ls.act t ht
  · intro t ht; rw [hl] at ht; rw [hn]; exact h.ls.boundL t ht
  · intro t ht; rw [hk] at ht
    rcases h.ls.pausedSt t ht with h1 | h1
    · rw [h1.1] at hnu; cases hnu
    · exact Or.inr ⟨hnin' t, by rw [hl]; exact h1.2⟩
  · intro t ht; rw [hk] at ht
    have hnr : t ∉ s.running := by
      rcases h.lv.pausedRun t ht with h1 | h1
      · exact h1
      · exact absurd h1 (hnin t)
    rw [hb, alookup_aupdate_of_not_mem]
    · exact h.bs.pausedBst t ht
    · intro hc
      obtain ⟨kv, hkv, hk'⟩ := List.mem_map.mp hc
      exact hnr (by rw [← hk']; exact hB kv hkv)
  · intro hc; rw [hp'] at hc; cases hc

/-! ### the first loop -/

theorem KBody.stopped {s : LState} (h : KBody s) (hS : SInv s) (hp : s.pc = .stopCmd) (pc' : Pc)
    (hpc : pc' = .stopDel ∨ pc' = .removeS) :
    KBody { s with curSt := .stopped, bst := aset s.cur.tid .stopped s.bst, pc := pc' } := by
  have hcr : curResPc s.pc = true := by rw [hp]; rfl
  obtain ⟨_, _, hlive, _, _⟩ := cur_facts hS h hcr
  have hu : updPc pc' = updPc s.pc := by rw [hp]; rcases hpc with rfl | rfl <;> rfl
  refine ⟨h.lv.move rfl rfl rfl rfl hu (fun hc => by rw [hp] at hc; cases hc), h.ls.move rfl rfl rfl rfl rfl hu,
    h.dd.move rfl rfl rfl, ⟨?_, ?_⟩, KReg.out (by rcases hpc with rfl | rfl <;> rfl)⟩
  · intro t ht
    have hne : t ≠ s.cur.tid := by intro hc; rw [hc, hlive] at ht; cases ht
    show alookup t (aset s.cur.tid St.stopped s.bst) = some St.paused
    rw [alookup_aset_ne _ _ _ _ hne]; exact h.bs.pausedBst t ht
  · intro hc; rcases hpc with rfl | rfl <;> cases hc

theorem KBody.pauseSent {s : LState} (h : KBody s) (hp : s.pc = .pauseCmd) :
    KBody { s with pc := .removeP, bst := aset s.cur.tid .paused s.bst } := by
  have hu : updPc Pc.removeP = updPc s.pc := by rw [hp]; rfl
  refine ⟨h.lv.move rfl rfl rfl rfl hu (fun hc => by rw [hp] at hc; cases hc), h.ls.move rfl rfl rfl rfl rfl hu,
    h.dd.move rfl rfl rfl, ⟨?_, ?_⟩, KReg.out rfl⟩
  · intro t ht
    show alookup t (aset s.cur.tid St.paused s.bst) = some St.paused
    rw [alookup_aset]
    split
    · rfl
    · exact h.bs.pausedBst t ht
  · intro _; exact alookup_aset_self _ _ _

/-- the trial `c` (running, not yet done) enters `done_trials`; the scheduler has been told
about the end of its run: it is `dead` (stopped / completed / failed) or `paused` -/
theorem KBody.ended {s s' : LState} (h : KBody s) (c : Nat) (v : St) (kv : KSt)
    (hu : updPc s.pc = true) (hu' : updPc s'.pc = true) (hnd : kv = .paused → c ∉ s.schedStopped)
    (hlt : c < s.nStarted) (hncc0 : s.pc ≠ .completeCb)
    (hr : s'.running = s.running) (hl : s'.status.last = s.status.last) (hn : s'.nStarted = s.nStarted)
    (hd : s'.done = aset c v s.done) (hk : s'.kst = aset c kv s.kst) (hb : s'.bst = s.bst)
    (hss : s'.schedStopped = s.schedStopped ∨ (kv = .dead ∧ s'.schedStopped = sadd c s.schedStopped))
    (hkv : kv = .dead ∨ (kv = .paused ∧ v = .paused ∧ alookup c s.bst = some .paused))
    (hreg : regPc s'.pc = false) (hrp : s'.pc ≠ .removeP) : KBody s' := by
  have hin : ∀ t, InDone s t → InDone s' t := by
    intro t ht; exact ⟨hu', by rw [hd]; exact (mem_keys_aset _ _ _ _).mpr (Or.inr ht.2)⟩
  have hinc : InDone s' c := ⟨hu', by rw [hd]; exact (mem_keys_aset _ _ _ _).mpr (Or.inl rfl)⟩
  have hin' : ∀ t, t ≠ c → InDone s' t → InDone s t := by
    intro t hne ht
    refine ⟨hu, ?_⟩
    have := ht.2; rw [hd] at this
    rcases (mem_keys_aset _ _ _ _).mp this with h1 | h1
    · exact absurd h1 hne
    · exact h1
  have hkne : ∀ t, t ≠ c → alookup t s'.kst = alookup t s.kst := by
    intro t hne; rw [hk, alookup_aset_ne _ _ _ _ hne]
  have hkc : alookup c s'.kst = some kv := by rw [hk]; exact alookup_aset_self _ _ _
  have hmemss : ∀ t, t ∈ s'.schedStopped → (t = c ∧ kv = .dead) ∨ t ∈ s.schedStopped := by
    intro t ht
    rcases hss with h1 | ⟨h1, h2⟩
    · rw [h1] at ht; exact Or.inr ht
    · rw [h2] at ht
      rcases (mem_sadd _ _ _).mp ht with h3 | h3
      · exact Or.inl ⟨h3, h1⟩
      · exact Or.inr h3
  refine ⟨⟨?_, ?_, ?_⟩, ⟨?_, ?_, ?_⟩, ⟨?_, ?_⟩, ⟨?_, fun hc => absurd hc hrp⟩, KReg.out hreg⟩
  · intro t ht; rw [hr] at ht
    by_cases hc : t = c
    · subst hc; exact Or.inl hinc
    · rcases h.lv.live t ht with h1 | h1 | h1
      · exact Or.inl (hin t h1)
      · exact Or.inr (Or.inl (by rw [hkne t hc]; exact h1))
      · exact absurd h1.1 hncc0
  · intro t ht hs; rw [hr] at ht
    by_cases hc : t = c
    · subst hc; exact hinc
    · rcases hmemss t hs with h1 | h1
      · exact absurd h1.1 hc
      · exact hin t (h.lv.stp t ht h1)
  · intro t ht
    by_cases hc : t = c
    · subst hc; exact Or.inr hinc
    · rw [hkne t hc] at ht
      rcases h.lv.pausedRun t ht with h1 | h1
      · exact Or.inl (by rw [hr]; exact h1)
      · exact Or.inr (hin t h1)
  · intro t ht; rw [hr] at ht; rw [hl]; exact h.ls.act t ht
  · intro t ht; rw [hl] at ht; rw [hn]; exact h.ls.boundL t ht
  · intro t ht
    by_cases hc : t = c
    · subst hc
      rw [hkc] at ht
      rcases hkv with h1 | ⟨_, h2, _⟩
      · rw [h1] at ht; cases ht
      · exact Or.inl ⟨hu', by rw [hd, h2]; exact alookup_aset_self _ _ _⟩
    · rw [hkne t hc] at ht
      rcases h.ls.pausedSt t ht with h1 | h1
      · exact Or.inl ⟨hu', by rw [hd, alookup_aset_ne _ _ _ _ hc]; exact h1.2⟩
      · exact Or.inr ⟨fun hcc => h1.1 (hin' t hc hcc), by rw [hl]; exact h1.2⟩
  · intro t ht
    rcases hmemss t ht with h1 | h1
    · rw [h1.1, hkc, h1.2]
    · by_cases hc : t = c
      · rw [hc, hkc]
        rcases hkv with h2 | ⟨h2, _, _⟩
        · rw [h2]
        · exact absurd (hc ▸ h1) (hnd h2)
      · rw [hkne t hc]; exact h.dd.dead t h1
  · intro t ht; rw [hk] at ht
    rcases (mem_keys_aset _ _ _ _).mp ht with h1 | h1
    · rw [h1, hn]; exact hlt
    · rw [hn]; exact h.dd.boundK t h1
  · intro t ht
    by_cases hc : t = c
    · subst hc
      rw [hkc] at ht
      rcases hkv with h1 | ⟨_, _, h3⟩
      · rw [h1] at ht; cases ht
      · rw [hb]; exact h3
    · rw [hkne t hc] at ht; rw [hb]; exact h.bs.pausedBst t ht


/-! ### the second loop -/

/-- `on_trial_complete` returned; the user callbacks are next -/
theorem KBody.toCcb {s s' : LState} (h : KBody s) (hS : SInv s) (hp : s.pc = .completeS) (hp' : s'.pc = .completeCb)
    (ht : s'.t = s.t) (hr : s'.running = s.running) (hl : s'.status.last = s.status.last)
    (hn : s'.nStarted = s.nStarted) (hd : s'.done = s.done) (hk : s'.kst = aset s.t .dead s.kst)
    (hb : s'.bst = s.bst) (hss : s'.schedStopped = s.schedStopped) : KBody s' := by
  have hci : curItemPc s.pc = true := by rw [hp]; rfl
  obtain ⟨hrun, hlt, _⟩ := item_facts hS h hci
  have hu : updPc s'.pc = updPc s.pc := by rw [hp, hp']; rfl
  have hin := inDone_congr hu hd
  have hkne : ∀ t, t ≠ s.t → alookup t s'.kst = alookup t s.kst := by
    intro t hne; rw [hk, alookup_aset_ne _ _ _ _ hne]
  have hkc : alookup s.t s'.kst = some .dead := by rw [hk]; exact alookup_aset_self _ _ _
  have hnp : ∀ t, alookup t s'.kst = some .paused → t ≠ s.t ∧ alookup t s.kst = some .paused := by
    intro t hpz
    have hne : t ≠ s.t := by intro hc; rw [hc, hkc] at hpz; cases hpz
    exact ⟨hne, by rw [← hkne t hne]; exact hpz⟩
  refine ⟨⟨?_, ?_, ?_⟩, ⟨?_, ?_, ?_⟩, ⟨?_, ?_⟩, ⟨?_, fun hc => by rw [hp'] at hc; cases hc⟩, ?_⟩
  · intro t htr; rw [hr] at htr
    by_cases hc : t = s.t
    · exact Or.inr (Or.inr ⟨hp', by rw [ht]; exact hc⟩)
    · rcases h.lv.live t htr with h1 | h1 | h1
      · exact Or.inl ((hin t).mpr h1)
      · exact Or.inr (Or.inl (by rw [hkne t hc]; exact h1))
      · rw [hp] at h1; exact nomatch h1.1
  · intro t htr hs; rw [hr] at htr; rw [hss] at hs; exact (hin t).mpr (h.lv.stp t htr hs)
  · intro t hpz
    rcases h.lv.pausedRun t (hnp t hpz).2 with h1 | h1
    · exact Or.inl (by rw [hr]; exact h1)
    · exact Or.inr ((hin t).mpr h1)
  · intro t htr; rw [hr] at htr; rw [hl]; exact h.ls.act t htr
  · intro t htl; rw [hl] at htl; rw [hn]; exact h.ls.boundL t htl
  · intro t hpz
    rcases h.ls.pausedSt t (hnp t hpz).2 with h1 | h1
    · exact Or.inl (by rw [hu, hd]; exact h1)
    · exact Or.inr ⟨fun hc => h1.1 ((hin t).mp hc), by rw [hl]; exact h1.2⟩
  · intro t hts; rw [hss] at hts
    by_cases hc : t = s.t
    · rw [hc, hkc]
    · rw [hkne t hc]; exact h.dd.dead t hts
  · intro t htk; rw [hk] at htk
    rcases (mem_keys_aset _ _ _ _).mp htk with h1 | h1
    · rw [h1, hn]; exact hlt
    · rw [hn]; exact h.dd.boundK t h1
  · intro t hpz; rw [hb]; exact h.bs.pausedBst t (hnp t hpz).2
  · have hne : ∀ {p : Pc}, p ≠ .completeCb → s'.pc ≠ p := fun hpp hc => hpp (by rw [← hc, hp'])
    refine ⟨?_, ?_, ?_, ?_, ?_, ?_, ?_⟩
    · rintro (hc | hc) <;> exact absurd hc (hne (by decide))
    · rintro (hc | hc) <;> exact absurd hc (hne (by decide))
    · intro hc; exact absurd hc (hne (by decide))
    · intro hc; exact absurd hc (hne (by decide))
    · intro hc; exact absurd hc (hne (by decide))
    · intro hc; exact absurd hc (hne (by decide))
    · intro _; rw [ht, hkc]; exact fun hc => nomatch hc

/-- the callbacks' `on_trial_complete` returned: the item is recorded in `done_trials` -/
theorem KBody.ccbDone {s s' : LState} (h : KBody s) (hp : s.pc = .completeCb) (hp' : s'.pc = .second)
    (v : St) (hr : s'.running = s.running) (hl : s'.status.last = s.status.last)
    (hn : s'.nStarted = s.nStarted) (hd : s'.done = aset s.t v s.done) (hk : s'.kst = s.kst)
    (hb : s'.bst = s.bst) (hss : s'.schedStopped = s.schedStopped) : KBody s' := by
  have hu : updPc s.pc = true := by rw [hp]; rfl
  have hu' : updPc s'.pc = true := by rw [hp']; rfl
  have hnpz := h.rg.regCcb hp
  have hin : ∀ t, InDone s t → InDone s' t := by
    intro t ht; exact ⟨hu', by rw [hd]; exact (mem_keys_aset _ _ _ _).mpr (Or.inr ht.2)⟩
  have hinc : InDone s' s.t := ⟨hu', by rw [hd]; exact (mem_keys_aset _ _ _ _).mpr (Or.inl rfl)⟩
  have hin' : ∀ t, t ≠ s.t → InDone s' t → InDone s t := by
    intro t hne ht
    refine ⟨hu, ?_⟩
    have := ht.2; rw [hd] at this
    rcases (mem_keys_aset _ _ _ _).mp this with h1 | h1
    · exact absurd h1 hne
    · exact h1
  refine ⟨⟨?_, ?_, ?_⟩, ⟨?_, ?_, ?_⟩, h.dd.move hk hss hn,
    h.bs.move hk hb (fun hc => by rw [hp'] at hc; cases hc), KReg.out (by rw [hp']; rfl)⟩
  · intro t ht; rw [hr] at ht
    rcases h.lv.live t ht with h1 | h1 | h1
    · exact Or.inl (hin t h1)
    · exact Or.inr (Or.inl (by rw [hk]; exact h1))
    · rw [h1.2]; exact Or.inl hinc
  · intro t ht hs; rw [hr] at ht; rw [hss] at hs; exact hin t (h.lv.stp t ht hs)
  · intro t hpz; rw [hk] at hpz
    rcases h.lv.pausedRun t hpz with h1 | h1
    · exact Or.inl (by rw [hr]; exact h1)
    · exact Or.inr (hin t h1)
  · intro t ht; rw [hr] at ht; rw [hl]; exact h.ls.act t ht
  · intro t ht; rw [hl] at ht; rw [hn]; exact h.ls.boundL t ht
  · intro t hpz; rw [hk] at hpz
    have hne : t ≠ s.t := by intro hc; rw [hc] at hpz; exact hnpz hpz
    rcases h.ls.pausedSt t hpz with h1 | h1
    · exact Or.inl ⟨hu', by rw [hd, alookup_aset_ne _ _ _ _ hne]; exact h1.2⟩
    · exact Or.inr ⟨fun hcc => h1.1 (hin' t hne hcc), by rw [hl]; exact h1.2⟩

/-- an item whose trial is already done with status `completed`: straight to the callbacks -/
theorem KBody.directCcb {s s' : LState} (h : KBody s) (hp : s.pc = .second) (hp' : s'.pc = .completeCb)
    (hkd : s'.t ∈ keys s.done) (hnp : alookup s'.t s.done ≠ some .paused)
    (hr : s'.running = s.running) (hl : s'.status.last = s.status.last)
    (hn : s'.nStarted = s.nStarted) (hd : s'.done = s.done) (hk : s'.kst = s.kst)
    (hb : s'.bst = s.bst) (hss : s'.schedStopped = s.schedStopped) : KBody s' := by
  have hu : updPc s'.pc = updPc s.pc := by rw [hp, hp']; rfl
  refine ⟨h.lv.move hr hk hss hd hu (fun hc => by rw [hp] at hc; cases hc), h.ls.move hr hk hl hd hn hu,
    h.dd.move hk hss hn, h.bs.move hk hb (fun hc => by rw [hp'] at hc; cases hc), ?_⟩
  have hne : ∀ {p : Pc}, p ≠ .completeCb → s'.pc ≠ p := fun hpp hc => hpp (by rw [← hc, hp'])
  refine ⟨?_, ?_, ?_, ?_, ?_, ?_, ?_⟩
  · rintro (hc | hc) <;> exact absurd hc (hne (by decide))
  · rintro (hc | hc) <;> exact absurd hc (hne (by decide))
  · intro hc; exact absurd hc (hne (by decide))
  · intro hc; exact absurd hc (hne (by decide))
  · intro hc; exact absurd hc (hne (by decide))
  · intro hc; exact absurd hc (hne (by decide))
  · intro _ hpz; rw [hk] at hpz
    have hus : updPc s.pc = true := by rw [hp]; rfl
    rcases h.ls.pausedSt _ hpz with h1 | h1
    · exact hnp h1.2
    · exact h1.1 ⟨hus, hkd⟩


/-! ### the end of `_process_new_results` -/

theorem active_of_processed {s : LState} (hS : SInv s) (h : KBody s) (hp : s.pc = .afterUpd) (t : Nat) (st : St)
    (hm : (t, st) ∈ s.sd) (hnd : t ∉ keys s.done) : st = .inProgress ∨ st = .stopping := by
  have hu : updPc s.pc = true := by rw [hp]; rfl
  obtain ⟨pre, hsd, hpre⟩ := hS.p2 (Or.inr hp)
  rw [hS.p2end hp, List.append_nil] at hsd
  have hm' : (t, st) ∈ pre := by rw [← hsd]; exact hm
  obtain ⟨h1, h2, h3⟩ := hpre _ hm'
  have hrun := (hS.sdRun hu _ hm).1
  have hnp := (hS.sdRun hu _ hm).2
  cases st with
  | inProgress => exact Or.inl rfl
  | stopping => exact Or.inr rfl
  | paused => exact absurd rfl hnp
  | completed => exact absurd (h2 rfl) hnd
  | failed => exact absurd ((hasKey_iff_mem_keys _ _).mp (by unfold hasKey; rw [h1 rfl]; rfl)) hnd
  | stopped =>
    by_cases hss : t ∈ s.schedStopped
    · exact absurd (h.lv.stp t hrun hss).2 hnd
    · exact absurd (h3 rfl hss) hnd

theorem KBody.afterUpdate {s : LState} (h : KBody s) (hS : SInv s) (hp : s.pc = .afterUpd) :
    KBody (afterUpdate s) := by
  have hu : updPc s.pc = true := by rw [hp]; rfl
  have hdn := (hS.doneOK hu).1
  have hds := (hS.doneOK hu).2
  have hsdn := hS.sdNodup hu
  have hk' : keys (aupdate s.sd s.done) = keys s.sd := keys_aupdate_of_subset _ _ hds
  have hpc : updPc (Tuner.afterUpdate s).pc = false := by
    rcases afterUpdate_pc s with hh | hh | hh <;> rw [hh] <;> rfl
  have hreg : regPc (Tuner.afterUpdate s).pc = false := by
    rcases afterUpdate_pc s with hh | hh | hh <;> rw [hh] <;> rfl
  have hnrp : (Tuner.afterUpdate s).pc ≠ .removeP := by
    rcases afterUpdate_pc s with hh | hh | hh <;> rw [hh] <;> decide
  have hncc : (Tuner.afterUpdate s).pc ≠ .completeCb := by
    rcases afterUpdate_pc s with hh | hh | hh <;> rw [hh] <;> decide
  have hnin : ∀ t, ¬ InDone (Tuner.afterUpdate s) t := fun t hc => by rw [hc.1] at hpc; cases hpc
  have hlast : (Tuner.afterUpdate s).status.last = aupdate s.status.last (aupdate s.sd s.done) := update_last _ _ _
  have hrun : ∀ t, t ∈ (Tuner.afterUpdate s).running ↔ t ∈ s.running ∧ t ∉ keys s.done := by
    intro t
    show t ∈ s.running.filter (fun t => !hasKey t s.done) ↔ _
    rw [List.mem_filter]
    constructor
    · rintro ⟨h1, h2⟩
      refine ⟨h1, ?_⟩
      cases hh : hasKey t s.done
      · exact (hasKey_false_iff _ _).mp hh
      · rw [hh] at h2; cases h2
    · rintro ⟨h1, h2⟩
      exact ⟨h1, by rw [(hasKey_false_iff _ _).mpr h2]; rfl⟩
  -- the recorded status of a trial after the update
  have hlk : ∀ t, alookup t (Tuner.afterUpdate s).status.last =
      match alookup t s.done with
      | some w => some w
      | none => match alookup t s.sd with
        | some v => some v
        | none => alookup t s.status.last := by
    intro t
    rw [hlast, alookup_aupdate _ _ _ (by rw [hk']; exact hsdn), alookup_aupdate _ _ _ hdn]
    cases hd : alookup t s.done with
    | some w => rfl
    | none =>
      simp only []
      cases hsd : alookup t s.sd <;> rfl
  have hkst : (Tuner.afterUpdate s).kst = s.kst := rfl
  have hss : (Tuner.afterUpdate s).schedStopped = s.schedStopped := rfl
  refine ⟨⟨?_, ?_, ?_⟩, ⟨?_, ?_, ?_⟩, h.dd.move rfl rfl rfl, h.bs.move rfl rfl (fun hc => absurd hc hnrp),
    KReg.out hreg⟩
  · intro t ht
    obtain ⟨h1, h2⟩ := (hrun t).mp ht
    rcases h.lv.live t h1 with h3 | h3 | h3
    · exact absurd h3.2 h2
    · exact Or.inr (Or.inl h3)
    · rw [hp] at h3; exact nomatch h3.1
  · intro t ht hs
    obtain ⟨h1, h2⟩ := (hrun t).mp ht
    exact absurd (h.lv.stp t h1 hs).2 h2
  · intro t hpz
    rcases h.lv.pausedRun t hpz with h1 | h1
    · exact Or.inl (fun hc => h1 ((hrun t).mp hc).1)
    · exact Or.inl (fun hc => ((hrun t).mp hc).2 h1.2)
  · intro t ht
    obtain ⟨h1, h2⟩ := (hrun t).mp ht
    rw [hlk t, (alookup_eq_none_iff _ _).mpr h2]
    simp only []
    cases hsd : alookup t s.sd with
    | none => exact h.ls.act t h1
    | some v =>
      simp only []
      rcases active_of_processed hS h hp t v (mem_of_alookup hsd) h2 with h3 | h3 <;> rw [h3]
      · exact Or.inl rfl
      · exact Or.inr rfl
  · intro t ht
    rw [hlast] at ht
    rcases (mem_keys_aupdate _ _ _).mp ht with h1 | h1
    · exact h.ls.boundL t h1
    · rw [hk'] at h1
      obtain ⟨kv, hkv, hkk⟩ := List.mem_map.mp h1
      have hr := (hS.sdRun hu kv hkv).1
      rw [hkk] at hr
      apply h.ls.boundL
      rcases h.ls.act _ hr with h3 | h3 <;> exact (hasKey_iff_mem_keys _ _).mp (by unfold hasKey; rw [h3]; rfl)
  · intro t hpz
    refine Or.inr ⟨hnin t, ?_⟩
    rw [hlk t]
    rcases h.ls.pausedSt t hpz with h1 | h1
    · rw [h1.2]
    · have hnd : t ∉ keys s.done := fun hc => h1.1 ⟨hu, hc⟩
      rw [(alookup_eq_none_iff _ _).mpr hnd]
      simp only []
      have hnsd : t ∉ keys s.sd := by
        intro hc
        obtain ⟨kv, hkv, hkk⟩ := List.mem_map.mp hc
        have hr := (hS.sdRun hu kv hkv).1
        rw [hkk] at hr
        rcases h.lv.pausedRun t hpz with h2 | h2
        · exact h2 hr
        · exact hnd h2.2
      rw [(alookup_eq_none_iff _ _).mpr hnsd]
      exact h1.2


/-! ### scheduling -/

/-- a step between control points of the scheduling loop that only sets registers -/
theorem KBody.regMove {s s' : LState} (h : KBody s) (hr : s'.running = s.running) (hk : s'.kst = s.kst)
    (hl : s'.status.last = s.status.last) (hss : s'.schedStopped = s.schedStopped) (hd : s'.done = s.done)
    (hb : s'.bst = s.bst) (hn : s'.nStarted = s.nStarted)
    (hu : updPc s'.pc = updPc s.pc) (hcc : s.pc ≠ .completeCb) (hrp : s'.pc ≠ .removeP) (hreg : KReg s') : KBody s' :=
  ⟨h.lv.move hr hk hss hd hu (fun hc => absurd hc hcc), h.ls.move hr hk hl hd hn hu, h.dd.move hk hss hn,
   h.bs.move hk hb (fun hc => absurd hc hrp), hreg⟩

theorem KReg.only {s' : LState} (p : Pc) (hp : s'.pc = p)
    (h1 : (p = .startCmd ∨ p = .copyCmd) → s'.sId = s'.nStarted)
    (h2 : (p = .addS ∨ p = .startCb) → s'.sId + 1 = s'.nStarted ∧ s'.sId ∉ keys s'.status.last)
    (h3 : p = .addS → s'.sId ∉ keys s'.kst)
    (h4 : p = .startCb → alookup s'.sId s'.kst = some .live)
    (h5 : p = .resumeCmd → alookup s'.sId s'.kst = some .paused)
    (h6 : p = .resumeCb → alookup s'.sId s'.status.last = some .paused ∧ alookup s'.sId s'.kst = some .live)
    (h7 : p = .completeCb → alookup s'.t s'.kst ≠ some .paused) : KReg s' := by
  subst hp
  exact ⟨h1, h2, h3, h4, h5, h6, h7⟩

/-- `backend.start_trial` has registered the new trial -/
theorem KBody.started {s : LState} (h : KBody s) (hp : s.pc = .startCmd ∨ s.pc = .copyCmd) : KBody (started s) := by
  have hsid := h.rg.regStart hp
  have hu : updPc (Tuner.started s).pc = updPc s.pc := by rcases hp with hp | hp <;> rw [hp] <;> rfl
  have hncc : s.pc ≠ .completeCb := by rcases hp with hp | hp <;> rw [hp] <;> decide
  refine ⟨h.lv.move rfl rfl rfl rfl hu (fun hc => absurd hc hncc), ⟨h.ls.act, ?_, ?_⟩, ⟨h.dd.dead, ?_⟩, ⟨?_, ?_⟩, ?_⟩
  · intro t ht; exact Nat.lt_succ_of_lt (h.ls.boundL t ht)
  · intro t hpz
    rcases h.ls.pausedSt t hpz with h1 | h1
    · exact Or.inl (by rw [hu]; exact h1)
    · exact Or.inr ⟨fun hc => h1.1 ⟨by rw [← hu]; exact hc.1, hc.2⟩, h1.2⟩
  · intro t ht; exact Nat.lt_succ_of_lt (h.dd.boundK t ht)
  · intro t hpz
    have hpz' : alookup t s.kst = some .paused := hpz
    have hlt := h.dd.boundK t ((hasKey_iff_mem_keys _ _).mp (by unfold hasKey; rw [hpz']; rfl))
    have hne : t ≠ s.sId := by rw [hsid]; exact Nat.ne_of_lt hlt
    show alookup t (aset s.sId St.inProgress s.bst) = some St.paused
    rw [alookup_aset_ne _ _ _ _ hne]; exact h.bs.pausedBst t hpz
  · intro hc; cases hc
  · refine KReg.only .addS rfl (by rintro (hc | hc) <;> cases hc) (fun _ => ⟨by show s.sId + 1 = s.nStarted + 1; rw [hsid], ?_⟩)
      (fun _ => ?_) (fun hc => nomatch hc) (fun hc => nomatch hc) (fun hc => nomatch hc) (fun hc => nomatch hc)
    · intro hc
      have : s.sId < s.nStarted := h.ls.boundL _ hc
      rw [hsid] at this; exact Nat.lt_irrefl _ this
    · intro hc
      have : s.sId < s.nStarted := h.dd.boundK _ hc
      rw [hsid] at this; exact Nat.lt_irrefl _ this

/-- `scheduler.on_trial_add` returned -/
theorem KBody.added {s s' : LState} (h : KBody s) (hp : s.pc = .addS) (hp' : s'.pc = .startCb)
    (hsid : s'.sId = s.sId) (hr : s'.running = s.running) (hk : s'.kst = aset s.sId .live s.kst)
    (hl : s'.status.last = s.status.last) (hss : s'.schedStopped = s.schedStopped) (hd : s'.done = s.done)
    (hb : s'.bst = s.bst) (hn : s'.nStarted = s.nStarted) : KBody s' := by
  have hu : updPc s'.pc = updPc s.pc := by rw [hp, hp']; rfl
  have hin := inDone_congr hu hd
  have hnk := h.rg.regAddK hp
  have hadd := h.rg.regAdd (Or.inl hp)
  have hkne : ∀ t, t ∈ keys s.kst → alookup t s'.kst = alookup t s.kst := by
    intro t ht
    have hne : t ≠ s.sId := fun hc => hnk (hc ▸ ht)
    rw [hk, alookup_aset_ne _ _ _ _ hne]
  have hkc : alookup s.sId s'.kst = some .live := by rw [hk]; exact alookup_aset_self _ _ _
  have hold : ∀ t v, v ≠ KSt.live → alookup t s'.kst = some v → alookup t s.kst = some v := by
    intro t v hv ht
    by_cases hc : t = s.sId
    · rw [hc, hkc] at ht; injection ht with ht; exact absurd ht.symm hv
    · rw [hk, alookup_aset_ne _ _ _ _ hc] at ht; exact ht
  refine ⟨⟨?_, ?_, ?_⟩, ⟨?_, ?_, ?_⟩, ⟨?_, ?_⟩, ⟨?_, fun hc => by rw [hp'] at hc; cases hc⟩, ?_⟩
  · intro t ht; rw [hr] at ht
    rcases h.lv.live t ht with h1 | h1 | h1
    · exact Or.inl ((hin t).mpr h1)
    · refine Or.inr (Or.inl ?_)
      rw [hkne t ((hasKey_iff_mem_keys _ _).mp (by unfold hasKey; rw [h1]; rfl))]; exact h1
    · rw [hp] at h1; exact nomatch h1.1
  · intro t ht hs; rw [hr] at ht; rw [hss] at hs; exact (hin t).mpr (h.lv.stp t ht hs)
  · intro t hpz
    rcases h.lv.pausedRun t (hold t _ (by decide) hpz) with h1 | h1
    · exact Or.inl (by rw [hr]; exact h1)
    · exact Or.inr ((hin t).mpr h1)
  · intro t ht; rw [hr] at ht; rw [hl]; exact h.ls.act t ht
  · intro t ht; rw [hl] at ht; rw [hn]; exact h.ls.boundL t ht
  · intro t hpz
    rcases h.ls.pausedSt t (hold t _ (by decide) hpz) with h1 | h1
    · exact Or.inl (by rw [hu, hd]; exact h1)
    · exact Or.inr ⟨fun hc => h1.1 ((hin t).mp hc), by rw [hl]; exact h1.2⟩
  · intro t ht; rw [hss] at ht
    have := h.dd.dead t ht
    rw [hkne t ((hasKey_iff_mem_keys _ _).mp (by unfold hasKey; rw [this]; rfl))]; exact this
  · intro t ht; rw [hk] at ht; rw [hn]
    rcases (mem_keys_aset _ _ _ _).mp ht with h1 | h1
    · rw [h1]; have := hadd.1; omega
    · exact h.dd.boundK t h1
  · intro t hpz; rw [hb]; exact h.bs.pausedBst t (hold t _ (by decide) hpz)
  · refine KReg.only .startCb hp' (by rintro (hc | hc) <;> cases hc) (fun _ => ?_) (fun hc => nomatch hc) (fun _ => ?_)
      (fun hc => nomatch hc) (fun hc => nomatch hc) (fun hc => nomatch hc)
    · rw [hsid, hn, hl]; exact hadd
    · rw [hsid]; exact hkc

/-- `backend.resume_trial` returned -/
theorem KBody.resumed {s s' : LState} (h : KBody s) (hp : s.pc = .resumeCmd) (hp' : s'.pc = .resumeCb)
    (hsid : s'.sId = s.sId) (hr : s'.running = s.running) (hk : s'.kst = aset s.sId .live s.kst)
    (hl : s'.status.last = s.status.last) (hss : s'.schedStopped = s.schedStopped) (hd : s'.done = s.done)
    (hb : s'.bst = aset s.sId .inProgress s.bst) (hn : s'.nStarted = s.nStarted) : KBody s' := by
  have hu : updPc s'.pc = updPc s.pc := by rw [hp, hp']; rfl
  have hnu : updPc s.pc = false := by rw [hp]; rfl
  have hin := inDone_congr hu hd
  have hpz0 := h.rg.regResume hp
  have hkc : alookup s.sId s'.kst = some .live := by rw [hk]; exact alookup_aset_self _ _ _
  have hkne : ∀ t, t ≠ s.sId → alookup t s'.kst = alookup t s.kst := by
    intro t hne; rw [hk, alookup_aset_ne _ _ _ _ hne]
  have hold : ∀ t v, v ≠ KSt.live → alookup t s'.kst = some v → t ≠ s.sId ∧ alookup t s.kst = some v := by
    intro t v hv ht
    by_cases hc : t = s.sId
    · rw [hc, hkc] at ht; injection ht with ht; exact absurd ht.symm hv
    · exact ⟨hc, by rw [← hkne t hc]; exact ht⟩
  have hnrun : s.sId ∉ s.running := by
    rcases h.lv.pausedRun _ hpz0 with h1 | h1
    · exact h1
    · rw [h1.1] at hnu; cases hnu
  refine ⟨⟨?_, ?_, ?_⟩, ⟨?_, ?_, ?_⟩, ⟨?_, ?_⟩, ⟨?_, fun hc => by rw [hp'] at hc; cases hc⟩, ?_⟩
  · intro t ht; rw [hr] at ht
    have hne : t ≠ s.sId := fun hc => hnrun (hc ▸ ht)
    rcases h.lv.live t ht with h1 | h1 | h1
    · exact Or.inl ((hin t).mpr h1)
    · exact Or.inr (Or.inl (by rw [hkne t hne]; exact h1))
    · rw [hp] at h1; exact nomatch h1.1
  · intro t ht hs; rw [hr] at ht; rw [hss] at hs; exact (hin t).mpr (h.lv.stp t ht hs)
  · intro t hpz
    rcases h.lv.pausedRun t (hold t _ (by decide) hpz).2 with h1 | h1
    · exact Or.inl (by rw [hr]; exact h1)
    · exact Or.inr ((hin t).mpr h1)
  · intro t ht; rw [hr] at ht; rw [hl]; exact h.ls.act t ht
  · intro t ht; rw [hl] at ht; rw [hn]; exact h.ls.boundL t ht
  · intro t hpz
    rcases h.ls.pausedSt t (hold t _ (by decide) hpz).2 with h1 | h1
    · exact Or.inl (by rw [hu, hd]; exact h1)
    · exact Or.inr ⟨fun hc => h1.1 ((hin t).mp hc), by rw [hl]; exact h1.2⟩
  · intro t ht; rw [hss] at ht
    have hdd := h.dd.dead t ht
    have hne : t ≠ s.sId := by intro hc; rw [hc, hpz0] at hdd; cases hdd
    rw [hkne t hne]; exact hdd
  · intro t ht; rw [hk] at ht; rw [hn]
    rcases (mem_keys_aset _ _ _ _).mp ht with h1 | h1
    · rw [h1]; exact h.dd.boundK _ ((hasKey_iff_mem_keys _ _).mp (by unfold hasKey; rw [hpz0]; rfl))
    · exact h.dd.boundK t h1
  · intro t hpz
    obtain ⟨hne, hpz'⟩ := hold t _ (by decide) hpz
    rw [hb, alookup_aset_ne _ _ _ _ hne]; exact h.bs.pausedBst t hpz'
  · refine KReg.only .resumeCb hp' (by rintro (hc | hc) <;> cases hc) (by rintro (hc | hc) <;> cases hc)
      (fun hc => nomatch hc) (fun hc => nomatch hc) (fun hc => nomatch hc) (fun _ => ?_) (fun hc => nomatch hc)
    rw [hsid, hl]
    refine ⟨?_, hkc⟩
    rcases h.ls.pausedSt _ hpz0 with h1 | h1
    · rw [h1.1] at hnu; cases hnu
    · exact h1.2

/-- the trial `u` (live for the scheduler; new, or paused in the loop's records) joins the running set -/
theorem KBody.scheduled {s : LState} (h : KBody s) (hnu : updPc s.pc = false) (u : Nat)
    (hlive : alookup u s.kst = some .live) (hlt : u < s.nStarted) : KBody (scheduled s u) := by
  have hnin : ∀ t, ¬ InDone s t := fun t hc => by rw [hc.1] at hnu; cases hnu
  have hnin' : ∀ t, ¬ InDone (Tuner.scheduled s u) t := fun t hc => by cases hc.1
  have hlast : (Tuner.scheduled s u).status.last = aset u .inProgress s.status.last := by
    unfold Tuner.scheduled addRunning
    split <;> exact update_last _ _ _
  have hkst : (Tuner.scheduled s u).kst = s.kst := by unfold Tuner.scheduled addRunning; split <;> rfl
  have hss : (Tuner.scheduled s u).schedStopped = s.schedStopped := by unfold Tuner.scheduled addRunning; split <;> rfl
  have hbst : (Tuner.scheduled s u).bst = s.bst := by unfold Tuner.scheduled addRunning; split <;> rfl
  have hn : (Tuner.scheduled s u).nStarted = s.nStarted := by unfold Tuner.scheduled addRunning; split <;> rfl
  have hrun : ∀ t, t ∈ (Tuner.scheduled s u).running → t = u ∨ t ∈ s.running := by
    intro t
    unfold Tuner.scheduled addRunning
    split
    · intro hh; exact Or.inr hh
    · intro hh; exact (mem_sadd _ _ _).mp hh
  have hnss : u ∉ s.schedStopped := by intro hc; have := h.dd.dead u hc; rw [hlive] at this; cases this
  refine ⟨⟨?_, ?_, ?_⟩, ⟨?_, ?_, ?_⟩, h.dd.move hkst hss hn, ⟨?_, fun hc => nomatch hc⟩, KReg.out rfl⟩
  · intro t ht
    rcases hrun t ht with h1 | h1
    · rw [h1, hkst]; exact Or.inr (Or.inl hlive)
    · rcases h.lv.live t h1 with h2 | h2 | h2
      · exact absurd h2 (hnin t)
      · exact Or.inr (Or.inl (by rw [hkst]; exact h2))
      · rw [h2.1] at hnu; cases hnu
  · intro t ht hs; rw [hss] at hs
    rcases hrun t ht with h1 | h1
    · exact absurd (h1 ▸ hs) hnss
    · exact absurd (h.lv.stp t h1 hs) (hnin t)
  · intro t hpz; rw [hkst] at hpz
    refine Or.inl (fun hc => ?_)
    rcases hrun t hc with h1 | h1
    · rw [h1, hlive] at hpz; cases hpz
    · rcases h.lv.pausedRun t hpz with h2 | h2
      · exact h2 h1
      · exact hnin t h2
  · intro t ht
    rw [hlast, alookup_aset]
    by_cases hc : t = u
    · simp only [hc, if_true]; exact Or.inl rfl
    · simp only [hc, if_false]
      rcases hrun t ht with h1 | h1
      · exact absurd h1 hc
      · exact h.ls.act t h1
  · intro t ht; rw [hlast] at ht; rw [hn]
    rcases (mem_keys_aset _ _ _ _).mp ht with h1 | h1
    · rw [h1]; exact hlt
    · exact h.ls.boundL t h1
  · intro t hpz; rw [hkst] at hpz
    have hne : t ≠ u := by intro hc; rw [hc, hlive] at hpz; cases hpz
    refine Or.inr ⟨hnin' t, ?_⟩
    rw [hlast, alookup_aset_ne _ _ _ _ hne]
    rcases h.ls.pausedSt t hpz with h1 | h1
    · rw [h1.1] at hnu; cases hnu
    · exact h1.2
  · intro t hpz; rw [hkst] at hpz; rw [hbst]; exact h.bs.pausedBst t hpz


/-! ### the machine -/

theorem KBody.addRow {s : LState} (h : KBody s) : KBody (addRow s) := by
  unfold Tuner.addRow
  split
  · exact ⟨⟨h.lv.live, h.lv.stp, h.lv.pausedRun⟩, ⟨h.ls.act, h.ls.boundL, h.ls.pausedSt⟩, ⟨h.dd.dead, h.dd.boundK⟩,
      ⟨h.bs.pausedBst, h.bs.regPause⟩,
      ⟨h.rg.regStart, h.rg.regAdd, h.rg.regAddK, h.rg.regStartCb, h.rg.regResume, h.rg.regResumeCb, h.rg.regCcb⟩⟩
  · exact h

theorem KBody.removedS {s s' : LState} (h : KBody s) (hS : SInv s) (hp : s.pc = .removeS) (hp' : s'.pc = .nextRes)
    (hr : s'.running = s.running) (hl : s'.status.last = s.status.last) (hn : s'.nStarted = s.nStarted)
    (hd : s'.done = aset s.cur.tid s.curSt s.done) (hk : s'.kst = aset s.cur.tid .dead s.kst) (hb : s'.bst = s.bst)
    (hss : s'.schedStopped = sadd s.cur.tid s.schedStopped) : KBody s' := by
  have hcr : curResPc s.pc = true := by rw [hp]; rfl
  obtain ⟨_, _, _, _, hlt⟩ := cur_facts hS h hcr
  exact h.ended s.cur.tid s.curSt .dead (by rw [hp]; rfl) (by rw [hp']; rfl) (fun hc => nomatch hc) hlt
    (by rw [hp]; decide) hr hl hn hd hk hb (Or.inr ⟨rfl, hss⟩) (Or.inl rfl) (by rw [hp']; rfl) (by rw [hp']; decide)

theorem KBody.removedP {s s' : LState} (h : KBody s) (hS : SInv s) (hp : s.pc = .removeP) (hp' : s'.pc = .nextRes)
    (hr : s'.running = s.running) (hl : s'.status.last = s.status.last) (hn : s'.nStarted = s.nStarted)
    (hd : s'.done = aset s.cur.tid .paused s.done) (hk : s'.kst = aset s.cur.tid .paused s.kst) (hb : s'.bst = s.bst)
    (hss : s'.schedStopped = s.schedStopped) : KBody s' := by
  have hcr : curResPc s.pc = true := by rw [hp]; rfl
  obtain ⟨_, _, _, hnss, hlt⟩ := cur_facts hS h hcr
  exact h.ended s.cur.tid .paused .paused (by rw [hp]; rfl) (by rw [hp']; rfl) (fun _ => hnss) hlt
    (by rw [hp]; decide) hr hl hn hd hk hb (Or.inl hss) (Or.inr ⟨rfl, rfl, h.bs.regPause hp⟩) (by rw [hp']; rfl)
    (by rw [hp']; decide)

theorem KBody.itemEnded {s s' : LState} (h : KBody s) (hS : SInv s) (hp : s.pc = .completeS ∨ s.pc = .errorS)
    (hp' : s'.pc = .second)
    (hr : s'.running = s.running) (hl : s'.status.last = s.status.last) (hn : s'.nStarted = s.nStarted)
    (hd : s'.done = aset s.t s.tSt s.done) (hk : s'.kst = aset s.t .dead s.kst) (hb : s'.bst = s.bst)
    (hss : s'.schedStopped = s.schedStopped) : KBody s' := by
  have hci : curItemPc s.pc = true := by rcases hp with hp | hp <;> rw [hp] <;> rfl
  obtain ⟨_, hlt, _⟩ := item_facts hS h hci
  exact h.ended s.t s.tSt .dead (curItem_upd _ hci) (by rw [hp']; rfl) (fun hc => nomatch hc) hlt
    (by rcases hp with hp | hp <;> rw [hp] <;> decide) hr hl hn hd hk hb (Or.inl hss) (Or.inl rfl) (by rw [hp']; rfl)
    (by rw [hp']; decide)

theorem KBody.secondItem {s : LState} (h : KBody s) (hp : s.pc = .second) (t : Nat) (st : St)
    (rest : List (Nat × St)) : KBody (secondItem s t st rest) := by
  have mv : ∀ s' : LState, s'.running = s.running → s'.kst = s.kst → s'.status.last = s.status.last →
      s'.schedStopped = s.schedStopped → s'.done = s.done → s'.bst = s.bst → s'.nStarted = s.nStarted →
      updPc s'.pc = true → regPc s'.pc = false → s'.pc ≠ .removeP → KBody s' := by
    intro s' h1 h2 h3 h4 h5 h6 h7 h8 h9 h10
    exact h.move h1 h2 h3 h4 h5 h6 h7 (by rw [h8, hp]; rfl) h9 (by rw [hp]; intro hc; cases hc) h10
  cases st with
  | failed => simp only [Tuner.secondItem]; exact mv _ rfl rfl rfl rfl rfl rfl rfl rfl rfl (fun hc => nomatch hc)
  | stopped =>
    simp only [Tuner.secondItem]
    by_cases hss : t ∈ s.schedStopped
    · simp only [hss, if_true]; exact mv _ rfl rfl rfl rfl rfl rfl rfl (by rw [hp]; rfl) (by rw [hp]; rfl) (by rw [hp]; intro hc; cases hc)
    · simp only [hss, if_false]; exact mv _ rfl rfl rfl rfl rfl rfl rfl rfl rfl (fun hc => nomatch hc)
  | completed =>
    simp only [Tuner.secondItem]
    cases hls : alookup t s.lastSeen with
    | none => simp only []; exact mv _ rfl rfl rfl rfl rfl rfl rfl rfl rfl (fun hc => nomatch hc)
    | some rid =>
      simp only []
      by_cases hk : hasKey t s.done = true
      · by_cases hpz : alookup t s.done = some St.paused
        · simp only [hk, hpz, if_true, Bool.not_true, Bool.false_eq_true, if_false]
          rw [aset_eq_self _ _ _ hpz]
          exact mv _ rfl rfl rfl rfl rfl rfl rfl (by rw [hp]; rfl) (by rw [hp]; rfl) (by rw [hp]; intro hc; cases hc)
        · simp only [hk, hpz, if_true, Bool.not_true, Bool.false_eq_true, if_false]
          exact h.directCcb hp rfl ((hasKey_iff_mem_keys _ _).mp hk) hpz rfl rfl rfl rfl rfl rfl rfl
      · have hk' : hasKey t s.done = false := by cases hh : hasKey t s.done <;> simp_all
        simp only [hk', Bool.not_false, if_true]
        exact mv _ rfl rfl rfl rfl rfl rfl rfl rfl rfl (fun hc => nomatch hc)
  | inProgress => simp only [Tuner.secondItem]; exact mv _ rfl rfl rfl rfl rfl rfl rfl (by rw [hp]; rfl) (by rw [hp]; rfl) (by rw [hp]; intro hc; cases hc)
  | paused => simp only [Tuner.secondItem]; exact mv _ rfl rfl rfl rfl rfl rfl rfl (by rw [hp]; rfl) (by rw [hp]; rfl) (by rw [hp]; intro hc; cases hc)
  | stopping => simp only [Tuner.secondItem]; exact mv _ rfl rfl rfl rfl rfl rfl rfl (by rw [hp]; rfl) (by rw [hp]; rfl) (by rw [hp]; intro hc; cases hc)

theorem KBody.sugStart {s : LState} (h : KBody s) (hp : s.pc = .suggest) (cfg : Nat) (ck : Option Nat) :
    KBody { s with pc := .startCmd, sId := s.nStarted, sCfg := cfg, sCkpt := ck } :=
  h.regMove rfl rfl rfl rfl rfl rfl rfl (by rw [hp]; rfl) (by rw [hp]; intro hc; cases hc) (fun hc => nomatch hc)
    (KReg.only .startCmd rfl (fun _ => rfl) (by rintro (hc | hc) <;> cases hc) (fun hc => nomatch hc)
      (fun hc => nomatch hc) (fun hc => nomatch hc) (fun hc => nomatch hc) (fun hc => nomatch hc))

theorem KBody.sugResume {s : LState} (h : KBody s) (hp : s.pc = .suggest) (id : Nat) (cfg : Option Nat)
    (hK : alookup id s.kst = some .paused) : KBody { s with pc := .resumeCmd, sId := id, sRCfg := cfg } :=
  h.regMove rfl rfl rfl rfl rfl rfl rfl (by rw [hp]; rfl) (by rw [hp]; intro hc; cases hc) (fun hc => nomatch hc)
    (KReg.only .resumeCmd rfl (by rintro (hc | hc) <;> cases hc) (by rintro (hc | hc) <;> cases hc) (fun hc => nomatch hc)
      (fun hc => nomatch hc) (fun _ => hK) (fun hc => nomatch hc) (fun hc => nomatch hc))

theorem KBody.toCopy {s : LState} (h : KBody s) (hp : s.pc = .startCmd) : KBody { s with pc := .copyCmd } :=
  h.regMove rfl rfl rfl rfl rfl rfl rfl (by rw [hp]; rfl) (by rw [hp]; intro hc; cases hc) (fun hc => nomatch hc)
    (KReg.only .copyCmd rfl (fun _ => h.rg.regStart (Or.inl hp)) (by rintro (hc | hc) <;> cases hc) (fun hc => nomatch hc)
      (fun hc => nomatch hc) (fun hc => nomatch hc) (fun hc => nomatch hc) (fun hc => nomatch hc))

theorem fin_closed_next (s : LState) (a : Ans) (h : finPc s.pc = true) : finPc (next s a).pc = true := by
  have := fin_closed s a h; rwa [step_pc] at this

theorem KInv_next (s : LState) (a : Ans) (hI : KInv s) (hS : SInv s) (hB : BOk s a) (hK : KOk s a) :
    KInv (next s a) := by
  intro hfin'
  have hf : finPc s.pc = false := by
    cases hh : finPc s.pc
    · rfl
    · rw [fin_closed_next s a hh] at hfin'; cases hfin'
  have h := hI hf
  have ha := h.addRow
  revert hfin'
  unfold next
  split
  all_goals (rename_i hpc)
  all_goals (try simp only [])
  all_goals (repeat' split)
  all_goals (intro hfin')
  all_goals first
    | (rw [show finPc _ = true from rfl] at hfin'; cases hfin')
    | exact h
    | exact h.polled hpc _ (fun kv hkv => ((hB hpc _ _ rfl).2 kv hkv).1) rfl rfl rfl rfl rfl rfl rfl rfl
    | exact h.stopped hS hpc _ (Or.inl rfl)
    | exact h.stopped hS hpc _ (Or.inr rfl)
    | exact h.pauseSent hpc
    | exact h.removedS hS hpc rfl rfl rfl rfl rfl rfl rfl rfl
    | exact h.removedP hS hpc rfl rfl rfl rfl rfl rfl rfl rfl
    | exact h.secondItem hpc _ _ _
    | exact h.toCcb hS hpc rfl rfl rfl rfl rfl rfl rfl rfl rfl
    | exact h.itemEnded hS (Or.inl hpc) rfl rfl rfl rfl rfl rfl rfl rfl
    | exact h.itemEnded hS (Or.inr hpc) rfl rfl rfl rfl rfl rfl rfl rfl
    | exact h.ccbDone hpc rfl _ rfl rfl rfl rfl rfl rfl rfl
    | exact h.afterUpdate hS hpc
    | exact h.sugStart hpc _ _
    | exact h.sugResume hpc _ _ (hK hpc _ _ rfl)
    | exact h.toCopy hpc
    | exact h.started (Or.inl hpc)
    | exact h.started (Or.inr hpc)
    | exact h.added hpc rfl rfl rfl rfl rfl rfl rfl rfl rfl
    | exact h.resumed hpc rfl rfl rfl rfl rfl rfl rfl rfl rfl
    | exact h.scheduled (by rw [hpc]; rfl) _ (h.rg.regStartCb hpc) (by have := (h.rg.regAdd (Or.inr hpc)).1; omega)
    | exact h.scheduled (by rw [hpc]; rfl) _ (h.rg.regResumeCb hpc).2
        (h.dd.boundK _ ((hasKey_iff_mem_keys _ _).mp (by unfold hasKey; rw [(h.rg.regResumeCb hpc).2]; rfl)))
    | exact h.move rfl rfl rfl rfl rfl rfl rfl (by rw [hpc]; rfl) rfl (by rw [hpc]; intro hc; cases hc) (by intro hc; cases hc)
    | exact h.move rfl rfl rfl rfl rfl rfl rfl (by show updPc s.pc = updPc s.pc; rfl) (by show regPc s.pc = false; rw [hpc]; rfl)
        (by rw [hpc]; intro hc; cases hc) (by show s.pc ≠ Pc.removeP; rw [hpc]; intro hc; cases hc)
    | exact ha.move rfl rfl rfl rfl rfl rfl rfl (by rw [addRow_pc, hpc]; rfl) rfl (by rw [addRow_pc, hpc]; intro hc; cases hc)
        (by intro hc; cases hc)

theorem KInv_step (s : LState) (a : Ans) (hI : KInv s) (hS : SInv s) (hB : BOk s a) (hK : KOk s a) :
    KInv (step s a) := by
  have h := KInv_next s a hI hS hB hK
  rw [step_eq]
  split
  · exact h
  · intro hf
    have hb := h hf
    exact ⟨⟨hb.lv.live, hb.lv.stp, hb.lv.pausedRun⟩, ⟨hb.ls.act, hb.ls.boundL, hb.ls.pausedSt⟩,
      ⟨hb.dd.dead, hb.dd.boundK⟩, ⟨hb.bs.pausedBst, hb.bs.regPause⟩,
      ⟨hb.rg.regStart, hb.rg.regAdd, hb.rg.regAddK, hb.rg.regStartCb, hb.rg.regResume, hb.rg.regResumeCb, hb.rg.regCcb⟩⟩

theorem KInv_init (c : Cfg) : KInv (init c) := by
  intro _
  refine ⟨⟨?_, ?_, ?_⟩, ⟨?_, ?_, ?_⟩, ⟨?_, ?_⟩, ⟨?_, (fun hc => nomatch hc)⟩, KReg.out rfl⟩
  all_goals (intro t ht; simp [init, keys, alookup] at ht)

/-- both invariants along a run that obeys the contracts B and K -/
theorem SK_run (c : Cfg) (as : List Ans) (hB : Along BOk (init c) as) (hK : Along KOk (init c) as) :
    SInv (run (init c) as) ∧ KInv (run (init c) as) :=
  run_inv_along (Inv := fun s => SInv s ∧ KInv s) (P := fun s a => BOk s a ∧ KOk s a)
    (fun s a h hp => ⟨SInv_step s a h.1 hp.1, KInv_step s a h.2 h.1 hp.1 hp.2⟩)
    as (init c) ⟨SInv_init c, KInv_init c⟩ (Along.and hB hK)

end SyneTune.Tuner
