import SyneTune.Lemmas.TunerStruct
/-
Invariant relating what the scheduler has been told about a trial (`kst`), the status the
loop records for it (`status.last`), the backend status as far as commands and polls tell
(`bst`), the running set and `trials_scheduler_stopped` — under the contracts
`B` (backend) and `K` (scheduler).  Behind C01 `lifecycle`, `resume_only_paused`, `notify`.
-/
namespace SyneTune.Tuner
open SyneTune AL

/-- **contract K** (scheduler): `resume(id)` is only suggested for a trial whose run the
scheduler itself ended with PAUSE and which has not been resumed or reported failed since. -/
def KOk (s : LState) (a : Ans) : Prop :=
  s.pc = .suggest → ∀ id cfg, a = .sugg (.resume id cfg) → alookup id s.kst = some .paused

/-- the trial is in `done_trials` of the iteration under way -/
def InDone (s : LState) (t : Nat) : Prop := updPc s.pc = true ∧ t ∈ keys s.done

/-- a status that a running trial may have in the loop's records -/
def Active (o : Option St) : Prop := o = some .inProgress ∨ o = some .stopping

/-- running trials are known to the scheduler as live (unless their end has just been told) -/
structure KLive (s : LState) : Prop where
  live : ∀ t ∈ s.running, InDone s t ∨ alookup t s.kst = some .live ∨ (s.pc = .completeCb ∧ t = s.t)
  stp : ∀ t ∈ s.running, t ∈ s.schedStopped → InDone s t
  pausedRun : ∀ t, alookup t s.kst = some .paused → t ∉ s.running ∨ InDone s t

/-- recorded statuses -/
structure KLast (s : LState) : Prop where
  act : ∀ t ∈ s.running, Active (alookup t s.status.last)
  boundL : ∀ t ∈ keys s.status.last, t < s.nStarted
  pausedSt : ∀ t, alookup t s.kst = some .paused →
      ((updPc s.pc = true ∧ alookup t s.done = some .paused) ∨ (¬ InDone s t ∧ alookup t s.status.last = some .paused))

structure KDead (s : LState) : Prop where
  dead : ∀ t ∈ s.schedStopped, alookup t s.kst = some .dead
  boundK : ∀ t ∈ keys s.kst, t < s.nStarted

structure KBst (s : LState) : Prop where
  pausedBst : ∀ t, alookup t s.kst = some .paused → alookup t s.bst = some .paused
  regPause : s.pc = .removeP → alookup s.cur.tid s.bst = some .paused

structure KReg (s : LState) : Prop where
  regStart : (s.pc = .startCmd ∨ s.pc = .copyCmd) → s.sId = s.nStarted
  regAdd : (s.pc = .addS ∨ s.pc = .startCb) → s.sId + 1 = s.nStarted ∧ s.sId ∉ keys s.status.last
  regAddK : s.pc = .addS → s.sId ∉ keys s.kst
  regStartCb : s.pc = .startCb → alookup s.sId s.kst = some .live
  regResume : s.pc = .resumeCmd → alookup s.sId s.kst = some .paused
  regResumeCb : s.pc = .resumeCb → alookup s.sId s.status.last = some .paused ∧ alookup s.sId s.kst = some .live

structure KBody (s : LState) : Prop where
  lv : KLive s
  ls : KLast s
  dd : KDead s
  bs : KBst s
  rg : KReg s

/-- the invariant is about the loop; nothing is claimed inside the `finally` block -/
def KInv (s : LState) : Prop := finPc s.pc = false → KBody s

/-- control points with a register clause -/
def regPc : Pc → Bool
  | .startCmd | .copyCmd | .addS | .startCb | .resumeCmd | .resumeCb => true
  | _ => false

theorem inDone_congr {s s' : LState} (hu : updPc s'.pc = updPc s.pc) (hd : s'.done = s.done) (t : Nat) :
    InDone s' t ↔ InDone s t := by unfold InDone; rw [hu, hd]

theorem KLive.move {s s' : LState} (h : KLive s) (hr : s'.running = s.running) (hk : s'.kst = s.kst)
    (hss : s'.schedStopped = s.schedStopped) (hd : s'.done = s.done) (hu : updPc s'.pc = updPc s.pc)
    (hcc : s.pc = .completeCb → s'.pc = .completeCb ∧ s'.t = s.t) : KLive s' := by
  have hin := inDone_congr hu hd
  refine ⟨?_, ?_, ?_⟩
  · intro t ht; rw [hr] at ht
    rcases h.live t ht with h1 | h1 | h1
    · exact Or.inl ((hin t).mpr h1)
    · exact Or.inr (Or.inl (by rw [hk]; exact h1))
    · exact Or.inr (Or.inr ⟨(hcc h1.1).1, by rw [(hcc h1.1).2]; exact h1.2⟩)
  · intro t ht hs; rw [hr] at ht; rw [hss] at hs; exact (hin t).mpr (h.stp t ht hs)
  · intro t ht; rw [hk] at ht
    rcases h.pausedRun t ht with h1 | h1
    · exact Or.inl (by rw [hr]; exact h1)
    · exact Or.inr ((hin t).mpr h1)

theorem KLast.move {s s' : LState} (h : KLast s) (hr : s'.running = s.running) (hk : s'.kst = s.kst)
    (hl : s'.status.last = s.status.last) (hd : s'.done = s.done) (hn : s'.nStarted = s.nStarted)
    (hu : updPc s'.pc = updPc s.pc) : KLast s' := by
  have hin := inDone_congr hu hd
  refine ⟨?_, ?_, ?_⟩
  · intro t ht; rw [hr] at ht; rw [hl]; exact h.act t ht
  · intro t ht; rw [hl] at ht; rw [hn]; exact h.boundL t ht
  · intro t ht; rw [hk] at ht
    rcases h.pausedSt t ht with h1 | h1
    · exact Or.inl (by rw [hu, hd]; exact h1)
    · exact Or.inr ⟨fun hc => h1.1 ((hin t).mp hc), by rw [hl]; exact h1.2⟩

theorem KDead.move {s s' : LState} (h : KDead s) (hk : s'.kst = s.kst) (hss : s'.schedStopped = s.schedStopped)
    (hn : s'.nStarted = s.nStarted) : KDead s' :=
  ⟨fun t ht => by rw [hss] at ht; rw [hk]; exact h.dead t ht,
   fun t ht => by rw [hk] at ht; rw [hn]; exact h.boundK t ht⟩

theorem KBst.move {s s' : LState} (h : KBst s) (hk : s'.kst = s.kst) (hb : s'.bst = s.bst)
    (hp : s'.pc = .removeP → s.pc = .removeP ∧ s'.cur.tid = s.cur.tid) : KBst s' :=
  ⟨fun t ht => by rw [hk] at ht; rw [hb]; exact h.pausedBst t ht,
   fun hc => by rw [(hp hc).2, hb]; exact h.regPause (hp hc).1⟩

theorem KReg.out {s' : LState} (hp : regPc s'.pc = false) : KReg s' := by
  have hne : ∀ {p : Pc}, regPc p = true → s'.pc ≠ p := by
    intro p hp' hc; rw [hc, hp'] at hp; cases hp
  refine ⟨?_, ?_, ?_, ?_, ?_, ?_⟩
  · rintro (hc | hc) <;> exact absurd hc (hne rfl)
  · rintro (hc | hc) <;> exact absurd hc (hne rfl)
  · intro hc; exact absurd hc (hne rfl)
  · intro hc; exact absurd hc (hne rfl)
  · intro hc; exact absurd hc (hne rfl)
  · intro hc; exact absurd hc (hne rfl)

/-- a step that leaves all the fields of the invariant alone, stays in (or out of) the
result-processing phase and does not reach a control point with a register clause -/
theorem KBody.move {s s' : LState} (h : KBody s) (hr : s'.running = s.running) (hk : s'.kst = s.kst)
    (hl : s'.status.last = s.status.last) (hss : s'.schedStopped = s.schedStopped) (hd : s'.done = s.done)
    (hb : s'.bst = s.bst) (hn : s'.nStarted = s.nStarted)
    (hu : updPc s'.pc = updPc s.pc) (hreg : regPc s'.pc = false) (hcc : s.pc ≠ .completeCb)
    (hrp : s'.pc ≠ .removeP) : KBody s' :=
  ⟨h.lv.move hr hk hss hd hu (fun hc => absurd hc hcc), h.ls.move hr hk hl hd hn hu, h.dd.move hk hss hn,
   h.bs.move hk hb (fun hc => absurd hc hrp), KReg.out hreg⟩


theorem aset_eq_self {β} (k : Nat) (v : β) (l : List (Nat × β)) (h : alookup k l = some v) : aset k v l = l := by
  induction l with
  | nil => simp [alookup] at h
  | cons x xs ih =>
    obtain ⟨k', v'⟩ := x
    by_cases hk : k = k'
    · simp only [alookup, hk, if_true, Option.some.injEq] at h
      simp [aset, hk, h]
    · simp only [alookup, hk, if_false] at h
      simp [aset, hk, ih h]

/-- facts about the trial of the result being handled -/
theorem cur_facts {s : LState} (hS : SInv s) (h : KBody s) (hp : curResPc s.pc = true) :
    s.cur.tid ∈ s.running ∧ s.cur.tid ∉ keys s.done ∧ alookup s.cur.tid s.kst = some .live ∧
    s.cur.tid ∉ s.schedStopped ∧ s.cur.tid < s.nStarted := by
  have hu := curRes_upd _ hp
  obtain ⟨hsd, hnd⟩ := hS.cur hp
  obtain ⟨kv, hkv, hk⟩ := List.mem_map.mp hsd
  have hrun : s.cur.tid ∈ s.running := by rw [← hk]; exact (hS.sdRun hu kv hkv).1
  have hnotcc : s.pc ≠ .completeCb := by intro hc; rw [hc] at hp; cases hp
  have hlive : alookup s.cur.tid s.kst = some .live := by
    rcases h.lv.live _ hrun with h1 | h1 | h1
    · exact absurd h1.2 hnd
    · exact h1
    · exact absurd h1.1 hnotcc
  refine ⟨hrun, hnd, hlive, ?_, ?_⟩
  · intro hc; exact hnd (h.lv.stp _ hrun hc).2
  · apply h.ls.boundL
    rcases h.ls.act _ hrun with h1 | h1 <;> exact (hasKey_iff_mem_keys _ _).mp (by unfold hasKey; rw [h1]; rfl)

/-- facts about the trial of the item being handled -/
theorem item_facts {s : LState} (hS : SInv s) (h : KBody s) (hp : curItemPc s.pc = true) :
    s.t ∈ s.running ∧ s.t < s.nStarted ∧ s.t ∈ keys s.sd := by
  have hu := curItem_upd _ hp
  obtain ⟨pre, st, hsd, _, _⟩ := hS.item hp
  have hmem : (s.t, st) ∈ s.sd := by rw [hsd]; simp
  have hrun := (hS.sdRun hu _ hmem).1
  refine ⟨hrun, ?_, List.mem_map.mpr ⟨_, hmem, rfl⟩⟩
  apply h.ls.boundL
  rcases h.ls.act _ hrun with h1 | h1 <;> exact (hasKey_iff_mem_keys _ _).mp (by unfold hasKey; rw [h1]; rfl)

/-! ### the poll -/

theorem KBody.polled {s s' : LState} (h : KBody s) (hp : s.pc = .fetch) (sd : List (Nat × St))
    (hB : ∀ kv ∈ sd, kv.1 ∈ s.running) (hp' : s'.pc = .cbFetch)
    (hr : s'.running = s.running) (hk : s'.kst = s.kst) (hl : s'.status.last = s.status.last)
    (hss : s'.schedStopped = s.schedStopped) (hd : s'.done = []) (hb : s'.bst = aupdate s.bst sd)
    (hn : s'.nStarted = s.nStarted) : KBody s' := by
  have hnu : updPc s.pc = false := by rw [hp]; rfl
  have hnin : ∀ t, ¬ InDone s t := fun t hc => by rw [hc.1] at hnu; cases hnu
  have hnin' : ∀ t, ¬ InDone s' t := fun t hc => by have := hc.2; rw [hd] at this; simp [keys] at this
  refine ⟨⟨?_, ?_, ?_⟩, ⟨?_, ?_, ?_⟩, h.dd.move hk hss hn, ⟨?_, ?_⟩, KReg.out (by rw [hp']; rfl)⟩
  · intro t ht; rw [hr] at ht
    rcases h.lv.live t ht with h1 | h1 | h1
    · exact absurd h1 (hnin t)
    · exact Or.inr (Or.inl (by rw [hk]; exact h1))
    · rw [hp] at h1; exact nomatch h1.1
  · intro t ht hs; rw [hr] at ht; rw [hss] at hs; exact absurd (h.lv.stp t ht hs) (hnin t)
  · intro t ht; rw [hk] at ht
    rcases h.lv.pausedRun t ht with h1 | h1
    · exact Or.inl (by rw [hr]; exact h1)
    · exact absurd h1 (hnin t)
  · intro t ht; rw [hr] at ht; rw [hl]; exact h.ls.act t ht
  · intro t ht; rw [hl] at ht; rw [hn]; exact h.ls.boundL t ht
  · intro t ht; rw [hk] at ht
    rcases h.ls.pausedSt t ht with h1 | h1
    · rw [h1.1] at hnu; cases hnu
    · exact Or.inr ⟨hnin' t, by rw [hl]; exact h1.2⟩
  · intro t ht; rw [hk] at ht
    have hnr : t ∉ s.running := by
      rcases h.lv.pausedRun t ht with h1 | h1
      · exact h1
      · exact absurd h1 (hnin t)
    rw [hb, alookup_aupdate_of_not_mem]
    · exact h.bs.pausedBst t ht
    · intro hc
      obtain ⟨kv, hkv, hk'⟩ := List.mem_map.mp hc
      exact hnr (by rw [← hk']; exact hB kv hkv)
  · intro hc; rw [hp'] at hc; cases hc

/-! ### the first loop -/

theorem KBody.stopped {s : LState} (h : KBody s) (hS : SInv s) (hp : s.pc = .stopCmd) (pc' : Pc)
    (hpc : pc' = .stopDel ∨ pc' = .removeS) :
    KBody { s with curSt := .stopped, bst := aset s.cur.tid .stopped s.bst, pc := pc' } := by
  have hcr : curResPc s.pc = true := by rw [hp]; rfl
  obtain ⟨_, _, hlive, _, _⟩ := cur_facts hS h hcr
  have hu : updPc pc' = updPc s.pc := by rw [hp]; rcases hpc with rfl | rfl <;> rfl
  refine ⟨h.lv.move rfl rfl rfl rfl hu (fun hc => by rw [hp] at hc; cases hc), h.ls.move rfl rfl rfl rfl rfl hu,
    h.dd.move rfl rfl rfl, ⟨?_, ?_⟩, KReg.out (by rcases hpc with rfl | rfl <;> rfl)⟩
  · intro t ht
    have hne : t ≠ s.cur.tid := by intro hc; rw [hc, hlive] at ht; cases ht
    show alookup t (aset s.cur.tid St.stopped s.bst) = some St.paused
    rw [alookup_aset_ne _ _ _ _ hne]; exact h.bs.pausedBst t ht
  · intro hc; rcases hpc with rfl | rfl <;> cases hc

theorem KBody.pauseSent {s : LState} (h : KBody s) (hp : s.pc = .pauseCmd) :
    KBody { s with pc := .removeP, bst := aset s.cur.tid .paused s.bst } := by
  have hu : updPc Pc.removeP = updPc s.pc := by rw [hp]; rfl
  refine ⟨h.lv.move rfl rfl rfl rfl hu (fun hc => by rw [hp] at hc; cases hc), h.ls.move rfl rfl rfl rfl rfl hu,
    h.dd.move rfl rfl rfl, ⟨?_, ?_⟩, KReg.out rfl⟩
  · intro t ht
    show alookup t (aset s.cur.tid St.paused s.bst) = some St.paused
    rw [alookup_aset]
    split
    · rfl
    · exact h.bs.pausedBst t ht
  · intro _; exact alookup_aset_self _ _ _

/-- the trial `c` (running, not yet done) enters `done_trials`; the scheduler has been told
about the end of its run: it is `dead` (stopped) or `paused` -/
theorem KBody.ended {s s' : LState} (h : KBody s) (c : Nat) (v : St) (kv : KSt)
    (hu : updPc s.pc = true) (hu' : updPc s'.pc = true) (hrun : c ∈ s.running) (hnd : c ∉ keys s.done)
    (hlt : c < s.nStarted) (hnss : kv = .paused → c ∉ s.schedStopped)
    (hr : s'.running = s.running) (hl : s'.status.last = s.status.last) (hn : s'.nStarted = s.nStarted)
    (hd : s'.done = aset c v s.done) (hk : s'.kst = aset c kv s.kst) (hb : s'.bst = s.bst)
    (hss : s'.schedStopped = s.schedStopped ∨ (kv = .dead ∧ s'.schedStopped = sadd c s.schedStopped))
    (hkv : kv = .dead ∨ (kv = .paused ∧ v = .paused ∧ alookup c s.bst = some .paused))
    (hreg : regPc s'.pc = false) (hrp : s'.pc ≠ .removeP) (hncc : s'.pc ≠ .completeCb) : KBody s' := by
  have hin : ∀ t, InDone s t → InDone s' t := by
    intro t ht; exact ⟨hu', by rw [hd]; exact (mem_keys_aset _ _ _ _).mpr (Or.inr ht.2)⟩
  have hinc : InDone s' c := ⟨hu', by rw [hd]; exact (mem_keys_aset _ _ _ _).mpr (Or.inl rfl)⟩
  have hin' : ∀ t, t ≠ c → InDone s' t → InDone s t := by
    intro t hne ht
    refine ⟨hu, ?_⟩
    have := ht.2; rw [hd] at this
    rcases (mem_keys_aset _ _ _ _).mp this with h1 | h1
    · exact absurd h1 hne
    · exact h1
  have hkne : ∀ t, t ≠ c → alookup t s'.kst = alookup t s.kst := by
    intro t hne; rw [hk, alookup_aset_ne _ _ _ _ hne]
  have hmemss : ∀ t, t ∈ s'.schedStopped → t = c ∧ kv = .dead ∨ t ∈ s.schedStopped := by
    intro t ht
    rcases hss with h1 | ⟨h1, h2⟩
    · rw [h1] at ht; exact Or.inr ht
    · rw [h2] at ht
      rcases (mem_sadd _ _ _).mp ht with h3 | h3
      · exact Or.inl ⟨h3, h1⟩
      · exact Or.inr h3
  refine ⟨⟨?_, ?_, ?_⟩, ⟨?_, ?_, ?_⟩, ⟨?_, ?_⟩, ⟨?_, fun hc => absurd hc hrp⟩, KReg.out hreg⟩
  · intro t ht; rw [hr] at ht
    by_cases hc : t = c
    · subst hc; exact Or.inl hinc
    · rcases h.lv.live t ht with h1 | h1 | h1
      · exact Or.inl (hin t h1)
      · exact Or.inr (Or.inl (by rw [hkne t hc]; exact h1))
      · sorry
  all_goals sorry

end SyneTune.Tuner
