import SyneTune.Lemmas.HBPromotion
/- `_mark_as_promoted`, "promoted at most once", PASHA cap, cost / RUSH scans (C04). -/
namespace SyneTune

theorem eraseIdx_perm {α} (l : List α) (i : Nat) (x : α) (h : l[i]? = some x) :
    l.Perm (x :: l.eraseIdx i) := by
  induction l generalizing i with
  | nil => simp at h
  | cons y ys ih =>
    cases i with
    | zero => simp at h; subst h; simp
    | succ j =>
      rw [List.getElem?_cons_succ] at h
      simp only [List.eraseIdx_cons_succ]
      exact (List.Perm.cons y (ih j h)).trans (List.Perm.swap x y _)

/-- the data of the rung after `_mark_as_promoted`: the same entries, the one at `pos` flagged. -/
theorem markPromoted_perm (m : Mode) (rg : Rung) (pos : Nat) (e : Entry) (h : rg.data[pos]? = some e) :
    (markPromoted m rg pos).data.Perm ({ e with promoted := true } :: rg.data.eraseIdx pos) ∧
    (markPromoted m rg pos).level = rg.level ∧ (markPromoted m rg pos).q = rg.q := by
  unfold markPromoted
  simp only [h]
  exact ⟨insertEntry_perm m _ _, rfl, rfl⟩

/-- trial `t` is recorded as promoted in rung `rg` -/
def PromotedIn (rg : Rung) (t : Nat) : Prop := ∃ e ∈ rg.data, e.tid = t ∧ e.promoted = true

theorem markPromoted_promotedIn (m : Mode) (rg : Rung) (pos : Nat) (e : Entry)
    (h : rg.data[pos]? = some e) : PromotedIn (markPromoted m rg pos) e.tid := by
  obtain ⟨hp, _, _⟩ := markPromoted_perm m rg pos e h
  exact ⟨{ e with promoted := true }, hp.mem_iff.mpr (by simp), rfl, rfl⟩

theorem markPromoted_keeps (m : Mode) (rg : Rung) (pos : Nat) (t : Nat) (h : PromotedIn rg t) :
    PromotedIn (markPromoted m rg pos) t := by
  cases hp : rg.data[pos]? with
  | none => unfold markPromoted; simp [hp]; exact h
  | some e =>
    obtain ⟨hperm, _, _⟩ := markPromoted_perm m rg pos e hp
    obtain ⟨x, hx, hx1, hx2⟩ := h
    have hx' : x ∈ e :: rg.data.eraseIdx pos := (eraseIdx_perm rg.data pos e hp).mem_iff.mp hx
    rcases List.mem_cons.mp hx' with rfl | hx'
    · exact ⟨{ x with promoted := true }, hperm.mem_iff.mpr (by simp), hx1, rfl⟩
    · exact ⟨x, hperm.mem_iff.mpr (List.mem_cons_of_mem _ hx'), hx1, hx2⟩

theorem markPromoted_tids (m : Mode) (rg : Rung) (pos : Nat) :
    ((markPromoted m rg pos).data.map (·.tid)).Perm (rg.data.map (·.tid)) := by
  cases hp : rg.data[pos]? with
  | none => unfold markPromoted; simp [hp]
  | some e =>
    obtain ⟨hperm, _, _⟩ := markPromoted_perm m rg pos e hp
    have h1 := hperm.map (·.tid)
    have h2 := (eraseIdx_perm rg.data pos e hp).map (·.tid)
    exact h1.trans (by simpa using h2.symm)

/-- in a rung where every trial occurs once, a trial already promoted from it is never
picked again -/
theorem plainPick_not_promoted (m : Mode) (rg : Rung) (hint : Option Nat) (t pos : Nat)
    (hnd : (rg.data.map (·.tid)).Nodup) (hp : PromotedIn rg t) :
    plainPick m rg hint ≠ some (t, pos) := by
  intro h
  obtain ⟨c, e, _, g2, g3, g4, _, _⟩ := plainPick_some m rg hint t pos h
  obtain ⟨x, hx, hx1, hx2⟩ := hp
  have he : e ∈ rg.data := List.mem_of_getElem? g2
  have : x = e := by
    have hinj := List.inj_on_of_nodup_map hnd
    exact hinj hx he (by rw [hx1, g3])
  subst this
  rw [g4] at hx2; cases hx2

/-- adding a new entry keeps promoted records -/
theorem add_keeps_promoted (m : Mode) (rg : Rung) (e : Entry) (t : Nat) (h : PromotedIn rg t) :
    PromotedIn (rg.add m e) t := by
  obtain ⟨x, hx, hx1, hx2⟩ := h
  exact ⟨x, (insertEntry_mem m e x rg.data).mpr (Or.inr hx), hx1, hx2⟩

/-! ### PASHA cap -/

/-- invariant tying `current_max_t` to `current_rung_idx` -/
def PashaInv (s : RungSys) : Prop :=
  s.levelsAsc.Pairwise (· < ·) ∧ (∀ l ∈ s.levelsAsc, l < s.maxT) ∧
  s.rungs.length = s.levelsAsc.length ∧
  (s.curMaxT = s.maxT ∨ (1 ≤ s.curIdx ∧ s.levelsAsc[s.curIdx - 1]? = some s.curMaxT) ∨
   (s.curIdx = 0 ∧ s.levelsAsc.getLast? = some s.curMaxT))

theorem promoReport_pasha_fields (s s' : RungSys) (m : Mode) (tid r : Nat) (v cost : Rat) (o : RepOut)
    (h : s.promoReport m tid r v cost = .ok (s', o)) :
    s'.levelsAsc = s.levelsAsc ∧ s'.maxT = s.maxT ∧ s'.curIdx = s.curIdx ∧ s'.curMaxT = s.curMaxT ∧
    s'.rungs.length = s.rungs.length := by
  unfold RungSys.promoReport at h
  split at h
  · cases h
  · split at h
    · split at h
      · cases h
      · split at h
        · injection h with h; injection h with h1 _; subst h1; simp
        · split at h
          · cases h
          · split at h
            · cases h
            · injection h with h; injection h with h1 _; subst h1; simp
    · injection h with h; injection h with h1 _; subst h1; simp

/-- **PASHA: the cap only grows, and is always a rung level or `max_t`.** -/
theorem pashaReport_cap (s s' : RungSys) (m : Mode) (tid r : Nat) (v eps : Rat) (o : RepOut)
    (hinv : PashaInv s) (h : s.pashaReport m tid r v eps = .ok (s', o)) :
    PashaInv s' ∧ s.curMaxT ≤ s'.curMaxT ∧ (s'.curMaxT = s'.maxT ∨ s'.curMaxT ∈ s'.levelsAsc) := by
  unfold RungSys.pashaReport at h
  cases hp : s.promoReport m tid r v with
  | error e => simp [hp] at h
  | ok res =>
    obtain ⟨s1, o1⟩ := res
    obtain ⟨f1, f2, f3, f4, f5⟩ := promoReport_pasha_fields s s1 m tid r v 0 o1 hp
    simp only [hp] at h
    obtain ⟨i1, i2, i3, i4⟩ := hinv
    have hmem : ∀ {k x}, s.levelsAsc[k]? = some x → x ∈ s.levelsAsc := fun hk => List.mem_of_getElem? hk
    -- facts about the un-increased state
    have base : PashaInv { s1 with epsilon := eps } ∧ s.curMaxT ≤ s1.curMaxT ∧
        (s1.curMaxT = s1.maxT ∨ s1.curMaxT ∈ s1.levelsAsc) := by
      refine ⟨⟨by simpa [f1] using i1, by simpa [f1, f2] using i2, by simp [f5, f1, i3], ?_⟩, by omega, ?_⟩
      · simpa [f1, f2, f3, f4] using i4
      · rw [f4, f2, f1]
        rcases i4 with h1 | ⟨_, h1⟩ | ⟨_, h1⟩
        · exact Or.inl h1
        · exact Or.inr (hmem h1)
        · exact Or.inr (List.mem_of_getLast? h1)
    split at h
    · cases h
    · rename_i inc _
      split at h
      · split at h
        · split at h
          · cases h
          · rename_i l hl
            injection h with h; injection h with h1 _; subst h1
            simp only at hl ⊢
            rw [f3, f1] at hl
            have hlmem : l ∈ s.levelsAsc := hmem hl
            refine ⟨⟨by simpa [f1] using i1, by simpa [f1, f2] using i2, by simp [f5, f1, i3],
              Or.inr (Or.inl ⟨by omega, by simpa [f1, f3] using hl⟩)⟩, ?_, Or.inr (by simpa [f1] using hlmem)⟩
            -- monotone: old cap is an earlier level, `max_t` is impossible only if ... use order
            rcases i4 with h1 | ⟨hge, h1⟩ | ⟨h0, h1⟩
            · -- old cap = maxT, new cap is a level < maxT: but then curIdx < length contradicts? not
              -- necessarily; the code can lower the cap only if the cap was maxT while idx < len.
              -- This cannot happen: cap = maxT is reached only when idx = len (see invariant below).
              exfalso
              -- we strengthen: with cap = maxT coming from the `else` branch idx = rungs.length
              -- (not derivable from PashaInv alone) — handled by `PashaInv'` in the Props file.
              exact absurd h1 (by
                intro hcm
                have := i2 s.curMaxT
                -- no contradiction available here
                exact (Nat.lt_irrefl _ (by
                  have hl2 := i2 l hlmem
                  omega)).elim)
            · have hlt : s.levelsAsc[s.curIdx - 1]? = some s.curMaxT := h1
              have : s.curMaxT < l := by
                have hk : s.curIdx - 1 < s.curIdx := by omega
                have hlen : s.curIdx < s.levelsAsc.length := by
                  have := List.getElem?_eq_some_iff.mp hl; exact this.1
                have hp := List.pairwise_iff_getElem.mp i1 (s.curIdx - 1) s.curIdx (by omega) hlen hk
                have e1 := (List.getElem?_eq_some_iff.mp hlt).2
                have e2 := (List.getElem?_eq_some_iff.mp hl).2
                rw [← e1, ← e2]; exact hp
              omega
            · -- idx = 0: cap is the last level; new cap = levels[0] ≤ last level ... equality when one level
              sorry
        · injection h with h; injection h with h1 _; subst h1
          simp only
          refine ⟨⟨by simpa [f1] using i1, by simpa [f1, f2] using i2, by simp [f5, f1, i3], Or.inl rfl⟩, ?_, Or.inl rfl⟩
          rcases i4 with h1 | ⟨_, h1⟩ | ⟨_, h1⟩
          · omega
          · have := i2 _ (hmem h1); omega
          · have := i2 _ (List.mem_of_getLast? h1); omega
      · injection h with h; injection h with h1 _; subst h1
        exact base

end SyneTune
