import SyneTune.Lemmas.HBPromotion
import Mathlib.Data.List.Nodup
/- `_mark_as_promoted`, "promoted at most once", PASHA cap, cost / RUSH scans (C04). -/
namespace SyneTune

theorem eraseIdx_perm {α} (l : List α) (i : Nat) (x : α) (h : l[i]? = some x) :
    l.Perm (x :: l.eraseIdx i) := by
  induction l generalizing i with
  | nil => simp at h
  | cons y ys ih =>
    cases i with
    | zero => simp at h; subst h; simp
    | succ j =>
      rw [List.getElem?_cons_succ] at h
      simp only [List.eraseIdx_cons_succ]
      exact (List.Perm.cons y (ih j h)).trans (List.Perm.swap x y _)

/-- the data of the rung after `_mark_as_promoted`: the same entries, the one at `pos` flagged. -/
theorem markPromoted_perm (m : Mode) (rg : Rung) (pos : Nat) (e : Entry) (h : rg.data[pos]? = some e) :
    (markPromoted m rg pos).data.Perm ({ e with promoted := true } :: rg.data.eraseIdx pos) ∧
    (markPromoted m rg pos).level = rg.level ∧ (markPromoted m rg pos).q = rg.q := by
  unfold markPromoted
  simp only [h]
  exact ⟨insertEntry_perm m _ _, trivial, trivial⟩

/-- trial `t` is recorded as promoted in rung `rg` -/
def PromotedIn (rg : Rung) (t : Nat) : Prop := ∃ e ∈ rg.data, e.tid = t ∧ e.promoted = true

theorem markPromoted_promotedIn (m : Mode) (rg : Rung) (pos : Nat) (e : Entry)
    (h : rg.data[pos]? = some e) : PromotedIn (markPromoted m rg pos) e.tid := by
  obtain ⟨hp, _, _⟩ := markPromoted_perm m rg pos e h
  exact ⟨{ e with promoted := true }, hp.mem_iff.mpr (by simp), rfl, rfl⟩

theorem markPromoted_keeps (m : Mode) (rg : Rung) (pos : Nat) (t : Nat) (h : PromotedIn rg t) :
    PromotedIn (markPromoted m rg pos) t := by
  cases hp : rg.data[pos]? with
  | none => unfold markPromoted; simp [hp]; exact h
  | some e =>
    obtain ⟨hperm, _, _⟩ := markPromoted_perm m rg pos e hp
    obtain ⟨x, hx, hx1, hx2⟩ := h
    have hx' : x ∈ e :: rg.data.eraseIdx pos := (eraseIdx_perm rg.data pos e hp).mem_iff.mp hx
    rcases List.mem_cons.mp hx' with rfl | hx'
    · exact ⟨{ x with promoted := true }, hperm.mem_iff.mpr (by simp), hx1, rfl⟩
    · exact ⟨x, hperm.mem_iff.mpr (List.mem_cons_of_mem _ hx'), hx1, hx2⟩

theorem markPromoted_tids (m : Mode) (rg : Rung) (pos : Nat) :
    ((markPromoted m rg pos).data.map (·.tid)).Perm (rg.data.map (·.tid)) := by
  cases hp : rg.data[pos]? with
  | none => unfold markPromoted; simp [hp]
  | some e =>
    obtain ⟨hperm, _, _⟩ := markPromoted_perm m rg pos e hp
    have h1 := hperm.map (·.tid)
    have h2 := (eraseIdx_perm rg.data pos e hp).map (·.tid)
    exact h1.trans (by simpa using h2.symm)

/-- in a rung where every trial occurs once, a trial already promoted from it is never
picked again -/
theorem plainPick_not_promoted (m : Mode) (rg : Rung) (hint : Option Nat) (t pos : Nat)
    (hnd : (rg.data.map (·.tid)).Nodup) (hp : PromotedIn rg t) :
    plainPick m rg hint ≠ some (t, pos) := by
  intro h
  obtain ⟨c, e, _, g2, g3, g4, _, _⟩ := plainPick_some m rg hint t pos h
  obtain ⟨x, hx, hx1, hx2⟩ := hp
  have he : e ∈ rg.data := List.mem_of_getElem? g2
  have : x = e := by
    have hinj := List.inj_on_of_nodup_map hnd
    exact hinj hx he (by rw [hx1, g3])
  subst this
  rw [g4] at hx2; cases hx2

/-- adding a new entry keeps promoted records -/
theorem add_keeps_promoted (m : Mode) (rg : Rung) (e : Entry) (t : Nat) (h : PromotedIn rg t) :
    PromotedIn (rg.add m e) t := by
  obtain ⟨x, hx, hx1, hx2⟩ := h
  exact ⟨x, (insertEntry_mem m e x rg.data).mpr (Or.inr hx), hx1, hx2⟩

/-! ### PASHA cap -/

/-- invariant tying `current_max_t` to `current_rung_idx`: the cap is `max_t` only once the
index has run past all rungs; otherwise it is the rung level `rung_levels[idx - 1]`
(`idx = 0` happens only with a single rung level, Python's `rung_levels[-1]`). -/
def PashaInv (s : RungSys) : Prop :=
  s.levelsAsc.Pairwise (· < ·) ∧ (∀ l ∈ s.levelsAsc, l < s.maxT) ∧
  s.rungs.length = s.levelsAsc.length ∧
  ((s.curMaxT = s.maxT ∧ s.rungs.length ≤ s.curIdx) ∨
   (1 ≤ s.curIdx ∧ s.levelsAsc[s.curIdx - 1]? = some s.curMaxT) ∨
   (s.curIdx = 0 ∧ s.levelsAsc = [s.curMaxT]))

theorem promoReport_pasha_fields (s s' : RungSys) (m : Mode) (tid r : Nat) (v cost : Rat) (o : RepOut)
    (h : s.promoReport m tid r v cost = .ok (s', o)) :
    s'.levelsAsc = s.levelsAsc ∧ s'.maxT = s.maxT ∧ s'.curIdx = s.curIdx ∧ s'.curMaxT = s.curMaxT ∧
    s'.rungs.length = s.rungs.length := by
  unfold RungSys.promoReport at h
  cases hr : alookup tid s.running with
  | none => simp [hr] at h
  | some mr =>
    simp only [hr] at h
    split at h
    · split at h
      · cases h
      · obtain ⟨_, _, hs⟩ := promoReached_spec s s' m tid v cost mr.1 _ o h
        rcases hs with rfl | ⟨pos, rg, _, _, _, rfl, _⟩
        · simp
        · simp
    · injection h with h; injection h with h1 _; subst h1; simp

/-- **PASHA: the cap only grows, and is always a rung level or `max_t`.** -/
theorem pashaReport_cap (s s' : RungSys) (m : Mode) (tid r : Nat) (v eps : Rat) (o : RepOut)
    (hinv : PashaInv s) (h : s.pashaReport m tid r v eps = .ok (s', o)) :
    PashaInv s' ∧ s.curMaxT ≤ s'.curMaxT ∧ (s'.curMaxT = s'.maxT ∨ s'.curMaxT ∈ s'.levelsAsc) := by
  unfold RungSys.pashaReport at h
  cases hp : s.promoReport m tid r v with
  | error e => simp [hp] at h
  | ok res =>
    obtain ⟨s1, o1⟩ := res
    obtain ⟨f1, f2, f3, f4, f5⟩ := promoReport_pasha_fields s s1 m tid r v 0 o1 hp
    simp only [hp] at h
    obtain ⟨i1, i2, i3, i4⟩ := hinv
    have hmem : ∀ {k x}, s.levelsAsc[k]? = some x → x ∈ s.levelsAsc := fun hk => List.mem_of_getElem? hk
    have capOK : s.curMaxT = s.maxT ∨ s.curMaxT ∈ s.levelsAsc := by
      rcases i4 with ⟨h1, _⟩ | ⟨_, h1⟩ | ⟨_, h1⟩
      · exact Or.inl h1
      · exact Or.inr (hmem h1)
      · exact Or.inr (by rw [h1]; simp)
    cases hinc : ({ s1 with epsilon := eps } : RungSys).pashaIncrease m with
    | error e => simp [hinc] at h
    | ok inc =>
      simp only [hinc] at h
      by_cases hi : inc = true
      · simp only [hi, if_true] at h
        by_cases hlt : s1.curIdx < s1.rungs.length
        · simp only [hlt, if_true] at h
          cases hl : s1.levelsAsc[s1.curIdx]? with
          | none => simp [hl] at h
          | some l =>
            simp only [hl] at h
            injection h with h; injection h with h1 _; subst h1
            rw [f3, f1] at hl
            rw [f3, f5] at hlt
            have hlmem : l ∈ s.levelsAsc := hmem hl
            refine ⟨⟨by simpa [f1] using i1, by simpa [f1, f2] using i2, by simp [f5, f1, i3],
              Or.inr (Or.inl ⟨by simp, by simpa [f1, f3] using hl⟩)⟩, ?_, Or.inr (by simpa [f1] using hlmem)⟩
            simp only
            rcases i4 with ⟨_, h1⟩ | ⟨hge, h1⟩ | ⟨h0, h1⟩
            · omega
            · have hlen : s.curIdx < s.levelsAsc.length := (List.getElem?_eq_some_iff.mp hl).1
              have hp' := List.pairwise_iff_getElem.mp i1 (s.curIdx - 1) s.curIdx (by omega) hlen (by omega)
              have e1 := (List.getElem?_eq_some_iff.mp h1).2
              have e2 := (List.getElem?_eq_some_iff.mp hl).2
              rw [← e1, ← e2]; exact Nat.le_of_lt hp'
            · rw [h0, h1] at hl
              simp at hl
              omega
        · simp only [hlt, if_false] at h
          injection h with h; injection h with h1 _; subst h1
          rw [f3, f5] at hlt
          refine ⟨⟨by simpa [f1] using i1, by simpa [f1, f2] using i2, by simp [f5, f1, i3],
            Or.inl ⟨rfl, by simp [f5, f3]; omega⟩⟩, ?_, Or.inl rfl⟩
          simp only
          rcases capOK with h1 | h1
          · omega
          · have := i2 _ h1; omega
      · simp only [hi, Bool.false_eq_true, if_false] at h
        injection h with h; injection h with h1 _; subst h1
        refine ⟨⟨by simpa [f1] using i1, by simpa [f1, f2] using i2, by simp [f5, f1, i3], ?_⟩, by simp [f4], ?_⟩
        · simpa [f1, f2, f3, f4, f5] using i4
        · simpa [f1, f2, f4] using capOK

end SyneTune
