import SyneTune.Lemmas.PBTBasic
/-
`_quantiles()` of the PBT model: both lists are parts of the sorted candidate list; the upper
list is a suffix (hence dominates everything outside it); for a non-negative fraction the lists
are disjoint and of the sizes the guard allows.
-/
namespace SyneTune.PBT
open SyneTune

theorem quantiles_short {p : Params} {s : State} (kh : Option ℤ) (h : (sortedIds s).length ≤ 1) :
    quantiles p s kh = ([], []) := by
  unfold quantiles
  simp only [h, if_true]

theorem quantiles_long {p : Params} {s : State} (kh : Option ℤ) (h : ¬ (sortedIds s).length ≤ 1) :
    quantiles p s kh = (sliceTo (sortedIds s) (numInQuantile p.frac (sortedIds s).length kh),
                        sliceLast (sortedIds s) (numInQuantile p.frac (sortedIds s).length kh)) := by
  unfold quantiles
  simp only [h, if_false]

theorem lower_sub (p : Params) (s : State) (kh : Option ℤ) {t : Nat} (h : t ∈ (quantiles p s kh).1) :
    t ∈ sortedIds s := by
  by_cases hl : (sortedIds s).length ≤ 1
  · rw [quantiles_short kh hl] at h; simp at h
  · rw [quantiles_long kh hl] at h; exact (sliceTo_sublist _ _).subset h

theorem upper_sub (p : Params) (s : State) (kh : Option ℤ) {t : Nat} (h : t ∈ (quantiles p s kh).2) :
    t ∈ sortedIds s := by
  by_cases hl : (sortedIds s).length ≤ 1
  · rw [quantiles_short kh hl] at h; simp at h
  · rw [quantiles_long kh hl] at h; exact (sliceLast_sublist _ _).subset h

/-- the upper quantile is a suffix of the candidates sorted by score -/
theorem upper_eq_drop (p : Params) (s : State) (kh : Option ℤ) : ∃ m, (quantiles p s kh).2 = (sortedIds s).drop m := by
  by_cases hl : (sortedIds s).length ≤ 1
  · rw [quantiles_short kh hl]; exact ⟨(sortedIds s).length, by simp⟩
  · rw [quantiles_long kh hl]; exact sliceLast_eq_drop _ _

/-- a member of the upper quantile scores no worse than any candidate outside it -/
theorem upper_dominates {p : Params} {s : State} (hw : WF s) (kh : Option ℤ) {src t : Nat} {v w : Rat}
    (hsrc : src ∈ (quantiles p s kh).2) (hv : Scored s src v)
    (ht : t ∉ (quantiles p s kh).2) (hwt : Scored s t w) : w ≤ v := by
  obtain ⟨m, hm⟩ := upper_eq_drop p s kh
  rw [hm] at hsrc ht
  have htm : t ∈ sortedIds s := (mem_sortedIds hw).mpr ⟨w, hwt⟩
  exact drop_dominates hw m (mem_take_of_not_mem_drop htm ht) hsrc hwt hv

/-- the shape of the two lists when the number of trials per quantile is `k ≥ 0` -/
theorem quantiles_shape {p : Params} {s : State} (kh : Option ℤ) (hl : ¬ (sortedIds s).length ≤ 1)
    (hf : 0 ≤ p.frac) :
    ∃ k : ℕ, 2 * k ≤ (sortedIds s).length ∧ (numInQuantile p.frac (sortedIds s).length kh = (k : ℤ)) ∧
      (quantiles p s kh).1 = (sortedIds s).take k ∧
      (quantiles p s kh).2 = if 0 < k then (sortedIds s).drop ((sortedIds s).length - k) else sortedIds s := by
  have h0 := numInQuantile_nonneg hf (sortedIds s).length kh
  have h2 := numInQuantile_le_half p.frac (sortedIds s).length kh
  obtain ⟨k, hk⟩ := Int.eq_ofNat_of_zero_le h0
  refine ⟨k, by omega, hk, ?_, ?_⟩
  · rw [quantiles_long kh hl, hk]
    simp [sliceTo]
  · rw [quantiles_long kh hl, hk]
    by_cases hk0 : 0 < k
    · simp [sliceLast, hk0]
    · have : k = 0 := by omega
      subst this
      simp [sliceLast]

/-- **disjoint** for every non-negative fraction -/
theorem quantiles_disjoint' {p : Params} {s : State} (hw : WF s) (kh : Option ℤ) (hf : 0 ≤ p.frac) :
    List.Disjoint (quantiles p s kh).1 (quantiles p s kh).2 := by
  by_cases hl : (sortedIds s).length ≤ 1
  · rw [quantiles_short kh hl]; exact List.disjoint_nil_left _
  · obtain ⟨k, h2k, _, h1, h2⟩ := quantiles_shape kh hl hf
    rw [h1, h2]
    by_cases hk0 : 0 < k
    · simp only [hk0, if_true]
      exact List.disjoint_take_drop (sortedIds_nodup hw) (by omega)
    · have : k = 0 := by omega
      subst this
      simp

theorem quantiles_sizes' {p : Params} {s : State} (kh : Option ℤ) (hf : 0 ≤ p.frac) :
    2 * (quantiles p s kh).1.length ≤ (sortedIds s).length ∧
    ((quantiles p s kh).2.length = (quantiles p s kh).1.length ∨
     ((quantiles p s kh).1 = [] ∧ (quantiles p s kh).2 = sortedIds s)) := by
  by_cases hl : (sortedIds s).length ≤ 1
  · rw [quantiles_short kh hl]; simp
  · obtain ⟨k, h2k, _, h1, h2⟩ := quantiles_shape kh hl hf
    rw [h1, h2]
    by_cases hk0 : 0 < k
    · simp only [hk0, if_true, List.length_take, List.length_drop]
      refine ⟨by omega, Or.inl (by omega)⟩
    · have : k = 0 := by omega
      subst this
      simp

theorem quantiles_equal_size' {p : Params} {s : State} (kh : Option ℤ) (hf : 0 < p.frac)
    (hn : 2 ≤ (sortedIds s).length) :
    (quantiles p s kh).1.length = (quantiles p s kh).2.length ∧ 1 ≤ (quantiles p s kh).1.length ∧
    2 * (quantiles p s kh).1.length ≤ (sortedIds s).length := by
  have hl : ¬ (sortedIds s).length ≤ 1 := by omega
  obtain ⟨k, h2k, hk, h1, h2⟩ := quantiles_shape kh hl hf.le
  have hpos := numInQuantile_pos hf hn kh
  rw [hk] at hpos
  have hk0 : 0 < k := by omega
  rw [h1, h2]
  simp only [hk0, if_true, List.length_take, List.length_drop]
  omega

/-- with `quantile_fraction = 0` the lower quantile is empty: nobody is ever replaced -/
theorem lower_empty_of_frac_zero {p : Params} {s : State} (kh : Option ℤ) (hf : p.frac = 0) :
    (quantiles p s kh).1 = [] := by
  by_cases hl : (sortedIds s).length ≤ 1
  · rw [quantiles_short kh hl]
  · rw [quantiles_long kh hl, hf, numInQuantile_zero]
    simp [sliceTo]

end SyneTune.PBT
