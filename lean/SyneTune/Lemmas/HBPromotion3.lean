import SyneTune.Lemmas.HBPromotion2
/- Invariants of the promotion rung system over arbitrary operation sequences (C04). -/
namespace SyneTune

/-- one step relation between a rung before and after any rung-system operation: unchanged,
one entry marked as promoted, or one new entry (of a trial not yet in the rung) added. -/
inductive RungStep (m : Mode) : Rung → Rung → Prop
  | same (a : Rung) : RungStep m a a
  | mark (a : Rung) (pos : Nat) : RungStep m a (markPromoted m a pos)
  | add (a : Rung) (e : Entry) (h : a.contains e.tid = false) : RungStep m a (a.add m e)

theorem RungStep.level {m : Mode} {a b : Rung} (h : RungStep m a b) : b.level = a.level := by
  cases h with
  | same => rfl
  | mark pos =>
    cases hp : a.data[pos]? with
    | none => unfold markPromoted; simp [hp]
    | some e => exact (markPromoted_perm m a pos e hp).2.1
  | add e _ => rfl

theorem RungStep.nodup {m : Mode} {a b : Rung} (h : RungStep m a b)
    (hn : (a.data.map (·.tid)).Nodup) : (b.data.map (·.tid)).Nodup := by
  cases h with
  | same => exact hn
  | mark pos => exact ((markPromoted_tids m a pos).nodup_iff).mpr hn
  | add e hc =>
    apply insertEntry_tids_nodup m e a.data hn
    intro hmem
    have := (contains_iff a e.tid).mpr hmem
    simp [this] at hc

theorem RungStep.promoted {m : Mode} {a b : Rung} (h : RungStep m a b) (t : Nat)
    (hp : PromotedIn a t) : PromotedIn b t := by
  cases h with
  | same => exact hp
  | mark pos => exact markPromoted_keeps m a pos t hp
  | add e _ => exact add_keeps_promoted m a e t hp

/-- the promotion scan changes rungs only by `RungStep`s -/
theorem promoScan_steps (ty : HBType) (m : Mode) (numThr cap : Nat) (hint : Option Nat) (next : Nat)
    (thr : List (Nat × Rat)) (rs : List Rung) :
    List.Forall₂ (RungStep m) rs (promoScan ty m numThr cap hint next thr rs).rungs := by
  induction rs generalizing next thr with
  | nil => simp [promoScan]
  | cons rg rest ih =>
    unfold promoScan
    have hrefl : List.Forall₂ (RungStep m) rest rest := by
      clear ih
      induction rest with
      | nil => exact List.Forall₂.nil
      | cons x xs ihx => exact List.Forall₂.cons (RungStep.same x) ihx
    by_cases hc : rg.level < cap
    · simp only [hc, if_true]
      cases hp : (findPromotable ty m numThr thr rg hint).pick with
      | some tp =>
        obtain ⟨tid, pos⟩ := tp
        simp only
        exact List.Forall₂.cons (RungStep.mark rg pos) hrefl
      | none =>
        simp only
        exact List.Forall₂.cons (RungStep.same rg) (ih _ _)
    · simp only [hc, if_false]
      exact List.Forall₂.cons (RungStep.same rg) (ih _ _)

theorem forall₂_set {α} {R : α → α → Prop} (l : List α) (hrefl : ∀ a, R a a) (pos : Nat) (a b : α)
    (h : l[pos]? = some a) (hr : R a b) : List.Forall₂ R l (l.set pos b) := by
  induction l generalizing pos with
  | nil => simp at h
  | cons x xs ih =>
    have hre : ∀ ys : List α, List.Forall₂ R ys ys := by
      intro ys; induction ys with
      | nil => exact List.Forall₂.nil
      | cons y ys ihy => exact List.Forall₂.cons (hrefl y) ihy
    cases pos with
    | zero => simp at h; subst h; rw [List.set_cons_zero]; exact List.Forall₂.cons hr (hre xs)
    | succ j =>
      rw [List.getElem?_cons_succ] at h
      simp only [List.set_cons_succ]
      exact List.Forall₂.cons (hrefl x) (ih j h)

theorem promoReport_steps (s s' : RungSys) (m : Mode) (tid r : Nat) (v cost : Rat) (o : RepOut)
    (h : s.promoReport m tid r v cost = .ok (s', o)) :
    List.Forall₂ (RungStep m) s.rungs s'.rungs := by
  have hre : ∀ ys : List Rung, List.Forall₂ (RungStep m) ys ys := by
    intro ys; induction ys with
    | nil => exact List.Forall₂.nil
    | cons y ys ihy => exact List.Forall₂.cons (RungStep.same y) ihy
  unfold RungSys.promoReport at h
  cases hr : alookup tid s.running with
  | none => simp [hr] at h
  | some mr =>
    simp only [hr] at h
    split at h
    · split at h
      · cases h
      · obtain ⟨_, _, hs⟩ := promoReached_spec s s' m tid v cost mr.1 _ o h
        rcases hs with rfl | ⟨pos, rg, h1, _, h3, rfl, _⟩
        · exact hre _
        · exact forall₂_set s.rungs (fun a => RungStep.same a) pos rg _ h1 (RungStep.add rg _ h3)
    · injection h with h; injection h with h1 _; subst h1; exact hre _

/-- invariant: every trial occurs at most once per rung -/
def AllNodup (rs : List Rung) : Prop := ∀ rg ∈ rs, (rg.data.map (·.tid)).Nodup

/-- trial `t` is recorded as promoted from the rung of level `level` -/
def PromotedAt (rs : List Rung) (level t : Nat) : Prop := ∃ rg ∈ rs, rg.level = level ∧ PromotedIn rg t

theorem steps_preserve {m : Mode} {rs rs' : List Rung} (h : List.Forall₂ (RungStep m) rs rs') :
    (AllNodup rs → AllNodup rs') ∧ (∀ level t, PromotedAt rs level t → PromotedAt rs' level t) ∧
    rs'.map (·.level) = rs.map (·.level) := by
  induction h with
  | nil => exact ⟨fun h => h, fun _ _ h => h, rfl⟩
  | @cons a b l1 l2 hab _ ih =>
    obtain ⟨i1, i2, i3⟩ := ih
    refine ⟨?_, ?_, ?_⟩
    · intro hn x hx
      rcases List.mem_cons.mp hx with rfl | hx
      · exact hab.nodup (hn a (by simp))
      · exact i1 (fun y hy => hn y (List.mem_cons_of_mem _ hy)) x hx
    · intro level t ⟨rg, hrg, hl, hp⟩
      rcases List.mem_cons.mp hrg with rfl | hrg
      · exact ⟨b, by simp, by rw [hab.level]; exact hl, hab.promoted t hp⟩
      · obtain ⟨rg', h1, h2, h3⟩ := i2 level t ⟨rg, hrg, hl, hp⟩
        exact ⟨rg', List.mem_cons_of_mem _ h1, h2, h3⟩
    · simp [hab.level, i3]


/-- in a list of rungs with strictly decreasing levels, the level determines the rung -/
theorem decr_level_inj (l : List Rung) (h : l.Pairwise (fun a b => b.level < a.level))
    (x y : Rung) (hx : x ∈ l) (hy : y ∈ l) (he : x.level = y.level) : x = y := by
  induction l with
  | nil => simp at hx
  | cons a as ih =>
    rw [List.pairwise_cons] at h
    rcases List.mem_cons.mp hx with hxa | hx' <;> rcases List.mem_cons.mp hy with hya | hy'
    · rw [hxa, hya]
    · have := h.1 y hy'; rw [hxa] at he; omega
    · have := h.1 x hx'; rw [hya] at he; omega
    · exact ih h.2 hx' hy'

end SyneTune
