import SyneTune.Lemmas.SimCmd
/-
Order of delivery in the simulator: per trial and run, the results that were handled at a
poll (delivered, or dropped-but-counted), then those that have arrived and wait for the next
poll, then those still in the event heap carry the indices `0, 1, 2, …` in this order.
-/
namespace SyneTune.SimL
open SyneTune SyneTune.Backend SyneTune.PollL

variable {J : Type}

/-- index of a result event of run `r` of trial `t` -/
def tagIdxOf (t r : Nat) (e : Ev) : Option Nat :=
  match e.kind with
  | .result _ tag => if e.trial = t ∧ tag.run = r then some tag.idx else none
  | _ => none

/-- indices of the results of run `r` of trial `t` still in the heap, in pop order -/
def heapIdx (s : Sim J) (t r : Nat) : List Nat := s.heap.filterMap (tagIdxOf t r)

/-- ... arrived and waiting for the next poll, in arrival order -/
def nextIdx (s : Sim J) (t r : Nat) : List Nat :=
  (((alookup t s.next).getD []).filter (fun a => a.tag.run == r)).map (·.tag.idx)

/-- ... handled at a poll (delivered or dropped), in that order -/
def logIdx (s : Sim J) (t r : Nat) : List Nat :=
  (s.log.filter (fun en => en.trial == t && en.tag.run == r)).map (·.tag.idx)

/-- the job lists its results with non-decreasing elapsed time -/
def JobSorted (job : JobFn J) : Prop :=
  ∀ js t js' st rs, job js t = .ok (js', st, rs) → rs.Pairwise (fun a b => a.elapsed ≤ b.elapsed)

/-- floating-point addition is monotone in both arguments -/
def AddMono (A : Arith) : Prop :=
  (∀ a b b' : Rat, b ≤ b' → A.add a b ≤ A.add a b') ∧ (∀ a a' b : Rat, a ≤ a' → A.add a b ≤ A.add a' b)

/-! ### lists -/

theorem range_prefix {l1 l2 : List Nat} {m : Nat} (h : l1 ++ l2 = List.range m) : l1 = List.range l1.length := by
  have hl : l1.length ≤ m := by
    have := congrArg List.length h
    simp at this; omega
  have := congrArg (List.take l1.length) h
  rw [List.take_left, List.take_range, Nat.min_eq_left hl] at this
  exact this

/-! ### `tagIdxOf` -/

theorem tagIdxOf_kind {t r : Nat} {e : Ev} (h : ∀ res tag, e.kind ≠ .result res tag) : tagIdxOf t r e = none := by
  unfold tagIdxOf
  split
  · rename_i res tag hk; exact absurd hk (h res tag)
  · rfl

theorem tagIdxOf_trial {t r : Nat} {e : Ev} (h : e.trial ≠ t) : tagIdxOf t r e = none := by
  unfold tagIdxOf
  split
  · rw [if_neg (fun hh => h hh.1)]
  · rfl

theorem tagIdxOf_result (t r : Nat) (e : Ev) (res : Res) (tag : Tag) (hk : e.kind = .result res tag) :
    tagIdxOf t r e = if e.trial = t ∧ tag.run = r then some tag.idx else none := by
  unfold tagIdxOf
  rw [hk]

theorem tagIdxOf_some {t r i : Nat} {e : Ev} (h : tagIdxOf t r e = some i) :
    ∃ res tag, e.kind = .result res tag ∧ e.trial = t ∧ tag.run = r ∧ tag.idx = i := by
  unfold tagIdxOf at h
  split at h
  · rename_i res tag hk
    split at h
    · rename_i hc
      simp only [Option.some.injEq] at h
      exact ⟨res, tag, hk, hc.1, hc.2, h⟩
    · cases h
  · cases h

/-! ### `filterMap` over `insertEv` -/

theorem filterMap_insertEv_none (f : Ev → Option Nat) (e : Ev) (l : List Ev) (h : f e = none) :
    (insertEv e l).filterMap f = l.filterMap f := by
  induction l with
  | nil => simp [insertEv, h]
  | cons y ys ih =>
    unfold insertEv
    split
    · rw [List.filterMap_cons, h]
    · rw [List.filterMap_cons, List.filterMap_cons, ih]

/-- a new entry goes behind every relevant entry if these are not later and have smaller counters -/
theorem filterMap_insertEv_last (f : Ev → Option Nat) (e : Ev) (l : List Ev) (hs : l.Pairwise keyLt)
    (hb : ∀ x ∈ l, f x ≠ none → x.time ≤ e.time ∧ x.cnt < e.cnt) :
    (insertEv e l).filterMap f = l.filterMap f ++ (f e).toList := by
  induction l with
  | nil => cases hfe : f e <;> simp [insertEv, hfe]
  | cons y ys ih =>
    rw [List.pairwise_cons] at hs
    unfold insertEv
    split
    · rename_i hby
      rw [before_iff] at hby
      -- nothing relevant in `y :: ys`
      have hnone : ∀ x ∈ y :: ys, f x = none := by
        intro x hx
        by_contra hne
        have hk : keyLt e x := by
          rcases List.mem_cons.mp hx with rfl | hx'
          · exact hby
          · exact keyLt_trans hby (hs.1 x hx')
        have := hb x hx hne
        unfold keyLt at hk
        rcases hk with hk | hk
        · linarith [this.1]
        · omega
      have h0 : (y :: ys).filterMap f = [] := List.filterMap_eq_nil_iff.mpr hnone
      rw [List.filterMap_cons, h0]
      cases hfe : f e <;> simp
    · rw [List.filterMap_cons, List.filterMap_cons]
      rw [ih hs.2 (fun x hx => hb x (List.mem_cons_of_mem _ hx))]
      cases f y <;> simp

theorem filterMap_filter_same (f : Ev → Option Nat) (p : Ev → Bool) (l : List Ev)
    (h : ∀ x ∈ l, p x = false → f x = none) : (l.filter p).filterMap f = l.filterMap f := by
  induction l with
  | nil => rfl
  | cons y ys ih =>
    have ih' := ih (fun x hx => h x (List.mem_cons_of_mem _ hx))
    cases hp : p y with
    | true => rw [List.filter_cons_of_pos hp, List.filterMap_cons, List.filterMap_cons, ih']
    | false =>
      rw [List.filter_cons_of_neg (by simp [hp]), List.filterMap_cons, h y List.mem_cons_self hp, ih']

/-! ### freshness bound: number of start events of a trial processed so far -/

def runsOf (s : Sim J) (t : Nat) : Nat := ((s.trials[t]?).map (·.runs)).getD 0

theorem runsOf_some {s : Sim J} {t : Nat} {x : STrial} (h : s.trials[t]? = some x) : runsOf s t = x.runs := by
  simp [runsOf, h]

theorem runsOf_updT (s : Sim J) (t u : Nat) (f : STrial → STrial) (hf : ∀ y, (f y).runs = y.runs) :
    runsOf (s.updT t f) u = runsOf s u := by
  unfold runsOf
  rw [updT_get]
  by_cases hu : u = t
  · simp only [hu, if_true]
    cases s.trials[t]? with
    | none => rfl
    | some y => simp [hf]
  · simp only [hu, if_false]

/-- the order invariant -/
structure Inv1 (s : Sim J) : Prop where
  heapOK : HeapOK s
  nd : (s.next.map (·.1)).Nodup
  fheap : ∀ e ∈ s.heap, ∀ r tag, e.kind = .result r tag → tag.run < runsOf s e.trial
  fnext : ∀ p ∈ s.next, ∀ a ∈ p.2, a.tag.run < runsOf s p.1
  flog : ∀ en ∈ s.log, en.tag.run < runsOf s en.trial
  pre : ∀ t r, ∃ m, logIdx s t r ++ nextIdx s t r ++ heapIdx s t r = List.range m

theorem pf_alookup_mem {β} (k : Nat) (v : β) (l : List (Nat × β)) (h : alookup k l = some v) : (k, v) ∈ l := by
  induction l with
  | nil => simp [alookup] at h
  | cons q qs ih =>
    obtain ⟨k', v'⟩ := q
    unfold alookup at h
    split at h
    · rename_i hk
      simp only [Option.some.injEq] at h
      subst hk; subst h
      exact List.mem_cons_self
    · exact List.mem_cons_of_mem _ (ih h)

theorem pf_mem_aset {β} (k : Nat) (v : β) (l : List (Nat × β)) (p : Nat × β) (h : p ∈ aset k v l) :
    p = (k, v) ∨ p ∈ l := by
  induction l with
  | nil => simp only [aset, List.mem_singleton] at h; exact Or.inl h
  | cons q qs ih =>
    obtain ⟨k', v'⟩ := q
    unfold aset at h
    split at h
    · rcases List.mem_cons.mp h with h | h
      · exact Or.inl h
      · exact Or.inr (List.mem_cons_of_mem _ h)
    · rcases List.mem_cons.mp h with h | h
      · exact Or.inr (by rw [h]; exact List.mem_cons_self)
      · rcases ih h with h | h
        · exact Or.inl h
        · exact Or.inr (List.mem_cons_of_mem _ h)

theorem pf_mem_adel {β} (k : Nat) (l : List (Nat × β)) (p : Nat × β) (h : p ∈ adel k l) : p ∈ l := by
  induction l with
  | nil => simp [adel] at h
  | cons q qs ih =>
    obtain ⟨k', v'⟩ := q
    unfold adel at h
    split at h
    · exact List.mem_cons_of_mem _ h
    · rcases List.mem_cons.mp h with h | h
      · rw [h]; exact List.mem_cons_self
      · exact List.mem_cons_of_mem _ (ih h)

theorem heapIdx_fresh {s : Sim J} (h : Inv1 s) {t r : Nat} (hr : runsOf s t ≤ r) : heapIdx s t r = [] := by
  unfold heapIdx
  rw [List.filterMap_eq_nil_iff]
  intro e he
  cases hf : tagIdxOf t r e with
  | none => rfl
  | some i =>
    obtain ⟨res, tag, hk, ht, htr, _⟩ := tagIdxOf_some hf
    have := h.fheap e he res tag hk
    rw [ht, htr] at this
    omega

theorem nextIdx_fresh {s : Sim J} (h : Inv1 s) {t r : Nat} (hr : runsOf s t ≤ r) : nextIdx s t r = [] := by
  unfold nextIdx
  cases hl : alookup t s.next with
  | none => rfl
  | some l =>
    simp only [Option.getD_some, List.map_eq_nil_iff, List.filter_eq_nil_iff]
    intro a ha
    have := h.fnext (t, l) (pf_alookup_mem _ _ _ hl) a ha
    simp only at this
    simp; omega

theorem logIdx_fresh {s : Sim J} (h : Inv1 s) {t r : Nat} (hr : runsOf s t ≤ r) : logIdx s t r = [] := by
  unfold logIdx
  simp only [List.map_eq_nil_iff, List.filter_eq_nil_iff]
  intro en hen
  have := h.flog en hen
  simp only [Bool.and_eq_true, beq_iff_eq, not_and]
  intro ht
  rw [ht] at this
  omega

/-! ### `pushResults` and the heap -/

theorem pushResults_heapIdx_other (A : Arith) (t : Nat) (te : Rat) (run : Nat) (t' r' : Nat)
    (hne : ¬ (t = t' ∧ run = r')) (rs : List Res) :
    ∀ (s : Sim J) (i : Nat) (tf : Rat),
      (pushResults A s t te run rs i tf).1.heap.filterMap (tagIdxOf t' r') = s.heap.filterMap (tagIdxOf t' r') := by
  induction rs with
  | nil => intro s i tf; rfl
  | cons r rs ih =>
    intro s i tf
    simp only [pushResults]
    rw [ih, push_heap, filterMap_insertEv_none]
    rw [tagIdxOf_result _ _ _ r ⟨run, i⟩ rfl]
    exact if_neg hne

theorem pushResults_heapIdx_same (A : Arith) (hA : AddMono A) (t : Nat) (te : Rat) (run : Nat) (rs : List Res) :
    ∀ (s : Sim J) (i : Nat) (tf : Rat), HeapOK s → rs.Pairwise (fun a b => a.elapsed ≤ b.elapsed) →
      (∀ e ∈ s.heap, tagIdxOf t run e ≠ none → ∀ r ∈ rs, e.time ≤ A.add (A.add te r.elapsed) s.cfg.dResult) →
      (pushResults A s t te run rs i tf).1.heap.filterMap (tagIdxOf t run) =
        s.heap.filterMap (tagIdxOf t run) ++ List.range' i rs.length := by
  induction rs with
  | nil => intro s i tf _ _ _; simp [pushResults]
  | cons r rs ih =>
    intro s i tf hok hp hb
    rw [List.pairwise_cons] at hp
    simp only [pushResults]
    rw [ih _ _ _ (hok.push _ _ _) hp.2]
    · rw [push_heap, filterMap_insertEv_last _ _ _ hok.sorted]
      · rw [tagIdxOf_result _ _ _ r ⟨run, i⟩ rfl]
        simp [List.range'_succ]
      · intro x hx hne
        exact ⟨hb x hx hne r List.mem_cons_self, hok.cnt_lt x hx⟩
    · intro e he hne r' hr'
      simp only [push_heap, mem_insertEv] at he
      simp only [push_cfg]
      rcases he with rfl | he
      · exact hA.2 _ _ _ (hA.1 _ _ _ (hp.1 r' hr'))
      · exact hb e he hne r' (List.mem_cons_of_mem _ hr')

theorem startResult_heap_eq (A : Arith) (s : Sim J) (t : Nat) (te : Rat) (x : STrial) (js' : J) (status : St)
    (rs : List Res) :
    (startResult A s t te x js' status rs).heap =
      insertEv ⟨A.add (pushResults A ({ s with js := js' } : Sim J) t te x.runs rs 0 te).2 s.cfg.dCompleteFinal,
                (pushResults A ({ s with js := js' } : Sim J) t te x.runs rs 0 te).1.added, t,
                .complete status (some x.runs)⟩
        (pushResults A ({ s with js := js' } : Sim J) t te x.runs rs 0 te).1.heap := rfl

theorem startResult_heapIdx_other (A : Arith) (s : Sim J) (t : Nat) (te : Rat) (x : STrial) (js' : J) (status : St)
    (rs : List Res) (t' r' : Nat) (hne : ¬ (t = t' ∧ x.runs = r')) :
    heapIdx (startResult A s t te x js' status rs) t' r' = heapIdx s t' r' := by
  unfold heapIdx
  rw [startResult_heap_eq, filterMap_insertEv_none _ _ _ (tagIdxOf_kind (by intro _ _ h; cases h)),
    pushResults_heapIdx_other A t te x.runs t' r' hne]

theorem startResult_heapIdx_same (A : Arith) (hA : AddMono A) (s : Sim J) (t : Nat) (te : Rat) (x : STrial) (js' : J)
    (status : St) (rs : List Res) (hok : HeapOK s) (hp : rs.Pairwise (fun a b => a.elapsed ≤ b.elapsed))
    (hno : ∀ e ∈ s.heap, tagIdxOf t x.runs e = none) :
    heapIdx (startResult A s t te x js' status rs) t x.runs = List.range rs.length := by
  unfold heapIdx
  rw [startResult_heap_eq, filterMap_insertEv_none _ _ _ (tagIdxOf_kind (by intro _ _ h; cases h)),
    pushResults_heapIdx_same A hA t te x.runs rs ({ s with js := js' } : Sim J) 0 te (hok.of_eq rfl rfl) hp]
  · have : s.heap.filterMap (tagIdxOf t x.runs) = [] := List.filterMap_eq_nil_iff.mpr hno
    simp only [this, List.nil_append, List.range_eq_range']
  · intro e he hne
    exact absurd (hno e he) hne

/-! ### elementary state changes -/

theorem filterMap_cons_toList {α β} (f : α → Option β) (a : α) (l : List α) :
    (a :: l).filterMap f = (f a).toList ++ l.filterMap f := by
  rw [List.filterMap_cons]; cases f a <;> rfl

theorem Inv1.frame {s s' : Sim J} (h : Inv1 s) (hh : s'.heap = s.heap) (ha : s'.added = s.added)
    (hn : s'.next = s.next) (hl : s'.log = s.log) (hr : ∀ t, runsOf s' t = runsOf s t) : Inv1 s' := by
  refine ⟨h.heapOK.of_eq hh ha, by rw [hn]; exact h.nd, ?_, ?_, ?_, ?_⟩
  · intro e he r tag hk; rw [hr]; rw [hh] at he; exact h.fheap e he r tag hk
  · intro p hp a ha'; rw [hr]; rw [hn] at hp; exact h.fnext p hp a ha'
  · intro en hen; rw [hr]; rw [hl] at hen; exact h.flog en hen
  · intro t r
    obtain ⟨m, hm⟩ := h.pre t r
    refine ⟨m, ?_⟩
    unfold logIdx nextIdx heapIdx at *
    rw [hh, hn, hl]; exact hm

/-- removing a head entry that is not a result event -/
theorem Inv1.pop {s : Sim J} {e : Ev} {rest : List Ev} (h : Inv1 s) (hheap : s.heap = e :: rest)
    (hk : ∀ res tag, e.kind ≠ .result res tag) : Inv1 ({ s with heap := rest } : Sim J) := by
  have hsub : ∀ e' ∈ rest, e' ∈ s.heap := by intro e' he'; rw [hheap]; exact List.mem_cons_of_mem _ he'
  refine ⟨h.heapOK.sub (by rw [hheap]; exact List.sublist_cons_self e rest) rfl, h.nd, ?_, h.fnext, h.flog, ?_⟩
  · intro e' he' r tag hk'; exact h.fheap e' (hsub e' he') r tag hk'
  · intro t r
    obtain ⟨m, hm⟩ := h.pre t r
    refine ⟨m, ?_⟩
    unfold logIdx nextIdx heapIdx at *
    rw [hheap, filterMap_cons_toList, tagIdxOf_kind hk] at hm
    exact hm

theorem Inv1.push {s : Sim J} (h : Inv1 s) (tm : Rat) (t : Nat) (k : EvKind) (hk : ∀ res tag, k ≠ .result res tag) :
    Inv1 (s.push tm t k) := by
  refine ⟨h.heapOK.push _ _ _, h.nd, ?_, h.fnext, h.flog, ?_⟩
  · intro e he r tag hke
    simp only [push_heap, mem_insertEv] at he
    rcases he with rfl | he
    · exact absurd hke (hk r tag)
    · exact h.fheap e he r tag hke
  · intro t' r
    obtain ⟨m, hm⟩ := h.pre t' r
    refine ⟨m, ?_⟩
    unfold logIdx nextIdx heapIdx at *
    rw [push_heap, filterMap_insertEv_none _ _ _ (tagIdxOf_kind hk)]
    exact hm

/-! ### the event handlers -/

theorem startResult_trials_get (A : Arith) (s : Sim J) (t : Nat) (te : Rat) (x : STrial) (js' : J) (status : St)
    (rs : List Res) (u : Nat) :
    (startResult A s t te x js' status rs).trials[u]? =
      if u = t then (s.trials[u]?).map (fun y => { y with runs := y.runs + 1 }) else s.trials[u]? := by
  have htr := (pushResults_fields A t te x.runs rs ({ s with js := js' } : Sim J) 0 te).2.2.1
  simp only [startResult]
  rw [updT_get]
  simp only [push_trials, htr]

theorem startResult_next_log (A : Arith) (s : Sim J) (t : Nat) (te : Rat) (x : STrial) (js' : J) (status : St)
    (rs : List Res) :
    (startResult A s t te x js' status rs).next = s.next ∧ (startResult A s t te x js' status rs).log = s.log := by
  have hf := pushResults_fields A t te x.runs rs ({ s with js := js' } : Sim J) 0 te
  simp only at hf
  exact ⟨hf.2.2.2.1, hf.2.2.2.2.1⟩

theorem startResult_runsOf (A : Arith) (s : Sim J) (t : Nat) (te : Rat) (x : STrial) (js' : J) (status : St)
    (rs : List Res) (hx : s.trials[t]? = some x) (u : Nat) :
    runsOf (startResult A s t te x js' status rs) u = if u = t then x.runs + 1 else runsOf s u := by
  unfold runsOf
  rw [startResult_trials_get]
  by_cases hu : u = t
  · subst hu; simp [hx]
  · simp only [hu, if_false]

theorem Inv1.startRes {A : Arith} (hA : AddMono A) {s : Sim J} (h : Inv1 s) (t : Nat) (te : Rat) (x : STrial)
    (js' : J) (status : St) (rs : List Res) (hx : s.trials[t]? = some x)
    (hp : rs.Pairwise (fun a b => a.elapsed ≤ b.elapsed)) :
    Inv1 (startResult A s t te x js' status rs) := by
  have hro := startResult_runsOf A s t te x js' status rs hx
  obtain ⟨hn, hl⟩ := startResult_next_log A s t te x js' status rs
  have hxr : runsOf s t = x.runs := runsOf_some hx
  have hmono : ∀ u, runsOf s u ≤ runsOf (startResult A s t te x js' status rs) u := by
    intro u; rw [hro]
    by_cases hu : u = t
    · subst hu; simp only [if_true]; omega
    · simp only [hu, if_false]; exact Nat.le_refl _
  refine ⟨h.heapOK.startResult _ _ _ _ _ _, by rw [hn]; exact h.nd, ?_, ?_, ?_, ?_⟩
  · intro e he r tag hk
    simp only [startResult, updT_heap, push_heap, mem_insertEv] at he
    rcases he with rfl | he
    · cases hk
    · rw [pushResults_mem] at he
      rcases he with he | ⟨k, r', _, rfl⟩
      · exact Nat.lt_of_lt_of_le (h.fheap e he r tag hk) (hmono _)
      · simp only [EvKind.result.injEq] at hk
        obtain ⟨_, rfl⟩ := hk
        rw [hro]; simp
  · intro p hpm a ha
    rw [hn] at hpm
    exact Nat.lt_of_lt_of_le (h.fnext p hpm a ha) (hmono _)
  · intro en hen
    rw [hl] at hen
    exact Nat.lt_of_lt_of_le (h.flog en hen) (hmono _)
  · intro t' r'
    have hlog : logIdx (startResult A s t te x js' status rs) t' r' = logIdx s t' r' := by
      unfold logIdx; rw [hl]
    have hnext : nextIdx (startResult A s t te x js' status rs) t' r' = nextIdx s t' r' := by
      unfold nextIdx; rw [hn]
    by_cases hc : t = t' ∧ x.runs = r'
    · obtain ⟨rfl, rfl⟩ := hc
      refine ⟨rs.length, ?_⟩
      rw [hlog, hnext, logIdx_fresh h (by omega), nextIdx_fresh h (by omega)]
      rw [startResult_heapIdx_same A hA s t te x js' status rs h.heapOK hp]
      · rfl
      · have := heapIdx_fresh h (t := t) (r := x.runs) (by omega)
        unfold heapIdx at this
        exact List.filterMap_eq_nil_iff.mp this
    · obtain ⟨m, hm⟩ := h.pre t' r'
      refine ⟨m, ?_⟩
      rw [hlog, hnext, startResult_heapIdx_other A s t te x js' status rs t' r' hc]
      exact hm

theorem Inv1.processEvent {A : Arith} {job : JobFn J} (hA : AddMono A) (hjob : JobSorted job) {s s' : Sim J}
    {e : Ev} {rest : List Ev} (h : Inv1 s) (hheap : s.heap = e :: rest)
    (hev : ({ s with heap := rest } : Sim J).processEvent A job e = .ok s') : Inv1 s' := by
  have hsub : ∀ e' ∈ rest, e' ∈ s.heap := by intro e' he'; rw [hheap]; exact List.mem_cons_of_mem _ he'
  unfold Sim.processEvent at hev
  split at hev
  · rename_i hk
    obtain ⟨x, js', status, rs, hx, hj, rfl⟩ := processStart_inv hev
    have h0 : Inv1 ({ s with heap := rest } : Sim J) := h.pop hheap (by intro _ _ hh; rw [hk] at hh; cases hh)
    exact h0.startRes hA _ _ _ _ _ _ hx (hjob _ _ _ _ _ hj)
  · rename_i st nat hk
    obtain ⟨_, rfl⟩ := processComplete_inv hev
    have h0 : Inv1 ({ s with heap := rest } : Sim J) := h.pop hheap (by intro _ _ hh; rw [hk] at hh; cases hh)
    exact h0.frame rfl rfl rfl rfl (fun u => runsOf_updT _ _ _ _ (fun y => rfl))
  · rename_i hk
    cases hev
    have h0 : Inv1 ({ s with heap := rest } : Sim J) := h.pop hheap (by intro _ _ hh; rw [hk] at hh; cases hh)
    refine ⟨h0.heapOK.sub List.filter_sublist rfl, h0.nd, ?_, h0.fnext, h0.flog, ?_⟩
    · intro e' he' r tag hk'
      exact h0.fheap e' (List.mem_filter.mp he').1 r tag hk'
    · intro t r
      obtain ⟨m, hm⟩ := h0.pre t r
      by_cases ht : t = e.trial
      · subst ht
        refine ⟨(logIdx ({ s with heap := rest } : Sim J) e.trial r ++ nextIdx ({ s with heap := rest } : Sim J) e.trial r).length, ?_⟩
        have hnil : heapIdx (({ s with heap := rest } : Sim J).processStop e.trial) e.trial r = [] := by
          unfold heapIdx Sim.processStop
          rw [List.filterMap_eq_nil_iff]
          intro e' he'
          have := (List.mem_filter.mp he').2
          exact tagIdxOf_trial (by simpa using this)
        rw [hnil, List.append_nil]
        exact range_prefix hm
      · refine ⟨m, ?_⟩
        have hsame : heapIdx (({ s with heap := rest } : Sim J).processStop e.trial) t r =
            heapIdx ({ s with heap := rest } : Sim J) t r := by
          unfold heapIdx Sim.processStop
          refine filterMap_filter_same _ _ _ ?_
          intro e' _ hp
          refine tagIdxOf_trial ?_
          intro hh
          rw [hh] at hp
          simp at hp
          exact ht hp
        rw [hsame]; exact hm
  · rename_i res tag hk
    obtain ⟨_, rfl⟩ := processResult_inv hev
    have hro : ∀ u, runsOf ({ (({ s with heap := rest } : Sim J).updT e.trial fun y =>
          if y.isResult then y else { y with isResult := true, status := .inProgress }) with
          next := aset e.trial ((alookup e.trial s.next).getD [] ++ [⟨res, e.time, tag⟩]) s.next } : Sim J) u =
        runsOf s u := by
      intro u
      refine (runsOf_updT ({ s with heap := rest } : Sim J) e.trial u _ (fun y => ?_))
      split <;> rfl
    have hefresh := h.fheap e (by rw [hheap]; exact List.mem_cons_self) res tag hk
    refine ⟨(h.heapOK.sub (s' := ({ s with heap := rest } : Sim J)) (by rw [hheap]; exact List.sublist_cons_self e rest) rfl).of_eq rfl rfl,
      aset_keys_nodup _ _ _ h.nd, ?_, ?_, ?_, ?_⟩
    · intro e' he' r tg hk'
      rw [hro]; exact h.fheap e' (hsub e' he') r tg hk'
    · intro p hp a ha
      rw [hro]
      rcases pf_mem_aset _ _ _ _ hp with rfl | hp
      · simp only [List.mem_append, List.mem_singleton] at ha
        rcases ha with ha | rfl
        · cases hq : alookup e.trial s.next with
          | none => rw [hq] at ha; simp at ha
          | some q =>
            rw [hq] at ha
            exact h.fnext _ (pf_alookup_mem _ _ _ hq) a ha
        · exact hefresh
      · exact h.fnext p hp a ha
    · intro en hen
      rw [hro]; exact h.flog en hen
    · intro t r
      obtain ⟨m, hm⟩ := h.pre t r
      refine ⟨m, ?_⟩
      rw [← hm]
      unfold logIdx nextIdx heapIdx
      simp only [updT_log, updT_heap]
      rw [hheap, filterMap_cons_toList, alookup_aset, tagIdxOf_result t r e res tag hk]
      by_cases ht : t = e.trial
      · subst ht
        by_cases hr : tag.run = r
        · simp [hr]
        · simp [hr]
      · have : ¬ e.trial = t := fun hh => ht hh.symm
        simp [ht, this]

theorem Inv1.processUntil {A : Arith} {job : JobFn J} (hA : AddMono A) (hjob : JobSorted job) {fuel : Nat}
    {s s' : Sim J} (h : Inv1 s) (hp : Sim.processUntil A job fuel s = .ok s') : Inv1 s' := by
  refine processUntil_induct A job Inv1 ?_ fuel s s' h hp
  intro s e rest s1 hs hheap _ hev
  exact hs.processEvent hA hjob hheap hev

/-! ### polls: `fetchCovered`, `dropRest` -/

theorem logIdx_append_map (log : List LogEntry) (l : List Arrived) (t t' r : Nat) (d : Bool) :
    ((log ++ l.map (fun (a : Arrived) => (⟨t, a.tag, d, a⟩ : LogEntry))).filter
        (fun en => en.trial == t' && en.tag.run == r)).map (·.tag.idx) =
      (log.filter (fun en => en.trial == t' && en.tag.run == r)).map (·.tag.idx) ++
        if t = t' then (l.filter (fun a => a.tag.run == r)).map (·.tag.idx) else [] := by
  rw [List.filter_append, List.map_append]
  congr 1
  by_cases ht : t = t'
  · subst ht
    simp only [if_true]
    induction l with
    | nil => rfl
    | cons a as ih =>
      simp only [List.map_cons, List.filter_cons, beq_self_eq_true, Bool.true_and]
      split
      · simp only [List.map_cons]; rw [ih]
      · exact ih
  · simp only [ht, if_false, List.map_eq_nil_iff, List.filter_eq_nil_iff]
    intro en hen
    obtain ⟨a, _, rfl⟩ := List.mem_map.mp hen
    simp [ht]

theorem Inv1.flush1 {s : Sim J} (h : Inv1 s) {t : Nat} {l : List Arrived} (hl : alookup t s.next = some l) (d : Bool)
    (sn : List (Nat × Nat)) (f : STrial → STrial) (hf : ∀ y, (f y).runs = y.runs) :
    Inv1 (Sim.updT ({ s with next := adel t s.next, seen := sn, log := s.log ++ l.map (fun (a : Arrived) => (⟨t, a.tag, d, a⟩ : LogEntry)) } : Sim J) t f) := by
  have hro : ∀ u, runsOf (Sim.updT ({ s with next := adel t s.next, seen := sn, log := s.log ++ l.map (fun (a : Arrived) => (⟨t, a.tag, d, a⟩ : LogEntry)) } : Sim J) t f) u = runsOf s u :=
    fun u => runsOf_updT _ _ _ _ hf
  refine ⟨h.heapOK.of_eq rfl rfl, adel_keys_nodup _ _ h.nd, ?_, ?_, ?_, ?_⟩
  · intro e he r tag hk; rw [hro]; exact h.fheap e he r tag hk
  · intro p hp a ha; rw [hro]; exact h.fnext p (pf_mem_adel _ _ _ hp) a ha
  · intro en hen
    rw [hro]
    rcases List.mem_append.mp hen with hen | hen
    · exact h.flog en hen
    · obtain ⟨a, ha, rfl⟩ := List.mem_map.mp hen
      exact h.fnext _ (pf_alookup_mem _ _ _ hl) a ha
  · intro t' r
    obtain ⟨m, hm⟩ := h.pre t' r
    refine ⟨m, ?_⟩
    rw [← hm]
    unfold logIdx nextIdx heapIdx
    simp only [updT_log, updT_heap, updT_next]
    rw [logIdx_append_map, alookup_adel _ _ _ h.nd]
    by_cases ht : t' = t
    · subst ht
      simp [hl]
    · have : ¬ t = t' := fun hh => ht hh.symm
      simp [ht, this]

theorem Inv1.fetchCov (ids : List Nat) : ∀ (s : Sim J), Inv1 s → Inv1 (fetchCovered s ids).1 := by
  induction ids with
  | nil => intro s h; exact h
  | cons t rest ih =>
    intro s h
    unfold fetchCovered
    split
    · exact ih s h
    · rename_i l hl
      exact ih _ (h.flush1 hl true _ _ (fun y => rfl))

/-- the log entries `dropRest` writes -/
def dropEntries (l : List (Nat × List Arrived)) : List LogEntry :=
  l.flatMap fun p => p.2.map fun (a : Arrived) => (⟨p.1, a.tag, false, a⟩ : LogEntry)

theorem dropRest_log (l : List (Nat × List Arrived)) : ∀ (s : Sim J),
    (dropRest s l).log = s.log ++ dropEntries l ∧ ∀ u, runsOf (dropRest s l) u = runsOf s u := by
  induction l with
  | nil => intro s; simp [dropRest, dropEntries, runsOf]
  | cons p rest ih =>
    intro s
    obtain ⟨t, q⟩ := p
    unfold dropRest
    obtain ⟨h1, h2⟩ := ih ({ (s.updT t fun y => { y with droppedSince := y.droppedSince || decide (q ≠ []) }) with seen := incSeen s.seen t q.length, log := s.log ++ q.map (fun (a : Arrived) => (⟨t, a.tag, false, a⟩ : LogEntry)) })
    refine ⟨?_, ?_⟩
    · rw [h1]
      simp [dropEntries, List.append_assoc]
    · intro u
      rw [h2]
      exact runsOf_updT s t u _ (fun y => rfl)

theorem dropEntries_idx (t r : Nat) (l : List (Nat × List Arrived)) (hnd : (l.map (·.1)).Nodup) :
    ((dropEntries l).filter (fun en => en.trial == t && en.tag.run == r)).map (·.tag.idx) =
      (((alookup t l).getD []).filter (fun a => a.tag.run == r)).map (·.tag.idx) := by
  induction l with
  | nil => rfl
  | cons p rest ih =>
    obtain ⟨k, q⟩ := p
    simp only [List.map_cons, List.nodup_cons] at hnd
    have hcons : dropEntries ((k, q) :: rest) =
        ([] ++ q.map (fun (a : Arrived) => (⟨k, a.tag, false, a⟩ : LogEntry))) ++ dropEntries rest := by
      simp [dropEntries]
    rw [hcons, List.filter_append, List.map_append, logIdx_append_map]
    simp only [List.filter_nil, List.map_nil, List.nil_append]
    by_cases ht : t = k
    · subst ht
      simp only [if_true, alookup, Option.getD_some]
      have : (dropEntries rest).filter (fun en => en.trial == t && en.tag.run == r) = [] := by
        rw [List.filter_eq_nil_iff]
        intro en hen
        simp only [dropEntries, List.mem_flatMap, List.mem_map] at hen
        obtain ⟨p, hp, a, _, rfl⟩ := hen
        have : p.1 ≠ t := by
          intro hh
          exact hnd.1 (by rw [← hh]; exact List.mem_map_of_mem hp)
        simp [this]
      rw [this]; simp
    · have hk : ¬ k = t := fun hh => ht hh.symm
      simp only [hk, if_false, List.nil_append, alookup, ht]
      exact ih hnd.2

theorem Inv1.dropAll {s : Sim J} (h : Inv1 s) : Inv1 (dropRest s s.next) := by
  obtain ⟨hlog, hro⟩ := dropRest_log s.next s
  have hd := dropRest_fields s.next s
  refine ⟨h.heapOK.of_eq hd.1 hd.2.1, by rw [hd.2.2.2.2.2.2.2]; simp, ?_, ?_, ?_, ?_⟩
  · intro e he r tag hk; rw [hro]; rw [hd.1] at he; exact h.fheap e he r tag hk
  · intro p hp; rw [hd.2.2.2.2.2.2.2] at hp; cases hp
  · intro en hen
    rw [hro]
    rw [hlog] at hen
    rcases List.mem_append.mp hen with hen | hen
    · exact h.flog en hen
    · simp only [dropEntries, List.mem_flatMap, List.mem_map] at hen
      obtain ⟨p, hp, a, ha, rfl⟩ := hen
      exact h.fnext p hp a ha
  · intro t r
    obtain ⟨m, hm⟩ := h.pre t r
    refine ⟨m, ?_⟩
    rw [← hm]
    unfold logIdx nextIdx heapIdx
    rw [hlog, hd.1, hd.2.2.2.2.2.2.2, List.filter_append, List.map_append, dropEntries_idx t r s.next h.nd]
    simp [alookup]

theorem Inv1.fetchDrop {s : Sim J} (h : Inv1 s) (ids : List Nat) :
    Inv1 (dropRest (fetchCovered s ids).1 (fetchCovered s ids).1.next) :=
  (Inv1.fetchCov ids s h).dropAll

/-! ### a preservation principle (predicates that look at heap, arrived results, log and the
ghost fields `runs`, `since`, `droppedSince`, `expectRun`, `queuedAtResume` of the trials) -/

/-- the fields of a trial record the order invariants look at -/
def rv (x : STrial) : Nat × List Tag × Bool × Nat × Bool :=
  (x.runs, x.since, x.droppedSince, x.expectRun, x.queuedAtResume)

theorem rv_updT (s : Sim J) (t : Nat) (f : STrial → STrial) (hf : ∀ y, rv (f y) = rv y) :
    (s.updT t f).trials.map rv = s.trials.map rv :=
  map_modifyAt_of_eq rv f hf t s.trials

theorem rv_get {l l' : List STrial} (h : l'.map rv = l.map rv) (u : Nat) : (l'[u]?).map rv = (l[u]?).map rv := by
  have := congrArg (fun m => m[u]?) h
  simpa only [List.getElem?_map] using this

theorem rv_markFlushed (ids : List Nat) (l : List STrial) : (markFlushed ids l).map rv = l.map rv := by
  apply List.ext_getElem?
  intro u
  simp only [List.getElem?_map, markFlushed_get]
  cases l[u]? with
  | none => rfl
  | some y =>
    simp only [Option.map_some, Option.some.injEq]
    split <;> rfl

theorem runsOf_of_rv {s s' : Sim J} (h : s'.trials.map rv = s.trials.map rv) (u : Nat) : runsOf s' u = runsOf s u := by
  have := rv_get h u
  unfold runsOf
  cases h1 : s'.trials[u]? with
  | none =>
    rw [h1] at this
    cases h2 : s.trials[u]? with
    | none => rfl
    | some y => rw [h2] at this; cases this
  | some y' =>
    rw [h1] at this
    cases h2 : s.trials[u]? with
    | none => rw [h2] at this; cases this
    | some y =>
      rw [h2] at this
      simp only [Option.map_some, Option.some.injEq] at this
      have := congrArg Prod.fst this
      simpa [rv] using this

structure Keep (A : Arith) (job : JobFn TabState) (P : TB → Prop) : Prop where
  ev : ∀ (s : TB) (e : Ev) (rest : List Ev) (s' : TB), P s → s.heap = e :: rest →
      ({ s with heap := rest } : TB).processEvent A job e = .ok s' → P s'
  frame : ∀ (s s' : TB), P s → s'.heap = s.heap → s'.added = s.added → s'.next = s.next → s'.log = s.log →
      s'.trials.map rv = s.trials.map rv → P s'
  push : ∀ (s : TB) (tm : Rat) (t : Nat) (k : EvKind), (∀ r tag, k ≠ .result r tag) → P s → P (s.push tm t k)
  fetch : ∀ (s : TB) (ids : List Nat), P s → P (dropRest (fetchCovered s ids).1 (fetchCovered s ids).1.next)
  newTrial : ∀ (s : TB), P s → P ({ s with trials := s.trials ++ [{}] } : TB)

section keep
variable {A : Arith} {job : JobFn TabState} {P : TB → Prop}

theorem Keep.processUntil (hp : Keep A job P) {fuel : Nat} {s s' : TB} (h : P s)
    (hu : Sim.processUntil A job fuel s = .ok s') : P s' := by
  refine processUntil_induct A job P ?_ fuel s s' h hu
  intro s e rest s1 hs hheap _ hev
  exact hp.ev s e rest s1 hs hheap hev

theorem Keep.advance (hp : Keep A job P) {s s' : TB} {step : Rat} (h : P s) (ha : s.advance A step = .ok s') : P s' := by
  obtain ⟨_, rfl⟩ := advance_inv ha
  exact hp.frame _ _ h rfl rfl rfl rfl rfl

theorem Keep.schedule (hp : Keep A job P) {s s' : TB} {t : Nat} (h : P s) (hs : s.schedule A job t = .ok s') : P s' := by
  obtain ⟨s1, s2, h1, h2, rfl⟩ := schedule_inv hs
  have a2 := hp.processUntil (hp.advance h h1) h2
  exact hp.frame _ _ (hp.push _ (A.add s2.now s2.cfg.dStart) t .start (by intro r tag hk; cases hk) a2)
    rfl rfl rfl rfl rfl

theorem Keep.stopOrPause (hp : Keep A job P) {s s' : TB} {t : Nat} {st : St} (h : P s)
    (hs : s.stopOrPause A job t st = .ok s') : P s' := by
  obtain ⟨s1, s3, s5, h1, h3, h5, rfl⟩ := stopOrPause_inv hs
  have a1 := hp.advance h h1
  have a3 : P s3 := by
    refine hp.processUntil ?_ h3
    exact hp.frame _ _ (hp.push _ _ t .stop (by intro r tag hk; cases hk) a1) rfl rfl rfl rfl rfl
  have a5 : P s5 := by
    refine hp.processUntil ?_ h5
    exact hp.frame _ _ (hp.push _ _ t (.complete st none) (by intro r tag hk; cases hk) a3) rfl rfl rfl rfl rfl
  exact hp.frame _ _ a5 rfl rfl rfl rfl rfl

theorem Keep.stopTrial (hp : Keep A job P) {s s' : TB} {t : Nat} (h : P s)
    (hs : s.stopTrial A job t = .ok s') : P s' := by
  refine hp.stopOrPause ?_ hs
  exact hp.frame _ _ h rfl rfl rfl rfl (rv_updT _ _ _ (fun y => rfl))

theorem Keep.stopAllGo (hp : Keep A job P) (l : List Nat) : ∀ {s s' : TB}, P s →
    simStopAllGo A job s l = .ok s' → P s' := by
  induction l with
  | nil => intro s s' h hs; cases hs; exact h
  | cons t rest ih =>
    intro s s' h hs
    unfold simStopAllGo at hs
    split at hs
    · exact ih h hs
    · split at hs
      · cases h1 : s.stopTrial A job t with
        | error e => rw [h1] at hs; cases hs
        | ok s1 => rw [h1] at hs; exact ih (hp.stopTrial h h1) hs
      · exact ih h hs

/-- every operation except `resume_trial` (which is left to the caller) -/
theorem Keep.step (hp : Keep A job P) {s s' : TB} {op : SOp} (h : P s)
    (hs : TB.step A job s op = .ok s') (hres : ∀ t nc, op = .resume t nc → P s') : P s' := by
  cases op with
  | start cfg =>
    simp only [TB.step, Sim.startTrial] at hs
    cases h1 : s.schedule A job s.trials.length with
    | error e => rw [h1] at hs; cases hs
    | ok s1 =>
      rw [h1] at hs; cases hs
      have a1 := hp.schedule h h1
      exact hp.frame _ _ (hp.newTrial _ a1) rfl rfl rfl rfl rfl
  | resume t nc => exact hres t nc rfl
  | pause t lv =>
    simp only [TB.step, Sim.pauseTrial] at hs
    split at hs
    · cases h1 : Sim.stopOrPause A job (s.updT t _) t .paused with
      | error e => rw [h1] at hs; cases hs
      | ok s1 =>
        rw [h1] at hs; cases hs
        have a : P s1 := by
          refine hp.stopOrPause ?_ h1
          exact hp.frame _ _ h rfl rfl rfl rfl (rv_updT _ _ _ (fun y => rfl))
        exact hp.frame _ _ a rfl rfl rfl rfl rfl
    · cases hs
  | stop t => exact hp.stopTrial h hs
  | fetch ids =>
    simp only [TB.step] at hs
    cases h1 : s.fetch A job ids with
    | error e => rw [h1] at hs; cases hs
    | ok r =>
      obtain ⟨s1, sts, res⟩ := r
      rw [h1] at hs; cases hs
      obtain ⟨s1', s2, h1', h2, _, rfl⟩ := fetch_inv h1
      have a2 := hp.processUntil (hp.advance h h1') h2
      exact hp.frame _ _ (hp.fetch s2 ids a2) rfl rfl rfl rfl (rv_markFlushed _ _)
  | busy =>
    simp only [TB.step, Sim.busyIds] at hs
    cases h1 : Sim.processUntil A job simFuel s with
    | error e => rw [h1] at hs; cases hs
    | ok s1 => rw [h1] at hs; cases hs; exact hp.processUntil h h1
  | sleep => exact hp.advance h hs
  | advance dt => exact hp.advance h hs
  | tick dt => cases hs; exact hp.frame _ _ h rfl rfl rfl rfl rfl
  | tape d => cases hs; exact hp.frame _ _ h rfl rfl rfl rfl rfl
  | stopAll => exact hp.stopAllGo _ h hs

end keep

/-! ### the order invariant holds in every reachable state -/

theorem runsOf_newTrial (s : Sim J) (u : Nat) :
    runsOf ({ s with trials := s.trials ++ [{}] } : Sim J) u = runsOf s u := by
  unfold runsOf
  simp only
  by_cases hu : u < s.trials.length
  · rw [List.getElem?_append_left hu]
  · rw [List.getElem?_append_right (by omega), List.getElem?_eq_none (l := s.trials) (by omega)]
    by_cases h0 : u - s.trials.length = 0
    · rw [h0]; rfl
    · rw [List.getElem?_eq_none (by simp; omega)]

theorem Inv1.keep {A : Arith} {job : JobFn TabState} (hA : AddMono A) (hjob : JobSorted job) : Keep A job Inv1 where
  ev := fun _ _ _ _ h hheap hev => h.processEvent hA hjob hheap hev
  frame := fun _ _ h hh ha hn hl hr => h.frame hh ha hn hl (runsOf_of_rv hr)
  push := fun _ tm t k hk h => h.push tm t k hk
  fetch := fun _ ids h => h.fetchDrop ids
  newTrial := fun s h => h.frame rfl rfl rfl rfl (runsOf_newTrial s)

theorem Inv1.step {A : Arith} {job : JobFn TabState} (hA : AddMono A) (hjob : JobSorted job) {s s' : TB} {op : SOp}
    (h : Inv1 s) (hs : TB.step A job s op = .ok s') : Inv1 s' := by
  refine (Inv1.keep hA hjob).step h hs ?_
  rintro t nc rfl
  simp only [TB.step, Sim.resumeTrial] at hs
  split at hs
  · cases hs
  · split at hs
    · cases hs
    · split at hs
      · cases hs
      · cases h1 : Sim.schedule A job ({ s with js := _ } : TB) t with
        | error e => rw [h1] at hs; cases hs
        | ok s1 =>
          rw [h1] at hs; cases hs
          have a : Inv1 s1 := by
            refine (Inv1.keep hA hjob).schedule ?_ h1
            exact h.frame rfl rfl rfl rfl (fun _ => rfl)
          exact a.frame rfl rfl rfl rfl (fun u => runsOf_updT _ _ _ _ (fun y => rfl))

theorem Inv1.run {A : Arith} {job : JobFn TabState} (hA : AddMono A) (hjob : JobSorted job) (ops : List SOp) :
    ∀ {s s' : TB}, Inv1 s → TB.run A job s ops = .ok s' → Inv1 s' := by
  induction ops with
  | nil => intro s s' h hs; cases hs; exact h
  | cons op ops ih =>
    intro s s' h hs
    unfold TB.run at hs
    cases h1 : TB.step A job s op with
    | error e => rw [h1] at hs; cases hs
    | ok s1 => rw [h1] at hs; exact ih (h.step hA hjob h1) hs

theorem Inv1.init (cfg : SimCfg) (js : TabState) : Inv1 (TB.init cfg js) := by
  refine ⟨HeapOK.init cfg js, by simp [TB.init], ?_, ?_, ?_, ?_⟩
  · intro e he; simp [TB.init] at he
  · intro p hp; simp [TB.init] at hp
  · intro en hen; simp [TB.init] at hen
  · intro t r; exact ⟨0, by simp [logIdx, nextIdx, heapIdx, TB.init, alookup]⟩

/-- **prefix (simulator).** -/
theorem sim_prefix_run (A : Arith) (job : JobFn TabState) (hA : AddMono A) (hjob : JobSorted job)
    (cfg : SimCfg) (js : TabState) (ops : List SOp) (s' : TB)
    (h : TB.run A job (TB.init cfg js) ops = .ok s') :
    ∀ t r, ∃ m, logIdx s' t r ++ nextIdx s' t r ++ heapIdx s' t r = List.range m :=
  (Inv1.run hA hjob ops (Inv1.init cfg js) h).pre

/-! ### what was delivered since the last start / resume -/

structure RT (s : Sim J) (t : Nat) (x : STrial) : Prop where
  r1 : x.expectRun ≤ x.runs
  r2a : ∀ l, alookup t s.next = some l → ∀ a ∈ l, x.expectRun ≤ a.tag.run
  r2b : ∀ e ∈ s.heap, e.trial = t → ∀ r tag, e.kind = .result r tag → x.expectRun ≤ tag.run
  r3 : ∀ tag ∈ x.since, x.expectRun ≤ tag.run
  r4 : x.droppedSince = false → ∀ q, x.expectRun ≤ q →
      logIdx s t q = (x.since.filter (·.run == q)).map (·.idx)

def RInv (s : Sim J) : Prop :=
  ∀ (t : Nat) (x : STrial), s.trials[t]? = some x → x.queuedAtResume = false → RT s t x

theorem RT.weaken {s s' : Sim J} {t : Nat} {x x' : STrial} (h : RT s t x) (hh : ∀ e ∈ s'.heap, e ∈ s.heap)
    (hn : alookup t s'.next = alookup t s.next) (hl : ∀ q, logIdx s' t q = logIdx s t q) (hrv : rv x' = rv x) :
    RT s' t x' := by
  simp only [rv, Prod.mk.injEq] at hrv
  obtain ⟨e1, e2, e3, e4, _⟩ := hrv
  refine ⟨by rw [e1, e4]; exact h.r1, ?_, ?_, by rw [e2, e4]; exact h.r3, ?_⟩
  · rw [hn, e4]; exact h.r2a
  · intro e he; rw [e4]; exact h.r2b e (hh e he)
  · intro hd q hq
    rw [hl, e2]
    exact h.r4 (by rw [← e3]; exact hd) q (by rw [← e4]; exact hq)

theorem rv_get_some {l l' : List STrial} (h : l'.map rv = l.map rv) (u : Nat) (x' : STrial) (hx' : l'[u]? = some x') :
    ∃ x, l[u]? = some x ∧ rv x' = rv x := by
  have := rv_get h u
  rw [hx'] at this
  cases hx : l[u]? with
  | none => rw [hx] at this; cases this
  | some x => rw [hx] at this; simp at this; exact ⟨x, rfl, this⟩

theorem RInv.weaken {s s' : Sim J} (h : RInv s) (hh : ∀ e ∈ s'.heap, e ∈ s.heap) (hn : s'.next = s.next)
    (hl : s'.log = s.log) (hr : s'.trials.map rv = s.trials.map rv) : RInv s' := by
  intro t x' hx' hq
  obtain ⟨x, hx, hrv⟩ := rv_get_some hr t x' hx'
  have hq0 : x.queuedAtResume = false := by
    have := hrv; simp only [rv, Prod.mk.injEq] at this; rw [← this.2.2.2.2]; exact hq
  exact (h t x hx hq0).weaken hh (by rw [hn]) (by intro q; unfold logIdx; rw [hl]) hrv

theorem RInv.push {s : Sim J} (h : RInv s) (tm : Rat) (t : Nat) (k : EvKind) (hk : ∀ res tag, k ≠ .result res tag) :
    RInv (s.push tm t k) := by
  intro u x hx hq
  have h0 := h u x hx hq
  refine ⟨h0.r1, h0.r2a, ?_, h0.r3, h0.r4⟩
  intro e he hu r tag hke
  simp only [push_heap, mem_insertEv] at he
  rcases he with rfl | he
  · exact absurd hke (hk r tag)
  · exact h0.r2b e he hu r tag hke

theorem RInv.processEvent {A : Arith} {job : JobFn J} {s s' : Sim J} {e : Ev} {rest : List Ev} (h : RInv s)
    (hheap : s.heap = e :: rest) (hev : ({ s with heap := rest } : Sim J).processEvent A job e = .ok s') :
    RInv s' := by
  have hsub : ∀ e' ∈ rest, e' ∈ s.heap := by intro e' he'; rw [hheap]; exact List.mem_cons_of_mem _ he'
  unfold Sim.processEvent at hev
  split at hev
  · obtain ⟨x, js', status, rs, hx, hj, rfl⟩ := processStart_inv hev
    obtain ⟨hn, hl⟩ := startResult_next_log A ({ s with heap := rest } : Sim J) e.trial e.time x js' status rs
    intro u x' hx' hq
    rw [startResult_trials_get] at hx'
    have hheap' : ∀ e' ∈ (startResult A ({ s with heap := rest } : Sim J) e.trial e.time x js' status rs).heap,
        ∀ r tag, e'.kind = .result r tag → e' ∈ s.heap ∨ (e'.trial = e.trial ∧ tag.run = x.runs) := by
      intro e' he' r tag hk
      simp only [startResult, updT_heap, push_heap, mem_insertEv] at he'
      rcases he' with rfl | he'
      · cases hk
      · rw [pushResults_mem] at he'
        rcases he' with he' | ⟨k, r', _, rfl⟩
        · exact Or.inl (hsub e' he')
        · simp only [EvKind.result.injEq] at hk
          obtain ⟨_, rfl⟩ := hk
          exact Or.inr ⟨rfl, rfl⟩
    by_cases hu : u = e.trial
    · subst hu
      simp only [if_true] at hx'
      have hx0 : s.trials[e.trial]? = some x := hx
      rw [hx0] at hx'
      simp only [Option.map_some, Option.some.injEq] at hx'
      subst hx'
      have h0 := h e.trial x hx0 hq
      refine ⟨Nat.le_succ_of_le h0.r1, by rw [hn]; exact h0.r2a, ?_, h0.r3, ?_⟩
      · intro e' he' ht r tag hk
        rcases hheap' e' he' r tag hk with h1 | ⟨_, h1⟩
        · exact h0.r2b e' h1 ht r tag hk
        · rw [h1]; exact h0.r1
      · intro hd q hq'
        have := h0.r4 hd q hq'
        unfold logIdx at *
        rw [hl]; exact this
    · simp only [hu, if_false] at hx'
      have h0 := h u x' hx' hq
      refine ⟨h0.r1, by rw [hn]; exact h0.r2a, ?_, h0.r3, ?_⟩
      · intro e' he' ht r tag hk
        rcases hheap' e' he' r tag hk with h1 | ⟨h1, _⟩
        · exact h0.r2b e' h1 ht r tag hk
        · exact absurd (ht.symm.trans h1) hu
      · intro hd q hq'
        have := h0.r4 hd q hq'
        unfold logIdx at *
        rw [hl]; exact this
  · obtain ⟨_, rfl⟩ := processComplete_inv hev
    exact h.weaken hsub rfl rfl (rv_updT _ _ _ (fun y => rfl))
  · cases hev
    exact h.weaken (fun e' he' => hsub e' (List.mem_filter.mp he').1) rfl rfl rfl
  · rename_i res tag hk
    obtain ⟨_, rfl⟩ := processResult_inv hev
    have hrv : (({ s with heap := rest } : Sim J).updT e.trial fun y =>
          if y.isResult then y else { y with isResult := true, status := .inProgress }).trials.map rv =
        s.trials.map rv := by
      refine rv_updT ({ s with heap := rest } : Sim J) _ _ (fun y => ?_)
      split <;> rfl
    intro u x' hx' hq
    obtain ⟨x, hx, hrvx⟩ := rv_get_some hrv u x' hx'
    have hq0 : x.queuedAtResume = false := by
      have := hrvx; simp only [rv, Prod.mk.injEq] at this; rw [← this.2.2.2.2]; exact hq
    have h0 := h u x hx hq0
    by_cases hu : u = e.trial
    · subst hu
      have h1 : RT s e.trial x' := h0.weaken (fun _ hh => hh) rfl (fun _ => rfl) hrvx
      refine ⟨h1.r1, ?_, fun e' he' => h1.r2b e' (hsub e' he'), h1.r3, h1.r4⟩
      intro l hl a ha
      simp only [alookup_aset, if_true, Option.some.injEq] at hl
      subst hl
      simp only [List.mem_append, List.mem_singleton] at ha
      rcases ha with ha | rfl
      · cases hq' : alookup e.trial s.next with
        | none => rw [hq'] at ha; simp at ha
        | some q => rw [hq'] at ha; exact h1.r2a q hq' a ha
      · exact h1.r2b e (by rw [hheap]; exact List.mem_cons_self) rfl res tag hk
    · exact h0.weaken hsub (by simp only [alookup_aset, hu, if_false]) (fun _ => rfl) hrvx

/-! ### polls -/

theorem tag_filter_map (l : List Arrived) (q : Nat) :
    ((l.map Arrived.tag).filter (·.run == q)).map (·.idx) = (l.filter (fun a => a.tag.run == q)).map (·.tag.idx) := by
  induction l with
  | nil => rfl
  | cons a as ih =>
    simp only [List.map_cons, List.filter_cons]
    split
    · simp only [List.map_cons]; rw [ih]
    · exact ih

theorem RInv.flush1 {s : Sim J} (h1 : Inv1 s) (h : RInv s) {t : Nat} {l : List Arrived} (hl : alookup t s.next = some l)
    (sn : List (Nat × Nat)) :
    RInv (Sim.updT ({ s with next := adel t s.next, seen := sn, log := s.log ++ l.map (fun (a : Arrived) => (⟨t, a.tag, true, a⟩ : LogEntry)) } : Sim J) t
      (fun y => { y with since := y.since ++ l.map Arrived.tag })) := by
  intro u x' hx' hq
  rw [updT_get] at hx'
  have hlog : ∀ q, logIdx (Sim.updT ({ s with next := adel t s.next, seen := sn, log := s.log ++ l.map (fun (a : Arrived) => (⟨t, a.tag, true, a⟩ : LogEntry)) } : Sim J) t
      (fun y => { y with since := y.since ++ l.map Arrived.tag })) u q =
      logIdx s u q ++ if t = u then (l.filter (fun a => a.tag.run == q)).map (·.tag.idx) else [] := by
    intro q
    unfold logIdx
    simp only [updT_log]
    exact logIdx_append_map s.log l t u q true
  by_cases hu : u = t
  · subst hu
    simp only [if_true] at hx'
    cases hx : s.trials[u]? with
    | none => simp [hx] at hx'
    | some x =>
      simp only [hx, Option.map_some, Option.some.injEq] at hx'
      subst hx'
      have h0 := h u x hx hq
      refine ⟨h0.r1, ?_, h0.r2b, ?_, ?_⟩
      · intro l' hl'
        simp only [updT_next] at hl'
        rw [alookup_adel _ _ _ h1.nd] at hl'
        simp at hl'
      · intro tag htag
        rcases List.mem_append.mp htag with htag | htag
        · exact h0.r3 tag htag
        · obtain ⟨a, ha, rfl⟩ := List.mem_map.mp htag
          exact h0.r2a l hl a ha
      · intro hd q hq'
        rw [hlog, h0.r4 hd q hq']
        simp only [if_true, List.filter_append, List.map_append, tag_filter_map]
  · simp only [hu, if_false] at hx'
    have h0 := h u x' hx' hq
    refine h0.weaken (fun _ hh => hh) ?_ ?_ rfl
    · simp only [updT_next]
      rw [alookup_adel _ _ _ h1.nd]
      simp [hu]
    · intro q
      rw [hlog]
      have : ¬ t = u := fun hh => hu hh.symm
      simp [this]

theorem RInv.fetchCov (ids : List Nat) : ∀ (s : Sim J), Inv1 s → RInv s → RInv (fetchCovered s ids).1 := by
  induction ids with
  | nil => intro s _ h; exact h
  | cons t rest ih =>
    intro s h1 h
    unfold fetchCovered
    split
    · exact ih s h1 h
    · rename_i l hl
      exact ih _ (h1.flush1 hl true _ _ (fun y => rfl)) (RInv.flush1 h1 h hl _)

theorem RInv.dropR (l : List (Nat × List Arrived)) : ∀ (s : Sim J), RInv s → RInv (dropRest s l) := by
  induction l with
  | nil =>
    intro s h
    unfold dropRest
    intro u x hx hq
    have h0 := h u x hx hq
    exact ⟨h0.r1, by intro l hl; simp [alookup] at hl, h0.r2b, h0.r3, h0.r4⟩
  | cons p rest ih =>
    intro s h
    obtain ⟨t, q0⟩ := p
    unfold dropRest
    refine ih _ ?_
    intro u x' hx' hq
    have hx'' : (s.updT t fun y => { y with droppedSince := y.droppedSince || decide (q0 ≠ []) }).trials[u]? = some x' := hx'
    rw [updT_get] at hx''
    have hlog : ∀ q, logIdx ({ (s.updT t fun y => { y with droppedSince := y.droppedSince || decide (q0 ≠ []) }) with seen := incSeen s.seen t q0.length, log := s.log ++ q0.map (fun (a : Arrived) => (⟨t, a.tag, false, a⟩ : LogEntry)) } : Sim J) u q =
        logIdx s u q ++ if t = u then (q0.filter (fun a => a.tag.run == q)).map (·.tag.idx) else [] := by
      intro q
      unfold logIdx
      exact logIdx_append_map s.log q0 t u q false
    by_cases hu : u = t
    · subst hu
      simp only [if_true] at hx''
      cases hx : s.trials[u]? with
      | none => simp [hx] at hx''
      | some x =>
        simp only [hx, Option.map_some, Option.some.injEq] at hx''
        subst hx''
        have h0 := h u x hx hq
        refine ⟨h0.r1, h0.r2a, h0.r2b, h0.r3, ?_⟩
        intro hd q hq'
        simp only [Bool.or_eq_false_iff, decide_eq_false_iff_not, not_not] at hd
        rw [hlog, hd.2]
        simp only [List.filter_nil, List.map_nil, ite_self, List.append_nil]
        exact h0.r4 hd.1 q hq'
    · simp only [hu, if_false] at hx''
      have h0 := h u x' hx'' hq
      refine h0.weaken (fun _ hh => hh) rfl ?_ rfl
      intro q
      rw [hlog]
      have : ¬ t = u := fun hh => hu hh.symm
      simp [this]

/-! ### the combined invariant -/

def Inv2 (s : Sim J) : Prop := Inv1 s ∧ RInv s

theorem newTrial_get (l : List STrial) (u : Nat) (x : STrial) (hx : (l ++ [({} : STrial)])[u]? = some x) :
    l[u]? = some x ∨ (u = l.length ∧ x = {}) := by
  by_cases hu : u < l.length
  · rw [List.getElem?_append_left hu] at hx; exact Or.inl hx
  · rw [List.getElem?_append_right (by omega)] at hx
    right
    have : u - l.length = 0 := by
      by_contra hne
      rw [List.getElem?_eq_none (by simp; omega)] at hx; cases hx
    rw [this] at hx
    simp at hx
    exact ⟨by omega, hx.symm⟩

theorem Inv2.keep {A : Arith} {job : JobFn TabState} (hA : AddMono A) (hjob : JobSorted job) : Keep A job Inv2 where
  ev := fun _ _ _ _ h hheap hev => ⟨h.1.processEvent hA hjob hheap hev, h.2.processEvent hheap hev⟩
  frame := fun _ _ h hh ha hn hl hr =>
    ⟨h.1.frame hh ha hn hl (runsOf_of_rv hr), h.2.weaken (by rw [hh]; exact fun _ h => h) hn hl hr⟩
  push := fun _ tm t k hk h => ⟨h.1.push tm t k hk, h.2.push tm t k hk⟩
  fetch := fun s ids h => ⟨h.1.fetchDrop ids, RInv.dropR _ _ (RInv.fetchCov ids s h.1 h.2)⟩
  newTrial := by
    intro s h
    refine ⟨h.1.frame rfl rfl rfl rfl (runsOf_newTrial s), ?_⟩
    intro u x hx hq
    rcases newTrial_get s.trials u x hx with hx | ⟨hu, rfl⟩
    · exact (h.2 u x hx hq).weaken (fun _ hh => hh) rfl (fun _ => rfl) rfl
    · refine ⟨Nat.le_refl _, fun _ _ _ _ => Nat.zero_le _, fun _ _ _ _ _ _ => Nat.zero_le _, (by intro tag htag; cases htag), ?_⟩
      intro _ q _
      have hro : runsOf s u = 0 := by
        unfold runsOf
        rw [List.getElem?_eq_none (by omega)]; rfl
      have := logIdx_fresh h.1 (t := u) (r := q) (by omega)
      unfold logIdx at *
      simpa using this

theorem Inv2.resumeTrial {A : Arith} {job : JobFn TabState} (hA : AddMono A) (hjob : JobSorted job)
    (hjs : JobStatusOK job) {s s' : TB} {t : Nat} {setCfg : TabState → TabState} (hc : CmdInv s) (h : Inv2 s)
    (hs : s.resumeTrial A job t setCfg = .ok s') : Inv2 s' := by
  have hp := Inv2.keep hA hjob
  unfold Sim.resumeTrial at hs
  cases hx : s.trials[t]? with
  | none => rw [hx] at hs; cases hs
  | some x =>
    rw [hx] at hs
    simp only at hs
    split at hs
    · cases hs
    · rename_i hres
      split at hs
      · cases hs
      · rename_i hpa
        simp only [not_not] at hres hpa
        cases h1 : Sim.schedule A job ({ s with js := setCfg s.js } : TB) t with
        | error e => rw [h1] at hs; cases hs
        | ok s1 =>
          rw [h1] at hs
          cases hs
          obtain ⟨sa, s2, ha, h2, rfl⟩ := schedule_inv h1
          have hc0 : CmdInv ({ s with js := setCfg s.js } : TB) := hc.of_same rfl rfl rfl rfl rfl
          have hc2 : CmdInv s2 := (hc0.advanceOutside ha).processUntil hjs h2
          have h0 : Inv2 ({ s with js := setCfg s.js } : TB) := hp.frame _ _ h rfl rfl rfl rfl rfl
          have i2 : Inv2 s2 := hp.processUntil (hp.advance h0 ha) h2
          have hla : sa.trials = s.trials := by obtain ⟨_, rfl⟩ := advance_inv ha; rfl
          have hcf2 : s2.trials.map cf = s.trials.map cf := by rw [processUntil_cf h2, hla]
          have hcmd : x.commanded = true := hc.paused.st t x hx hres hpa
          obtain ⟨x2, hx2, hcfx⟩ := cf_get (l := s2.trials) (l' := s.trials) hcf2.symm t x hx
          have hcmd2 : x2.commanded = true := by
            have := congrArg Prod.fst hcfx; simp only [cf] at this; rw [this]; exact hcmd
          have hno : NoEv t s2.heap := hc2.quiet t x2 hx2 hcmd2
          have i3 : Inv2 (s2.push (A.add s2.now s2.cfg.dStart) t .start) :=
            hp.push _ _ t .start (by intro r tag hk; cases hk) i2
          refine ⟨i3.1.frame rfl rfl rfl rfl (fun u => runsOf_updT _ _ _ _ (fun y => rfl)), ?_⟩
          intro u x' hx' hq
          rw [updT_get] at hx'
          by_cases hu : u = t
          · subst hu
            simp only [if_true] at hx'
            simp only [Sim.markExit, push_trials, hx2, Option.map_some, Option.some.injEq] at hx'
            subst hx'
            simp only [push_next] at hq
            have hnone : alookup u s2.next = none := by
              cases hq' : alookup u s2.next with
              | none => rfl
              | some l => rw [hq'] at hq; simp at hq
            refine ⟨Nat.le_refl _, ?_, ?_, (by intro tag htag; cases htag), ?_⟩
            · intro l hl
              simp only [updT_next, Sim.markExit, push_next, hnone] at hl
              cases hl
            · intro e he ht r tag hk
              simp only [updT_heap, Sim.markExit, push_heap, mem_insertEv] at he
              rcases he with rfl | he
              · cases hk
              · exact absurd ht (hno e he)
            · intro _ q hq'
              simp only at hq'
              have := logIdx_fresh i2.1 (t := u) (r := q) (by rw [runsOf_some hx2]; exact hq')
              show logIdx s2 u q = _
              rw [this]; rfl
          · simp only [hu, if_false] at hx'
            exact (i3.2 u x' hx' hq).weaken (fun _ hh => hh) rfl (fun _ => rfl) rfl

theorem Inv2.step {A : Arith} {job : JobFn TabState} (hA : AddMono A) (hjob : JobSorted job) (hjs : JobStatusOK job)
    {s s' : TB} {op : SOp} (hc : CmdInv s) (h : Inv2 s) (hs : TB.step A job s op = .ok s') : Inv2 s' := by
  refine (Inv2.keep hA hjob).step h hs ?_
  rintro t nc rfl
  simp only [TB.step] at hs
  exact Inv2.resumeTrial hA hjob hjs hc h hs

theorem Inv2.run {A : Arith} {job : JobFn TabState} (hA : AddMono A) (hA2 : AddGe A) (hjob : JobSorted job)
    (hjs : JobStatusOK job) (ops : List SOp) :
    ∀ {s s' : TB}, CmdInv s → Inv2 s → TB.run A job s ops = .ok s' → Inv2 s' := by
  induction ops with
  | nil => intro s s' _ h hs; cases hs; exact h
  | cons op ops ih =>
    intro s s' hc h hs
    unfold TB.run at hs
    cases h1 : TB.step A job s op with
    | error e => rw [h1] at hs; cases hs
    | ok s1 => rw [h1] at hs; exact ih (hc.step hA2 hjs h1) (h.step hA hjob hjs hc h1) hs

theorem Inv2.init (cfg : SimCfg) (js : TabState) : Inv2 (TB.init cfg js) := by
  refine ⟨Inv1.init cfg js, ?_⟩
  intro t x hx
  simp [TB.init] at hx

/-- **fresh after resume — partial (simulator).**  If nothing was queued for the trial when it
was resumed and nothing of it has been dropped since, the first result delivered since the
resume has index 0 and belongs to a run started after the resume. -/
theorem sim_resume_fresh_run (A : Arith) (job : JobFn TabState) (hA : AddMono A) (hA2 : AddGe A)
    (hjob : JobSorted job) (hjs : JobStatusOK job)
    (cfg : SimCfg) (js : TabState) (hg : 0 ≤ cfg.guard) (ops : List SOp) (s' : TB)
    (h : TB.run A job (TB.init cfg js) ops = .ok s') :
    ∀ (t : Nat) (x : STrial), s'.trials[t]? = some x → x.queuedAtResume = false → x.droppedSince = false →
      ∀ tag, x.since.head? = some tag → tag.idx = 0 ∧ x.expectRun ≤ tag.run := by
  obtain ⟨i1, i2⟩ := Inv2.run hA hA2 hjob hjs ops (CmdInv.init cfg js hg) (Inv2.init cfg js) h
  intro t x hx hq hd tag htag
  have h0 := i2 t x hx hq
  cases hsince : x.since with
  | nil => rw [hsince] at htag; cases htag
  | cons tg rest =>
    rw [hsince] at htag
    simp only [List.head?_cons, Option.some.injEq] at htag
    subst htag
    have hrun : x.expectRun ≤ tg.run := h0.r3 tg (by rw [hsince]; exact List.mem_cons_self)
    refine ⟨?_, hrun⟩
    have h4 := h0.r4 hd tg.run hrun
    rw [hsince] at h4
    simp only [List.filter_cons, beq_self_eq_true, if_true, List.map_cons] at h4
    obtain ⟨m, hm⟩ := i1.pre t tg.run
    rw [h4] at hm
    cases m with
    | zero => simp at hm
    | succ m =>
      rw [List.range_succ_eq_map] at hm
      simp only [List.cons_append, List.cons.injEq] at hm
      exact hm.1

end SyneTune.SimL
