import SyneTune.Lemmas.DomainsSpace
import SyneTune.Lemmas.DomainsNN
import SyneTune.Lemmas.DomainsFin
/- C07 helper lemmas: the encoder of one hyperparameter, uniformly over all kinds. -/
namespace SyneTune.Dom
open SyneTune

theorem mkRange_core {env : Env} {c : Consts} {h : HP} {r : Range} (hmk : mkRange env c h = .ok r) :
    mkRangeCore env c h = .ok r ∧ ∀ a, h.active = some a → subSpaceOk a h.dom = true := by
  unfold mkRange at hmk
  split at hmk
  · rename_i a ha
    split at hmk
    · rename_i hs
      exact ⟨hmk, fun a' ha' => by rw [ha] at ha'; injection ha' with ha'; subst ha'; exact hs⟩
    · cases hmk
  · rename_i ha
    exact ⟨hmk, fun a' ha' => by rw [ha] at ha'; cases ha'⟩

theorem member_cat {env : Env} {d : CatDom} (hok : catsOk d.cats = true) {v : Val} (hv : v ∈ d.cats) :
    (Domain.cat d).member env v = true := by
  simp only [Domain.member, Bool.and_eq_true, beq_iff_eq]
  exact ⟨vtypeOf_mem hok hv, pyIn_of_mem hv⟩

theorem nn_catsOk {d : NNDom} (hok : d.ok = true) : catsOk d.cats = true := by
  unfold NNDom.ok at hok
  simp only [Bool.and_eq_true] at hok
  exact hok.1.1.1

theorem member_nn {env : Env} {d : NNDom} (hok : d.ok = true) {v : Val} (hv : v ∈ d.cats) :
    (Domain.nn d).member env v = true := by
  simp only [Domain.member, Bool.and_eq_true, beq_iff_eq]
  exact ⟨vtypeOf_mem (nn_catsOk hok) hv, pyIn_of_mem hv⟩

theorem member_fin {env : Env} {d : FinDom} {v : Val} (hv : v ∈ d.values env) :
    (Domain.fin d).member env v = true := by
  simp only [Domain.member]
  exact List.contains_iff_mem.mpr hv

/-- the admissible coordinates of `from_ndarray` -/
def InMargin (c : Consts) (x : ℚ) : Prop := -c.eps ≤ x ∧ x ≤ 1 + c.eps

theorem range_size_pos_single {r : Range} (hne : ∀ o, r ≠ .onehot o) : r.size = 1 := by
  cases r <;> simp_all [Range.size]

/-- **every decoded value is a member of its domain** — any scaling, any constants -/
theorem range_decode_member {env : Env} {c : Consts} {h : HP} {r : Range} (hok : h.dom.ok = true)
    (hmk : mkRange env c h = .ok r) (xs : List ℚ) (hlen : xs.length = r.size)
    (hx : ∀ x ∈ xs, InMargin c x) : ∃ v, r.decode env c xs = .ok v ∧ h.dom.member env v = true := by
  obtain ⟨hcore, _⟩ := mkRange_core hmk
  unfold mkRangeCore at hcore
  cases hd : h.dom with
  | nn d =>
    rw [hd] at hcore hok
    simp only at hcore
    split at hcore
    · rename_i o ho
      injection hcore with hcore; subst hcore
      simp only [Range.size] at hlen
      obtain ⟨x, rfl⟩ := List.length_eq_one_iff.mp hlen
      obtain ⟨v, hv, hm⟩ := (ordnn_decode_member ho x).1 (hx x (by simp))
      exact ⟨v, by simpa [Range.decode, Range.decode1] using hv, member_nn hok hm⟩
    · cases hcore
  | cat d =>
    rw [hd] at hcore hok
    simp only at hcore
    simp only [Domain.ok] at hok
    split at hcore
    · split at hcore
      · rename_i o ho
        injection hcore with hcore; subst hcore
        simp only [Range.size] at hlen
        obtain ⟨x, rfl⟩ := List.length_eq_one_iff.mp hlen
        obtain ⟨v, hv, hm⟩ := (ordeq_decode_member ho x).1 (hx x (by simp))
        exact ⟨v, by simpa [Range.decode, Range.decode1] using hv, member_cat hok hm⟩
      · cases hcore
    · split at hcore
      · split at hcore
        · rename_i o ho
          injection hcore with hcore; subst hcore
          simp only [Range.size] at hlen
          obtain ⟨x, rfl⟩ := List.length_eq_one_iff.mp hlen
          obtain ⟨v, hv, hm⟩ := (binary_decode_member ho x).1 (hx x (by simp))
          exact ⟨v, by simpa [Range.decode, Range.decode1] using hv, member_cat hok hm⟩
        · cases hcore
      · split at hcore
        · rename_i o ho
          injection hcore with hcore; subst hcore
          obtain ⟨_, hc⟩ := mkOneHot_ok ho
          simp only [Range.size, hc] at hlen
          obtain ⟨v, hv, hm⟩ := (onehot_decode_member ho xs).1 hlen
          exact ⟨v, by simpa [Range.decode] using hv, member_cat hok hm⟩
        · cases hcore
  | fin d =>
    rw [hd] at hcore hok
    simp only at hcore
    simp only [Domain.ok] at hok
    split at hcore
    · cases hcore
    · split at hcore
      · rename_i o ho
        injection hcore with hcore; subst hcore
        simp only [Range.size] at hlen
        obtain ⟨x, rfl⟩ := List.length_eq_one_iff.mp hlen
        rw [fin_encScale] at ho
        obtain ⟨v, hv, hm⟩ := (fin_decode_member hok ho x).1 (hx x (by simp))
        exact ⟨v, by simpa [Range.decode, Range.decode1] using hv, member_fin hm⟩
      · cases hcore
  | flt d =>
    rw [hd] at hcore hok
    simp only at hcore
    split at hcore
    · rename_i o ho
      injection hcore with hcore; subst hcore
      simp only [Range.size] at hlen
      obtain ⟨x, rfl⟩ := List.length_eq_one_iff.mp hlen
      obtain ⟨core, hc1, hc2⟩ := mkCont_ok ho
      obtain ⟨_, _, _, hcc, _, _⟩ := withBounds_ok hc2
      obtain ⟨v, hv, h1, h2⟩ := (cont_decode_member (c := c) hc1 x).1 (hx x (by simp))
      refine ⟨.flt v, ?_, ?_⟩
      · simp only [Range.decode, Range.decode1, hcc, hv]
      · simp only [Domain.member, decide_eq_true_eq]; exact ⟨h1, h2⟩
    · cases hcore
  | int d =>
    rw [hd] at hcore hok
    simp only at hcore
    split at hcore
    · rename_i o ho
      injection hcore with hcore; subst hcore
      simp only [Range.size] at hlen
      obtain ⟨x, rfl⟩ := List.length_eq_one_iff.mp hlen
      obtain ⟨k, hk, h1, h2⟩ := (int_decode_member ho x).1 (hx x (by simp))
      refine ⟨.int k, ?_, ?_⟩
      · simp only [Range.decode, Range.decode1, hk]
      · simp only [Domain.member, decide_eq_true_eq]; exact ⟨h1, h2⟩
    · cases hcore

end SyneTune.Dom
