import SyneTune.Lemmas.DomainsSpace
import SyneTune.Lemmas.DomainsNN
import SyneTune.Lemmas.DomainsFin
/- C07 helper lemmas: the encoder of one hyperparameter, uniformly over all kinds. -/
namespace SyneTune.Dom
open SyneTune

theorem mkRange_core {env : Env} {c : Consts} {h : HP} {r : Range} (hmk : mkRange env c h = .ok r) :
    mkRangeCore env c h = .ok r ∧ ∀ a, h.active = some a → subSpaceOk a h.dom = true := by
  unfold mkRange at hmk
  split at hmk
  · rename_i a ha
    split at hmk
    · rename_i hs
      exact ⟨hmk, fun a' ha' => by rw [ha] at ha'; injection ha' with ha'; subst ha'; exact hs⟩
    · cases hmk
  · rename_i ha
    exact ⟨hmk, fun a' ha' => by rw [ha] at ha'; cases ha'⟩

theorem member_cat {env : Env} {d : CatDom} (hok : catsOk d.cats = true) {v : Val} (hv : v ∈ d.cats) :
    (Domain.cat d).member env v = true := by
  simp only [Domain.member, Bool.and_eq_true, beq_iff_eq]
  exact ⟨vtypeOf_mem hok hv, pyIn_of_mem hv⟩

theorem nn_catsOk {d : NNDom} (hok : d.ok = true) : catsOk d.cats = true := by
  unfold NNDom.ok at hok
  simp only [Bool.and_eq_true] at hok
  exact hok.1.1.1

theorem member_nn {env : Env} {d : NNDom} (hok : d.ok = true) {v : Val} (hv : v ∈ d.cats) :
    (Domain.nn d).member env v = true := by
  simp only [Domain.member, Bool.and_eq_true, beq_iff_eq]
  exact ⟨vtypeOf_mem (nn_catsOk hok) hv, pyIn_of_mem hv⟩

theorem member_fin {env : Env} {d : FinDom} {v : Val} (hv : v ∈ d.values env) :
    (Domain.fin d).member env v = true := by
  simp only [Domain.member]
  exact List.contains_iff_mem.mpr hv

/-- the admissible coordinates of `from_ndarray` -/
def InMargin (c : Consts) (x : ℚ) : Prop := -c.eps ≤ x ∧ x ≤ 1 + c.eps

theorem range_size_pos_single {r : Range} (hne : ∀ o, r ≠ .onehot o) : r.size = 1 := by
  cases r <;> simp_all [Range.size]

/-- **every decoded value is a member of its domain** — any scaling, any constants -/
theorem range_decode_member {env : Env} {c : Consts} {h : HP} {r : Range} (hok : h.dom.ok = true)
    (hmk : mkRange env c h = .ok r) (xs : List ℚ) (hlen : xs.length = r.size)
    (hx : ∀ x ∈ xs, InMargin c x) : ∃ v, r.decode env c xs = .ok v ∧ h.dom.member env v = true := by
  obtain ⟨hcore, _⟩ := mkRange_core hmk
  unfold mkRangeCore at hcore
  cases hd : h.dom with
  | nn d =>
    rw [hd] at hcore hok
    simp only at hcore
    split at hcore
    · rename_i o ho
      injection hcore with hcore; subst hcore
      simp only [Range.size] at hlen
      obtain ⟨x, rfl⟩ := List.length_eq_one_iff.mp hlen
      obtain ⟨v, hv, hm⟩ := (ordnn_decode_member ho x).1 (hx x (by simp))
      exact ⟨v, by simpa [Range.decode, Range.decode1] using hv, member_nn hok hm⟩
    · cases hcore
  | cat d =>
    rw [hd] at hcore hok
    simp only at hcore
    simp only [Domain.ok] at hok
    split at hcore
    · split at hcore
      · rename_i o ho
        injection hcore with hcore; subst hcore
        simp only [Range.size] at hlen
        obtain ⟨x, rfl⟩ := List.length_eq_one_iff.mp hlen
        obtain ⟨v, hv, hm⟩ := (ordeq_decode_member ho x).1 (hx x (by simp))
        exact ⟨v, by simpa [Range.decode, Range.decode1] using hv, member_cat hok hm⟩
      · cases hcore
    · split at hcore
      · split at hcore
        · rename_i o ho
          injection hcore with hcore; subst hcore
          simp only [Range.size] at hlen
          obtain ⟨x, rfl⟩ := List.length_eq_one_iff.mp hlen
          obtain ⟨v, hv, hm⟩ := (binary_decode_member ho x).1 (hx x (by simp))
          exact ⟨v, by simpa [Range.decode, Range.decode1] using hv, member_cat hok hm⟩
        · cases hcore
      · split at hcore
        · rename_i o ho
          injection hcore with hcore; subst hcore
          obtain ⟨_, hc⟩ := mkOneHot_ok ho
          simp only [Range.size, hc] at hlen
          obtain ⟨v, hv, hm⟩ := (onehot_decode_member ho xs).1 hlen
          exact ⟨v, by simpa [Range.decode] using hv, member_cat hok hm⟩
        · cases hcore
  | fin d =>
    rw [hd] at hcore hok
    simp only at hcore
    simp only [Domain.ok] at hok
    split at hcore
    · cases hcore
    · split at hcore
      · rename_i o ho
        injection hcore with hcore; subst hcore
        simp only [Range.size] at hlen
        obtain ⟨x, rfl⟩ := List.length_eq_one_iff.mp hlen
        rw [fin_encScale] at ho
        obtain ⟨v, hv, hm⟩ := (fin_decode_member hok ho x).1 (hx x (by simp))
        exact ⟨v, by simpa [Range.decode, Range.decode1] using hv, member_fin hm⟩
      · cases hcore
  | flt d =>
    rw [hd] at hcore hok
    simp only at hcore
    split at hcore
    · rename_i o ho
      injection hcore with hcore; subst hcore
      simp only [Range.size] at hlen
      obtain ⟨x, rfl⟩ := List.length_eq_one_iff.mp hlen
      obtain ⟨core, hc1, hc2⟩ := mkCont_ok ho
      obtain ⟨_, _, _, hcc, _, _⟩ := withBounds_ok hc2
      obtain ⟨v, hv, h1, h2⟩ := (cont_decode_member (c := c) hc1 x).1 (hx x (by simp))
      refine ⟨.flt v, ?_, ?_⟩
      · simp only [Range.decode, Range.decode1, hcc, hv]
      · simp only [Domain.member, decide_eq_true_eq]; exact ⟨h1, h2⟩
    · cases hcore
  | int d =>
    rw [hd] at hcore hok
    simp only at hcore
    split at hcore
    · rename_i o ho
      injection hcore with hcore; subst hcore
      simp only [Range.size] at hlen
      obtain ⟨x, rfl⟩ := List.length_eq_one_iff.mp hlen
      obtain ⟨k, hk, h1, h2⟩ := (int_decode_member ho x).1 (hx x (by simp))
      refine ⟨.int k, ?_, ?_⟩
      · simp only [Range.decode, Range.decode1, hk]
      · simp only [Domain.member, decide_eq_true_eq]; exact ⟨h1, h2⟩
    · cases hcore

theorem single_ok {e : Except Err ℚ} {xs : List ℚ} (h : single e = .ok xs) : ∃ x, e = .ok x ∧ xs = [x] := by
  unfold single at h
  split at h
  · rename_i x; injection h with h; exact ⟨x, rfl, h.symm⟩
  · cases h

theorem single_of_ok {e : Except Err ℚ} {x : ℚ} (h : e = .ok x) : single e = .ok [x] := by
  subst h; rfl

/-- **every encoding has the advertised length and lies in the unit cube** — any encoder -/
theorem range_encode_cube {env : Env} {c : Consts} {r : Range} {v : Val} {xs : List ℚ}
    (h : r.encode env c v = .ok xs) : xs.length = r.size ∧ ∀ x ∈ xs, 0 ≤ x ∧ x ≤ 1 := by
  cases r with
  | cont o =>
    simp only [Range.encode] at h
    split at h
    · obtain ⟨x, hx, rfl⟩ := single_ok h
      exact ⟨rfl, by intro y hy; simp at hy; subst hy; exact cont_encode_cube hx⟩
    · cases h
  | int o =>
    simp only [Range.encode] at h
    split at h
    · obtain ⟨x, hx, rfl⟩ := single_ok h
      exact ⟨rfl, by intro y hy; simp at hy; subst hy; exact int_encode_cube hx⟩
    · cases h
  | fin o =>
    simp only [Range.encode] at h
    split at h
    · obtain ⟨x, hx, rfl⟩ := single_ok h
      exact ⟨rfl, by intro y hy; simp at hy; subst hy; exact fin_encode_cube hx⟩
    · cases h
  | onehot o =>
    simp only [Range.encode, OneHot.encode] at h
    split at h
    · injection h with h; subst h
      refine ⟨by simp [oneHotVec, Range.size], ?_⟩
      intro x hx
      simp only [oneHotVec, List.mem_map, List.mem_range] at hx
      obtain ⟨j, _, rfl⟩ := hx
      split <;> norm_num
    · cases h
  | binary o =>
    simp only [Range.encode] at h
    obtain ⟨x, hx, rfl⟩ := single_ok h
    exact ⟨rfl, by intro y hy; simp at hy; subst hy; exact binary_encode_cube hx⟩
  | ordeq o =>
    simp only [Range.encode] at h
    obtain ⟨x, hx, rfl⟩ := single_ok h
    exact ⟨rfl, by intro y hy; simp at hy; subst hy; exact ordeq_encode_cube hx⟩
  | ordnn o =>
    simp only [Range.encode] at h
    obtain ⟨x, hx, rfl⟩ := single_ok h
    exact ⟨rfl, by intro y hy; simp at hy; subst hy; exact ordnn_encode_cube hx⟩

/-- What the theorems about exact round trips and active sub-ranges assume about the abstract
`exp` / `log` of the environment, per hyperparameter (all trivially true for linear kinds, see
`scalingHyp_lin`): the scaling of the encoder inverts and is monotone on the value interval
(`ScaleOK`); for nearest-neighbour ordinals in log scale `log` is strictly increasing; for
log-spaced finite ranges `log ∘ exp = id` on the internal interval, `log` is monotone and `exp`
maps the internal interval into `[lower, upper]`. -/
def ScalingHyp (env : Env) (c : Consts) : Domain → Prop
  | .flt d => ScaleOK env (Domain.flt d).encScale d.lower d.upper
  | .int d => ScaleOK env (Domain.int d).encScale (intLo c d.lower) (intHi c d.upper)
  | .nn d => LogMono env d.log
  | .fin d => d.log = true →
      (∀ t, d.lowInt env ≤ t → t ≤ d.upInt env → env.log.toInt (env.log.fromInt t) = t) ∧
      d.lowInt env ≤ d.upInt env ∧
      (∀ t, d.lowInt env ≤ t → t ≤ d.upInt env →
        d.lower ≤ env.log.fromInt t ∧ env.log.fromInt t ≤ d.upper)
  | .cat _ => True

/-- the values covered by the round-trip theorem: the members — except that for a finite range
with `cast_int` only linear spacing is covered (for log spacing the statement is false, see
`roundtrip_logfin_castint_counterexample`) -/
def RTVal (env : Env) (d : Domain) (v : Val) : Prop :=
  d.member env v = true ∧
  match d with
  | .fin f => f.castInt = true → f.log = false
  | _ => True

theorem mem_of_member_cats {cats : List Val} {v : Val}
    (h : (v.vtype == vtypeOf cats && pyIn v cats) = true) (hok : catsOk cats = true) : v ∈ cats := by
  simp only [Bool.and_eq_true, beq_iff_eq] at h
  obtain ⟨c', hc, hcv⟩ := pyIn_iff.mp h.2
  have : c' = v := pyEq_eq_of_vtype hcv (by rw [vtypeOf_mem hok hc, h.1])
  subst this; exact hc

/-- **round trip of one hyperparameter value**: `from_ndarray (to_ndarray v) = v`, exactly -/
theorem range_roundtrip {env : Env} {c : Consts} {h : HP} {r : Range} (hok : h.dom.ok = true)
    (hmk : mkRange env c h = .ok r) (heps : 0 ≤ c.eps) (heps2 : c.eps ≤ 1 / 2)
    (hs : ScalingHyp env c h.dom) {v : Val} (hv : RTVal env h.dom v) :
    ∃ xs, r.encode env c v = .ok xs ∧ xs.length = r.size ∧ r.decode env c xs = .ok v := by
  obtain ⟨hcore, _⟩ := mkRange_core hmk
  obtain ⟨hmem, hfin⟩ := hv
  unfold mkRangeCore at hcore
  cases hd : h.dom with
  | nn d =>
    rw [hd] at hcore hok hs hmem
    simp only at hcore
    split at hcore
    · rename_i o ho
      injection hcore with hcore; subst hcore
      have hvm := mem_of_member_cats hmem (nn_catsOk hok)
      obtain ⟨x, e1, e2⟩ := ordnn_roundtrip ho heps hs hvm
      exact ⟨[x], by simp only [Range.encode]; exact single_of_ok e1, rfl,
        by simpa [Range.decode, Range.decode1] using e2⟩
    · cases hcore
  | cat d =>
    rw [hd] at hcore hok hmem
    simp only at hcore
    simp only [Domain.ok] at hok
    have hvm := mem_of_member_cats hmem hok
    split at hcore
    · split at hcore
      · rename_i o ho
        injection hcore with hcore; subst hcore
        obtain ⟨x, e1, e2⟩ := ordeq_roundtrip ho hok heps heps2 hvm
        exact ⟨[x], by simp only [Range.encode]; exact single_of_ok e1, rfl,
          by simpa [Range.decode, Range.decode1] using e2⟩
      · cases hcore
    · split at hcore
      · split at hcore
        · rename_i o ho
          injection hcore with hcore; subst hcore
          obtain ⟨x, e1, e2⟩ := binary_roundtrip ho hok heps heps2 hvm
          exact ⟨[x], by simp only [Range.encode]; exact single_of_ok e1, rfl,
            by simpa [Range.decode, Range.decode1] using e2⟩
        · cases hcore
      · split at hcore
        · rename_i o ho
          injection hcore with hcore; subst hcore
          obtain ⟨xs, e1, e2⟩ := onehot_roundtrip ho hok hvm
          obtain ⟨_, hc⟩ := mkOneHot_ok ho
          refine ⟨xs, by simpa [Range.encode] using e1, ?_, by simpa [Range.decode] using e2⟩
          rw [(onehot_encode_cube ho e1).1]; simp [Range.size, hc]
        · cases hcore
  | fin d =>
    rw [hd] at hcore hok hs hmem hfin
    simp only at hcore hfin
    simp only [Domain.ok] at hok
    split at hcore
    · cases hcore
    · split at hcore
      · rename_i o ho
        injection hcore with hcore; subst hcore
        rw [fin_encScale] at ho
        have hvm : v ∈ d.values env := List.contains_iff_mem.mp hmem
        obtain ⟨k, hk, rfl⟩ := fin_mem_values hvm
        by_cases hci : d.castInt = true
        · have hl := hfin hci
          obtain ⟨x, e1, e2⟩ := fin_roundtrip_castint_lin hok ho hl hci heps heps2 hk
          refine ⟨[x], ?_, rfl, by simpa [Range.decode, Range.decode1] using e2⟩
          simp only [Range.encode, FinDom.valueAt, hci, if_true, numOf, Val.num?]
          exact single_of_ok e1
        · have hci' : d.castInt = false := by simpa using hci
          by_cases hl : d.log = true
          · obtain ⟨h1, h2, h3⟩ := hs hl
            obtain ⟨x, e1, e2⟩ := fin_roundtrip_log hok ho hl hci' heps heps2 h1 h2 h3 hk
            refine ⟨[x], ?_, rfl, by simpa [Range.decode, Range.decode1] using e2⟩
            simp only [Range.encode, FinDom.valueAt, hci', Bool.false_eq_true, if_false, numOf, Val.num?]
            exact single_of_ok e1
          · have hl' : d.log = false := by simpa using hl
            obtain ⟨x, e1, e2⟩ := fin_roundtrip_lin hok ho hl' hci' heps heps2 hk
            refine ⟨[x], ?_, rfl, by simpa [Range.decode, Range.decode1] using e2⟩
            simp only [Range.encode, FinDom.valueAt, hci', Bool.false_eq_true, if_false, numOf, Val.num?]
            exact single_of_ok e1
      · cases hcore
  | flt d =>
    rw [hd] at hcore hok hs hmem
    simp only at hcore
    split at hcore
    · rename_i o ho
      injection hcore with hcore; subst hcore
      obtain ⟨core, hc1, hc2⟩ := mkCont_ok ho
      obtain ⟨_, _, _, hcc, _, _⟩ := withBounds_ok hc2
      cases v with
      | flt x =>
        simp only [Domain.member, decide_eq_true_eq] at hmem
        obtain ⟨y, e1, e2⟩ := cont_roundtrip hc1 heps hs hmem.1 hmem.2
        refine ⟨[y], ?_, rfl, ?_⟩
        · simp only [Range.encode, numOf, Val.num?, hcc]; exact single_of_ok e1
        · simp only [Range.decode, Range.decode1, hcc, e2]
      | int _ => simp [Domain.member] at hmem
      | str _ => simp [Domain.member] at hmem
    · cases hcore
  | int d =>
    rw [hd] at hcore hok hs hmem
    simp only at hcore
    split at hcore
    · rename_i o ho
      injection hcore with hcore; subst hcore
      cases v with
      | int k =>
        simp only [Domain.member, decide_eq_true_eq] at hmem
        obtain ⟨y, e1, e2⟩ := int_roundtrip ho heps heps2 hs hmem.1 hmem.2
        refine ⟨[y], ?_, rfl, ?_⟩
        · simp only [Range.encode, numOf, Val.num?]; exact single_of_ok e1
        · simp only [Range.decode, Range.decode1, e2]
      | flt _ => simp [Domain.member] at hmem
      | str _ => simp [Domain.member] at hmem
    · cases hcore

/-- **coordinates outside `[-EPS, 1+EPS]` are rejected** by every encoder except the one-hot one
(which does not look at the magnitudes, only at the arg max) -/
theorem range_decode_reject {env : Env} {c : Consts} {h : HP} {r : Range}
    (hmk : mkRange env c h = .ok r) (hne : ∀ o, r ≠ .onehot o) {x : ℚ} (hx : ¬ InMargin c x) :
    r.decode env c [x] = .error .assertion := by
  obtain ⟨hcore, _⟩ := mkRange_core hmk
  unfold mkRangeCore at hcore
  cases hd : h.dom with
  | nn d =>
    rw [hd] at hcore
    simp only at hcore
    split at hcore
    · rename_i o ho
      injection hcore with hcore; subst hcore
      simpa [Range.decode, Range.decode1] using (ordnn_decode_member ho x).2 hx
    · cases hcore
  | cat d =>
    rw [hd] at hcore
    simp only at hcore
    split at hcore
    · split at hcore
      · rename_i o ho
        injection hcore with hcore; subst hcore
        simpa [Range.decode, Range.decode1] using (ordeq_decode_member ho x).2 hx
      · cases hcore
    · split at hcore
      · split at hcore
        · rename_i o ho
          injection hcore with hcore; subst hcore
          simpa [Range.decode, Range.decode1] using (binary_decode_member ho x).2 hx
        · cases hcore
      · split at hcore
        · rename_i o ho
          injection hcore with hcore; subst hcore
          exact absurd rfl (hne o)
        · cases hcore
  | fin d =>
    rw [hd] at hcore
    simp only at hcore
    split at hcore
    · cases hcore
    · split at hcore
      · rename_i o ho
        injection hcore with hcore; subst hcore
        unfold InMargin at hx
        have hd2 := int_decode_member (finrange_fields (d := d) (by rw [← fin_encScale]; exact ho)).2.2.2.2.2.2.2.2 x
        simp only [Range.decode, Range.decode1, FinRange.decode, hd2.2 hx]
      · cases hcore
  | flt d =>
    rw [hd] at hcore
    simp only at hcore
    split at hcore
    · rename_i o ho
      injection hcore with hcore; subst hcore
      obtain ⟨core, hc1, hc2⟩ := mkCont_ok ho
      obtain ⟨_, _, _, hcc, _, _⟩ := withBounds_ok hc2
      simp only [Range.decode, Range.decode1, hcc, (cont_decode_member (c := c) hc1 x).2 hx]
    · cases hcore
  | int d =>
    rw [hd] at hcore
    simp only at hcore
    split at hcore
    · rename_i o ho
      injection hcore with hcore; subst hcore
      simp only [Range.decode, Range.decode1, (int_decode_member ho x).2 hx]
    · cases hcore

theorem inBox_single {xs : List ℚ} {a b : ℚ} (h : InBox xs [(a, b)]) : ∃ x, xs = [x] ∧ a ≤ x ∧ x ≤ b := by
  obtain ⟨hl, hb⟩ := h
  simp only [List.length_singleton] at hl
  obtain ⟨x, rfl⟩ := List.length_eq_one_iff.mp hl
  have := hb 0 (by simp) (by simp)
  exact ⟨x, rfl, by simpa using this⟩

/-- an active categorical value: member of the active domain -/
theorem member_active_cats {env : Env} {a base : Domain} {act cats : List Val} {v : Val}
    (hact : a.catsOf = some act) (hcats : base.catsOf = some cats) (hsub : subSpaceOk a base = true)
    (hok : catsOk cats = true) (hv : v ∈ cats) (hin : pyIn v act = true) : a.member env v = true := by
  have hvt : v.vtype = vtypeOf cats := vtypeOf_mem hok hv
  unfold subSpaceOk at hsub
  simp only [Bool.and_eq_true, beq_iff_eq] at hsub
  have hty := hsub.1.1.1
  have hb : base.vtype = vtypeOf cats := by
    cases base <;> simp_all [Domain.catsOf, Domain.vtype]
  cases a with
  | cat d =>
    simp only [Domain.catsOf, Option.some.injEq] at hact
    simp only [Domain.member, Bool.and_eq_true, beq_iff_eq, hact]
    have hty' : vtypeOf act = base.vtype := by rw [← hact]; exact hty
    exact ⟨by rw [hvt, ← hb, ← hty'], hin⟩
  | nn d =>
    simp only [Domain.catsOf, Option.some.injEq] at hact
    simp only [Domain.member, Bool.and_eq_true, beq_iff_eq, hact]
    have hty' : vtypeOf act = base.vtype := by rw [← hact]; exact hty
    exact ⟨by rw [hvt, ← hb, ← hty'], hin⟩
  | flt _ => simp [Domain.catsOf] at hact
  | int _ => simp [Domain.catsOf] at hact
  | fin _ => simp [Domain.catsOf] at hact

theorem catsOf_of_clsSub_cat {a : Domain} {d : CatDom} (h : clsSub a (.cat d) = true) :
    ∃ act, a.catsOf = some act := by
  cases a <;> simp_all [clsSub, Domain.catsOf]

theorem catsOf_of_clsSub_nn {a : Domain} {d : NNDom} (h : clsSub a (.nn d) = true) :
    ∃ act, a.catsOf = some act := by
  cases a <;> simp_all [clsSub, Domain.catsOf]

/-- **active sub-range of one hyperparameter**: every point of the `get_ndarray_bounds` box of the
encoder decodes to a member of the *active* domain.  For the one-hot encoder this needs a positive
coordinate (`hpos`); without it the statement is false (`active_onehot_counterexample`). -/
theorem range_active {env : Env} {c : Consts} {h : HP} {r : Range} {a : Domain}
    (hok : h.dom.ok = true) (hmk : mkRange env c h = .ok r) (ha : h.active = some a)
    (heps : 0 < c.eps) (h499 : c.c499 < 1 / 2) (hs : ScalingHyp env c h.dom)
    {xs : List ℚ} (hbox : InBox xs r.bounds)
    (hpos : (∃ o, r = .onehot o) → ∃ x ∈ xs, 0 < x) :
    ∃ v, r.decode env c xs = .ok v ∧ a.member env v = true := by
  obtain ⟨hcore, hsub⟩ := mkRange_core hmk
  have hsub := hsub a ha
  have hcls : clsSub a h.dom = true := by
    unfold subSpaceOk at hsub; simp only [Bool.and_eq_true] at hsub; exact hsub.2
  unfold mkRangeCore at hcore
  rw [ha] at hcore
  cases hd : h.dom with
  | nn d =>
    rw [hd] at hcore hok hs hsub hcls
    obtain ⟨act, hact⟩ := catsOf_of_clsSub_nn hcls
    simp only [Option.bind_some, hact] at hcore
    split at hcore
    · rename_i o ho
      injection hcore with hcore; subst hcore
      obtain ⟨x, rfl, hx1, hx2⟩ := inBox_single hbox
      obtain ⟨v, hv, hm, hin⟩ := ordnn_active_pyIn ho (le_of_lt heps) h499 hs ⟨hx1, hx2⟩
      exact ⟨v, by simpa [Range.decode, Range.decode1] using hv,
        member_active_cats hact rfl hsub (nn_catsOk hok) hm hin⟩
    · cases hcore
  | cat d =>
    rw [hd] at hcore hok hsub hcls
    obtain ⟨act, hact⟩ := catsOf_of_clsSub_cat hcls
    simp only [Option.bind_some, hact] at hcore
    simp only [Domain.ok] at hok
    split at hcore
    · split at hcore
      · rename_i o ho
        injection hcore with hcore; subst hcore
        obtain ⟨x, rfl, hx1, hx2⟩ := inBox_single hbox
        obtain ⟨v, hv, hm, hin⟩ := ordeq_active ho heps ⟨hx1, hx2⟩
        exact ⟨v, by simpa [Range.decode, Range.decode1] using hv,
          member_active_cats hact rfl hsub hok hm hin⟩
      · cases hcore
    · split at hcore
      · split at hcore
        · rename_i o ho
          injection hcore with hcore; subst hcore
          obtain ⟨x, rfl, hx1, hx2⟩ := inBox_single hbox
          obtain ⟨v, hv, hm, hin⟩ := binary_active ho heps ⟨hx1, hx2⟩
          exact ⟨v, by simpa [Range.decode, Range.decode1] using hv,
            member_active_cats hact rfl hsub hok hm hin⟩
        · cases hcore
      · split at hcore
        · rename_i o ho
          injection hcore with hcore; subst hcore
          obtain ⟨v, hv, hm, hin⟩ := onehot_active_partial ho hbox (hpos ⟨o, rfl⟩)
          exact ⟨v, by simpa [Range.decode] using hv, member_active_cats hact rfl hsub hok hm hin⟩
        · cases hcore
  | fin d =>
    rw [hd] at hcore
    simp at hcore
  | flt d =>
    rw [hd] at hcore hok hs hcls
    cases a with
    | flt ad =>
      simp only [Option.map_some] at hcore
      split at hcore
      · rename_i o ho
        injection hcore with hcore; subst hcore
        obtain ⟨x, rfl, hx1, hx2⟩ := inBox_single hbox
        obtain ⟨core, hc1, hc2⟩ := mkCont_ok ho
        simp only [Option.getD_some] at hc2
        obtain ⟨v, hv, h1, h2⟩ := cont_active hc1 hc2 (le_of_lt heps) hs ⟨hx1, hx2⟩
        refine ⟨.flt v, ?_, ?_⟩
        · simp only [Range.decode, Range.decode1, hv]
        · simp only [Domain.member, decide_eq_true_eq]; exact ⟨h1, h2⟩
      · cases hcore
    | int _ => simp [clsSub] at hcls
    | cat _ => simp [clsSub] at hcls
    | nn _ => simp [clsSub] at hcls
    | fin _ => simp [clsSub] at hcls
  | int d =>
    rw [hd] at hcore hok hs hcls
    cases a with
    | int ad =>
      simp only [Option.map_some] at hcore
      split at hcore
      · rename_i o ho
        injection hcore with hcore; subst hcore
        obtain ⟨x, rfl, hx1, hx2⟩ := inBox_single hbox
        obtain ⟨k, hk, h1, h2⟩ := int_active ho heps hs ⟨hx1, hx2⟩
        simp only [Option.getD_some] at h1 h2
        refine ⟨.int k, ?_, ?_⟩
        · simp only [Range.decode, Range.decode1, hk]
        · simp only [Domain.member, decide_eq_true_eq]; exact ⟨h1, h2⟩
      · cases hcore
    | flt _ => simp [clsSub] at hcls
    | cat _ => simp [clsSub] at hcls
    | nn _ => simp [clsSub] at hcls
    | fin _ => simp [clsSub] at hcls

/-- **`get_ndarray_bounds` of one encoder**: as many entries as coordinates, each inside `[0,1]` -/
theorem range_bounds_cube {env : Env} {c : Consts} {h : HP} {r : Range} (hmk : mkRange env c h = .ok r) :
    r.bounds.length = r.size ∧ ∀ b ∈ r.bounds, 0 ≤ b.1 ∧ b.2 ≤ 1 := by
  obtain ⟨hcore, _⟩ := mkRange_core hmk
  have hcont : ∀ {lower upper : ℚ} {sc : ScaleKind} {aL aU : Option ℚ} {o : ContRange},
      mkCont env c lower upper sc aL aU = .ok o → 0 ≤ o.bLo ∧ o.bHi ≤ 1 := by
    intro lower upper sc aL aU o ho
    obtain ⟨core, _, hc2⟩ := mkCont_ok ho
    have := cont_bounds_cube hc2
    exact ⟨this.1, this.2.2.2⟩
  have hint : ∀ {lower upper : ℤ} {sc : ScaleKind} {aL aU : Option ℤ} {o : IntRange},
      mkInt env c lower upper sc aL aU = .ok o → 0 ≤ o.cont.bLo ∧ o.cont.bHi ≤ 1 := by
    intro lower upper sc aL aU o ho
    obtain ⟨_, _, _, core, _, hc2⟩ := mkInt_ok ho
    have := cont_bounds_cube hc2
    exact ⟨this.1, this.2.2.2⟩
  unfold mkRangeCore at hcore
  cases hd : h.dom with
  | nn d =>
    rw [hd] at hcore
    simp only at hcore
    split at hcore
    · rename_i o ho
      injection hcore with hcore; subst hcore
      obtain ⟨_, _, _, aL, aU, lo, hi, _, _, _, hmc⟩ := mkOrdNN_ok ho
      refine ⟨rfl, ?_⟩
      intro b hb; simp only [Range.bounds, List.mem_singleton] at hb; subst hb
      exact hcont hmc
    · cases hcore
  | cat d =>
    rw [hd] at hcore
    simp only at hcore
    split at hcore
    · split at hcore
      · rename_i o ho
        injection hcore with hcore; subst hcore
        obtain ⟨_, fp, _, hri⟩ := mkOrdEq_ok ho
        refine ⟨rfl, ?_⟩
        intro b hb; simp only [Range.bounds, List.mem_singleton] at hb; subst hb
        exact hint hri
      · cases hcore
    · split at hcore
      · split at hcore
        · rename_i o ho
          injection hcore with hcore; subst hcore
          obtain ⟨_, _, av, hri, _⟩ := mkBinary_ok ho
          refine ⟨rfl, ?_⟩
          intro b hb; simp only [Range.bounds, List.mem_singleton] at hb; subst hb
          exact hint hri
        · cases hcore
      · split at hcore
        · rename_i o ho
          injection hcore with hcore; subst hcore
          obtain ⟨hne, hc⟩ := mkOneHot_ok ho
          simp only [Range.bounds, Range.size]
          cases hact : h.active.bind Domain.catsOf with
          | none =>
            rw [hact] at ho
            unfold mkOneHot at ho
            have hne' : d.cats.isEmpty = false := by
              cases hcs : d.cats with
              | nil => exact absurd hcs hne
              | cons _ _ => rfl
            simp only [hne', Bool.false_eq_true, if_false] at ho
            injection ho with ho
            subst ho
            simp only
            split
            · refine ⟨by simp, ?_⟩
              intro b hb
              rw [List.mem_replicate] at hb
              rw [hb.2]; norm_num
            · rename_i hlen
              have : d.cats.length = 1 := by
                have : d.cats.length ≠ 0 := by
                  intro h0; exact hne (List.eq_nil_of_length_eq_zero h0)
                omega
              refine ⟨by simp [this], ?_⟩
              intro b hb; simp only [List.mem_singleton] at hb; subst hb; norm_num
          | some act =>
            rw [hact] at ho
            rw [mkOneHot_active_bounds ho, hc]
            refine ⟨by simp, ?_⟩
            intro b hb
            simp only [List.mem_map] at hb
            obtain ⟨v, _, rfl⟩ := hb
            split
            · split <;> norm_num
            · norm_num
        · cases hcore
  | fin d =>
    rw [hd] at hcore
    simp only at hcore
    split at hcore
    · cases hcore
    · split at hcore
      · rename_i o ho
        injection hcore with hcore; subst hcore
        rw [fin_encScale] at ho
        have hri := (finrange_fields ho).2.2.2.2.2.2.2.2
        refine ⟨rfl, ?_⟩
        intro b hb; simp only [Range.bounds, List.mem_singleton] at hb; subst hb
        exact hint hri
      · cases hcore
  | flt d =>
    rw [hd] at hcore
    simp only at hcore
    split at hcore
    · rename_i o ho
      injection hcore with hcore; subst hcore
      refine ⟨rfl, ?_⟩
      intro b hb; simp only [Range.bounds, List.mem_singleton] at hb; subst hb
      exact hcont ho
    · cases hcore
  | int d =>
    rw [hd] at hcore
    simp only at hcore
    split at hcore
    · rename_i o ho
      injection hcore with hcore; subst hcore
      refine ⟨rfl, ?_⟩
      intro b hb; simp only [Range.bounds, List.mem_singleton] at hb; subst hb
      exact hint ho
    · cases hcore

/-! ### slices of a whole vector -/

/-- a predicate on every encoder's slice of the encoded vector -/
def Slices (A : String × Range → List ℚ → Prop) : List (String × Range) → List ℚ → Prop
  | [], _ => True
  | e :: es, xs => A e (xs.take e.2.size) ∧ Slices A es (xs.drop e.2.size)

theorem decodeAll_slices {env : Env} {c : Consts} {A : String × Range → List ℚ → Prop}
    {P : String → Range → Val → Prop} (entries : List (String × Range))
    (hP : ∀ e ∈ entries, ∀ xs : List ℚ, A e xs → ∃ v, e.2.decode env c xs = .ok v ∧ P e.1 e.2 v)
    (xs : List ℚ) (hA : Slices A entries xs) :
    ∃ cfg, decodeAll env c entries xs = .ok cfg ∧
      List.Forall₂ (fun e kv => kv.1 = e.1 ∧ P e.1 e.2 kv.2) entries cfg := by
  induction entries generalizing xs with
  | nil => exact ⟨[], rfl, List.Forall₂.nil⟩
  | cons e es ih =>
    obtain ⟨k, r⟩ := e
    obtain ⟨h1, h2⟩ := hA
    obtain ⟨v, hv, hpv⟩ := hP (k, r) (by simp) _ h1
    obtain ⟨cfg, hcfg, hall⟩ := ih (fun e he => hP e (List.mem_cons_of_mem _ he)) _ h2
    refine ⟨(k, v) :: cfg, ?_, List.Forall₂.cons ⟨rfl, hpv⟩ hall⟩
    simp only [decodeAll]
    simp only at hv hcfg
    rw [hv, hcfg]

theorem inBox_append {xs : List ℚ} {b1 b2 : List (ℚ × ℚ)} (h : InBox xs (b1 ++ b2)) :
    InBox (xs.take b1.length) b1 ∧ InBox (xs.drop b1.length) b2 := by
  obtain ⟨hl, hb⟩ := h
  simp only [List.length_append] at hl
  constructor
  · refine ⟨by rw [List.length_take]; omega, ?_⟩
    intro i hi hbi
    have := hb i (by omega) (by simp; omega)
    rw [List.getElem_append_left hbi] at this
    simpa using this
  · refine ⟨by rw [List.length_drop]; omega, ?_⟩
    intro i hi hbi
    have := hb (b1.length + i) (by rw [List.length_drop] at hi; omega) (by simp; omega)
    rw [List.getElem_append_right (by omega)] at this
    simpa using this

theorem inBox_margin {c : Consts} (heps : 0 ≤ c.eps) {xs : List ℚ} {bs : List (ℚ × ℚ)}
    (hb : ∀ b ∈ bs, 0 ≤ b.1 ∧ b.2 ≤ 1) (h : InBox xs bs) : ∀ x ∈ xs, InMargin c x := by
  intro x hx
  obtain ⟨i, hi, rfl⟩ := List.getElem_of_mem hx
  obtain ⟨hl, hin⟩ := h
  have hib : i < bs.length := by omega
  have := hin i hi hib
  have hbb := hb _ (List.getElem_mem hib)
  unfold InMargin
  constructor <;> linarith [this.1, this.2, hbb.1, hbb.2]

/-- the bounds box of a whole space cut into the boxes of the encoders -/
theorem slices_of_inBox {env : Env} {c : Consts} {hps : List HP} (entries : List (String × Range))
    (hmk : ∀ e ∈ entries, ∃ hp ∈ hps, hp.name = e.1 ∧ mkRange env c hp = .ok e.2)
    {xs : List ℚ} (h : InBox xs (entries.map (fun e => e.2.bounds)).flatten) :
    Slices (fun e ys => InBox ys e.2.bounds) entries xs := by
  induction entries generalizing xs with
  | nil => trivial
  | cons e es ih =>
    obtain ⟨hp, _, _, hr⟩ := hmk e (by simp)
    have hlen := (range_bounds_cube hr).1
    simp only [List.map_cons, List.flatten_cons] at h
    obtain ⟨h1, h2⟩ := inBox_append h
    rw [hlen] at h1 h2
    exact ⟨h1, ih (fun e he => hmk e (List.mem_cons_of_mem _ he)) h2⟩

theorem Slices.and {A B : String × Range → List ℚ → Prop} {entries : List (String × Range)} {xs : List ℚ}
    (ha : Slices A entries xs) (hb : Slices B entries xs) : Slices (fun e ys => A e ys ∧ B e ys) entries xs := by
  induction entries generalizing xs with
  | nil => trivial
  | cons e es ih => exact ⟨⟨ha.1, hb.1⟩, ih ha.2 hb.2⟩

end SyneTune.Dom
