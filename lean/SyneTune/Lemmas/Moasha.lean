import SyneTune.Model.Moasha
import SyneTune.Lemmas.Pareto
/- Helper lemmas for C19: `sorted` / `searchsorted`, the rank comparison, `_Bracket.on_result`. -/
namespace SyneTune

/-! ### `np.searchsorted(sorted(p), v)` counts the strictly smaller elements -/

def Ascending (l : List Rat) : Prop := l.Pairwise (· ≤ ·)

theorem insertRat_perm (v : Rat) : ∀ (l : List Rat), (insertRat v l).Perm (v :: l)
  | [] => by simp [insertRat]
  | x :: xs => by
    unfold insertRat
    split
    · exact List.Perm.refl _
    · exact (List.Perm.cons x (insertRat_perm v xs)).trans (List.Perm.swap v x xs)

theorem insertRat_sorted (v : Rat) : ∀ (l : List Rat), Ascending l → Ascending (insertRat v l)
  | [], _ => by simp [insertRat, Ascending]
  | x :: xs, h => by
    unfold Ascending at h ⊢
    rw [List.pairwise_cons] at h
    unfold insertRat
    split
    · rename_i hle
      rw [List.pairwise_cons, List.pairwise_cons]
      refine ⟨?_, h.1, h.2⟩
      intro a ha
      rcases List.mem_cons.mp ha with rfl | ha
      · exact hle
      · exact le_trans hle (h.1 a ha)
    · rename_i hnle
      rw [List.pairwise_cons]
      refine ⟨?_, insertRat_sorted v xs h.2⟩
      intro a ha
      rcases List.mem_cons.mp ((insertRat_perm v xs).mem_iff.mp ha) with rfl | ha
      · exact le_of_lt (not_le.mp hnle)
      · exact h.1 a ha

theorem sortRat_perm : ∀ (l : List Rat), (sortRat l).Perm l
  | [] => by simp [sortRat]
  | x :: xs => by
    have ih := sortRat_perm xs
    unfold sortRat at ih ⊢
    simp only [List.foldr_cons]
    exact (insertRat_perm x _).trans (List.Perm.cons x ih)

theorem sortRat_sorted : ∀ (l : List Rat), Ascending (sortRat l)
  | [] => by simp [sortRat, Ascending]
  | x :: xs => by
    have ih := sortRat_sorted xs
    unfold sortRat at ih ⊢
    simp only [List.foldr_cons]
    exact insertRat_sorted x _ ih

theorem takeWhile_lt_length (v : Rat) : ∀ (s : List Rat), Ascending s →
    (s.takeWhile (fun x => decide (x < v))).length = s.countP (fun x => decide (x < v))
  | [], _ => rfl
  | x :: xs, h => by
    unfold Ascending at h
    rw [List.pairwise_cons] at h
    by_cases hx : x < v
    · simp only [List.takeWhile_cons, hx, decide_true, if_true, List.length_cons, List.countP_cons]
      rw [takeWhile_lt_length v xs h.2]
    · simp only [List.takeWhile_cons, hx, decide_false, List.countP_cons]
      have : xs.countP (fun x => decide (x < v)) = 0 := by
        rw [List.countP_eq_zero]
        intro a ha
        have := h.1 a ha
        simp only [decide_eq_true_eq, not_lt]
        exact le_trans (not_lt.mp hx) this
      simp [this]

theorem searchsortedLeft_sortRat (p : List Rat) (v : Rat) :
    searchsortedLeft (sortRat p) v = p.countP (fun x => decide (x < v)) := by
  unfold searchsortedLeft
  rw [takeWhile_lt_length v _ (sortRat_sorted p)]
  exact (sortRat_perm p).countP_eq _

theorem lastRank_append (ps : List Rat) (v : Rat) :
    lastRank (ps ++ [v]) = some (ps.countP (fun x => decide (x < v))) := by
  unfold lastRank
  simp only [List.getLast?_append, List.getLast?_singleton, Option.some_or]
  rw [searchsortedLeft_sortRat]
  simp [List.countP_append]

/-! ### the rank comparison -/

theorem cmpRankGt_forced (c n : Nat) (rf : Rat) (x : Bool) (h : cmpRankGt c n rf = .forced x) :
    (x = true ↔ 1 / rf < (c : Rat) / (n : Rat)) := by
  unfold cmpRankGt at h
  split at h
  · rename_i heq
    injection h with h; subst h
    simp [heq]
  · split at h
    · cases h
    · injection h with h; subst h; simp

theorem rankDecision_forced (rf : Rat) (ps : List Rat) (v : Rat) (hint x : Bool)
    (hf : cmpRankGt (ps.countP (fun y => decide (y < v))) (ps.length + 1) rf = .forced x) :
    rankDecision rf (ps ++ [v]) hint = .ok (x, false) := by
  unfold rankDecision
  rw [lastRank_append]
  simp only [List.length_append, List.length_singleton, hf, Cmp.resolve, Cmp.isFree]

/-! ### `_Bracket.on_result` -/

/-- the rung is passed over by the loop: `cur_iter < milestone or trial_id in recorded` -/
def MRung.skips (rg : MRung) (tid cur : Nat) : Prop := (cur : Rat) < rg.milestone ∨ rg.has tid = true

instance (rg : MRung) (tid cur : Nat) : Decidable (rg.skips tid cur) := by
  unfold MRung.skips; infer_instance

/-- `recorded[trial_id] = metrics` for a trial not yet in the dict -/
def MRung.record (rg : MRung) (tid : Nat) (metrics : Point) : MRung :=
  { rg with recorded := rg.recorded ++ [(tid, metrics)] }

theorem bracketScan_at (prio : List Point → Except MErr (List Rat)) (rf : Rat) (tid cur : Nat)
    (metrics : Point) (hint : Bool) (rg : MRung) (post : List MRung) :
    ∀ (pre : List MRung), (∀ r ∈ pre, r.skips tid cur) → ¬ rg.skips tid cur →
    bracketScan prio rf tid cur metrics hint (pre ++ rg :: post) =
      match rungDecision prio rf rg metrics hint with
      | .error e => .error e
      | .ok d => .ok (pre ++ rg.record tid metrics :: post, d)
  | [], _, hrg => by
    unfold MRung.skips at hrg
    simp only [List.nil_append, bracketScan, hrg, if_false]
    cases rungDecision prio rf rg metrics hint <;> rfl
  | r :: pre, hpre, hrg => by
    have hr : r.skips tid cur := hpre r (by simp)
    unfold MRung.skips at hr
    have ih := bracketScan_at prio rf tid cur metrics hint rg post pre
      (fun x hx => hpre x (List.mem_cons_of_mem _ hx)) hrg
    simp only [List.cons_append, bracketScan, hr, if_true, ih]
    cases rungDecision prio rf rg metrics hint <;> rfl

theorem bracketScan_off (prio : List Point → Except MErr (List Rat)) (rf : Rat) (tid cur : Nat)
    (metrics : Point) (hint : Bool) :
    ∀ (rungs : List MRung), (∀ r ∈ rungs, r.skips tid cur) →
    bracketScan prio rf tid cur metrics hint rungs = .ok (rungs, .continue, false)
  | [], _ => rfl
  | r :: rest, h => by
    have hr : r.skips tid cur := h r (by simp)
    unfold MRung.skips at hr
    have ih := bracketScan_off prio rf tid cur metrics hint rest (fun x hx => h x (List.mem_cons_of_mem _ hx))
    simp only [bracketScan, hr, if_true, ih]

/-- every trial at most once in the rung -/
def MRung.OK (rg : MRung) : Prop := (rg.recorded.map (·.1)).Nodup

theorem has_iff (rg : MRung) (tid : Nat) : rg.has tid = true ↔ tid ∈ rg.recorded.map (·.1) := by
  unfold MRung.has
  simp only [List.any_eq_true, beq_iff_eq, List.mem_map]

theorem record_ok (rg : MRung) (tid : Nat) (metrics : Point) (h : rg.OK) (hn : ¬ rg.has tid = true) :
    (rg.record tid metrics).OK := by
  unfold MRung.OK MRung.record at *
  simp only [List.map_append, List.map_cons, List.map_nil]
  rw [List.nodup_append]
  refine ⟨h, by simp, ?_⟩
  intro a ha b hb
  simp only [List.mem_singleton] at hb
  subst hb
  intro hab; subst hab
  exact hn ((has_iff rg a).mpr ha)

theorem bracketScan_preserves (prio : List Point → Except MErr (List Rat)) (rf : Rat) (tid cur : Nat)
    (metrics : Point) (hint : Bool) :
    ∀ (rungs : List MRung) (res : List MRung × Decision × Bool),
      bracketScan prio rf tid cur metrics hint rungs = .ok res → (∀ r ∈ rungs, r.OK) →
      (∀ r ∈ res.1, r.OK) ∧ res.1.map (·.milestone) = rungs.map (·.milestone)
  | [], res, h, _ => by
    simp only [bracketScan, Except.ok.injEq] at h; subst h; simp
  | r :: rest, res, h, hok => by
    unfold bracketScan at h
    by_cases hr : (cur : Rat) < r.milestone ∨ r.has tid = true
    · simp only [hr, if_true] at h
      cases hrec : bracketScan prio rf tid cur metrics hint rest with
      | error e => rw [hrec] at h; cases h
      | ok res' =>
        rw [hrec] at h
        simp only [Except.ok.injEq] at h
        subst h
        have ih := bracketScan_preserves prio rf tid cur metrics hint rest res' hrec
          (fun x hx => hok x (List.mem_cons_of_mem _ hx))
        refine ⟨?_, by simp [ih.2]⟩
        intro x hx
        rcases List.mem_cons.mp hx with rfl | hx
        · exact hok _ (by simp)
        · exact ih.1 x hx
    · simp only [hr, if_false] at h
      cases hd : rungDecision prio rf r metrics hint with
      | error e => rw [hd] at h; cases h
      | ok d =>
        rw [hd] at h
        simp only [Except.ok.injEq] at h
        subst h
        refine ⟨?_, by simp⟩
        intro x hx
        rcases List.mem_cons.mp hx with rfl | hx
        · exact record_ok r tid metrics (hok r (by simp)) (fun hh => hr (Or.inr hh))
        · exact hok x (List.mem_cons_of_mem _ hx)

/-- every rung of every bracket holds each trial at most once -/
def Moasha.OK (s : Moasha) : Prop := ∀ b ∈ s.brackets, ∀ r ∈ b, MRung.OK r

theorem bracketResult_preserves (s s' : Moasha) (prio : List Point → Except MErr (List Rat))
    (tid cur : Nat) (raw : Point) (hint : Bool) (o : Decision × Bool)
    (h : s.bracketResult prio tid cur raw hint = .ok (s', o)) (hok : s.OK) :
    s'.OK ∧ s'.brackets.map (fun b => b.map (·.milestone)) = s.brackets.map (fun b => b.map (·.milestone))
      ∧ s'.trialInfo = s.trialInfo ∧ s'.numStopped = s.numStopped ∧ s'.maxT = s.maxT ∧ s'.rf = s.rf := by
  unfold Moasha.bracketResult at h
  cases h1 : alookup tid s.trialInfo with
  | none => simp [h1] at h
  | some b =>
    simp only [h1] at h
    cases h2 : s.brackets[b]? with
    | none => simp [h2] at h
    | some rungs =>
      simp only [h2] at h
      cases h3 : bracketScan prio s.rf tid cur (s.signed raw) hint rungs with
      | error e => simp [h3] at h
      | ok res =>
        simp only [h3, Except.ok.injEq, Prod.mk.injEq] at h
        obtain ⟨hs, _⟩ := h
        subst hs
        have hmem : rungs ∈ s.brackets := List.mem_of_getElem? h2
        have pr := bracketScan_preserves prio s.rf tid cur (s.signed raw) hint rungs res h3 (hok rungs hmem)
        refine ⟨?_, ?_, rfl, rfl, rfl, rfl⟩
        · intro b' hb'
          rcases List.mem_or_eq_of_mem_set hb' with hb' | hb'
          · exact hok b' hb'
          · subst hb'; exact pr.1
        · simp only
          rw [List.map_set, pr.2]
          apply List.ext_getElem?
          intro i
          rw [List.getElem?_set]
          split
          · rename_i hbi; subst hbi
            split
            · simp [h2]
            · rename_i hlt
              simp only [List.length_map] at hlt
              have := (List.getElem?_eq_some_iff.mp h2).1
              omega
          · rfl

end SyneTune
