import SyneTune.Lemmas.DyHPOKInv
import SyneTune.Lemmas.C14CompDecision
/-
DyHPO, composed system (scheduler + searcher data bookkeeping): the invariant `CInv` of
`Lemmas/C14CompDefs.lean` under `suggestDy`.  `taskScheduleDy_effect` is the DyHPO version of
`taskSchedule_effect`; `cinv_afterSchedule` is the second half of `cinv_suggest`, stated for
ANY rung-system answer with the properties both rung systems guarantee.
-/
namespace SyneTune.DyHPO
open SyneTune SyneTune.C04K SyneTune.C14 SyneTune.C13Hb SyneTune.C14Comp

/-- `terminator.on_task_schedule` with the DyHPO rung system: same guarantees as
`taskSchedule_effect` -/
theorem taskScheduleDy_effect (g g' : Manager) (bracket : Nat) (sh : Bool) (hint pick : Option Nat)
    (so : Option SchedOut) (ms : Nat) (fr : Bool)
    (h : g.taskScheduleDy bracket sh hint pick = .ok (g', so, ms, fr)) (hw : MgrWF g) :
    shape g' = shape g ∧ (∀ t, trialView g' t = trialView g t) ∧
    (∀ L e', EntIn g'.systems L e' →
        ∃ e, EntIn g.systems L e ∧ e.tid = e'.tid ∧ (e'.promoted = false → e.promoted = false)) ∧
    (∀ o, so = some o → g.type.pauseResume = true ∧
        (∃ e, EntIn g.systems o.resumeFrom e ∧ e.tid = o.trial ∧ e.promoted = false) ∧
        (o.milestone = g.maxT ∨ o.milestone ∈ g.rungLevels)) := by
  unfold Manager.taskScheduleDy at h
  by_cases hty : g.type = .promotion
  · simp only [hty, ne_eq, not_true_eq_false, if_false] at h
    cases hs : g.systems[(g.sysFor bracket).1]? with
    | none => simp [hs] at h
    | some sys =>
      simp only [hs] at h
      cases hd : sys.dyhpoSchedule g.mode sh hint pick with
      | error e => simp [hd] at h
      | ok res =>
        obtain ⟨sys', so', fr'⟩ := res
        simp only [hd] at h
        obtain ⟨d1, d2, d3, d4⟩ := dyhpoSchedule_effect sys sys' g.mode sh hint pick so' fr' hd
        have hmem : sys ∈ g.systems := List.mem_of_getElem? hs
        obtain ⟨w1, _, w3⟩ := MgrWF_sys hw hmem
        have hlev : sys'.rungs.map (·.level) = sys.rungs.map (·.level) := by
          cases so' with
          | none => rw [d3 rfl]
          | some o => exact (d4 o rfl).1.levels
        have hsig : sig sys' = sig sys := by simp only [sig, d2, hlev]
        have hent : ∀ rg' ∈ sys'.rungs, ∀ e' ∈ rg'.data,
            ∃ rg ∈ sys.rungs, rg.level = rg'.level ∧ ∃ e ∈ rg.data, e.tid = e'.tid ∧
              (e'.promoted = false → e.promoted = false) := by
          cases so' with
          | none => rw [d3 rfl]; intro rg' hrg' e' he'; exact ⟨rg', hrg', rfl, e', he', rfl, fun h => h⟩
          | some o => exact (d4 o rfl).1.entries
        have key : shape (g.setSys (g.sysFor bracket).1 sys') = shape g ∧
            (∀ t, trialView (g.setSys (g.sysFor bracket).1 sys') t = trialView g t) ∧
            (∀ L e', EntIn (g.setSys (g.sysFor bracket).1 sys').systems L e' →
              ∃ e, EntIn g.systems L e ∧ e.tid = e'.tid ∧ (e'.promoted = false → e.promoted = false)) := by
          refine ⟨?_, ?_, ?_⟩
          · simp only [shape, Manager.setSys, Prod.mk.injEq, true_and]
            exact map_set_same sig _ _ sys _ hs hsig
          · intro t
            exact trialView_set g _ t _ sys _ rfl rfl hs rfl (by rw [d1]) hsig
          · intro L e' he'
            rcases EntIn_set hs he' with he' | ⟨rg', hrg', hl, hmem'⟩
            · exact ⟨e', he', rfl, fun h => h⟩
            · obtain ⟨rg, hrg, hl2, e, he, ht, hp⟩ := hent rg' hrg' e' hmem'
              exact ⟨e, ⟨sys, hmem, rg, hrg, by rw [hl2, hl], he⟩, ht, hp⟩
        obtain ⟨k1, k2, k3⟩ := key
        cases so' with
        | none =>
          simp only at h
          injection h with h
          simp only [Prod.mk.injEq] at h
          obtain ⟨h1, h2, _, _⟩ := h
          subst h1
          exact ⟨k1, k2, k3, fun o ho => by rw [← h2] at ho; cases ho⟩
        | some o =>
          simp only at h
          injection h with h
          simp only [Prod.mk.injEq] at h
          obtain ⟨h1, h2, _, _⟩ := h
          subst h1
          refine ⟨k1, k2, k3, ?_⟩
          intro o' ho'
          rw [← h2] at ho'; injection ho' with ho'; subst ho'
          obtain ⟨hm, hmile⟩ := d4 o rfl
          obtain ⟨⟨rg, hrg, hl, e, he, ht, hp⟩, _⟩ := hm.eligible
          refine ⟨by rw [hty]; rfl, ⟨e, ⟨sys, hmem, rg, hrg, hl, he⟩, ht, hp⟩, ?_⟩
          rcases hmile with hmile | ⟨rg2, hrg2, hl2⟩
          · left; rw [hmile, w1]
          · right; rw [← hl2]; exact (w3 rg2 hrg2).2.2
  · simp [hty] at h

/-- the two ways `afterSchedule` succeeds -/
theorem afterSchedule_cases (s s' : Sched) (g1 : Manager) (so : Option SchedOut) (newTid bracket ms : Nat)
    (fr0 : Bool) (sg : Suggestion) (calls : List SCall) (fr : Bool)
    (h : afterSchedule s g1 so newTid bracket ms fr0 = .ok (s', sg, calls, fr)) :
    (so = none ∧ alookup newTid s.active = none ∧ ∃ g2 first, g1.taskAdd newTid bracket none = .ok (g2, first) ∧
        s' = { s with mgr := g2, active := aset newTid { bracket := bracket } s.active } ∧
        calls = (s.pendingNew first).map (SCall.pending newTid) ∧ sg = .start newTid bracket ms) ∨
    (∃ o rec g2 first, so = some o ∧
        g1.taskAdd o.trial bracket (some (o.milestone, o.resumeFrom)) = .ok (g2, first) ∧
        alookup o.trial s.active = some rec ∧ rec.decision ≠ .continue ∧
        s' = { s with mgr := g2, active := aset o.trial { rec with decision := .continue } s.active } ∧
        calls = (s.pendingResume o).map (SCall.pending o.trial) ∧
        sg = .resume o.trial o.resumeFrom o.milestone) := by
  unfold afterSchedule at h
  cases so with
  | none =>
    left
    simp only at h
    unfold Sched.suggestStart at h
    by_cases hex : (alookup newTid s.active).isSome = true
    · simp [hex] at h
    · simp only [hex, Bool.false_eq_true, if_false] at h
      have hnone : alookup newTid s.active = none := by
        cases hl : alookup newTid s.active with
        | none => rfl
        | some x => simp [hl] at hex
      cases hta : g1.taskAdd newTid bracket none with
      | error e => simp [hta] at h
      | ok r2 =>
        obtain ⟨g2, first⟩ := r2
        simp only [hta] at h
        injection h with h
        simp only [Prod.mk.injEq] at h
        obtain ⟨e1, e2, e3, _⟩ := h
        exact ⟨rfl, hnone, g2, first, rfl, e1.symm, e3.symm, e2.symm⟩
  | some o =>
    right
    simp only at h
    unfold Sched.suggestResume at h
    cases hta : g1.taskAdd o.trial bracket (some (o.milestone, o.resumeFrom)) with
    | error e => simp [hta] at h
    | ok r2 =>
      obtain ⟨g2, first⟩ := r2
      simp only [hta] at h
      cases hl : alookup o.trial s.active with
      | none => simp [hl] at h
      | some rec =>
        simp only [hl] at h
        by_cases hd : rec.decision = .continue
        · simp [hd] at h
        · simp only [hd, if_false] at h
          injection h with h
          simp only [Prod.mk.injEq] at h
          obtain ⟨e1, e2, e3, _⟩ := h
          exact ⟨o, rec, g2, first, rfl, hta, hl, hd, e1.symm, e3.symm, e2.symm⟩

/-- the second half of `cinv_suggest`: from a state satisfying `CInv`, after the rung system
answered `(g1, so)` (with the properties of `taskSchedule_effect`), `_promote_trial` /
`_on_config_suggest` preserve the invariant and the searcher accepts all `register_pending`
calls -/
theorem cinv_afterSchedule (y : Sys) (h : CInv y) (g1 : Manager) (so : Option SchedOut) (n b ms : Nat)
    (fr0 : Bool) (s' : Sched) (sg : Suggestion) (calls : List SCall) (fr : Bool)
    (t1 : shape g1 = shape y.sched.mgr) (t2 : ∀ t, trialView g1 t = trialView y.sched.mgr t)
    (t3 : ∀ L e', EntIn g1.systems L e' →
        ∃ e, EntIn y.sched.mgr.systems L e ∧ e.tid = e'.tid ∧ (e'.promoted = false → e.promoted = false))
    (t4 : ∀ o, so = some o → y.sched.mgr.type.pauseResume = true ∧
        (∃ e, EntIn y.sched.mgr.systems o.resumeFrom e ∧ e.tid = o.trial ∧ e.promoted = false) ∧
        (o.milestone = y.sched.mgr.maxT ∨ o.milestone ∈ y.sched.mgr.rungLevels))
    (hkinv : y.sched.mgr.type.pauseResume = true → KInv s')
    (hs : afterSchedule y.sched g1 so n b ms fr0 = .ok (s', sg, calls, fr)) :
    ∃ st', y.st.applyAll calls = .ok st' ∧ CInv { sched := s', st := st' } := by
  have hw1 : MgrWF g1 := MgrWF_of_shape t1 h.wf
  rcases afterSchedule_cases y.sched s' g1 so n b ms fr0 sg calls fr hs with
    ⟨rfl, hnone, g2, first, hta, rfl, rfl, _⟩ | ⟨o, rec, g2, first, rfl, hta, hrec, hdec, rfl, rfl, _⟩
  · -- a new trial is started
    obtain ⟨a1, a2, a3, a4, _⟩ := taskAdd_effect g1 g2 n b none first hta hw1
    obtain ⟨m1, m2, m3⟩ := a4 rfl
    have hsh : shape g2 = shape y.sched.mgr := a1.trans t1
    obtain ⟨_, _, x3, x4, _, _⟩ := shape_fields hsh
    have u : Upd1 y.sched { y.sched with mgr := g2, active := aset n { bracket := b } y.sched.active } n
        (some { bracket := b }) :=
      ⟨fun t => alookup_aset _ _ _ _, hsh, rfl, fun t ht => (a2 t ht).trans (t2 t)⟩
    have hunl : ∀ r ∈ y.sched.pendingNew first, y.st.isLabeled n r = false := by
      intro r _
      cases hl : y.st.isLabeled n r with
      | false => rfl
      | true =>
        obtain ⟨rec, g1', _⟩ := h.obs n r hl
        rw [hnone] at g1'; cases g1'
    refine ⟨_, applyAll_pending y.st n _ hunl, ?_⟩
    have hents : ∀ L e, EntIn g2.systems L e →
        ∃ e0, EntIn y.sched.mgr.systems L e0 ∧ e0.tid = e.tid ∧ (e.promoted = false → e0.promoted = false) :=
      fun L e he => t3 L e (a3 L e he)
    refine ⟨MgrWF_of_shape hsh h.wf, ?_, ?_, ?_, ?_, nodup_addPend _ _ _ h.pnd, ?_, h.owf, ?_, ?_⟩
    · intro hpr
      have hpr' : y.sched.mgr.type.pauseResume = true := by rw [← u.type]; exact hpr
      exact hkinv hpr'
    · apply EntOK_upd1 u h.ent
      · intro rec hr; rw [hnone] at hr; cases hr
      · intro L e he; exact Or.inl (hents L e he)
      · intro _ L e0 he0 ht _ _ _
        obtain ⟨rec, g1', _⟩ := h.ent L e0 he0
        rw [ht, hnone] at g1'; cases g1'
    · apply RunningOK_upd1 u h.run
      intro rec hr _
      injection hr with hr; subst hr
      show 0 < milestoneOf g2 n 0 ∧ (milestoneOf g2 n 0 = g2.maxT ∨ milestoneOf g2 n 0 ∈ g2.rungLevels)
      rw [m1, x3, x4, ← (shape_fields t1).2.2.1, ← (shape_fields t1).2.2.2.1]
      exact ⟨m2, m3⟩
    · apply UpdOK_upd1 u h.upd
      intro rec hr l hl
      injection hr with hr; subst hr; cases hl
    · apply PendOK_upd1 (y := y) (y' := ⟨_, _⟩) u h.pend
      · intro p hp hne
        rcases (mem_addPend n _ _ p).mp hp with hp | ⟨hp, _⟩
        · exact hp
        · exact absurd hp hne
      · intro p hp he
        rcases (mem_addPend n _ _ p).mp hp with hp | ⟨_, hp⟩
        · obtain ⟨rec, g1', _⟩ := h.pend p hp
          rw [he, hnone] at g1'; cases g1'
        · refine ⟨{ bracket := b }, rfl, rfl, ?_⟩
          show 0 < p.2 ∧ p.2 ≤ milestoneOf g2 n 0 ∧ (y.sched.searcherData = .rungs → p.2 = milestoneOf g2 n 0)
          rw [m1]
          unfold Sched.pendingNew at hp
          cases hsd : y.sched.searcherData with
          | rungs =>
            simp only [hsd, List.mem_singleton] at hp
            rw [hp]; exact ⟨m2, Nat.le_refl _, fun _ => rfl⟩
          | all =>
            simp only [hsd] at hp
            split at hp
            · simp only [List.mem_singleton] at hp
              rw [hp]; exact ⟨by omega, m2, fun hx => by cases hx⟩
            · have := mem_rangeIncl hp
              exact ⟨by omega, this.2, fun hx => by cases hx⟩
          | rungsAndLast =>
            simp only [hsd] at hp
            split at hp
            · simp only [List.mem_singleton] at hp
              rw [hp]; exact ⟨by omega, m2, fun hx => by cases hx⟩
            · have := mem_rangeIncl hp
              exact ⟨by omega, this.2, fun hx => by cases hx⟩
    · apply ObsOK_upd1 (y := y) (y' := ⟨_, _⟩) u h.obs
      · intro rec hr; rw [hnone] at hr; cases hr
      · intro t r hl; exact Or.inl hl
    · apply LastOK_upd1 (y := y) (y' := ⟨_, _⟩) u h.last
      · intro t r _ hl; exact hl
      · intro _ rec hr p hp _
        injection hr with hr; subst hr; cases hp
  · -- a paused trial is promoted
    obtain ⟨hpr, ⟨e, he, het, hep⟩, hmile⟩ := t4 o rfl
    have hpr1 : g1.type.pauseResume = true := by rw [(shape_fields t1).1]; exact hpr
    obtain ⟨a1, a2, a3, _, a5⟩ := taskAdd_effect g1 g2 o.trial b _ first hta hw1
    obtain ⟨m1, m2⟩ := a5 _ rfl hpr1
    simp only at m1 m2
    have hsh : shape g2 = shape y.sched.mgr := a1.trans t1
    obtain ⟨_, _, x3, x4, _, _⟩ := shape_fields hsh
    -- the promoted trial last reported at the level it is promoted from
    have hlast : lastRep rec ≤ o.resumeFrom := by
      obtain ⟨rec0, k1, _, k3⟩ := h.ent o.resumeFrom e he
      rw [het, hrec] at k1; injection k1 with k1; subst k1
      exact k3 hpr hep
    have u : Upd1 y.sched { y.sched with mgr := g2, active := aset o.trial { rec with decision := .continue } y.sched.active }
        o.trial (some { rec with decision := .continue }) :=
      ⟨fun t => alookup_aset _ _ _ _, hsh, rfl, fun t ht => (a2 t ht).trans (t2 t)⟩
    have hlevels : ∀ r ∈ y.sched.pendingResume o, lastRep rec < r ∧ r ≤ o.milestone ∧
        (y.sched.searcherData = .rungs → r = o.milestone) := by
      intro r hr
      unfold Sched.pendingResume at hr
      cases hsd : y.sched.searcherData with
      | rungs =>
        simp only [hsd, List.mem_singleton] at hr
        rw [hr]; exact ⟨by omega, Nat.le_refl _, fun _ => rfl⟩
      | all =>
        simp only [hsd] at hr
        split at hr
        · simp only [List.mem_singleton] at hr
          rw [hr]; exact ⟨by omega, by omega, fun hx => by cases hx⟩
        · have := mem_rangeIncl hr
          exact ⟨by omega, this.2, fun hx => by cases hx⟩
      | rungsAndLast =>
        simp only [hsd] at hr
        split at hr
        · simp only [List.mem_singleton] at hr
          rw [hr]; exact ⟨by omega, by omega, fun hx => by cases hx⟩
        · have := mem_rangeIncl hr
          exact ⟨by omega, this.2, fun hx => by cases hx⟩
    have hunl : ∀ r ∈ y.sched.pendingResume o, y.st.isLabeled o.trial r = false := by
      intro r hr
      cases hl : y.st.isLabeled o.trial r with
      | false => rfl
      | true =>
        obtain ⟨rec0, k1, k2⟩ := h.obs o.trial r hl
        rw [hrec] at k1; injection k1 with k1; subst k1
        have := (hlevels r hr).1
        omega
    refine ⟨_, applyAll_pending y.st o.trial _ hunl, ?_⟩
    have hents : ∀ L e, EntIn g2.systems L e →
        ∃ e0, EntIn y.sched.mgr.systems L e0 ∧ e0.tid = e.tid ∧ (e.promoted = false → e0.promoted = false) :=
      fun L e he => t3 L e (a3 L e he)
    have hmono : ∀ rec0, alookup o.trial y.sched.active = some rec0 →
        ∃ rec', some ({ rec with decision := .continue } : TrialInfo) = some rec' ∧ lastRep rec0 ≤ lastRep rec' := by
      intro rec0 hr0
      rw [hrec] at hr0; injection hr0 with hr0; subst hr0
      exact ⟨_, rfl, Nat.le_refl _⟩
    refine ⟨MgrWF_of_shape hsh h.wf, ?_, ?_, ?_, ?_, nodup_addPend _ _ _ h.pnd, ?_, h.owf, ?_, ?_⟩
    · intro _
      exact hkinv hpr
    · apply EntOK_upd1 u h.ent hmono
      · intro L e he; exact Or.inl (hents L e he)
      · intro hp L e0 he0 ht hpe rec' hr'
        injection hr' with hr'; subst hr'
        obtain ⟨rec0, k1, _, k3⟩ := h.ent L e0 he0
        rw [ht, hrec] at k1; injection k1 with k1; subst k1
        exact k3 hp hpe
    · apply RunningOK_upd1 u h.run
      intro rec' hr' _
      injection hr' with hr'; subst hr'
      show lastRep rec < milestoneOf g2 o.trial (lastRep rec) ∧
        (milestoneOf g2 o.trial (lastRep rec) = g2.maxT ∨ milestoneOf g2 o.trial (lastRep rec) ∈ g2.rungLevels)
      rw [m2, x3, x4]
      exact ⟨by omega, hmile⟩
    · apply UpdOK_upd1 u h.upd
      intro rec' hr' l hl
      injection hr' with hr'; subst hr'
      exact h.upd o.trial rec hrec l hl
    · apply PendOK_upd1 (y := y) (y' := ⟨_, _⟩) u h.pend
      · intro p hp hne
        rcases (mem_addPend o.trial _ _ p).mp hp with hp | ⟨hp, _⟩
        · exact hp
        · exact absurd hp hne
      · intro p hp he
        rcases (mem_addPend o.trial _ _ p).mp hp with hp | ⟨_, hp⟩
        · obtain ⟨rec0, k1, k2, _⟩ := h.pend p hp
          rw [he, hrec] at k1; injection k1 with k1; subst k1
          exact absurd k2 hdec
        · refine ⟨_, rfl, rfl, ?_⟩
          show lastRep rec < p.2 ∧ p.2 ≤ milestoneOf g2 o.trial (lastRep rec) ∧
            (y.sched.searcherData = .rungs → p.2 = milestoneOf g2 o.trial (lastRep rec))
          rw [m2]
          exact hlevels p.2 hp
    · apply ObsOK_upd1 (y := y) (y' := ⟨_, _⟩) u h.obs hmono
      intro t r hl; exact Or.inl hl
    · apply LastOK_upd1 (y := y) (y' := ⟨_, _⟩) u h.last
      · intro t r _ hl; exact hl
      · intro hsd rec' hr' p hp hk
        injection hr' with hr'; subst hr'
        exact h.last hsd o.trial rec hrec p hp hk

theorem opStepD_suggestDy (s : Sched) (n b : Nat) (sh : Bool) (hint pick : Option Nat) :
    opStepD s (.suggestDy n b sh hint pick) =
      match s.suggestDy n b sh hint pick with | .ok res => (res.1, res.2.2.1) | .error _ => (s, []) := rfl

theorem stepCD_suggestDy (y : Sys) (n b : Nat) (sh : Bool) (hint pick : Option Nat) :
    stepCD y (.suggestDy n b sh hint pick) =
      match y.st.applyAll (opStepD y.sched (.suggestDy n b sh hint pick)).2 with
      | .ok st' => { sched := (opStepD y.sched (.suggestDy n b sh hint pick)).1, st := st' }
      | .error _ => y := rfl

/-- `_suggest` with the DyHPO rung system: the invariant is preserved and the searcher accepts
all `register_pending` calls -/
theorem cinv_suggestDy (y : Sys) (n b : Nat) (sh : Bool) (hint pick : Option Nat) (h : CInv y) :
    CInv (stepCD y (.suggestDy n b sh hint pick)) ∧
    ∃ st', y.st.applyAll (opStepD y.sched (.suggestDy n b sh hint pick)).2 = .ok st' := by
  rw [stepCD_suggestDy, opStepD_suggestDy]
  cases hs : y.sched.suggestDy n b sh hint pick with
  | error e => exact ⟨by simpa [SState.applyAll] using h, ⟨y.st, rfl⟩⟩
  | ok res =>
    obtain ⟨s', sg, calls, fr⟩ := res
    simp only
    have hs' := hs
    rw [suggestDy_eq] at hs'
    cases hts : y.sched.mgr.taskScheduleDy b sh hint pick with
    | error e => simp [hts] at hs'
    | ok r1 =>
      obtain ⟨g1, so, ms, fr0⟩ := r1
      simp only [hts] at hs'
      obtain ⟨t1, t2, t3, t4⟩ := taskScheduleDy_effect y.sched.mgr g1 b sh hint pick so ms fr0 hts h.wf
      have hkinv : y.sched.mgr.type.pauseResume = true → KInv s' :=
        fun hpr => (suggestDy_KInv y.sched s' n b sh hint pick sg calls fr (h.kinv hpr) hs).1
      obtain ⟨st', k1, k2⟩ := cinv_afterSchedule y h g1 so n b ms fr0 s' sg calls fr t1 t2 t3 t4 hkinv hs'
      rw [k1]
      exact ⟨k2, st', rfl⟩

/-! ### observations -/

/-- the `(trial, level, value)` triples an operation reports (`C14Comp.opReports`) -/
def opReportsD : DOp → List (Nat × Nat × Rat)
  | .old op => opReports op
  | .suggestDy _ _ _ _ _ => []

/-- `suggestDy` issues `register_pending` calls only -/
theorem suggestDy_calls (s s' : Sched) (n b : Nat) (sh : Bool) (hint pick : Option Nat) (sg : Suggestion)
    (calls : List SCall) (fr : Bool) (h : s.suggestDy n b sh hint pick = .ok (s', sg, calls, fr)) :
    ∃ (t : Nat) (ls : List Nat), calls = ls.map (SCall.pending t) := by
  rw [suggestDy_eq] at h
  cases hts : s.mgr.taskScheduleDy b sh hint pick with
  | error e => simp [hts] at h
  | ok r1 =>
    obtain ⟨g1, so, ms, fr0⟩ := r1
    simp only [hts] at h
    rcases afterSchedule_cases s s' g1 so n b ms fr0 sg calls fr h with
      ⟨_, _, g2, first, _, _, hc, _⟩ | ⟨o, rec, g2, first, _, _, _, _, _, hc, _⟩
    · exact ⟨_, _, hc⟩
    · exact ⟨_, _, hc⟩

theorem applyAll_mode (st st' : SState) (cs : List SCall) (ha : st.applyAll cs = .ok st') : st'.mode = st.mode := by
  induction cs generalizing st with
  | nil => simp [SState.applyAll] at ha; subst ha; rfl
  | cons x xs ih =>
    unfold SState.applyAll at ha
    cases hx : st.apply x with
    | error e => simp [hx] at ha
    | ok s1 =>
      simp only [hx] at ha
      have hm : s1.mode = st.mode := by
        cases x <;> simp only [SState.apply] at hx
        · split at hx
          · injection hx with hx; subst hx; rfl
          · split at hx
            · cases hx
            · injection hx with hx; subst hx; rfl
        · split at hx <;> (injection hx with hx; subst hx; rfl)
        · split at hx
          · cases hx
          · split at hx
            · cases hx
            · injection hx with hx; subst hx; rfl
        · injection hx with hx; subst hx; rfl
        · injection hx with hx; subst hx; split <;> rfl
      exact (ih s1 ha).trans hm

theorem opStepD_updates (s : Sched) (op : DOp) (t r : Nat) (v : Rat) (upd : Bool)
    (h : SCall.update t r v upd ∈ (opStepD s op).2) : (t, r, v) ∈ opReportsD op := by
  cases op with
  | old op => exact opStep_updates s op t r v upd h
  | suggestDy n b sh hint pick =>
    rw [opStepD_suggestDy] at h
    cases hs : s.suggestDy n b sh hint pick with
    | error e => simp [hs] at h
    | ok res =>
      obtain ⟨s', sg, calls, fr⟩ := res
      simp only [hs] at h
      obtain ⟨t0, ls, rfl⟩ := suggestDy_calls s s' n b sh hint pick sg calls fr hs
      simp at h

/-- the error-or-ok form of one composed step, for every operation -/
theorem stepCD_eq (y : Sys) (op : DOp) :
    stepCD y op = match y.st.applyAll (opStepD y.sched op).2 with
      | .ok st' => { sched := (opStepD y.sched op).1, st := st' }
      | .error _ => y := by
  cases op <;> rfl

/-- one step of the composed system: every stored observation was stored before or is the
criterion of the value this operation reports for that trial and level -/
theorem stepCD_obsAt (y : Sys) (op : DOp) (hw : ObsWF y.st) (t r : Nat) (c : Rat)
    (hc : obsAt (stepCD y op).st t r = some c) :
    ObsWF (stepCD y op).st ∧ (stepCD y op).st.mode = y.st.mode ∧
    (obsAt y.st t r = some c ∨ ∃ v, (t, r, v) ∈ opReportsD op ∧ c = y.st.crit v) := by
  rw [stepCD_eq] at hc ⊢
  cases ha : y.st.applyAll (opStepD y.sched op).2 with
  | error e => simp only [ha] at hc ⊢; exact ⟨hw, trivial, Or.inl hc⟩
  | ok st' =>
    simp only [ha] at hc ⊢
    obtain ⟨m, k⟩ := applyAll_obsAt y.st st' _ ha hw t r c hc
    refine ⟨applyAll_preserves_wf y.st st' _ ha hw, m, ?_⟩
    rcases k with k | ⟨v, hv, hcv⟩
    · exact Or.inl k
    · exact Or.inr ⟨v, opStepD_updates y.sched op t r v true hv, hcv⟩

theorem stepCD_wf (y : Sys) (op : DOp) (hw : ObsWF y.st) :
    ObsWF (stepCD y op).st ∧ (stepCD y op).st.mode = y.st.mode := by
  rw [stepCD_eq]
  cases ha : y.st.applyAll (opStepD y.sched op).2 with
  | error e => exact ⟨hw, rfl⟩
  | ok st' => exact ⟨applyAll_preserves_wf y.st st' _ ha hw, applyAll_mode y.st st' _ ha⟩

end SyneTune.DyHPO
