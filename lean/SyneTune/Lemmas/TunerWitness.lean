import SyneTune.Lemmas.TunerNotify
import SyneTune.Lemmas.TunerCkpt
import SyneTune.Lemmas.TunerPolled
import SyneTune.Lemmas.TunerWitnessData
/-
Executable versions of the environment contracts, with soundness lemmas: on a concrete answer
list `Along BOk`, `Along KOk`, … are established by evaluation.  Used by the `_counterexample`
theorems (a witness must satisfy the contracts that the partial theorem keeps).
-/
namespace SyneTune.Tuner
open SyneTune AL

def bOkB (s : LState) (a : Ans) : Bool :=
  match a with
  | .poll sd _ => s.pc != .fetch ||
      (decide (keys sd).Nodup && sd.all (fun kv => decide (kv.1 ∈ s.running) && kv.2 != .paused))
  | _ => true

def kOkB (s : LState) (a : Ans) : Bool :=
  match a with
  | .sugg (.resume id _) => s.pc != .suggest || alookup id s.kst == some .paused
  | _ => true

def ncOkB (s : LState) (a : Ans) : Bool :=
  match a with
  | .decision d _ => s.pc != .decision || d == .continue ||
      (alookup s.cur.tid s.sd != some .failed && (d != .pause || alookup s.cur.tid s.sd != some .stopped))
  | _ => true

def k2OkB (s : LState) (a : Ans) : Bool :=
  match a with
  | .sugg (.resume id _) => s.pc != .suggest || !s.removableSaid.contains id
  | _ => true

def srcOkB (s : LState) (a : Ans) : Bool :=
  match a with
  | .sugg (.start _ (some src)) => s.pc != .suggest || (!s.schedStopped.contains src && !s.removableSaid.contains src)
  | _ => true

def rebindOkB (s : LState) (a : Ans) : Bool :=
  match a with
  | .ids l => s.pc != .busy || decide (s.running.length ≤ l.length)
  | _ => true

/-- a Boolean predicate holds at every step of the run -/
def alongB (p : LState → Ans → Bool) : LState → List Ans → Bool
  | _, [] => true
  | s, a :: as => p s a && alongB p (step s a) as

theorem along_of {p : LState → Ans → Bool} {P : LState → Ans → Prop} (hp : ∀ s a, p s a = true → P s a) :
    ∀ {s : LState} {as : List Ans}, alongB p s as = true → Along P s as := by
  intro s as
  induction as generalizing s with
  | nil => intro _; trivial
  | cons a as ih =>
    intro h
    simp only [alongB, Bool.and_eq_true] at h
    exact ⟨hp _ _ h.1, ih h.2⟩

theorem bOk_of (s : LState) (a : Ans) (h : bOkB s a = true) : BOk s a := by
  intro hp sd res ha
  subst ha
  simp only [bOkB, hp, bne_self_eq_false, Bool.false_or, Bool.and_eq_true, decide_eq_true_eq, List.all_eq_true,
    bne_iff_ne, ne_eq] at h
  exact ⟨h.1, fun kv hkv => h.2 kv hkv⟩

theorem kOk_of (s : LState) (a : Ans) (h : kOkB s a = true) : KOk s a := by
  intro hp id cfg ha
  subst ha
  simpa [kOkB, hp] using h

theorem ncOk_of (s : LState) (a : Ans) (h : ncOkB s a = true) : NCOk s a := by
  intro hp d m ha hd
  subst ha
  simp only [ncOkB, hp, bne_self_eq_false, Bool.false_or, Bool.or_eq_true, beq_iff_eq, Bool.and_eq_true, bne_iff_ne,
    ne_eq] at h
  rcases h with h | h
  · exact absurd h hd
  · refine ⟨h.1, fun hpz => ?_⟩
    rcases h.2 with h2 | h2
    · exact absurd hpz h2
    · exact h2

theorem k2Ok_of (s : LState) (a : Ans) (h : k2OkB s a = true) : K2Ok s a := by
  intro hp id cfg ha
  subst ha
  simpa [k2OkB, hp] using h

theorem srcOk_of (s : LState) (a : Ans) (h : srcOkB s a = true) : SrcOk s a := by
  intro hp cfg src ha
  subst ha
  simpa [srcOkB, hp] using h

theorem rebindOk_of (s : LState) (a : Ans) (h : rebindOkB s a = true) : RebindOk s a := by
  intro hp l ha
  subst ha
  simpa [rebindOkB, hp] using h

/-- no call of the log satisfies `p` -/
def noCall (p : Call → Bool) (l : List Call) : Bool := l.all (fun c => !p c)

end SyneTune.Tuner
