import SyneTune.Lemmas.DomainsCont
/- C07 helper lemmas: the nearest-neighbour ordinal domain (`OrdinalNearestNeighbor`) and its
encoder (`HyperparameterRangeOrdinalNearestNeighbor`). -/
namespace SyneTune.Dom
open SyneTune

theorem absRat_eq_abs (x : ℚ) : absRat x = |x| := by
  unfold absRat
  split_ifs with h
  · exact (abs_of_neg h).symm
  · exact (abs_of_nonneg (not_lt.mp h)).symm

/-! ### `np.argmin` -/

theorem argminAux_spec (xs : List ℚ) : ∀ (i bi : ℕ) (bv : ℚ),
    (argminAux xs i bi bv = bi ∧ ∀ x ∈ xs, bv ≤ x) ∨
    (∃ j m, xs[j]? = some m ∧ argminAux xs i bi bv = i + j ∧ m < bv ∧ (∀ x ∈ xs, m ≤ x) ∧
       ∀ j', j' < j → ∀ y, xs[j']? = some y → m < y) := by
  induction xs with
  | nil => intro i bi bv; left; simp [argminAux]
  | cons x xs ih =>
    intro i bi bv
    by_cases hx : x < bv
    · have e : argminAux (x :: xs) i bi bv = argminAux xs (i + 1) i x := by
        simp only [argminAux, hx, if_true]
      rw [e]
      rcases ih (i + 1) i x with ⟨h1, h2⟩ | ⟨j, m, hj, h1, h2, h3, h4⟩
      · right
        refine ⟨0, x, by simp, by simpa using h1, hx, ?_, ?_⟩
        · intro y hy
          rcases List.mem_cons.mp hy with rfl | hy
          · exact le_refl _
          · exact h2 y hy
        · intro j' hj'; omega
      · right
        refine ⟨j + 1, m, by simpa using hj, by rw [h1]; omega, lt_trans h2 hx, ?_, ?_⟩
        · intro y hy
          rcases List.mem_cons.mp hy with rfl | hy
          · exact le_of_lt h2
          · exact h3 y hy
        · intro j' hj' y hy
          cases j' with
          | zero => simp at hy; subst hy; exact h2
          | succ j'' => exact h4 j'' (by omega) y (by simpa using hy)
    · have e : argminAux (x :: xs) i bi bv = argminAux xs (i + 1) bi bv := by
        simp only [argminAux, hx, if_false]
      rw [e]
      have hx' : bv ≤ x := not_lt.mp hx
      rcases ih (i + 1) bi bv with ⟨h1, h2⟩ | ⟨j, m, hj, h1, h2, h3, h4⟩
      · left
        refine ⟨h1, ?_⟩
        intro y hy
        rcases List.mem_cons.mp hy with rfl | hy
        · exact hx'
        · exact h2 y hy
      · right
        refine ⟨j + 1, m, by simpa using hj, by rw [h1]; omega, h2, ?_, ?_⟩
        · intro y hy
          rcases List.mem_cons.mp hy with rfl | hy
          · exact le_of_lt (lt_of_lt_of_le h2 hx')
          · exact h3 y hy
        · intro j' hj' y hy
          cases j' with
          | zero => simp at hy; subst hy; exact lt_of_lt_of_le h2 hx'
          | succ j'' => exact h4 j'' (by omega) y (by simpa using hy)

/-- `np.argmin`: the index is valid, its entry is a minimum, and it is the FIRST minimum -/
theorem argminFirst_spec (xs : List ℚ) (h : xs ≠ []) :
    ∃ m, xs[argminFirst xs]? = some m ∧ (∀ x ∈ xs, m ≤ x) ∧
      ∀ j, j < argminFirst xs → ∀ y, xs[j]? = some y → m < y := by
  cases xs with
  | nil => exact absurd rfl h
  | cons x xs =>
    have e : argminFirst (x :: xs) = argminAux xs 1 0 x := rfl
    rw [e]
    rcases argminAux_spec xs 1 0 x with ⟨h1, h2⟩ | ⟨j, m, hj, h1, h2, h3, h4⟩
    · rw [h1]
      refine ⟨x, by simp, ?_, ?_⟩
      · intro y hy
        rcases List.mem_cons.mp hy with rfl | hy
        · exact le_refl _
        · exact h2 y hy
      · intro j hj; omega
    · rw [h1]
      refine ⟨m, by rw [Nat.add_comm]; simpa using hj, ?_, ?_⟩
      · intro y hy
        rcases List.mem_cons.mp hy with rfl | hy
        · exact le_of_lt h2
        · exact h3 y hy
      · intro j' hj' y hy
        cases j' with
        | zero => simp at hy; subst hy; exact h2
        | succ j'' => exact h4 j'' (by omega) y (by simpa using hy)

theorem argminFirst_lt (xs : List ℚ) (h : xs ≠ []) : argminFirst xs < xs.length := by
  obtain ⟨m, hm, _, _⟩ := argminFirst_spec xs h
  exact (List.getElem?_eq_some_iff.mp hm).1

theorem argminFirst_le (xs : List ℚ) (i : ℕ) (hi : i < xs.length) :
    ∃ m, xs[argminFirst xs]? = some m ∧ m ≤ xs[i] := by
  have hne : xs ≠ [] := by intro h; subst h; simp at hi
  obtain ⟨m, hm, h2, _⟩ := argminFirst_spec xs hne
  exact ⟨m, hm, h2 _ (List.getElem_mem hi)⟩

theorem argminFirst_first (xs : List ℚ) (j : ℕ) (hj : j < argminFirst xs) :
    ∃ m y, xs[argminFirst xs]? = some m ∧ xs[j]? = some y ∧ m < y := by
  have hne : xs ≠ [] := by intro h; subst h; simp [argminFirst] at hj
  obtain ⟨m, hm, _, h3⟩ := argminFirst_spec xs hne
  have hlt := (List.getElem?_eq_some_iff.mp hm).1
  have hj' : j < xs.length := lt_trans hj hlt
  exact ⟨m, xs[j], hm, List.getElem?_eq_getElem hj', h3 j hj _ (List.getElem?_eq_getElem hj')⟩

/-! ### the domain `OrdinalNearestNeighbor` -/

/-- the index `cast_int` picks -/
def nnIdx (env : Env) (d : NNDom) (w : ℚ) : ℕ :=
  if 1 < d.cats.length then argminFirst ((d.catsInt env).map (fun y => absRat (y - w))) else 0

theorem nn_castInt_eq (env : Env) (d : NNDom) (w : ℚ) :
    d.castInt env w = match d.cats[nnIdx env d w]? with
      | some v => .ok v
      | none => .error .assertion := rfl

theorem nn_castInt_of_idx {env : Env} {d : NNDom} {w : ℚ} {v : Val}
    (h : d.cats[nnIdx env d w]? = some v) : d.castInt env w = .ok v := by
  rw [nn_castInt_eq, h]

theorem nn_catsInt_length (env : Env) (d : NNDom) : (d.catsInt env).length = d.cats.length := by
  unfold NNDom.catsInt NNDom.nums
  split_ifs <;> simp

theorem nn_dist_ne_nil (env : Env) (d : NNDom) (h : d.cats ≠ []) (w : ℚ) :
    (d.catsInt env).map (fun y => absRat (y - w)) ≠ [] := by
  intro hh
  have := congrArg List.length hh
  rw [List.length_map, nn_catsInt_length, List.length_nil] at this
  exact h (List.length_eq_zero_iff.mp this)

theorem nnIdx_lt (env : Env) (d : NNDom) (h : d.cats ≠ []) (w : ℚ) : nnIdx env d w < d.cats.length := by
  have hpos : 0 < d.cats.length := List.length_pos_iff.mpr h
  unfold nnIdx
  split_ifs with h1
  · have hne := nn_dist_ne_nil env d h w
    have := argminFirst_lt _ hne
    simpa [nn_catsInt_length] using this
  · exact hpos

theorem nn_castInt_member (env : Env) (d : NNDom) (h : d.cats ≠ []) (w : ℚ) :
    ∃ v, d.castInt env w = .ok v ∧ v ∈ d.cats := by
  have hi := nnIdx_lt env d h w
  exact ⟨_, nn_castInt_of_idx (List.getElem?_eq_getElem hi), List.getElem_mem hi⟩

theorem nn_sample_member (env : Env) (d : NNDom) (h : 1 < d.cats.length) (u : ℚ) :
    ∃ v, d.sample env (.unit u) = .ok v ∧ v ∈ d.cats := by
  have hne : d.cats ≠ [] := by intro hh; rw [hh] at h; simp at h
  simp only [NNDom.sample, NNDom.lowerInt, NNDom.upperInt, h, if_true]
  exact nn_castInt_member env d hne _

theorem nn_sample_single (env : Env) (d : NNDom) (h : d.cats.length = 1) (u : ℚ) :
    d.sample env (.unit u) = .error .typeError := by
  simp [NNDom.sample, NNDom.lowerInt, NNDom.upperInt, h]

theorem increasing_pairwise : ∀ (xs : List ℚ), increasing xs = true → xs.Pairwise (· < ·)
  | [], _ => List.Pairwise.nil
  | [a], _ => List.pairwise_singleton _ _
  | a :: b :: rest, h => by
    simp only [increasing, Bool.and_eq_true, decide_eq_true_eq] at h
    have ih := increasing_pairwise (b :: rest) h.2
    refine List.pairwise_cons.mpr ⟨?_, ih⟩
    intro y hy
    rcases List.mem_cons.mp hy with rfl | hy
    · exact h.1
    · exact lt_trans h.1 ((List.pairwise_cons.mp ih).1 y hy)

/-- what `OrdinalNearestNeighbor._initialize` asserts -/
theorem nn_ok_iff {d : NNDom} (hok : d.ok = true) :
    catsOk d.cats = true ∧ (vtypeOf d.cats = .int ∨ vtypeOf d.cats = .flt) ∧
    increasing d.nums = true ∧ (d.log = true → 0 < d.nums.headD 0) := by
  unfold NNDom.ok at hok
  simp only [Bool.and_eq_true, Bool.or_eq_true, beq_iff_eq, Bool.not_eq_true', decide_eq_true_eq] at hok
  obtain ⟨⟨⟨hc, ht⟩, hinc⟩, hlog⟩ := hok
  refine ⟨hc, ht, hinc, ?_⟩
  intro hl
  rcases hlog with h | h
  · rw [hl] at h; cases h
  · exact h

/-- every listed value is a number -/
theorem nn_num_some {d : NNDom} (hok : d.ok = true) {v : Val} (hv : v ∈ d.cats) :
    ∃ x, v.num? = some x := by
  obtain ⟨hc, ht, _, _⟩ := nn_ok_iff hok
  unfold catsOk at hc
  simp only [Bool.and_eq_true, List.all_eq_true, beq_iff_eq] at hc
  have hvt := hc.2 v hv
  cases v with
  | int i => exact ⟨_, rfl⟩
  | flt r => exact ⟨_, rfl⟩
  | str s =>
    rw [← hvt] at ht
    rcases ht with h | h <;> cases h

/-- hypothesis on the abstract `log`: strictly monotone on the positive numbers (only used when
`log = true`) -/
def LogMono (env : Env) (log : Bool) : Prop :=
  log = true → ∀ a b : ℚ, 0 < a → a < b → env.log.toInt a < env.log.toInt b

/-- the internal values are strictly increasing -/
theorem nn_catsInt_pairwise {env : Env} {d : NNDom} (hok : d.ok = true) (hmono : LogMono env d.log) :
    (d.catsInt env).Pairwise (· < ·) := by
  obtain ⟨_, _, hinc, hlog⟩ := nn_ok_iff hok
  have hp := increasing_pairwise _ hinc
  unfold NNDom.catsInt
  split_ifs with hl
  · have hm := hmono hl
    have hh := hlog hl
    have hpos : ∀ x ∈ d.nums, 0 < x := by
      cases hn : d.nums with
      | nil => simp
      | cons a rest =>
        rw [hn] at hp hh
        simp only [List.headD_cons] at hh
        intro x hx
        rcases List.mem_cons.mp hx with rfl | hx
        · exact hh
        · exact lt_trans hh ((List.pairwise_cons.mp hp).1 x hx)
    rw [List.pairwise_map]
    exact hp.imp_of_mem (fun ha _ hab => hm _ _ (hpos _ ha) hab)
  · exact hp

theorem nn_catsInt_lt {env : Env} {d : NNDom} (hok : d.ok = true) (hmono : LogMono env d.log)
    {i j : ℕ} {a b : ℚ} (hi : (d.catsInt env)[i]? = some a) (hj : (d.catsInt env)[j]? = some b)
    (hij : i < j) : a < b := by
  have hp := nn_catsInt_pairwise hok hmono
  obtain ⟨hi1, rfl⟩ := List.getElem?_eq_some_iff.mp hi
  obtain ⟨hj1, rfl⟩ := List.getElem?_eq_some_iff.mp hj
  exact List.pairwise_iff_getElem.mp hp i j hi1 hj1 hij

theorem nn_catsInt_getElem? (env : Env) (d : NNDom) (k : ℕ) :
    (d.catsInt env)[k]? = (d.cats[k]?).map (fun v => d.toInternal env (v.num?.getD 0)) := by
  unfold NNDom.catsInt NNDom.nums NNDom.toInternal
  split_ifs <;> simp [List.getElem?_map, Function.comp_def]

/-- the nearest neighbour of an internal value that is listed is that entry -/
theorem nnIdx_exact {env : Env} {d : NNDom} (hok : d.ok = true) (hmono : LogMono env d.log)
    {k : ℕ} {t : ℚ} (hk : (d.catsInt env)[k]? = some t) : nnIdx env d t = k := by
  have hklt : k < d.cats.length := by
    rw [← nn_catsInt_length env d]; exact (List.getElem?_eq_some_iff.mp hk).1
  unfold nnIdx
  split_ifs with h1
  · set dist := (d.catsInt env).map (fun y => absRat (y - t)) with hdist
    have hne : dist ≠ [] :=
      nn_dist_ne_nil env d (by intro hh; rw [hh] at h1; simp at h1) t
    obtain ⟨m, hm, hmin, _⟩ := argminFirst_spec dist hne
    have hdk : dist[k]? = some 0 := by
      simp [hdist, List.getElem?_map, hk, absRat]
    have hm0 : m ≤ 0 := hmin 0 (List.mem_of_getElem? hdk)
    rw [hdist, List.getElem?_map] at hm
    cases ha : (d.catsInt env)[argminFirst dist]? with
    | none => rw [hdist] at ha; rw [ha] at hm; simp at hm
    | some a =>
      rw [hdist] at ha
      rw [ha] at hm
      simp only [Option.map_some, Option.some.injEq] at hm
      rw [absRat_eq_abs] at hm
      have : |a - t| ≤ 0 := hm ▸ hm0
      have hat : a = t := by
        have := abs_nonpos_iff.mp this
        linarith
      subst hat
      rcases Nat.lt_trichotomy (argminFirst ((d.catsInt env).map (fun y => absRat (y - a)))) k with hlt | heq | hgt
      · exact absurd (nn_catsInt_lt hok hmono ha hk hlt) (lt_irrefl _)
      · exact heq
      · exact absurd (nn_catsInt_lt hok hmono hk ha hgt) (lt_irrefl _)
  · omega

theorem nn_castInt_exact {env : Env} {d : NNDom} (hok : d.ok = true) (hmono : LogMono env d.log)
    {k : ℕ} {v : Val} (hk : d.cats[k]? = some v) :
    d.castInt env (d.toInternal env (v.num?.getD 0)) = .ok v := by
  have hci : (d.catsInt env)[k]? = some (d.toInternal env (v.num?.getD 0)) := by
    rw [nn_catsInt_getElem?, hk]; rfl
  apply nn_castInt_of_idx
  rw [nnIdx_exact hok hmono hci, hk]

/-- **`cast` is the identity on the listed values** -/
theorem nn_cast_self {env : Env} {d : NNDom} (hok : d.ok = true) (hmono : LogMono env d.log)
    {v : Val} (hv : v ∈ d.cats) : d.cast env v = .ok v := by
  obtain ⟨x, hx⟩ := nn_num_some hok hv
  obtain ⟨k, hk⟩ := List.mem_iff_getElem?.mp hv
  have := nn_castInt_exact (env := env) hok hmono hk
  rw [hx] at this
  simp only [NNDom.cast, hx]
  exact this

/-! ### bounds of the internal range -/

theorem diffs_sum_nonneg : ∀ (xs : List ℚ), xs.Pairwise (· < ·) → 0 ≤ (diffs xs).sum
  | [], _ => by simp [diffs]
  | [a], _ => by simp [diffs]
  | a :: b :: rest, h => by
    have h1 : a < b := (List.pairwise_cons.mp h).1 b (by simp)
    have ih := diffs_sum_nonneg (b :: rest) (List.pairwise_cons.mp h).2
    simp only [diffs, List.sum_cons]
    linarith

theorem avgDist_nonneg {xs : List ℚ} (h : xs.Pairwise (· < ·)) : 0 ≤ avgDist xs := by
  unfold avgDist
  exact mul_nonneg (by norm_num) (div_nonneg (diffs_sum_nonneg xs h) (Nat.cast_nonneg _))

theorem le_getLastD : ∀ (l : List ℚ) (a0 : ℚ), l.Pairwise (· < ·) → (∀ y ∈ l, a0 ≤ y) →
    a0 ≤ l.getLastD a0 ∧ ∀ t ∈ l, t ≤ l.getLastD a0
  | [], a0, _, _ => by simp
  | b :: l, a0, hp, h0 => by
    have hb : ∀ y ∈ l, b ≤ y := fun y hy => le_of_lt ((List.pairwise_cons.mp hp).1 y hy)
    obtain ⟨i1, i2⟩ := le_getLastD l b (List.pairwise_cons.mp hp).2 hb
    rw [List.getLastD_cons]
    refine ⟨le_trans (h0 b (by simp)) i1, ?_⟩
    intro t ht
    rcases List.mem_cons.mp ht with rfl | ht
    · exact i1
    · exact i2 t ht

/-- every internal value lies inside `[_lower_int, _upper_int]` -/
theorem nn_bounds_mem {env : Env} {d : NNDom} (hok : d.ok = true) (hmono : LogMono env d.log)
    {lo hi : ℚ} (hl : d.lowerInt env = some lo) (hu : d.upperInt env = some hi)
    {t : ℚ} (ht : t ∈ d.catsInt env) : lo ≤ t ∧ t ≤ hi := by
  have hp := nn_catsInt_pairwise hok hmono
  have havg := avgDist_nonneg hp
  unfold NNDom.lowerInt at hl
  unfold NNDom.upperInt at hu
  simp only at hl hu
  split at hl
  · rename_i hlen
    simp only [hlen, if_true] at hu
    injection hl with hl
    injection hu with hu
    subst hl; subst hu
    generalize d.catsInt env = ci at *
    cases ci with
    | nil => simp at ht
    | cons a rest =>
      have h1 : a ≤ t := by
        rcases List.mem_cons.mp ht with rfl | ht'
        · exact le_refl _
        · exact le_of_lt ((List.pairwise_cons.mp hp).1 t ht')
      have ha : ∀ y ∈ rest, a ≤ y := fun y hy => le_of_lt ((List.pairwise_cons.mp hp).1 y hy)
      obtain ⟨i1, i2⟩ := le_getLastD rest a (List.pairwise_cons.mp hp).2 ha
      have h2 : t ≤ (a :: rest).getLastD 0 := by
        rw [List.getLastD_cons]
        rcases List.mem_cons.mp ht with rfl | ht'
        · exact i1
        · exact i2 t ht'
      simp only [List.headD_cons]
      constructor <;> linarith
  · cases hl

/-! ### the encoder `HyperparameterRangeOrdinalNearestNeighbor` -/

private theorem nn_pyEq_refl (v : Val) : v.pyEq v = true := by
  cases v <;> simp [Val.pyEq, Val.num?]

private theorem nn_pyIn_of_mem {v : Val} {l : List Val} (h : v ∈ l) : pyIn v l = true := by
  unfold pyIn
  exact List.any_eq_true.mpr ⟨v, h, nn_pyEq_refl v⟩

theorem mkOrdNN_ok {env : Env} {c : Consts} {choices : List Val} {log : Bool}
    {active : Option (List Val)} {r : OrdNN} (hmk : mkOrdNN env c choices log active = .ok r) :
    1 < choices.length ∧ (NNDom.mk choices log).ok = true ∧ r.dom = ⟨choices, log⟩ ∧
    ∃ aL aU lo hi, nnActiveBounds env c ⟨choices, log⟩ active = .ok (aL, aU) ∧
      (NNDom.mk choices log).lowerInt env = some lo ∧ (NNDom.mk choices log).upperInt env = some hi ∧
      mkCont env c lo hi .lin aL aU = .ok r.rcont := by
  unfold mkOrdNN at hmk
  simp only at hmk
  split at hmk
  · rename_i h1
    split at hmk
    · rename_i aL aU lo hi hb hl hu
      split at hmk
      · rename_i rc hrc
        injection hmk with hmk
        subst hmk
        exact ⟨h1.1, h1.2, rfl, aL, aU, lo, hi, hb, hl, hu, hrc⟩
      · cases hmk
    · cases hmk
    · cases hmk
  · cases hmk

/-- **decoded values are listed choices**; the code rejects exactly the inputs outside
`[-EPS, 1+EPS]` -/
theorem ordnn_decode_member {env : Env} {c : Consts} {choices : List Val} {log : Bool}
    {active : Option (List Val)} {r : OrdNN} (hmk : mkOrdNN env c choices log active = .ok r)
    (x : ℚ) :
    (-c.eps ≤ x ∧ x ≤ 1 + c.eps → ∃ v, r.decode env c x = .ok v ∧ v ∈ choices) ∧
    (¬(-c.eps ≤ x ∧ x ≤ 1 + c.eps) → r.decode env c x = .error .assertion) := by
  obtain ⟨hlen, hok, hdom, aL, aU, lo, hi, hb, hl, hu, hc⟩ := mkOrdNN_ok hmk
  obtain ⟨core, hcore, hwb⟩ := mkCont_ok hc
  obtain ⟨_, _, _, hrc, _, _⟩ := withBounds_ok hwb
  have hd := cont_decode_member (c := c) hcore x
  have hne : (NNDom.mk choices log).cats ≠ [] := by
    intro hh; simp only at hh; rw [hh] at hlen; simp at hlen
  unfold OrdNN.decode OrdNN.decodePre
  rw [hrc, hdom]
  constructor
  · intro hx
    obtain ⟨w, hw, _⟩ := hd.1 hx
    rw [hw]
    exact nn_castInt_member env ⟨choices, log⟩ hne w
  · intro hx
    rw [hd.2 hx]

/-- **encodings lie in the unit interval** -/
theorem ordnn_encode_cube {env : Env} {c : Consts} {r : OrdNN} {v : Val} {x : ℚ}
    (h : r.encode env c v = .ok x) : 0 ≤ x ∧ x ≤ 1 := by
  unfold OrdNN.encode at h
  split at h
  · split at h
    · exact cont_encode_cube h
    · cases h
  · cases h

/-- **round trip of a listed choice**: exact -/
theorem ordnn_roundtrip {env : Env} {c : Consts} {choices : List Val} {log : Bool}
    {active : Option (List Val)} {r : OrdNN} (hmk : mkOrdNN env c choices log active = .ok r)
    (heps : 0 ≤ c.eps) (hmono : LogMono env log) {v : Val} (hv : v ∈ choices) :
    ∃ x, r.encode env c v = .ok x ∧ r.decode env c x = .ok v := by
  obtain ⟨hlen, hok, hdom, aL, aU, lo, hi, hb, hl, hu, hc⟩ := mkOrdNN_ok hmk
  obtain ⟨core, hcore, hwb⟩ := mkCont_ok hc
  obtain ⟨_, _, _, hrc, _, _⟩ := withBounds_ok hwb
  have hv' : v ∈ (NNDom.mk choices log).cats := hv
  obtain ⟨y, hy⟩ := nn_num_some hok hv'
  obtain ⟨k, hk⟩ := List.mem_iff_getElem?.mp hv'
  have hmono' : LogMono env (NNDom.mk choices log).log := hmono
  have hci : ((NNDom.mk choices log).catsInt env)[k]? =
      some ((NNDom.mk choices log).toInternal env y) := by
    rw [nn_catsInt_getElem?, hk, Option.map_some, hy]; rfl
  obtain ⟨h1, h2⟩ := nn_bounds_mem hok hmono' hl hu (List.mem_of_getElem? hci)
  obtain ⟨x, e1, e2⟩ := cont_roundtrip hcore heps (scaleOK_lin env lo hi) h1 h2
  have hexact := nn_castInt_exact (env := env) hok hmono' hk
  rw [hy] at hexact
  refine ⟨x, ?_, ?_⟩
  · unfold OrdNN.encode
    rw [hdom, hrc]
    simp only [nn_pyIn_of_mem hv, if_true, hy]
    exact e1
  · unfold OrdNN.decode OrdNN.decodePre
    rw [hrc, e2, hdom]
    exact hexact

/-! ### active sub-range -/

/-- In a strictly increasing list, if `w` is beyond the midpoint between the entries `fp-1`, `fp`
and before the midpoint between the entries `last`, `last+1`, the first nearest entry has its
index in `[fp, last]`. -/
theorem argmin_window {ci : List ℚ} (hp : ci.Pairwise (· < ·)) (w : ℚ) {fp last : ℕ}
    (hlast : last < ci.length) (hfl : fp ≤ last)
    (hL : ∀ (_ : 0 < fp), (ci[fp]'(by omega) + ci[fp - 1]'(by omega)) / 2 < w)
    (hU : ∀ (h1 : last + 1 < ci.length), w < (ci[last] + ci[last + 1]) / 2) :
    fp ≤ argminFirst (ci.map (fun y => absRat (y - w))) ∧
    argminFirst (ci.map (fun y => absRat (y - w))) ≤ last := by
  have hne : ci.map (fun y => absRat (y - w)) ≠ [] := by
    intro hh
    have := congrArg List.length hh
    rw [List.length_map, List.length_nil] at this
    omega
  obtain ⟨m, hm, hmin, hfirst⟩ := argminFirst_spec _ hne
  generalize argminFirst (ci.map (fun y => absRat (y - w))) = a at *
  have halt : a < ci.length := by
    have := (List.getElem?_eq_some_iff.mp hm).1
    rwa [List.length_map] at this
  have hma : m = |ci[a] - w| := by
    rw [List.getElem?_map, List.getElem?_eq_getElem halt, Option.map_some] at hm
    injection hm with hm
    rw [← hm, absRat_eq_abs]
  have hinc := List.pairwise_iff_getElem.mp hp
  constructor
  · by_contra hlt
    have hlt : a < fp := not_le.mp hlt
    have h0 : 0 < fp := by omega
    have hLw := hL h0
    have hfp1 : fp - 1 < ci.length := by omega
    have hfpl : fp < ci.length := by omega
    have hya : ci[a] ≤ ci[fp - 1] := by
      rcases Nat.lt_or_ge a (fp - 1) with h | h
      · exact le_of_lt (hinc a (fp - 1) halt hfp1 h)
      · have : a = fp - 1 := by omega
        subst this
        exact le_refl _
    have hlt2 : ci[fp - 1] < ci[fp] := hinc (fp - 1) fp hfp1 hfpl (by omega)
    have hmem : |ci[fp] - w| ∈ ci.map (fun y => absRat (y - w)) :=
      List.mem_map.mpr ⟨ci[fp], List.getElem_mem _, absRat_eq_abs _⟩
    have h1 := hmin _ hmem
    rw [hma] at h1
    have h2 : |ci[fp] - w| < w - ci[a] := by
      rw [abs_lt]; constructor <;> linarith
    have h3 : w - ci[a] ≤ |ci[a] - w| := by
      have := neg_le_abs (ci[a] - w)
      linarith
    linarith
  · by_contra hgt
    have hgt : last < a := not_le.mp hgt
    have hl1 : last + 1 < ci.length := by omega
    have hUw := hU hl1
    have hya : ci[last + 1] ≤ ci[a] := by
      rcases Nat.lt_or_ge (last + 1) a with h | h
      · exact le_of_lt (hinc (last + 1) a hl1 halt h)
      · have : a = last + 1 := by omega
        subst this
        exact le_refl _
    have hlt2 : ci[last] < ci[last + 1] := hinc last (last + 1) hlast hl1 (by omega)
    have hd : (ci.map (fun y => absRat (y - w)))[last]? = some |ci[last] - w| := by
      rw [List.getElem?_map, List.getElem?_eq_getElem hlast, Option.map_some, absRat_eq_abs]
    have h1 := hfirst last hgt _ hd
    rw [hma] at h1
    have h2 : |ci[last] - w| < ci[a] - w := by
      rw [abs_lt]; constructor <;> linarith
    have h3 : ci[a] - w ≤ |ci[a] - w| := le_abs_self _
    linarith

theorem nnActiveBounds_ok {env : Env} {c : Consts} {d : NNDom} {act : List Val} {fp : ℕ}
    {aL aU : Option ℚ} (hfp : firstPos d.cats (some act) = .ok (some fp))
    (h : nnActiveBounds env c d (some act) = .ok (aL, aU)) :
    ∃ lt rt, (d.catsInt env)[fp]? = some lt ∧ (d.catsInt env)[fp + act.length - 1]? = some rt ∧
      aL = (if 0 < fp then
              (match (d.catsInt env)[fp - 1]? with
               | some p => some (lt - c.c499 * (lt - p))
               | none => none)
            else d.lowerInt env) ∧
      aU = (if fp + act.length - 1 < d.cats.length - 1 then
              (match (d.catsInt env)[fp + act.length - 1 + 1]? with
               | some n => some (rt + c.c499 * (n - rt))
               | none => none)
            else d.upperInt env) := by
  unfold nnActiveBounds at h
  simp only [hfp] at h
  split at h
  · rename_i lt rt h1 h2
    injection h with h
    injection h with ha hb
    exact ⟨lt, rt, h1, h2, ha.symm, hb.symm⟩
  · cases h

theorem firstPos_act_ne_nil {choices act : List Val} {fp : ℕ}
    (hfp : firstPos choices (some act) = .ok (some fp)) : act ≠ [] := by
  intro h
  subst h
  unfold firstPos at hfp
  split at hfp
  · cases hfp
  · cases hfp

/-- **active sub-range**: every `x` inside the `_ndarray_bounds` decodes to one of the active
choices `choices[fp], …, choices[fp + len(active) - 1]` -/
theorem ordnn_active {env : Env} {c : Consts} {choices : List Val} {log : Bool}
    {act : List Val} {r : OrdNN} (hmk : mkOrdNN env c choices log (some act) = .ok r)
    (heps : 0 ≤ c.eps) (h499 : c.c499 < 1 / 2) (hmono : LogMono env log)
    {fp : ℕ} (hfp : firstPos choices (some act) = .ok (some fp))
    {x : ℚ} (hx : r.rcont.bLo ≤ x ∧ x ≤ r.rcont.bHi) :
    ∃ v i, r.decode env c x = .ok v ∧ fp ≤ i ∧ i < fp + act.length ∧ choices[i]? = some v := by
  obtain ⟨hlen, hok, hdom, aL, aU, lo, hi, hb, hl, hu, hc⟩ := mkOrdNN_ok hmk
  obtain ⟨core, hcore, hwb⟩ := mkCont_ok hc
  obtain ⟨w, hw, hw1, hw2⟩ := cont_active hcore hwb heps (scaleOK_lin env lo hi) hx
  have hfp' : firstPos (NNDom.mk choices log).cats (some act) = .ok (some fp) := hfp
  obtain ⟨lt, rt, hlt, hrt, haL, haU⟩ := nnActiveBounds_ok hfp' hb
  have hmono' : LogMono env (NNDom.mk choices log).log := hmono
  have hp := nn_catsInt_pairwise hok hmono'
  have hlenci : ((NNDom.mk choices log).catsInt env).length = choices.length :=
    nn_catsInt_length env _
  have hcl : (NNDom.mk choices log).cats.length = choices.length := rfl
  have hactlen : 0 < act.length := List.length_pos_iff.mpr (firstPos_act_ne_nil hfp)
  obtain ⟨hfplt, hlt'⟩ := List.getElem?_eq_some_iff.mp hlt
  obtain ⟨hlastlt, hrt'⟩ := List.getElem?_eq_some_iff.mp hrt
  generalize hci : (NNDom.mk choices log).catsInt env = ci at *
  have hinc := List.pairwise_iff_getElem.mp hp
  have hwin := argmin_window hp w (fp := fp) (last := fp + act.length - 1) hlastlt (by omega)
    (by
      intro h0
      have hf1 : fp - 1 < ci.length := by omega
      rw [if_pos h0, List.getElem?_eq_getElem hf1] at haL
      simp only at haL
      rw [haL] at hw1
      simp only [Option.getD_some] at hw1
      have hD : 0 < ci[fp] - ci[fp - 1] := by
        have := hinc (fp - 1) fp hf1 hfplt (by omega)
        linarith
      have := mul_lt_mul_of_pos_right h499 hD
      rw [← hlt'] at hw1
      linarith)
    (by
      intro h1
      have hcond : fp + act.length - 1 < (NNDom.mk choices log).cats.length - 1 := by omega
      rw [if_pos hcond, List.getElem?_eq_getElem h1] at haU
      simp only at haU
      rw [haU] at hw2
      simp only [Option.getD_some] at hw2
      have hD : 0 < ci[fp + act.length - 1 + 1] - ci[fp + act.length - 1] := by
        have := hinc (fp + act.length - 1) (fp + act.length - 1 + 1) hlastlt h1 (by omega)
        linarith
      have := mul_lt_mul_of_pos_right h499 hD
      rw [← hrt'] at hw2
      linarith)
  have hidx : nnIdx env (NNDom.mk choices log) w =
      argminFirst (ci.map (fun y => absRat (y - w))) := by
    unfold nnIdx
    rw [hci]
    exact if_pos hlen
  have hilt : nnIdx env (NNDom.mk choices log) w < choices.length := by
    rw [hidx]; omega
  refine ⟨choices[nnIdx env (NNDom.mk choices log) w], nnIdx env (NNDom.mk choices log) w, ?_,
    by rw [hidx]; exact hwin.1, by rw [hidx]; omega, List.getElem?_eq_getElem hilt⟩
  unfold OrdNN.decode OrdNN.decodePre
  rw [hw, hdom]
  exact nn_castInt_of_idx (List.getElem?_eq_getElem hilt)

theorem zipAllEq_getElem? : ∀ {as bs : List Val}, zipAllEq as bs = true →
    ∀ {j : ℕ} {a b : Val}, as[j]? = some a → bs[j]? = some b → a.pyEq b = true
  | [], _, _, j, a, b, ha, _ => by simp at ha
  | _ :: _, [], _, j, a, b, _, hb => by simp at hb
  | a0 :: as, b0 :: bs, h, j, a, b, ha, hb => by
    simp only [zipAllEq, Bool.and_eq_true] at h
    cases j with
    | zero =>
      simp only [List.getElem?_cons_zero, Option.some.injEq] at ha hb
      subst ha; subst hb; exact h.1
    | succ j => exact zipAllEq_getElem? h.2 (by simpa using ha) (by simpa using hb)

theorem firstPos_ok {choices act : List Val} {fp : ℕ}
    (hfp : firstPos choices (some act) = .ok (some fp)) :
    zipAllEq act (choices.drop fp) = true := by
  cases act with
  | nil => exact absurd rfl (firstPos_act_ne_nil hfp)
  | cons a0 rest =>
    unfold firstPos at hfp
    split at hfp
    · cases hfp
    · simp only at hfp
      split at hfp
      · rename_i p hp
        split at hfp
        · rename_i hz
          injection hfp with hfp
          injection hfp with hfp
          subst hfp
          exact hz
        · cases hfp
      · cases hfp

/-- the decoded value is (Python-)equal to one of the active choices -/
theorem ordnn_active_pyIn {env : Env} {c : Consts} {choices : List Val} {log : Bool}
    {act : List Val} {r : OrdNN} (hmk : mkOrdNN env c choices log (some act) = .ok r)
    (heps : 0 ≤ c.eps) (h499 : c.c499 < 1 / 2) (hmono : LogMono env log)
    {x : ℚ} (hx : r.rcont.bLo ≤ x ∧ x ≤ r.rcont.bHi) :
    ∃ v, r.decode env c x = .ok v ∧ v ∈ choices ∧ pyIn v act = true := by
  obtain ⟨_, _, _, aL, aU, _, _, hb, _, _, _⟩ := mkOrdNN_ok hmk
  have hfp : ∃ fp, firstPos choices (some act) = .ok (some fp) := by
    unfold nnActiveBounds at hb
    simp only at hb
    split at hb
    · cases hb
    · cases hb
    · rename_i fp h; exact ⟨fp, h⟩
  obtain ⟨fp, hfp⟩ := hfp
  obtain ⟨v, i, hv, hi1, hi2, hiv⟩ := ordnn_active hmk heps h499 hmono hfp hx
  refine ⟨v, hv, List.mem_of_getElem? hiv, ?_⟩
  have hz := firstPos_ok hfp
  have hj : i - fp < act.length := by omega
  have hd : (choices.drop fp)[i - fp]? = some v := by
    rw [List.getElem?_drop]
    have : fp + (i - fp) = i := by omega
    rw [this]; exact hiv
  have hpe := zipAllEq_getElem? hz (List.getElem?_eq_getElem hj) hd
  unfold pyIn
  exact List.any_eq_true.mpr ⟨act[i - fp], List.getElem_mem hj, hpe⟩

/-! ### the hypotheses are satisfiable: a concrete encoder with an active sub-range -/
namespace NNExample

/-- a stand-in `Env` (`log` = identity, strictly monotone) -/
def env : Env := ⟨⟨id, id⟩, ⟨id, id⟩, ⟨id, id⟩⟩
def consts : Consts := ⟨1 / 100000000, 499 / 1000, 1 / 100⟩
def isOk {α} : Except Err α → Bool
  | .ok _ => true
  | .error _ => false

example : LogMono env true := fun _ _ _ _ h => h

example : isOk (mkOrdNN env consts [.int 1, .int 2, .int 4, .int 8] false
    (some [.int 2, .int 4])) = true := by decide +kernel

example : isOk (mkOrdNN env consts [.flt (1/2), .flt 2, .flt 4, .flt 8] true
    (some [.flt (1/2), .flt 2])) = true := by decide +kernel

example : firstPos [.int 1, .int 2, .int 4, .int 8] (some [.int 2, .int 4]) = .ok (some 1) := by
  decide +kernel

example : (NNDom.mk [.int 1, .int 2, .int 4, .int 8] false).cast env (.int 4) = .ok (.int 4) :=
  nn_cast_self (by decide +kernel) (fun h => by cases h) (by simp)

end NNExample

end SyneTune.Dom
