import SyneTune.Lemmas.DomainsCont
/- C07 helper lemmas: the nearest-neighbour ordinal domain (`OrdinalNearestNeighbor`) and its
encoder (`HyperparameterRangeOrdinalNearestNeighbor`). -/
namespace SyneTune.Dom
open SyneTune

theorem absRat_eq_abs (x : ℚ) : absRat x = |x| := by
  unfold absRat
  split_ifs with h
  · exact (abs_of_neg h).symm
  · exact (abs_of_nonneg (not_lt.mp h)).symm

/-! ### `np.argmin` -/

theorem argminAux_spec (xs : List ℚ) : ∀ (i bi : ℕ) (bv : ℚ),
    (argminAux xs i bi bv = bi ∧ ∀ x ∈ xs, bv ≤ x) ∨
    (∃ j m, xs[j]? = some m ∧ argminAux xs i bi bv = i + j ∧ m < bv ∧ (∀ x ∈ xs, m ≤ x) ∧
       ∀ j', j' < j → ∀ y, xs[j']? = some y → m < y) := by
  induction xs with
  | nil => intro i bi bv; left; simp [argminAux]
  | cons x xs ih =>
    intro i bi bv
    by_cases hx : x < bv
    · have e : argminAux (x :: xs) i bi bv = argminAux xs (i + 1) i x := by
        simp only [argminAux, hx, if_true]
      rw [e]
      rcases ih (i + 1) i x with ⟨h1, h2⟩ | ⟨j, m, hj, h1, h2, h3, h4⟩
      · right
        refine ⟨0, x, by simp, by simpa using h1, hx, ?_, ?_⟩
        · intro y hy
          rcases List.mem_cons.mp hy with rfl | hy
          · exact le_refl _
          · exact h2 y hy
        · intro j' hj'; omega
      · right
        refine ⟨j + 1, m, by simpa using hj, by rw [h1]; omega, lt_trans h2 hx, ?_, ?_⟩
        · intro y hy
          rcases List.mem_cons.mp hy with rfl | hy
          · exact le_of_lt h2
          · exact h3 y hy
        · intro j' hj' y hy
          cases j' with
          | zero => simp at hy; subst hy; exact h2
          | succ j'' => exact h4 j'' (by omega) y (by simpa using hy)
    · have e : argminAux (x :: xs) i bi bv = argminAux xs (i + 1) bi bv := by
        simp only [argminAux, hx, if_false]
      rw [e]
      have hx' : bv ≤ x := not_lt.mp hx
      rcases ih (i + 1) bi bv with ⟨h1, h2⟩ | ⟨j, m, hj, h1, h2, h3, h4⟩
      · left
        refine ⟨h1, ?_⟩
        intro y hy
        rcases List.mem_cons.mp hy with rfl | hy
        · exact hx'
        · exact h2 y hy
      · right
        refine ⟨j + 1, m, by simpa using hj, by rw [h1]; omega, h2, ?_, ?_⟩
        · intro y hy
          rcases List.mem_cons.mp hy with rfl | hy
          · exact le_of_lt (lt_of_lt_of_le h2 hx')
          · exact h3 y hy
        · intro j' hj' y hy
          cases j' with
          | zero => simp at hy; subst hy; exact lt_of_lt_of_le h2 hx'
          | succ j'' => exact h4 j'' (by omega) y (by simpa using hy)

/-- `np.argmin`: the index is valid, its entry is a minimum, and it is the FIRST minimum -/
theorem argminFirst_spec (xs : List ℚ) (h : xs ≠ []) :
    ∃ m, xs[argminFirst xs]? = some m ∧ (∀ x ∈ xs, m ≤ x) ∧
      ∀ j, j < argminFirst xs → ∀ y, xs[j]? = some y → m < y := by
  cases xs with
  | nil => exact absurd rfl h
  | cons x xs =>
    have e : argminFirst (x :: xs) = argminAux xs 1 0 x := rfl
    rw [e]
    rcases argminAux_spec xs 1 0 x with ⟨h1, h2⟩ | ⟨j, m, hj, h1, h2, h3, h4⟩
    · rw [h1]
      refine ⟨x, by simp, ?_, ?_⟩
      · intro y hy
        rcases List.mem_cons.mp hy with rfl | hy
        · exact le_refl _
        · exact h2 y hy
      · intro j hj; omega
    · rw [h1]
      refine ⟨m, by rw [Nat.add_comm]; simpa using hj, ?_, ?_⟩
      · intro y hy
        rcases List.mem_cons.mp hy with rfl | hy
        · exact le_of_lt h2
        · exact h3 y hy
      · intro j' hj' y hy
        cases j' with
        | zero => simp at hy; subst hy; exact h2
        | succ j'' => exact h4 j'' (by omega) y (by simpa using hy)

theorem argminFirst_lt (xs : List ℚ) (h : xs ≠ []) : argminFirst xs < xs.length := by
  obtain ⟨m, hm, _, _⟩ := argminFirst_spec xs h
  exact (List.getElem?_eq_some_iff.mp hm).1

theorem argminFirst_le (xs : List ℚ) (i : ℕ) (hi : i < xs.length) :
    ∃ m, xs[argminFirst xs]? = some m ∧ m ≤ xs[i] := by
  have hne : xs ≠ [] := by intro h; subst h; simp at hi
  obtain ⟨m, hm, h2, _⟩ := argminFirst_spec xs hne
  exact ⟨m, hm, h2 _ (List.getElem_mem hi)⟩

theorem argminFirst_first (xs : List ℚ) (j : ℕ) (hj : j < argminFirst xs) :
    ∃ m y, xs[argminFirst xs]? = some m ∧ xs[j]? = some y ∧ m < y := by
  have hne : xs ≠ [] := by intro h; subst h; simp [argminFirst] at hj
  obtain ⟨m, hm, _, h3⟩ := argminFirst_spec xs hne
  have hlt := (List.getElem?_eq_some_iff.mp hm).1
  have hj' : j < xs.length := lt_trans hj hlt
  exact ⟨m, xs[j], hm, List.getElem?_eq_getElem hj', h3 j hj _ (List.getElem?_eq_getElem hj')⟩

/-! ### the domain `OrdinalNearestNeighbor` -/

/-- the index `cast_int` picks -/
def nnIdx (env : Env) (d : NNDom) (w : ℚ) : ℕ :=
  if 1 < d.cats.length then argminFirst ((d.catsInt env).map (fun y => absRat (y - w))) else 0

theorem nn_castInt_eq (env : Env) (d : NNDom) (w : ℚ) :
    d.castInt env w = match d.cats[nnIdx env d w]? with
      | some v => .ok v
      | none => .error .assertion := rfl

theorem nn_castInt_of_idx {env : Env} {d : NNDom} {w : ℚ} {v : Val}
    (h : d.cats[nnIdx env d w]? = some v) : d.castInt env w = .ok v := by
  rw [nn_castInt_eq, h]

theorem nn_catsInt_length (env : Env) (d : NNDom) : (d.catsInt env).length = d.cats.length := by
  unfold NNDom.catsInt NNDom.nums
  split_ifs <;> simp

theorem nnIdx_lt (env : Env) (d : NNDom) (h : d.cats ≠ []) (w : ℚ) : nnIdx env d w < d.cats.length := by
  have hpos : 0 < d.cats.length := List.length_pos_iff.mpr h
  unfold nnIdx
  split_ifs with h1
  · have hne : (d.catsInt env).map (fun y => absRat (y - w)) ≠ [] := by
      intro hh
      have := congrArg List.length hh
      simp [nn_catsInt_length] at this
      omega
    have := argminFirst_lt _ hne
    simpa [nn_catsInt_length] using this
  · exact hpos

theorem nn_castInt_member (env : Env) (d : NNDom) (h : d.cats ≠ []) (w : ℚ) :
    ∃ v, d.castInt env w = .ok v ∧ v ∈ d.cats := by
  have hi := nnIdx_lt env d h w
  exact ⟨_, nn_castInt_of_idx (List.getElem?_eq_getElem hi), List.getElem_mem hi⟩

theorem nn_sample_member (env : Env) (d : NNDom) (h : 1 < d.cats.length) (u : ℚ) :
    ∃ v, d.sample env (.unit u) = .ok v ∧ v ∈ d.cats := by
  have hne : d.cats ≠ [] := by intro hh; rw [hh] at h; simp at h
  simp only [NNDom.sample, NNDom.lowerInt, NNDom.upperInt, h, if_true]
  exact nn_castInt_member env d hne _

theorem nn_sample_single (env : Env) (d : NNDom) (h : d.cats.length = 1) (u : ℚ) :
    d.sample env (.unit u) = .error .typeError := by
  simp [NNDom.sample, NNDom.lowerInt, NNDom.upperInt, h]

theorem increasing_pairwise : ∀ (xs : List ℚ), increasing xs = true → xs.Pairwise (· < ·)
  | [], _ => List.Pairwise.nil
  | [a], _ => List.pairwise_singleton _ _
  | a :: b :: rest, h => by
    simp only [increasing, Bool.and_eq_true, decide_eq_true_eq] at h
    have ih := increasing_pairwise (b :: rest) h.2
    refine List.pairwise_cons.mpr ⟨?_, ih⟩
    intro y hy
    rcases List.mem_cons.mp hy with rfl | hy
    · exact h.1
    · exact lt_trans h.1 ((List.pairwise_cons.mp ih).1 y hy)

/-- what `OrdinalNearestNeighbor._initialize` asserts -/
theorem nn_ok_iff {d : NNDom} (hok : d.ok = true) :
    catsOk d.cats = true ∧ (vtypeOf d.cats = .int ∨ vtypeOf d.cats = .flt) ∧
    increasing d.nums = true ∧ (d.log = true → 0 < d.nums.headD 0) := by
  unfold NNDom.ok at hok
  simp only [Bool.and_eq_true, Bool.or_eq_true, beq_iff_eq, Bool.not_eq_true', decide_eq_true_eq] at hok
  obtain ⟨⟨⟨hc, ht⟩, hinc⟩, hlog⟩ := hok
  refine ⟨hc, ht, hinc, ?_⟩
  intro hl
  rcases hlog with h | h
  · rw [hl] at h; cases h
  · exact h

/-- every listed value is a number -/
theorem nn_num_some {d : NNDom} (hok : d.ok = true) {v : Val} (hv : v ∈ d.cats) :
    ∃ x, v.num? = some x := by
  obtain ⟨hc, ht, _, _⟩ := nn_ok_iff hok
  unfold catsOk at hc
  simp only [Bool.and_eq_true, List.all_eq_true, beq_iff_eq] at hc
  have hvt := hc.2 v hv
  cases v with
  | int i => exact ⟨_, rfl⟩
  | flt r => exact ⟨_, rfl⟩
  | str s =>
    rw [← hvt] at ht
    rcases ht with h | h <;> cases h

/-- hypothesis on the abstract `log`: strictly monotone on the positive numbers (only used when
`log = true`) -/
def LogMono (env : Env) (log : Bool) : Prop :=
  log = true → ∀ a b : ℚ, 0 < a → a < b → env.log.toInt a < env.log.toInt b

/-- the internal values are strictly increasing -/
theorem nn_catsInt_pairwise {env : Env} {d : NNDom} (hok : d.ok = true) (hmono : LogMono env d.log) :
    (d.catsInt env).Pairwise (· < ·) := by
  obtain ⟨_, _, hinc, hlog⟩ := nn_ok_iff hok
  have hp := increasing_pairwise _ hinc
  unfold NNDom.catsInt
  split_ifs with hl
  · have hm := hmono hl
    have hh := hlog hl
    have hpos : ∀ x ∈ d.nums, 0 < x := by
      cases hn : d.nums with
      | nil => simp
      | cons a rest =>
        rw [hn] at hp hh
        simp only [List.headD_cons] at hh
        intro x hx
        rcases List.mem_cons.mp hx with rfl | hx
        · exact hh
        · exact lt_trans hh ((List.pairwise_cons.mp hp).1 x hx)
    rw [List.pairwise_map]
    exact hp.imp_of_mem (fun ha _ hab => hm _ _ (hpos _ ha) hab)
  · exact hp

theorem nn_catsInt_lt {env : Env} {d : NNDom} (hok : d.ok = true) (hmono : LogMono env d.log)
    {i j : ℕ} {a b : ℚ} (hi : (d.catsInt env)[i]? = some a) (hj : (d.catsInt env)[j]? = some b)
    (hij : i < j) : a < b := by
  have hp := nn_catsInt_pairwise hok hmono
  obtain ⟨hi1, rfl⟩ := List.getElem?_eq_some_iff.mp hi
  obtain ⟨hj1, rfl⟩ := List.getElem?_eq_some_iff.mp hj
  exact List.pairwise_iff_getElem.mp hp i j hi1 hj1 hij

theorem nn_catsInt_getElem? (env : Env) (d : NNDom) (k : ℕ) :
    (d.catsInt env)[k]? = (d.cats[k]?).map (fun v => d.toInternal env (v.num?.getD 0)) := by
  unfold NNDom.catsInt NNDom.nums NNDom.toInternal
  split_ifs <;> simp [List.getElem?_map]

/-- the nearest neighbour of an internal value that is listed is that entry -/
theorem nnIdx_exact {env : Env} {d : NNDom} (hok : d.ok = true) (hmono : LogMono env d.log)
    {k : ℕ} {t : ℚ} (hk : (d.catsInt env)[k]? = some t) : nnIdx env d t = k := by
  have hklt : k < d.cats.length := by
    rw [← nn_catsInt_length env d]; exact (List.getElem?_eq_some_iff.mp hk).1
  unfold nnIdx
  split_ifs with h1
  · set dist := (d.catsInt env).map (fun y => absRat (y - t)) with hdist
    have hne : dist ≠ [] := by
      intro hh
      have := congrArg List.length hh
      simp [hdist, nn_catsInt_length] at this
      omega
    obtain ⟨m, hm, hmin, _⟩ := argminFirst_spec dist hne
    have hdk : dist[k]? = some 0 := by
      simp [hdist, List.getElem?_map, hk, absRat]
    have hm0 : m ≤ 0 := hmin 0 (List.mem_of_getElem? hdk)
    rw [hdist, List.getElem?_map] at hm
    cases ha : (d.catsInt env)[argminFirst dist]? with
    | none => rw [hdist] at ha; rw [ha] at hm; simp at hm
    | some a =>
      rw [hdist] at ha
      rw [ha] at hm
      simp only [Option.map_some, Option.some.injEq] at hm
      rw [absRat_eq_abs] at hm
      have : |a - t| ≤ 0 := hm ▸ hm0
      have hat : a = t := by
        have := abs_nonpos_iff.mp this
        linarith
      subst hat
      rcases Nat.lt_trichotomy (argminFirst ((d.catsInt env).map (fun y => absRat (y - a)))) k with hlt | heq | hgt
      · exact absurd (nn_catsInt_lt hok hmono ha hk hlt) (lt_irrefl _)
      · exact heq
      · exact absurd (nn_catsInt_lt hok hmono hk ha hgt) (lt_irrefl _)
  · omega

theorem nn_castInt_exact {env : Env} {d : NNDom} (hok : d.ok = true) (hmono : LogMono env d.log)
    {k : ℕ} {v : Val} (hk : d.cats[k]? = some v) :
    d.castInt env (d.toInternal env (v.num?.getD 0)) = .ok v := by
  have hci : (d.catsInt env)[k]? = some (d.toInternal env (v.num?.getD 0)) := by
    rw [nn_catsInt_getElem?, hk]; rfl
  apply nn_castInt_of_idx
  rw [nnIdx_exact hok hmono hci, hk]

/-- **`cast` is the identity on the listed values** -/
theorem nn_cast_self {env : Env} {d : NNDom} (hok : d.ok = true) (hmono : LogMono env d.log)
    {v : Val} (hv : v ∈ d.cats) : d.cast env v = .ok v := by
  obtain ⟨x, hx⟩ := nn_num_some hok hv
  obtain ⟨k, hk⟩ := List.mem_iff_getElem?.mp hv
  have := nn_castInt_exact (env := env) hok hmono hk
  rw [hx] at this
  simp only [NNDom.cast, hx]
  exact this

end SyneTune.Dom
