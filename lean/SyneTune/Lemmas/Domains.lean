import SyneTune.Model.Encoding
import Mathlib.Tactic.Linarith
import Mathlib.Tactic.Ring
import Mathlib.Tactic.FieldSimp
import Mathlib.Tactic.Positivity
import Mathlib.Tactic.SplitIfs
import Mathlib.Data.Rat.Floor
import Mathlib.Algebra.Order.Floor.Ring
namespace SyneTune.Dom
open SyneTune

theorem rat_floor_eq' (x : ℚ) : x.floor = ⌊x⌋ := rfl

theorem rhe_cases (x : ℚ) :
    (roundHalfEven x = ⌊x⌋ ∧ x - ⌊x⌋ ≤ 1/2) ∨ (roundHalfEven x = ⌊x⌋ + 1 ∧ 1/2 ≤ x - ⌊x⌋) := by
  have key : roundHalfEven x = (if x - (⌊x⌋ : ℚ) < 1/2 then ⌊x⌋ else if 1/2 < x - (⌊x⌋ : ℚ) then ⌊x⌋ + 1
      else if ⌊x⌋ % 2 = 0 then ⌊x⌋ else ⌊x⌋ + 1) := rfl
  rw [key]
  by_cases h1 : x - (⌊x⌋ : ℚ) < 1/2
  · left; rw [if_pos h1]; exact ⟨rfl, le_of_lt h1⟩
  · rw [if_neg h1]
    by_cases h2 : 1/2 < x - (⌊x⌋ : ℚ)
    · right; rw [if_pos h2]; exact ⟨rfl, le_of_lt h2⟩
    · rw [if_neg h2]
      by_cases h3 : ⌊x⌋ % 2 = 0
      · left; rw [if_pos h3]; exact ⟨rfl, not_lt.mp h2⟩
      · right; rw [if_neg h3]; exact ⟨rfl, not_lt.mp h1⟩

theorem rhe_int (k : ℤ) : roundHalfEven (k : ℚ) = k := by
  rcases rhe_cases (k : ℚ) with ⟨h, _⟩ | ⟨h, h2⟩
  · rw [h]; simp
  · simp at h2; norm_num at h2

theorem rhe_abs (x : ℚ) : (roundHalfEven x : ℚ) - 1/2 ≤ x ∧ x ≤ (roundHalfEven x : ℚ) + 1/2 := by
  have hf := Int.floor_le x
  have hl := Int.lt_floor_add_one x
  rcases rhe_cases x with ⟨h, h2⟩ | ⟨h, h2⟩
  · rw [h]; constructor <;> linarith
  · rw [h]; push_cast; constructor <;> linarith

/-- `k - 1/2 < x → k ≤ round x` -/
theorem rhe_ge {x : ℚ} {k : ℤ} (h : (k : ℚ) - 1/2 < x) : k ≤ roundHalfEven x := by
  have h1 := (rhe_abs x).2
  have : (k : ℚ) < (roundHalfEven x : ℚ) + 1 := by linarith
  have : k < roundHalfEven x + 1 := by exact_mod_cast this
  omega

theorem rhe_le {x : ℚ} {k : ℤ} (h : x < (k : ℚ) + 1/2) : roundHalfEven x ≤ k := by
  have h1 := (rhe_abs x).1
  have : (roundHalfEven x : ℚ) - 1 < (k : ℚ) := by linarith
  have : roundHalfEven x - 1 < k := by exact_mod_cast this
  omega

theorem rhe_ge_of_le {x : ℚ} {k : ℤ} (h : (k : ℚ) ≤ x) : k ≤ roundHalfEven x :=
  rhe_ge (by linarith)

theorem rhe_le_of_le {x : ℚ} {k : ℤ} (h : x ≤ (k : ℚ)) : roundHalfEven x ≤ k :=
  rhe_le (by linarith)

theorem clipR_mem {x lo hi : ℚ} (h : lo ≤ hi) : lo ≤ clipR x lo hi ∧ clipR x lo hi ≤ hi := by
  unfold clipR
  by_cases h1 : x < lo
  · simp only [h1, if_true]
    by_cases h2 : hi < lo
    · exact absurd h (not_le.mpr h2)
    · simp [h2]; exact h
  · simp only [h1, if_false]
    by_cases h2 : hi < x
    · simp [h2]; exact h
    · simp [h2]; exact ⟨not_lt.mp h1, not_lt.mp h2⟩

theorem clipR_id {x lo hi : ℚ} (h1 : lo ≤ x) (h2 : x ≤ hi) : clipR x lo hi = x := by
  unfold clipR
  have : ¬ x < lo := not_lt.mpr h1
  have h3 : ¬ hi < x := not_lt.mpr h2
  simp [this, h3]

theorem clipI_mem {x lo hi : ℤ} (h : lo ≤ hi) : lo ≤ clipI x lo hi ∧ clipI x lo hi ≤ hi := by
  unfold clipI
  by_cases h1 : x < lo
  · simp only [h1, if_true]
    by_cases h2 : hi < lo
    · omega
    · simp [h2]; exact h
  · simp only [h1, if_false]
    by_cases h2 : hi < x
    · simp [h2]; exact h
    · simp [h2]; omega

theorem clipI_id {x lo hi : ℤ} (h1 : lo ≤ x) (h2 : x ≤ hi) : clipI x lo hi = x := by
  unfold clipI
  have : ¬ x < lo := by omega
  have h3 : ¬ hi < x := by omega
  simp [this, h3]

end SyneTune.Dom
