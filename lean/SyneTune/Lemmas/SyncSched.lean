import SyneTune.Model.SyncScheduler
import SyneTune.Lemmas.SyncManager
/- Invariant of `SynchronousHyperbandScheduler` (bracket manager + `_trial_to_pending_slot`
+ `_trial_to_config`) and the central lemma about reporting a result to the manager. -/
namespace SyneTune.Sync
open SyneTune

/-! ### association lists -/

theorem alookup_aset_self {β} (k : Nat) (v : β) (l : List (Nat × β)) : alookup k (aset k v l) = some v := by
  induction l with
  | nil => simp [aset, alookup]
  | cons x xs ih =>
    obtain ⟨k', v'⟩ := x
    simp only [aset]
    by_cases h : k = k'
    · simp [h, alookup]
    · simp [h, alookup, ih]

theorem alookup_aset_ne {β} (k k' : Nat) (v : β) (l : List (Nat × β)) (h : k' ≠ k) :
    alookup k' (aset k v l) = alookup k' l := by
  induction l with
  | nil => simp [aset, alookup, h]
  | cons x xs ih =>
    obtain ⟨k'', v''⟩ := x
    simp only [aset]
    by_cases h1 : k = k''
    · subst h1; simp [alookup, h]
    · simp only [h1, if_false, alookup]
      by_cases h2 : k' = k''
      · simp [h2]
      · simp [h2, ih]

theorem alookup_adel_ne {β} (k k' : Nat) (l : List (Nat × β)) (h : k' ≠ k) :
    alookup k' (adel k l) = alookup k' l := by
  induction l with
  | nil => rfl
  | cons x xs ih =>
    obtain ⟨k'', v''⟩ := x
    simp only [adel]
    by_cases h1 : k = k''
    · subst h1; simp [alookup, h]
    · simp only [h1, if_false, alookup]
      by_cases h2 : k' = k''
      · simp [h2]
      · simp [h2, ih]

theorem alookup_none_of_not_mem {β} (k : Nat) (l : List (Nat × β)) (h : k ∉ l.map (·.1)) :
    alookup k l = none := by
  induction l with
  | nil => rfl
  | cons x xs ih =>
    obtain ⟨k', v'⟩ := x
    simp only [List.map_cons, List.mem_cons, not_or] at h
    simp [alookup, h.1, ih h.2]

theorem mem_keys_of_alookup {β} (k : Nat) (v : β) (l : List (Nat × β)) (h : alookup k l = some v) :
    k ∈ l.map (·.1) := by
  by_contra hc
  rw [alookup_none_of_not_mem k l hc] at h; cases h

theorem keys_adel_sublist {β} (k : Nat) (l : List (Nat × β)) :
    ((adel k l).map (·.1)).Sublist (l.map (·.1)) := by
  induction l with
  | nil => simp [adel]
  | cons x xs ih =>
    obtain ⟨k', v'⟩ := x
    simp only [adel]
    by_cases h : k = k'
    · simp [h]
    · simp only [h, if_false, List.map_cons]
      exact ih.cons_cons _

theorem alookup_adel_self {β} (k : Nat) (l : List (Nat × β)) (hn : (l.map (·.1)).Nodup) :
    alookup k (adel k l) = none := by
  induction l with
  | nil => rfl
  | cons x xs ih =>
    obtain ⟨k', v'⟩ := x
    simp only [List.map_cons, List.nodup_cons] at hn
    simp only [adel]
    by_cases h : k = k'
    · subst h
      simp only [if_true]
      exact alookup_none_of_not_mem _ _ hn.1
    · simp only [h, if_false, alookup]
      exact ih hn.2

theorem keys_aset {β} (k : Nat) (v : β) (l : List (Nat × β)) (x : Nat) :
    x ∈ (aset k v l).map (·.1) ↔ x = k ∨ x ∈ l.map (·.1) := by
  induction l with
  | nil => simp [aset]
  | cons y ys ih =>
    obtain ⟨k', v'⟩ := y
    simp only [aset]
    by_cases h : k = k'
    · subst h; simp
    · simp only [h, if_false, List.map_cons, List.mem_cons, ih]
      constructor
      · rintro (h1 | h1 | h1)
        · exact Or.inr (Or.inl h1)
        · exact Or.inl h1
        · exact Or.inr (Or.inr h1)
      · rintro (h1 | h1 | h1)
        · exact Or.inr (Or.inl h1)
        · exact Or.inl h1
        · exact Or.inr (Or.inr h1)

theorem keys_aset_nodup {β} (k : Nat) (v : β) (l : List (Nat × β)) (hn : (l.map (·.1)).Nodup) :
    ((aset k v l).map (·.1)).Nodup := by
  induction l with
  | nil => simp [aset]
  | cons y ys ih =>
    obtain ⟨k', v'⟩ := y
    simp only [List.map_cons, List.nodup_cons] at hn
    simp only [aset]
    by_cases h : k = k'
    · subst h; simpa using hn
    · simp only [h, if_false, List.map_cons, List.nodup_cons]
      refine ⟨?_, ih hn.2⟩
      rw [keys_aset]
      rintro (h1 | h1)
      · exact h h1.symm
      · exact hn.1 h1

/-! ### the invariant -/

def Manager.HasId (g : Manager) (t : Nat) : Prop := ∃ br ∈ g.brackets, br.HasId t

/-- trial `t` owes the result for the slot `sl` of bracket `br`; `rg`, `x` are the current
rung and the slot's content. -/
structure PendSlot (g : Manager) (br : Bracket) (t : Nat) (sl : SlotInRung) (rg : Rung) (x : Slot) : Prop where
  hrg : br.rungs[br.current]? = some rg
  ri : sl.rungIndex = br.current
  lt : sl.slotIndex < br.firstFree
  lvl : sl.level = rg.level
  hsl : rg.slots[sl.slotIndex]? = some x
  tid : sl.tid = some t
  stid : x.tid = none ∨ x.tid = some t
  empty : x.metric = none
  fresh : x.tid = none → ¬ g.HasId t

/-- Invariant over the manager `g`, `_trial_to_pending_slot = P` and the keys `C` of
`_trial_to_config`.  With `exc = some (id, p)` the slot `p` of bracket `id` has been handed
out by `next_job` but is not (or no longer) registered in `P`. -/
structure InvExc (g : Manager) (P : List (Nat × (Nat × SlotInRung))) (C : List Nat)
    (exc : Option (Nat × Nat)) : Prop where
  mwf : MWF g
  pend : ∀ t id sl, alookup t P = some (id, sl) →
    ∃ br rg x, g.brackets[id]? = some br ∧ PendSlot g br t sl rg x ∧ exc ≠ some (id, sl.slotIndex)
  keys : (P.map (·.1)).Nodup
  distinct : ∀ t1 t2 id sl1 sl2, alookup t1 P = some (id, sl1) → alookup t2 P = some (id, sl2) →
    sl1.slotIndex = sl2.slotIndex → t1 = t2
  owed : ∀ id br rg p x, g.brackets[id]? = some br → br.rungs[br.current]? = some rg →
    rg.slots[p]? = some x → p < br.firstFree → x.metric = none → exc ≠ some (id, p) →
    ∃ t sl, alookup t P = some (id, sl) ∧ sl.slotIndex = p
  ids : ∀ t, g.HasId t → t ∈ C
  pkeys : ∀ t v, alookup t P = some v → t ∈ C
  disjoint : ∀ (i j : Nat) (bi bj : Bracket) (t : Nat), g.brackets[i]? = some bi → g.brackets[j]? = some bj →
    bi.HasId t → bj.HasId t → i = j

/-- invariant of the scheduler -/
def Inv (s : Sched) : Prop := InvExc s.mgr s.pending s.configs none

/-! ### ids after `on_result` -/

theorem resultCase_hasId {spec br res rg sl br' np} (_hb : BWF spec br) (hl : LegalRes br res rg sl)
    (hc : ResultCase br res rg br' np) (t : Nat) : br'.HasId t ↔ br.HasId t ∨ res.tid = some t := by
  have hwr := written_hasId hl t
  cases hc with
  | stay h => exact hwr
  | last h hc => exact hwr
  | promote h newLen ms rest es htodo hes =>
    rw [← hwr]
    unfold Bracket.HasId
    constructor
    · rintro ⟨r, hr, ht⟩
      change r ∈ (br.written rg res).rungs ++ [_] at hr
      rcases List.mem_append.mp hr with h1 | h1
      · exact ⟨r, h1, ht⟩
      · simp only [List.mem_singleton] at h1
        subst h1
        refine ⟨rg.write res, List.mem_of_getElem? (written_cur hl), ?_⟩
        simp only [Rung.ids, List.filterMap_map, List.mem_filterMap, Function.comp] at ht
        obtain ⟨o, ho, hot⟩ := ht
        obtain ⟨e, he, heo⟩ := topList_mem es newLen br.mode o ho
        have : t ∈ es.filterMap (·.1) := List.mem_filterMap.mpr ⟨e, he, by rw [heo, hot]⟩
        rw [es_ids hes] at this
        exact this
    · rintro ⟨r, hr, ht⟩
      exact ⟨r, by change r ∈ (br.written rg res).rungs ++ [_]; exact List.mem_append_left _ hr, ht⟩

end SyneTune.Sync
