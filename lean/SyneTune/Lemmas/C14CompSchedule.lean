import SyneTune.Lemmas.C14CompMgr
/- C14 composed system: what `on_task_schedule` (the promotion scan) changes. -/
namespace SyneTune.C14Comp
open SyneTune SyneTune.C04K SyneTune.C14 SyneTune.C13Hb

theorem markPromoted_entries (m : Mode) (rg : Rung) (pos : Nat) :
    (markPromoted m rg pos).level = rg.level ∧
    ∀ e' ∈ (markPromoted m rg pos).data, ∃ e ∈ rg.data, e.tid = e'.tid ∧ (e'.promoted = false → e.promoted = false) := by
  cases hp : rg.data[pos]? with
  | none =>
    unfold markPromoted
    simp only [hp]
    exact ⟨trivial, fun e' he' => ⟨e', he', rfl, fun h => h⟩⟩
  | some e0 =>
    obtain ⟨hperm, hl, _⟩ := markPromoted_perm m rg pos e0 hp
    refine ⟨hl, ?_⟩
    intro e' he'
    have h1 := hperm.mem_iff.mp he'
    rcases List.mem_cons.mp h1 with rfl | h1
    · exact ⟨e0, List.mem_of_getElem? hp, rfl, fun h => by simp at h⟩
    · have : e' ∈ e0 :: rg.data.eraseIdx pos := List.mem_cons_of_mem _ h1
      exact ⟨e', (eraseIdx_perm rg.data pos e0 hp).mem_iff.mpr this, rfl, fun h => h⟩

theorem promoScan_entries (ty : HBType) (m : Mode) (numThr cap : Nat) (hint : Option Nat) (next : Nat)
    (thr : List (Nat × Rat)) (rs : List Rung) :
    (∀ rg' ∈ (promoScan ty m numThr cap hint next thr rs).rungs, ∀ e' ∈ rg'.data,
        ∃ rg ∈ rs, rg.level = rg'.level ∧ ∃ e ∈ rg.data, e.tid = e'.tid ∧ (e'.promoted = false → e.promoted = false)) ∧
    (∀ o, (promoScan ty m numThr cap hint next thr rs).out = some o →
        (∃ rg ∈ rs, rg.level = o.resumeFrom ∧ ∃ e ∈ rg.data, e.tid = o.trial ∧ e.promoted = false) ∧
        (o.milestone = next ∨ ∃ rg ∈ rs, rg.level = o.milestone)) := by
  cases hout : (promoScan ty m numThr cap hint next thr rs).out with
  | none =>
    have hsame := (promoScan_unpromoted_any ty m numThr cap hint next thr rs).2 hout
    refine ⟨?_, fun o ho => by cases ho⟩
    rw [hsame]
    intro rg' hrg' e' he'
    exact ⟨rg', hrg', rfl, e', he', rfl, fun h => h⟩
  | some o =>
    obtain ⟨pre, rg, post, thr', pos, h1, h2, _, h4, h5, h6⟩ := promoScan_some ty m numThr cap hint next thr rs o hout
    obtain ⟨e0, g1, g2, g3⟩ := findPromotable_pick_spec ty m numThr thr' rg hint o.trial pos h4
    refine ⟨?_, ?_⟩
    · rw [h5, h1]
      intro rg' hrg' e' he'
      simp only [List.mem_append, List.mem_cons] at hrg'
      rcases hrg' with hrg' | rfl | hrg'
      · exact ⟨rg', by simp [hrg'], rfl, e', he', rfl, fun h => h⟩
      · obtain ⟨ml, me⟩ := markPromoted_entries m rg pos
        obtain ⟨e, he, ht, hp⟩ := me e' he'
        exact ⟨rg, by simp, ml.symm, e, he, ht, hp⟩
      · exact ⟨rg', by simp [hrg'], rfl, e', he', rfl, fun h => h⟩
    · intro o' ho'
      injection ho' with ho'; subst ho'
      refine ⟨⟨rg, by rw [h1]; simp, h2, e0, List.mem_of_getElem? g1, g2, g3⟩, ?_⟩
      rw [h6]
      cases hl : pre.getLast? with
      | none => exact Or.inl rfl
      | some p => exact Or.inr ⟨p, by rw [h1]; simp [List.mem_of_getLast? hl], rfl⟩

theorem promoScan_levels (ty : HBType) (m : Mode) (numThr cap : Nat) (hint : Option Nat) (next : Nat)
    (thr : List (Nat × Rat)) (rs : List Rung) :
    (promoScan ty m numThr cap hint next thr rs).rungs.map (·.level) = rs.map (·.level) :=
  (steps_preserve (promoScan_steps ty m numThr cap hint next thr rs)).2.2

/-- `terminator.on_task_schedule` -/
theorem taskSchedule_effect (g g' : Manager) (bracket : Nat) (hint : Option Nat) (so : Option SchedOut)
    (ms : Nat) (fr : Bool) (h : g.taskSchedule bracket hint = .ok (g', so, ms, fr)) (hw : MgrWF g) :
    shape g' = shape g ∧ (∀ t, trialView g' t = trialView g t) ∧
    (∀ L e', EntIn g'.systems L e' →
        ∃ e, EntIn g.systems L e ∧ e.tid = e'.tid ∧ (e'.promoted = false → e.promoted = false)) ∧
    (∀ o, so = some o → g.type.pauseResume = true ∧
        (∃ e, EntIn g.systems o.resumeFrom e ∧ e.tid = o.trial ∧ e.promoted = false) ∧
        (o.milestone = g.maxT ∨ o.milestone ∈ g.rungLevels)) := by
  unfold Manager.taskSchedule at h
  cases hs : g.systems[(g.sysFor bracket).1]? with
  | none => simp [hs] at h
  | some sys =>
    simp only [hs] at h
    by_cases hpr : g.type.pauseResume = true
    · simp only [hpr, not_true_eq_false, if_false] at h
      have hmem : sys ∈ g.systems := List.mem_of_getElem? hs
      obtain ⟨w1, _, w3⟩ := MgrWF_sys hw hmem
      obtain ⟨pe, po⟩ := promoScan_entries g.type g.mode sys.numThr (sys.cap g.type) hint sys.maxT sys.thresholds sys.rungs
      have hlev := promoScan_levels g.type g.mode sys.numThr (sys.cap g.type) hint sys.maxT sys.thresholds sys.rungs
      -- the manager after the scan, whatever its outcome
      have key : ∀ g2 : Manager, g2 = g.setSys (g.sysFor bracket).1 (sys.promoSchedule g.type g.mode hint).1 →
          shape g2 = shape g ∧ (∀ t, trialView g2 t = trialView g t) ∧
          (∀ L e', EntIn g2.systems L e' →
            ∃ e, EntIn g.systems L e ∧ e.tid = e'.tid ∧ (e'.promoted = false → e.promoted = false)) := by
        intro g2 hg2
        subst hg2
        have hsig : sig (sys.promoSchedule g.type g.mode hint).1 = sig sys := by
          simp only [sig, RungSys.promoSchedule, hlev]
        refine ⟨?_, ?_, ?_⟩
        · simp only [shape, Manager.setSys, Prod.mk.injEq, true_and]
          exact map_set_same sig _ _ sys _ hs hsig
        · intro t
          exact trialView_set g _ t _ sys _ rfl rfl hs rfl rfl hsig
        · intro L e' he'
          rcases EntIn_set hs he' with he' | ⟨rg', hrg', hl, hmem'⟩
          · obtain ⟨y, hy, rg, hrg, hl, hd⟩ := he'
            exact ⟨e', ⟨y, hy, rg, hrg, hl, hd⟩, rfl, fun h => h⟩
          · obtain ⟨rg, hrg, hl2, e, he, ht, hp⟩ := pe rg' hrg' e' hmem'
            exact ⟨e, ⟨sys, hmem, rg, hrg, by rw [hl2, hl], he⟩, ht, hp⟩
      cases hout : (sys.promoSchedule g.type g.mode hint).2.1 with
      | none =>
        simp only [hout] at h
        injection h with h
        simp only [Prod.mk.injEq] at h
        obtain ⟨h1, h2, _, _⟩ := h
        obtain ⟨k1, k2, k3⟩ := key g' h1.symm
        exact ⟨k1, k2, k3, fun o ho => by rw [← h2] at ho; cases ho⟩
      | some o =>
        simp only [hout] at h
        injection h with h
        simp only [Prod.mk.injEq] at h
        obtain ⟨h1, h2, _, _⟩ := h
        obtain ⟨k1, k2, k3⟩ := key g' h1.symm
        refine ⟨k1, k2, k3, ?_⟩
        intro o' ho'
        rw [← h2] at ho'; injection ho' with ho'; subst ho'
        obtain ⟨⟨rg, hrg, hl, e, he, ht, hp⟩, hm⟩ := po o hout
        refine ⟨hpr, ⟨e, ⟨sys, hmem, rg, hrg, hl, he⟩, ht, hp⟩, ?_⟩
        rcases hm with hm | ⟨rg2, hrg2, hl2⟩
        · left; rw [hm, w1]
        · right; rw [← hl2]; exact (w3 rg2 hrg2).2.2
    · simp only [hpr] at h
      injection h with h
      simp only [Prod.mk.injEq] at h
      obtain ⟨h1, h2, _, _⟩ := h
      subst h1
      refine ⟨rfl, fun _ => rfl, fun L e' he' => ⟨e', he', rfl, fun h => h⟩, ?_⟩
      intro o ho; rw [← h2] at ho; cases ho

end SyneTune.C14Comp
