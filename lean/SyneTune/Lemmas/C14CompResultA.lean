import SyneTune.Lemmas.C14CompEnds
import SyneTune.Lemmas.C14CompSuggest
/- C14 composed system: `on_trial_result` decomposed — scheduler side (`_update_searcher`,
`TrialInformation` update) and searcher side (the calls of one report applied in order). -/
namespace SyneTune.C14Comp
open SyneTune SyneTune.C04K SyneTune.C14 SyneTune.C13Hb

/-- scheduler state after a report which is taken into account -/
def liveSched (s : Sched) (g : Manager) (co : List (Nat × Rat)) (tid r : Nat) (v : Rat) (rec : TrialInfo)
    (o : RepOut) : Sched :=
  let s1 : Sched := { s with mgr := g, costOffset := co }
  let ar := rec.afterReport r v o (s1.updateSearcher tid r v o rec).1
  if o.continues then { s1 with active := aset tid ar.2 s.active }
  else ({ s1 with active := aset tid ar.2 s.active } : Sched).cleanup tid (s1.decisionFor r o)

theorem onResult_cases (s s' : Sched) (tid r : Nat) (v : Rat) (hint : Bool) (cost eps : Rat) (out : ResOut)
    (h : s.onResult tid r v hint cost eps = .ok (s', out)) :
    ∃ rec, alookup tid s.active = some rec ∧
      ((rec.decision ≠ .continue ∧ s' = s ∧ out.calls = [SCall.update tid r v false] ∧ out.decision = rec.decision) ∨
       (rec.decision = .continue ∧ ∃ g o co,
          s.mgr.taskReport tid r v hint (s.totalCost tid cost) eps = .ok (g, o) ∧
          ((o.ignoreData = true ∧ s' = { s with mgr := g, costOffset := co } ∧ out.calls = [] ∧ out.decision = .continue) ∨
           (o.ignoreData = false ∧
             ¬ ((({ s with mgr := g, costOffset := co } : Sched).updateSearcher tid r v o rec).1 = true ∧
                  ¬ rec.lastUpdate r ≤ r) ∧
             out.calls = (({ s with mgr := g, costOffset := co } : Sched).updateSearcher tid r v o rec).2 ++
               [SCall.update tid r v (rec.afterReport r v o
                  (({ s with mgr := g, costOffset := co } : Sched).updateSearcher tid r v o rec).1).1] ∧
             out.decision = ({ s with mgr := g, costOffset := co } : Sched).decisionFor r o ∧
             s' = liveSched s g co tid r v rec o)))) := by
  unfold Sched.onResult at h
  cases hrec : alookup tid s.active with
  | none => simp [hrec] at h
  | some rec =>
    simp only [hrec] at h
    refine ⟨rec, rfl, ?_⟩
    by_cases hlive : rec.decision ≠ .continue
    · simp only [hlive, ne_eq, not_false_eq_true, if_true] at h
      injection h with h; injection h with h1 h2
      exact Or.inl ⟨hlive, h1.symm, (by rw [← h2]), (by rw [← h2])⟩
    · have hcont : rec.decision = .continue := by simpa using hlive
      simp only [hcont, ne_eq, not_true_eq_false, if_false] at h
      right
      refine ⟨hcont, ?_⟩
      cases htr : s.mgr.taskReport tid r v hint (s.totalCost tid cost) eps with
      | error e => simp [htr] at h
      | ok res =>
        obtain ⟨g, o⟩ := res
        simp only [htr] at h
        unfold Sched.afterReport at h
        cases hco : s.costOffsetAfter tid (s.totalCost tid cost) o with
        | error e => simp [hco] at h
        | ok co =>
          simp only [hco] at h
          refine ⟨g, o, co, rfl, ?_⟩
          by_cases hig : o.ignoreData = true
          · simp only [hig, if_true] at h
            injection h with h; injection h with h1 h2
            exact Or.inl ⟨hig, h1.symm, (by rw [← h2]), (by rw [← h2])⟩
          · simp only [hig, Bool.false_eq_true, if_false] at h
            right
            dsimp only [Sched.onResultLive] at h
            split at h
            · cases h
            · rename_i hassert
              injection h with h; injection h with h1 h2
              refine ⟨(by simpa using hig), hassert, (by rw [← h2]), (by rw [← h2]), ?_⟩
              rw [← h1]; rfl

/-! ### `_update_searcher` -/

theorem afterReport_spec (rec : TrialInfo) (r : Nat) (v : Rat) (o : RepOut) (doUpd : Bool)
    (hne : r ≠ rec.lastUpdate r) :
    (rec.afterReport r v o doUpd).1 = doUpd ∧
    (rec.afterReport r v o doUpd).2 =
      ({ rec with reported := some (v, r), keepCase := o.reached,
                  largestUpdate := (if doUpd then some r else rec.largestUpdate) } : TrialInfo) := by
  unfold TrialInfo.afterReport
  cases doUpd with
  | false => simp
  | true => simp [hne]

/-- the calls of `_update_searcher`: at most one `remove_case` (of the stored last result,
`rungs_and_last` only), then `register_pending` for levels above `r` up to the milestone the
trial runs to after this report -/
theorem updateSearcher_spec (s : Sched) (tid r : Nat) (v : Rat) (o : RepOut) (rec : TrialInfo)
    (hig : o.ignoreData = false) (M' : Nat) (hM' : o.continues = true → r < M')
    (hnext : o.continues = true → o.reached = true → o.next = some M') :
    ∃ (rem : List SCall) (pend : List Nat), (s.updateSearcher tid r v o rec).2 = rem ++ pend.map (SCall.pending tid) ∧
      (rem = [] ∨ (s.searcherData = .rungsAndLast ∧ ∃ p, rec.reported = some p ∧ rec.keepCase = false ∧
          rem = [SCall.removeCase tid p.2 p.1])) ∧
      (∀ x ∈ pend, o.continues = true ∧ r < x ∧ x ≤ M' ∧ (s.searcherData = .rungs → x = M')) ∧
      ((s.updateSearcher tid r v o rec).1 = true ↔
        (s.searcherData ≠ .rungs ∨ r ∈ s.mgr.rungLevels ∨ r = s.mgr.maxT)) := by
  -- the pending levels of the non-`rungs` policies
  have pendAll : ∀ x ∈ (if o.continues = true then
        (if s.pendingMyopic = true ∨ o.next = none then [r + 1]
         else if o.reached = true then (match o.next with | some n => rangeIncl (r + 1) n | none => [])
         else [])
        else []), o.continues = true ∧ r < x ∧ x ≤ M' := by
    intro x hx
    by_cases hc : o.continues = true
    · simp only [hc, if_true] at hx
      refine ⟨hc, ?_⟩
      have hlt := hM' hc
      split at hx
      · simp only [List.mem_singleton] at hx; omega
      · split at hx
        · rename_i hre
          rw [hnext hc hre] at hx
          have := mem_rangeIncl hx
          omega
        · cases hx
    · simp only [hc] at hx; cases hx
  unfold Sched.updateSearcher
  cases hsd : s.searcherData with
  | rungs =>
    simp only
    by_cases hlv : r ∈ s.mgr.rungLevels ∨ r = s.mgr.maxT
    · simp only [hlv, if_true]
      refine ⟨[], (if o.continues = true ∧ o.reached = true then (match o.next with | some n => [n] | none => ([] : List Nat)) else []),
        rfl, Or.inl rfl, ?_, (by simp)⟩
      intro x hx
      split at hx
      · rename_i hcr
        rw [hnext hcr.1 hcr.2] at hx
        simp only [List.mem_singleton] at hx
        rw [hx]
        exact ⟨hcr.1, hM' hcr.1, Nat.le_refl _, fun _ => rfl⟩
      · cases hx
    · simp only [hlv, if_false]
      exact ⟨[], [], (by simp), Or.inl rfl, fun x hx => (by cases hx), (by simp)⟩
  | all =>
    simp only [hig, Bool.false_eq_true, if_false]
    refine ⟨[], _, (by simp only [List.nil_append]; rfl), Or.inl rfl, ?_, (by simp)⟩
    intro x hx
    obtain ⟨p1, p2, p3⟩ := pendAll x hx
    exact ⟨p1, p2, p3, fun hx => (by cases hx)⟩
  | rungsAndLast =>
    simp only [hig, Bool.false_eq_true, if_false, if_true]
    refine ⟨_, _, rfl, ?_, ?_, (by simp)⟩
    · cases hrep : rec.reported with
      | none => exact Or.inl rfl
      | some p =>
        by_cases hk : rec.keepCase = true
        · simp [hk]
        · right
          have hk' : rec.keepCase = false := by simpa using hk
          exact ⟨trivial, p, rfl, hk', (by simp [hk'])⟩
    · intro x hx
      obtain ⟨p1, p2, p3⟩ := pendAll x hx
      exact ⟨p1, p2, p3, fun hx => (by cases hx)⟩

/-! ### the searcher side -/

/-- the calls of one report, applied in order: `remove_case` (if any), `register_pending` for
`pend`, then `on_trial_result(update=upd)` -/
theorem feed_result (st0 : SState) (tid r : Nat) (v : Rat) (rem : List SCall) (pend : List Nat) (upd : Bool)
    (hwf : ObsWF st0)
    (hrem : rem = [] ∨ ∃ pr pv, rem = [SCall.removeCase tid pr pv] ∧ st0.isLabeled tid pr = true)
    (hpend : ∀ x ∈ pend, st0.isLabeled tid x = false) :
    ∃ st3, st0.applyAll ((rem ++ pend.map (SCall.pending tid)) ++ [SCall.update tid r v upd]) = .ok st3 ∧
      st3.pending = (if upd then dropPending tid r (addPend tid pend st0.pending) else addPend tid pend st0.pending) ∧
      ObsWF st3 ∧
      (∀ t r', st3.isLabeled t r' = true → st0.isLabeled t r' = true ∨ (upd = true ∧ t = tid ∧ r' = r)) ∧
      (∀ t r', t ≠ tid → st0.isLabeled t r' = true → st3.isLabeled t r' = true) ∧
      (upd = true → st3.isLabeled tid r = true) := by
  -- after `remove_case`
  have step1 : ∃ st1, st0.applyAll rem = .ok st1 ∧ st1.pending = st0.pending ∧ ObsWF st1 ∧
      (∀ t r', st1.isLabeled t r' = true → st0.isLabeled t r' = true) ∧
      (∀ t r', t ≠ tid → st1.isLabeled t r' = st0.isLabeled t r') := by
    rcases hrem with rfl | ⟨pr, pv, rfl, hl⟩
    · exact ⟨st0, rfl, rfl, hwf, fun _ _ h => h, fun _ _ _ => rfl⟩
    · obtain ⟨st1, a1, a2, a3, a4⟩ := apply_removeCase st0 tid pr pv hl
      exact ⟨st1, by rw [applyAll_single]; exact a1, a2, apply_preserves_wf st0 st1 _ a1 hwf, a3, a4⟩
  obtain ⟨st1, b1, b2, b3, b4, b5⟩ := step1
  have hpend1 : ∀ x ∈ pend, st1.isLabeled tid x = false := by
    intro x hx
    cases hl : st1.isLabeled tid x with
    | false => rfl
    | true => have := b4 tid x hl; rw [hpend x hx] at this; cases this
  have step2 := applyAll_pending st1 tid pend hpend1
  rw [applyAll_append, applyAll_append, b1]
  simp only [step2, applyAll_single]
  cases upd with
  | false =>
    refine ⟨_, rfl, (by simp [b2]), b3, ?_, ?_, fun hx => (by cases hx)⟩
    · intro t r' hl; exact Or.inl (b4 t r' hl)
    · intro t r' ht hl
      have : ({ st1 with pending := addPend tid pend st1.pending } : SState).isLabeled t r' = st1.isLabeled t r' := rfl
      rw [this, b5 t r' ht]; exact hl
  | true =>
    simp only [SState.apply, if_true]
    have hlab : ∀ t r', (({ st1 with pending := addPend tid pend st1.pending } : SState).label tid r
        (({ st1 with pending := addPend tid pend st1.pending } : SState).crit v)).isLabeled t r'
        = (decide (t = tid ∧ r' = r) || st1.isLabeled t r') := by
      intro t r'; rw [isLabeled_label]; rfl
    refine ⟨_, rfl, (by simp [label_pending, b2]), ?_, ?_, ?_, ?_⟩
    · exact apply_preserves_wf ({ st1 with pending := addPend tid pend st1.pending } : SState) _
        (.update tid r v true) rfl b3
    · intro t r' hl
      rw [hlab] at hl
      simp only [Bool.or_eq_true, decide_eq_true_eq] at hl
      rcases hl with ⟨h1, h2⟩ | hl
      · exact Or.inr ⟨trivial, h1, h2⟩
      · exact Or.inl (b4 t r' hl)
    · intro t r' ht hl
      rw [hlab, b5 t r' ht, hl]; simp
    · intro _; rw [hlab]; simp

end SyneTune.C14Comp
