import SyneTune.Lemmas.TunerFlow
/-
Behind C01 `ids`: the k-th `start_trial` command carries id k.
-/
namespace SyneTune.Tuner
open SyneTune

/-- the ids of the `start_trial` commands in a log -/
def startIds (l : List Call) : List Nat :=
  l.filterMap (fun c => match c with | .start id _ _ => some id | _ => none)

theorem startIds_append (l : List Call) (c : Call) :
    startIds (l ++ [c]) = startIds l ++ (match c with | .start id _ _ => [id] | _ => []) := by
  unfold startIds
  rw [List.filterMap_append]
  cases c <;> simp

def startPend (p : Pc) : Nat := if p = .startCmd ∨ p = .copyCmd then 1 else 0

structure IdsInv (s : LState) : Prop where
  ids : startIds s.log = List.range (startIds s.log).length
  cnt : finPc s.pc = false → (startIds s.log).length = s.nStarted + startPend s.pc
  sid : (s.pc = .startCmd ∨ s.pc = .copyCmd) → s.sId = s.nStarted

/-- how a step affects `new_trial_id` -/
inductive IdsCase (s s' : LState) : Prop
  | sugg (h1 : s'.pc = .startCmd) (h2 : s.pc = .suggest) (h3 : s'.sId = s.nStarted) (h4 : s'.nStarted = s.nStarted)
  | copy (h1 : s'.pc = .copyCmd) (h2 : s.pc = .startCmd) (h3 : s'.sId = s.sId) (h4 : s'.nStarted = s.nStarted)
  | started (h1 : s'.pc = .addS) (h2 : s.pc = .startCmd ∨ s.pc = .copyCmd) (h4 : s'.nStarted = s.nStarted + 1)
  | other (h1 : s'.pc ≠ .startCmd) (h2 : s'.pc ≠ .copyCmd) (h4 : s'.nStarted = s.nStarted)
      (h5 : (s.pc = .startCmd ∨ s.pc = .copyCmd) → finPc s'.pc = true)

theorem secondItem_ids (s : LState) (t : Nat) (st : St) (rest : List (Nat × St)) (hp : s.pc = .second) :
    IdsCase s (secondItem s t st rest) := by
  unfold secondItem
  repeat' split
  all_goals first
    | exact .other (by show s.pc ≠ _; rw [hp]; exact fun hc => nomatch hc) (by show s.pc ≠ _; rw [hp]; exact fun hc => nomatch hc) rfl
        (fun hc => by rcases hc with hc | hc <;> (rw [hp] at hc; cases hc))
    | exact .other (fun hc => nomatch hc) (fun hc => nomatch hc) rfl (fun hc => by rcases hc with hc | hc <;> (rw [hp] at hc; cases hc))

theorem afterUpdate_ids (s : LState) (hp : s.pc = .afterUpd) : IdsCase s (afterUpdate s) := by
  refine .other ?_ ?_ rfl (fun hc => by rcases hc with hc | hc <;> (rw [hp] at hc; cases hc))
  · rcases afterUpdate_pc s with h | h | h <;> rw [h] <;> exact fun hc => nomatch hc
  · rcases afterUpdate_pc s with h | h | h <;> rw [h] <;> exact fun hc => nomatch hc

theorem scheduled_nStarted (s : LState) (t : Nat) : (scheduled s t).nStarted = s.nStarted := by
  unfold scheduled addRunning; split <;> rfl

theorem addRow_nStarted (s : LState) : (addRow s).nStarted = s.nStarted := by unfold addRow; split <;> rfl

theorem next_ids (s : LState) (a : Ans) : IdsCase s (next s a) := by
  unfold next
  split
  all_goals (rename_i hpc)
  all_goals (try simp only [])
  all_goals (repeat' split)
  all_goals first
    | exact .sugg rfl hpc rfl rfl
    | exact .copy rfl hpc rfl rfl
    | exact .started rfl (Or.inl hpc) rfl
    | exact .started rfl (Or.inr hpc) rfl
    | exact secondItem_ids s _ _ _ hpc
    | exact afterUpdate_ids s hpc
    | exact .other (by show s.pc ≠ _; rw [hpc]; exact fun hc => nomatch hc) (by show s.pc ≠ _; rw [hpc]; exact fun hc => nomatch hc) rfl
        (fun hc => by rcases hc with hc | hc <;> (rw [hpc] at hc; cases hc))
    | exact .other (fun hc => nomatch hc) (fun hc => nomatch hc) rfl (fun _ => rfl)
    | exact .other (fun hc => nomatch hc) (fun hc => nomatch hc) rfl (fun hc => by rcases hc with hc | hc <;> (rw [hpc] at hc; cases hc))
    | exact .other (fun hc => nomatch hc) (fun hc => nomatch hc) (scheduled_nStarted _ _) (fun hc => by rcases hc with hc | hc <;> (rw [hpc] at hc; cases hc))
    | exact .other (fun hc => nomatch hc) (fun hc => nomatch hc) (addRow_nStarted _) (fun hc => by rcases hc with hc | hc <;> (rw [hpc] at hc; cases hc))

theorem pending_start_iff (s : LState) :
    (match pending s with | .start id _ _ => [id] | _ => []) = if s.pc = .startCmd then [s.sId] else [] := by
  unfold pending
  cases h : s.pc <;> simp

theorem addRow_log (s : LState) : (addRow s).log = s.log := by unfold addRow; split <;> rfl
theorem scheduled_log (s : LState) (t : Nat) : (scheduled s t).log = s.log := by
  unfold scheduled addRunning; split <;> rfl
theorem secondItem_log (s : LState) (t : Nat) (st : St) (rest : List (Nat × St)) :
    (secondItem s t st rest).log = s.log := by
  unfold secondItem; repeat' split
  all_goals rfl

/-- the loop never reads or writes the ghost log -/
theorem next_log (s : LState) (a : Ans) : (next s a).log = s.log := by
  unfold next
  split
  all_goals (try simp only [])
  all_goals (repeat' split)
  all_goals first
    | rfl
    | exact addRow_log _
    | exact scheduled_log _ _
    | exact secondItem_log _ _ _ _

theorem startPend_of_ne {p : Pc} (h1 : p ≠ .startCmd) (h2 : p ≠ .copyCmd) : startPend p = 0 := by
  unfold startPend; simp [h1, h2]

theorem IdsInv_step (s : LState) (a : Ans) (h : IdsInv s) : IdsInv (step s a) := by
  have hc := next_ids s a
  have hlog := next_log s a
  have hfin : finPc (next s a).pc = false → finPc s.pc = false := by
    intro hf
    cases hh : finPc s.pc
    · rfl
    · have := fin_closed s a hh; rw [step_pc] at this; rw [this] at hf; cases hf
  -- the invariant for the state reached, given what is appended to the log
  have key : ∀ (l' : List Call), (l' = s.log ∧ (next s a).pc ≠ .startCmd) ∨ l' = s.log ++ [pending (next s a)] →
      startIds l' = List.range (startIds l').length ∧
      (finPc (next s a).pc = false → (startIds l').length = (next s a).nStarted + startPend (next s a).pc) ∧
      ((next s a).pc = .startCmd ∨ (next s a).pc = .copyCmd → (next s a).sId = (next s a).nStarted) := by
    intro l' hl'
    have hl : startIds l' = startIds s.log ++ (if (next s a).pc = .startCmd then [(next s a).sId] else []) := by
      rcases hl' with ⟨h1, h2⟩ | h1
      · rw [h1, if_neg h2, List.append_nil]
      · rw [h1, startIds_append, pending_start_iff]
    cases hc with
    | sugg h1 h2 h3 h4 =>
      have hcnt := h.cnt (by rw [h2]; rfl)
      rw [h2] at hcnt
      simp only [startPend, reduceCtorEq, or_self, if_false, Nat.add_zero] at hcnt
      rw [hl, if_pos h1, h3, ← hcnt]
      refine ⟨?_, fun _ => ?_, fun _ => ?_⟩
      · rw [List.length_append, List.length_singleton, List.range_succ, ← h.ids]
      · rw [List.length_append, List.length_singleton, h4, h1, ← hcnt]; rfl
      · rw [h4, hcnt]
    | copy h1 h2 h3 h4 =>
      have hcnt := h.cnt (by rw [h2]; rfl)
      rw [hl, if_neg (by rw [h1]; exact fun hc => nomatch hc), List.append_nil]
      refine ⟨h.ids, fun _ => ?_, fun _ => ?_⟩
      · rw [hcnt, h4, h1, h2]; rfl
      · rw [h3, h4]; exact h.sid (Or.inl h2)
    | started h1 h2 h4 =>
      have hcnt := h.cnt (by rcases h2 with h2 | h2 <;> rw [h2] <;> rfl)
      rw [hl, if_neg (by rw [h1]; exact fun hc => nomatch hc), List.append_nil]
      refine ⟨h.ids, fun _ => ?_, fun hc' => ?_⟩
      · rw [hcnt, h4, h1]
        rcases h2 with h2 | h2 <;> rw [h2] <;> rfl
      · rcases hc' with hc' | hc' <;> (rw [h1] at hc'; cases hc')
    | other h1 h2 h4 h5 =>
      rw [hl, if_neg h1, List.append_nil]
      refine ⟨h.ids, fun hf => ?_, fun hc' => ?_⟩
      · have hcnt := h.cnt (hfin hf)
        rw [hcnt, h4, startPend_of_ne h1 h2]
        by_cases hs : s.pc = .startCmd ∨ s.pc = .copyCmd
        · rw [h5 hs] at hf; cases hf
        · have : startPend s.pc = 0 := by unfold startPend; simp [hs]
          rw [this]
      · rcases hc' with hc' | hc'
        · exact absurd hc' h1
        · exact absurd hc' h2
  rw [step_eq]
  by_cases hsil : ((next s a).pc.silent || decide (s.pc = .done)) = true
  · rw [if_pos hsil]
    have hne : (next s a).pc ≠ .startCmd := by
      intro hc'
      cases hc with
      | sugg _ h2 _ _ => rw [hc', h2] at hsil; cases hsil
      | copy h1 _ _ _ => rw [h1] at hc'; cases hc'
      | started h1 _ _ => rw [h1] at hc'; cases hc'
      | other h1 _ _ _ => exact h1 hc'
    obtain ⟨k1, k2, k3⟩ := key (next s a).log (Or.inl ⟨hlog, hne⟩)
    exact ⟨k1, k2, k3⟩
  · rw [if_neg hsil]
    obtain ⟨k1, k2, k3⟩ := key ((next s a).log ++ [pending (next s a)]) (Or.inr (by rw [hlog]))
    exact ⟨k1, k2, k3⟩

theorem IdsInv_init (c : Cfg) : IdsInv (init c) :=
  ⟨by simp [init, startIds], fun _ => by simp [init, startIds, startPend], fun hc => by rcases hc with hc | hc <;> cases hc⟩

end SyneTune.Tuner
