import SyneTune.Props.C15
import SyneTune.Props.C04K
/-
min/max symmetry lifted from the rung machinery (`Lemmas/Symmetry.lean`, `Props/C15.lean`) to
the rung systems of all six asynchronous-Hyperband types and to the bracket manager
(`HyperbandBracketManager`).  The scheduler level is in `Lemmas/Symmetry3.lean`, the property
theorems in `Props/C15Sched.lean`.

Every lemma is a simulation step "mode `max` on the negated state and negated metric = negation
of mode `min` on the original".  The converse direction follows from the involution
(`negSched_negSched`), see `Props/C15Sched.lean`.
-/
namespace SyneTune.C15Sched
open SyneTune SyneTune.C15

/-! ### the negation maps -/

/-- RUSH thresholds / any `resource ↦ metric value` table, negated -/
abbrev negThr (l : List (Nat × Rat)) : List (Nat × Rat) := l.map (fun p => (p.1, -p.2))

/-- PASHA ranking lists `(trial, value)`, negated -/
abbrev negP (l : List (Nat × Rat)) : List (Nat × Rat) := l.map (fun p => (p.1, -p.2))

def negFind (f : FindOut) : FindOut := { f with thr := negThr f.thr }

def negScan (o : ScanOut) : ScanOut := { o with rungs := o.rungs.map negRung, thr := negThr o.thr }

/-- the bracket manager of the mirrored experiment: mode flipped, every rung entry's metric
negated, RUSH thresholds negated; everything else identical -/
def negMgr (g : Manager) : Manager := { g with mode := g.mode.flip, systems := g.systems.map negSys }

theorem negSys_maxT (s : RungSys) : (negSys s).maxT = s.maxT := rfl
theorem negSys_running (s : RungSys) : (negSys s).running = s.running := rfl
theorem negSys_numThr (s : RungSys) : (negSys s).numThr = s.numThr := rfl
theorem negSys_rungs (s : RungSys) : (negSys s).rungs = s.rungs.map negRung := rfl
theorem negSys_thresholds (s : RungSys) : (negSys s).thresholds = negThr s.thresholds := rfl
theorem negSys_levelsAsc (s : RungSys) : (negSys s).levelsAsc = s.levelsAsc := rfl
theorem negSys_curIdx (s : RungSys) : (negSys s).curIdx = s.curIdx := rfl
theorem negSys_curMaxT (s : RungSys) : (negSys s).curMaxT = s.curMaxT := rfl
theorem negSys_epsilon (s : RungSys) : (negSys s).epsilon = s.epsilon := rfl

theorem negE_negE (e : Entry) : negE (negE e) = e := by
  cases e; simp [negE]

theorem map_eq_self {α} (f : α → α) (h : ∀ x, f x = x) (l : List α) : l.map f = l := by
  induction l with
  | nil => rfl
  | cons x xs ih => simp [h x, ih]

theorem negRung_negRung (rg : Rung) : negRung (negRung rg) = rg := by
  cases rg with
  | mk level q data =>
    simp only [negRung, List.map_map]
    congr 1
    exact map_eq_self _ (fun e => negE_negE e) data

theorem negThr_negThr (l : List (Nat × Rat)) : negThr (negThr l) = l := by
  simp only [negThr, List.map_map]
  exact map_eq_self _ (fun p => by simp) l

theorem negSys_negSys (s : RungSys) : negSys (negSys s) = s := by
  cases s with
  | mk rungs maxT running numThr thresholds levelsAsc curIdx curMaxT epsilon =>
    simp only [negSys, List.map_map]
    congr 1
    · exact map_eq_self _ (fun rg => negRung_negRung rg) rungs
    · exact map_eq_self _ (fun p => by simp) thresholds

theorem flip_flip (m : Mode) : m.flip.flip = m := by cases m <;> rfl

theorem negMgr_negMgr (g : Manager) : negMgr (negMgr g) = g := by
  cases g with
  | mk type mode maxT rungLevels numBrackets perBracket systems taskInfo =>
    simp only [negMgr, flip_flip, List.map_map]
    congr 1
    exact map_eq_self _ (fun s => negSys_negSys s) systems

/-! ### level-only functions do not see the negation -/

theorem firstMilestone_neg (s : RungSys) (skip : Nat) : (negSys s).firstMilestone skip = s.firstMilestone skip := by
  unfold RungSys.firstMilestone
  simp only [negSys_rungs, negSys_maxT, List.length_map, List.getElem?_map]
  cases s.rungs[s.rungs.length - (skip + 1)]? <;> rfl

theorem milestones_neg (s : RungSys) (skip : Nat) : (negSys s).milestones skip = s.milestones skip := by
  unfold RungSys.milestones milestoneRungs
  simp only [negSys_rungs, List.length_map, ← List.map_take, List.map_map]
  rfl

theorem firstOfList_neg (s : RungSys) (skip maxT : Nat) :
    (negSys s).firstOfList skip maxT = s.firstOfList skip maxT := by
  unfold RungSys.firstOfList
  rw [milestones_neg]

theorem cap_neg (s : RungSys) (ty : HBType) : (negSys s).cap ty = s.cap ty := rfl

theorem sysTaskAdd_symm (s : RungSys) (pr : Bool) (tid skip : Nat) (resume : Option (Nat × Nat)) :
    (negSys s).taskAdd pr tid skip resume = (s.taskAdd pr tid skip resume).map negSys := by
  unfold RungSys.taskAdd
  cases pr with
  | false => rfl
  | true =>
    simp only [if_true]
    cases resume with
    | none => simp only [firstMilestone_neg]; rfl
    | some mr =>
      simp only
      split <;> rfl

/-! ### RUSH -/

theorem rushStopReport_symm (s : RungSys) (tid r : Nat) (v : Rat) (skip : Nat) (hint : Bool)
    (hq : QOK s.rungs) :
    (negSys s).rushStopReport .max tid r (-v) skip hint =
      (negSys (s.rushStopReport .min tid r v skip hint).1, (s.rushStopReport .min tid r v skip hint).2) := by
  unfold RungSys.rushStopReport
  simp only [stopping_symm s tid r v skip hint hq, negSys_maxT, negSys_numThr, negSys_thresholds]
  split
  · rw [rush_symm]; rfl
  · rfl

theorem rushFirstPromotable_symm (numThr level : Nat) (data : List Entry) (pos : Nat)
    (thr : List (Nat × Rat)) :
    rushFirstPromotable .max numThr level (data.map negE) pos (negThr thr) =
      ((rushFirstPromotable .min numThr level data pos thr).1.map (fun p => (negE p.1, p.2)),
       negThr (rushFirstPromotable .min numThr level data pos thr).2) := by
  induction data generalizing pos thr with
  | nil => rfl
  | cons e es ih =>
    simp only [List.map_cons, rushFirstPromotable]
    have h1 : (negE e).promoted = e.promoted := rfl
    have h2 : (negE e).tid = e.tid := rfl
    have h3 : (negE e).val = -e.val := rfl
    rw [h1, h2, h3, rush_symm]
    simp only
    split
    · rfl
    · exact ih (pos + 1) _

/-! ### `_find_promotable_trial`, all promotion types -/

theorem quantileTest_symm (rg : Rung) (c : Rat) (hint : Option Nat) (cand : Option (Entry × Nat))
    (thr : List (Nat × Rat)) :
    quantileTest .max (negRung rg) (-c) hint (cand.map (fun p => (negE p.1, p.2))) (negThr thr) =
      negFind (quantileTest .min rg c hint cand thr) := by
  unfold quantileTest
  cases cand with
  | none => rfl
  | some ep =>
    simp only [Option.map_some, scale_neg, negRung_level]
    have h3 : (negE ep.1).val = -ep.1.val := rfl
    have h2 : (negE ep.1).tid = ep.1.tid := rfl
    rw [h3, h2, cmpNoWorse_neg]
    split <;> rfl

theorem findPromotableQ_symm (rush : Bool) (numThr : Nat) (thr : List (Nat × Rat)) (rg : Rung)
    (hint : Option Nat) (hq0 : 0 < rg.q) (hq1 : rg.q < 1) :
    findPromotableQ rush .max numThr (negThr thr) (negRung rg) hint =
      negFind (findPromotableQ rush .min numThr thr rg hint) := by
  unfold findPromotableQ
  rw [cutoff_symm rg hq0 hq1]
  cases rg.cutoff .min with
  | none => rfl
  | some c =>
    simp only [Option.map_some]
    cases rush with
    | true =>
      simp only [if_true, negRung_level]
      have hd : (negRung rg).data = rg.data.map negE := rfl
      rw [hd, rushFirstPromotable_symm]
      exact quantileTest_symm rg c hint _ _
    | false =>
      simp only [Bool.false_eq_true, if_false]
      have hd : (negRung rg).data = rg.data.map negE := rfl
      rw [hd, firstUnpromoted_neg]
      exact quantileTest_symm rg c hint _ _

theorem sumCost_neg (data : List Entry) :
    ((data.map negE).map (·.cost)).foldl (· + ·) 0 = (data.map (·.cost)).foldl (· + ·) 0 := by
  simp only [List.map_map]
  rfl

theorem findPromotableCost_symm (thr : List (Nat × Rat)) (rg : Rung) (hint : Option Nat) :
    findPromotableCost (negThr thr) (negRung rg) hint = negFind (findPromotableCost thr rg hint) := by
  unfold findPromotableCost
  have hd : (negRung rg).data = rg.data.map negE := rfl
  simp only [hd, sumCost_neg, List.length_map, negRung_level, negRung_q, cost_symm]
  split
  · simp only [negFind, Option.map_map]
    rfl
  · rfl

/-- **Which trial is promotable is symmetric for every promotion type** (ASHA, PASHA, RUSH,
cost-aware): same trial, same position, same round-off flag, thresholds negated. -/
theorem findPromotable_symm (ty : HBType) (numThr : Nat) (thr : List (Nat × Rat)) (rg : Rung)
    (hint : Option Nat) (hq0 : 0 < rg.q) (hq1 : rg.q < 1) :
    findPromotable ty .max numThr (negThr thr) (negRung rg) hint =
      negFind (findPromotable ty .min numThr thr rg hint) := by
  cases ty <;> simp only [findPromotable] <;>
    first
    | exact findPromotableCost_symm thr rg hint
    | exact findPromotableQ_symm _ numThr thr rg hint hq0 hq1

theorem promoScan_full_symm (ty : HBType) (numThr cap : Nat) (hint : Option Nat) (next : Nat)
    (thr : List (Nat × Rat)) (rs : List Rung) (hq : QOK rs) :
    promoScan ty .max numThr cap hint next (negThr thr) (rs.map negRung) =
      negScan (promoScan ty .min numThr cap hint next thr rs) := by
  induction rs generalizing next thr with
  | nil => rfl
  | cons rg rest ih =>
    have hq' : QOK rest := fun x hx => hq x (List.mem_cons_of_mem _ hx)
    have hrg := hq rg (by simp)
    simp only [List.map_cons]
    unfold promoScan
    simp only [negRung_level]
    by_cases hc : rg.level < cap
    · simp only [hc, if_true]
      rw [findPromotable_symm ty numThr thr rg hint hrg.1 hrg.2]
      have hp : (negFind (findPromotable ty .min numThr thr rg hint)).pick
          = (findPromotable ty .min numThr thr rg hint).pick := rfl
      have hf : (negFind (findPromotable ty .min numThr thr rg hint)).free
          = (findPromotable ty .min numThr thr rg hint).free := rfl
      have ht : (negFind (findPromotable ty .min numThr thr rg hint)).thr
          = negThr (findPromotable ty .min numThr thr rg hint).thr := rfl
      rw [hp, hf, ht]
      cases (findPromotable ty .min numThr thr rg hint).pick with
      | some tp =>
        simp only [negScan, List.map_cons, markPromoted_symm]
      | none =>
        simp only [ih rg.level _ hq']
        rfl
    · simp only [hc, if_false, ih rg.level thr hq']
      rfl

/-- **`PromotionRungSystem.on_task_schedule` is symmetric** (all promotion types). -/
theorem promoSchedule_symm (s : RungSys) (ty : HBType) (hint : Option Nat) (hq : QOK s.rungs) :
    (negSys s).promoSchedule ty .max hint =
      (negSys (s.promoSchedule ty .min hint).1, (s.promoSchedule ty .min hint).2) := by
  unfold RungSys.promoSchedule
  simp only [negSys_numThr, cap_neg, negSys_maxT, negSys_thresholds, negSys_rungs,
    promoScan_full_symm ty s.numThr (s.cap ty) hint s.maxT s.thresholds s.rungs hq]
  rfl

/-! ### PASHA -/

theorem groupForward_symm (eps v : Rat) (l : List (Nat × Rat)) :
    groupForward .max eps (-v) (negP l) = groupForward .min eps v l := by
  induction l with
  | nil => rfl
  | cons p rest ih =>
    obtain ⟨t, x⟩ := p
    simp only [negP, List.map_cons, groupForward]
    have : decide (-x < -v - eps) = decide (x > v + eps) := by
      apply decide_eq_decide.mpr; constructor <;> intro h <;> linarith
    rw [this]
    split
    · rfl
    · rw [← ih]

theorem groupBackward_symm (eps v : Rat) (l : List (Nat × Rat)) :
    groupBackward .max eps (-v) (negP l) = groupBackward .min eps v l := by
  induction l with
  | nil => rfl
  | cons p rest ih =>
    obtain ⟨t, x⟩ := p
    simp only [negP, List.map_cons, groupBackward]
    have : decide (-x > -v + eps) = decide (x < v - eps) := by
      apply decide_eq_decide.mpr; constructor <;> intro h <;> linarith
    rw [this]
    split
    · rfl
    · rw [← ih]

/-- **PASHA's soft-ranking groups are symmetric**: the rung lists are kept best-first in both
modes, so the negated list in mode max yields the same ε-groups, index by index. -/
theorem softGroups_symm (eps : Rat) (prev : List (Nat × Rat)) :
    softGroups .max eps (negP prev) = softGroups .min eps prev := by
  unfold softGroups
  simp only [List.length_map]
  apply List.map_congr_left
  intro idx _
  simp only [negP, List.getElem?_map]
  cases prev[idx]? with
  | none => rfl
  | some p =>
    obtain ⟨t, v⟩ := p
    simp only [Option.map_some]
    have h1 := groupForward_symm eps v (prev.drop (idx + 1))
    have h2 := groupBackward_symm eps v (prev.take idx).reverse
    simp only [negP, List.map_drop, List.map_reverse, List.map_take] at h1 h2
    simp only [h1, h2]

theorem softGo_neg (groups : List (List Nat)) (top : List (Nat × Rat)) (idx : Nat) :
    softRankingKeeps.go groups (negP top) idx = softRankingKeeps.go groups top idx := by
  induction top generalizing idx with
  | nil => rfl
  | cons p rest ih =>
    obtain ⟨t, x⟩ := p
    simp only [negP, List.map_cons, softRankingKeeps.go]
    cases groups[idx]? with
    | none => rfl
    | some g =>
      simp only
      split
      · exact ih (idx + 1)
      · rfl

theorem softRankingKeeps_symm (epsilon : Rat) (top prev : List (Nat × Rat)) :
    softRankingKeeps .max epsilon (negP top) (negP prev) = softRankingKeeps .min epsilon top prev := by
  unfold softRankingKeeps
  simp only [List.length_map, softGroups_symm, softGo_neg]

theorem pyIndex_map {α β} (f : α → β) (l : List α) (i : Int) :
    pyIndex (l.map f) i = (pyIndex l i).map f := by
  unfold pyIndex
  simp only [List.length_map, List.getElem?_map]
  split
  · rfl
  · split <;> rfl

theorem rankingOf_neg (rg : Rung) : rankingOf (negRung rg) = negP (rankingOf rg) := by
  simp only [rankingOf, negRung, negP, List.map_map]
  rfl

theorem filter_negP (top l : List (Nat × Rat)) :
    (negP l).filter (fun e => (negP top).any (fun x => x.1 == e.1)) =
      negP (l.filter (fun e => top.any (fun x => x.1 == e.1))) := by
  simp only [negP, List.filter_map, List.any_map]
  rfl

/-- **PASHA's resource-increase test is symmetric.** -/
theorem pashaIncrease_symm (s : RungSys) : (negSys s).pashaIncrease .max = s.pashaIncrease .min := by
  unfold RungSys.pashaIncrease
  simp only [negSys_rungs, negSys_curIdx, negSys_epsilon, pyIndex_map]
  cases pyIndex s.rungs (-(s.curIdx : Int)) with
  | none => rfl
  | some topR =>
    cases pyIndex s.rungs (-(s.curIdx : Int) + 1) with
    | none => rfl
    | some prevR =>
      simp only [Option.map_some]
      have e1 : (negRung topR).data.isEmpty = topR.data.isEmpty := by simp [negRung]
      have e2 : (negRung prevR).data.isEmpty = prevR.data.isEmpty := by simp [negRung]
      rw [e1, e2, rankingOf_neg, rankingOf_neg, filter_negP, softRankingKeeps_symm]

/-- **`PASHARungSystem.on_task_report` is symmetric.** -/
theorem pashaReport_symm (s : RungSys) (tid r : Nat) (v eps : Rat) :
    (negSys s).pashaReport .max tid r (-v) eps =
      (s.pashaReport .min tid r v eps).map (fun res => (negSys res.1, res.2)) := by
  unfold RungSys.pashaReport
  rw [promoReport_symm]
  cases s.promoReport .min tid r v with
  | error e => rfl
  | ok res =>
    simp only
    have hs1 : ({ negSys res.1 with epsilon := eps } : RungSys) = negSys { res.1 with epsilon := eps } := rfl
    rw [hs1, pashaIncrease_symm]
    cases ({ res.1 with epsilon := eps } : RungSys).pashaIncrease .min with
    | error e => rfl
    | ok inc =>
      simp only [negSys_curIdx, negSys_rungs, List.length_map, negSys_levelsAsc, negSys_maxT]
      cases inc with
      | false => rfl
      | true =>
        simp only [if_true]
        split
        · cases res.1.levelsAsc[res.1.curIdx]? <;> rfl
        · rfl

/-! ### bracket manager -/

/-- every rung system of the manager has its promotion quantiles in (0,1) -/
def MgrQOK (g : Manager) : Prop := ∀ sys ∈ g.systems, QOK sys.rungs

theorem negMgr_sysFor (g : Manager) (b : Nat) : (negMgr g).sysFor b = g.sysFor b := rfl
theorem negMgr_type (g : Manager) : (negMgr g).type = g.type := rfl
theorem negMgr_maxT (g : Manager) : (negMgr g).maxT = g.maxT := rfl
theorem negMgr_taskInfo (g : Manager) : (negMgr g).taskInfo = g.taskInfo := rfl
theorem negMgr_rungLevels (g : Manager) : (negMgr g).rungLevels = g.rungLevels := rfl
theorem negMgr_systems (g : Manager) : (negMgr g).systems = g.systems.map negSys := rfl
theorem negMgr_mode (g : Manager) (hm : g.mode = .min) : (negMgr g).mode = .max := by
  simp [negMgr, hm, Mode.flip]

theorem negMgr_setSys (g : Manager) (i : Nat) (s : RungSys) :
    (negMgr g).setSys i (negSys s) = negMgr (g.setSys i s) := by
  simp only [Manager.setSys, negMgr, List.map_set]

theorem mgrTaskAdd_symm (g : Manager) (tid bracket : Nat) (resume : Option (Nat × Nat)) :
    (negMgr g).taskAdd tid bracket resume =
      (g.taskAdd tid bracket resume).map (fun res => (negMgr res.1, res.2)) := by
  unfold Manager.taskAdd
  simp only [negMgr_sysFor, negMgr_systems, List.getElem?_map, negMgr_type, negMgr_maxT, negMgr_taskInfo]
  cases g.systems[(g.sysFor bracket).1]? with
  | none => rfl
  | some s =>
    simp only [Option.map_some, sysTaskAdd_symm]
    cases s.taskAdd g.type.pauseResume tid (g.sysFor bracket).2 resume with
    | error e => rfl
    | ok s' =>
      simp only [Except.map, firstOfList_neg]
      rw [← negMgr_setSys]
      rfl

theorem sysReport_symm (g : Manager) (hm : g.mode = .min) (s : RungSys) (hq : QOK s.rungs) (tid r : Nat) (v : Rat)
    (skip : Nat) (hint : Bool) (cost eps : Rat) :
    (negMgr g).sysReport (negSys s) tid r (-v) skip hint cost eps =
      (g.sysReport s tid r v skip hint cost eps).map (fun res => (negSys res.1, res.2)) := by
  unfold Manager.sysReport
  rw [negMgr_type, negMgr_mode g hm, hm]
  cases g.type with
  | stopping => simp only [stopping_symm s tid r v skip hint hq]; rfl
  | rushStopping => simp only [rushStopReport_symm s tid r v skip hint hq]; rfl
  | promotion => simp only [promoReport_symm]; cases s.promoReport .min tid r v <;> rfl
  | rushPromotion => simp only [promoReport_symm]; cases s.promoReport .min tid r v <;> rfl
  | costPromotion => simp only [promoReport_symm]; cases s.promoReport .min tid r v cost <;> rfl
  | pasha => simp only [pashaReport_symm]

/-- **`HyperbandBracketManager.on_task_report` is symmetric**, all six types. -/
theorem taskReport_symm (g : Manager) (hm : g.mode = .min) (hq : MgrQOK g) (tid r : Nat) (v : Rat) (hint : Bool)
    (cost eps : Rat) :
    (negMgr g).taskReport tid r (-v) hint cost eps =
      (g.taskReport tid r v hint cost eps).map (fun res => (negMgr res.1, res.2)) := by
  unfold Manager.taskReport
  simp only [negMgr_taskInfo, negMgr_sysFor, negMgr_systems, List.getElem?_map, negMgr_maxT]
  cases alookup tid g.taskInfo with
  | none => rfl
  | some bracket =>
    simp only
    cases hs : g.systems[(g.sysFor bracket).1]? with
    | none => rfl
    | some s =>
      simp only [Option.map_some]
      by_cases hr : r < g.maxT
      · simp only [hr, if_true]
        rw [sysReport_symm g hm s (hq s (List.mem_of_getElem? hs))]
        cases g.sysReport s tid r v (g.sysFor bracket).2 hint cost eps with
        | error e => rfl
        | ok res => simp only [Except.map, negMgr_setSys]
      · simp only [hr, if_false]
        rfl

theorem delRunningAt_neg (systems : List RungSys) (i tid : Nat) :
    delRunningAt (systems.map negSys) i tid = (delRunningAt systems i tid).map negSys := by
  unfold delRunningAt
  simp only [List.getElem?_map]
  cases systems[i]? with
  | none => rfl
  | some s => simp only [Option.map_some, List.map_set]; rfl

theorem taskRemove_symm (g : Manager) (tid : Nat) : (negMgr g).taskRemove tid = negMgr (g.taskRemove tid) := by
  unfold Manager.taskRemove
  simp only [negMgr_taskInfo, negMgr_sysFor, negMgr_systems]
  cases alookup tid g.taskInfo with
  | none => rfl
  | some bracket => simp only [delRunningAt_neg]; rfl

/-- **`HyperbandBracketManager.on_task_schedule` is symmetric**, all six types. -/
theorem taskSchedule_symm (g : Manager) (hm : g.mode = .min) (hq : MgrQOK g) (bracket : Nat) (hint : Option Nat) :
    (negMgr g).taskSchedule bracket hint =
      (g.taskSchedule bracket hint).map (fun res => (negMgr res.1, res.2)) := by
  unfold Manager.taskSchedule
  simp only [negMgr_sysFor, negMgr_systems, List.getElem?_map, negMgr_type, negMgr_mode g hm, hm]
  cases hs : g.systems[(g.sysFor bracket).1]? with
  | none => rfl
  | some s =>
    simp only [Option.map_some, firstMilestone_neg,
      promoSchedule_symm s g.type hint (hq s (List.mem_of_getElem? hs))]
    split
    · rfl
    · cases (s.promoSchedule g.type .min hint).2.1 with
      | some o => simp only [Except.map, negMgr_setSys]
      | none => simp only [Except.map, negMgr_setSys]

end SyneTune.C15Sched
