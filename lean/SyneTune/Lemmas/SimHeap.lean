import SyneTune.Lemmas.SimBasic
/-
Heap invariant of the simulator (sorted by `(time, cnt)`, counters below `events_added`),
effect of the event handlers on the heap, and its preservation by every operation.
-/
namespace SyneTune.SimL
open SyneTune SyneTune.Backend SyneTune.PollL

variable {J : Type}

/-- the heap is strictly sorted by `(time, cnt)` and all counters are below `events_added` -/
structure HeapOK (s : Sim J) : Prop where
  sorted : s.heap.Pairwise keyLt
  cnt_lt : ∀ e ∈ s.heap, e.cnt < s.added

theorem HeapOK.push {s : Sim J} (h : HeapOK s) (tm : Rat) (t : Nat) (k : EvKind) : HeapOK (s.push tm t k) := by
  constructor
  · simp only [push_heap]
    apply insertEv_sorted _ _ h.sorted
    intro x hx
    have := h.cnt_lt x hx
    simp; omega
  · intro e he
    simp only [push_heap, mem_insertEv] at he
    simp only [push_added]
    rcases he with rfl | he
    · simp
    · have := h.cnt_lt e he; omega

/-- a change that touches neither heap nor counter -/
theorem HeapOK.of_eq {s s' : Sim J} (h : HeapOK s) (hh : s'.heap = s.heap) (ha : s'.added = s.added) : HeapOK s' :=
  ⟨by rw [hh]; exact h.sorted, by rw [hh, ha]; exact h.cnt_lt⟩

theorem HeapOK.sub {s s' : Sim J} (h : HeapOK s) (hh : s'.heap.Sublist s.heap) (ha : s'.added = s.added) : HeapOK s' :=
  ⟨h.sorted.sublist hh, by rw [ha]; exact fun e he => h.cnt_lt e (hh.subset he)⟩

/-! ### effect of `pushResults` -/

theorem pushResults_fields (A : Arith) (t : Nat) (te : Rat) (run : Nat) (rs : List Res) :
    ∀ (s : Sim J) (i : Nat) (tf : Rat),
      let p := pushResults A s t te run rs i tf
      p.1.now = s.now ∧ p.1.cfg = s.cfg ∧ p.1.trials = s.trials ∧ p.1.next = s.next ∧ p.1.log = s.log ∧
      p.1.runs = s.runs ∧ p.1.js = s.js ∧ p.1.busy = s.busy ∧ p.1.seen = s.seen ∧
      p.1.realNow = s.realNow ∧ p.1.lastExit = s.lastExit ∧ p.1.added = s.added + rs.length := by
  induction rs with
  | nil => intro s i tf; simp [pushResults]
  | cons r rs ih =>
    intro s i tf
    simp only [pushResults]
    have := ih (s.push (A.add (A.add te r.elapsed) s.cfg.dResult) t (.result r ⟨run, i⟩)) (i + 1)
      (maxRat tf (A.add te r.elapsed))
    simp only [push_now, push_cfg, push_trials, push_next, push_log, push_runs, push_js, push_added] at this
    obtain ⟨h1, h2, h3, h4, h5, h6, h7, h8, h9, h10, h11, h12⟩ := this
    refine ⟨h1, h2, h3, h4, h5, h6, h7, h8, h9, h10, h11, ?_⟩
    rw [h12]; simp; omega

theorem pushResults_heapOK (A : Arith) (t : Nat) (te : Rat) (run : Nat) (rs : List Res) :
    ∀ (s : Sim J) (i : Nat) (tf : Rat), HeapOK s → HeapOK (pushResults A s t te run rs i tf).1 := by
  induction rs with
  | nil => intro s i tf h; exact h
  | cons r rs ih => intro s i tf h; simp only [pushResults]; exact ih _ _ _ (h.push _ _ _)

/-- the events in the heap after `pushResults`: the old ones and one per result -/
theorem pushResults_mem (A : Arith) (t : Nat) (te : Rat) (run : Nat) (rs : List Res) :
    ∀ (s : Sim J) (i : Nat) (tf : Rat) (e : Ev),
      e ∈ (pushResults A s t te run rs i tf).1.heap ↔
        e ∈ s.heap ∨ ∃ k r, rs[k]? = some r ∧
          e = ⟨A.add (A.add te r.elapsed) s.cfg.dResult, s.added + k, t, .result r ⟨run, i + k⟩⟩ := by
  induction rs with
  | nil => intro s i tf e; simp [pushResults]
  | cons r rs ih =>
    intro s i tf e
    simp only [pushResults]
    rw [ih]
    simp only [push_heap, mem_insertEv, push_cfg, push_added]
    constructor
    · rintro ((rfl | h) | ⟨k, r', hk, rfl⟩)
      · right; exact ⟨0, r, by simp, by simp⟩
      · left; exact h
      · right; exact ⟨k + 1, r', by simpa using hk, by simp; omega⟩
    · rintro (h | ⟨k, r', hk, rfl⟩)
      · left; right; exact h
      · cases k with
        | zero => simp at hk; subst hk; left; left; simp
        | succ k => right; exact ⟨k, r', by simpa using hk, by simp; omega⟩

/-! ### the event handlers keep the heap invariant -/

theorem HeapOK.startResult {A : Arith} {s : Sim J} (h : HeapOK s) (t : Nat) (te : Rat) (x : STrial) (js' : J)
    (status : St) (rs : List Res) : HeapOK (startResult A s t te x js' status rs) := by
  have h0 : HeapOK ({ s with js := js' } : Sim J) := h.of_eq rfl rfl
  have h1 := pushResults_heapOK A t te x.runs rs _ 0 te h0
  have h2 := h1.push (A.add (pushResults A { s with js := js' } t te x.runs rs 0 te).2 s.cfg.dCompleteFinal)
    t (.complete status (some x.runs))
  exact h2.of_eq rfl rfl

theorem HeapOK.processEvent {A : Arith} {job : JobFn J} {s s' : Sim J} {e : Ev} (h : HeapOK s)
    (hev : s.processEvent A job e = .ok s') : HeapOK s' := by
  unfold Sim.processEvent at hev
  split at hev
  · obtain ⟨x, js', status, rs, _, _, rfl⟩ := processStart_inv hev
    exact h.startResult _ _ _ _ _ _
  · obtain ⟨_, rfl⟩ := processComplete_inv hev
    exact h.of_eq rfl rfl
  · cases hev
    exact h.sub (List.filter_sublist) rfl
  · obtain ⟨_, rfl⟩ := processResult_inv hev
    exact h.of_eq rfl rfl

theorem HeapOK.processUntil {A : Arith} {job : JobFn J} {fuel : Nat} {s s' : Sim J} (h : HeapOK s)
    (hp : Sim.processUntil A job fuel s = .ok s') : HeapOK s' := by
  refine processUntil_induct A job HeapOK ?_ fuel s s' h hp
  intro s e rest s1 hs hheap _ hev
  have : HeapOK ({ s with heap := rest } : Sim J) :=
    hs.sub (by rw [hheap]; exact List.sublist_cons_self e rest) rfl
  exact this.processEvent hev

/-- after the event loop no event in the heap is due -/
theorem processUntil_nodue {A : Arith} {job : JobFn J} {fuel : Nat} {s s' : Sim J} (h : HeapOK s)
    (hp : Sim.processUntil A job fuel s = .ok s') : ∀ e ∈ s'.heap, s'.now < e.time := by
  have hok := h.processUntil hp
  have hhead := processUntil_head A job fuel s s' hp
  intro e he
  cases hh : s'.heap with
  | nil => rw [hh] at he; cases he
  | cons x xs =>
    have hx := hhead x (by rw [hh]; rfl)
    rw [hh] at he
    rcases List.mem_cons.mp he with rfl | he
    · exact hx
    · have hs := hok.sorted
      rw [hh, List.pairwise_cons] at hs
      have := hs.1 e he
      unfold keyLt at this
      rcases this with h1 | h1
      · linarith
      · rw [← h1.1]; exact hx


/-! ### inversion of the backend methods -/

theorem advance_inv {A : Arith} {s s' : Sim J} {step : Rat} (h : s.advance A step = .ok s') :
    0 ≤ step ∧ s' = { s with now := A.add s.now step } := by
  unfold Sim.advance at h
  split at h
  · cases h
  · rename_i hs; cases h; exact ⟨by linarith, rfl⟩

theorem schedule_inv {A : Arith} {job : JobFn J} {s s' : Sim J} {t : Nat} (h : s.schedule A job t = .ok s') :
    ∃ s1 s2, s.advanceOutside A = .ok s1 ∧ Sim.processUntil A job simFuel s1 = .ok s2 ∧
      s' = (s2.push (A.add s2.now s2.cfg.dStart) t .start).markExit := by
  unfold Sim.schedule at h
  cases h1 : s.advanceOutside A with
  | error e => rw [h1] at h; cases h
  | ok s1 =>
    rw [h1] at h; simp only at h
    cases h2 : Sim.processUntil A job simFuel s1 with
    | error e => rw [h2] at h; cases h
    | ok s2 => rw [h2] at h; cases h; exact ⟨s1, s2, rfl, h2, rfl⟩

theorem stopOrPause_inv {A : Arith} {job : JobFn J} {s s' : Sim J} {t : Nat} {st : St}
    (h : s.stopOrPause A job t st = .ok s') :
    ∃ s1 s3 s5, s.advanceOutside A = .ok s1 ∧
      Sim.processUntil A job simFuel
        ((s1.push (A.add s1.now s1.cfg.dStop) t .stop).advanceTo (A.add (A.add s1.now s1.cfg.dStop) s1.cfg.guard)) = .ok s3 ∧
      Sim.processUntil A job simFuel
        ((s3.push (A.add s3.now s3.cfg.dCompleteStop) t (.complete st none)).advanceTo
          (A.add (A.add s3.now s3.cfg.dCompleteStop) s3.cfg.guard)) = .ok s5 ∧
      s' = s5.markExit := by
  unfold Sim.stopOrPause at h
  cases h1 : s.advanceOutside A with
  | error e => rw [h1] at h; cases h
  | ok s1 =>
    rw [h1] at h; simp only at h
    cases h3 : Sim.processUntil A job simFuel
        ((s1.push (A.add s1.now s1.cfg.dStop) t .stop).advanceTo (A.add (A.add s1.now s1.cfg.dStop) s1.cfg.guard)) with
    | error e => rw [h3] at h; cases h
    | ok s3 =>
      rw [h3] at h; simp only at h
      cases h5 : Sim.processUntil A job simFuel
          ((s3.push (A.add s3.now s3.cfg.dCompleteStop) t (.complete st none)).advanceTo
            (A.add (A.add s3.now s3.cfg.dCompleteStop) s3.cfg.guard)) with
      | error e => rw [h5] at h; cases h
      | ok s5 => rw [h5] at h; cases h; exact ⟨s1, s3, s5, rfl, h3, h5, rfl⟩

theorem fetch_inv {A : Arith} {job : JobFn J} {s s' : Sim J} {ids : List Nat} {sts : List (Nat × St)}
    {res : List (Nat × Arrived)} (h : s.fetch A job ids = .ok (s', sts, res)) :
    ∃ s1 s2, s.advanceOutside A = .ok s1 ∧ Sim.processUntil A job simFuel s1 = .ok s2 ∧
      res = (fetchCovered s2 ids).2 ∧
      s' = ({ (dropRest (fetchCovered s2 ids).1 (fetchCovered s2 ids).1.next) with
              trials := markFlushed ids (dropRest (fetchCovered s2 ids).1 (fetchCovered s2 ids).1.next).trials } : Sim J).markExit := by
  unfold Sim.fetch at h
  cases h1 : s.advanceOutside A with
  | error e => rw [h1] at h; cases h
  | ok s1 =>
    rw [h1] at h; simp only at h
    cases h2 : Sim.processUntil A job simFuel s1 with
    | error e => rw [h2] at h; cases h
    | ok s2 =>
      rw [h2] at h; simp only at h
      split at h
      · cases h
      · simp only [Except.ok.injEq, Prod.mk.injEq] at h
        exact ⟨s1, s2, rfl, h2, h.2.2.symm, h.1.symm⟩

/-! ### `fetchCovered`, `dropRest` only move arrived results into the log -/

theorem fetchCovered_fields (ids : List Nat) : ∀ (s : Sim J),
    (fetchCovered s ids).1.heap = s.heap ∧ (fetchCovered s ids).1.added = s.added ∧
    (fetchCovered s ids).1.now = s.now ∧ (fetchCovered s ids).1.cfg = s.cfg ∧
    (fetchCovered s ids).1.js = s.js ∧ (fetchCovered s ids).1.runs = s.runs ∧
    (fetchCovered s ids).1.trials.length = s.trials.length := by
  induction ids with
  | nil => intro s; simp [fetchCovered]
  | cons t rest ih =>
    intro s
    unfold fetchCovered
    split
    · exact ih s
    · simp only
      obtain ⟨h1, h2, h3, h4, h5, h6, h7⟩ := ih (Sim.updT { s with next := _, seen := _, log := _ } t _)
      exact ⟨h1, h2, h3, h4, h5, h6, by rw [h7]; simp⟩

theorem dropRest_fields (l : List (Nat × List Arrived)) : ∀ (s : Sim J),
    (dropRest s l).heap = s.heap ∧ (dropRest s l).added = s.added ∧ (dropRest s l).now = s.now ∧
    (dropRest s l).cfg = s.cfg ∧ (dropRest s l).js = s.js ∧ (dropRest s l).runs = s.runs ∧
    (dropRest s l).trials.length = s.trials.length ∧ (dropRest s l).next = [] := by
  induction l with
  | nil => intro s; simp [dropRest]
  | cons p rest ih =>
    intro s
    obtain ⟨t, q⟩ := p
    unfold dropRest
    obtain ⟨h1, h2, h3, h4, h5, h6, h7, h8⟩ := ih ({ (s.updT t _) with seen := _, log := _ })
    exact ⟨h1, h2, h3, h4, h5, h6, by rw [h7]; simp, h8⟩

/-! ### the heap invariant over whole operations -/

theorem HeapOK.advanceOutside {A : Arith} {s s' : Sim J} (h : HeapOK s) (ha : s.advanceOutside A = .ok s') : HeapOK s' := by
  obtain ⟨_, rfl⟩ := advance_inv ha
  exact h.of_eq rfl rfl

theorem HeapOK.schedule {A : Arith} {job : JobFn J} {s s' : Sim J} {t : Nat} (h : HeapOK s)
    (hs : s.schedule A job t = .ok s') : HeapOK s' := by
  obtain ⟨s1, s2, h1, h2, rfl⟩ := schedule_inv hs
  exact (((h.advanceOutside h1).processUntil h2).push _ _ _).of_eq rfl rfl

theorem HeapOK.stopOrPause {A : Arith} {job : JobFn J} {s s' : Sim J} {t : Nat} {st : St} (h : HeapOK s)
    (hs : s.stopOrPause A job t st = .ok s') : HeapOK s' := by
  obtain ⟨s1, s3, s5, h1, h3, h5, rfl⟩ := stopOrPause_inv hs
  have a1 := h.advanceOutside h1
  have a3 := HeapOK.processUntil ((a1.push _ t .stop).of_eq (s' := Sim.advanceTo _ _) rfl rfl) h3
  have a5 := HeapOK.processUntil ((a3.push _ t (.complete st none)).of_eq (s' := Sim.advanceTo _ _) rfl rfl) h5
  exact a5.of_eq rfl rfl

theorem HeapOK.fetch {A : Arith} {job : JobFn J} {s s' : Sim J} {ids : List Nat} {sts : List (Nat × St)}
    {res : List (Nat × Arrived)} (h : HeapOK s) (hs : s.fetch A job ids = .ok (s', sts, res)) : HeapOK s' := by
  obtain ⟨s1, s2, h1, h2, _, rfl⟩ := fetch_inv hs
  have a2 := (h.advanceOutside h1).processUntil h2
  have hc := fetchCovered_fields ids s2
  have hd := dropRest_fields (fetchCovered s2 ids).1.next (fetchCovered s2 ids).1
  exact a2.of_eq (by simp [Sim.markExit, hd.1, hc.1]) (by simp [Sim.markExit, hd.2.1, hc.2.1])

theorem HeapOK.stopTrial {A : Arith} {job : JobFn J} {s s' : Sim J} {t : Nat} (h : HeapOK s)
    (hs : s.stopTrial A job t = .ok s') : HeapOK s' :=
  HeapOK.stopOrPause (h.of_eq (s' := s.updT t _) rfl rfl) hs

theorem HeapOK.stopAllGo {A : Arith} {job : JobFn J} (l : List Nat) : ∀ {s s' : Sim J}, HeapOK s →
    simStopAllGo A job s l = .ok s' → HeapOK s' := by
  induction l with
  | nil => intro s s' h hs; cases hs; exact h
  | cons t rest ih =>
    intro s s' h hs
    unfold simStopAllGo at hs
    split at hs
    · exact ih h hs
    · split at hs
      · cases h1 : s.stopTrial A job t with
        | error e => rw [h1] at hs; cases hs
        | ok s1 => rw [h1] at hs; exact ih (h.stopTrial h1) hs
      · exact ih h hs

theorem HeapOK.step {A : Arith} {job : JobFn TabState} {s s' : TB} {op : SOp} (h : HeapOK s)
    (hs : TB.step A job s op = .ok s') : HeapOK s' := by
  cases op with
  | start cfg =>
    simp only [TB.step, Sim.startTrial] at hs
    cases h1 : s.schedule A job s.trials.length with
    | error e => rw [h1] at hs; cases hs
    | ok s1 => rw [h1] at hs; cases hs; exact (h.schedule h1).of_eq rfl rfl
  | resume t nc =>
    simp only [TB.step, Sim.resumeTrial] at hs
    split at hs
    · cases hs
    · split at hs
      · cases hs
      · split at hs
        · cases hs
        · cases h1 : Sim.schedule A job ({ s with js := _ } : TB) t with
          | error e => rw [h1] at hs; cases hs
          | ok s1 =>
            rw [h1] at hs; cases hs
            have a : HeapOK s1 := by
              refine HeapOK.schedule ?_ h1
              exact h.of_eq rfl rfl
            exact a.of_eq rfl rfl
  | pause t lv =>
    simp only [TB.step, Sim.pauseTrial] at hs
    split at hs
    · cases h1 : Sim.stopOrPause A job (s.updT t _) t .paused with
      | error e => rw [h1] at hs; cases hs
      | ok s1 =>
        rw [h1] at hs; cases hs
        have a : HeapOK s1 := by
          refine HeapOK.stopOrPause ?_ h1
          exact h.of_eq rfl rfl
        exact a.of_eq rfl rfl
    · cases hs
  | stop t => exact h.stopTrial hs
  | fetch ids =>
    simp only [TB.step] at hs
    cases h1 : s.fetch A job ids with
    | error e => rw [h1] at hs; cases hs
    | ok r => obtain ⟨s1, sts, res⟩ := r; rw [h1] at hs; cases hs; exact h.fetch h1
  | busy =>
    simp only [TB.step, Sim.busyIds] at hs
    cases h1 : Sim.processUntil A job simFuel s with
    | error e => rw [h1] at hs; cases hs
    | ok s1 => rw [h1] at hs; cases hs; exact h.processUntil h1
  | sleep =>
    obtain ⟨_, rfl⟩ := advance_inv hs
    exact h.of_eq rfl rfl
  | advance dt =>
    obtain ⟨_, rfl⟩ := advance_inv hs
    exact h.of_eq rfl rfl
  | tick dt => cases hs; exact h.of_eq rfl rfl
  | tape d => cases hs; exact h.of_eq rfl rfl
  | stopAll => exact HeapOK.stopAllGo _ h hs

theorem HeapOK.run {A : Arith} {job : JobFn TabState} (ops : List SOp) : ∀ {s s' : TB}, HeapOK s →
    TB.run A job s ops = .ok s' → HeapOK s' := by
  induction ops with
  | nil => intro s s' h hs; cases hs; exact h
  | cons op ops ih =>
    intro s s' h hs
    unfold TB.run at hs
    cases h1 : TB.step A job s op with
    | error e => rw [h1] at hs; cases hs
    | ok s1 => rw [h1] at hs; exact ih (h.step h1) hs

theorem HeapOK.init (cfg : SimCfg) (js : TabState) : HeapOK (TB.init cfg js) :=
  ⟨by simp [TB.init], by simp [TB.init]⟩

end SyneTune.SimL
