import SyneTune.Lemmas.TunerC12bFrame
/-
Behind C12b: overshoot of a count-based stopping criterion `numIn p > m` for a status test `p`
(`p` = completed: `max_num_trials_completed`; `p` = completed/stopped/stopping/failed:
`max_num_trials_finished`).  One invariant, generic in `p`:

* while the last evaluation of the stopping condition was false, the count is `≤ m` from the
  `while` test up to `tuning_status.update`, and `≤ m + n_workers` everywhere in the loop
  (one `_process_new_results` changes the recorded status of running trials only, and at most
  `n_workers` trials run);
* the potential `psi` (recorded trials passing the test OR in the running set) never exceeds
  `m + 2·n_workers`: it does not grow in `_process_new_results`, and it grows in
  `_schedule_new_tasks` only while the stopping condition is false;
* without `wait_trial_completion_when_stopping` an iteration never begins with the stopping
  condition true, hence the count stays `≤ m + n_workers`.
The second status test `q` (a test that `mark_running_job_as_stopped` cannot tell apart, bounded by
the potential at the entry of the `finally` block) carries the `m + 2·n_workers` bound to the end.
-/
namespace SyneTune.Tuner.Cnt
open SyneTune SyneTune.Tuner AL

structure GInv (p q : St → Bool) (m : Nat) (s : LState) : Prop where
  g1 : s.stopReached = false → prePc s.pc = true → s.status.numIn p ≤ m
  g4 : s.stopReached = false → finPc s.pc = false → s.status.numIn p ≤ m + s.cfg.nWorkers
  g3 : ipPc s.pc = true → psi p s.running s.status.last ≤ m + 2 * s.cfg.nWorkers
  g2 : s.cfg.wait = false → (MarkInv p ∨ markedPc s.pc = false) → s.status.numIn p ≤ m + s.cfg.nWorkers
  g5 : s.status.numIn q ≤ m + 2 * s.cfg.nWorkers

/-- the second test is bounded by the potential where the latter is maintained -/
def QOk (p q : St → Bool) (s : LState) : Prop :=
  ipPc s.pc = true → s.status.numIn q ≤ psi p s.running s.status.last

variable {p q : St → Bool} {m : Nat}

/-- a step that leaves status, running set and `stop_condition_reached` alone and does not reach the `while` test -/
theorem GInv.frame {s s' : LState} (h : GInv p q m s) (hf : Frame s s') (hc : s'.cfg = s.cfg)
    (hfl : flow s.pc s'.pc = true) (hnl : s'.pc ≠ .loopHead) : GInv p q m s' := by
  refine ⟨fun hs hp => ?_, fun hs hp => ?_, fun hp => ?_, fun hw hp => ?_, ?_⟩
  · rw [hf.status]; exact h.g1 (by rw [← hf.sr]; exact hs) (pre_back _ _ hfl hp hnl)
  · rw [hf.status, hc]; exact h.g4 (by rw [← hf.sr]; exact hs) (fin_back _ _ hfl hp)
  · rw [hf.status, hf.running, hc]; exact h.g3 (ip_back _ _ hfl hp)
  · rw [hf.status, hc]
    refine h.g2 (by rw [← hc]; exact hw) ?_
    rcases hp with hp | hp
    · exact Or.inl hp
    · exact Or.inr (marked_back _ _ hfl hp)
  · rw [hf.status, hc]; exact h.g5

/-- `_stop_condition()` has been evaluated -/
theorem GInv.evaluated {s : LState} (h : GInv p q m s) (b : Bool) (hb : b = false → s.status.numIn p ≤ m)
    (hp : s.pc = .evalStop ∨ s.pc = .clock) : GInv p q m { s with stopReached := b, pc := .loopHead } := by
  have hnf : finPc s.pc = false := by rcases hp with hp | hp <;> rw [hp] <;> rfl
  have hnm : markedPc s.pc = false := by rcases hp with hp | hp <;> rw [hp] <;> rfl
  refine ⟨fun hs _ => hb hs, fun hs _ => Nat.le_trans (hb hs) (Nat.le_add_right _ _), fun _ => h.g3 (ip_of_loop hnf),
    fun hw hm => ?_, h.g5⟩
  refine h.g2 hw ?_
  rcases hm with hm | _
  · exact Or.inl hm
  · exact Or.inr hnm

/-- the count after `_process_new_results` is at most the count before plus the size of the running set -/
theorem numIn_afterUpdate_le (p : St → Bool) {s : LState} (hS : SInv s) (hL : LNInv s) (hp : s.pc = .afterUpd) :
    (afterUpdate s).status.numIn p ≤ s.status.numIn p + s.running.length := by
  rw [numIn_eq, numIn_eq]
  exact Nat.le_trans (cnt_le_psi p (afterUpdate s).running _)
    (Nat.le_trans (psi_afterUpdate p hS hp) (psi_le p _ _ hL))

/-- the end of `_process_new_results` -/
theorem GInv.afterUpdate {s : LState} (h : GInv p q m s) (hS : SInv s) (hJ : JInv s) (hBu : BudgetInv s) (hL : LNInv s)
    (hp : s.pc = .afterUpd) (hQ : QOk p q (afterUpdate s)) : GInv p q m (afterUpdate s) := by
  have hle := numIn_afterUpdate_le p hS hL hp
  have hrun := hBu.1.le
  have hpsi := psi_afterUpdate p hS hp
  have hpre : prePc s.pc = true := by rw [hp]; rfl
  have hip : ipPc s.pc = true := by rw [hp]; rfl
  have hip' : ipPc (Tuner.afterUpdate s).pc = true := by
    rcases afterUpdate_pc s with hh | hh | hh <;> rw [hh] <;> rfl
  have hnpre : prePc (Tuner.afterUpdate s).pc = false := by
    rcases afterUpdate_pc s with hh | hh | hh <;> rw [hh] <;> rfl
  have hsr : (Tuner.afterUpdate s).stopReached = s.stopReached := rfl
  have h3 : psi p (Tuner.afterUpdate s).running (Tuner.afterUpdate s).status.last ≤ m + 2 * s.cfg.nWorkers :=
    Nat.le_trans hpsi (h.g3 hip)
  have hlow : s.stopReached = false → (Tuner.afterUpdate s).status.numIn p ≤ m + s.cfg.nWorkers := by
    intro hs
    have := h.g1 hs hpre
    omega
  refine ⟨fun _ hc => ?_, fun hs _ => hlow hs, fun _ => h3, fun hw _ => ?_, ?_⟩
  · rw [hnpre] at hc; cases hc
  · apply hlow
    cases hsr' : s.stopReached
    · rfl
    · have hw' := hJ.j1 (by rw [hp]; rfl) hsr'
      have hw2 : s.cfg.wait = false := hw
      rw [hw2] at hw'; cases hw'
  · exact Nat.le_trans (hQ hip') h3

/-- a trial has been started or resumed -/
theorem GInv.scheduled {s : LState} (h : GInv p q m s) (hp0 : p .inProgress = false) (hJ : JInv s)
    (hBu' : BudgetInv (scheduled s s.sId)) (hL' : LNInv (scheduled s s.sId))
    (hp : s.pc = .startCb ∨ s.pc = .resumeCb) (hQ : QOk p q (scheduled s s.sId)) : GInv p q m (scheduled s s.sId) := by
  have hsr : s.stopReached = false := hJ.j2 (by rcases hp with hp | hp <;> rw [hp] <;> rfl)
  have hnf : finPc s.pc = false := by rcases hp with hp | hp <;> rw [hp] <;> rfl
  have hcnt : (Tuner.scheduled s s.sId).status.numIn p ≤ s.status.numIn p := by
    rw [numIn_eq, numIn_eq, scheduled_last]; exact cnt_aset_le p _ _ _ hp0
  have hlow : (Tuner.scheduled s s.sId).status.numIn p ≤ m + s.cfg.nWorkers := Nat.le_trans hcnt (h.g4 hsr hnf)
  have hrun : (Tuner.scheduled s s.sId).running.length ≤ s.cfg.nWorkers := by
    have := hBu'.1.le; rwa [scheduled_cfg] at this
  have h3 : psi p (Tuner.scheduled s s.sId).running (Tuner.scheduled s s.sId).status.last ≤ m + 2 * s.cfg.nWorkers := by
    have := psi_le p (Tuner.scheduled s s.sId).running _ hL'
    rw [← numIn_eq] at this
    omega
  refine ⟨(fun _ hc => nomatch hc), fun _ _ => ?_, fun _ => ?_, fun _ _ => ?_, ?_⟩
  · rw [scheduled_cfg]; exact hlow
  · rw [scheduled_cfg]; exact h3
  · rw [scheduled_cfg]; exact hlow
  · rw [scheduled_cfg]; exact Nat.le_trans (hQ rfl) h3

/-- `mark_running_job_as_stopped` -/
theorem GInv.marked {s s' : LState} (h : GInv p q m s) (hq : MarkInv q) (_hp : s.pc = .finMark)
    (hst : s'.status = s.status.markStopped) (hc : s'.cfg = s.cfg) (hpc : s'.pc = .hfOut ∨ s'.pc = .done) :
    GInv p q m s' := by
  have hfin : finPc s'.pc = true := by rcases hpc with hh | hh <;> rw [hh] <;> rfl
  have hmk : markedPc s'.pc = true := by rcases hpc with hh | hh <;> rw [hh] <;> rfl
  have hnpre : prePc s'.pc = false := by rcases hpc with hh | hh <;> rw [hh] <;> rfl
  have hnip : ipPc s'.pc = false := by rcases hpc with hh | hh <;> rw [hh] <;> rfl
  refine ⟨fun _ hc' => ?_, fun _ hc' => ?_, fun hc' => ?_, fun hw hm => ?_, ?_⟩
  · rw [hnpre] at hc'; cases hc'
  · rw [hfin] at hc'; cases hc'
  · rw [hnip] at hc'; cases hc'
  · rcases hm with hm | hm
    · rw [hst, cnt_markStopped p hm, hc]; exact h.g2 (by rw [← hc]; exact hw) (Or.inl hm)
    · rw [hmk] at hm; cases hm
  · rw [hst, cnt_markStopped q hq, hc]; exact h.g5

theorem GInv_next (s : LState) (a : Ans) (h : GInv p q m s) (hp0 : p .inProgress = false) (hq : MarkInv q)
    (hcrit : ∀ clk, stopCond s clk = false → s.status.numIn p ≤ m)
    (hS : SInv s) (hJ : JInv s) (hBu : BudgetInv s) (hL : LNInv s)
    (hBu' : BudgetInv (next s a)) (hL' : LNInv (next s a)) (hQ : QOk p q (next s a)) : GInv p q m (next s a) := by
  have hfl := next_flow s a
  have hcfg := next_cfg s a
  by_cases hsp : specialPc s.pc = false
  · refine h.frame (next_frame s a hsp) hcfg hfl (fun hc => ?_)
    rw [hc] at hfl
    rw [loopHead_from _ hfl] at hsp; cases hsp
  · cases hpc : s.pc
    all_goals first
      | (exfalso; apply hsp; rw [hpc]; rfl; done)
      | skip
    · -- clock
      rcases next_clock s a hpc with ⟨t, ht⟩ | ht
      · rw [ht]; exact h.evaluated _ (hcrit t) (Or.inr hpc)
      · rw [ht]; exact h.frame (frame_raiseFin s _) rfl (by rw [hpc]; rfl) (pcne rfl)
    · -- startCb
      rcases next_startCb s a hpc with ht | ht
      · rw [ht] at hBu' hL' hQ ⊢; exact h.scheduled hp0 hJ hBu' hL' (Or.inl hpc) hQ
      · rw [ht]; exact h.frame (frame_raiseFin s _) rfl (by rw [hpc]; rfl) (pcne rfl)
    · -- resumeCb
      rcases next_resumeCb s a hpc with ht | ht
      · rw [ht] at hBu' hL' hQ ⊢; exact h.scheduled hp0 hJ hBu' hL' (Or.inr hpc) hQ
      · rw [ht]; exact h.frame (frame_raiseFin s _) rfl (by rw [hpc]; rfl) (pcne rfl)
    · -- evalStop
      rcases next_evalStop s a hpc with ht | ht
      · rw [ht]; exact h.frame ⟨rfl, rfl, rfl⟩ rfl (by rw [hpc]; rfl) (pcne rfl)
      · rw [ht]; exact h.evaluated _ (hcrit 0) (Or.inl hpc)
    · -- afterUpd
      rw [next_afterUpd s a hpc] at hQ ⊢
      exact h.afterUpdate hS hJ hBu hL hpc hQ
    · -- finMark
      obtain ⟨h1, _, _, _, _, h6⟩ := next_finMark s a hpc
      exact h.marked hq hpc h1 hcfg h6

theorem GInv_log {s : LState} (l : List Call) (h : GInv p q m s) : GInv p q m { s with log := l } :=
  ⟨h.g1, h.g4, h.g3, h.g2, h.g5⟩

theorem GInv_init (p q : St → Bool) (m : Nat) (c : Cfg) : GInv p q m (init c) := by
  have h0 : ∀ r : St → Bool, (init c).status.numIn r = 0 := fun r => by simp [init, TStatus.numIn]
  refine ⟨fun _ _ => ?_, fun _ _ => ?_, fun _ => ?_, fun _ _ => ?_, ?_⟩
  · rw [h0]; exact Nat.zero_le _
  · rw [h0]; exact Nat.zero_le _
  · simp [init, psi]
  · rw [h0]; exact Nat.zero_le _
  · rw [h0]; exact Nat.zero_le _

/-- what the criterion says when it is false -/
def CritBound (p : St → Bool) (m : Nat) (c : Criterion) : Prop :=
  ∀ ts clk kc, c.eval ts clk kc = false → ts.numIn p ≤ m

theorem stopCond_bound {s : LState} (hc : CritBound p m s.cfg.crit) (clk : Rat) (h : stopCond s clk = false) :
    s.status.numIn p ≤ m := by
  unfold stopCond at h
  simp only [Bool.or_eq_false_iff] at h
  exact hc _ _ _ h.1

/-- **the invariant holds along every run obeying contract B**, given an auxiliary invariant `X`
(preserved under the extra contract `P`) that bounds the second test by the potential -/
theorem GInv_run (p q : St → Bool) (m : Nat) (c : Cfg) (hp0 : p .inProgress = false) (hq : MarkInv q)
    (hcrit : CritBound p m c.crit)
    {X : LState → Prop} {P : LState → Ans → Prop} (hX0 : X (init c))
    (hXs : ∀ s a, X s → SInv s → P s a → X (step s a))
    (hXq : ∀ s, X s → QOk p q s)
    (as : List Ans) (hB : Along BOk (init c) as) (hP : Along P (init c) as) :
    GInv p q m (run (init c) as) ∧ X (run (init c) as) := by
  have key := run_inv_along
    (Inv := fun s => s.cfg = c ∧ SInv s ∧ JInv s ∧ BudgetInv s ∧ LNInv s ∧ X s ∧ GInv p q m s)
    (P := fun s a => BOk s a ∧ P s a)
    (fun s a h hp => by
      obtain ⟨hc, hS, hJ, hBu, hL, hX, hG⟩ := h
      have hBu' := budget_next s a hBu
      have hL' := LNInv_next s a hL
      have hX' := hXs s a hX hS hp.2
      have hQ : QOk p q (next s a) := by
        have := hXq _ hX'
        unfold QOk at this ⊢
        rw [step_pc] at this
        have e1 : (step s a).status = (next s a).status := by rw [step_eq]; split <;> rfl
        have e2 : (step s a).running = (next s a).running := by rw [step_eq]; split <;> rfl
        rw [e1, e2] at this
        exact this
      refine ⟨by rw [step_cfg]; exact hc, SInv_step s a hS hp.1, JInv_step s a hJ, budget_step s a hBu,
        step_of_next (P := LNInv) (fun _ _ h => h) s a hL', hX', ?_⟩
      exact step_of_next (P := GInv p q m) (fun _ l h => GInv_log l h) s a
        (GInv_next s a hG hp0 hq (fun clk => stopCond_bound (by rw [hc]; exact hcrit) clk) hS hJ hBu hL hBu' hL' hQ))
    as (init c)
    ⟨rfl, SInv_init c, JInv_init c, budget_init c, by simp [LNInv, init, keys], hX0, GInv_init p q m c⟩
    (Along.and hB hP)
  exact ⟨key.2.2.2.2.2.2, key.2.2.2.2.2.1⟩

end SyneTune.Tuner.Cnt
