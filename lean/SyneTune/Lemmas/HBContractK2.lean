import SyneTune.Lemmas.HBContractK
import SyneTune.Props.C13Hb
/-
Contract K at scheduler level (ASHA / PASHA): invariant `KInv`, preserved by every
operation of `Sched`; consequence: a `resume(t)` is only issued for a trial recorded as
not running, and the assertions of `_promote_trial` are unreachable.
-/
namespace SyneTune
open SyneTune.C13Hb

/-- the scheduler does not consider `t` running -/
def NotRunning (s : Sched) (t : Nat) : Prop :=
  ∃ rec, alookup t s.active = some rec ∧ rec.decision ≠ .continue

/-- resumed runs have `resume_from < milestone` -/
def RunOK (sys : RungSys) : Prop :=
  ∀ x ∈ sys.running, ∀ rf, x.2.2 = some rf → rf < x.2.1

structure KInv (s : Sched) : Prop where
  pr : s.mgr.type.pauseResume = true
  paused : ∀ t ∈ unpromotedSys s.mgr.systems, NotRunning s t
  nodup : (unpromotedSys s.mgr.systems).Nodup
  runok : ∀ sys ∈ s.mgr.systems, RunOK sys

theorem plain_pauseResume {ty : HBType} (h : ty.plain) : ty.pauseResume = true := by
  rcases h with rfl | rfl <;> rfl

theorem pauseResume_cases {ty : HBType} (h : ty.pauseResume = true) :
    ty = .promotion ∨ ty = .pasha ∨ ty = .costPromotion ∨ ty = .rushPromotion := by
  cases ty <;> simp_all [HBType.pauseResume]

theorem unpromotedSys_set (ss : List RungSys) (i : Nat) (sys sys' : RungSys) (h : ss[i]? = some sys) :
    ∃ pre post, ss = pre ++ sys :: post ∧ ss.set i sys' = pre ++ sys' :: post ∧
      unpromotedSys ss = unpromotedSys pre ++ (unpromotedOf sys.rungs ++ unpromotedSys post) ∧
      unpromotedSys (ss.set i sys') = unpromotedSys pre ++ (unpromotedOf sys'.rungs ++ unpromotedSys post) := by
  obtain ⟨pre, post, h1, _, h3⟩ := split_of_getElem? ss i sys h
  refine ⟨pre, post, h1, h3 sys', ?_, ?_⟩
  · rw [h1]; simp [unpromotedSys]
  · rw [h3 sys']; simp [unpromotedSys]

/-- same rungs ⇒ same unpromoted ids -/
theorem unpromotedSys_set_same (ss : List RungSys) (i : Nat) (sys sys' : RungSys) (h : ss[i]? = some sys)
    (hr : sys'.rungs = sys.rungs) : unpromotedSys (ss.set i sys') = unpromotedSys ss := by
  obtain ⟨pre, post, _, _, h3, h4⟩ := unpromotedSys_set ss i sys sys' h
  rw [h3, h4, hr]

theorem unpromotedSys_set_add (ss : List RungSys) (i : Nat) (sys sys' : RungSys) (t : Nat)
    (h : ss[i]? = some sys) (hp : (unpromotedOf sys'.rungs).Perm (t :: unpromotedOf sys.rungs)) :
    (unpromotedSys (ss.set i sys')).Perm (t :: unpromotedSys ss) := by
  obtain ⟨pre, post, _, _, h3, h4⟩ := unpromotedSys_set ss i sys sys' h
  rw [h3, h4]
  have h1 : (unpromotedSys pre ++ (unpromotedOf sys'.rungs ++ unpromotedSys post)).Perm
      (unpromotedSys pre ++ ((t :: unpromotedOf sys.rungs) ++ unpromotedSys post)) :=
    List.Perm.append_left _ (List.Perm.append_right _ hp)
  refine h1.trans ?_
  simp only [List.cons_append]
  exact List.perm_middle

theorem unpromotedSys_set_del (ss : List RungSys) (i : Nat) (sys sys' : RungSys) (t : Nat)
    (h : ss[i]? = some sys) (hp : (unpromotedOf sys.rungs).Perm (t :: unpromotedOf sys'.rungs)) :
    (unpromotedSys ss).Perm (t :: unpromotedSys (ss.set i sys')) := by
  obtain ⟨pre, post, _, _, h3, h4⟩ := unpromotedSys_set ss i sys sys' h
  rw [h3, h4]
  have h1 : (unpromotedSys pre ++ (unpromotedOf sys.rungs ++ unpromotedSys post)).Perm
      (unpromotedSys pre ++ ((t :: unpromotedOf sys'.rungs) ++ unpromotedSys post)) :=
    List.Perm.append_left _ (List.Perm.append_right _ hp)
  refine h1.trans ?_
  simp only [List.cons_append]
  exact List.perm_middle

theorem mem_set_cases {α} (l : List α) (i : Nat) (x y : α) (h : y ∈ l.set i x) : y = x ∨ y ∈ l := by
  rcases List.mem_or_eq_of_mem_set h with h | h
  · exact Or.inr h
  · exact Or.inl h

theorem delRunningAt_unpromoted (ss : List RungSys) (i tid : Nat) :
    unpromotedSys (delRunningAt ss i tid) = unpromotedSys ss := by
  unfold delRunningAt
  cases h : ss[i]? with
  | none => rfl
  | some sys => exact unpromotedSys_set_same ss i sys _ h rfl

theorem mem_adel {β} (k : Nat) (l : List (Nat × β)) (x : Nat × β) (h : x ∈ adel k l) : x ∈ l := by
  induction l with
  | nil => simp [adel] at h
  | cons y ys ih =>
    obtain ⟨a, b⟩ := y
    unfold adel at h
    by_cases hk : k = a
    · simp only [hk, if_true] at h; exact List.mem_cons_of_mem _ h
    · simp only [hk, if_false, List.mem_cons] at h
      rcases h with h | h
      · rw [h]; exact List.mem_cons_self ..
      · exact List.mem_cons_of_mem _ (ih h)

end SyneTune
