import SyneTune.Lemmas.ReportChannel
/-
Helper lemmas for C18, writer side: `Val.norm`, `normKw`, one `Reporter.__call__`,
invariants over histories.  Core Lean only.
-/
namespace SyneTune.Report

/-! ### `Val.norm` rejects exactly the values that contain something unserialisable -/

mutual
theorem Val.norm_none_iff : ∀ v : Val, v.norm = none ↔ v.bad = true
  | .leaf _ => by simp [Val.norm, Val.bad]
  | .np item => by simp only [Val.norm, Val.bad]; exact Val.norm_none_iff item
  | .other => by simp [Val.norm, Val.bad]
  | .list xs => by
    simp only [Val.norm, Val.bad, Option.map_eq_none_iff]; exact normList_none_iff xs
  | .dict kvs => by
    simp only [Val.norm, Val.bad, Option.map_eq_none_iff]; exact normKvs_none_iff kvs

theorem normList_none_iff : ∀ xs : List Val, normList xs = none ↔ badList xs = true
  | [] => by simp [normList, badList]
  | x :: xs => by
    have h1 := Val.norm_none_iff x
    have h2 := normList_none_iff xs
    simp only [normList, badList, Bool.or_eq_true]
    cases hx : x.norm with
    | none => simp [h1.mp hx]
    | some a =>
      have : x.bad = false := by
        cases hb : x.bad with
        | false => rfl
        | true => rw [h1.mpr hb] at hx; cases hx
      simp [this, h2]

theorem normKvs_none_iff : ∀ kvs : List (DKey × Val), normKvs kvs = none ↔ badKvs kvs = true
  | [] => by simp [normKvs, badKvs]
  | (k, v) :: rest => by
    have h1 := Val.norm_none_iff v
    have h2 := normKvs_none_iff rest
    simp only [normKvs, badKvs, Bool.or_eq_true]
    cases hk : k.text with
    | none => simp
    | some kt =>
      cases hv : v.norm with
      | none => simp [h1.mp hv]
      | some a =>
        have : v.bad = false := by
          cases hb : v.bad with
          | false => rfl
          | true => rw [h1.mpr hb] at hv; cases hv
        simp [this, h2]
end

/-! ### `normKw` -/

theorem normKw_append (a b : List (List Nat × Val)) :
    normKw (a ++ b) = (normKw a).bind fun da => (normKw b).map (da ++ ·) := by
  induction a with
  | nil => simp [normKw]
  | cons kv a ih =>
    obtain ⟨k, v⟩ := kv
    simp only [List.cons_append, normKw]
    cases hv : v.norm with
    | none => simp
    | some x =>
      simp only [ih]
      cases normKw a with
      | none => simp
      | some da => cases normKw b <;> simp

theorem normKw_leaves (es : List (List Nat × Leaf)) :
    normKw (es.map fun e => (e.1, Val.leaf e.2)) = some (es.map fun e => (e.1, Plain.leaf e.2)) := by
  induction es with
  | nil => simp [normKw]
  | cons e es ih => simp [normKw, Val.norm, ih]

theorem normKw_keys {kw : List (List Nat × Val)} {d : PDict} (h : normKw kw = some d) :
    d.map (·.1) = kw.map (·.1) := by
  induction kw generalizing d with
  | nil => simp [normKw] at h; subst h; rfl
  | cons kv kw ih =>
    obtain ⟨k, v⟩ := kv
    simp only [normKw] at h
    cases hv : v.norm with
    | none => simp [hv] at h
    | some x =>
      simp only [hv] at h
      cases hr : normKw kw with
      | none => simp [hr] at h
      | some r => simp [hr] at h; subst h; simp [ih hr]

theorem normKw_none_of_mem {kw : List (List Nat × Val)} {k : List Nat} {v : Val}
    (hmem : (k, v) ∈ kw) (hv : v.norm = none) : normKw kw = none := by
  induction kw with
  | nil => cases hmem
  | cons kv kw ih =>
    obtain ⟨k', v'⟩ := kv
    simp only [normKw]
    rcases List.mem_cons.mp hmem with h | h
    · cases h; simp [hv]
    · cases v'.norm with
      | none => rfl
      | some a => simp [ih h]

theorem normKw_none_iff (kw : List (List Nat × Val)) :
    normKw kw = none ↔ ∃ kv ∈ kw, kv.2.bad = true := by
  induction kw with
  | nil => simp [normKw]
  | cons kv kw ih =>
    obtain ⟨k, v⟩ := kv
    simp only [normKw, List.mem_cons, exists_eq_or_imp]
    cases hv : v.norm with
    | none => simp [(Val.norm_none_iff v).mp hv]
    | some a =>
      have : v.bad = false := by
        cases hb : v.bad with
        | false => rfl
        | true => rw [(Val.norm_none_iff v).mpr hb] at hv; cases hv
      simp [this, ih]

/-- the augmented dictionary is serialisable iff the keyword arguments are; its
normalised form is the normalised keywords followed by the added entries -/
theorem normKw_augment (c : Cfg) (st : St) (kw : List (List Nat × Val)) (now perf : Rat) (i : Nat) :
    normKw (augment c st kw now perf i) =
      (normKw kw).map (· ++ (extras c st now perf i).map fun e => (e.1, Plain.leaf e.2)) := by
  unfold augment
  rw [normKw_append, normKw_leaves]
  cases normKw kw <;> simp

/-! ### `pget` -/

theorem pget_append_of_not_mem {k : List Nat} {a b : PDict} (h : k ∉ a.map (·.1)) :
    pget k (a ++ b) = pget k b := by
  induction a with
  | nil => rfl
  | cons kv a ih =>
    obtain ⟨k', v⟩ := kv
    have h1 : k ≠ k' := fun e => h (by simp [e])
    have h2 : k ∉ a.map (·.1) := fun e => h (by simp [e])
    simp [pget, h1, ih h2]

theorem not_reserved_of_hasReserved {kw : List (List Nat × Val)} (h : hasReserved kw = false)
    {k : List Nat} (hk : reservedPrefix <+: k) : k ∉ kw.map (·.1) := by
  intro hmem
  obtain ⟨kv, hkv, rfl⟩ := List.mem_map.mp hmem
  unfold hasReserved at h
  rw [List.any_eq_false] at h
  exact h kv hkv (List.isPrefixOf_iff_prefix.mpr hk)

/-! ### one call -/

theorem call_none (c : Cfg) (enc : PDict → List Char) (st : St) (kw : List (List Nat × Val))
    (now perf : Rat) (h : hasNone kw = true) : st.call c enc kw now perf = (st, some .noneValue) := by
  simp [St.call, h]

theorem call_reserved (c : Cfg) (enc : PDict → List Char) (st : St) (kw : List (List Nat × Val))
    (now perf : Rat) (h0 : hasNone kw = false) (h : hasReserved kw = true) :
    st.call c enc kw now perf = (st, some .reserved) := by
  simp [St.call, h0, h]

theorem call_type (c : Cfg) (enc : PDict → List Char) (st : St) (kw : List (List Nat × Val))
    (now perf : Rat) (h0 : hasNone kw = false) (h1 : hasReserved kw = false) (h : normKw kw = none) :
    st.call c enc kw now perf =
      ({ st with iter := st.iter + 1, cur := st.cur ++ diagType }, some .typeError) := by
  simp [St.call, h0, h1, emit, normKw_augment, h]

theorem call_large (c : Cfg) (enc : PDict → List Char) (st : St) (kw : List (List Nat × Val))
    (now perf : Rat) (dkw : PDict) (h0 : hasNone kw = false) (h1 : hasReserved kw = false)
    (h : normKw kw = some dkw)
    (hs : ¬ c.overhead + (enc (sentDict c st dkw now perf)).length < sizeLimit) :
    st.call c enc kw now perf =
      ({ st with iter := st.iter + 1, cur := st.cur ++ diagSize }, some .tooLarge) := by
  unfold sentDict at hs
  simp [St.call, h0, h1, emit, normKw_augment, h, hs]

theorem call_ok (c : Cfg) (enc : PDict → List Char) (st : St) (kw : List (List Nat × Val))
    (now perf : Rat) (dkw : PDict) (h0 : hasNone kw = false) (h1 : hasReserved kw = false)
    (h : normKw kw = some dkw)
    (hs : c.overhead + (enc (sentDict c st dkw now perf)).length < sizeLimit) :
    st.call c enc kw now perf =
      ({ st with iter := st.iter + 1, segs := st.segs ++ [(st.cur, sentDict c st dkw now perf)], cur := [] },
        none) := by
  unfold sentDict at hs
  simp [St.call, h0, h1, emit, normKw_augment, h, hs, sentDict]

/-- exhaustive case split of a call -/
theorem call_cases (c : Cfg) (enc : PDict → List Char) (st : St) (kw : List (List Nat × Val))
    (now perf : Rat) :
    (st.call c enc kw now perf = (st, some .noneValue)) ∨
    (st.call c enc kw now perf = (st, some .reserved)) ∨
    (st.call c enc kw now perf =
      ({ st with iter := st.iter + 1, cur := st.cur ++ diagType }, some .typeError)) ∨
    (st.call c enc kw now perf =
      ({ st with iter := st.iter + 1, cur := st.cur ++ diagSize }, some .tooLarge)) ∨
    (∃ dkw, hasReserved kw = false ∧ normKw kw = some dkw ∧ st.call c enc kw now perf =
      ({ st with iter := st.iter + 1, segs := st.segs ++ [(st.cur, sentDict c st dkw now perf)], cur := [] },
        none)) := by
  cases h0 : hasNone kw with
  | true => exact Or.inl (call_none c enc st kw now perf h0)
  | false =>
    cases h1 : hasReserved kw with
    | true => exact Or.inr (Or.inl (call_reserved c enc st kw now perf h0 h1))
    | false =>
      cases h : normKw kw with
      | none => exact Or.inr (Or.inr (Or.inl (call_type c enc st kw now perf h0 h1 h)))
      | some dkw =>
        by_cases hs : c.overhead + (enc (sentDict c st dkw now perf)).length < sizeLimit
        · exact Or.inr (Or.inr (Or.inr (Or.inr ⟨dkw, rfl, rfl, call_ok c enc st kw now perf dkw h0 h1 h hs⟩)))
        · exact Or.inr (Or.inr (Or.inr (Or.inl (call_large c enc st kw now perf dkw h0 h1 h hs))))

/-! ### reading the reserved entries of a sent dictionary -/

theorem keys_free {kw : List (List Nat × Val)} {dkw : PDict} (h1 : hasReserved kw = false)
    (h : normKw kw = some dkw) {k : List Nat} (hk : reservedPrefix <+: k) : k ∉ dkw.map (·.1) := by
  rw [normKw_keys h]; exact not_reserved_of_hasReserved h1 hk

theorem pget_timeEntries_iter (c : Cfg) (hc : CfgOK c) (st : St) (perf : Rat) (rest : PDict) :
    pget c.kIter ((timeEntries c st perf).map (fun e => (e.1, Plain.leaf e.2)) ++ rest) = pget c.kIter rest := by
  apply pget_append_of_not_mem
  unfold timeEntries
  have h1 := hc.iter_time
  have h2 := hc.iter_cost
  cases c.addTime <;> cases c.dollarCost <;> simp [h1, h2]

theorem iterOf_sent (c : Cfg) (hc : CfgOK c) (st : St) {kw : List (List Nat × Val)} {dkw : PDict}
    (h1 : hasReserved kw = false) (h : normKw kw = some dkw) (now perf : Rat) :
    iterOf c (sentDict c st dkw now perf) = some (st.iter : Int) := by
  unfold iterOf sentDict extras
  rw [pget_append_of_not_mem (keys_free h1 h hc.iter)]
  simp only [List.map_cons, List.map_append, List.map_nil]
  simp only [pget, hc.iter_ts, if_false]
  rw [pget_timeEntries_iter c hc]
  simp [pget]

theorem tsOf_sent (c : Cfg) (hc : CfgOK c) (st : St) {kw : List (List Nat × Val)} {dkw : PDict}
    (h1 : hasReserved kw = false) (h : normKw kw = some dkw) (now perf : Rat) :
    tsOf c (sentDict c st dkw now perf) = some now := by
  unfold tsOf sentDict extras
  rw [pget_append_of_not_mem (keys_free h1 h hc.ts)]
  simp [pget]

theorem timeOf_sent (c : Cfg) (hc : CfgOK c) (hat : c.addTime = true) (st : St)
    {kw : List (List Nat × Val)} {dkw : PDict}
    (h1 : hasReserved kw = false) (h : normKw kw = some dkw) (now perf : Rat) :
    timeOf c (sentDict c st dkw now perf) = some (perf - st.start) := by
  unfold timeOf sentDict extras timeEntries
  rw [pget_append_of_not_mem (keys_free h1 h hc.time)]
  simp [pget, hc.time_ts, hat]

/-! ### histories -/

theorem run_cons (c : Cfg) (enc : PDict → List Char) (st : St) (op : Op) (ops : List Op) :
    St.run c enc st (op :: ops) = St.run c enc (St.step c enc st op) ops := rfl

theorem run_invariant (c : Cfg) (enc : PDict → List Char) (I : St → Prop)
    (hstep : ∀ st op, I st → I (St.step c enc st op)) (st : St) (ops : List Op) (h : I st) :
    I (St.run c enc st ops) := by
  induction ops generalizing st with
  | nil => exact h
  | cons op ops ih => rw [run_cons]; exact ih _ (hstep st op h)

theorem call_start (c : Cfg) (enc : PDict → List Char) (st : St) (kw : List (List Nat × Val))
    (now perf : Rat) : (st.call c enc kw now perf).1.start = st.start := by
  rcases call_cases c enc st kw now perf with h | h | h | h | ⟨_, _, _, h⟩ <;> rw [h]

theorem step_start (c : Cfg) (enc : PDict → List Char) (st : St) (op : Op) :
    (St.step c enc st op).start = st.start := by
  cases op with
  | noise n => rfl
  | report kw now perf => exact call_start c enc st kw now perf

/-- counter invariant -/
def CounterInv (c : Cfg) (st : St) : Prop :=
  ∃ is : List Nat, st.segs.map (fun s => iterOf c s.2) = is.map (fun i : Nat => some (i : Int)) ∧
    is.Pairwise (· < ·) ∧ ∀ i ∈ is, i < st.iter

theorem counterInv_step (c : Cfg) (hc : CfgOK c) (enc : PDict → List Char) (st : St) (op : Op)
    (h : CounterInv c st) : CounterInv c (St.step c enc st op) := by
  obtain ⟨is, h1, h2, h3⟩ := h
  cases op with
  | noise n => exact ⟨is, h1, h2, h3⟩
  | report kw now perf =>
    simp only [St.step]
    rcases call_cases c enc st kw now perf with h | h | h | h | ⟨dkw, hr, hn, h⟩ <;> rw [h]
    · exact ⟨is, h1, h2, h3⟩
    · exact ⟨is, h1, h2, h3⟩
    · exact ⟨is, h1, h2, fun i hi => Nat.lt_succ_of_lt (h3 i hi)⟩
    · exact ⟨is, h1, h2, fun i hi => Nat.lt_succ_of_lt (h3 i hi)⟩
    · refine ⟨is ++ [st.iter], ?_, ?_, ?_⟩
      · simp [h1, iterOf_sent c hc st hr hn]
      · rw [List.pairwise_append]
        exact ⟨h2, by simp, fun a ha b hb => by simp at hb; subst hb; exact h3 a ha⟩
      · intro i hi
        rcases List.mem_append.mp hi with hi | hi
        · exact Nat.lt_succ_of_lt (h3 i hi)
        · simp at hi; subst hi; exact Nat.lt_succ_self _

/-- contiguous counter invariant (no serialisation failure so far) -/
def ContigInv (c : Cfg) (st : St) : Prop :=
  st.segs.map (fun s => iterOf c s.2) = (List.range st.iter).map (fun i : Nat => some (i : Int))

theorem contig_run (c : Cfg) (hc : CfgOK c) (enc : PDict → List Char) (ops : List Op) :
    ∀ st, ContigInv c st → serialOK c enc st ops = true → ContigInv c (St.run c enc st ops) := by
  induction ops with
  | nil => intro st h _; exact h
  | cons op ops ih =>
    intro st h hs
    rw [run_cons]
    cases op with
    | noise n => exact ih (st.noise n) h (by simpa [serialOK] using hs)
    | report kw now perf =>
      simp only [serialOK, Bool.and_eq_true, bne_iff_ne, ne_eq] at hs
      obtain ⟨⟨hs1, hs2⟩, hs3⟩ := hs
      apply ih _ _ hs3
      rcases call_cases c enc st kw now perf with h' | h' | h' | h' | ⟨dkw, hr, hn, h'⟩
      · rw [h']; exact h
      · rw [h']; exact h
      · rw [h'] at hs1; exact absurd rfl hs1
      · rw [h'] at hs2; exact absurd rfl hs2
      · rw [h']
        unfold ContigInv at h ⊢
        simp [h, iterOf_sent c hc st hr hn, List.range_succ]

/-- the delivered time stamps are a subsequence of the clock readings -/
theorem ts_run (c : Cfg) (hc : CfgOK c) (enc : PDict → List Char) (ops : List Op) :
    ∀ st, ∃ L : List Rat, (St.run c enc st ops).segs.map (fun s => tsOf c s.2) =
      st.segs.map (fun s => tsOf c s.2) ++ L.map some ∧ L.Sublist (nows ops) := by
  induction ops with
  | nil => intro st; exact ⟨[], by simp [St.run], List.Sublist.refl _⟩
  | cons op ops ih =>
    intro st
    rw [run_cons]
    cases op with
    | noise n =>
      obtain ⟨L, h1, h2⟩ := ih (St.step c enc st (.noise n))
      exact ⟨L, h1, h2⟩
    | report kw now perf =>
      obtain ⟨L, h1, h2⟩ := ih (St.step c enc st (.report kw now perf))
      simp only [St.step] at h1 ⊢
      rcases call_cases c enc st kw now perf with h | h | h | h | ⟨dkw, hr, hn, h⟩
      all_goals rw [h] at h1 ⊢
      · exact ⟨L, h1, List.Sublist.cons _ h2⟩
      · exact ⟨L, h1, List.Sublist.cons _ h2⟩
      · exact ⟨L, h1, List.Sublist.cons _ h2⟩
      · exact ⟨L, h1, List.Sublist.cons _ h2⟩
      · refine ⟨now :: L, ?_, List.Sublist.cons_cons _ h2⟩
        rw [h1]; simp [tsOf_sent c hc st hr hn]

theorem time_run (c : Cfg) (hc : CfgOK c) (hat : c.addTime = true) (enc : PDict → List Char)
    (ops : List Op) :
    ∀ st, ∃ L : List Rat, (St.run c enc st ops).segs.map (fun s => timeOf c s.2) =
      st.segs.map (fun s => timeOf c s.2) ++ L.map (fun p => some (p - st.start)) ∧
      L.Sublist (perfs ops) := by
  induction ops with
  | nil => intro st; exact ⟨[], by simp [St.run], List.Sublist.refl _⟩
  | cons op ops ih =>
    intro st
    rw [run_cons]
    obtain ⟨L, h1, h2⟩ := ih (St.step c enc st op)
    rw [step_start] at h1
    cases op with
    | noise n => exact ⟨L, h1, h2⟩
    | report kw now perf =>
      simp only [St.step] at h1 ⊢
      rcases call_cases c enc st kw now perf with h | h | h | h | ⟨dkw, hr, hn, h⟩
      all_goals rw [h] at h1 ⊢
      · exact ⟨L, h1, List.Sublist.cons _ h2⟩
      · exact ⟨L, h1, List.Sublist.cons _ h2⟩
      · exact ⟨L, h1, List.Sublist.cons _ h2⟩
      · exact ⟨L, h1, List.Sublist.cons _ h2⟩
      · refine ⟨perf :: L, ?_, List.Sublist.cons_cons _ h2⟩
        rw [h1]; simp [timeOf_sent c hc hat st hr hn]

/-! ### marker-freeness of everything between two report lines -/

theorem prefix_of_not_mem {p u b : List Char} {ch : Char} (hc : ch ∉ p) (h : p <+: u ++ ch :: b) :
    p <+: u := by
  by_cases hl : p.length ≤ u.length
  · exact List.prefix_of_prefix_length_le h (List.prefix_append _ _) hl
  · exfalso
    have h1 : u ++ [ch] <+: u ++ ch :: b := ⟨b, by simp⟩
    have : u ++ [ch] <+: p := List.prefix_of_prefix_length_le h1 h (by simp; omega)
    obtain ⟨t, ht⟩ := this
    exact hc (by rw [← ht]; simp)

theorem infix_split_of_not_mem {p : List Char} {ch : Char} (hc : ch ∉ p) (a b : List Char)
    (h : p <:+: a ++ ch :: b) : p <:+: a ∨ p <:+: b := by
  induction a with
  | nil =>
    rcases List.infix_cons_iff.mp h with h | h
    · exact Or.inl (prefix_of_not_mem (u := []) hc h).isInfix
    · exact Or.inr h
  | cons x a ih =>
    rcases List.infix_cons_iff.mp h with h | h
    · exact Or.inl (prefix_of_not_mem (u := x :: a) hc h).isInfix
    · rcases ih h with h | h
      · exact Or.inl (infix_of_suffix_part (a := [x]) h)
      · exact Or.inr h

theorem diagOK_of_B {tag : List Char} (h : diagOKB tag = true) : DiagOK tag := by
  unfold diagOKB at h
  simp only [Bool.and_eq_true, Bool.not_eq_true', List.contains_eq_mem, decide_eq_false_iff_not,
    decide_eq_true_eq] at h
  exact ⟨h.1.1.1, h.1.1.2, h.1.2, h.2⟩

theorem free_append_diagType {tag : List Char} (hd : DiagOK tag) (a : List Char)
    (h : ¬ marker tag <:+: a) : ¬ marker tag <:+: a ++ diagType := by
  intro hi
  have e : diagType = 'T' :: diagType.tail := by decide +kernel
  rw [e] at hi
  rcases infix_split_of_not_mem hd.noT a _ hi with h' | h'
  · exact h h'
  · exact hd.typeTail h'

theorem free_append_diagSize {tag : List Char} (hd : DiagOK tag) (a : List Char)
    (h : ¬ marker tag <:+: a) : ¬ marker tag <:+: a ++ diagSize := by
  intro hi
  have e : diagSize = 'T' :: diagSize.tail := by decide +kernel
  rw [e] at hi
  rcases infix_split_of_not_mem hd.noT a _ hi with h' | h'
  · exact h h'
  · exact hd.sizeTail h'

/-- all chunks are marker-free -/
def FreeInv (tag : List Char) (st : St) : Prop :=
  (∀ s ∈ st.segs, ¬ marker tag <:+: s.1) ∧ ¬ marker tag <:+: st.cur

theorem marker_not_infix_nil (tag : List Char) : ¬ marker tag <:+: [] := by
  intro h
  have := List.infix_nil.mp h
  simp [marker] at this

theorem free_run (c : Cfg) (hd : DiagOK c.tag) (enc : PDict → List Char) (ops : List Op) :
    ∀ st, FreeInv c.tag st → cleanRun c enc st ops → FreeInv c.tag (St.run c enc st ops) := by
  induction ops with
  | nil => intro st h _; exact h
  | cons op ops ih =>
    intro st h hc
    rw [run_cons]
    cases op with
    | noise n =>
      simp only [cleanRun] at hc
      exact ih _ ⟨h.1, hc.1⟩ hc.2
    | report kw now perf =>
      simp only [cleanRun] at hc
      apply ih _ _ hc
      rcases call_cases c enc st kw now perf with h' | h' | h' | h' | ⟨dkw, hr, hn, h'⟩ <;> rw [h']
      · exact h
      · exact h
      · exact ⟨h.1, free_append_diagType hd _ h.2⟩
      · exact ⟨h.1, free_append_diagSize hd _ h.2⟩
      · refine ⟨?_, marker_not_infix_nil _⟩
        intro s hs
        rcases List.mem_append.mp hs with hs | hs
        · exact h.1 s hs
        · simp at hs; subst hs; exact h.2

end SyneTune.Report
