import SyneTune.Lemmas.C14CompDefs
/- C14 composed system: lemmas about the searcher-state model (`SState`) and `nextLevel`. -/
namespace SyneTune.C14Comp
open SyneTune SyneTune.C04K SyneTune.C14 SyneTune.C13Hb

/-! ### `applyAll` -/

theorem applyAll_append (st : SState) (a b : List SCall) :
    st.applyAll (a ++ b) = (match st.applyAll a with | .ok st' => st'.applyAll b | .error e => .error e) := by
  induction a generalizing st with
  | nil => simp [SState.applyAll]
  | cons c cs ih =>
    simp only [List.cons_append, SState.applyAll]
    cases st.apply c with
    | error e => rfl
    | ok s1 => exact ih s1

theorem applyAll_single (st : SState) (c : SCall) : st.applyAll [c] = st.apply c := by
  simp only [SState.applyAll]
  cases st.apply c <;> rfl

/-! ### registering pending evaluations -/

/-- pending list after `register_pending(t, r)` for the levels `rs`, in order -/
def addPend (t : Nat) : List Nat → List (Nat × Nat) → List (Nat × Nat)
  | [], P => P
  | r :: rs, P => addPend t rs (if P.any (fun p => p.1 == t && p.2 == r) then P else P ++ [(t, r)])

theorem isLabeled_pending_irrel (st : SState) (P : List (Nat × Nat)) (t r : Nat) :
    ({ st with pending := P } : SState).isLabeled t r = st.isLabeled t r := rfl

theorem applyAll_pending (st : SState) (t : Nat) (ls : List Nat)
    (h : ∀ r ∈ ls, st.isLabeled t r = false) :
    st.applyAll (ls.map (SCall.pending t)) = .ok { st with pending := addPend t ls st.pending } := by
  induction ls generalizing st with
  | nil => rfl
  | cons r rs ih =>
    have hr : st.isLabeled t r = false := h r (by simp)
    simp only [List.map_cons, SState.applyAll, SState.apply, SState.isPending, hr]
    by_cases hp : st.pending.any (fun p => p.1 == t && p.2 == r) = true
    · simp only [hp, if_true]
      rw [ih st (fun x hx => h x (List.mem_cons_of_mem _ hx))]
      simp [addPend, hp]
    · simp only [hp, Bool.false_eq_true, if_false]
      rw [ih _ (fun x hx => by rw [isLabeled_pending_irrel]; exact h x (List.mem_cons_of_mem _ hx))]
      simp [addPend, hp]

theorem mem_addPend (t : Nat) (ls : List Nat) (P : List (Nat × Nat)) (p : Nat × Nat) :
    p ∈ addPend t ls P ↔ p ∈ P ∨ (p.1 = t ∧ p.2 ∈ ls) := by
  induction ls generalizing P with
  | nil => simp [addPend]
  | cons r rs ih =>
    simp only [addPend]
    rw [ih]
    by_cases hp : P.any (fun p => p.1 == t && p.2 == r) = true
    · simp only [hp, if_true, List.mem_cons]
      constructor
      · rintro (h | ⟨h1, h2⟩)
        · exact Or.inl h
        · exact Or.inr ⟨h1, Or.inr h2⟩
      · rintro (h | ⟨h1, h2 | h2⟩)
        · exact Or.inl h
        · left
          simp only [List.any_eq_true, Bool.and_eq_true, beq_iff_eq] at hp
          obtain ⟨q, hq, hq1, hq2⟩ := hp
          have : p = q := by
            obtain ⟨a, b⟩ := p; obtain ⟨c, d⟩ := q
            simp only at h1 h2 hq1 hq2
            rw [h1, h2, hq1, hq2]
          rw [this]; exact hq
        · exact Or.inr ⟨h1, h2⟩
    · simp only [hp, Bool.false_eq_true, if_false, List.mem_append, List.mem_cons, List.not_mem_nil, or_false]
      constructor
      · rintro ((h | h) | ⟨h1, h2⟩)
        · exact Or.inl h
        · right; rw [h]; exact ⟨rfl, Or.inl rfl⟩
        · exact Or.inr ⟨h1, Or.inr h2⟩
      · rintro (h | ⟨h1, h2 | h2⟩)
        · exact Or.inl (Or.inl h)
        · left; right
          obtain ⟨a, b⟩ := p
          simp only at h1 h2
          rw [h1, h2]
        · exact Or.inr ⟨h1, h2⟩

theorem nodup_addPend (t : Nat) (ls : List Nat) (P : List (Nat × Nat)) (h : P.Nodup) :
    (addPend t ls P).Nodup := by
  induction ls generalizing P with
  | nil => exact h
  | cons r rs ih =>
    simp only [addPend]
    apply ih
    by_cases hp : P.any (fun p => p.1 == t && p.2 == r) = true
    · simp only [hp, if_true]; exact h
    · simp only [hp, Bool.false_eq_true, if_false]
      rw [List.nodup_append]
      refine ⟨h, List.nodup_singleton _, ?_⟩
      intro a ha b hb
      simp only [List.mem_singleton] at hb
      subst hb
      intro hab; subst hab
      apply hp
      simp only [List.any_eq_true, Bool.and_eq_true, beq_iff_eq]
      exact ⟨(t, r), ha, rfl, rfl⟩

/-! ### `dropPending` -/

theorem dropPending_sublist (t r : Nat) (P : List (Nat × Nat)) : (dropPending t r P).Sublist P := by
  induction P with
  | nil => simp [dropPending]
  | cons x xs ih =>
    unfold dropPending
    split
    · exact List.sublist_cons_self _ _
    · exact List.Sublist.cons_cons _ ih

theorem mem_of_mem_dropPending (t r : Nat) (P : List (Nat × Nat)) (p : Nat × Nat)
    (h : p ∈ dropPending t r P) : p ∈ P := (dropPending_sublist t r P).subset h

theorem nodup_dropPending (t r : Nat) (P : List (Nat × Nat)) (h : P.Nodup) : (dropPending t r P).Nodup :=
  (dropPending_sublist t r P).nodup h

theorem not_mem_dropPending (t r : Nat) (P : List (Nat × Nat)) (h : P.Nodup) :
    (t, r) ∉ dropPending t r P := by
  induction P with
  | nil => simp [dropPending]
  | cons x xs ih =>
    rw [List.nodup_cons] at h
    unfold dropPending
    by_cases hx : (x.1 == t && x.2 == r) = true
    · simp only [hx, if_true]
      simp only [Bool.and_eq_true, beq_iff_eq] at hx
      have : x = (t, r) := by obtain ⟨a, b⟩ := x; simp only at hx; rw [hx.1, hx.2]
      rw [← this]; exact h.1
    · simp only [hx, Bool.false_eq_true, if_false, List.mem_cons, not_or]
      refine ⟨?_, ih h.2⟩
      intro he
      apply hx
      rw [← he]; simp

/-! ### labels -/

theorem isLabeled_eq (st : SState) (t r : Nat) :
    st.isLabeled t r = ((alookup t st.observed).bind (alookup r)).isSome := by
  unfold SState.isLabeled
  cases alookup t st.observed <;> rfl

theorem isLabeled_label (st : SState) (t r : Nat) (c : Rat) (t' r' : Nat) :
    (st.label t r c).isLabeled t' r' = (decide (t' = t ∧ r' = r) || st.isLabeled t' r') := by
  rw [isLabeled_eq, isLabeled_eq]
  have h := observation_value st t r 0 t' r'
  -- `observation_value` is stated for `crit v`; redo it for an arbitrary value
  show ((alookup t' (aset t _ st.observed)).bind (alookup r')).isSome = _
  rw [alookup_aset]
  by_cases ht : t' = t
  · subst ht
    simp only [if_true, Option.bind_some, alookup_aset, true_and]
    by_cases hr : r' = r
    · simp [hr]
    · simp only [hr, if_false, decide_false, Bool.false_or]
      cases alookup t' st.observed <;> simp [alookup]
  · simp [ht]

theorem label_pending (st : SState) (t r : Nat) (c : Rat) :
    (st.label t r c).pending = dropPending t r st.pending := rfl

theorem isSome_alookup_adel {β} (k k' : Nat) (l : List (Nat × β)) (h : (alookup k' (adel k l)).isSome = true) :
    (alookup k' l).isSome = true := by
  induction l with
  | nil => simpa [adel] using h
  | cons x xs ih =>
    obtain ⟨a, b⟩ := x
    unfold adel at h
    by_cases hk : k = a
    · simp only [hk, if_true] at h
      unfold alookup
      split
      · rfl
      · exact h
    · simp only [hk, if_false] at h
      unfold alookup at h ⊢
      split
      · rfl
      · rename_i hne
        simp only [hne, if_false] at h
        exact ih h

/-- `remove_case(t, r)` on a state where `(t, r)` is labelled -/
theorem apply_removeCase (st : SState) (t r : Nat) (v : Rat) (h : st.isLabeled t r = true) :
    ∃ st', st.apply (.removeCase t r v) = .ok st' ∧ st'.pending = st.pending ∧
      (∀ t' r', st'.isLabeled t' r' = true → st.isLabeled t' r' = true) ∧
      (∀ t' r', t' ≠ t → st'.isLabeled t' r' = st.isLabeled t' r') := by
  unfold SState.isLabeled at h
  cases hl : alookup t st.observed with
  | none => simp [hl] at h
  | some ms =>
    simp only [hl] at h
    refine ⟨{ st with observed := aset t (adel r ms) st.observed }, ?_, rfl, ?_, ?_⟩
    · simp only [SState.apply, hl]
      have : (alookup r ms).isNone = false := by
        cases hx : alookup r ms with
        | none => simp [hx] at h
        | some x => rfl
      simp [this]
    · intro t' r' h'
      unfold SState.isLabeled at h' ⊢
      simp only at h'
      rw [alookup_aset] at h'
      by_cases ht : t' = t
      · subst ht
        simp only [if_true] at h'
        rw [hl]
        exact isSome_alookup_adel r r' ms h'
      · simp only [ht, if_false] at h'; exact h'
    · intro t' r' ht
      unfold SState.isLabeled
      simp only
      rw [alookup_aset]
      simp [ht]

/-! ### `cleanup_pending` -/

theorem mem_cleanupPending (st : SState) (t : Nat) (p : Nat × Nat) :
    p ∈ (st.cleanupPending t).pending ↔ p ∈ st.pending ∧ p.1 ≠ t := by
  unfold SState.cleanupPending
  simp [List.mem_filter]

theorem nodup_cleanupPending (st : SState) (t : Nat) (h : st.pending.Nodup) :
    (st.cleanupPending t).pending.Nodup := by
  unfold SState.cleanupPending
  exact h.filter _

/-! ### `nextLevel` -/

theorem nextLevel_mem (l d : Nat) (ms : List Nat) : nextLevel l d ms = d ∨ nextLevel l d ms ∈ ms := by
  induction ms generalizing d with
  | nil => exact Or.inl rfl
  | cons x xs ih =>
    unfold nextLevel
    split
    · rcases ih x with h | h
      · right; rw [h]; simp
      · right; exact List.mem_cons_of_mem _ h
    · exact Or.inl rfl

theorem nextLevel_gt (l d : Nat) (ms : List Nat) (hd : l < d) : l < nextLevel l d ms := by
  induction ms generalizing d with
  | nil => exact hd
  | cons x xs ih =>
    unfold nextLevel
    split
    · rename_i hx; exact ih x hx
    · exact hd

/-- a level which is not a milestone does not change the next milestone -/
theorem nextLevel_succ_of_not_mem (l d : Nat) (ms : List Nat) (h : l + 1 ∉ ms) (hd : l + 1 ≠ d) (hld : l < d) :
    nextLevel (l + 1) d ms = nextLevel l d ms := by
  induction ms generalizing d with
  | nil => rfl
  | cons x xs ih =>
    simp only [List.mem_cons, not_or] at h
    unfold nextLevel
    by_cases hx : l < x
    · have hx' : l + 1 < x := by omega
      simp only [hx, hx', if_true]
      exact ih x h.2 h.1 hx
    · have hx' : ¬ l + 1 < x := by omega
      simp only [hx, hx', if_false]

/-- at a milestone level of a decreasing list, the milestone above the previous level is the
level itself -/
theorem nextLevel_pred_of_mem (l d : Nat) (ms : List Nat) (hp : ms.Pairwise (fun a b => b < a))
    (h : l + 1 ∈ ms) : nextLevel l d ms = l + 1 := by
  induction ms generalizing d with
  | nil => simp at h
  | cons x xs ih =>
    rw [List.pairwise_cons] at hp
    unfold nextLevel
    rcases List.mem_cons.mp h with hx | hx
    · subst hx
      simp only [Nat.lt_succ_self, if_true]
      cases xs with
      | nil => rfl
      | cons y ys =>
        unfold nextLevel
        have := hp.1 y (by simp)
        have hy : ¬ l < y := by omega
        simp [hy]
    · have := hp.1 _ hx
      have hlt : l < x := by omega
      simp only [hlt, if_true]
      exact ih x hp.2 hx

/-- in a decreasing list of positive levels, the milestone above 0 is the last element -/
theorem nextLevel_zero (d : Nat) (ms : List Nat) (hpos : ∀ x ∈ ms, 1 ≤ x) :
    nextLevel 0 d ms = (match ms.getLast? with | some x => x | none => d) := by
  induction ms generalizing d with
  | nil => rfl
  | cons x xs ih =>
    have hx : 0 < x := hpos x (by simp)
    unfold nextLevel
    simp only [hx, if_true]
    rw [ih x (fun y hy => hpos y (List.mem_cons_of_mem _ hy))]
    cases xs with
    | nil => rfl
    | cons y ys =>
      rw [List.getLast?_cons_cons]
      have : (y :: ys).getLast? = some ((y :: ys).getLast (by simp)) := List.getLast?_eq_some_getLast (by simp)
      simp only [this]

end SyneTune.C14Comp
