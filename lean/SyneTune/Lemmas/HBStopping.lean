import SyneTune.Model.HB
import SyneTune.Lemmas.Rung
/- Helper lemmas for the stopping rung system (C03). -/
namespace SyneTune

/-- `_rungs` is ordered by strictly decreasing level. -/
def RungsDecr (rs : List Rung) : Prop := rs.Pairwise (fun a b => b.level < a.level)

/-- per-rung invariant: every trial at most once, data sorted best-first. -/
def RungOK (m : Mode) (rg : Rung) : Prop :=
  (rg.data.map (·.tid)).Nodup ∧ SortedBy m rg.data

theorem stopScan_at_rung (m : Mode) (tid r : Nat) (v : Rat) (hint : Bool) (next : Nat)
    (pre post : List Rung) (rg : Rung)
    (hd : RungsDecr (pre ++ rg :: post)) (hl : rg.level = r) (hnc : rg.contains tid = false) :
    (stopScan m tid r v hint next (pre ++ rg :: post)).1
        = pre ++ rg.add m { tid := tid, val := v } :: post ∧
    (stopScan m tid r v hint next (pre ++ rg :: post)).2.reached = true ∧
    (stopScan m tid r v hint next (pre ++ rg :: post)).2.continues
        = (taskContinues m v (rg.add m { tid := tid, val := v }) hint).1 ∧
    (stopScan m tid r v hint next (pre ++ rg :: post)).2.next
        = some (match pre.getLast? with | some p => p.level | none => next) := by
  induction pre generalizing next with
  | nil =>
    simp only [List.nil_append, stopScan, hl, Nat.lt_irrefl, hnc, Bool.false_eq_true, or_self,
      if_false, List.getLast?_nil, and_self]
  | cons p ps ih =>
    have hp : r < p.level := by
      unfold RungsDecr at hd
      rw [List.cons_append, List.pairwise_cons] at hd
      have := hd.1 rg (by simp)
      omega
    have hd' : RungsDecr (ps ++ rg :: post) := by
      unfold RungsDecr at hd ⊢
      rw [List.cons_append, List.pairwise_cons] at hd
      exact hd.2
    have ih' := ih p.level hd'
    simp only [List.cons_append, stopScan, hp, true_or, if_true]
    refine ⟨by rw [ih'.1], ih'.2.1, ih'.2.2.1, ?_⟩
    rw [ih'.2.2.2]
    cases ps with
    | nil => simp
    | cons q qs =>
      have : (q :: qs).getLast? = some ((q :: qs).getLast (by simp)) := List.getLast?_eq_some_getLast (by simp)
      simp [this]

theorem stopScan_off_rung (m : Mode) (tid r : Nat) (v : Rat) (hint : Bool) (next : Nat)
    (rs : List Rung) (h : ∀ rg ∈ rs, rg.level = r → rg.contains tid = true) :
    (stopScan m tid r v hint next rs).1 = rs ∧
    (stopScan m tid r v hint next rs).2.reached = false ∧
    (stopScan m tid r v hint next rs).2.continues = true := by
  induction rs generalizing next with
  | nil => simp [stopScan]
  | cons rg rest ih =>
    have ih' := ih rg.level (fun x hx => h x (List.mem_cons_of_mem _ hx))
    unfold stopScan
    by_cases h1 : r < rg.level ∨ rg.contains tid = true
    · simp only [h1, if_true]
      exact ⟨by rw [ih'.1], ih'.2.1, ih'.2.2⟩
    · simp only [h1, if_false]
      by_cases h2 : rg.level < r
      · simp [h2]
      · exfalso
        have hl : rg.level = r := by omega
        exact h1 (Or.inr (h rg (by simp) hl))

theorem rungOK_add (m : Mode) (rg : Rung) (e : Entry) (h : RungOK m rg)
    (hn : rg.contains e.tid = false) : RungOK m (rg.add m e) := by
  unfold RungOK Rung.add at *
  refine ⟨insertEntry_tids_nodup m e rg.data h.1 ?_, insertEntry_sorted m e rg.data h.2⟩
  intro hc
  have := (contains_iff rg e.tid).mpr hc
  simp [this] at hn

theorem stopScan_preserves_ok (m : Mode) (tid r : Nat) (v : Rat) (hint : Bool) (next : Nat)
    (rs : List Rung) (h : ∀ rg ∈ rs, RungOK m rg) :
    ∀ rg ∈ (stopScan m tid r v hint next rs).1, RungOK m rg := by
  induction rs generalizing next with
  | nil => simp [stopScan]
  | cons rg rest ih =>
    have hrest : ∀ x ∈ rest, RungOK m x := fun x hx => h x (List.mem_cons_of_mem _ hx)
    have hrg : RungOK m rg := h rg (by simp)
    unfold stopScan
    by_cases h1 : r < rg.level ∨ rg.contains tid = true
    · simp only [h1, if_true]
      intro x hx
      rcases List.mem_cons.mp hx with rfl | hx
      · exact hrg
      · exact ih rg.level hrest x hx
    · simp only [h1, if_false]
      by_cases h2 : rg.level < r
      · simp only [h2, if_true]; exact h
      · simp only [h2, if_false]
        intro x hx
        rcases List.mem_cons.mp hx with rfl | hx
        · apply rungOK_add m rg _ hrg
          simp only [not_or, Bool.not_eq_true] at h1
          exact h1.2
        · exact hrest x hx

theorem stopScan_levels (m : Mode) (tid r : Nat) (v : Rat) (hint : Bool) (next : Nat)
    (rs : List Rung) :
    (stopScan m tid r v hint next rs).1.map (·.level) = rs.map (·.level) := by
  induction rs generalizing next with
  | nil => simp [stopScan]
  | cons rg rest ih =>
    unfold stopScan
    by_cases h1 : r < rg.level ∨ rg.contains tid = true
    · simp only [h1, if_true, List.map_cons, ih]
    · simp only [h1, if_false]
      by_cases h2 : rg.level < r
      · simp [h2]
      · simp [h2, Rung.add]

theorem taskContinues_forced (m : Mode) (v : Rat) (rg : Rung) (hint : Bool) (c : Rat) (b : Bool)
    (hc : rg.cutoff m = some c) (hf : cmpNoWorse m v c rg.scale = .forced b) :
    (taskContinues m v rg hint).1 = b := by
  unfold taskContinues; simp [hc, hf, Cmp.resolve]

theorem taskContinues_none (m : Mode) (v : Rat) (rg : Rung) (hint : Bool)
    (hc : rg.cutoff m = none) : (taskContinues m v rg hint).1 = true := by
  unfold taskContinues; simp [hc]

/-- a forced comparison agrees with the exact order -/
theorem cmpLe_forced (a b sc : Rat) (x : Bool) (h : cmpLe a b sc = .forced x) : (x = true ↔ a ≤ b) := by
  unfold cmpLe at h
  split at h
  · cases h
  · injection h with h; subst h; simp

theorem cmpNoWorse_forced (m : Mode) (v c sc : Rat) (x : Bool) (h : cmpNoWorse m v c sc = .forced x) :
    (x = true ↔ m.noWorse v c) := by
  cases m <;> simp only [cmpNoWorse, Mode.noWorse] at * <;> exact cmpLe_forced _ _ _ _ h


/-! ### scheduler wrapper -/

theorem onResultLive_decision (s s' : Sched) (tid r : Nat) (v : Rat) (rec : TrialInfo) (o : RepOut)
    (out : ResOut) (h : s.onResultLive tid r v rec o = .ok (s', out)) :
    out.decision = s.decisionFor r o := by
  dsimp only [Sched.onResultLive] at h
  split at h
  · cases h
  · injection h with h
    injection h with _ h2
    rw [← h2]

theorem afterReport_decision (s s' : Sched) (tid r : Nat) (v : Rat) (rec : TrialInfo) (g : Manager)
    (o : RepOut) (total : Rat) (out : ResOut) (hig : o.ignoreData = false)
    (h : s.afterReport tid r v rec g o total = .ok (s', out)) :
    out.decision = ({ s with mgr := g } : Sched).decisionFor r o := by
  unfold Sched.afterReport at h
  cases hc : s.costOffsetAfter tid total o with
  | error e => simp [hc] at h
  | ok co =>
    simp only [hc, hig, Bool.false_eq_true, if_false] at h
    have := onResultLive_decision _ _ _ _ _ _ _ _ h
    rw [this]; rfl

theorem taskReport_type_maxT (g g' : Manager) (tid r : Nat) (v : Rat) (hint : Bool) (cost eps : Rat)
    (o : RepOut) (h : g.taskReport tid r v hint cost eps = .ok (g', o)) :
    g'.type = g.type ∧ g'.maxT = g.maxT := by
  unfold Manager.taskReport at h
  cases h1 : alookup tid g.taskInfo with
  | none => simp [h1] at h
  | some b =>
    simp only [h1] at h
    cases h2 : g.systems[(g.sysFor b).1]? with
    | none => simp [h2] at h
    | some sys =>
      simp only [h2] at h
      split at h
      · split at h
        · cases h
        · injection h with h
          injection h with ha _
          rw [← ha]; simp [Manager.setSys]
      · injection h with h
        injection h with ha _
        rw [← ha]; simp

end SyneTune
