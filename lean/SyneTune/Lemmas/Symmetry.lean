import SyneTune.Lemmas.Rung
import SyneTune.Lemmas.HBStopping
/- min/max symmetry of the rung machinery (C15). -/
namespace SyneTune

def negE (e : Entry) : Entry := { e with val := -e.val }
def negRung (rg : Rung) : Rung := { rg with data := rg.data.map negE }

theorem absRat_neg (x : ℚ) : absRat (-x) = absRat x := by
  unfold absRat
  by_cases h1 : x < 0
  · have : ¬ (-x < 0) := by linarith
    simp [h1, this]
  · by_cases h2 : -x < 0
    · simp [h1, h2]
    · have : x = 0 := by linarith
      simp [this]

theorem insertEntry_neg (e : Entry) (l : List Entry) :
    insertEntry .max (negE e) (l.map negE) = (insertEntry .min e l).map negE := by
  induction l with
  | nil => simp [insertEntry]
  | cons x xs ih =>
    have hk : Mode.max.key (negE e).val < Mode.max.key (negE x).val ↔ Mode.min.key e.val < Mode.min.key x.val := by
      simp [Mode.key, negE]
    simp only [List.map_cons]
    unfold insertEntry
    by_cases h : Mode.min.key e.val < Mode.min.key x.val
    · have h' := hk.mpr h
      simp only [h, h', if_true, List.map_cons]
    · have h' : ¬ Mode.max.key (negE e).val < Mode.max.key (negE x).val := fun c => h (hk.mp c)
      simp only [h, h', if_false, List.map_cons, ih]

theorem scale_neg (rg : Rung) : (negRung rg).scale = rg.scale := by
  unfold Rung.scale negRung
  simp only [List.map_map]
  congr 1
  apply List.map_congr_left
  intro e _
  simp [negE, absRat_neg]

theorem cmpLe_neg (a b sc : ℚ) : cmpLe (-b) (-a) sc = cmpLe a b sc := by
  unfold cmpLe tol
  have h1 : absRat (-b - -a) = absRat (a - b) := by
    rw [show -b - -a = -(b - a) by ring, absRat_neg]
    rw [show b - a = -(a - b) by ring, absRat_neg]
  have h2 : maxRat (absRat (-b)) (absRat (-a)) = maxRat (absRat a) (absRat b) := by
    rw [absRat_neg, absRat_neg]
    unfold maxRat
    by_cases h : absRat b < absRat a
    · have : ¬ absRat a < absRat b := by linarith
      simp [h, this]
    · by_cases h' : absRat a < absRat b
      · simp [h, h']
      · have : absRat a = absRat b := by linarith
        simp [this]
  rw [h1, h2]
  have h3 : decide (-b ≤ -a) = decide (a ≤ b) := by
    apply decide_eq_decide.mpr; constructor <;> intro h <;> linarith
  rw [h3]

theorem cmpNoWorse_neg (v c sc : ℚ) : cmpNoWorse .max (-v) (-c) sc = cmpNoWorse .min v c sc := by
  simp only [cmpNoWorse]; exact cmpLe_neg v c sc

/-- numpy's linear quantile is odd under negation: `quantile(-X, 1-q) = -quantile(X, q)`. -/
theorem quantileAsc_neg_reverse (xs : List ℚ) (q : ℚ) (hq0 : 0 < q) (hq1 : q < 1) :
    quantileAsc (xs.map (fun x => -x)).reverse (1 - q) = (quantileAsc xs q).map (fun x => -x) := by
  by_cases hn : xs.length < 2
  · simp [quantileAsc, hn]
  · have hn2 : 2 ≤ xs.length := by omega
    rw [quantileAsc_eq _ _ (by simpa using hn2), quantileAsc_eq _ _ hn2]
    simp only [List.length_reverse, List.length_map]
    generalize hk : xs.length - 1 = k
    have hk1 : 1 ≤ k := by omega
    have hkq : (0:ℚ) < k := by exact_mod_cast hk1
    have hlen : xs.length = k + 1 := by omega
    set v := (k:ℚ) * q with hv
    have hv0 : 0 < v := by positivity
    have hv1 : v < k := by rw [hv]; nlinarith
    have hv' : (k:ℚ) * (1 - q) = k - v := by rw [hv]; ring
    rw [hv']
    simp only [rat_floor_eq]
    have hfl0 : (0:ℤ) ≤ ⌊v⌋ := Int.floor_nonneg.mpr (le_of_lt hv0)
    have hflk : ⌊v⌋ < (k:ℤ) := Int.floor_lt.mpr (by exact_mod_cast hv1)
    have hrev : ∀ j, j ≤ k → (xs.map (fun x => -x)).reverse[j]? = (xs[k - j]?).map (fun x => -x) := by
      intro j hj
      rw [List.getElem?_reverse (by simp; omega)]
      simp only [List.length_map, List.getElem?_map]
      congr 2; omega
    by_cases hint : (⌊v⌋ : ℚ) = v
    · -- `v` is an integer
      have hfl' : ⌊(k:ℚ) - v⌋ = (k:ℤ) - ⌊v⌋ := by
        have : ((k:ℚ) - v) = (((k:ℤ) - ⌊v⌋ : ℤ) : ℚ) := by push_cast; rw [hint]
        rw [this, Int.floor_intCast]
      have hpos : (1:ℤ) ≤ ⌊v⌋ := by
        have : (0:ℚ) < (⌊v⌋:ℚ) := by rw [hint]; exact hv0
        have : (0:ℤ) < ⌊v⌋ := by exact_mod_cast this
        omega
      rw [hfl']
      have e1 : ((k:ℤ) - ⌊v⌋).toNat = k - ⌊v⌋.toNat := by omega
      rw [e1]
      unfold interpAt
      rw [hrev _ (by omega), hrev _ (by omega)]
      have i1 : k - (k - ⌊v⌋.toNat) = ⌊v⌋.toNat := by omega
      have i2 : k - (k - ⌊v⌋.toNat + 1) = ⌊v⌋.toNat - 1 := by omega
      rw [i1, i2]
      have hx0 : ⌊v⌋.toNat < xs.length := by omega
      have hx1 : ⌊v⌋.toNat + 1 < xs.length := by omega
      have hxm : ⌊v⌋.toNat - 1 < xs.length := by omega
      rw [List.getElem?_eq_getElem hx0, List.getElem?_eq_getElem hx1, List.getElem?_eq_getElem hxm]
      simp only [Option.map_some]
      have g0 : v - (⌊v⌋:ℚ) = 0 := by rw [hint]; ring
      have g0' : (k:ℚ) - v - (((k:ℤ) - ⌊v⌋ : ℤ):ℚ) = 0 := by push_cast; rw [hint]; ring
      rw [g0, g0']; simp
    · -- `v` is not an integer
      have hlt : (⌊v⌋:ℚ) < v := lt_of_le_of_ne (Int.floor_le v) hint
      have hfl' : ⌊(k:ℚ) - v⌋ = (k:ℤ) - 1 - ⌊v⌋ := by
        rw [Int.floor_eq_iff]
        have h2 := Int.lt_floor_add_one v
        constructor
        · push_cast; linarith
        · push_cast; linarith
      rw [hfl']
      have e1 : ((k:ℤ) - 1 - ⌊v⌋).toNat = k - 1 - ⌊v⌋.toNat := by omega
      rw [e1]
      unfold interpAt
      rw [hrev _ (by omega), hrev _ (by omega)]
      have i1 : k - (k - 1 - ⌊v⌋.toNat) = ⌊v⌋.toNat + 1 := by omega
      have i2 : k - (k - 1 - ⌊v⌋.toNat + 1) = ⌊v⌋.toNat := by omega
      rw [i1, i2]
      have hx0 : ⌊v⌋.toNat < xs.length := by omega
      have hx1 : ⌊v⌋.toNat + 1 < xs.length := by omega
      rw [List.getElem?_eq_getElem hx0, List.getElem?_eq_getElem hx1]
      simp only [Option.map_some, Option.some.injEq]
      have hc : (((⌊v⌋.toNat : ℕ) : ℤ) : ℚ) = (⌊v⌋ : ℚ) := by
        have : ((⌊v⌋.toNat : ℕ) : ℤ) = ⌊v⌋ := Int.toNat_of_nonneg hfl0
        rw [this]
      push_cast
      ring

/-- **`Rung.quantile` is symmetric**: the cutoff of the negated rung in mode max is the
negated cutoff of the rung in mode min. -/
theorem cutoff_neg (rg : Rung) (hq0 : 0 < rg.q) (hq1 : rg.q < 1) :
    (negRung rg).cutoff .max = (rg.cutoff .min).map (fun x => -x) := by
  have h1 := cutoff_max (negRung rg) hq0 hq1
  have h2 := cutoff_min rg hq0 hq1
  rw [h1, h2]
  have : (negRung rg).ascVals .max = ((rg.ascVals .min).map (fun x => -x)).reverse := by
    simp [Rung.ascVals, negRung, negE, List.map_map, Function.comp_def]
  rw [this]
  exact quantileAsc_neg_reverse _ _ hq0 hq1

end SyneTune
