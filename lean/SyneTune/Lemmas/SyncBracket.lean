import SyneTune.Lemmas.SyncTop
/- Well-formedness of one synchronous Hyperband bracket and its preservation by
`next_free_slot` / `on_result`. -/
namespace SyneTune.Sync
open SyneTune

/-- `(size, level)` of every rung of `_rungs`, materialised or not -/
def Bracket.shape (b : Bracket) : List (Nat × Nat) :=
  b.rungs.map (fun r => (r.slots.length, r.level)) ++ b.todo

/-- real trial ids held by the slots of a rung -/
def Rung.ids (r : Rung) : List Nat := r.slots.filterMap (·.tid)

/-- real trial ids of a bracket -/
def Bracket.HasId (b : Bracket) (t : Nat) : Prop := ∃ r ∈ b.rungs, t ∈ r.ids

/-- the rung `next` was built by `get_top_list` from the completed rung `prev`: slot by slot
it holds the id of the top list; a slot created with id `None` may later have received the
result of a new trial, which then occurs in none of the rungs `lower` below. -/
def TopRel (m : Mode) (lower : List Rung) (prev next : Rung) : Prop :=
  ∃ es, entriesOf prev.slots = some es ∧
    (topList es next.slots.length m).length = next.slots.length ∧
    ∀ (p : Nat) (o : Option Nat) (s : Slot),
      (topList es next.slots.length m)[p]? = some o → next.slots[p]? = some s →
      s.tid = o ∨ (o = none ∧ ∀ t, s.tid = some t → s.metric.isSome = true ∧ ∀ r ∈ lower, t ∉ r.ids)

/-- the bracket has a slot which `next_free_slot` can hand out -/
def Bracket.HasFree (b : Bracket) : Prop :=
  ∃ rg, b.rungs[b.current]? = some rg ∧ b.firstFree < rg.slots.length

/-- invariant of a `SynchronousHyperbandBracket` built from the rung system `spec` -/
structure BWF (spec : List (Nat × Nat)) (b : Bracket) : Prop where
  kind : b.kind = .hyperband
  specOk : checkRungs spec = true
  shape : b.shape = spec
  len : b.rungs.length = min (b.current + 1) spec.length
  done : ∀ k r, k < b.current → b.rungs[k]? = some r → ∀ s ∈ r.slots, s.metric.isSome = true
  free : ∀ r, b.rungs[b.current]? = some r → b.firstFree ≤ r.slots.length ∧
            ∀ p s, r.slots[p]? = some s → b.firstFree ≤ p → s.metric = none
  open_ : ∀ r, b.rungs[b.current]? = some r → ∃ s ∈ r.slots, s.metric = none
  top : ∀ k prev next, b.rungs[k]? = some prev → b.rungs[k + 1]? = some next →
            TopRel b.mode (b.rungs.take (k + 1)) prev next
  nodup : ∀ r ∈ b.rungs, r.ids.Nodup
  base : ∀ r, b.rungs[0]? = some r → ∀ x ∈ r.slots, x.tid.isSome = true → x.metric.isSome = true

/-! ### `assert_check_rungs` -/

theorem isDecreasing_adj (l : List Nat) (h : isDecreasing l = true) (k a b : Nat)
    (ha : l[k]? = some a) (hb : l[k + 1]? = some b) : b < a := by
  induction l generalizing k with
  | nil => simp at ha
  | cons x xs ih =>
    cases xs with
    | nil => simp at hb
    | cons y ys =>
      simp only [isDecreasing, Bool.and_eq_true, decide_eq_true_eq] at h
      cases k with
      | zero =>
        simp only [List.getElem?_cons_zero, Option.some.injEq] at ha
        simp only [List.getElem?_cons_succ, List.getElem?_cons_zero, Option.some.injEq] at hb
        omega
      | succ k =>
        exact ih h.2 k (by simpa using ha) (by simpa using hb)

theorem checkRungs_ne_nil (spec : List (Nat × Nat)) (h : checkRungs spec = true) : spec ≠ [] := by
  intro hs; subst hs; simp [checkRungs] at h

theorem checkRungs_size_pos (spec : List (Nat × Nat)) (h : checkRungs spec = true) :
    ∀ r ∈ spec, 1 ≤ r.1 := by
  intro r hr
  simp only [checkRungs, Bool.and_eq_true, List.all_eq_true, decide_eq_true_eq] at h
  exact h.1.2 r hr

theorem checkRungs_decr (spec : List (Nat × Nat)) (h : checkRungs spec = true) (k : Nat) (a b : Nat × Nat)
    (ha : spec[k]? = some a) (hb : spec[k + 1]? = some b) : b.1 < a.1 := by
  simp only [checkRungs, Bool.and_eq_true] at h
  apply isDecreasing_adj _ h.2 k a.1 b.1
  · simp [ha]
  · simp [hb]

/-! ### shape -/

theorem shape_getElem (b : Bracket) (k : Nat) (r : Rung) (h : b.rungs[k]? = some r) :
    b.shape[k]? = some (r.slots.length, r.level) := by
  unfold Bracket.shape
  have hk : k < b.rungs.length := by
    rcases Nat.lt_or_ge k b.rungs.length with h1 | h1
    · exact h1
    · rw [List.getElem?_eq_none h1] at h; cases h
  rw [List.getElem?_append_left (by simpa using hk)]
  simp [h]

theorem shape_todo (b : Bracket) (k : Nat) : b.shape[b.rungs.length + k]? = b.todo[k]? := by
  unfold Bracket.shape
  rw [List.getElem?_append_right (by simp)]
  simp

theorem shape_length (b : Bracket) : b.shape.length = b.numRungs := by
  simp [Bracket.shape, Bracket.numRungs]

/-! ### construction -/

theorem freeRung_ids (size level : Nat) : (freeRung size level).ids = [] := by
  unfold Rung.ids freeRung
  induction size with
  | zero => rfl
  | succ n ih => simp [List.replicate_succ]

theorem mkBracket_wf (mode : Mode) (spec : List (Nat × Nat)) (h : checkRungs spec = true) :
    ∃ b, mkBracket .hyperband mode spec = .ok b ∧ BWF spec b ∧ b.mode = mode ∧ b.HasFree ∧
      b.current = 0 ∧ b.firstFree = 0 ∧ (∀ t, ¬ b.HasId t) ∧ b.isComplete = false := by
  cases spec with
  | nil => exact absurd rfl (checkRungs_ne_nil _ h)
  | cons hd rest =>
    obtain ⟨size, level⟩ := hd
    have hpos : 1 ≤ size := checkRungs_size_pos _ h (size, level) (by simp)
    refine ⟨{ kind := .hyperband, mode := mode, rungs := [freeRung size level], todo := rest },
      ?hmk, ?hwf, ?hmode, ?hfree, ?hcur, ?hff, ?hid, ?hcomp⟩
    case hmk => simp [mkBracket, h]
    case hmode => rfl
    case hcur => rfl
    case hff => rfl
    case hfree => exact ⟨freeRung size level, rfl, by simp [freeRung]; omega⟩
    case hid =>
      rintro t ⟨r, hr, ht⟩
      simp only [List.mem_singleton] at hr; subst hr
      rw [freeRung_ids] at ht; cases ht
    case hcomp => simp [Bracket.isComplete, Bracket.numRungs]
    case hwf =>
      refine ⟨rfl, h, ?_, ?_, ?_, ?_, ?_, ?_, ?_, ?_⟩
      · simp [Bracket.shape, freeRung]
      · simp
      · intro k r hk; simp at hk
      · intro r hr
        simp only [List.getElem?_cons_zero, Option.some.injEq] at hr
        subst hr
        refine ⟨by simp, ?_⟩
        intro p s hs _
        simp only [freeRung] at hs
        have := List.mem_of_getElem? hs
        simp only [List.mem_replicate] at this
        rw [this.2]
      · intro r hr
        simp only [List.getElem?_cons_zero, Option.some.injEq] at hr
        subst hr
        refine ⟨⟨none, none⟩, ?_, by simp⟩
        simp only [freeRung, List.mem_replicate]; exact ⟨by omega, trivial⟩
      · intro k prev next _ hn; simp at hn
      · intro r hr
        simp only [List.mem_singleton] at hr; subst hr
        rw [freeRung_ids]; exact List.nodup_nil
      · intro r hr x hx hxt
        simp only [List.getElem?_cons_zero, Option.some.injEq] at hr
        subst hr
        simp only [freeRung, List.mem_replicate] at hx
        rw [hx.2] at hxt; cases hxt

/-! ### completeness -/

theorem BWF.numRungs_eq {spec b} (hw : BWF spec b) : b.numRungs = spec.length := by
  rw [← shape_length, hw.shape]

theorem BWF.complete_iff {spec b} (hw : BWF spec b) : b.isComplete = true ↔ spec.length ≤ b.current := by
  simp [Bracket.isComplete, hw.numRungs_eq]

theorem BWF.cur_none {spec b} (hw : BWF spec b) (hc : spec.length ≤ b.current) :
    b.rungs[b.current]? = none := by
  apply List.getElem?_eq_none
  rw [hw.len]; omega

theorem BWF.cur_some {spec b} (hw : BWF spec b) (hc : b.current < spec.length) :
    ∃ rg, b.rungs[b.current]? = some rg := by
  have : b.current < b.rungs.length := by rw [hw.len]; omega
  exact ⟨b.rungs[b.current], List.getElem?_eq_getElem this⟩

theorem BWF.hasFree_not_complete {spec b} (hw : BWF spec b) (hf : b.HasFree) : b.isComplete = false := by
  obtain ⟨rg, hrg, _⟩ := hf
  cases hc : b.isComplete with
  | false => rfl
  | true =>
    rw [hw.cur_none (hw.complete_iff.mp hc)] at hrg; cases hrg

/-! ### `next_free_slot` -/

theorem nextFreeSlot_free {b : Bracket} (hc : b.isComplete = false) (rg : Rung) (sl : Slot)
    (hrg : b.rungs[b.current]? = some rg) (hsl : rg.slots[b.firstFree]? = some sl) :
    b.nextFreeSlot = .ok ({ b with firstFree := b.firstFree + 1 },
      some { rungIndex := b.current, level := rg.level, slotIndex := b.firstFree, tid := sl.tid, metric := none }) := by
  simp [Bracket.nextFreeSlot, hc, Bracket.curRung, hrg, hsl]

theorem nextFreeSlot_of_hasFree {spec b} (hw : BWF spec b) (hf : b.HasFree) :
    ∃ rg sl, b.rungs[b.current]? = some rg ∧ rg.slots[b.firstFree]? = some sl ∧
      b.nextFreeSlot = .ok ({ b with firstFree := b.firstFree + 1 },
        some { rungIndex := b.current, level := rg.level, slotIndex := b.firstFree, tid := sl.tid, metric := none }) := by
  have hc := hw.hasFree_not_complete hf
  obtain ⟨rg, hrg, hlt⟩ := hf
  exact ⟨rg, rg.slots[b.firstFree], hrg, List.getElem?_eq_getElem hlt,
    nextFreeSlot_free hc rg _ hrg (List.getElem?_eq_getElem hlt)⟩

theorem nextFreeSlot_of_not_hasFree {spec b} (hw : BWF spec b) (hf : ¬ b.HasFree) :
    b.nextFreeSlot = .ok (b, none) := by
  unfold Bracket.nextFreeSlot
  cases hc : b.isComplete with
  | true => simp
  | false =>
    have hlt : b.current < spec.length := by
      have := hw.complete_iff
      rw [hc] at this
      simp at this; exact this
    obtain ⟨rg, hrg⟩ := hw.cur_some hlt
    have hnone : rg.slots[b.firstFree]? = none := by
      apply List.getElem?_eq_none
      by_contra hcon
      exact hf ⟨rg, hrg, by omega⟩
    simp [Bracket.curRung, hrg, hnone]

/-- handing out a slot keeps the invariant -/
theorem bump_wf {spec b} (hw : BWF spec b) (hf : b.HasFree) :
    BWF spec { b with firstFree := b.firstFree + 1 } := by
  obtain ⟨rg, hrg, hlt⟩ := hf
  refine ⟨hw.kind, hw.specOk, hw.shape, hw.len, hw.done, ?_, hw.open_, hw.top, hw.nodup, hw.base⟩
  intro r hr
  have : r = rg := by
    have h1 : b.rungs[b.current]? = some r := hr
    rw [hrg] at h1; exact (Option.some.inj h1).symm
  subst this
  refine ⟨hlt, ?_⟩
  intro p s hs hp
  exact (hw.free r hrg).2 p s hs (by change b.firstFree + 1 ≤ p at hp; omega)

end SyneTune.Sync
