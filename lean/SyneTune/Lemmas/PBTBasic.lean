import SyneTune.Model.PBT
import Mathlib.Data.List.Nodup
import Mathlib.Data.List.Perm.Basic
import Mathlib.Data.Rat.Floor
import Mathlib.Tactic.Linarith
/-
Helper lemmas for the PBT model (`Model/PBT.lean`): association lists, the stable sort by score,
the candidate list of `_quantiles`, Python slices, `num_trials_in_quantile`.
-/
namespace SyneTune.PBT
open SyneTune

/-! ### association lists -/

def keys {β} (l : List (Nat × β)) : List Nat := l.map (·.1)

theorem alookup_aset_self {β} (k : Nat) (v : β) (l : List (Nat × β)) : alookup k (aset k v l) = some v := by
  induction l with
  | nil => simp [aset, alookup]
  | cons x xs ih =>
    obtain ⟨k', v'⟩ := x
    by_cases h : k = k'
    · simp [aset, alookup, h]
    · simp [aset, alookup, h, ih]

theorem alookup_aset_ne {β} {k k' : Nat} (h : k' ≠ k) (v : β) (l : List (Nat × β)) :
    alookup k' (aset k v l) = alookup k' l := by
  induction l with
  | nil => simp [aset, alookup, h]
  | cons x xs ih =>
    obtain ⟨k₂, v₂⟩ := x
    by_cases h2 : k = k₂
    · subst h2; simp [aset, alookup, h]
    · by_cases h3 : k' = k₂
      · simp [aset, alookup, h2, h3]
      · simp [aset, alookup, h2, h3, ih]

theorem alookup_eq_none_iff {β} (k : Nat) (l : List (Nat × β)) : alookup k l = none ↔ k ∉ keys l := by
  induction l with
  | nil => simp [alookup, keys]
  | cons x xs ih =>
    obtain ⟨k', v'⟩ := x
    by_cases h : k = k'
    · simp [alookup, keys, h]
    · simp only [alookup, h, if_false, ih, keys, List.map_cons, List.mem_cons, not_or]
      tauto

theorem mem_keys_of_alookup {β} {k : Nat} {v : β} {l : List (Nat × β)} (h : alookup k l = some v) : k ∈ keys l := by
  by_contra hc
  rw [← alookup_eq_none_iff] at hc
  rw [hc] at h
  exact nomatch h

theorem mem_of_alookup {β} {k : Nat} {v : β} {l : List (Nat × β)} (h : alookup k l = some v) : (k, v) ∈ l := by
  induction l with
  | nil => simp [alookup] at h
  | cons x xs ih =>
    obtain ⟨k', v'⟩ := x
    by_cases hk : k = k'
    · simp only [alookup, hk, if_true, Option.some.injEq] at h
      subst hk; subst h; exact List.mem_cons_self
    · simp only [alookup, hk, if_false] at h
      exact List.mem_cons_of_mem _ (ih h)

theorem alookup_of_mem {β} {k : Nat} {v : β} {l : List (Nat × β)} (hn : (keys l).Nodup) (h : (k, v) ∈ l) :
    alookup k l = some v := by
  induction l with
  | nil => simp at h
  | cons x xs ih =>
    obtain ⟨k', v'⟩ := x
    simp only [keys, List.map_cons, List.nodup_cons] at hn
    rcases List.mem_cons.mp h with h1 | h1
    · simp only [Prod.mk.injEq] at h1
      simp [alookup, h1.1, h1.2]
    · have hne : k ≠ k' := by
        rintro rfl
        exact hn.1 (List.mem_map.mpr ⟨(k, v), h1, rfl⟩)
      simp only [alookup, hne, if_false]
      exact ih hn.2 h1

theorem keys_aset_of_mem {β} {k : Nat} (v : β) {l : List (Nat × β)} (h : k ∈ keys l) : keys (aset k v l) = keys l := by
  induction l with
  | nil => simp [keys] at h
  | cons x xs ih =>
    obtain ⟨k', v'⟩ := x
    by_cases hk : k = k'
    · simp [aset, keys, hk]
    · have h' : k ∈ keys xs := by
        simp only [keys, List.map_cons, List.mem_cons] at h
        rcases h with h | h
        · exact absurd h hk
        · exact h
      simp only [aset, hk, if_false, keys, List.map_cons, List.cons.injEq, true_and]
      exact ih h'

theorem keys_aset_of_not_mem {β} {k : Nat} (v : β) {l : List (Nat × β)} (h : k ∉ keys l) :
    keys (aset k v l) = keys l ++ [k] := by
  induction l with
  | nil => simp [aset, keys]
  | cons x xs ih =>
    obtain ⟨k', v'⟩ := x
    simp only [keys, List.map_cons, List.mem_cons, not_or] at h
    simp only [aset, h.1, if_false, keys, List.map_cons, List.cons_append, List.cons.injEq, true_and]
    exact ih h.2

theorem nodup_keys_aset {β} (k : Nat) (v : β) (l : List (Nat × β)) (h : (keys l).Nodup) : (keys (aset k v l)).Nodup := by
  by_cases hk : k ∈ keys l
  · rw [keys_aset_of_mem v hk]; exact h
  · rw [keys_aset_of_not_mem v hk]
    exact List.nodup_append.mpr ⟨h, List.nodup_singleton k, by
      intro a ha b hb
      simp only [List.mem_singleton] at hb
      subst hb
      rintro rfl
      exact hk ha⟩

/-! ### the stable sort by score -/

theorem insScore_perm (x : Nat × Rat) (l : List (Nat × Rat)) : (insScore x l).Perm (x :: l) := by
  induction l with
  | nil => exact List.Perm.refl _
  | cons y ys ih =>
    by_cases h : x.2 ≤ y.2
    · simp only [insScore, h, if_true]; exact List.Perm.refl _
    · simp only [insScore, h, if_false]
      exact (List.Perm.cons y ih).trans (List.Perm.swap x y ys)

theorem sortScore_perm (l : List (Nat × Rat)) : (sortScore l).Perm l := by
  induction l with
  | nil => exact List.Perm.refl _
  | cons x xs ih =>
    show (insScore x (sortScore xs)).Perm (x :: xs)
    exact (insScore_perm x _).trans (List.Perm.cons x ih)

theorem insScore_sorted (x : Nat × Rat) (l : List (Nat × Rat)) (h : l.Pairwise (fun a b => a.2 ≤ b.2)) :
    (insScore x l).Pairwise (fun a b => a.2 ≤ b.2) := by
  induction l with
  | nil => simp [insScore]
  | cons y ys ih =>
    rw [List.pairwise_cons] at h
    by_cases hxy : x.2 ≤ y.2
    · simp only [insScore, hxy, if_true]
      refine List.pairwise_cons.mpr ⟨?_, List.pairwise_cons.mpr h⟩
      intro a ha
      rcases List.mem_cons.mp ha with rfl | ha
      · exact hxy
      · exact le_trans hxy (h.1 a ha)
    · simp only [insScore, hxy, if_false]
      refine List.pairwise_cons.mpr ⟨?_, ih h.2⟩
      intro a ha
      rcases List.mem_cons.mp ((insScore_perm x ys).mem_iff.mp ha) with rfl | ha
      · exact le_of_lt (not_le.mp hxy)
      · exact h.1 a ha

theorem sortScore_sorted (l : List (Nat × Rat)) : (sortScore l).Pairwise (fun a b => a.2 ≤ b.2) := by
  induction l with
  | nil => exact List.Pairwise.nil
  | cons x xs ih => exact insScore_sorted x _ ih

/-! ### the candidates of `_quantiles` -/

theorem mem_cands {tr : List (Nat × TState)} {t : Nat} {sc : Rat} :
    (t, sc) ∈ cands tr ↔ ∃ st, (t, st) ∈ tr ∧ st.stopped = false ∧ st.lastScore = some sc := by
  unfold cands
  rw [List.mem_filterMap]
  constructor
  · rintro ⟨⟨t', st⟩, hm, he⟩
    by_cases hs : st.stopped = true
    · simp [hs] at he
    · simp only [hs, Bool.false_eq_true, if_false, Option.map_eq_some_iff, Prod.mk.injEq] at he
      obtain ⟨sc', h1, h2, h3⟩ := he
      subst h2; subst h3
      exact ⟨st, hm, by simpa using hs, h1⟩
  · rintro ⟨st, hm, hs, hsc⟩
    exact ⟨(t, st), hm, by simp [hs, hsc]⟩

theorem cands_keys_sublist (tr : List (Nat × TState)) : ((cands tr).map (·.1)).Sublist (keys tr) := by
  induction tr with
  | nil => simp [cands, keys]
  | cons x xs ih =>
    obtain ⟨t, st⟩ := x
    unfold cands at ih ⊢
    rw [List.filterMap_cons]
    by_cases hs : st.stopped = true
    · simp only [hs, if_true, keys, List.map_cons]
      exact List.Sublist.cons _ ih
    · rcases hsc : st.lastScore with _ | sc
      · simp only [hs, Bool.false_eq_true, if_false, Option.map_none, keys, List.map_cons]
        exact List.Sublist.cons _ ih
      · simp only [hs, Bool.false_eq_true, if_false, Option.map_some, keys, List.map_cons]
        exact List.Sublist.cons_cons _ ih

/-- well-formed state: `_trial_state` is a dict, every trial id is a key once -/
def WF (s : State) : Prop := (keys s.trials).Nodup

theorem sortedIds_perm (s : State) : (sortedIds s).Perm ((cands s.trials).map (·.1)) :=
  (sortScore_perm _).map _

theorem sortedIds_nodup {s : State} (hw : WF s) : (sortedIds s).Nodup :=
  (sortedIds_perm s).nodup_iff.mpr ((cands_keys_sublist s.trials).nodup hw)

/-- the score a trial is sorted by: non-stopped, with a score -/
def Scored (s : State) (t : Nat) (sc : Rat) : Prop :=
  ∃ st, alookup t s.trials = some st ∧ st.stopped = false ∧ st.lastScore = some sc

theorem mem_sorted_iff {s : State} (hw : WF s) {t : Nat} {sc : Rat} :
    (t, sc) ∈ sortScore (cands s.trials) ↔ Scored s t sc := by
  rw [(sortScore_perm _).mem_iff, mem_cands]
  constructor
  · rintro ⟨st, hm, h1, h2⟩; exact ⟨st, alookup_of_mem hw hm, h1, h2⟩
  · rintro ⟨st, hm, h1, h2⟩; exact ⟨st, mem_of_alookup hm, h1, h2⟩

theorem mem_sortedIds {s : State} (hw : WF s) {t : Nat} : t ∈ sortedIds s ↔ ∃ sc, Scored s t sc := by
  unfold sortedIds
  rw [List.mem_map]
  constructor
  · rintro ⟨⟨t', sc⟩, hm, rfl⟩; exact ⟨sc, (mem_sorted_iff hw).mp hm⟩
  · rintro ⟨sc, h⟩; exact ⟨(t, sc), (mem_sorted_iff hw).mpr h, rfl⟩

theorem Scored.unique {s : State} {t : Nat} {a b : Rat} (ha : Scored s t a) (hb : Scored s t b) : a = b := by
  obtain ⟨st, h1, _, h2⟩ := ha
  obtain ⟨st', h1', _, h2'⟩ := hb
  rw [h1] at h1'
  cases h1'
  rw [h2] at h2'
  exact Option.some.inj h2'

/-- every suffix of the sorted id list dominates the matching prefix -/
theorem drop_dominates {s : State} (hw : WF s) (m : Nat) {a b : Nat} {sa sb : Rat}
    (ha : a ∈ (sortedIds s).take m) (hb : b ∈ (sortedIds s).drop m)
    (hsa : Scored s a sa) (hsb : Scored s b sb) : sa ≤ sb := by
  unfold sortedIds at ha hb
  rw [← List.map_take] at ha
  rw [← List.map_drop] at hb
  obtain ⟨⟨a', sa'⟩, hma, rfl⟩ := List.mem_map.mp ha
  obtain ⟨⟨b', sb'⟩, hmb, rfl⟩ := List.mem_map.mp hb
  have h1 : sa' = sa := ((mem_sorted_iff hw).mp (List.mem_of_mem_take hma)).unique hsa
  have h2 : sb' = sb := ((mem_sorted_iff hw).mp (List.mem_of_mem_drop hmb)).unique hsb
  have hp := sortScore_sorted (cands s.trials)
  rw [← List.take_append_drop m (sortScore (cands s.trials)), List.pairwise_append] at hp
  have := hp.2.2 _ hma _ hmb
  simp only at this
  rw [h1, h2] at this
  exact this

/-- in a duplicate-free list, what is not in the suffix is in the prefix -/
theorem mem_take_of_not_mem_drop {α} {l : List α} {m : Nat} {a : α} (h : a ∈ l) (hn : a ∉ l.drop m) : a ∈ l.take m := by
  rw [← List.take_append_drop m l, List.mem_append] at h
  rcases h with h | h
  · exact h
  · exact absurd h hn

/-! ### Python slices -/

theorem sliceLast_eq_drop {α} (l : List α) (k : Int) : ∃ m, sliceLast l k = l.drop m := by
  unfold sliceLast
  split_ifs
  · exact ⟨_, rfl⟩
  · exact ⟨_, rfl⟩

theorem sliceTo_sublist {α} (l : List α) (k : Int) : (sliceTo l k).Sublist l := by
  unfold sliceTo
  split_ifs <;> exact List.take_sublist _ _

theorem sliceLast_sublist {α} (l : List α) (k : Int) : (sliceLast l k).Sublist l := by
  obtain ⟨m, h⟩ := sliceLast_eq_drop l k
  rw [h]; exact List.drop_sublist _ _

/-! ### `num_trials_in_quantile` -/

theorem rat_floor_eq (x : ℚ) : x.floor = ⌊x⌋ := rfl

theorem ceilInt_eq (x : ℚ) : ceilInt x = ⌈x⌉ := by
  unfold ceilInt
  rw [rat_floor_eq, Int.floor_neg, neg_neg]

/-- the guard of `_quantiles`: never more than half of the candidates, whatever the fraction -/
theorem numInQuantile_le_half (f : ℚ) (n : ℕ) (kh : Option ℤ) : 2 * numInQuantile f n kh ≤ (n : ℤ) := by
  unfold numInQuantile
  simp only
  split_ifs with h1 h2 h2
  · have := Nat.div_mul_le_self n 2; push_cast; omega
  · rw [not_lt] at h2
    have : ((2 * (ceilInt ((n : ℚ) * f) - 1) : ℤ) : ℚ) ≤ ((n : ℤ) : ℚ) := by
      push_cast at h2 ⊢; linarith
    exact_mod_cast this
  · have := Nat.div_mul_le_self n 2; push_cast; omega
  · rw [not_lt] at h2
    have : ((2 * ceilInt ((n : ℚ) * f) : ℤ) : ℚ) ≤ ((n : ℤ) : ℚ) := by
      push_cast at h2 ⊢; linarith
    exact_mod_cast this

theorem ceilFree_spec {x : ℚ} (h : ceilFree x = true) : (⌊x⌋ : ℚ) < x ∧ ⌊x⌋ ≠ 0 := by
  unfold ceilFree at h
  simp only [Bool.and_eq_true] at h
  have h1 : x ≠ ((x.floor : ℤ) : ℚ) := of_decide_eq_true h.1.1
  have h2 : x.floor ≠ 0 := of_decide_eq_true h.1.2
  rw [rat_floor_eq] at h1 h2
  exact ⟨lt_of_le_of_ne (Int.floor_le x) (Ne.symm h1), h2⟩

/-- for a non-negative fraction the number is non-negative -/
theorem numInQuantile_nonneg {f : ℚ} (hf : 0 ≤ f) (n : ℕ) (kh : Option ℤ) : 0 ≤ numInQuantile f n kh := by
  have hx : (0 : ℚ) ≤ (n : ℚ) * f := mul_nonneg (Nat.cast_nonneg n) hf
  have hc : 0 ≤ ceilInt ((n : ℚ) * f) := by rw [ceilInt_eq]; exact Int.ceil_nonneg hx
  unfold numInQuantile
  simp only
  split_ifs with h1 h2 h2
  · exact Int.natCast_nonneg _
  · obtain ⟨hlt, hne⟩ := ceilFree_spec h1.1
    have hfl : 0 ≤ ⌊(n : ℚ) * f⌋ := Int.floor_nonneg.mpr hx
    have hpos : 0 < ⌊(n : ℚ) * f⌋ := lt_of_le_of_ne hfl (Ne.symm hne)
    have : ⌊(n : ℚ) * f⌋ + 1 ≤ ⌈(n : ℚ) * f⌉ := by
      have := Int.lt_ceil.mpr hlt
      omega
    rw [ceilInt_eq]; omega
  · exact Int.natCast_nonneg _
  · exact hc

/-- for a positive fraction and at least two candidates the number is at least one -/
theorem numInQuantile_pos {f : ℚ} (hf : 0 < f) {n : ℕ} (hn : 2 ≤ n) (kh : Option ℤ) : 1 ≤ numInQuantile f n kh := by
  have hn0 : (0 : ℚ) < (n : ℚ) := by exact_mod_cast (by omega : 0 < n)
  have hx : (0 : ℚ) < (n : ℚ) * f := mul_pos hn0 hf
  have hc : 1 ≤ ceilInt ((n : ℚ) * f) := by rw [ceilInt_eq]; exact Int.one_le_ceil_iff.mpr hx
  have hhalf : (1 : ℤ) ≤ ((n / 2 : ℕ) : ℤ) := by
    have : 1 ≤ n / 2 := by omega
    exact_mod_cast this
  unfold numInQuantile
  simp only
  split_ifs with h1 h2 h2
  · exact hhalf
  · obtain ⟨hlt, hne⟩ := ceilFree_spec h1.1
    have hfl : 0 ≤ ⌊(n : ℚ) * f⌋ := Int.floor_nonneg.mpr hx.le
    have hpos : 0 < ⌊(n : ℚ) * f⌋ := lt_of_le_of_ne hfl (Ne.symm hne)
    have : ⌊(n : ℚ) * f⌋ + 1 ≤ ⌈(n : ℚ) * f⌉ := by
      have := Int.lt_ceil.mpr hlt
      omega
    rw [ceilInt_eq]; omega
  · exact hhalf
  · exact hc

theorem numInQuantile_zero (n : ℕ) (kh : Option ℤ) : numInQuantile 0 n kh = 0 := by
  have hfree : ceilFree ((n : ℚ) * 0) = false := by
    rw [mul_zero]; decide
  have hc : ceilInt ((n : ℚ) * 0) = 0 := by rw [mul_zero, ceilInt_eq]; simp
  unfold numInQuantile
  simp only [hfree, hc, Bool.false_eq_true, false_and, if_false, Int.cast_zero]
  have : ¬ ((n : ℚ) / 2 < 0) := by
    have : (0 : ℚ) ≤ (n : ℚ) / 2 := div_nonneg (Nat.cast_nonneg n) (by norm_num)
    exact not_lt.mpr this
  simp [this]

end SyneTune.PBT
