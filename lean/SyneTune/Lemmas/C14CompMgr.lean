import SyneTune.Lemmas.C14CompBasic
/- C14 composed system: what the bracket manager's operations change (shape, per-trial view,
rung entries) — `on_task_add`, `on_task_remove`, `on_task_schedule`. -/
namespace SyneTune.C14Comp
open SyneTune SyneTune.C04K SyneTune.C14 SyneTune.C13Hb

/-- the part of the manager no operation changes -/
def shape (g : Manager) : HBType × Mode × Nat × List Nat × Bool × List (Nat × List Nat) :=
  (g.type, g.mode, g.maxT, g.rungLevels, g.perBracket, g.systems.map sig)

theorem shape_fields {g g' : Manager} (h : shape g' = shape g) :
    g'.type = g.type ∧ g'.mode = g.mode ∧ g'.maxT = g.maxT ∧ g'.rungLevels = g.rungLevels ∧
    g'.perBracket = g.perBracket ∧ g'.systems.map sig = g.systems.map sig := by
  simp only [shape, Prod.mk.injEq] at h
  exact h

theorem MgrWF_of_shape {g g' : Manager} (h : shape g' = shape g) (hw : MgrWF g) : MgrWF g' := by
  obtain ⟨_, _, h3, h4, _, h6⟩ := shape_fields h
  unfold MgrWF at *
  rw [h3, h4, h6]; exact hw

theorem sysFor_of_shape {g g' : Manager} (h : shape g' = shape g) (b : Nat) : g'.sysFor b = g.sysFor b := by
  obtain ⟨_, _, _, _, h5, _⟩ := shape_fields h
  unfold Manager.sysFor; rw [h5]

theorem map_set_same {α β} (f : α → β) (l : List α) (i : Nat) (a b : α) (h : l[i]? = some a) (hf : f b = f a) :
    (l.set i b).map f = l.map f := by
  rw [List.map_set]
  apply List.ext_getElem?
  intro k
  rw [List.getElem?_set]
  split
  · rename_i hik
    subst hik
    simp only [List.length_map, List.getElem?_map, h, Option.map_some, hf]
    have := (List.getElem?_eq_some_iff.mp h).1
    simp [this]
  · rfl

theorem milestones_of_sig (sys : RungSys) (skip : Nat) :
    sys.milestones skip = (sig sys).2.take ((sig sys).2.length - skip) := by
  simp [RungSys.milestones, milestoneRungs, sig, List.map_take]

theorem milestones_congr {a b : RungSys} (h : sig b = sig a) (skip : Nat) :
    b.milestones skip = a.milestones skip := by
  rw [milestones_of_sig, milestones_of_sig, h]

/-- facts `MgrWF` gives about one rung system -/
theorem MgrWF_sys {g : Manager} (hw : MgrWF g) {sys : RungSys} (hs : sys ∈ g.systems) :
    sys.maxT = g.maxT ∧ RungsDecr sys.rungs ∧ ∀ rg ∈ sys.rungs, 1 ≤ rg.level ∧ rg.level < g.maxT ∧ rg.level ∈ g.rungLevels := by
  obtain ⟨h1, h2, h3⟩ := hw.2.2 (sig sys) (List.mem_map_of_mem hs)
  refine ⟨h1, ?_, ?_⟩
  · unfold RungsDecr
    simp only [sig, List.pairwise_map] at h2
    exact h2
  · intro rg hrg
    exact h3 rg.level (List.mem_map_of_mem hrg)

theorem mem_milestones {sys : RungSys} {skip x : Nat} (h : x ∈ sys.milestones skip) :
    ∃ rg ∈ sys.rungs, rg.level = x := by
  simp only [RungSys.milestones, milestoneRungs, List.mem_map] at h
  obtain ⟨rg, h1, h2⟩ := h
  exact ⟨rg, List.mem_of_mem_take h1, h2⟩

theorem milestones_decr {sys : RungSys} (hd : RungsDecr sys.rungs) (skip : Nat) :
    (sys.milestones skip).Pairwise (fun a b => b < a) := by
  simp only [RungSys.milestones, milestoneRungs, List.pairwise_map]
  exact hd.sublist (List.take_sublist _ _)

/-! ### the per-trial view -/

theorem trialView_eq (g : Manager) (t : Nat) :
    trialView g t = (alookup t g.taskInfo).bind fun b =>
      (g.systems[(g.sysFor b).1]?).map fun sys => (alookup t sys.running, sys.milestones (g.sysFor b).2) := by
  unfold trialView
  cases alookup t g.taskInfo with
  | none => rfl
  | some b =>
    simp only [Option.bind_some]
    cases g.systems[(g.sysFor b).1]? <;> rfl

/-- the view of `t` is unchanged when `_task_info[t]` is and one rung system is replaced by
one with the same `_running[t]` and the same levels -/
theorem trialView_set (g g' : Manager) (t i : Nat) (sys sys' : RungSys)
    (hsh : g'.perBracket = g.perBracket) (hinfo : alookup t g'.taskInfo = alookup t g.taskInfo)
    (hs : g.systems[i]? = some sys) (hset : g'.systems = g.systems.set i sys')
    (hr : alookup t sys'.running = alookup t sys.running) (hsig : sig sys' = sig sys) :
    trialView g' t = trialView g t := by
  rw [trialView_eq, trialView_eq, hinfo]
  cases alookup t g.taskInfo with
  | none => rfl
  | some b =>
    simp only [Option.bind_some]
    have hsf : g'.sysFor b = g.sysFor b := by unfold Manager.sysFor; rw [hsh]
    rw [hsf, hset, List.getElem?_set]
    split
    · rename_i hik
      subst hik
      have hlt := (List.getElem?_eq_some_iff.mp hs).1
      simp only [hlt, if_true, hs, Option.map_some, hr, milestones_congr hsig]
    · rfl

theorem trialView_same_systems (g g' : Manager) (t : Nat)
    (hsh : g'.perBracket = g.perBracket) (hinfo : alookup t g'.taskInfo = alookup t g.taskInfo)
    (hsys : g'.systems = g.systems) : trialView g' t = trialView g t := by
  rw [trialView_eq, trialView_eq, hinfo, hsys]
  have hsf : ∀ b, g'.sysFor b = g.sysFor b := fun b => by unfold Manager.sysFor; rw [hsh]
  simp only [hsf]

theorem milestoneOf_congr {g g' : Manager} (hs : shape g' = shape g) {t : Nat}
    (hv : trialView g' t = trialView g t) (l : Nat) : milestoneOf g' t l = milestoneOf g t l := by
  obtain ⟨h1, _, h3, _, _, _⟩ := shape_fields hs
  unfold milestoneOf
  rw [hv, h1, h3]

theorem resumedBelow_congr {g g' : Manager} (hs : shape g' = shape g) {t : Nat}
    (hv : trialView g' t = trialView g t) (r : Nat) : resumedBelow g' t r = resumedBelow g t r := by
  obtain ⟨h1, _, h3, _, _, _⟩ := shape_fields hs
  unfold resumedBelow
  rw [hv, h1, h3]

/-! ### entries -/

theorem EntIn_set {ss : List RungSys} {i : Nat} {sys sys' : RungSys} (_hs : ss[i]? = some sys)
    {L : Nat} {e : Entry} (h : EntIn (ss.set i sys') L e) :
    EntIn ss L e ∨ ∃ rg ∈ sys'.rungs, rg.level = L ∧ e ∈ rg.data := by
  obtain ⟨y, hy, rg, hrg, hl, he⟩ := h
  rcases mem_set_cases _ _ _ _ hy with rfl | hm
  · exact Or.inr ⟨rg, hrg, hl, he⟩
  · exact Or.inl ⟨y, hm, rg, hrg, hl, he⟩

theorem EntIn_set_same_rungs {ss : List RungSys} {i : Nat} {sys sys' : RungSys} (hs : ss[i]? = some sys)
    (hr : sys'.rungs = sys.rungs) {L : Nat} {e : Entry} (h : EntIn (ss.set i sys') L e) : EntIn ss L e := by
  rcases EntIn_set hs h with h | ⟨rg, hrg, hl, he⟩
  · exact h
  · rw [hr] at hrg
    exact ⟨sys, List.mem_of_getElem? hs, rg, hrg, hl, he⟩

/-! ### `on_task_remove` -/

theorem taskRemove_effect (g : Manager) (tid : Nat) :
    shape (g.taskRemove tid) = shape g ∧
    (∀ t, t ≠ tid → trialView (g.taskRemove tid) t = trialView g t) ∧
    (∀ L e, EntIn (g.taskRemove tid).systems L e → EntIn g.systems L e) := by
  unfold Manager.taskRemove
  cases hb : alookup tid g.taskInfo with
  | none => exact ⟨rfl, fun _ _ => rfl, fun _ _ h => h⟩
  | some b =>
    simp only
    unfold delRunningAt
    cases hs : g.systems[(g.sysFor b).1]? with
    | none =>
      simp only
      refine ⟨rfl, ?_, fun _ _ h => h⟩
      intro t ht
      exact trialView_same_systems g _ t rfl (alookup_adel_ne _ _ _ ht) rfl
    | some sys =>
      simp only
      refine ⟨?_, ?_, ?_⟩
      · simp only [shape, Prod.mk.injEq, true_and]
        exact map_set_same sig _ _ sys _ hs rfl
      · intro t ht
        exact trialView_set g _ t _ sys _ rfl (alookup_adel_ne _ _ _ ht) hs rfl (alookup_adel_ne _ _ _ ht) rfl
      · intro L e h
        exact EntIn_set_same_rungs (sys' := { sys with running := adel tid sys.running }) hs rfl h

/-! ### `on_task_add` -/

theorem firstMilestone_eq (sys : RungSys) (skip : Nat) :
    sys.firstMilestone skip = sys.firstOfList skip sys.maxT := by
  unfold RungSys.firstMilestone RungSys.firstOfList RungSys.milestones milestoneRungs
  by_cases h : skip < sys.rungs.length
  · simp only [h, if_true]
    have hlen : (sys.rungs.take (sys.rungs.length - skip)).length = sys.rungs.length - skip := by
      simp
    have hne : sys.rungs.length - skip ≠ 0 := by omega
    rw [List.getLast?_eq_getElem?, List.length_map, hlen, List.getElem?_map, List.getElem?_take]
    have h1 : sys.rungs.length - (skip + 1) < sys.rungs.length - skip := by omega
    have h2 : sys.rungs.length - skip - 1 = sys.rungs.length - (skip + 1) := by omega
    simp only [h2, h1, if_true]
    cases sys.rungs[sys.rungs.length - (skip + 1)]? <;> rfl
  · simp only [h, if_false]
    have : sys.rungs.length - skip = 0 := by omega
    simp [this]

/-- the first milestone of a bracket is a rung level (positive) or `max_t` -/
theorem firstOfList_props {g : Manager} (hw : MgrWF g) {sys : RungSys} (hs : sys ∈ g.systems) (skip : Nat) :
    1 ≤ sys.firstOfList skip g.maxT ∧
    (sys.firstOfList skip g.maxT = g.maxT ∨ sys.firstOfList skip g.maxT ∈ g.rungLevels) := by
  obtain ⟨_, _, h3⟩ := MgrWF_sys hw hs
  unfold RungSys.firstOfList
  cases hl : (sys.milestones skip).getLast? with
  | none => exact ⟨hw.1, Or.inl rfl⟩
  | some x =>
    obtain ⟨rg, hrg, rfl⟩ := mem_milestones (List.mem_of_getLast? hl)
    exact ⟨(h3 rg hrg).1, Or.inr (h3 rg hrg).2.2⟩

theorem taskAdd_effect (g g' : Manager) (tid bracket : Nat) (resume : Option (Nat × Nat)) (first : Nat)
    (h : g.taskAdd tid bracket resume = .ok (g', first)) (hw : MgrWF g) :
    shape g' = shape g ∧
    (∀ t, t ≠ tid → trialView g' t = trialView g t) ∧
    (∀ L e, EntIn g'.systems L e → EntIn g.systems L e) ∧
    (resume = none → milestoneOf g' tid 0 = first ∧ 1 ≤ first ∧ (first = g.maxT ∨ first ∈ g.rungLevels)) ∧
    (∀ mr, resume = some mr → g.type.pauseResume = true → mr.2 < mr.1 ∧ ∀ l, milestoneOf g' tid l = mr.1) := by
  unfold Manager.taskAdd at h
  cases hs : g.systems[(g.sysFor bracket).1]? with
  | none => simp [hs] at h
  | some sys =>
    simp only [hs] at h
    cases ha : sys.taskAdd g.type.pauseResume tid (g.sysFor bracket).2 resume with
    | error e => simp [ha] at h
    | ok sys' =>
      simp only [ha] at h
      injection h with h
      simp only [Prod.mk.injEq] at h
      obtain ⟨h1, h2⟩ := h
      subst h1
      have hmem : sys ∈ g.systems := List.mem_of_getElem? hs
      obtain ⟨w1, w2, w3⟩ := MgrWF_sys hw hmem
      -- what `rung_sys.on_task_add` does
      have hsys : sys'.rungs = sys.rungs ∧ sys'.maxT = sys.maxT ∧
          (∀ t, t ≠ tid → alookup t sys'.running = alookup t sys.running) ∧
          (g.type.pauseResume = true → resume = none →
            alookup tid sys'.running = some (sys.firstMilestone (g.sysFor bracket).2, none)) ∧
          (g.type.pauseResume = true → ∀ mr, resume = some mr →
            mr.2 < mr.1 ∧ alookup tid sys'.running = some (mr.1, some mr.2)) := by
        unfold RungSys.taskAdd at ha
        by_cases hpr : g.type.pauseResume = true
        · simp only [hpr, if_true] at ha
          cases resume with
          | none =>
            simp only at ha
            injection ha with ha; subst ha
            exact ⟨rfl, rfl, fun t ht => alookup_aset_ne _ _ _ _ ht, fun _ _ => C14_alookup_aset_self _ _ _,
              fun _ mr hmr => (by cases hmr)⟩
          | some mr =>
            simp only at ha
            split at ha
            · cases ha
            · rename_i hlt
              injection ha with ha; subst ha
              exact ⟨rfl, rfl, fun t ht => alookup_aset_ne _ _ _ _ ht, fun _ hn => (by cases hn),
                fun _ mr' hmr => (by injection hmr with hmr; subst hmr
                                     exact ⟨by simpa using hlt, C14_alookup_aset_self _ _ _⟩)⟩
        · simp only [hpr, Bool.false_eq_true, if_false] at ha
          injection ha with ha; subst ha
          exact ⟨rfl, rfl, fun _ _ => rfl, fun hp => absurd hp hpr, fun hp => absurd hp hpr⟩
      obtain ⟨s1, s2, s3, s4, s5⟩ := hsys
      have hsig : sig sys' = sig sys := by simp [sig, s1, s2]
      have hshape : shape ((({ g with taskInfo := aset tid bracket g.taskInfo } : Manager).setSys (g.sysFor bracket).1 sys')) = shape g := by
        simp only [shape, Manager.setSys, Prod.mk.injEq, true_and]
        exact map_set_same sig _ _ sys _ hs hsig
      -- the view of `tid` itself
      have hview : trialView ((({ g with taskInfo := aset tid bracket g.taskInfo } : Manager).setSys (g.sysFor bracket).1 sys')) tid
          = some (alookup tid sys'.running, sys.milestones (g.sysFor bracket).2) := by
        rw [trialView_eq]
        simp only [Manager.setSys, C14_alookup_aset_self, Option.bind_some]
        have hsf : ({ g with taskInfo := aset tid bracket g.taskInfo, systems := g.systems.set (g.sysFor bracket).1 sys' } : Manager).sysFor bracket
            = g.sysFor bracket := rfl
        rw [hsf, getElem?_set_self' _ _ sys sys' hs]
        simp only [Option.map_some, milestones_congr hsig]
      refine ⟨hshape, ?_, ?_, ?_, ?_⟩
      · intro t ht
        exact trialView_set g _ t _ sys sys' rfl (alookup_aset_ne _ _ _ _ ht) hs rfl (s3 t ht) hsig
      · intro L e he
        exact EntIn_set_same_rungs hs s1 he
      · intro hres
        obtain ⟨p1, p2⟩ := firstOfList_props hw hmem (g.sysFor bracket).2
        have hfirst : first = sys.firstOfList (g.sysFor bracket).2 g.maxT := by
          rw [← h2]
          unfold RungSys.firstOfList
          rw [milestones_congr hsig]
        refine ⟨?_, hfirst ▸ p1, hfirst ▸ p2⟩
        unfold milestoneOf
        rw [hview]
        simp only
        by_cases hpr : g.type.pauseResume = true
        · have : ((({ g with taskInfo := aset tid bracket g.taskInfo } : Manager).setSys (g.sysFor bracket).1 sys')).type.pauseResume = true := hpr
          simp only [this, if_true, s4 hpr hres]
          rw [hfirst, firstMilestone_eq, w1]
        · have : ¬ ((({ g with taskInfo := aset tid bracket g.taskInfo } : Manager).setSys (g.sysFor bracket).1 sys')).type.pauseResume = true := hpr
          simp only [this]
          rw [hfirst]
          have hpos : ∀ x ∈ sys.milestones (g.sysFor bracket).2, 1 ≤ x := by
            intro x hx
            obtain ⟨rg, hrg, rfl⟩ := mem_milestones hx
            exact (w3 rg hrg).1
          have := nextLevel_zero g.maxT _ hpos
          simp only [Manager.setSys]
          rw [this]; rfl
      · intro mr hres hpr
        refine ⟨(s5 hpr mr hres).1, ?_⟩
        intro l
        unfold milestoneOf
        rw [hview]
        have : ((({ g with taskInfo := aset tid bracket g.taskInfo } : Manager).setSys (g.sysFor bracket).1 sys')).type.pauseResume = true := hpr
        simp only [this, if_true, (s5 hpr mr hres).2]

end SyneTune.C14Comp
