import SyneTune.Lemmas.C14CompResultA
import SyneTune.Lemmas.C14CompReport2
/- C14 composed system: the invariant under `on_trial_result`, and acceptance of the
searcher calls it issues. -/
namespace SyneTune.C14Comp
open SyneTune SyneTune.C04K SyneTune.C14 SyneTune.C13Hb

theorem EntIn_unpromoted {ss : List RungSys} {L : Nat} {e : Entry} (h : EntIn ss L e)
    (hp : e.promoted = false) : e.tid ∈ unpromotedSys ss := by
  obtain ⟨sys, hs, rg, hrg, _, he⟩ := h
  simp only [unpromotedSys, unpromotedOf, Rung.unpromoted, List.mem_flatMap, List.mem_map, List.mem_filter]
  exact ⟨sys, hs, rg, hrg, e, ⟨he, by simp [hp]⟩, rfl⟩

theorem decisionFor_continue (s : Sched) (r : Nat) (o : RepOut) :
    s.decisionFor r o = .continue ↔ o.continues = true := by
  unfold Sched.decisionFor
  by_cases hc : o.continues = true
  · simp [hc]
  · simp only [hc, Bool.false_eq_true, if_false, iff_false]
    split <;> simp

theorem opStep_result (s : Sched) (t r : Nat) (v : Rat) (hint : Bool) (c e : Rat) :
    opStep s (.result t r v hint c e) =
      match s.onResult t r v hint c e with | .ok res => (res.1, res.2.calls) | .error _ => (s, []) := rfl

/-- the scheduler after a live report, as an update of the reporting trial's record -/
theorem liveSched_upd1 (s : Sched) (g : Manager) (co : List (Nat × Rat)) (t r : Nat) (v : Rat) (rec : TrialInfo)
    (o : RepOut) (eff : RepEff s.mgr g t r o) (recA : TrialInfo)
    (hA : (rec.afterReport r v o (({ s with mgr := g, costOffset := co } : Sched).updateSearcher t r v o rec).1).2 = recA)
    (hAd : recA.decision = .continue) :
    Upd1 s (liveSched s g co t r v rec o) t
      (some { recA with decision := ({ s with mgr := g, costOffset := co } : Sched).decisionFor r o }) ∧
    (∀ L e, EntIn (liveSched s g co t r v rec o).mgr.systems L e → EntIn g.systems L e) ∧
    (o.continues = true → (liveSched s g co t r v rec o).mgr = g) := by
  unfold liveSched
  simp only [hA]
  by_cases hc : o.continues = true
  · simp only [hc, if_true]
    have hd : ({ s with mgr := g, costOffset := co } : Sched).decisionFor r o = .continue :=
      (decisionFor_continue _ r o).mpr hc
    rw [hd]
    have : ({ recA with decision := .continue } : TrialInfo) = recA := by
      cases recA; simp only at hAd; subst hAd; rfl
    rw [this]
    exact ⟨⟨fun t' => alookup_aset _ _ _ _, eff.shape, rfl, fun t' _ => eff.view t'⟩, fun L e he => he,
      fun _ => trivial⟩
  · simp only [hc, Bool.false_eq_true, if_false]
    have u2 := cleanup_upd1 ({ s with mgr := g, costOffset := co, active := aset t recA s.active } : Sched) t
      (({ s with mgr := g, costOffset := co } : Sched).decisionFor r o)
    obtain ⟨_, _, e3⟩ := taskRemove_effect g t
    refine ⟨⟨?_, u2.shape.trans eff.shape, rfl, fun t' ht' => (u2.view t' ht').trans (eff.view t')⟩,
      fun L e he => e3 L e he, (by intro h; first | exact absurd h hc | cases h)⟩
    intro t'
    rw [u2.act]
    simp only [C14_alookup_aset_self, Option.map_some]
    by_cases he : t' = t
    · simp [he]
    · simp only [he, if_false]; exact alookup_aset_ne _ _ _ _ he

/-- the trial's record after a report at level `r` which is taken into account -/
def recAfter (rec : TrialInfo) (r : Nat) (v : Rat) (o : RepOut) (doU : Bool) (d : Decision) : TrialInfo :=
  { rec with decision := d, reported := some (v, r), keepCase := o.reached, largestUpdate := (if doU then some r else rec.largestUpdate) }

theorem applyAll_update_false (st : SState) (t r : Nat) (v : Rat) :
    st.applyAll [SCall.update t r v false] = .ok st := by
  simp [SState.applyAll, SState.apply]

/-- **`on_trial_result`**: the invariant is preserved and the searcher accepts every call
(`remove_case` finds its case, `register_pending` is never for an observed level) -/
theorem cinv_result (y : Sys) (t r : Nat) (v : Rat) (hint : Bool) (c e : Rat) (h : CInv y)
    (hok : OpOK y (.result t r v hint c e)) :
    CInv (stepC y (.result t r v hint c e)) ∧
    ∃ st', y.st.applyAll (opStep y.sched (.result t r v hint c e)).2 = .ok st' := by
  unfold stepC
  rw [opStep_result]
  cases honr : y.sched.onResult t r v hint c e with
  | error err => exact ⟨by simpa [SState.applyAll] using h, ⟨y.st, rfl⟩⟩
  | ok res =>
    obtain ⟨s', out⟩ := res
    simp only
    obtain ⟨rec, hrec, hcs⟩ := onResult_cases y.sched s' t r v hint c e out honr
    have hkinv : y.sched.mgr.type.pauseResume = true → KInv s' :=
      fun hpr => onResult_KInv y.sched s' t r v hint c e out (h.kinv hpr) honr
    rcases hcs with ⟨_, rfl, hcalls, _⟩ | ⟨hcont, g, o, co, htr, hcs⟩
    · -- report of a trial which is not running: passed on with `update=False`
      rw [hcalls, applyAll_update_false]
      exact ⟨h, _, rfl⟩
    · have eff := taskReport_eff y.sched.mgr g t r v hint _ e o htr
      have hmono0 : ∀ rec0, alookup t y.sched.active = some rec0 →
          ∃ rec', some rec = some rec' ∧ lastRep rec0 ≤ lastRep rec' := by
        intro rec0 hr0; rw [hrec] at hr0; injection hr0 with hr0; subst hr0
        exact ⟨_, rfl, Nat.le_refl _⟩
      rcases hcs with ⟨hig, rfl, hcalls, _⟩ | ⟨hig, _, hcalls, _, rfl⟩
      · -- ignored report of a resumed trial: only the manager's PASHA fields / cost offsets change
        rw [hcalls]
        refine ⟨?_, y.st, rfl⟩
        simp only [SState.applyAll]
        have hpr : y.sched.mgr.type.pauseResume = true := by
          have := eff.ignore
          rw [hig] at this
          unfold resumedBelow at this
          cases hp : y.sched.mgr.type.pauseResume with
          | true => rfl
          | false => rw [hp] at this; simp at this
        obtain ⟨hnr, _⟩ := taskReport_ign y.sched.mgr g t r v hint _ e o htr (h.kinv hpr).runok hig
        have u : Upd1 y.sched { y.sched with mgr := g, costOffset := co } t (some rec) := by
          refine ⟨?_, eff.shape, rfl, fun t' _ => eff.view t'⟩
          intro t'
          by_cases he : t' = t
          · simp [he, hrec]
          · simp [he]
        have hents : ∀ L e0, EntIn g.systems L e0 → EntIn y.sched.mgr.systems L e0 := by
          intro L e0 he0
          rcases eff.ents L e0 he0 with h1 | ⟨h1, _⟩
          · exact h1
          · rw [hnr] at h1; cases h1
        refine ⟨MgrWF_of_shape eff.shape h.wf, fun _ => hkinv hpr, ?_, ?_, ?_, h.pnd, ?_, h.owf, ?_, ?_⟩
        · apply EntOK_upd1 u h.ent hmono0
          · intro L e0 he0; exact Or.inl ⟨e0, hents L e0 he0, rfl, fun hp => hp⟩
          · intro hp L e0 he0 ht hpe rec' hr'
            injection hr' with hr'; subst hr'
            obtain ⟨rec0, k1, _, k3⟩ := h.ent L e0 he0
            rw [ht, hrec] at k1; injection k1 with k1; subst k1
            exact k3 hp hpe
        · apply RunningOK_upd1 u h.run
          intro rec' hr' hd
          injection hr' with hr'; subst hr'
          show lastRep rec < milestoneOf g t (lastRep rec) ∧
            (milestoneOf g t (lastRep rec) = g.maxT ∨ milestoneOf g t (lastRep rec) ∈ g.rungLevels)
          rw [milestoneOf_congr eff.shape (eff.view t), (shape_fields eff.shape).2.2.1, (shape_fields eff.shape).2.2.2.1]
          exact h.run t rec hrec hd
        · apply UpdOK_upd1 u h.upd
          intro rec' hr' l hl
          injection hr' with hr'; subst hr'
          exact h.upd t rec hrec l hl
        · apply PendOK_upd1 (y := y) (y' := ⟨_, _⟩) u h.pend
          · intro p hp _; exact hp
          · intro p hp he
            obtain ⟨rec0, k1, k2, k3, k4, k5⟩ := h.pend p hp
            rw [he, hrec] at k1; injection k1 with k1; subst k1
            refine ⟨rec, rfl, k2, k3, ?_, ?_⟩
            · show p.2 ≤ milestoneOf g t (lastRep rec)
              rw [milestoneOf_congr eff.shape (eff.view t), ← he]; exact k4
            · show y.sched.searcherData = .rungs → p.2 = milestoneOf g t (lastRep rec)
              rw [milestoneOf_congr eff.shape (eff.view t), ← he]; exact k5
        · apply ObsOK_upd1 (y := y) (y' := ⟨_, _⟩) u h.obs hmono0
          intro t' r' hl; exact Or.inl hl
        · apply LastOK_upd1 (y := y) (y' := ⟨_, _⟩) u h.last
          · intro t' r' _ hl; exact hl
          · intro hsd rec' hr' p hp hk
            injection hr' with hr'; subst hr'
            exact h.last hsd t rec hrec p hp hk
      · -- a report which is taken into account
        -- the contract: `r` follows the last level reported
        have hr : r = lastRep rec + 1 := by
          rcases hok rec hrec hcont with hr | hrb
          · exact hr
          · rw [← eff.ignore, hig] at hrb; cases hrb
        obtain ⟨hM, hMlev⟩ := h.run t rec hrec hcont
        have hMle : milestoneOf y.sched.mgr t (lastRep rec) ≤ y.sched.mgr.maxT := by
          rcases hMlev with hm | hm
          · omega
          · exact Nat.le_of_lt (h.wf.2.1 _ hm)
        have hcE : ∀ L e0, EntIn y.sched.mgr.systems L e0 → e0.tid = t → L ≤ lastRep rec := by
          intro L e0 he0 ht
          obtain ⟨rec0, k1, k2, _⟩ := h.ent L e0 he0
          rw [ht, hrec] at k1; injection k1 with k1; subst k1; exact k2
        obtain ⟨F3, F4, F5⟩ := taskReport_live y.sched.mgr g t r v hint _ e o htr h.wf (lastRep rec) hr hM hMle hcE
        have F2 := eff.stop
        obtain ⟨_, _, x3, x4, _, _⟩ := shape_fields eff.shape
        have hMg : ∀ l', milestoneOf g t l' = milestoneOf y.sched.mgr t l' :=
          fun l' => milestoneOf_congr eff.shape (eff.view t) l'
        -- the milestone after this report
        have hM' : o.continues = true → r < milestoneOf g t r ∧
            (milestoneOf g t r = g.maxT ∨ milestoneOf g t r ∈ g.rungLevels) := by
          intro hc
          rw [hMg, x3, x4]
          cases hre : o.reached with
          | false =>
            obtain ⟨k1, k2⟩ := F4 hre
            rw [k2]
            exact ⟨by omega, hMlev⟩
          | true =>
            obtain ⟨n, _, k2, k3, k4⟩ := F5 hre hc
            rw [k2]; exact ⟨k3, k4⟩
        have hnext : o.continues = true → o.reached = true → o.next = some (milestoneOf g t r) := by
          intro hc hre
          obtain ⟨n, k1, k2, _⟩ := F5 hre hc
          rw [hMg, k2]; exact k1
        obtain ⟨rem, pend, hform, hrem, hpspec, hdo⟩ :=
          updateSearcher_spec ({ y.sched with mgr := g, costOffset := co } : Sched) t r v o rec hig
            (milestoneOf g t r) (fun hc => (hM' hc).1) hnext
        -- the record after the report
        have hne : r ≠ rec.lastUpdate r := by
          unfold TrialInfo.lastUpdate
          cases hlu : rec.largestUpdate with
          | none => simp only; omega
          | some l => simp only; have := h.upd t rec hrec l hlu; omega
        obtain ⟨hA1, hA2⟩ := afterReport_spec rec r v o
          (({ y.sched with mgr := g, costOffset := co } : Sched).updateSearcher t r v o rec).1 hne
        obtain ⟨u, hentsL, hmgr⟩ := liveSched_upd1 y.sched g co t r v rec o eff _ hA2 hcont
        rw [hcalls, hA1, hform]
        -- the searcher side
        have hrem' : rem = [] ∨ ∃ pr pv, rem = [SCall.removeCase t pr pv] ∧ y.st.isLabeled t pr = true := by
          rcases hrem with hrem | ⟨hsd, p, hp1, hp2, hp3⟩
          · exact Or.inl hrem
          · exact Or.inr ⟨p.2, p.1, hp3, h.last hsd t rec hrec p hp1 hp2⟩
        have hpend' : ∀ x ∈ pend, y.st.isLabeled t x = false := by
          intro x hx
          cases hl : y.st.isLabeled t x with
          | false => rfl
          | true =>
            obtain ⟨rec0, k1, k2⟩ := h.obs t x hl
            rw [hrec] at k1; injection k1 with k1; subst k1
            have := (hpspec x hx).2.1
            omega
        obtain ⟨st3, f1, f2, f3, f4, f5, f6⟩ := feed_result y.st t r v rem pend
          (({ y.sched with mgr := g, costOffset := co } : Sched).updateSearcher t r v o rec).1 h.owf hrem' hpend'
        rw [f1]
        refine ⟨?_, st3, rfl⟩
        simp only
        -- abbreviations
        generalize hdoU : (({ y.sched with mgr := g, costOffset := co } : Sched).updateSearcher t r v o rec).1 = doU at *
        generalize hs3 : liveSched y.sched g co t r v rec o = s3 at *
        have u' : Upd1 y.sched s3 t (some (recAfter rec r v o doU
            (({ y.sched with mgr := g, costOffset := co } : Sched).decisionFor r o))) := u
        clear u
        have hlastNew : ∀ d, lastRep (recAfter rec r v o doU d) = r := fun d => rfl
        have hdec : ∀ rec', some (recAfter rec r v o doU
              (({ y.sched with mgr := g, costOffset := co } : Sched).decisionFor r o)) = some rec' →
            lastRep rec' = r ∧ (rec'.decision = .continue → o.continues = true) ∧ rec'.reported = some (v, r) ∧
            rec'.keepCase = o.reached ∧ rec'.largestUpdate = (if doU = true then some r else rec.largestUpdate) := by
          intro rec' hr'
          injection hr' with hr'; subst hr'
          exact ⟨rfl, fun hd => (decisionFor_continue _ r o).mp hd, rfl, rfl, rfl⟩
        have hmono : ∀ rec0, alookup t y.sched.active = some rec0 →
            ∃ rec', some (recAfter rec r v o doU
              (({ y.sched with mgr := g, costOffset := co } : Sched).decisionFor r o)) = some rec' ∧
              lastRep rec0 ≤ lastRep rec' := by
          intro rec0 hr0; rw [hrec] at hr0; injection hr0 with hr0; subst hr0
          exact ⟨_, rfl, by rw [hlastNew]; omega⟩
        -- `update=True` whenever the level is (or may be) pending
        have hdoU' : doU = true ↔ (y.sched.searcherData ≠ .rungs ∨ r ∈ y.sched.mgr.rungLevels ∨ r = y.sched.mgr.maxT) := by
          rw [hdo]; show (_ ∨ r ∈ g.rungLevels ∨ r = g.maxT) ↔ _; rw [x3, x4]
        refine ⟨MgrWF_of_shape u'.shape h.wf, ?_, ?_, ?_, ?_, ?_, ?_, f3, ?_, ?_⟩
        · intro hpr
          exact hkinv (by rw [← u'.type]; exact hpr)
        · apply EntOK_upd1 u' h.ent hmono
          · intro L e0 he0
            rcases eff.ents L e0 (hentsL L e0 he0) with h1 | ⟨_, h2, h3, _⟩
            · exact Or.inl ⟨e0, h1, rfl, fun hp => hp⟩
            · exact Or.inr ⟨h3, _, rfl, by rw [hlastNew]; exact h2⟩
          · intro hp L e0 he0 ht hpe _ _
            -- a running trial has no unpromoted entry
            have hmem := EntIn_unpromoted he0 hpe
            obtain ⟨rec0, k1, k2⟩ := (h.kinv hp).paused e0.tid hmem
            rw [ht, hrec] at k1; injection k1 with k1; subst k1
            exact absurd hcont k2
        · apply RunningOK_upd1 u' h.run
          intro rec' hr' hd
          obtain ⟨d1, d2, _⟩ := hdec rec' hr'
          have hc := d2 hd
          rw [d1, hmgr hc]
          exact hM' hc
        · apply UpdOK_upd1 u' h.upd
          intro rec' hr' l hl
          obtain ⟨d1, _, _, _, d5⟩ := hdec rec' hr'
          rw [d1]
          rw [d5] at hl
          split at hl
          · injection hl with hl; omega
          · have := h.upd t rec hrec l hl; omega
        · rw [f2]
          split
          · exact nodup_dropPending _ _ _ (nodup_addPend _ _ _ h.pnd)
          · exact nodup_addPend _ _ _ h.pnd
        · apply PendOK_upd1 (y := y) (y' := ⟨s3, st3⟩) u' h.pend
          · intro p hp hne'
            simp only at hp
            rw [f2] at hp
            have hp' : p ∈ addPend t pend y.st.pending := by
              split at hp
              · exact mem_of_mem_dropPending _ _ _ _ hp
              · exact hp
            rcases (mem_addPend t _ _ p).mp hp' with hp' | ⟨hp', _⟩
            · exact hp'
            · exact absurd hp' hne'
          · intro p hp he
            simp only at hp
            rw [f2] at hp
            have hp' : p ∈ addPend t pend y.st.pending := by
              split at hp
              · exact mem_of_mem_dropPending _ _ _ _ hp
              · exact hp
            -- in every case: the trial continues, and `r < p.2 ≤` new milestone
            have key : o.continues = true ∧ r < p.2 ∧ p.2 ≤ milestoneOf g t r ∧
                (y.sched.searcherData = .rungs → p.2 = milestoneOf g t r) := by
              rcases (mem_addPend t _ _ p).mp hp' with hold | ⟨_, hnew⟩
              · obtain ⟨rec0, k1, _, k3, k4, k5⟩ := h.pend p hold
                rw [he, hrec] at k1; injection k1 with k1; subst k1
                rw [he] at k4 k5
                by_cases hpr : p.2 = r
                · -- the entry for the reported level has been dropped
                  exfalso
                  have hdt : doU = true := by
                    rw [hdoU']
                    by_cases hsd : y.sched.searcherData = .rungs
                    · right
                      have := k5 hsd
                      rw [← hpr, this]
                      rcases hMlev with hm | hm
                      · exact Or.inr hm
                      · exact Or.inl hm
                    · exact Or.inl hsd
                  simp only [hdt, if_true] at hp
                  have hpe : p = (t, r) := by
                    obtain ⟨a, b⟩ := p; simp only at he hpr; rw [he, hpr]
                  rw [hpe] at hp
                  exact not_mem_dropPending t r _ (nodup_addPend _ _ _ h.pnd) hp
                · have hlt : r < p.2 := by omega
                  have hnr : o.reached = false := by
                    cases hre : o.reached with
                    | false => rfl
                    | true => have := F3 hre; omega
                  have hc : o.continues = true := by
                    cases hcc : o.continues with
                    | true => rfl
                    | false => rw [F2 hcc] at hnr; cases hnr
                  obtain ⟨_, k7⟩ := F4 hnr
                  rw [hMg, k7]
                  exact ⟨hc, hlt, k4, k5⟩
              · exact hpspec p.2 hnew
            obtain ⟨kc, k1, k2, k3⟩ := key
            refine ⟨_, rfl, (decisionFor_continue _ r o).mpr kc, ?_⟩
            rw [hlastNew]
            show r < p.2 ∧ p.2 ≤ milestoneOf s3.mgr t r ∧ (s3.searcherData = .rungs → p.2 = milestoneOf s3.mgr t r)
            rw [hmgr kc, u'.sd]
            exact ⟨k1, k2, k3⟩
        · apply ObsOK_upd1 (y := y) (y' := ⟨s3, st3⟩) u' h.obs hmono
          intro t' r' hl
          rcases f4 t' r' hl with hl | ⟨_, h2, h3⟩
          · exact Or.inl hl
          · exact Or.inr ⟨h2, _, rfl, by rw [hlastNew, h3]⟩
        · apply LastOK_upd1 (y := y) (y' := ⟨s3, st3⟩) u' h.last
          · intro t' r' hne' hl; exact f5 t' r' hne' hl
          · intro hsd rec' hr' p hp _
            obtain ⟨_, _, d3, _, _⟩ := hdec rec' hr'
            rw [d3] at hp; injection hp with hp; subst hp
            apply f6
            rw [hdoU']
            left; rw [hsd]; simp

end SyneTune.C14Comp
