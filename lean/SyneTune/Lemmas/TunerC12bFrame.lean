import SyneTune.Lemmas.TunerC12
import SyneTune.Lemmas.TunerFail
/-
Behind C12b / C01b: which steps of the tuning-loop machine touch the tuning status, the running
set, `stop_condition_reached` (a *frame* lemma: all steps but those leaving six control points
leave them alone), how those six steps act, and counting lemmas on association lists
(`last_trial_status_seen`): counts of statuses after `dict.update`, the potential
`psi` = number of recorded trials that satisfy a status test OR are in the running set.
-/
namespace SyneTune.Tuner.Cnt
open SyneTune SyneTune.Tuner AL

/-! ### the frame -/

/-- the control points whose step may change `tuning_status`, `running_trials_ids` or
`stop_condition_reached` -/
def specialPc : Pc → Bool
  | .evalStop | .clock | .afterUpd | .startCb | .resumeCb | .finMark => true
  | _ => false

/-- the step leaves the status, the running set and `stop_condition_reached` alone -/
structure Frame (s s' : LState) : Prop where
  status : s'.status = s.status
  running : s'.running = s.running
  sr : s'.stopReached = s.stopReached

theorem addRow_running (s : LState) : (addRow s).running = s.running := by unfold addRow; split <;> rfl
theorem secondItem_running (s : LState) (t : Nat) (st : St) (rest : List (Nat × St)) :
    (secondItem s t st rest).running = s.running := by
  unfold secondItem; repeat' split
  all_goals rfl

theorem Frame.refl (s : LState) : Frame s s := ⟨rfl, rfl, rfl⟩

theorem frame_addRow (s : LState) (q : Pc) : Frame s { addRow s with pc := q } :=
  ⟨addRow_status s, addRow_running s, addRow_sr s⟩

theorem frame_secondItem (s : LState) (t : Nat) (st : St) (rest : List (Nat × St)) : Frame s (secondItem s t st rest) :=
  ⟨secondItem_status _ _ _ _, secondItem_running _ _ _ _, secondItem_sr _ _ _ _⟩

/-- **frame**: a step that does not leave one of the six special control points changes neither the
tuning status nor the running set nor `stop_condition_reached` -/
theorem next_frame (s : LState) (a : Ans) (h : specialPc s.pc = false) : Frame s (next s a) := by
  unfold next
  split
  all_goals (rename_i hpc)
  all_goals (try simp only [])
  all_goals (repeat' split)
  all_goals first
    | exact ⟨rfl, rfl, rfl⟩
    | exact frame_addRow s _
    | exact frame_secondItem s _ _ _
    | (exfalso; rw [hpc] at h; cases h; done)

/-- an exception raised inside the loop is a frame step -/
theorem frame_raiseFin (s : LState) (e : Raised) : Frame s (raiseFin s e) := ⟨rfl, rfl, rfl⟩

/-! how the six special control points are left -/

theorem next_evalStop (s : LState) (a : Ans) (hp : s.pc = .evalStop) :
    next s a = { s with pc := .clock } ∨ next s a = { s with stopReached := stopCond s 0, pc := .loopHead } := by
  simp only [next, hp]
  split
  · exact Or.inl rfl
  · exact Or.inr rfl

theorem next_clock (s : LState) (a : Ans) (hp : s.pc = .clock) :
    (∃ t, next s a = { s with stopReached := stopCond s t, pc := .loopHead }) ∨ next s a = raiseFin s .env := by
  simp only [next, hp]
  split
  · exact Or.inl ⟨_, rfl⟩
  · exact Or.inr rfl

theorem next_afterUpd (s : LState) (a : Ans) (hp : s.pc = .afterUpd) : next s a = afterUpdate s := by
  simp only [next, hp]

theorem next_startCb (s : LState) (a : Ans) (hp : s.pc = .startCb) :
    next s a = scheduled s s.sId ∨ next s a = raiseFin s .env := by
  simp only [next, hp]
  split
  · exact Or.inl rfl
  · exact Or.inr rfl

theorem next_resumeCb (s : LState) (a : Ans) (hp : s.pc = .resumeCb) :
    next s a = scheduled s s.sId ∨ next s a = raiseFin s .env := by
  simp only [next, hp]
  split
  · exact Or.inl rfl
  · exact Or.inr rfl

/-- `mark_running_job_as_stopped` (and the branch on `num_trials_failed > max_failures`) -/
theorem next_finMark (s : LState) (a : Ans) (hp : s.pc = .finMark) :
    (next s a).status = s.status.markStopped ∧ (next s a).running = s.running ∧
    (next s a).stopReached = s.stopReached ∧ (next s a).nStarted = s.nStarted ∧ (next s a).err = s.err ∧
    ((next s a).pc = .hfOut ∨ (next s a).pc = .done) := by
  simp only [next, hp]
  repeat' split
  all_goals first
    | exact ⟨rfl, rfl, rfl, rfl, rfl, Or.inl rfl⟩
    | exact ⟨rfl, rfl, rfl, rfl, rfl, Or.inr rfl⟩

/-! ### classes of control points and how `flow` moves between them (finite checks) -/

/-- from the `while` test to the end of `_process_new_results`, before `tuning_status.update` -/
def prePc : Pc → Bool
  | .loopHead => true
  | p => iterPc p

/-- inside the loop, or at the entry of the `finally` block (status and running set as the loop left them) -/
def ipPc (p : Pc) : Bool := !finPc p || p == .finTuningEnd

/-- after `mark_running_job_as_stopped` (or after an exception inside the `finally` block) -/
def markedPc : Pc → Bool
  | .hfOut | .hfErr | .done => true
  | _ => false

theorem pre_back (p q : Pc) (hf : flow p q = true) (hq : prePc q = true) (hn : q ≠ .loopHead) : prePc p = true := by
  have key : ∀ p q, (!(flow p q && prePc q && q != .loopHead) || prePc p) = true :=
    Pc.forall2_of_all (P := fun p q => !(flow p q && prePc q && q != .loopHead) || prePc p) (by decide)
  have := key p q
  have hn' : (q != Pc.loopHead) = true := by simp [hn]
  simpa [hf, hq, hn'] using this

theorem loopHead_from (p : Pc) (hf : flow p .loopHead = true) : specialPc p = true := by
  have key : ∀ p, (!(flow p .loopHead) || specialPc p) = true :=
    Pc.forall_of_all (P := fun p => !(flow p .loopHead) || specialPc p) (by decide)
  have := key p
  simpa [hf] using this

theorem fin_back (p q : Pc) (hf : flow p q = true) (hq : finPc q = false) : finPc p = false := by
  have key : ∀ p q, (!(flow p q && !finPc q) || !finPc p) = true :=
    Pc.forall2_of_all (P := fun p q => !(flow p q && !finPc q) || !finPc p) (by decide)
  have := key p q
  simpa [hf, hq] using this

theorem ip_back (p q : Pc) (hf : flow p q = true) (hq : ipPc q = true) : ipPc p = true := by
  have key : ∀ p q, (!(flow p q && ipPc q) || ipPc p) = true :=
    Pc.forall2_of_all (P := fun p q => !(flow p q && ipPc q) || ipPc p) (by decide)
  have := key p q
  simpa [hf, hq] using this

theorem marked_back (p q : Pc) (hf : flow p q = true) (hq : markedPc q = false) : markedPc p = false := by
  have key : ∀ p q, (!(flow p q && !markedPc q) || !markedPc p) = true :=
    Pc.forall2_of_all (P := fun p q => !(flow p q && !markedPc q) || !markedPc p) (by decide)
  have := key p q
  simpa [hf, hq] using this

/-- a state of the `finally` block past its entry is reached from the `finally` block -/
theorem notip_back (p q : Pc) (hf : flow p q = true) (hq : ipPc q = false) : finPc p = true := by
  have key : ∀ p q, (!(flow p q && !ipPc q) || finPc p) = true :=
    Pc.forall2_of_all (P := fun p q => !(flow p q && !ipPc q) || finPc p) (by decide)
  have := key p q
  simpa [hf, hq] using this

theorem ip_of_loop {p : Pc} (h : finPc p = false) : ipPc p = true := by unfold ipPc; rw [h]; rfl

/-! ### counting statuses -/

/-- number of entries whose status passes the test (`TuningStatus._num_trials`) -/
def cnt (p : St → Bool) (l : List (Nat × St)) : Nat := l.countP (fun kv => p kv.2)

/-- number of entries whose status passes the test or whose trial is in `R` -/
def psi (p : St → Bool) (R : List Nat) (l : List (Nat × St)) : Nat :=
  l.countP (fun kv => p kv.2 || decide (kv.1 ∈ R))

theorem numIn_eq (ts : TStatus) (p : St → Bool) : ts.numIn p = cnt p ts.last := by
  unfold TStatus.numIn cnt; rw [List.countP_eq_length_filter]

theorem cnt_le_psi (p : St → Bool) (R : List Nat) (l : List (Nat × St)) : cnt p l ≤ psi p R l := by
  unfold cnt psi
  apply List.countP_mono_left
  intro x _ hx
  simp [hx]

theorem cnt_mono {p q : St → Bool} (h : ∀ v, p v = true → q v = true) (l : List (Nat × St)) : cnt p l ≤ cnt q l := by
  unfold cnt
  apply List.countP_mono_left
  intro x _ hx
  exact h _ hx

theorem psi_mono_R (p : St → Bool) {R R' : List Nat} (h : ∀ x ∈ R', x ∈ R) (l : List (Nat × St)) :
    psi p R' l ≤ psi p R l := by
  unfold psi
  apply List.countP_mono_left
  intro x _ hx
  simp only [Bool.or_eq_true, decide_eq_true_eq] at hx ⊢
  rcases hx with hx | hx
  · exact Or.inl hx
  · exact Or.inr (h _ hx)

theorem countP_or_le {α} (a b : α → Bool) (l : List α) :
    l.countP (fun x => a x || b x) ≤ l.countP a + l.countP b := by
  induction l with
  | nil => simp
  | cons x xs ih =>
    simp only [List.countP_cons]
    cases ha : a x <;> cases hb : b x <;> simp <;> omega

/-- the entries whose key lies in `R` are at most `|R|` (distinct keys) -/
theorem countP_mem_le (R : List Nat) (l : List (Nat × St)) (hn : (keys l).Nodup) :
    l.countP (fun kv => decide (kv.1 ∈ R)) ≤ R.length := by
  rw [List.countP_eq_length_filter]
  have h1 : ((l.filter (fun kv => decide (kv.1 ∈ R))).map (·.1)).length = (l.filter (fun kv => decide (kv.1 ∈ R))).length := by
    simp
  rw [← h1]
  apply List.Nodup.length_le_of_subset
  · exact List.Nodup.sublist (List.Sublist.map _ List.filter_sublist) hn
  · intro x hx
    obtain ⟨kv, hkv, rfl⟩ := List.mem_map.mp hx
    have := (List.mem_filter.mp hkv).2
    simpa using this

theorem psi_le (p : St → Bool) (R : List Nat) (l : List (Nat × St)) (hn : (keys l).Nodup) :
    psi p R l ≤ cnt p l + R.length := by
  unfold psi cnt
  exact Nat.le_trans (countP_or_le _ _ l) (Nat.add_le_add_left (countP_mem_le R l hn) _)

/-- `dict[k] = v` for a key that is present and in `R` does not change `psi` -/
theorem psi_aset_mem (p : St → Bool) (R : List Nat) (k : Nat) (v : St) (l : List (Nat × St))
    (hR : k ∈ R) (hk : k ∈ keys l) : psi p R (aset k v l) = psi p R l := by
  induction l with
  | nil => simp [keys] at hk
  | cons x xs ih =>
    obtain ⟨k', v'⟩ := x
    by_cases h : k = k'
    · subst h
      simp [aset, psi, hR]
    · have hk' : k ∈ keys xs := by
        simp only [keys, List.map_cons, List.mem_cons] at hk
        rcases hk with hk | hk
        · exact absurd hk h
        · exact hk
      have := ih hk'
      unfold psi at this ⊢
      simp only [aset, h, if_false, List.countP_cons, this]

theorem psi_aupdate (p : St → Bool) (R : List Nat) (items l : List (Nat × St))
    (h : ∀ k ∈ keys items, k ∈ R ∧ k ∈ keys l) : psi p R (aupdate l items) = psi p R l := by
  induction items generalizing l with
  | nil => rfl
  | cons x xs ih =>
    rw [aupdate_cons]
    have hx := h x.1 (by simp [keys])
    have hk : keys (aset x.1 x.2 l) = keys l := by rw [keys_aset]; simp [hx.2]
    rw [ih, psi_aset_mem p R _ _ _ hx.1 hx.2]
    intro k hk'
    rw [hk]
    exact h k (by simp only [keys, List.map_cons, List.mem_cons] at hk' ⊢; exact Or.inr hk')

/-- recording `in_progress` for a trial does not raise the count of a test that `in_progress` fails -/
theorem cnt_aset_le (p : St → Bool) (k : Nat) (v : St) (l : List (Nat × St)) (hv : p v = false) :
    cnt p (aset k v l) ≤ cnt p l := by
  induction l with
  | nil => simp [aset, cnt, hv]
  | cons x xs ih =>
    obtain ⟨k', v'⟩ := x
    unfold cnt at ih ⊢
    by_cases h : k = k'
    · simp only [aset, h, if_true, List.countP_cons, hv, Bool.false_eq_true, if_false, Nat.add_zero]
      exact Nat.le_add_right _ _
    · simp only [aset, h, if_false, List.countP_cons]
      omega

/-- a status test that `mark_running_job_as_stopped` cannot tell apart -/
def MarkInv (p : St → Bool) : Prop := p .inProgress = p .stopped

theorem cnt_markStopped (p : St → Bool) (hp : MarkInv p) (ts : TStatus) : ts.markStopped.numIn p = ts.numIn p := by
  rw [numIn_eq, numIn_eq]
  unfold TStatus.markStopped cnt
  simp only []
  rw [List.countP_map]
  apply List.countP_congr
  intro x _
  simp only [Function.comp]
  by_cases hx : x.2 = .inProgress
  · simp only [hx, if_true]; rw [hp]
  · simp only [hx, if_false]

/-! ### the two steps that change the recorded statuses -/

theorem scheduled_last (s : LState) (t : Nat) : (scheduled s t).status.last = aset t .inProgress s.status.last := by
  unfold scheduled addRunning
  split <;> exact update_last _ _ _

theorem afterUpdate_last (s : LState) : (afterUpdate s).status.last = aupdate s.status.last (aupdate s.sd s.done) :=
  update_last _ _ _

theorem afterUpdate_running (s : LState) : (afterUpdate s).running = s.running.filter (fun t => !hasKey t s.done) := rfl

/-- the keys that `tuning_status.update` of `_process_new_results` writes are running trials already recorded -/
theorem upd_keys {s : LState} (hS : SInv s) (hp : s.pc = .afterUpd) :
    ∀ k ∈ keys (aupdate s.sd s.done), k ∈ s.running ∧ k ∈ keys s.status.last := by
  have hu : updPc s.pc = true := by rw [hp]; rfl
  have hk' : keys (aupdate s.sd s.done) = keys s.sd := keys_aupdate_of_subset _ _ (hS.doneOK hu).2
  intro k hk
  rw [hk'] at hk
  obtain ⟨kv, hkv, rfl⟩ := List.mem_map.mp hk
  have hr := (hS.sdRun hu kv hkv).1
  exact ⟨hr, hS.runLast _ hr⟩

/-- **the potential does not grow in `_process_new_results`**: a trial that newly passes the status
test was in the running set before -/
theorem psi_afterUpdate (p : St → Bool) {s : LState} (hS : SInv s) (hp : s.pc = .afterUpd) :
    psi p (afterUpdate s).running (afterUpdate s).status.last ≤ psi p s.running s.status.last := by
  rw [afterUpdate_last, afterUpdate_running]
  refine Nat.le_trans (psi_mono_R p (R := s.running) (fun x hx => (List.mem_filter.mp hx).1) _) ?_
  rw [psi_aupdate p s.running _ _ (upd_keys hS hp)]
  exact Nat.le_refl _

end SyneTune.Tuner.Cnt
