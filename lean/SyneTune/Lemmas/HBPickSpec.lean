import SyneTune.Lemmas.HBContractK
import SyneTune.Props.C04
/- What `_find_promotable_trial` picks, for every promotion-type rung system. -/
namespace SyneTune

theorem rushFirstPromotable_spec (m : Mode) (numThr level : Nat) (l : List Entry) (start : Nat)
    (thr thr' : List (Nat × Rat)) (e : Entry) (pos : Nat)
    (h : rushFirstPromotable m numThr level l start thr = (some (e, pos), thr')) :
    start ≤ pos ∧ l[pos - start]? = some e ∧ e.promoted = false := by
  induction l generalizing start thr with
  | nil => simp [rushFirstPromotable] at h
  | cons x xs ih =>
    unfold rushFirstPromotable at h
    simp only at h
    by_cases hd : (rushDecide m numThr thr (!x.promoted) x.tid x.val level).1 = true
    · simp only [hd, if_true, Prod.mk.injEq, Option.some.injEq] at h
      obtain ⟨⟨h1, h2⟩, _⟩ := h
      subst h1; subst h2
      have hp : x.promoted = false := by
        unfold rushDecide at hd
        cases hx : x.promoted with
        | false => rfl
        | true => simp [hx] at hd
      simp [hp]
    · simp only [hd, Bool.false_eq_true, if_false] at h
      obtain ⟨h1, h2, h3⟩ := ih (start + 1) _ h
      refine ⟨by omega, ?_, h3⟩
      have : pos - start = (pos - (start + 1)) + 1 := by omega
      rw [this, List.getElem?_cons_succ]; exact h2

theorem quantileTest_pick (m : Mode) (rg : Rung) (c : Rat) (hint : Option Nat) (cand : Option (Entry × Nat))
    (thr : List (Nat × Rat)) (tid pos : Nat) (h : (quantileTest m rg c hint cand thr).pick = some (tid, pos)) :
    ∃ e, cand = some (e, pos) ∧ e.tid = tid := by
  unfold quantileTest at h
  cases cand with
  | none => simp at h
  | some ep =>
    obtain ⟨e, p⟩ := ep
    simp only at h
    split at h
    · simp only [Option.some.injEq, Prod.mk.injEq] at h
      exact ⟨e, by rw [h.2], h.1⟩
    · simp at h

theorem findPromotableQ_pick (rush : Bool) (m : Mode) (numThr : Nat) (thr : List (Nat × Rat)) (rg : Rung)
    (hint : Option Nat) (tid pos : Nat) (h : (findPromotableQ rush m numThr thr rg hint).pick = some (tid, pos)) :
    ∃ e, rg.data[pos]? = some e ∧ e.tid = tid ∧ e.promoted = false := by
  unfold findPromotableQ at h
  cases hcut : rg.cutoff m with
  | none => simp [hcut] at h
  | some c =>
    simp only [hcut] at h
    cases rush with
    | true =>
      simp only [if_true] at h
      obtain ⟨e, h1, h2⟩ := quantileTest_pick m rg c hint _ _ tid pos h
      cases hrf : rushFirstPromotable m numThr rg.level rg.data 0 thr with
      | mk r1 r2 =>
        rw [hrf] at h1
        simp only at h1
        subst h1
        obtain ⟨_, g2, g3⟩ := rushFirstPromotable_spec m numThr rg.level rg.data 0 thr r2 e pos hrf
        exact ⟨e, by simpa using g2, h2, g3⟩
    | false =>
      simp only [Bool.false_eq_true, if_false] at h
      obtain ⟨e, h1, h2⟩ := quantileTest_pick m rg c hint _ _ tid pos h
      obtain ⟨_, g2, g3, _⟩ := firstUnpromoted_spec rg.data 0 e pos h1
      exact ⟨e, by simpa using g2, h2, g3⟩

theorem findPromotableCost_pick (thr : List (Nat × Rat)) (rg : Rung) (hint : Option Nat) (tid pos : Nat)
    (h : (findPromotableCost thr rg hint).pick = some (tid, pos)) :
    ∃ e, rg.data[pos]? = some e ∧ e.tid = tid ∧ e.promoted = false := by
  unfold findPromotableCost at h
  split at h
  · simp only at h
    cases hr : costFirstPromotable ((rg.data.map (·.cost)).foldl (· + ·) 0 * rg.q)
        ((rg.data.map (·.cost)).foldl (· + ·) 0) rg.level hint rg.data 0 0 with
    | mk r1 r2 =>
      rw [hr] at h
      cases r1 with
      | none => simp at h
      | some ep =>
        obtain ⟨e, p⟩ := ep
        simp only [Option.map_some, Option.some.injEq, Prod.mk.injEq] at h
        obtain ⟨h1, h2⟩ := h
        subst h2
        obtain ⟨pre, post, g1, g2, g3, _, _⟩ := C04.cost_rule _ _ _ _ _ _ _ e p r2 hr
        refine ⟨e, ?_, h1, g3⟩
        rw [g1, g2]; simp
  · simp at h

/-- for every promotion type: the picked position holds an unpromoted entry of the picked trial -/
theorem findPromotable_pick_spec (ty : HBType) (m : Mode) (numThr : Nat) (thr : List (Nat × Rat)) (rg : Rung)
    (hint : Option Nat) (tid pos : Nat) (h : (findPromotable ty m numThr thr rg hint).pick = some (tid, pos)) :
    ∃ e, rg.data[pos]? = some e ∧ e.tid = tid ∧ e.promoted = false := by
  unfold findPromotable at h
  cases ty <;> first
    | exact findPromotableCost_pick thr rg hint tid pos h
    | exact findPromotableQ_pick _ m numThr thr rg hint tid pos h

/-- the promotion scan of any promotion type: one occurrence of the promoted trial disappears
from the unpromoted ids; with no promotion no rung changes -/
theorem promoScan_unpromoted_any (ty : HBType) (m : Mode) (numThr cap : Nat)
    (hint : Option Nat) (next : Nat) (thr : List (Nat × Rat)) (rs : List Rung) :
    (∀ o, (promoScan ty m numThr cap hint next thr rs).out = some o →
        (unpromotedOf rs).Perm (o.trial :: unpromotedOf (promoScan ty m numThr cap hint next thr rs).rungs)) ∧
    ((promoScan ty m numThr cap hint next thr rs).out = none →
        (promoScan ty m numThr cap hint next thr rs).rungs = rs) := by
  constructor
  · intro o h
    obtain ⟨pre, rg, post, thr', pos, h1, _, _, h4, h5, _⟩ := promoScan_some ty m numThr cap hint next thr rs o h
    obtain ⟨e, g1, g2, g3⟩ := findPromotable_pick_spec ty m numThr thr' rg hint o.trial pos h4
    rw [h5, h1, ← g2]
    exact unpromotedOf_replace_del pre post rg _ e.tid (unpromoted_mark m rg pos e g1 g3)
  · induction rs generalizing next thr with
    | nil => intro _; simp [promoScan]
    | cons rg rest ih =>
      intro h
      unfold promoScan at h ⊢
      by_cases hc : rg.level < cap
      · simp only [hc, if_true] at h ⊢
        cases hp : (findPromotable ty m numThr thr rg hint).pick with
        | some tp => obtain ⟨tid, pos⟩ := tp; simp [hp] at h
        | none => simp only [hp] at h ⊢; rw [ih _ _ h]
      · simp only [hc, if_false] at h ⊢
        rw [ih _ _ h]

end SyneTune
